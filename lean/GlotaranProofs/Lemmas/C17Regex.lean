/-
C17 — the generated regular expressions, interpreted by the regex machine, equal their closed forms.

The closed forms (`tupleWordMatchDet`, `wordRunsAux`, `sciRestDet`, `renderPair`) are hand-written readings of the
three patterns of glotaran/utils/regex.py; the theorems `…_eq_det` say that running the *generated* pattern
(`Generated/C17.lean`) through the backtracking engine of `GlotaranModel/C17Regex.lean`, the way the code applies it,
computes exactly that.  The proofs go through shape lemmas with abstract character classes (what has to be
disjoint from / contained in what) and class lemmas for the generated classes.
-/
import GlotaranModel.C17
namespace Glotaran.C17
open Regex

/-! ### closed forms -/

/-- `[.\s\w\d]` -/
def classA (c : Char) : Bool := c == '.' || isSpaceChar c || isWordChar c
/-- `[,.\s\w\d]` -/
def classB (c : Char) : Bool := c == ',' || classA c

/-- `rp.tuple_word.match(s)`: `(\([.\s\w\d]+?[,.\s\w\d]*?\))` anchored at the start only.
    `)` is in neither class, so the lazy quantifiers have exactly one way to succeed. -/
def tupleWordMatchDet : Str → Bool
  | p :: a :: rest =>
    p == '(' && classA a && (match rest.dropWhile classB with
                             | q :: _ => q == ')'
                             | [] => false)
  | _ => false

/-- `rp.word.findall(s)`: the maximal runs of word characters; `cur` is the run being read (reversed) -/
def wordRunsAux : Str → Str → List Str
  | [], cur => if cur.isEmpty then [] else [cur.reverse]
  | c :: cs, cur =>
    if isWordChar c then wordRunsAux cs (c :: cur)
    else if cur.isEmpty then wordRunsAux cs []
    else cur.reverse :: wordRunsAux cs []

def isSign (c : Char) : Bool := c == '+' || c == '-'
def isExpChar (c : Char) : Bool := c == 'E' || c == 'e'
def isDotChar (c : Char) : Bool := c == '.'

/-- an optional single character -/
def dropOpt (p : Char → Bool) : Str → Str
  | x :: xs => if p x then xs else x :: xs
  | [] => []

/-- `[0-9]+` (greedy, nothing behind it can start with a digit): the rest -/
def digitsThen (s : Str) : Option Str :=
  if (s.takeWhile Char.isDigit).isEmpty then none else some (s.dropWhile Char.isDigit)

/-- `[0-9]+` and then the end of the string (`fullmatch`): `some []` or no match -/
def digitsEnd (s : Str) : Option Str :=
  if (s.takeWhile Char.isDigit).isEmpty then none
  else if (s.dropWhile Char.isDigit).isEmpty then some [] else none

/-- `[eE][-+]?[0-9]+` and then the end of the string -/
def sciExp : Str → Option Str
  | e :: rest => if isExpChar e then digitsEnd (dropOpt isSign rest) else none
  | [] => none

/-- `rp.number_scientific.fullmatch(s)`: `[-+]?[0-9]*\.?[0-9]+([eE][-+]?[0-9]+)` anchored at both ends; what follows
    the match (`some []`: the whole string is a number in scientific notation; `none`: it is not).  After the sign
    and all leading digits either `.digits` and the exponent follow, or (giving the last leading digit to `[0-9]+`)
    the exponent follows directly; in both cases the digits of the exponent must reach the end of the string. -/
def sciRestDet (s : Str) : Option Str :=
  let s1 := dropOpt isSign s
  let r1 := s1.dropWhile Char.isDigit
  match (digitsThen (dropOpt isDotChar r1)).bind sciExp with
  | some rest => some rest
  | none => if (s1.takeWhile Char.isDigit).isEmpty then none else sciExp r1

/-- the whole string is sign? digits* (`.`? digits+) `[eE]` sign? digits+ -/
def sciFullDet (s : Str) : Bool := (sciRestDet s).isSome

/-! ### list facts -/

theorem drop_takeWhile_length {α} (p : α → Bool) (l : List α) : l.drop (l.takeWhile p).length = l.dropWhile p := by
  induction l with
  | nil => rfl
  | cons x xs ih => by_cases h : p x <;> simp [List.takeWhile_cons, List.dropWhile_cons, h, ih]

theorem take_takeWhile_length {α} (p : α → Bool) (l : List α) : l.take (l.takeWhile p).length = l.takeWhile p := by
  induction l with
  | nil => rfl
  | cons x xs ih => by_cases h : p x <;> simp [List.takeWhile_cons, h, ih]

theorem dropWhile_head_false {α} {p : α → Bool} {l : List α} {d : α} {ds : List α} (h : l.dropWhile p = d :: ds) :
    p d = false := by
  induction l with
  | nil => simp at h
  | cons x xs ih =>
    by_cases hx : p x
    · simp only [List.dropWhile_cons, hx, if_true] at h; exact ih h
    · simp only [List.dropWhile_cons, hx, Bool.false_eq_true, if_false, List.cons.injEq] at h
      obtain ⟨rfl, _⟩ := h
      simpa using hx

/-! ### runs -/

theorem runLen_nil (c : Cls) : runLen c [] = 0 := rfl

theorem runLen_cons (c : Cls) (x : Char) (xs : Str) :
    runLen c (x :: xs) = if c.test x = true then runLen c xs + 1 else 0 := by
  unfold runLen
  by_cases h : c.test x <;> simp [List.takeWhile_cons, h]

theorem runLen_le_length (c : Cls) (s : Str) : runLen c s ≤ s.length := by
  induction s with
  | nil => simp [runLen]
  | cons x xs ih => rw [runLen_cons]; split <;> simp <;> omega

theorem drop_runLen (c : Cls) (s : Str) : s.drop (runLen c s) = s.dropWhile c.test := drop_takeWhile_length _ _

theorem take_runLen (c : Cls) (s : Str) : s.take (runLen c s) = s.takeWhile c.test := take_takeWhile_length _ _

theorem head_of_lt_runLen (c : Cls) (s : Str) (j : Nat) (h : j < runLen c s) :
    ∃ x xs, s.drop j = x :: xs ∧ c.test x = true := by
  induction s generalizing j with
  | nil => simp [runLen] at h
  | cons y ys ih =>
    rw [runLen_cons] at h
    by_cases hy : c.test y = true
    · rw [if_pos hy] at h
      cases j with
      | zero => exact ⟨y, ys, rfl, hy⟩
      | succ j => simpa using ih j (by omega)
    · rw [if_neg hy] at h; omega

theorem runLen_drop (c : Cls) (s : Str) (j : Nat) (h : j ≤ runLen c s) : runLen c (s.drop j) = runLen c s - j := by
  induction s generalizing j with
  | nil => simp [runLen]
  | cons y ys ih =>
    cases j with
    | zero => simp
    | succ j =>
      rw [runLen_cons] at h ⊢
      by_cases hy : c.test y = true
      · rw [if_pos hy] at h ⊢
        simp only [List.drop_succ_cons]
        rw [ih j (by omega)]; omega
      · rw [if_neg hy] at h; omega

theorem runLen_of_head_false (c : Cls) (x : Char) (xs : Str) (h : c.test x = false) : runLen c (x :: xs) = 0 := by
  rw [runLen_cons]; simp [h]

theorem runLen_mono (a b : Cls) (hab : ∀ x, a.test x = true → b.test x = true) (s : Str) : runLen a s ≤ runLen b s := by
  induction s with
  | nil => simp [runLen]
  | cons x xs ih =>
    rw [runLen_cons, runLen_cons]
    by_cases hx : a.test x = true
    · rw [if_pos hx, if_pos (hab x hx)]; omega
    · rw [if_neg hx]; omega

theorem dropWhile_drop_of_le_runLen (c : Cls) (s : Str) (j : Nat) (h : j ≤ runLen c s) :
    (s.drop j).dropWhile c.test = s.dropWhile c.test := by
  rw [← drop_runLen, ← drop_runLen, runLen_drop c s j h, List.drop_drop]
  congr 1; omega

theorem drop_min_one_runLen (c : Cls) (s : Str) : s.drop (capLen (some 1) (runLen c s)) = dropOpt c.test s := by
  cases s with
  | nil => simp [dropOpt]
  | cons x xs =>
    rw [runLen_cons]
    by_cases hx : c.test x = true
    · rw [if_pos hx]
      have : capLen (some 1) (runLen c xs + 1) = 1 := by simp [capLen]
      simp [this, dropOpt, hx]
    · rw [if_neg hx]; simp [capLen, dropOpt, hx]

/-! ### the two loops -/

theorem tryUp_const (k : Str → Option Str) (s : Str) (f cur : Nat)
    (h : ∀ i, i ≤ f → k (s.drop (cur + i)) = k (s.drop cur)) : tryUp k s f cur = k (s.drop cur) := by
  induction f generalizing cur with
  | zero => rfl
  | succ f ih =>
    simp only [tryUp]
    cases hk : k (s.drop cur) with
    | some r => rfl
    | none =>
      have h1 := h 1 (by omega)
      rw [ih (cur + 1) (fun i hi => by
        have := h (i + 1) (by omega)
        rw [show cur + 1 + i = cur + (i + 1) by omega, this, h1])]
      rw [h1, hk]

theorem tryDown_const (k : Str → Option Str) (s : Str) (lo e : Nat)
    (h : ∀ i, i ≤ e → k (s.drop (lo + i)) = k (s.drop lo)) : tryDown k s lo e = k (s.drop lo) := by
  induction e with
  | zero => rfl
  | succ e ih =>
    simp only [tryDown]
    have h1 := h (e + 1) (by omega)
    rw [h1]
    cases hk : k (s.drop lo) with
    | some r => rfl
    | none => rw [ih (fun i hi => h i (by omega)), hk]

theorem tryDown_top (k : Str → Option Str) (s : Str) (lo e : Nat) (r : Str) (h : k (s.drop (lo + e)) = some r) :
    tryDown k s lo e = some r := by
  cases e with
  | zero => simpa [tryDown] using h
  | succ e => simp only [tryDown]; rw [h]

/-- a continuation that cannot start with a character of the class makes the greedy loop deterministic -/
theorem tryDown_det (k : Str → Option Str) (s : Str) (lo e : Nat) (c : Cls)
    (hk : ∀ x xs, c.test x = true → k (x :: xs) = none) (hn : lo + e ≤ runLen c s) :
    tryDown k s lo e = k (s.drop (lo + e)) := by
  induction e with
  | zero => rfl
  | succ e ih =>
    simp only [tryDown]
    cases hk' : k (s.drop (lo + (e + 1))) with
    | some r => rfl
    | none =>
      rw [ih (by omega)]
      obtain ⟨x, xs, hx, hc⟩ := head_of_lt_runLen c s (lo + e) (by omega)
      rw [hx, hk x xs hc]

theorem tryUp_det (k : Str → Option Str) (s : Str) (f cur : Nat) (c : Cls)
    (hk : ∀ x xs, c.test x = true → k (x :: xs) = none) (hn : cur + f ≤ runLen c s) :
    tryUp k s f cur = k (s.drop (cur + f)) := by
  induction f generalizing cur with
  | zero => rfl
  | succ f ih =>
    simp only [tryUp]
    obtain ⟨x, xs, hx, hc⟩ := head_of_lt_runLen c s cur (by omega)
    rw [hx, hk x xs hc]
    rw [ih (cur + 1) (by omega), show cur + 1 + f = cur + (f + 1) by omega]

theorem capLen_le (hi : Option Nat) (n : Nat) : capLen hi n ≤ n := by
  cases hi <;> simp [capLen]; omega

/-- a repeat whose continuation cannot start with a character of its class takes all it can get -/
theorem matchItems_rep_det (acc : Str → Bool) (g : Bool) (lo : Nat) (hi : Option Nat) (c : Cls) (rest : List Item) (s : Str)
    (hk : ∀ x xs, c.test x = true → matchItems acc rest (x :: xs) = none) :
    matchItems acc (.rep g lo hi c :: rest) s =
      if capLen hi (runLen c s) < lo then none else matchItems acc rest (s.drop (capLen hi (runLen c s))) := by
  simp only [matchItems]
  have hle := capLen_le hi (runLen c s)
  by_cases hlt : capLen hi (runLen c s) < lo
  · simp [hlt]
  · rw [if_neg hlt, if_neg hlt]
    cases g with
    | true =>
      rw [if_pos rfl, tryDown_det _ s lo _ c hk (by omega), show lo + (capLen hi (runLen c s) - lo) = capLen hi (runLen c s) by omega]
    | false =>
      rw [if_neg (by simp), tryUp_det _ s _ lo c hk (by omega), show lo + (capLen hi (runLen c s) - lo) = capLen hi (runLen c s) by omega]

theorem matchItems_one (acc : Str → Bool) (c : Cls) (rest : List Item) (s : Str) :
    matchItems acc (.one c :: rest) s =
      match s with
      | x :: xs => if c.test x = true then matchItems acc rest xs else none
      | [] => none := by
  cases s <;> simp [matchItems]

theorem matchItems_rep_greedy_unfold (acc : Str → Bool) (lo : Nat) (c : Cls) (rest : List Item) (s : Str) :
    matchItems acc (.rep true lo none c :: rest) s =
      if runLen c s < lo then none else tryDown (matchItems acc rest) s lo (runLen c s - lo) := by
  simp [matchItems, capLen]

theorem matchItems_rep_lazy_unfold (acc : Str → Bool) (lo : Nat) (c : Cls) (rest : List Item) (s : Str) :
    matchItems acc (.rep false lo none c :: rest) s =
      if runLen c s < lo then none else tryUp (matchItems acc rest) s (runLen c s - lo) lo := by
  simp [matchItems, capLen]

/-- `class+` (greedy) at the end of a pattern -/
theorem matchItems_plus_last (acc : Str → Bool) (c : Cls) (s : Str)
    (hacc : ∀ j, 1 ≤ j → j ≤ s.length → acc (s.drop j) = true) :
    matchItems acc [.rep true 1 none c] s = if runLen c s < 1 then none else some (s.drop (runLen c s)) := by
  rw [matchItems_rep_greedy_unfold]
  by_cases hlt : runLen c s < 1
  · simp [hlt]
  · rw [if_neg hlt, if_neg hlt]
    apply tryDown_top
    have : 1 + (runLen c s - 1) = runLen c s := by omega
    rw [this]
    simp [matchItems, hacc _ (by omega) (runLen_le_length c s)]

/-! ### shape: `P A+? B*? Q` with `A ⊆ B`, `Q` disjoint from `B` -/

theorem lazyTuple_shape (P A B Q : Cls) (hAB : ∀ x, A.test x = true → B.test x = true)
    (hBQ : ∀ x, B.test x = true → Q.test x = false) (s : Str) :
    (matchItems (fun _ => true) [.one P, .rep false 1 none A, .rep false 0 none B, .one Q] s).isSome =
      match s with
      | p :: a :: rest =>
        P.test p && A.test a && (match rest.dropWhile B.test with
                                 | q :: _ => Q.test q
                                 | [] => false)
      | _ => false := by
  -- the last two items, as a function of the text
  have hB : matchItems (fun _ => true) [.rep false 0 none B, .one Q]
      = fun t => matchItems (fun _ => true) [.one Q] (t.dropWhile B.test) := by
    funext t
    rw [matchItems_rep_det _ _ _ _ _ _ _ (by
      intro x xs hx
      simp [matchItems, hBQ x hx])]
    simp [capLen, drop_runLen]
  have hQ : ∀ t, (matchItems (fun _ => true) [.one Q] t).isSome = (match t with
      | q :: _ => Q.test q
      | [] => false) := by
    intro t
    cases t with
    | nil => simp [matchItems]
    | cons q qs => by_cases hq : Q.test q = true <;> simp [matchItems, hq]
  match s with
  | [] => simp [matchItems]
  | [p] =>
    rw [matchItems_one]
    by_cases hp : P.test p = true <;> simp [hp, matchItems_rep_lazy_unfold, runLen]
  | p :: a :: rest =>
    rw [matchItems_one]
    by_cases hp : P.test p = true
    · simp only [hp, if_true, Bool.true_and]
      rw [matchItems_rep_lazy_unfold, runLen_cons]
      by_cases ha : A.test a = true
      · simp only [ha, if_true, Bool.true_and]
        rw [if_neg (by omega), hB, tryUp_const]
        · simp only [List.drop_succ_cons, List.drop_zero]
          exact hQ _
        · intro i hi
          have hrun : 1 + i ≤ runLen B (a :: rest) := by
            have := runLen_mono A B hAB (a :: rest)
            rw [runLen_cons A, if_pos ha] at this
            omega
          rw [dropWhile_drop_of_le_runLen B _ _ hrun, dropWhile_drop_of_le_runLen B _ 1 (by omega)]
      · simp [ha]
    · simp [hp]

/-! ### shape: `S? D* T? D+ E S? D+` (all greedy) with `D` disjoint from `S`, `T`, `E`; `S` disjoint from `T`

Generic in the accept function `acc` of the attempt (`re.match`: anything may follow; `re.fullmatch`: nothing):
`kD` is what the final `D+` computes under `acc` (`h7`), and it cannot succeed on a text that does not start
with a character of `D` (`hkD`). -/

section Sci
variable (acc : Str → Bool) (S D T E : Cls) (kD : Str → Option Str)
variable (hSD : ∀ x, S.test x = true → D.test x = false) (hTD : ∀ x, T.test x = true → D.test x = false)
variable (hDE : ∀ x, D.test x = true → E.test x = false) (hST : ∀ x, S.test x = true → T.test x = false)
variable (h7 : ∀ s, matchItems acc [.rep true 1 none D] s = kD s) (hkD : ∀ x xs, D.test x = false → kD (x :: xs) = none)

/-- `D+` at the end, `re.match` -/
def kDigits (s : Str) : Option Str := if runLen D s < 1 then none else some (s.drop (runLen D s))
/-- `D+` at the end, `re.fullmatch`: the run must reach the end of the text -/
def kDigitsF (s : Str) : Option Str :=
  if runLen D s < 1 then none else if (s.drop (runLen D s)).isEmpty then some [] else none
/-- `E S? D+` -/
def kExp : Str → Option Str
  | e :: rest => if E.test e = true then kD (dropOpt S.test rest) else none
  | [] => none
/-- `D+ E S? D+` -/
def kMant (s : Str) : Option Str := if runLen D s < 1 then none else kExp S E kD (s.drop (runLen D s))

/-- `re.match`: the greedy `D+` takes the whole run, whatever follows -/
theorem sci_k7 (s : Str) : matchItems (fun _ => true) [.rep true 1 none D] s = kDigits D s :=
  matchItems_plus_last _ D s (fun _ _ _ => rfl)

/-- `re.fullmatch`: the final `D+` is deterministic too — the end of the text cannot come before the end of the run -/
theorem sci_k7_full (s : Str) : matchItems (fun r => r.isEmpty) [.rep true 1 none D] s = kDigitsF D s := by
  rw [matchItems_rep_det _ _ _ _ _ _ _ (by intro x xs _; simp [matchItems])]
  simp only [capLen, kDigitsF, matchItems]
  by_cases h : runLen D s < 1
  · simp [h]
  · simp only [h, if_false]
    have ht : ∀ t : Str, (if t.isEmpty = true then some t else none) = if t.isEmpty = true then some [] else none := by
      intro t; cases t <;> simp
    exact ht _

theorem kDigits_head_false (x : Char) (xs : Str) (h : D.test x = false) : kDigits D (x :: xs) = none := by
  simp [kDigits, runLen_of_head_false D x xs h]

theorem kDigitsF_head_false (x : Char) (xs : Str) (h : D.test x = false) : kDigitsF D (x :: xs) = none := by
  simp [kDigitsF, runLen_of_head_false D x xs h]

include hSD h7 hkD in
theorem sci_k6 (s : Str) :
    matchItems acc [.rep true 0 (some 1) S, .rep true 1 none D] s = kD (dropOpt S.test s) := by
  rw [matchItems_rep_det _ _ _ _ _ _ _ (by
    intro x xs hx
    rw [h7, hkD x xs (hSD x hx)])]
  rw [if_neg (by omega), h7, drop_min_one_runLen]

include hSD h7 hkD in
theorem sci_k5 (s : Str) :
    matchItems acc [.one E, .rep true 0 (some 1) S, .rep true 1 none D] s = kExp S E kD s := by
  rw [matchItems_one]
  cases s with
  | nil => rfl
  | cons e rest => simp only [kExp, sci_k6 acc S D kD hSD h7 hkD]

include hSD hDE h7 hkD in
theorem sci_k4 (s : Str) :
    matchItems acc [.rep true 1 none D, .one E, .rep true 0 (some 1) S, .rep true 1 none D] s = kMant S D E kD s := by
  rw [matchItems_rep_det _ _ _ _ _ _ _ (by
    intro x xs hx
    rw [sci_k5 acc S D E kD hSD h7 hkD]; simp [kExp, hDE x hx])]
  simp only [capLen, kMant, sci_k5 acc S D E kD hSD h7 hkD]

include hSD hDE hTD h7 hkD in
theorem sci_k3 (s : Str) :
    matchItems acc [.rep true 0 (some 1) T, .rep true 1 none D, .one E, .rep true 0 (some 1) S, .rep true 1 none D] s
      = kMant S D E kD (dropOpt T.test s) := by
  rw [matchItems_rep_det _ _ _ _ _ _ _ (by
    intro x xs hx
    rw [sci_k4 acc S D E kD hSD hDE h7 hkD, kMant, runLen_of_head_false D x xs (hTD x hx)]; simp)]
  rw [if_neg (by omega), sci_k4 acc S D E kD hSD hDE h7 hkD, drop_min_one_runLen]

include hSD hDE hTD h7 hkD in
theorem sci_k2 (s : Str) :
    matchItems acc
        [.rep true 0 none D, .rep true 0 (some 1) T, .rep true 1 none D, .one E, .rep true 0 (some 1) S, .rep true 1 none D] s
      = match kMant S D E kD (dropOpt T.test (s.dropWhile D.test)) with
        | some r => some r
        | none => if runLen D s < 1 then none else kExp S E kD (s.dropWhile D.test) := by
  have hk : matchItems acc [.rep true 0 (some 1) T, .rep true 1 none D, .one E, .rep true 0 (some 1) S, .rep true 1 none D]
      = fun t => kMant S D E kD (dropOpt T.test t) := funext (sci_k3 acc S D T E kD hSD hTD hDE h7 hkD)
  rw [matchItems_rep_greedy_unfold, if_neg (by omega), Nat.sub_zero, hk]
  -- below the top every attempt gives the rest of the digit run to `D+`
  have hbelow : ∀ j, j < runLen D s → kMant S D E kD (dropOpt T.test (s.drop j)) = kExp S E kD (s.dropWhile D.test) := by
    intro j hj
    obtain ⟨x, xs, hx, hc⟩ := head_of_lt_runLen D s j hj
    have hT : T.test x = false := by
      cases h : T.test x with
      | false => rfl
      | true => have := hTD x h; simp [hc] at this
    rw [hx, dropOpt]; simp only [hT, Bool.false_eq_true, if_false]
    rw [← hx, kMant, runLen_drop D s j (by omega), if_neg (by omega), List.drop_drop]
    rw [show j + (runLen D s - j) = runLen D s by omega, drop_runLen]
  have hdw := drop_runLen D s
  generalize runLen D s = n at hbelow hdw ⊢
  cases n with
  | zero =>
    simp only [tryDown, List.drop_zero] at hdw ⊢
    rw [← hdw]
    cases kMant S D E kD (dropOpt T.test s) <;> simp
  | succ n =>
    simp only [tryDown, Nat.zero_add]
    rw [hdw]
    cases hm : kMant S D E kD (dropOpt T.test (s.dropWhile D.test)) with
    | some r => rfl
    | none =>
      rw [tryDown_const _ s 0 n (fun i hi => by
        simp only [Nat.zero_add]
        rw [hbelow i (by omega), hbelow 0 (by omega)])]
      rw [hbelow 0 (by omega)]; simp

end Sci

/-! ### the generated patterns -/

theorem clsTest_lit (c : Char) : Cls.test ⟨false, [.lit c]⟩ = fun x => x == c := by
  funext x; simp [Cls.test, CItem.test]

theorem clsTest_A : Cls.test ⟨false, [.lit (Char.ofNat 46), .space, .word]⟩ = classA := by
  funext x; simp [Cls.test, CItem.test, classA, Bool.or_assoc]

theorem clsTest_B : Cls.test ⟨false, [.lit (Char.ofNat 44), .lit (Char.ofNat 46), .space, .word]⟩ = classB := by
  funext x; simp [Cls.test, CItem.test, classB, classA, Bool.or_assoc]

theorem clsTest_word : Cls.test ⟨false, [.word]⟩ = isWordChar := by
  funext x; simp [Cls.test, CItem.test]

theorem clsTest_sign : Cls.test ⟨false, [.lit (Char.ofNat 43), .lit (Char.ofNat 45)]⟩ = isSign := by
  funext x; simp [Cls.test, CItem.test, isSign]

theorem clsTest_exp : Cls.test ⟨false, [.lit (Char.ofNat 69), .lit (Char.ofNat 101)]⟩ = isExpChar := by
  funext x; simp [Cls.test, CItem.test, isExpChar]

theorem clsTest_dot : Cls.test ⟨false, [.lit (Char.ofNat 46)]⟩ = isDotChar := by
  funext x; simp [Cls.test, CItem.test, isDotChar]

theorem clsTest_digit : Cls.test ⟨false, [.range 48 57]⟩ = Char.isDigit := by
  funext x
  simp only [Cls.test, CItem.test, List.any_cons, List.any_nil, Bool.or_false, Bool.false_bne, Char.isDigit, Char.toNat]
  have h1 : (48 ≤ x.val.toNat) ↔ (x.val ≥ 48) := by
    rw [ge_iff_le, UInt32.le_iff_toNat_le]; rfl
  have h2 : (x.val.toNat ≤ 57) ↔ (x.val ≤ 57) := by
    rw [UInt32.le_iff_toNat_le]; rfl
  simp only [h1, h2]
  rfl

theorem mem_takeWhile_true {α} {p : α → Bool} {l : List α} {x : α} (h : x ∈ l.takeWhile p) : p x = true := by
  induction l with
  | nil => simp at h
  | cons y ys ih =>
    by_cases hy : p y = true
    · simp only [List.takeWhile_cons, hy, if_true, List.mem_cons] at h
      rcases h with rfl | h
      · exact hy
      · exact ih h
    · simp [List.takeWhile_cons, hy] at h

/-- **`rp.tuple_word.match(s)` with the generated pattern is the closed form** -/
theorem tupleWordMatch_eq_det (s : Str) : tupleWordMatch s = tupleWordMatchDet s := by
  unfold tupleWordMatch Generated.tupleWord Generated.tupleWordUse
  simp only [useTest, useRest]
  rw [lazyTuple_shape _ _ _ _
    (by rw [clsTest_A, clsTest_B]; intro x hx; simp [classB, hx])
    (by
      rw [clsTest_B, clsTest_lit]
      intro x hx
      cases h : (x == Char.ofNat 41) with
      | false => exact h
      | true =>
        have := eq_of_beq h
        subst this
        exact absurd hx (by decide))]
  rw [clsTest_A, clsTest_B, clsTest_lit, clsTest_lit]
  match s with
  | [] => rfl
  | [_] => rfl
  | p :: a :: rest => rfl

/-- reading word characters only extends the current run -/
theorem wordRunsAux_append_word (xs tail cur : Str) (h : ∀ c ∈ xs, isWordChar c = true) :
    wordRunsAux (xs ++ tail) cur = wordRunsAux tail (xs.reverse ++ cur) := by
  induction xs generalizing cur with
  | nil => rfl
  | cons x xs ih =>
    have hx : isWordChar x = true := h x (by simp)
    simp only [List.cons_append, wordRunsAux, hx, if_true]
    rw [ih (x :: cur) (fun c hc => h c (by simp [hc]))]
    simp

theorem scan_word (f : Nat) (s : Str) (hf : s.length < f) :
    scan [.rep true 1 none ⟨false, [.word]⟩] f false s = wordRunsAux s [] := by
  induction f generalizing s with
  | zero => omega
  | succ f ih =>
    simp only [scan]
    rw [matchItems_plus_last _ _ s (by intro j _ _; simp)]
    cases s with
    | nil => simp [runLen, wordRunsAux]
    | cons c cs =>
      by_cases hc : isWordChar c = true
      · have hrun : ¬ runLen ⟨false, [.word]⟩ (c :: cs) < 1 := by
          rw [runLen_cons, clsTest_word, if_pos hc]; omega
        rw [if_neg hrun]
        simp only []
        have hle := runLen_le_length ⟨false, [.word]⟩ (c :: cs)
        have hlen : (c :: cs).length - ((c :: cs).drop (runLen ⟨false, [.word]⟩ (c :: cs))).length
            = runLen ⟨false, [.word]⟩ (c :: cs) := by
          rw [List.length_drop]; omega
        rw [hlen, take_runLen, drop_runLen, clsTest_word]
        have hne : ((c :: cs).takeWhile isWordChar).isEmpty = false := by
          simp [List.takeWhile_cons, hc]
        rw [hne]
        have hdl : ((c :: cs).dropWhile isWordChar).length < f := by
          have := drop_runLen ⟨false, [.word]⟩ (c :: cs)
          rw [clsTest_word] at this
          rw [← this, List.length_drop]
          have : 1 ≤ runLen ⟨false, [.word]⟩ (c :: cs) := by omega
          simp only [List.length_cons] at hf hle ⊢
          omega
        rw [ih _ hdl]
        -- the closed form on `takeWhile ++ dropWhile`
        have hsplit := List.takeWhile_append_dropWhile (p := isWordChar) (l := c :: cs)
        have hall : ∀ x ∈ (c :: cs).takeWhile isWordChar, isWordChar x = true :=
          fun x hx => mem_takeWhile_true hx
        conv => rhs; rw [← hsplit, wordRunsAux_append_word _ _ _ hall]
        cases hd : (c :: cs).dropWhile isWordChar with
        | nil => simp [wordRunsAux, hne]
        | cons d ds =>
          have hdf := dropWhile_head_false hd
          have hne' : ((c :: cs).takeWhile isWordChar).reverse.isEmpty = false := by simpa using hne
          simp [wordRunsAux, hdf, hne']
      · have hrun : runLen ⟨false, [.word]⟩ (c :: cs) < 1 := by
          rw [runLen_cons, clsTest_word, if_neg hc]; omega
        rw [if_pos hrun]
        simp only [wordRunsAux, hc, List.isEmpty_nil, if_true, Bool.false_eq_true, if_false]
        exact ih cs (by simp only [List.length_cons] at hf; omega)

/-- **`rp.word.findall(s)` with the generated pattern gives the maximal runs of word characters** -/
theorem wordFindall_eq_det (s : Str) : wordFindall s = wordRunsAux s [] := by
  unfold wordFindall Generated.word Generated.wordUse
  simp only [useFindall, findall]
  exact scan_word _ s (by omega)

theorem kDigits_eq (s : Str) : kDigits ⟨false, [.range 48 57]⟩ s = digitsThen s := by
  unfold kDigits digitsThen
  rw [drop_runLen, clsTest_digit]
  unfold runLen
  rw [clsTest_digit]
  cases h : (s.takeWhile Char.isDigit) <;> simp

theorem kDigitsF_eq (s : Str) : kDigitsF ⟨false, [.range 48 57]⟩ s = digitsEnd s := by
  unfold kDigitsF digitsEnd
  rw [drop_runLen, clsTest_digit]
  unfold runLen
  rw [clsTest_digit]
  cases h : (s.takeWhile Char.isDigit) <;> simp

theorem kExp_eq (s : Str) :
    kExp ⟨false, [.lit (Char.ofNat 43), .lit (Char.ofNat 45)]⟩ ⟨false, [.lit (Char.ofNat 69), .lit (Char.ofNat 101)]⟩
        (kDigitsF ⟨false, [.range 48 57]⟩) s
      = sciExp s := by
  cases s with
  | nil => rfl
  | cons e rest => simp only [kExp, sciExp, kDigitsF_eq, clsTest_sign, clsTest_exp]

/-- **`rp.number_scientific.fullmatch(s)` with the generated pattern: what follows the match is the closed form**
    (`some []` for a string that is a scientific-notation number in full, `none` for every other string) -/
theorem sciRest_eq_det (s : Str) : sciRest s = sciRestDet s := by
  unfold sciRest Generated.numberScientific Generated.numberScientificUse
  simp only [useRest]
  have hSD : ∀ x, Cls.test ⟨false, [.lit (Char.ofNat 43), .lit (Char.ofNat 45)]⟩ x = true → Cls.test ⟨false, [.range 48 57]⟩ x = false := by
    rw [clsTest_sign, clsTest_digit]
    intro x hx
    simp only [isSign, Bool.or_eq_true, beq_iff_eq] at hx
    rcases hx with rfl | rfl <;> decide
  have hTD : ∀ x, Cls.test ⟨false, [.lit (Char.ofNat 46)]⟩ x = true → Cls.test ⟨false, [.range 48 57]⟩ x = false := by
    rw [clsTest_dot, clsTest_digit]
    intro x hx
    simp only [isDotChar, beq_iff_eq] at hx
    subst hx; decide
  have hDE : ∀ x, Cls.test ⟨false, [.range 48 57]⟩ x = true → Cls.test ⟨false, [.lit (Char.ofNat 69), .lit (Char.ofNat 101)]⟩ x = false := by
    rw [clsTest_exp, clsTest_digit]
    intro x hx
    cases h : isExpChar x with
    | false => rfl
    | true =>
      simp only [isExpChar, Bool.or_eq_true, beq_iff_eq] at h
      rcases h with rfl | rfl <;> exact absurd hx (by decide)
  -- the final `[0-9]+` under fullmatch
  have h7 := sci_k7_full ⟨false, [.range 48 57]⟩
  have hkD := kDigitsF_head_false ⟨false, [.range 48 57]⟩
  -- the optional sign in front: nothing behind it can start with a sign
  rw [matchItems_rep_det _ _ _ _ _ _ _ (by
    intro x xs hx
    rw [sci_k2 _ _ _ _ _ _ hSD hTD hDE h7 hkD]
    have hd : Cls.test ⟨false, [.range 48 57]⟩ x = false := hSD x hx
    have ht : Cls.test ⟨false, [.lit (Char.ofNat 46)]⟩ x = false := by
      rw [clsTest_sign] at hx; rw [clsTest_dot]
      simp only [isSign, Bool.or_eq_true, beq_iff_eq] at hx
      rcases hx with rfl | rfl <;> decide
    simp [List.dropWhile_cons, hd, dropOpt, ht, kMant, runLen_of_head_false _ x xs hd])]
  rw [if_neg (by omega), drop_min_one_runLen, sci_k2 _ _ _ _ _ _ hSD hTD hDE h7 hkD]
  unfold sciRestDet
  simp only [clsTest_sign, clsTest_dot, clsTest_digit]
  have hM : ∀ t, kMant ⟨false, [.lit (Char.ofNat 43), .lit (Char.ofNat 45)]⟩ ⟨false, [.range 48 57]⟩ ⟨false, [.lit (Char.ofNat 69), .lit (Char.ofNat 101)]⟩
        (kDigitsF ⟨false, [.range 48 57]⟩) t
      = (digitsThen t).bind sciExp := by
    intro t
    unfold kMant digitsThen
    rw [drop_runLen, clsTest_digit]
    unfold runLen
    rw [clsTest_digit]
    cases h : (t.takeWhile Char.isDigit) <;> simp [kExp_eq]
  rw [hM, kExp_eq]
  unfold runLen
  rw [clsTest_digit]
  cases (digitsThen (dropOpt isDotChar ((dropOpt isSign s).dropWhile Char.isDigit))).bind sciExp with
  | some r => rfl
  | none =>
    cases h : ((dropOpt isSign s).takeWhile Char.isDigit) <;> simp

theorem digitsEnd_cases (s : Str) : digitsEnd s = none ∨ digitsEnd s = some [] := by
  unfold digitsEnd; split
  · exact .inl rfl
  · split
    · exact .inr rfl
    · exact .inl rfl

theorem sciExp_cases (s : Str) : sciExp s = none ∨ sciExp s = some [] := by
  cases s with
  | nil => exact .inl rfl
  | cons e rest =>
    simp only [sciExp]; split
    · exact digitsEnd_cases _
    · exact .inl rfl

/-- the closed form only ever answers "no match" or "matched, nothing left" -/
theorem sciRestDet_cases (s : Str) : sciRestDet s = none ∨ sciRestDet s = some [] := by
  unfold sciRestDet
  simp only []
  cases hd : digitsThen (dropOpt isDotChar ((dropOpt isSign s).dropWhile Char.isDigit)) with
  | some t =>
    simp only [Option.bind_some]
    rcases sciExp_cases t with h | h <;> rw [h]
    · simp only []; split
      · exact .inl rfl
      · exact sciExp_cases _
    · exact .inr rfl
  | none =>
    simp only [Option.bind_none]; split
    · exact .inl rfl
    · exact sciExp_cases _

theorem sciRestDet_eq_ite (s : Str) : sciRestDet s = if sciFullDet s then some [] else none := by
  unfold sciFullDet
  rcases sciRestDet_cases s with h | h <;> simp [h]

/-- with `fullmatch` the ValueError branch of `sciConv` is unreachable: the loader converts or leaves alone -/
theorem sciConv_str (s : Str) : sciConv (.str s) = if sciFullDet s then some (.sci s) else some (.str s) := by
  simp only [sciConv, sciRest_eq_det]
  unfold sciFullDet
  rcases sciRestDet_cases s with h | h <;> simp [h]

theorem sciConv_str_total (s : Str) : (sciConv (.str s)).isSome = true := by
  rw [sciConv_str]; split <;> rfl

/-- the generated key template on a pair -/
theorem renderKey_pair (a b : Str) (r : List Str) : renderKey (.t (a :: b :: r)) = some (renderPair a b) := by
  simp [renderKey, keyElems, Generated.renderTemplate, renderWith, renderPair]


end Glotaran.C17
