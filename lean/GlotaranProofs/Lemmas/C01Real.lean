/-
C01 — from the rationals to the reals: a matrix of rationals (every matrix of doubles is one) with full
column rank has full column rank over ℝ, and whatever exact real Householder factorisation is used, the
steps of `residual_variable_projection` return the real image of the rational normal-equation solution
(the reference `lsExact` the harness compares the implementation with).
-/
import GlotaranProofs.Lemmas.C01Bridge
import Mathlib.Data.Real.Basic
import Mathlib.Algebra.Order.Ring.Rat
namespace Glotaran.C01.Abs
open Matrix

section Cast
variable {m n : ℕ}

/-- entrywise image of a rational matrix / vector in ℝ -/
noncomputable def castM (A : Matrix (Fin m) (Fin n) ℚ) : Matrix (Fin m) (Fin n) ℝ := A.map (Rat.castHom ℝ)
noncomputable def castV {k : ℕ} (v : Fin k → ℚ) : Fin k → ℝ := (Rat.castHom ℝ) ∘ v

theorem castV_mulVec (A : Matrix (Fin m) (Fin n) ℚ) (v : Fin n → ℚ) :
    castV (A *ᵥ v) = castM A *ᵥ castV v := by
  ext i
  exact RingHom.map_mulVec (Rat.castHom ℝ) A v i

theorem castV_sub {k : ℕ} (u v : Fin k → ℚ) : castV (u - v) = castV u - castV v := by
  ext i; simp [castV]

theorem castV_zero {k : ℕ} : castV (0 : Fin k → ℚ) = 0 := by
  ext i; simp [castV]

theorem castV_injective {k : ℕ} (u v : Fin k → ℚ) (h : castV u = castV v) : u = v := by
  ext i
  have := congrFun h i
  simpa [castV] using this

theorem castM_transpose (A : Matrix (Fin m) (Fin n) ℚ) : (castM A)ᵀ = castM Aᵀ := by
  ext i j; simp [castM]

/-- the normal equations are preserved -/
theorem grad_cast (A : Matrix (Fin m) (Fin n) ℚ) (y : Fin m → ℚ) (c : Fin n → ℚ) :
    grad (castM A) (castV y) (castV c) = castV (grad A y c) := by
  unfold grad
  rw [castV_mulVec, castV_sub, castV_mulVec, castM_transpose]

/-- **full column rank over ℚ is full column rank over ℝ** (through `det (AᵀA) ≠ 0`) -/
theorem fullRank_real_of_rat (A : Matrix (Fin m) (Fin n) ℚ) (h : ∀ d : Fin n → ℚ, A *ᵥ d = 0 → d = 0) :
    ∀ d : Fin n → ℝ, castM A *ᵥ d = 0 → d = 0 := by
  have hG : (Aᵀ * A).det ≠ 0 := by
    rw [Ne, ← Matrix.exists_mulVec_eq_zero_iff]
    rintro ⟨v, hv0, hv⟩
    apply hv0
    apply h
    have h1 : v ⬝ᵥ ((Aᵀ * A) *ᵥ v) = 0 := by rw [hv]; simp
    have h2 : v ⬝ᵥ ((Aᵀ * A) *ᵥ v) = (A *ᵥ v) ⬝ᵥ (A *ᵥ v) := by
      rw [← Matrix.mulVec_mulVec, Matrix.dotProduct_mulVec, Matrix.vecMul_transpose]
    rw [h2] at h1
    exact dotProduct_self_eq_zero.mp h1
  have hGR : ((castM A)ᵀ * castM A).det ≠ 0 := by
    have e : (castM A)ᵀ * castM A = (Aᵀ * A).map (Rat.castHom ℝ) := by
      rw [Matrix.map_mul, castM_transpose]; rfl
    rw [e, ← RingHom.mapMatrix_apply, ← RingHom.map_det]
    simpa using hG
  intro d hd
  by_contra hd0
  apply hGR
  rw [← Matrix.exists_mulVec_eq_zero_iff]
  exact ⟨d, hd0, by rw [← Matrix.mulVec_mulVec, hd, Matrix.mulVec_zero]⟩

/-- **Whatever exact real compact Householder factorisation of a rational matrix of full column rank
    is used, the triangular solve returns the real image of the rational solution of the normal
    equations.** -/
theorem vp_real_eq_cast_normal (A : Matrix (Fin m) (Fin n) ℚ) (y : Fin m → ℚ) (c : Fin n → ℚ)
    (hrank : ∀ d : Fin n → ℚ, A *ᵥ d = 0 → d = 0) (hc : grad A y c = 0)
    (hs : List ((Fin m → ℝ) × ℝ)) (B : Matrix (Fin m) (Fin n) ℝ) (h : IsCompactQR (castM A) hs B)
    (c' : Fin n → ℝ) (hc' : ∀ i : Fin m, (i : ℕ) < n → (B *ᵥ c') i = (QTm hs *ᵥ castV y) i) :
    c' = castV c ∧
    Qm hs *ᵥ (fun i : Fin m => if (i : ℕ) < n then 0 else (QTm hs *ᵥ castV y) i) = castV (y - A *ᵥ c) := by
  obtain ⟨e1, e2, _⟩ := vp_optimal_of_compact_qr (castM A) hs B h (castV y) c' hc'
  have hg' : grad (castM A) (castV y) c' = 0 := by unfold grad; rw [← e1]; exact e2
  have hg : grad (castM A) (castV y) (castV c) = 0 := by rw [grad_cast, hc, castV_zero]
  have hcc : c' = castV c :=
    ls_normal_unique (castM A) (castV y) (castV c) c' hg hg' (fullRank_real_of_rat A hrank)
  refine ⟨hcc, ?_⟩
  rw [e1, hcc, castV_sub, castV_mulVec]

end Cast
end Glotaran.C01.Abs
