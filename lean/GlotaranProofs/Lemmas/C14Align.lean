/-
C14 — the shape of the output of `C02.alignAxes` (the model of `create_aligned_global_axes` the C02
objective executes), proved from the C02 definition: one aligned axis per dataset, each as long as the
dataset's own global axis; the first one is the first dataset's axis itself, the others have no
duplicates.  Also: membership in `sortedUnion` / the aligned global axis.
-/
import GlotaranModel.C02
namespace Glotaran.C14
open Glotaran.LinAlg Glotaran.C02

/-- the loop body of `alignAxes` -/
def alignStep (tol : Rat) (m : Method) (acc : Option (List Rat × List (List Rat))) (ax : List Rat) :
    Option (List Rat × List (List Rat)) :=
  match acc with
  | none => none
  | some (vals, done) =>
    let al := ax.map (fun x => alignIndex x vals tol m)
    if hasDup al then none
    else some (sortedUnion [] (vals ++ al), done ++ [al])

theorem alignAxes_cons (first : List Rat) (rest : List (List Rat)) (tol : Rat) (m : Method) :
    alignAxes (first :: rest) tol m =
      (rest.foldl (alignStep tol m) (some (first, [first]))).map (·.2) := rfl

theorem alignFold_none (tol : Rat) (m : Method) (rest : List (List Rat)) :
    rest.foldl (alignStep tol m) none = none := by
  induction rest with
  | nil => rfl
  | cons ax rest ih => simpa [List.foldl_cons, alignStep] using ih

theorem hasDup_false_nodup (l : List Rat) (h : hasDup l = false) : l.Nodup := by
  induction l with
  | nil => exact List.nodup_nil
  | cons x l ih =>
    simp only [hasDup, Bool.or_eq_false_iff] at h
    refine List.nodup_cons.mpr ⟨?_, ih h.2⟩
    intro hx
    have : l.contains x = true := by simpa using hx
    rw [this] at h
    exact absurd h.1 (by simp)

/-- invariant of the loop: the finished aligned axes are kept, one more per processed dataset, each as
    long as the dataset's axis and without duplicates -/
theorem alignFold_spec (tol : Rat) (m : Method) : ∀ (rest : List (List Rat)) (vals : List Rat)
    (done : List (List Rat)) (r : List Rat × List (List Rat)),
    rest.foldl (alignStep tol m) (some (vals, done)) = some r →
      ∃ more : List (List Rat), r.2 = done ++ more ∧ more.map List.length = rest.map List.length ∧
        ∀ a ∈ more, a.Nodup := by
  intro rest
  induction rest with
  | nil =>
    intro vals done r h
    simp only [List.foldl_nil, Option.some.injEq] at h
    subst h
    exact ⟨[], by simp, rfl, by simp⟩
  | cons ax rest ih =>
    intro vals done r h
    simp only [List.foldl_cons] at h
    cases hd : hasDup (ax.map (fun x => alignIndex x vals tol m)) with
    | true =>
      have : alignStep tol m (some (vals, done)) ax = none := by simp [alignStep, hd]
      rw [this, alignFold_none] at h
      cases h
    | false =>
      have : alignStep tol m (some (vals, done)) ax =
          some (sortedUnion [] (vals ++ ax.map (fun x => alignIndex x vals tol m)),
            done ++ [ax.map (fun x => alignIndex x vals tol m)]) := by simp [alignStep, hd]
      rw [this] at h
      obtain ⟨more, h1, h2, h3⟩ := ih _ _ r h
      refine ⟨ax.map (fun x => alignIndex x vals tol m) :: more, by rw [h1]; simp, by simp [h2], ?_⟩
      intro a ha
      rcases List.mem_cons.mp ha with rfl | ha
      · exact hasDup_false_nodup _ hd
      · exact h3 a ha

/-- **the output of `alignAxes`: one aligned axis per dataset, as long as the dataset's own axis** -/
theorem alignAxes_lengths (axes : List (List Rat)) (tol : Rat) (m : Method) (aligned : List (List Rat))
    (h : alignAxes axes tol m = some aligned) :
    aligned.map List.length = axes.map List.length := by
  cases axes with
  | nil =>
    simp only [alignAxes, Option.some.injEq] at h
    subst h; rfl
  | cons first rest =>
    rw [alignAxes_cons] at h
    obtain ⟨r, hr, rfl⟩ := Option.map_eq_some_iff.mp h
    obtain ⟨more, h1, h2, _⟩ := alignFold_spec tol m rest first [first] r hr
    rw [h1]; simp [h2]

theorem alignAxes_shape (axes : List (List Rat)) (tol : Rat) (m : Method) (aligned : List (List Rat))
    (h : alignAxes axes tol m = some aligned) :
    aligned.length = axes.length ∧
      ∀ k (h1 : k < aligned.length) (h2 : k < axes.length), aligned[k].length = axes[k].length := by
  have hl := alignAxes_lengths axes tol m aligned h
  have hlen : aligned.length = axes.length := by simpa using congrArg List.length hl
  refine ⟨hlen, ?_⟩
  intro k h1 h2
  have : (aligned.map List.length)[k]'(by simpa using h1) = (axes.map List.length)[k]'(by simpa using h2) := by
    simp only [hl]
  simpa using this

/-- the first dataset's axis is kept as it is; every later aligned axis has no duplicates -/
theorem alignAxes_first_tail (first : List Rat) (rest : List (List Rat)) (tol : Rat) (m : Method)
    (aligned : List (List Rat)) (h : alignAxes (first :: rest) tol m = some aligned) :
    ∃ more, aligned = first :: more ∧ ∀ a ∈ more, a.Nodup := by
  rw [alignAxes_cons] at h
  obtain ⟨r, hr, rfl⟩ := Option.map_eq_some_iff.mp h
  obtain ⟨more, h1, _, h3⟩ := alignFold_spec tol m rest first [first] r hr
  exact ⟨more, by rw [h1]; rfl, h3⟩

/-! ### the aligned global axis (`aligned.foldl sortedUnion []`) -/

theorem mem_insertSorted (x a : Rat) : ∀ l : List Rat, a ∈ insertSorted x l ↔ a = x ∨ a ∈ l := by
  intro l
  induction l with
  | nil => simp [insertSorted]
  | cons y ys ih =>
    simp only [insertSorted]
    split
    · simp
    · split
      · rename_i hxy
        subst hxy
        simp
      · simp only [List.mem_cons, ih]
        constructor
        · rintro (h | h | h)
          · exact Or.inr (Or.inl h)
          · exact Or.inl h
          · exact Or.inr (Or.inr h)
        · rintro (h | h | h)
          · exact Or.inr (Or.inl h)
          · exact Or.inl h
          · exact Or.inr (Or.inr h)

theorem mem_sortedUnion (a : Rat) : ∀ (b acc : List Rat), a ∈ sortedUnion acc b ↔ a ∈ acc ∨ a ∈ b := by
  intro b
  induction b with
  | nil => intro acc; simp [sortedUnion]
  | cons x b ih =>
    intro acc
    have : sortedUnion acc (x :: b) = sortedUnion (insertSorted x acc) b := rfl
    rw [this, ih, mem_insertSorted]
    simp only [List.mem_cons]
    constructor
    · rintro ((h | h) | h)
      · exact Or.inr (Or.inl h)
      · exact Or.inl h
      · exact Or.inr (Or.inr h)
    · rintro (h | h | h)
      · exact Or.inl (Or.inr h)
      · exact Or.inl (Or.inl h)
      · exact Or.inr h

theorem mem_foldl_sortedUnion (a : Rat) : ∀ (al : List (List Rat)) (acc : List Rat),
    a ∈ al.foldl sortedUnion acc ↔ a ∈ acc ∨ ∃ l ∈ al, a ∈ l := by
  intro al
  induction al with
  | nil => intro acc; simp
  | cons l al ih =>
    intro acc
    rw [List.foldl_cons, ih, mem_sortedUnion]
    simp only [List.mem_cons, exists_eq_or_imp]
    constructor
    · rintro ((h | h) | h)
      · exact Or.inl h
      · exact Or.inr (Or.inl h)
      · exact Or.inr (Or.inr h)
    · rintro (h | h | h)
      · exact Or.inl (Or.inl h)
      · exact Or.inl (Or.inr h)
      · exact Or.inr h

end Glotaran.C14
