/-
C15 — helper lemmas for the machine instantiated with C11's parameter model (`paramOps`):
what `set_from_history` computes from a record (`fromRow_rowOf`), the attributes no step of the
optimisation changes (`states_defn`), the real-number round trip of one parameter.
-/
import GlotaranModel.C15Params
import GlotaranProofs.Lemmas.C15
import GlotaranProofs.Lemmas.C11
namespace Glotaran.C15

open Glotaran.C11 (Parameter Ext Num Eval toOpt fromOpt setOne setLoop setFromArrays updateExpr)

variable {α : Type}

-- (for `decide` in the non-vacuity examples over the term algebra)
deriving instance DecidableEq for Glotaran.C11.Term

/-- one parameter sent to optimiser space and back: `set_value_from_optimization` of its own stored
    value (`np.exp(np.log(value))` for a non-negative parameter, the value itself otherwise) -/
def roundTripParam [Num α] (p : Parameter α) : Parameter α := p.setFromOpt (toOpt p).value

/-- a parameter set whose every value went through a history record and back -/
def roundTrip [Num α] (ps : PSet α) : PSet α := ps.map roundTripParam

/-- everything the expression update leaves alone: the definition of every parameter and the value
    of every parameter that is not defined by an expression -/
def Parameter.plainPart (p : Parameter α) :
    (String × Ext α × Ext α × Bool × Bool × Option String × Ext α) × Option (Ext α) :=
  (p.defn, if p.expr.isSome then none else some p.value)

theorem rowOf_eq [Num α] (ps : PSet α) : rowOf ps = ps.map (fun p => (toOpt p).value) := by
  simp [rowOf, C11.arraysLoop_spec, C11.selected_false]

theorem rowOf_length [Num α] (ps : PSet α) : (rowOf ps).length = ps.length := by
  simp [rowOf_eq]

/-! ### no step changes labels, bounds, flags, expression definitions -/

theorem updateExpr_defn (ev : Eval α) (ps : PSet α) :
    (updateExpr ev ps).map Parameter.defn = ps.map Parameter.defn :=
  C11.updateExpr_map_defn ev ps

theorem updateExpr_plainPart (ev : Eval α) (ps : PSet α) :
    (updateExpr ev ps).map Parameter.plainPart = ps.map Parameter.plainPart :=
  C11.updateExpr_map _ (fun p e v h => by simp [Parameter.plainPart, Parameter.defn, h]) ev ps

theorem frame_defn (L : List String) (a b : PSet α)
    (h : a.map (Parameter.frame L) = b.map (Parameter.frame L)) :
    a.map Parameter.defn = b.map Parameter.defn := by
  have := congrArg (List.map Prod.fst) h
  simpa [List.map_map, Function.comp_def, Parameter.frame] using this

theorem setFromArrays_defn [Num α] (ev : Eval α) (ps : PSet α) (labels : List String) (xs : Vec α) :
    (setFromArrays ev ps labels xs).1.map Parameter.defn = ps.map Parameter.defn := by
  apply frame_defn labels
  unfold setFromArrays
  split
  · rfl
  · have h := C11.setLoop_frame labels (labels.zip xs) ps
      (fun pr hp => (List.of_mem_zip (a := pr.1) (b := pr.2) hp).1)
    split
    · rename_i ps' heq
      rw [C11.updateExpr_map_frame]
      rw [heq] at h
      exact h
    · exact h

theorem defn_labels (a b : PSet α) (h : a.map Parameter.defn = b.map Parameter.defn) :
    a.map (·.label) = b.map (·.label) := by
  have := congrArg (List.map Prod.fst) h
  simpa [List.map_map, Function.comp_def, Parameter.defn] using this

theorem start_defn [Num α] (ev : Eval α) (free : List String) (p : PSet α) :
    ((paramOps ev free).start p).map Parameter.defn = p.map Parameter.defn := by
  simp only [ParamOps.start, paramOps]
  rw [updateExpr_defn, updateExpr_defn]

theorem step_defn [Num α] (ev : Eval α) (free : List String) (p : PSet α) (v : Vec α) :
    ((paramOps ev free).step p v).map Parameter.defn = p.map Parameter.defn := by
  simp only [ParamOps.step, paramOps]
  rw [updateExpr_defn, setFromArrays_defn]

theorem states_defn [Num α] (ev : Eval α) (free : List String) : ∀ (vs : List (Vec α)) (p S : PSet α),
    S ∈ (paramOps ev free).states p vs → S.map Parameter.defn = p.map Parameter.defn := by
  intro vs
  induction vs with
  | nil => intro p S h; simp [ParamOps.states] at h
  | cons v vs ih =>
    intro p S h
    simp only [ParamOps.states, List.mem_cons] at h
    rcases h with rfl | h
    · exact step_defn ev free p v
    · rw [ih _ S h, step_defn]

theorem last_defn [Num α] (ev : Eval α) (free : List String) : ∀ (vs : List (Vec α)) (p : PSet α),
    ((paramOps ev free).last p vs).map Parameter.defn = p.map Parameter.defn := by
  intro vs
  induction vs with
  | nil => intro p; rfl
  | cons v vs ih =>
    intro p
    simp only [ParamOps.last, List.foldl_cons]
    have := ih ((paramOps ev free).step p v)
    simp only [ParamOps.last] at this
    rw [this, step_defn]

/-! ### `set_from_label_and_value_arrays` with ALL labels and a record -/

theorem setOne_labels [Num α] (ps : PSet α) (l : String) (x : Ext α) :
    (setOne ps l x).map (·.label) = ps.map (·.label) := by
  simp only [setOne, List.map_map]
  apply List.map_congr_left
  intro q _
  by_cases h : q.label = l <;> simp [h, Parameter.setFromOpt]

/-- when every listed label exists the loop is a fold and never raises -/
theorem setLoop_found [Num α] : ∀ (pairs : List (String × Ext α)) (ps : PSet α),
    (∀ pr ∈ pairs, pr.1 ∈ ps.map (·.label)) →
    setLoop ps pairs = (pairs.foldl (fun acc pr => setOne acc pr.1 pr.2) ps, .ok) := by
  intro pairs
  induction pairs with
  | nil => intro ps _; rfl
  | cons pr rest ih =>
    intro ps h
    obtain ⟨l, x⟩ := pr
    have hl : l ∈ ps.map (·.label) := h (l, x) (List.mem_cons_self ..)
    have hany : (ps.any fun q => decide (q.label = l)) = true := by
      simp only [List.any_eq_true, decide_eq_true_eq]
      obtain ⟨q, hq, hql⟩ := List.mem_map.1 hl
      exact ⟨q, hq, hql⟩
    simp only [setLoop, hany, ↓reduceIte, List.foldl_cons]
    apply ih
    intro pr' hpr'
    rw [setOne_labels]
    exact h pr' (List.mem_cons_of_mem _ hpr')

theorem setOne_getElem? [Num α] (ps : PSet α) (l : String) (x : Ext α) (i : Nat) :
    (setOne ps l x)[i]? = (ps[i]?).map (fun q => if q.label = l then q.setFromOpt x else q) := by
  simp [setOne]

theorem foldl_setOne_untouched [Num α] : ∀ (pairs : List (String × Ext α)) (ps : PSet α) (i : Nat)
    (q : Parameter α), ps[i]? = some q → q.label ∉ pairs.map (·.1) →
    (pairs.foldl (fun acc pr => setOne acc pr.1 pr.2) ps)[i]? = some q := by
  intro pairs
  induction pairs with
  | nil => intro ps i q h _; simpa using h
  | cons pr rest ih =>
    intro ps i q h hn
    simp only [List.map_cons, List.mem_cons, not_or] at hn
    simp only [List.foldl_cons]
    apply ih _ i q _ hn.2
    rw [setOne_getElem?, h]
    simp [hn.1]

theorem foldl_setOne_hit [Num α] : ∀ (pairs : List (String × Ext α)) (ps : PSet α) (i j : Nat)
    (q : Parameter α) (x : Ext α), (pairs.map (·.1)).Nodup → pairs[j]? = some (q.label, x) →
    ps[i]? = some q →
    (pairs.foldl (fun acc pr => setOne acc pr.1 pr.2) ps)[i]? = some (q.setFromOpt x) := by
  intro pairs
  induction pairs with
  | nil => intro ps i j q x _ h; simp at h
  | cons pr rest ih =>
    intro ps i j q x hN hj hi
    simp only [List.map_cons, List.nodup_cons] at hN
    simp only [List.foldl_cons]
    cases j with
    | zero =>
      simp only [List.getElem?_cons_zero, Option.some.injEq] at hj
      subst hj
      apply foldl_setOne_untouched rest _ i _ _ (by simpa [Parameter.setFromOpt] using hN.1)
      rw [setOne_getElem?, hi]
      simp
    | succ j =>
      simp only [List.getElem?_cons_succ] at hj
      have hmem : q.label ∈ rest.map (·.1) :=
        List.mem_map.mpr ⟨(q.label, x), List.mem_of_getElem? hj, rfl⟩
      have hne : q.label ≠ pr.1 := by
        intro h
        exact hN.1 (h ▸ hmem)
      apply ih _ i j q x hN.2 hj
      rw [setOne_getElem?, hi]
      simp [hne]

/-- **`set_from_history` on a record**: handing all labels and the record of `S` to
    `set_from_label_and_value_arrays` on a parameter set `cur` with the same definitions gives every
    parameter of `S` sent through optimiser space and back, then the expression update. -/
theorem fromRow_rowOf [Num α] (ev : Eval α) (free : List String) (cur S : PSet α)
    (hd : cur.map Parameter.defn = S.map Parameter.defn) (hN : (cur.map (·.label)).Nodup) :
    (paramOps ev free).fromRow cur (rowOf S) = updateExpr ev (roundTrip S) ∧
    (setFromArrays ev cur (cur.map (·.label)) (rowOf S)).2 = .ok := by
  have hlen : cur.length = S.length := by simpa using congrArg List.length hd
  have hlab : (cur.map (·.label)).length = (rowOf S).length := by simp [rowOf_length, hlen]
  have hfound : ∀ pr ∈ (cur.map (·.label)).zip (rowOf S), pr.1 ∈ cur.map (·.label) :=
    fun pr hp => (List.of_mem_zip (a := pr.1) (b := pr.2) hp).1
  have hloop := setLoop_found ((cur.map (·.label)).zip (rowOf S)) cur hfound
  have hzipfst : (((cur.map (·.label)).zip (rowOf S)).map (·.1)) = cur.map (·.label) := by
    rw [List.map_fst_zip]
    omega
  have hfold : ((cur.map (·.label)).zip (rowOf S)).foldl (fun acc pr => setOne acc pr.1 pr.2) cur
      = roundTrip S := by
    apply List.ext_getElem?
    intro i
    by_cases hi : i < cur.length
    · have hiS : i < S.length := by omega
      have hq : cur[i]? = some cur[i] := List.getElem?_eq_getElem hi
      have hdi : cur[i].defn = S[i].defn := by
        have := congrArg (fun l => l[i]?) hd
        simpa [List.getElem?_map, List.getElem?_eq_getElem hi, List.getElem?_eq_getElem hiS] using this
      have hpair : ((cur.map (·.label)).zip (rowOf S))[i]? = some (cur[i].label, (toOpt S[i]).value) := by
        rw [List.getElem?_zip_eq_some]
        simp [rowOf_eq, List.getElem?_eq_getElem hi, List.getElem?_eq_getElem hiS]
      rw [foldl_setOne_hit _ cur i i cur[i] _ (by rw [hzipfst]; exact hN) hpair hq]
      simp only [roundTrip, List.getElem?_map, List.getElem?_eq_getElem hiS, Option.map_some,
        Option.some.injEq, roundTripParam, Parameter.setFromOpt]
      simp only [Parameter.defn, Prod.mk.injEq] at hdi
      obtain ⟨h1, h2, h3, h4, h5, h6, h7⟩ := hdi
      cases hc : cur[i]
      cases hs : S[i]
      simp_all
    · have h1 : ∀ (pairs : List (String × Ext α)) (ps : PSet α),
          (pairs.foldl (fun acc pr => setOne acc pr.1 pr.2) ps).length = ps.length := by
        intro pairs
        induction pairs with
        | nil => intro ps; rfl
        | cons pr rest ih =>
          intro ps
          rw [List.foldl_cons, ih]
          simp [setOne]
      rw [List.getElem?_eq_none (by rw [h1]; omega), List.getElem?_eq_none (by simp [roundTrip]; omega)]
  constructor
  · simp only [paramOps, setFromArrays, hlab, ne_eq, not_true_eq_false, ↓reduceIte, hloop, hfold]
  · simp only [setFromArrays, hlab, ne_eq, not_true_eq_false, ↓reduceIte, hloop]

/-- the same through C11's `setFromHistory`: `fromRow` *is* `Parameters.set_from_history` on a history
    whose labels are `iteration` followed by the labels of the parameter set -/
theorem fromRow_eq_setFromHistory [Num α] (ev : Eval α) (free : List String) (cur : PSet α)
    (rows : List (Vec α)) (i : Nat) (it : Ext α) (r : Vec α) (hr : rows[i]? = some (it :: r)) :
    (paramOps ev free).fromRow cur r =
      (C11.setFromHistory ev cur ⟨"iteration" :: cur.map (·.label), rows⟩ i).1 := by
  simp [paramOps, C11.setFromHistory, List.getD_eq_getElem?_getD, hr]

/-! ### the round trip of one parameter over ℝ -/

theorem roundTripParam_defn [Num α] (p : Parameter α) : (roundTripParam p).defn = p.defn := rfl

theorem roundTripParam_plain [Num α] (p : Parameter α) (h : p.nonNeg = false) : roundTripParam p = p := by
  cases p
  simp_all [roundTripParam, Parameter.setFromOpt, fromOpt, toOpt]

/-- over ℝ: a non-negative parameter with a positive value other than 1 comes back exactly -/
theorem roundTripParam_real_exact (p : Parameter ℝ)
    (h : p.nonNeg = false ∨ ∃ v, p.value = .fin v ∧ 0 < v ∧ v ≠ 1) : roundTripParam p = p := by
  rcases h with h | ⟨v, hv, hpos, hne⟩
  · exact roundTripParam_plain p h
  · cases hn : p.nonNeg with
    | false => exact roundTripParam_plain p hn
    | true =>
      have : fromOpt p.nonNeg (toOpt p).value = p.value := by
        simp only [fromOpt, toOpt, hn, if_true, hv, C11.logValue, C11.expE, C11.logFin_real, hne, if_false]
        simp only [Num.exp]
        rw [Real.exp_log hpos]
      cases p
      simp_all [roundTripParam, Parameter.setFromOpt]

/-- over ℝ: a non-negative parameter with a positive value comes back exactly, except at the guard
    of `_log_value`: the value 1 comes back as `1 + 1e-10` -/
theorem roundTripParam_real_value (p : Parameter ℝ) (h : p.nonNeg = true → ∃ v, p.value = .fin v ∧ 0 < v) :
    (roundTripParam p).value = p.value ∨
      (p.nonNeg = true ∧ p.value = .fin 1 ∧ (roundTripParam p).value = .fin (1 + 1 / 10000000000)) := by
  cases hn : p.nonNeg with
  | false => left; rw [roundTripParam_plain p hn]
  | true =>
    obtain ⟨v, hv, hpos⟩ := h hn
    by_cases h1 : v = 1
    · right
      subst h1
      refine ⟨rfl, hv, ?_⟩
      simp only [roundTripParam, Parameter.setFromOpt, fromOpt, toOpt, hn, if_true, hv, C11.logValue,
        C11.expE, C11.logFin_real]
      simp only [Num.exp]
      rw [Real.exp_log (by norm_num)]
    · left
      rw [roundTripParam_real_exact p (Or.inr ⟨v, hv, hpos, h1⟩)]

end Glotaran.C15
