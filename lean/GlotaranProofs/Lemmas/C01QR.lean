/-
C01 — non-vacuity in general of the hypothesis "LAPACK returned an exact compact Householder
factorisation": over ℝ every matrix with `n ≤ m` has one (`dgeqr2` as a noncomputable definition),
its triangle has a non-zero diagonal iff the matrix has full column rank, and with any such
factorisation the variable-projection formulas give the least-squares minimiser.
-/
import GlotaranProofs.Lemmas.C01Abs
import Mathlib.Analysis.Real.Sqrt
import Mathlib.Algebra.BigOperators.Field
import Mathlib.LinearAlgebra.Matrix.Block
import Mathlib.LinearAlgebra.Matrix.ToLinearEquiv
import Mathlib.LinearAlgebra.Matrix.NonsingularInverse
import Mathlib.LinearAlgebra.Dimension.Finite
namespace Glotaran.C01.Abs
open Matrix

/-- what `isQRof` + `diagNonzero` of the executable model say, as a proposition over any field:
    `hs` are n reflectors in LAPACK's compact form (v_k zero above position k, 1 on it), each
    orthogonal, `Qᵀ A = B` with `B` upper trapezoidal -/
structure IsCompactQR {K : Type*} [Field K] {m n : ℕ} (A : Matrix (Fin m) (Fin n) K)
    (hs : List ((Fin m → K) × K)) (B : Matrix (Fin m) (Fin n) K) : Prop where
  len : hs.length = n
  ok : ∀ h ∈ hs, HOK h
  compact : ∀ (k : ℕ) (hk : k < hs.length) (i : Fin m),
    ((i : ℕ) < k → (hs[k]).1 i = 0) ∧ ((i : ℕ) = k → (hs[k]).1 i = 1)
  fact : QTm hs * A = B
  upper : ∀ (i : Fin m) (j : Fin n), (j : ℕ) < (i : ℕ) → B i j = 0

/-- the diagonal of the triangle has no zero (`dtrtrs` returns `info = 0`) -/
def DiagNonzero {K : Type*} [Field K] {m n : ℕ} (B : Matrix (Fin m) (Fin n) K) : Prop :=
  ∀ (i : Fin m) (j : Fin n), (i : ℕ) = (j : ℕ) → B i j ≠ 0

/-! ### 1. one column: LAPACK's `dlarfg` -/
section Step
variable {m : ℕ}

/-- a sum over `Fin m` of a function vanishing before `k` splits into the `k` term and the tail -/
theorem sum_split_at {K : Type*} [AddCommMonoid K] (k : Fin m) (F : Fin m → K)
    (hF : ∀ i : Fin m, (i : ℕ) < k → F i = 0) :
    ∑ i, F i = F k + ∑ i : Fin m, if (k : ℕ) < (i : ℕ) then F i else 0 := by
  have e : ∀ i : Fin m, F i = (if i = k then F k else 0) + (if (k : ℕ) < (i : ℕ) then F i else 0) := by
    intro i
    by_cases h1 : i = k
    · subst h1; simp
    · have h1' : (i : ℕ) ≠ k := fun h => h1 (Fin.ext h)
      by_cases h2 : (k : ℕ) < (i : ℕ)
      · simp [h1, h2]
      · simp only [h1, h2, if_false, add_zero]
        exact hF i (by omega)
  rw [Finset.sum_congr rfl (fun i _ => e i), Finset.sum_add_distrib, Finset.sum_ite_eq']
  simp

/-- `s = Σ_{i>k} x_i²` -/
noncomputable def tailSq (x : Fin m → ℝ) (k : Fin m) : ℝ :=
  ∑ i : Fin m, if (k : ℕ) < (i : ℕ) then x i ^ 2 else 0

/-- `β = −sign(α) √(α² + s)` -/
noncomputable def hbeta (x : Fin m → ℝ) (k : Fin m) : ℝ :=
  if 0 ≤ x k then -Real.sqrt (x k ^ 2 + tailSq x k) else Real.sqrt (x k ^ 2 + tailSq x k)

/-- LAPACK `dlarfg` on the sub-column `x[k:]`: the reflector `(v, τ)` in compact form -/
noncomputable def householderVec (x : Fin m → ℝ) (k : Fin m) : (Fin m → ℝ) × ℝ :=
  if tailSq x k = 0 then (fun i => if (i : ℕ) < k then 0 else if (i : ℕ) = k then 1 else 0, 0)
  else (fun i => if (i : ℕ) < k then 0 else if (i : ℕ) = k then 1 else x i / (x k - hbeta x k),
        (hbeta x k - x k) / hbeta x k)

theorem tailSq_nonneg (x : Fin m → ℝ) (k : Fin m) : 0 ≤ tailSq x k :=
  Finset.sum_nonneg (fun i _ => by split_ifs <;> positivity)

theorem tailSq_eq_zero {x : Fin m → ℝ} {k : Fin m} (h : tailSq x k = 0) (i : Fin m)
    (hi : (k : ℕ) < (i : ℕ)) : x i = 0 := by
  have h0 : ∀ i ∈ (Finset.univ : Finset (Fin m)),
      0 ≤ (if (k : ℕ) < (i : ℕ) then x i ^ 2 else 0) := fun i _ => by split_ifs <;> positivity
  have h1 := (Finset.sum_eq_zero_iff_of_nonneg h0).mp h i (Finset.mem_univ i)
  rw [if_pos hi] at h1
  exact (pow_eq_zero_iff (two_ne_zero)).mp h1

theorem hbeta_sq (x : Fin m → ℝ) (k : Fin m) : hbeta x k ^ 2 = x k ^ 2 + tailSq x k := by
  have h0 : 0 ≤ x k ^ 2 + tailSq x k := add_nonneg (sq_nonneg _) (tailSq_nonneg x k)
  unfold hbeta
  split_ifs
  · rw [neg_sq, Real.sq_sqrt h0]
  · rw [Real.sq_sqrt h0]

theorem hbeta_facts (x : Fin m → ℝ) (k : Fin m) (hs : tailSq x k ≠ 0) :
    hbeta x k ≠ 0 ∧ x k - hbeta x k ≠ 0 := by
  have hpos : 0 < x k ^ 2 + tailSq x k := by
    have := tailSq_nonneg x k
    have : 0 < tailSq x k := lt_of_le_of_ne this (Ne.symm hs)
    positivity
  have hsq := Real.sqrt_pos.mpr hpos
  unfold hbeta
  split_ifs with h
  · constructor
    · linarith
    · linarith
  · push Not at h
    constructor
    · linarith
    · linarith

theorem householder_step_spec (x : Fin m → ℝ) (k : Fin m) :
    (∀ i : Fin m, (i : ℕ) < k → (householderVec x k).1 i = 0) ∧
    (householderVec x k).1 k = 1 ∧
    HOK (householderVec x k) ∧
    (∀ i : Fin m, (k : ℕ) < i → (Hm (householderVec x k) *ᵥ x) i = 0) ∧
    (∀ i : Fin m, (i : ℕ) < k → (Hm (householderVec x k) *ᵥ x) i = x i) ∧
    ((Hm (householderVec x k) *ᵥ x) k ≠ 0 ↔ ∃ i : Fin m, (k : ℕ) ≤ i ∧ x i ≠ 0) := by
  by_cases hs : tailSq x k = 0
  · -- τ = 0, H = 1
    have hv : householderVec x k =
        (fun i : Fin m => if (i : ℕ) < k then 0 else if (i : ℕ) = k then 1 else 0, 0) := by
      unfold householderVec; rw [if_pos hs]
    have hH : Hm (householderVec x k) *ᵥ x = x := by
      rw [Hm_mulVec, hv]; simp
    refine ⟨?_, ?_, ?_, ?_, ?_, ?_⟩
    · intro i hi; rw [hv]; simp [hi]
    · rw [hv]; simp
    · rw [hv]; simp [HOK]
    · intro i hi; rw [hH]; exact tailSq_eq_zero hs i hi
    · intro i _; rw [hH]
    · rw [hH]
      constructor
      · intro h; exact ⟨k, le_refl _, h⟩
      · rintro ⟨i, hi, hx⟩
        rcases Nat.lt_or_ge (k : ℕ) (i : ℕ) with h | h
        · exact absurd (tailSq_eq_zero hs i h) hx
        · have : i = k := Fin.ext (by omega)
          rwa [this] at hx
  · obtain ⟨hb, hab⟩ := hbeta_facts x k hs
    have hbs := hbeta_sq x k
    set α := x k with hα
    set β := hbeta x k with hβ
    set s := tailSq x k with hsdef
    have hs' : s = β ^ 2 - α ^ 2 := by linarith
    set v : Fin m → ℝ := fun i => if (i : ℕ) < k then 0 else if (i : ℕ) = k then 1 else x i / (α - β)
      with hvdef
    have hv : householderVec x k = (v, (β - α) / β) := by
      unfold householderVec; rw [if_neg hs]
    have hvk : v k = 1 := by simp [hvdef]
    have hvlt : ∀ i : Fin m, (i : ℕ) < k → v i = 0 := by
      intro i hi; rw [hvdef]; simp only [if_pos hi]
    have hvgt : ∀ i : Fin m, (k : ℕ) < i → v i = x i / (α - β) := by
      intro i hi
      have h1 : ¬ (i : ℕ) < k := by omega
      have h2 : ¬ (i : ℕ) = k := by omega
      rw [hvdef]; simp only [if_neg h1, if_neg h2]
    have hvv : v ⬝ᵥ v = 1 + s / (α - β) ^ 2 := by
      unfold dotProduct
      rw [sum_split_at k (fun i => v i * v i) (fun i hi => by simp [hvlt i hi]), hvk, hsdef]
      unfold tailSq
      rw [Finset.sum_div]
      congr 1
      · ring
      · apply Finset.sum_congr rfl
        intro i _
        split_ifs with h
        · rw [hvgt i h]; field_simp
        · simp
    have hvx : v ⬝ᵥ x = α + s / (α - β) := by
      unfold dotProduct
      rw [sum_split_at k (fun i => v i * x i) (fun i hi => by simp [hvlt i hi]), hvk, hsdef]
      unfold tailSq
      rw [Finset.sum_div]
      congr 1
      · ring
      · apply Finset.sum_congr rfl
        intro i _
        split_ifs with h
        · rw [hvgt i h]; field_simp
        · simp
    have hτx : (β - α) / β * (v ⬝ᵥ x) = α - β := by
      rw [hvx, hs']; field_simp; ring
    have hH : Hm (householderVec x k) *ᵥ x = x - (α - β) • v := by
      rw [Hm_mulVec, hv]; simp only; rw [hτx]
    refine ⟨?_, ?_, ?_, ?_, ?_, ?_⟩
    · intro i hi; rw [hv]; exact hvlt i hi
    · rw [hv]; exact hvk
    · rw [hv]; unfold HOK; simp only; rw [hvv, hs']; field_simp; ring
    · intro i hi; rw [hH]; simp only [Pi.sub_apply, Pi.smul_apply, smul_eq_mul, hvgt i hi]
      field_simp; ring
    · intro i hi; rw [hH]; simp [hvlt i hi]
    · rw [hH]
      have : (x - (α - β) • v) k = β := by
        simp only [Pi.sub_apply, Pi.smul_apply, smul_eq_mul, hvk]; ring
      rw [this]
      refine ⟨fun _ => ?_, fun _ => hb⟩
      by_contra hcon
      push Not at hcon
      apply hs
      apply Finset.sum_eq_zero
      intro i _
      split_ifs with h
      · rw [hcon i (le_of_lt h)]; ring
      · rfl

end Step

/-! ### 2. column by column: LAPACK's `dgeqr2` -/
section QR
variable {m n : ℕ}

theorem QTm_append {K : Type*} [CommRing K] (hs : List ((Fin m → K) × K)) (h : (Fin m → K) × K) :
    QTm (hs ++ [h]) = Hm h * QTm hs := by
  induction hs with
  | nil => simp [QTm]
  | cons a hs ih => simp [QTm, ih, Matrix.mul_assoc]

/-- a reflector whose vector vanishes on the rows `< k` fixes every vector supported on the rows
    `≤ j < k` -/
theorem Hm_mulVec_of_disjoint {K : Type*} [CommRing K] (h : (Fin m → K) × K) (c : Fin m → K)
    (k j : ℕ) (hv : ∀ i : Fin m, (i : ℕ) < k → h.1 i = 0) (hc : ∀ i : Fin m, j < (i : ℕ) → c i = 0)
    (hjk : j < k) : Hm h *ᵥ c = c := by
  have h0 : h.1 ⬝ᵥ c = 0 := by
    apply Finset.sum_eq_zero
    intro i _
    by_cases hi : (i : ℕ) < k
    · rw [hv i hi, zero_mul]
    · rw [hc i (by omega), mul_zero]
  rw [Hm_mulVec, h0, mul_zero, zero_smul, sub_zero]

theorem mul_apply_eq_mulVec_col {K : Type*} [CommRing K] (H : Matrix (Fin m) (Fin m) K)
    (M : Matrix (Fin m) (Fin n) K) (i : Fin m) (j : Fin n) :
    (H * M) i j = (H *ᵥ (fun i => M i j)) i := rfl

/-- the first `k` steps of `dgeqr2` (unblocked Householder QR): step `k` applies `dlarfg` to column
    `k` of the matrix transformed so far -/
noncomputable def dgeqr2Aux (A : Matrix (Fin m) (Fin n) ℝ) : ℕ → List ((Fin m → ℝ) × ℝ)
  | 0 => []
  | k + 1 =>
    if h : k < m ∧ k < n then
      dgeqr2Aux A k ++ [householderVec (fun i => (QTm (dgeqr2Aux A k) * A) i ⟨k, h.2⟩) ⟨k, h.1⟩]
    else dgeqr2Aux A k

/-- LAPACK's `dgeqr2` as a noncomputable definition: the `n` reflectors -/
noncomputable def dgeqr2 (A : Matrix (Fin m) (Fin n) ℝ) : List ((Fin m → ℝ) × ℝ) := dgeqr2Aux A n

theorem dgeqr2Aux_spec (A : Matrix (Fin m) (Fin n) ℝ) (hnm : n ≤ m) (k : ℕ) (hk : k ≤ n) :
    (dgeqr2Aux A k).length = k ∧ (∀ h ∈ dgeqr2Aux A k, HOK h) ∧
    (∀ (l : ℕ) (hl : l < (dgeqr2Aux A k).length) (i : Fin m),
      ((i : ℕ) < l → ((dgeqr2Aux A k)[l]).1 i = 0) ∧ ((i : ℕ) = l → ((dgeqr2Aux A k)[l]).1 i = 1)) ∧
    (∀ (i : Fin m) (j : Fin n), (j : ℕ) < k → (j : ℕ) < i → (QTm (dgeqr2Aux A k) * A) i j = 0) := by
  induction k with
  | zero =>
    refine ⟨rfl, ?_, ?_, ?_⟩
    · intro h hh; simp [dgeqr2Aux] at hh
    · intro l hl; simp [dgeqr2Aux] at hl
    · intro i j hj; omega
  | succ k ih =>
    obtain ⟨hlen, hok, hcomp, hzero⟩ := ih (by omega)
    have hkn : k < n := by omega
    have hkm : k < m := by omega
    set hs := dgeqr2Aux A k with hhs
    set M := QTm hs * A with hM
    set col : Fin m → ℝ := fun i => M i ⟨k, hkn⟩ with hcol
    set h := householderVec col ⟨k, hkm⟩ with hh
    have hstep : dgeqr2Aux A (k + 1) = hs ++ [h] := by
      simp only [dgeqr2Aux]
      rw [dif_pos ⟨hkm, hkn⟩]
    obtain ⟨s1, s2, s3, s4, -, -⟩ := householder_step_spec col ⟨k, hkm⟩
    rw [← hh] at s1 s2 s3 s4
    rw [hstep]
    refine ⟨by simp [hlen], ?_, ?_, ?_⟩
    · intro h' hh'
      rcases List.mem_append.mp hh' with h1 | h1
      · exact hok h' h1
      · rw [List.mem_singleton.mp h1]; exact s3
    · intro l hl i
      have hl' : l < k + 1 := by simpa [hlen] using hl
      by_cases hlk : l < k
      · rw [List.getElem_append_left (by omega)]
        exact hcomp l (by omega) i
      · have hlk' : l = k := by omega
        subst hlk'
        rw [List.getElem_append_right (by omega)]
        simp only [hlen, Nat.sub_self, List.getElem_cons_zero]
        constructor
        · intro hi; exact s1 i hi
        · intro hi
          have : i = ⟨l, hkm⟩ := Fin.ext hi
          rw [this]; exact s2
    · intro i j hj hji
      rw [QTm_append, Matrix.mul_assoc, ← hM, mul_apply_eq_mulVec_col]
      by_cases hjk : (j : ℕ) < k
      · rw [Hm_mulVec_of_disjoint h (fun i => M i j) k j s1 (fun i' hi' => hzero i' j hjk hi') hjk]
        exact hzero i j hjk hji
      · have hjk' : j = ⟨k, hkn⟩ := Fin.ext (show (j : ℕ) = k by omega)
        rw [hjk']
        exact s4 i (by rw [hjk'] at hji; exact hji)

/-- **every** real matrix with `n ≤ m` has an exact compact Householder factorisation -/
theorem exists_compact_qr (A : Matrix (Fin m) (Fin n) ℝ) (hnm : n ≤ m) :
    ∃ hs B, IsCompactQR A hs B := by
  obtain ⟨h1, h2, h3, h4⟩ := dgeqr2Aux_spec A hnm n (le_refl n)
  exact ⟨dgeqr2 A, QTm (dgeqr2 A) * A, h1, h2, h3, rfl, fun i j hji => h4 i j j.2 hji⟩

end QR

/-! ### 5 (first part). with any compact QR the variable-projection formulas are optimal -/
section VP
variable {m n : ℕ} {K : Type*} [Field K]

theorem IsCompactQR.zero_below {A : Matrix (Fin m) (Fin n) K} {hs : List ((Fin m → K) × K)}
    {B : Matrix (Fin m) (Fin n) K} (h : IsCompactQR A hs B) (i : Fin m) (j : Fin n)
    (hi : ¬ (i : ℕ) < n) : B i j = 0 :=
  h.upper i j (by have := j.2; omega)

/-- `c` = any solution of the triangular system (`dtrtrs`), `r` = `Q` applied to `Qᵀ y` with its
    first `n` entries zeroed (`dormqr 'N'`): then `r = y − A c`, `Aᵀ r = 0` and `c` is a
    least-squares minimiser. -/
theorem vp_optimal_of_compact_qr [LinearOrder K] [IsStrictOrderedRing K]
    (A : Matrix (Fin m) (Fin n) K) (hs : List ((Fin m → K) × K)) (B : Matrix (Fin m) (Fin n) K)
    (h : IsCompactQR A hs B) (y : Fin m → K) (c : Fin n → K)
    (hc : ∀ i : Fin m, (i : ℕ) < n → (B *ᵥ c) i = (QTm hs *ᵥ y) i) :
    let r := Qm hs *ᵥ (fun i : Fin m => if (i : ℕ) < n then 0 else (QTm hs *ᵥ y) i)
    r = y - A *ᵥ c ∧ Aᵀ *ᵥ r = 0 ∧ ∀ c' : Fin n → K, r ⬝ᵥ r ≤ (y - A *ᵥ c') ⬝ᵥ (y - A *ᵥ c') := by
  intro r
  have hQT := Qm_mul_QTm hs h.ok
  have hTQ := QTm_mul_Qm hs h.ok
  have e1 : r = y - A *ᵥ c :=
    vp_residual_abs (Qm hs) (QTm hs) A B y c (fun i : Fin m => (i : ℕ) < n) hQT h.fact
      (fun i j hi => h.zero_below i j hi) hc
  have e2 : Aᵀ *ᵥ r = 0 :=
    vp_orthogonal_abs (Qm hs) (QTm hs) A B (QTm hs *ᵥ y) (fun i : Fin m => (i : ℕ) < n)
      (Qm_transpose hs) hTQ hQT h.fact (fun i j hi => h.zero_below i j hi)
  refine ⟨e1, e2, ?_⟩
  intro c'
  rw [e1]
  have hg : grad A y c = 0 := by unfold grad; rw [← e1]; exact e2
  exact ls_optimal_of_orthogonal A y c hg c'

end VP

/-! ### 3. non-zero diagonal ⇔ full column rank -/
section Rank
variable {m n : ℕ} {K : Type*} [Field K]

/-- the leading `n × n` block of `B` -/
def topBlock (B : Matrix (Fin m) (Fin n) K) (hnm : n ≤ m) : Matrix (Fin n) (Fin n) K :=
  B.submatrix (Fin.castLE hnm) id

theorem topBlock_mulVec (B : Matrix (Fin m) (Fin n) K) (hnm : n ≤ m) (d : Fin n → K) (i : Fin n) :
    (topBlock B hnm *ᵥ d) i = (B *ᵥ d) (Fin.castLE hnm i) := rfl

variable {A : Matrix (Fin m) (Fin n) K} {hs : List ((Fin m → K) × K)} {B : Matrix (Fin m) (Fin n) K}

theorem IsCompactQR.topBlock_upper (h : IsCompactQR A hs B) (hnm : n ≤ m) :
    (topBlock B hnm).IsUpperTriangular := by
  intro i j hij
  exact h.upper _ _ (Fin.lt_def.mp hij)

theorem IsCompactQR.mulVec_eq_zero_iff (h : IsCompactQR A hs B) (d : Fin n → K) :
    A *ᵥ d = 0 ↔ B *ᵥ d = 0 := by
  constructor
  · intro h0
    rw [← h.fact, ← mulVec_mulVec, h0, mulVec_zero]
  · intro h0
    have hA : A = Qm hs * B := by
      rw [← h.fact, ← Matrix.mul_assoc, Qm_mul_QTm hs h.ok, Matrix.one_mul]
    rw [hA, ← mulVec_mulVec, h0, mulVec_zero]

theorem IsCompactQR.topBlock_mulVec_eq_zero_iff (h : IsCompactQR A hs B) (hnm : n ≤ m)
    (d : Fin n → K) : B *ᵥ d = 0 ↔ topBlock B hnm *ᵥ d = 0 := by
  constructor
  · intro h0
    funext i
    rw [topBlock_mulVec, h0]; rfl
  · intro h0
    funext i
    by_cases hi : (i : ℕ) < n
    · have := congrFun h0 ⟨i, hi⟩
      rw [topBlock_mulVec] at this
      exact this
    · show ∑ j, B i j * d j = 0
      exact Finset.sum_eq_zero (fun j _ => by rw [h.zero_below i j hi, zero_mul])

theorem IsCompactQR.diagNonzero_iff_det (h : IsCompactQR A hs B) (hnm : n ≤ m) :
    DiagNonzero B ↔ (topBlock B hnm).det ≠ 0 := by
  rw [Matrix.det_of_isUpperTriangular (h.topBlock_upper hnm), Finset.prod_ne_zero_iff]
  constructor
  · intro hd i _
    exact hd (Fin.castLE hnm i) i rfl
  · intro hd i j hij
    have : i = Fin.castLE hnm j := Fin.ext hij
    rw [this]
    exact hd j (Finset.mem_univ j)

/-- the triangle of a compact QR factorisation has a non-zero diagonal iff the matrix has full
    column rank -/
theorem diagNonzero_iff_full_rank (A : Matrix (Fin m) (Fin n) K) (hs : List ((Fin m → K) × K))
    (B : Matrix (Fin m) (Fin n) K) (h : IsCompactQR A hs B) (hnm : n ≤ m) :
    DiagNonzero B ↔ (∀ d : Fin n → K, A *ᵥ d = 0 → d = 0) := by
  rw [h.diagNonzero_iff_det hnm, Ne, ← Matrix.exists_mulVec_eq_zero_iff]
  constructor
  · intro hne d hd
    by_contra hd0
    exact hne ⟨d, hd0, (h.topBlock_mulVec_eq_zero_iff hnm d).mp ((h.mulVec_eq_zero_iff d).mp hd)⟩
  · rintro hr ⟨v, hv0, hv⟩
    exact hv0 (hr v ((h.mulVec_eq_zero_iff v).mpr ((h.topBlock_mulVec_eq_zero_iff hnm v).mpr hv)))

theorem full_rank_of_compact_qr (h : IsCompactQR A hs B) (hnm : n ≤ m) (hd : DiagNonzero B) :
    ∀ d : Fin n → K, A *ᵥ d = 0 → d = 0 := (diagNonzero_iff_full_rank A hs B h hnm).mp hd

theorem diagNonzero_of_full_rank (h : IsCompactQR A hs B) (hnm : n ≤ m)
    (hr : ∀ d : Fin n → K, A *ᵥ d = 0 → d = 0) : DiagNonzero B :=
  (diagNonzero_iff_full_rank A hs B h hnm).mpr hr

/-- full column rank forces `n ≤ m` -/
theorem le_of_full_rank (A : Matrix (Fin m) (Fin n) K) (hrank : ∀ d : Fin n → K, A *ᵥ d = 0 → d = 0) :
    n ≤ m := by
  have hinj : Function.Injective A.mulVecLin := by
    rw [injective_iff_map_eq_zero]
    intro d hd
    exact hrank d hd
  have := LinearMap.finrank_le_finrank_of_injective hinj
  simpa [Module.finrank_fin_fun] using this

/-- the triangular system has a solution (`dtrtrs`, `info = 0`) -/
theorem exists_trtrs_solution (h : IsCompactQR A hs B) (hd : DiagNonzero B) (hnm : n ≤ m)
    (t : Fin m → K) : ∃ c : Fin n → K, ∀ i : Fin m, (i : ℕ) < n → (B *ᵥ c) i = t i := by
  have hdet := (h.diagNonzero_iff_det hnm).mp hd
  have hu : IsUnit (topBlock B hnm).det := isUnit_iff_ne_zero.mpr hdet
  refine ⟨(topBlock B hnm)⁻¹ *ᵥ (fun i => t (Fin.castLE hnm i)), ?_⟩
  intro i hi
  have e : (topBlock B hnm) *ᵥ ((topBlock B hnm)⁻¹ *ᵥ (fun i => t (Fin.castLE hnm i))) =
      fun i => t (Fin.castLE hnm i) := by
    rw [Matrix.mulVec_mulVec, Matrix.mul_nonsing_inv _ hu, Matrix.one_mulVec]
  have := congrFun e ⟨i, hi⟩
  rw [topBlock_mulVec] at this
  exact this

end Rank

/-! ### 4. over ℝ: an admissible factorisation exists iff the matrix has full column rank -/
section Real
variable {m n : ℕ}

theorem exists_admissible_qr (A : Matrix (Fin m) (Fin n) ℝ)
    (hrank : ∀ d : Fin n → ℝ, A *ᵥ d = 0 → d = 0) :
    ∃ hs B, IsCompactQR A hs B ∧ DiagNonzero B := by
  have hnm := le_of_full_rank A hrank
  obtain ⟨hs, B, h⟩ := exists_compact_qr A hnm
  exact ⟨hs, B, h, diagNonzero_of_full_rank h hnm hrank⟩

theorem no_admissible_qr_of_rank_deficient {K : Type*} [Field K] (A : Matrix (Fin m) (Fin n) K)
    (hnm : n ≤ m) (hdef : ∃ d : Fin n → K, d ≠ 0 ∧ A *ᵥ d = 0) :
    ¬ ∃ hs B, IsCompactQR A hs B ∧ DiagNonzero B := by
  rintro ⟨hs, B, h, hd⟩
  obtain ⟨d, hd0, hAd⟩ := hdef
  exact hd0 (full_rank_of_compact_qr h hnm hd d hAd)

/-- every real least-squares problem of full column rank is solved by the variable-projection
    formulas with LAPACK's exact factorisation -/
theorem vp_optimal_real (A : Matrix (Fin m) (Fin n) ℝ)
    (hrank : ∀ d : Fin n → ℝ, A *ᵥ d = 0 → d = 0) (y : Fin m → ℝ) :
    ∃ (hs : List ((Fin m → ℝ) × ℝ)) (B : Matrix (Fin m) (Fin n) ℝ) (c : Fin n → ℝ),
      IsCompactQR A hs B ∧ DiagNonzero B ∧
      (∀ i : Fin m, (i : ℕ) < n → (B *ᵥ c) i = (QTm hs *ᵥ y) i) ∧
      let r := Qm hs *ᵥ (fun i : Fin m => if (i : ℕ) < n then 0 else (QTm hs *ᵥ y) i)
      r = y - A *ᵥ c ∧ Aᵀ *ᵥ r = 0 ∧
        ∀ c' : Fin n → ℝ, r ⬝ᵥ r ≤ (y - A *ᵥ c') ⬝ᵥ (y - A *ᵥ c') := by
  have hnm := le_of_full_rank A hrank
  obtain ⟨hs, B, h, hd⟩ := exists_admissible_qr A hrank
  obtain ⟨c, hc⟩ := exists_trtrs_solution h hd hnm (QTm hs *ᵥ y)
  exact ⟨hs, B, c, h, hd, hc, vp_optimal_of_compact_qr A hs B h y c hc⟩

end Real

/-! ### 6. a concrete instance (rational, so it is also an instance of the executable model's
    hypotheses): `A = (3, 4)ᵀ`, `v = (1, 1/2)`, `τ = 8/5`, `β = −5` -/
section Example

theorem example_isCompactQR :
    IsCompactQR (!![3; 4] : Matrix (Fin 2) (Fin 1) ℚ) [(![1, 1 / 2], 8 / 5)] !![-5; 0] where
  len := rfl
  ok := by
    intro h hh
    rw [List.mem_singleton.mp hh]
    simp [HOK, dotProduct, Fin.sum_univ_two]
    norm_num
  compact := by
    intro k hk i
    have hk0 : k = 0 := by simpa using hk
    subst hk0
    fin_cases i <;> simp
  fact := by
    ext i j
    fin_cases i <;> fin_cases j <;>
      simp [QTm, Hm, vecMulVec, Matrix.mul_apply, Fin.sum_univ_two, Matrix.one_apply] <;> norm_num
  upper := by
    intro i j hji
    fin_cases i <;> fin_cases j <;> simp at hji ⊢

theorem example_diagNonzero : DiagNonzero (!![-5; 0] : Matrix (Fin 2) (Fin 1) ℚ) := by
  intro i j hij
  fin_cases i <;> fin_cases j <;> simp at hij ⊢

/-- `dlarfg` on `(3, 4)`: `β = −5`, `v = (1, 1/2)`, `τ = 8/5` — the reflector of the rational instance -/
theorem example_householderVec :
    householderVec (![3, 4] : Fin 2 → ℝ) 0 = (![1, 1 / 2], 8 / 5) := by
  have hs : tailSq (![3, 4] : Fin 2 → ℝ) 0 = 16 := by
    simp [tailSq, Fin.sum_univ_two]; norm_num
  have hsq : Real.sqrt 25 = 5 := by
    rw [show (25 : ℝ) = 5 ^ 2 by norm_num, Real.sqrt_sq (by norm_num)]
  have hb : hbeta (![3, 4] : Fin 2 → ℝ) 0 = -5 := by
    unfold hbeta
    rw [hs]
    have h3 : (![3, 4] : Fin 2 → ℝ) 0 = 3 := rfl
    rw [if_pos (by rw [h3]; norm_num), h3]
    rw [show ((3:ℝ) ^ 2 + 16) = 25 by norm_num, hsq]
  unfold householderVec
  rw [hs, if_neg (by norm_num), hb]
  refine Prod.ext ?_ ?_
  · funext i
    fin_cases i <;> simp
    norm_num
  · simp; norm_num

end Example

end Glotaran.C01.Abs
