/-
C14 — helper lemmas about the simulation model and about the per-index problems the fit sees when the
data are simulated data.
-/
import GlotaranProofs.Lemmas.C14
import GlotaranProofs.Lemmas.C02
import GlotaranProofs.Lemmas.C02Length
import GlotaranProofs.Lemmas.C03
namespace Glotaran.C14
open Glotaran.LinAlg Glotaran.C02

/-! ### `simulateColumns` -/

theorem hasDupS_false_iff (l : List String) : hasDupS l = false ↔ l.Nodup := by
  induction l with
  | nil => simp [hasDupS]
  | cons x l ih =>
    simp only [hasDupS, Bool.or_eq_false_iff, ih, List.nodup_cons]
    constructor
    · rintro ⟨h1, h2⟩
      refine ⟨?_, h2⟩
      intro hx
      have : l.contains x = true := by simpa using hx
      rw [this] at h1; cases h1
    · rintro ⟨h1, h2⟩
      refine ⟨?_, h2⟩
      cases hc : l.contains x with
      | false => rfl
      | true => exact absurd (by simpa using hc) h1

/-- the clp values `simulate_from_clp` uses at global position `i`: selected by label -/
def sel (lm : LMat) (ls : List String) (rows : List Vec) (i : Nat) : Vec :=
  selectByLabel ls (rows.getD i []) lm.labels

theorem sel_length (lm : LMat) (ls : List String) (rows : List Vec) (i : Nat) :
    (sel lm ls rows i).length = lm.labels.length := by simp [sel, selectByLabel]

/-- the matrix of global index `i` -/
def sliceM (lm : LMat) (nGlobal i : Nat) : Mat := ((slices lm nGlobal).getD i default).m

def simCols (lm : LMat) (nGlobal : Nat) (ls : List String) (rows : List Vec) : List Vec :=
  (List.range nGlobal).map (fun i => mulVec (sliceM lm nGlobal i) (sel lm ls rows i))

/-- the conditions under which `simulate_from_clp` does not raise (for a non-empty global axis) -/
def TableOK (lm : LMat) (nGlobal : Nat) (ls : List String) (rows : List Vec) : Prop :=
  ls.Nodup ∧ (∀ l ∈ lm.labels, l ∈ ls) ∧ nGlobal ≤ rows.length

theorem simulateColumns_ok (lm : LMat) (nGlobal : Nat) (ls : List String) (rows : List Vec) (cols : List Vec)
    (h : simulateColumns lm nGlobal ⟨some ls, rows⟩ = .ok cols) :
    cols = simCols lm nGlobal ls rows ∧ (nGlobal ≠ 0 → TableOK lm nGlobal ls rows) := by
  unfold simulateColumns at h
  simp only at h
  split at h
  · rename_i h0
    cases h
    subst h0
    exact ⟨by simp [simCols], fun hne => absurd rfl hne⟩
  · split at h
    · cases h
    · split at h
      · cases h
      · rename_i hdup
        split at h
        · cases h
        · rename_i hall
          split at h
          · cases h
          · rename_i hlen
            cases h
            refine ⟨rfl, fun _ => ⟨?_, ?_, by omega⟩⟩
            · exact (hasDupS_false_iff ls).mp (by simpa using hdup)
            · intro l hl
              have : (lm.labels.all fun l => ls.contains l) = true := by simpa using hall
              rw [List.all_eq_true] at this
              simpa using this l hl

theorem simulateColumns_of_ok (lm : LMat) (nGlobal : Nat) (ls : List String) (rows : List Vec)
    (h : nGlobal ≠ 0 → TableOK lm nGlobal ls rows) :
    simulateColumns lm nGlobal ⟨some ls, rows⟩ = .ok (simCols lm nGlobal ls rows) := by
  unfold simulateColumns
  simp only
  by_cases h0 : nGlobal = 0
  · subst h0; simp [simCols]
  · obtain ⟨hd, hc, hl⟩ := h h0
    have hrows : rows.isEmpty = false := by
      cases rows with
      | nil => simp at hl; exact absurd hl h0
      | cons _ _ => rfl
    have hdup : hasDupS ls = false := (hasDupS_false_iff ls).mpr hd
    have hlen : ¬ rows.length < nGlobal := by omega
    simp [h0, hrows, hdup, hlen, simCols, sliceM, sel]
    exact hc

/-! ### columns of a matrix built from columns -/

theorem col_ofColumns (n : Nat) (cols : List Vec) (i : Nat) (hi : i < cols.length)
    (hl : (cols[i]).length = n) : col (C03.ofColumns n cols) i = cols[i] := by
  simp only [col, C03.ofColumns, List.map_map]
  have : ∀ m, ((fun r : Vec => r.getD i 0) ∘ fun m => cols.map (fun c => c.getD m 0)) m = (cols[i]).getD m 0 := by
    intro m
    simp [Function.comp, List.getD_eq_getElem?_getD, hi]
  rw [List.map_congr_left (fun m _ => this m)]
  rw [← hl]
  exact map_getD_range _

theorem getD_zipWith_mul (r s : Vec) (j : Nat) :
    (List.zipWith (· * ·) r s).getD j 0 = r.getD j 0 * s.getD j 0 := by
  induction r generalizing s j with
  | nil => simp
  | cons x r ih =>
    cases s with
    | nil => simp
    | cons y s =>
      cases j with
      | zero => simp
      | succ j => simpa using ih s j

theorem col_hadamard (a b : Mat) (i : Nat) :
    col (hadamard a b) i = List.zipWith (· * ·) (col a i) (col b i) := by
  induction a generalizing b with
  | nil => simp [hadamard, col]
  | cons r a ih =>
    cases b with
    | nil => simp [hadamard, col]
    | cons s b =>
      have := ih b
      simp only [hadamard, col, List.zipWith_cons_cons, List.map_cons] at this ⊢
      rw [this, getD_zipWith_mul]

theorem mulVec_weightRows (B : Mat) (w c : Vec) :
    mulVec (weightRows B w) c = List.zipWith (· * ·) (mulVec B c) w := by
  induction B generalizing w with
  | nil => simp [weightRows, mulVec]
  | cons r B ih =>
    cases w with
    | nil => simp [weightRows, mulVec]
    | cons x w =>
      have := ih w
      simp only [weightRows, mulVec, List.zipWith_cons_cons, List.map_cons] at this ⊢
      rw [this, dot_vscale]; congr 1; ring

theorem rows_weightRows_width (B : Mat) (w : Vec) (n : Nat) (h : ∀ r ∈ B, r.length = n) :
    ∀ r ∈ weightRows B w, r.length = n := by
  intro r hr
  simp only [weightRows] at hr
  obtain ⟨r', hr', x, _, rfl⟩ := Length.mem_zipWith_exists _ _ _ _ hr
  simpa [vscale] using h r' hr'

/-! ### slices of the scaled dataset matrix -/

theorem sliceM_scale (lm : LMat) (k : Rat) (nGlobal i : Nat) :
    sliceM ⟨lm.labels, lm.body.scale k⟩ nGlobal i = mscale k (sliceM lm nGlobal i) := by
  unfold sliceM slices
  cases hb : lm.body with
  | d2 m =>
    simp only [Body.scale]
    by_cases hi : i < nGlobal
    · simp [List.getD_eq_getElem?_getD, List.getElem?_replicate_of_lt hi]
    · have : ∀ x : LMat2, (List.replicate nGlobal x)[i]? = none := by
        intro x; simp; omega
      simp [List.getD_eq_getElem?_getD, this]
      rfl
  | d3 ms =>
    simp only [Body.scale, List.map_map]
    by_cases hi : i < ms.length
    · simp [List.getD_eq_getElem?_getD, hi]
    · have h1 : ms[i]? = none := by simp; omega
      simp [List.getD_eq_getElem?_getD, h1]
      rfl

theorem reduceAt_empty (x : Rat) (lm : LMat2) : reduceAt {} x lm = lm := by
  simp [reduceAt, applyRelationsAt_nil, applyConstraintsAt_nil]

/-! ### `mapM` in `Option` -/

theorem mapM_some_mem {α β} (f : α → Option β) (l : List α) (r : List β) (h : l.mapM f = some r) :
    ∀ y ∈ r, ∃ x ∈ l, f x = some y := by
  induction l generalizing r with
  | nil => simp at h; subst h; simp
  | cons a l ih =>
    rw [List.mapM_cons] at h
    cases hfa : f a with
    | none => simp [hfa] at h
    | some b =>
      cases hl : l.mapM f with
      | none => simp [hfa, hl] at h
      | some bs =>
        simp [hfa, hl] at h
        subst h
        intro y hy
        rcases List.mem_cons.mp hy with rfl | hy
        · exact ⟨a, List.mem_cons_self, hfa⟩
        · obtain ⟨x, hx, hfx⟩ := ih bs hl y hy
          exact ⟨x, List.mem_cons_of_mem _ hx, hfx⟩

/-- position-wise version -/
theorem mapM_some_getElem {α β} (f : α → Option β) (l : List α) (r : List β) (h : l.mapM f = some r) :
    r.length = l.length ∧ ∀ i (h1 : i < l.length) (h2 : i < r.length), f l[i] = some r[i] := by
  induction l generalizing r with
  | nil => simp at h; subst h; simp
  | cons a l ih =>
    rw [List.mapM_cons] at h
    cases hfa : f a with
    | none => simp [hfa] at h
    | some b =>
      cases hl : l.mapM f with
      | none => simp [hfa, hl] at h
      | some bs =>
        simp [hfa, hl] at h
        subst h
        obtain ⟨h1, h2⟩ := ih bs hl
        refine ⟨by simp [h1], ?_⟩
        intro i hi1 hi2
        cases i with
        | zero => simpa using hfa
        | succ i => simpa using h2 i (by simpa using hi1) (by simpa using hi2)

end Glotaran.C14
