/-
C03 — the legacy layout `linkedResults` (columns of a dataset in aligned-axis order: the code before fix
D27; C13's lemmas are stated about it) coincides with `linkedResultsOwn` (own global index order) when
every dataset's aligned axis is strictly increasing.
-/
import GlotaranProofs.Lemmas.C02BijLinked
import Mathlib.Data.List.Nodup
namespace Glotaran.C03
open Glotaran.LinAlg Glotaran.C02

theorem zip_filter_map_fst {α β} (p : α → Bool) (l : List α) (r : List β) (h : l.length ≤ r.length) :
    ((l.zip r).filter (fun e => p e.1)).map (·.1) = l.filter p := by
  induction l generalizing r with
  | nil => simp
  | cons a l ih =>
    cases r with
    | nil => simp at h
    | cons b r =>
      have := ih r (by simpa using h)
      simp only [List.zip_cons_cons, List.filter_cons]
      cases p a <;> simp [this]

/-- filtering a strictly increasing list by membership in a strictly increasing list it contains
    returns the latter -/
theorem filter_contains_eq (l al : List Rat) (hl : l.Pairwise (· < ·)) (hal : al.Pairwise (· < ·))
    (hsub : ∀ v ∈ al, v ∈ l) : l.filter (fun v => al.contains v) = al := by
  apply List.Perm.eq_of_pairwise (le := (· < ·))
  · intro a b _ _ h1 h2; exact absurd h2 (lt_asymm h1)
  · exact hl.filter _
  · exact hal
  · apply (List.perm_ext_iff_of_nodup ((hl.filter _).imp (fun h => ne_of_lt h)) (hal.imp (fun h => ne_of_lt h))).mpr
    intro a
    simp only [List.mem_filter, List.contains_iff_mem]
    constructor
    · exact fun h => h.2
    · exact fun h => ⟨hsub a h, h⟩

/-- two lists of elements of `Z`, whose first components are pairwise different in `Z`, are equal when their
    first components agree -/
theorem eq_of_map_fst_eq {β} (Z : List (Rat × β)) (hZ : (Z.map (·.1)).Nodup) (l1 l2 : List (Rat × β))
    (h1 : ∀ e ∈ l1, e ∈ Z) (h2 : ∀ e ∈ l2, e ∈ Z) (h : l1.map (·.1) = l2.map (·.1)) : l1 = l2 := by
  induction l1 generalizing l2 with
  | nil => cases l2 with
    | nil => rfl
    | cons b l2 => simp at h
  | cons a l1 ih =>
    cases l2 with
    | nil => simp at h
    | cons b l2 =>
      simp only [List.map_cons, List.cons.injEq] at h
      have hab : a = b := List.inj_on_of_nodup_map hZ (h1 a List.mem_cons_self) (h2 b List.mem_cons_self) h.1
      rw [hab, ih l2 (fun e he => h1 e (List.mem_cons_of_mem _ he)) (fun e he => h2 e (List.mem_cons_of_mem _ he)) h.2]

/-- the two ways of collecting a dataset's columns agree on a strictly increasing aligned axis -/
theorem hits_eq {β} (axis : List Rat) (sols : List β) (al : List Rat) (hax : axis.Pairwise (· < ·))
    (hal : al.Pairwise (· < ·)) (hsub : ∀ v ∈ al, v ∈ axis) (hlen : axis.length ≤ sols.length) :
    (axis.zip sols).filter (fun vs => al.contains vs.1) =
      al.filterMap (fun v => (axis.zip sols).find? (fun vs => vs.1 == v)) := by
  have hZ : ((axis.zip sols).map (·.1)).Nodup := by
    rw [List.map_fst_zip hlen]; exact hax.imp (fun h => ne_of_lt h)
  apply eq_of_map_fst_eq (axis.zip sols) hZ
  · intro e he; exact (List.mem_filter.mp he).1
  · intro e he
    obtain ⟨v, _, hf⟩ := List.mem_filterMap.mp he
    exact List.mem_of_find?_eq_some hf
  · rw [zip_filter_map_fst (fun v => al.contains v) axis sols hlen, filter_contains_eq axis al hax hal hsub]
    -- every lookup succeeds and returns a pair whose first component is the value looked up
    clear hZ
    induction al with
    | nil => rfl
    | cons v al ih =>
      have hv : v ∈ axis := hsub v List.mem_cons_self
      obtain ⟨t, h1, h2, h3, h4⟩ := find?_zip_fst axis sols v hv hlen
      simp only [List.filterMap_cons, h4, List.map_cons, h3]
      rw [← ih (List.pairwise_cons.mp hal).2 (fun w hw => hsub w (List.mem_cons_of_mem _ hw))]

/-- **On ascending axes the legacy layout is the own-order layout.** -/
theorem linkedResults_eq_own (mi : ModelItems) (g : Group)
    (hsorted : ∀ aligned, alignAxes (g.datasets.map (·.globalAxis)) g.tol g.method = some aligned →
      ∀ al ∈ aligned, al.Pairwise (· < ·)) :
    linkedResults mi g = linkedResultsOwn mi g := by
  rw [linkedResults_eq]
  unfold linkedResultsOwn
  have hlp := linkedProblems_eq mi g
  cases hal : alignAxes (g.datasets.map (·.globalAxis)) g.tol g.method with
  | none => rfl
  | some aligned =>
    rw [hal] at hlp
    cases hdms : g.datasets.mapM (fun d => (datasetMatrix d.mcs).map (fun lm => (d, lm))) with
    | none => rw [hdms] at hlp; rw [hlp]
    | some dms =>
      rw [hdms] at hlp
      simp only at hlp
      rw [hlp]
      simp only
      cases hsols : ((aligned.foldl sortedUnion []).map (fun v =>
          problemAt mi (g.datasets.any (·.weight.isSome)) (membersOf dms aligned v) v)).mapM
          (fun (p : IndexProblem) => (solveLS g.solver p.reduced.m p.data).map (fun cr => (p, cr))) with
      | none => rfl
      | some sols =>
        simp only [Option.some.injEq]
        apply List.map_congr_left
        intro dk hdk
        have hslen := (sols_getElem _ _ _ hsols).1
        have hal_mem : dk.2 ∈ aligned := (List.of_mem_zip hdk).2
        unfold linkedOne linkedOneOwn
        simp only
        rw [hits_eq (aligned.foldl sortedUnion []) sols dk.2 (alignedAxis_sorted aligned)
          (hsorted aligned hal dk.2 hal_mem)
          (fun v hv => (mem_foldl_sortedUnion aligned [] v).mpr (Or.inr ⟨dk.2, hal_mem, hv⟩))
          (by rw [hslen]; simp)]
        rfl

end Glotaran.C03
