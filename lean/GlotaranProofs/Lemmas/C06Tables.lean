/-
C06 helper lemmas: label tables of the builtin megacomplexes (labels vs column fill order),
decay bookkeeping (involved compartments, compartments / initial concentration pairing).
-/
import GlotaranModel.C06
import GlotaranProofs.Lemmas.C02
import GlotaranProofs.Lemmas.C06Reorder
namespace Glotaran.C06
open Glotaran.LinAlg Glotaran.C02

/-! ### suffixes -/

theorem cos_ne_sin (a b : String) : a ++ "_cos" ≠ b ++ "_sin" := by
  intro h
  have h' := congrArg String.toList h
  rw [String.toList_append, String.toList_append] at h'
  have h2 := (List.append_inj' h' (by decide)).2
  exact absurd h2 (by decide)

theorem oscLabels_nodup_lem (labels : List String) (h : labels.Nodup) : (oscLabels labels).Nodup := by
  unfold oscLabels
  rw [List.nodup_append]
  refine ⟨nodup_map_on (fun x _ y _ e => (String.append_left_inj "_cos").mp e) h,
    nodup_map_on (fun x _ y _ e => (String.append_left_inj "_sin").mp e) h, ?_⟩
  intro a ha b hb hab
  simp only [List.mem_map] at ha hb
  obtain ⟨x, _, rfl⟩ := ha
  obtain ⟨y, _, rfl⟩ := hb
  exact cos_ne_sin x y hab

/-! ### association tables -/

/-- a table given by a list of declarations, a label and a descriptor for each -/
def assocTable {α} (xs : List α) (key : α → String) (val : α → Col) : Table := ⟨xs.map key, xs.map val⟩

theorem idxOf?_getElem_nodup (L : List String) (hn : L.Nodup) (k : Nat) (hk : k < L.length) :
    L.idxOf? L[k] = some k := by
  rw [idxOf?_eq_some_idxOf L L[k] (List.getElem_mem hk), hn.idxOf_getElem k hk]

theorem Table.colOf_getElem (t : Table) (hn : t.labels.Nodup) (j : Nat) (hj : j < t.labels.length) :
    t.colOf t.labels[j] = t.cols[j]? := by
  simp only [Table.colOf, idxOf?_getElem_nodup t.labels hn j hj]

theorem Table.colOf_none (t : Table) (l : String) (h : l ∉ t.labels) : t.colOf l = none := by
  simp only [Table.colOf, List.idxOf?_eq_none_iff.mpr h]

theorem assocTable_colOf {α} (xs : List α) (key : α → String) (val : α → Col)
    (hn : (xs.map key).Nodup) (x : α) (hx : x ∈ xs) :
    (assocTable xs key val).colOf (key x) = some (val x) := by
  obtain ⟨k, hk, rfl⟩ := List.getElem_of_mem hx
  have hk' : k < (assocTable xs key val).labels.length := by simpa [assocTable] using hk
  have h := Table.colOf_getElem (assocTable xs key val) hn k hk'
  have hl : (assocTable xs key val).labels[k] = key xs[k] := by simp [assocTable]
  rw [hl] at h
  rw [h]
  simp [assocTable, List.getElem?_map, List.getElem?_eq_getElem hk]

theorem assocTable_perm {α} (xs xs' : List α) (key : α → String) (val : α → Col)
    (hp : xs'.Perm xs) (hn : (xs.map key).Nodup) (l : String) :
    (assocTable xs' key val).colOf l = (assocTable xs key val).colOf l := by
  have hn' : (xs'.map key).Nodup := ((hp.map key).nodup_iff).mpr hn
  by_cases hl : l ∈ xs.map key
  · obtain ⟨x, hx, rfl⟩ := List.mem_map.mp hl
    rw [assocTable_colOf xs key val hn x hx, assocTable_colOf xs' key val hn' x (hp.symm.subset hx)]
  · have hl' : l ∉ xs'.map key := fun h => hl ((hp.map key).subset h)
    rw [Table.colOf_none _ l (show l ∉ (assocTable xs key val).labels from hl),
      Table.colOf_none _ l (show l ∉ (assocTable xs' key val).labels from hl')]

/-! ### the no-IRF kernel -/

theorem fillNoIrf_length (n : Nat) (pairs : List (Rat × Rat)) (idx : Nat) (acc : List Col) :
    (fillNoIrf n pairs idx acc).length = acc.length := by
  induction pairs generalizing idx acc with
  | nil => rfl
  | cons p rest ih =>
    obtain ⟨f, r⟩ := p
    simp only [fillNoIrf, ih, List.length_set]

/-- positions the kernel does not write keep their initial content -/
theorem fillNoIrf_untouched (n : Nat) (pairs : List (Rat × Rat)) (idx : Nat) (acc : List Col) (k : Nat)
    (h : ∀ t, t < pairs.length → k ≠ idx + t ∧ k ≠ idx + n + t) :
    (fillNoIrf n pairs idx acc)[k]? = acc[k]? := by
  induction pairs generalizing idx acc with
  | nil => rfl
  | cons p rest ih =>
    obtain ⟨f, r⟩ := p
    have h0 := h 0 (by simp)
    simp only [fillNoIrf]
    rw [ih (idx + 1) _ (fun t ht => by
      have := h (t + 1) (by simpa using ht)
      omega)]
    rw [List.getElem?_set, List.getElem?_set]
    have h1 : ¬ idx + n = k := by omega
    have h2 : ¬ idx = k := by omega
    simp [h1, h2]

theorem fillNoIrf_cos (n : Nat) (pairs : List (Rat × Rat)) (idx : Nat) (acc : List Col) (t : Nat)
    (ht : t < pairs.length) (hn : pairs.length ≤ n) (hacc : idx + n + pairs.length ≤ acc.length) :
    (fillNoIrf n pairs idx acc)[idx + t]? = some (.oscCos pairs[t].1 pairs[t].2) := by
  induction pairs generalizing idx acc t with
  | nil => simp at ht
  | cons p rest ih =>
    obtain ⟨f, r⟩ := p
    simp only [List.length_cons] at hn hacc ht
    simp only [fillNoIrf]
    cases t with
    | zero =>
      have key : (fillNoIrf n rest (idx + 1) ((acc.set idx (Col.oscCos f r)).set (idx + n) (Col.oscSin f r)))[idx]? =
          some (Col.oscCos f r) := by
        rw [fillNoIrf_untouched n rest (idx + 1) _ idx (fun t _ => by omega)]
        rw [List.getElem?_set, List.getElem?_set]
        have h1 : ¬ n = 0 := by omega
        have h2 : idx < acc.length := by omega
        simp [h1, h2]
      simpa using key
    | succ t' =>
      have := ih (idx + 1) ((acc.set idx (.oscCos f r)).set (idx + n) (.oscSin f r)) t'
        (by omega) (by omega) (by simp only [List.length_set]; omega)
      have e : idx + (t' + 1) = idx + 1 + t' := by omega
      rw [e, this]
      simp

theorem fillNoIrf_sin (n : Nat) (pairs : List (Rat × Rat)) (idx : Nat) (acc : List Col) (t : Nat)
    (ht : t < pairs.length) (hn : pairs.length ≤ n) (hacc : idx + n + pairs.length ≤ acc.length) :
    (fillNoIrf n pairs idx acc)[idx + n + t]? = some (.oscSin pairs[t].1 pairs[t].2) := by
  induction pairs generalizing idx acc t with
  | nil => simp at ht
  | cons p rest ih =>
    obtain ⟨f, r⟩ := p
    simp only [List.length_cons] at hn hacc ht
    simp only [fillNoIrf]
    cases t with
    | zero =>
      have key : (fillNoIrf n rest (idx + 1) ((acc.set idx (Col.oscCos f r)).set (idx + n) (Col.oscSin f r)))[idx + n]? =
          some (Col.oscSin f r) := by
        rw [fillNoIrf_untouched n rest (idx + 1) _ (idx + n) (fun t ht' => by omega)]
        rw [List.getElem?_set]
        have h2 : idx + n < acc.length := by omega
        simp [h2]
      simpa using key
    | succ t' =>
      have := ih (idx + 1) ((acc.set idx (.oscCos f r)).set (idx + n) (.oscSin f r)) t'
        (by omega) (by omega) (by simp only [List.length_set]; omega)
      have e : idx + n + (t' + 1) = idx + 1 + n + t' := by omega
      rw [e, this]
      simp

/-- with as many (frequency, rate) pairs as labels the no-IRF kernel produces the same column
    order as the IRF kernels: `[cos…, sin…]` -/
theorem oscCols_noIrf_eq (n : Nat) (freqs rates : List Rat) (hf : freqs.length = n) (hr : rates.length = n) :
    oscCols .noIrf n freqs rates = oscCols .irf n freqs rates := by
  have hp : (freqs.zip rates).length = n := by simp [hf, hr]
  apply List.ext_getElem?
  intro k
  simp only [oscCols, hr]
  by_cases h1 : k < n
  · have := fillNoIrf_cos n (freqs.zip rates) 0 (List.replicate (2 * n) .init) k (by omega) (by omega)
      (by simp; omega)
    rw [Nat.zero_add] at this
    rw [this, List.getElem?_append_left (by simpa [hf, hr] using h1)]
    simp [List.getElem?_map, List.getElem?_eq_getElem (show k < (freqs.zip rates).length by omega)]
  · by_cases h2 : k < 2 * n
    · have := fillNoIrf_sin n (freqs.zip rates) 0 (List.replicate (2 * n) .init) (k - n) (by omega) (by omega)
        (by simp; omega)
      have e : 0 + n + (k - n) = k := by omega
      rw [e] at this
      rw [this, List.getElem?_append_right (by simp [hf, hr]; omega)]
      simp [List.getElem?_map, hf, hr, List.getElem?_eq_getElem (show k - n < (freqs.zip rates).length by omega)]
    · rw [List.getElem?_eq_none (by simp [fillNoIrf_length]; omega),
        List.getElem?_eq_none (by simp [hf, hr]; omega)]

/-! ### oscillation tables from a list of declared oscillations -/

abbrev OscDecl := String × Rat × Rat     -- label, frequency, rate

def oscTableOf (k : Kernel) (os : List OscDecl) : Table :=
  oscTable k (os.map (·.1)) (os.map (·.2.1)) (os.map (·.2.2))

def cosOf (k : Kernel) (o : OscDecl) : Col :=
  match k with | .pfid => .pfidCos o.2.1 o.2.2 | _ => .oscCos o.2.1 o.2.2
def sinOf (k : Kernel) (o : OscDecl) : Col :=
  match k with | .pfid => .pfidSin o.2.1 o.2.2 | _ => .oscSin o.2.1 o.2.2

/-- the declarations seen as (label, descriptor) pairs: all cosines, then all sines -/
def oscPairs (k : Kernel) (os : List OscDecl) : List (String × Col) :=
  os.map (fun o => (o.1 ++ "_cos", cosOf k o)) ++ os.map (fun o => (o.1 ++ "_sin", sinOf k o))

theorem zip_map_map (os : List OscDecl) :
    (os.map (·.2.1)).zip (os.map (·.2.2)) = os.map (fun o => (o.2.1, o.2.2)) := by
  induction os with
  | nil => rfl
  | cons o t ih => simp [ih]

theorem oscTableOf_eq_assoc (k : Kernel) (hk : k ≠ .noIrfOld) (os : List OscDecl) :
    oscTableOf k os = assocTable (oscPairs k os) Prod.fst Prod.snd := by
  have hirf : ∀ k', k' ≠ Kernel.noIrf → k' ≠ .noIrfOld →
      oscTableOf k' os = assocTable (oscPairs k' os) Prod.fst Prod.snd := by
    intro k' h1 h2
    cases k' with
    | noIrf => exact absurd rfl h1
    | noIrfOld => exact absurd rfl h2
    | irf =>
      simp [oscTableOf, oscTable, oscLabels, oscCols, zip_map_map, assocTable, oscPairs, cosOf, sinOf,
        List.map_append, List.map_map, Function.comp_def]
    | pfid =>
      simp [oscTableOf, oscTable, oscLabels, oscCols, zip_map_map, assocTable, oscPairs, cosOf, sinOf,
        List.map_append, List.map_map, Function.comp_def]
  cases k with
  | noIrfOld => exact absurd rfl hk
  | noIrf =>
    have h := hirf .irf (by decide) (by decide)
    have e : oscTableOf .noIrf os = oscTableOf .irf os := by
      simp only [oscTableOf, oscTable]
      rw [oscCols_noIrf_eq (os.map (·.1)).length _ _ (by simp) (by simp)]
    rw [e, h]
    rfl
  | irf => exact hirf .irf (by decide) (by decide)
  | pfid => exact hirf .pfid (by decide) (by decide)

theorem oscPairs_keys (k : Kernel) (os : List OscDecl) :
    (oscPairs k os).map Prod.fst = oscLabels (os.map (·.1)) := by
  simp [oscPairs, oscLabels, List.map_append, List.map_map, Function.comp_def]

theorem oscPairs_perm (k : Kernel) (os os' : List OscDecl) (hp : os'.Perm os) :
    (oscPairs k os').Perm (oscPairs k os) :=
  List.Perm.append (hp.map _) (hp.map _)

/-! ### decay bookkeeping -/

theorem involved_foldl (k : KMat) (acc : List String) :
    k.foldl (fun acc e =>
      let acc := if acc.contains e.to then acc else acc ++ [e.to]
      if acc.contains e.frm then acc else acc ++ [e.frm]) acc =
    (k.flatMap (fun e => [e.to, e.frm])).foldl (fun acc x => if acc.contains x then acc else acc ++ [x]) acc := by
  induction k generalizing acc with
  | nil => rfl
  | cons e t ih =>
    simp only [List.foldl_cons, List.flatMap_cons, List.foldl_append]
    exact ih _

theorem involved_eq_firstSeen (k : KMat) : involved k = firstSeen (k.flatMap (fun e => [e.to, e.frm])) :=
  involved_foldl k []

theorem involved_mem_lem (k : KMat) (c : String) : c ∈ involved k ↔ ∃ e ∈ k, e.to = c ∨ e.frm = c := by
  rw [involved_eq_firstSeen]
  have := (firstSeen_foldl (k.flatMap (fun e => [e.to, e.frm])) [] List.nodup_nil).2 c
  unfold firstSeen
  rw [this]
  simp only [List.not_mem_nil, false_or, List.mem_flatMap, List.mem_cons, or_false]
  constructor
  · rintro ⟨e, he, h | h⟩
    · exact ⟨e, he, Or.inl h.symm⟩
    · exact ⟨e, he, Or.inr h.symm⟩
  · rintro ⟨e, he, h | h⟩
    · exact ⟨e, he, Or.inl h.symm⟩
    · exact ⟨e, he, Or.inr h.symm⟩

/-- picking by the mask `cs.map p` pairs every kept label with its own value -/
theorem zip_filter_pickMask (p : String → Bool) (cs : List String) (vs : Vec) :
    (cs.filter p).zip (pickMask (cs.map p) vs) = (cs.zip vs).filter (fun q => p q.1) := by
  induction cs generalizing vs with
  | nil => simp [pickMask_nil_left]
  | cons c t ih =>
    cases vs with
    | nil => simp [pickMask_nil_right]
    | cons v vt =>
      simp only [List.map_cons, pickMask_cons, List.zip_cons_cons, List.filter_cons]
      by_cases hp : p c = true
      · simp [hp, ih]
      · simp [hp, ih]

theorem getCompartments_contains (ic : IC) (k : KMat) (c : String) (hc : c ∈ ic.compartments) :
    (getCompartments ic k).contains c = (involved k).contains c := by
  unfold getCompartments
  by_cases h : (involved k).contains c = true
  · rw [h]
    simp only [List.contains_eq_mem, List.mem_filter, decide_eq_true_eq]
    exact ⟨hc, by simpa using h⟩
  · have h' : (involved k).contains c = false := by simpa using h
    rw [h']
    simp only [List.contains_eq_mem, List.mem_filter, decide_eq_false_iff_not]
    rintro ⟨_, hx⟩
    simp [hx] at h

theorem foldl_add_eq_sum (v : Vec) : v.foldl (· + ·) 0 = v.sum := by
  induction v with
  | nil => rfl
  | cons x t ih =>
    simp only [List.foldl_cons, List.sum_cons]
    rw [foldl_add_acc, ih]
    ring

end Glotaran.C06

namespace Glotaran.C06
open Glotaran.LinAlg Glotaran.C02

/-! ### from a table to the matrix -/

theorem colOf_fromCols_table (n : Nat) (t : Table) (f : Col → Vec) (hlen : t.cols.length = t.labels.length)
    (hev : ∀ c ∈ t.cols, (f c).length = n) (l : String) :
    colOf t.labels (fromCols n (t.cols.map f)) l = (t.colOf l).map f := by
  unfold colOf Table.colOf
  cases hi : t.labels.idxOf? l with
  | none => rfl
  | some j =>
    obtain ⟨hj, _, _⟩ := List.idxOf?_eq_some_iff.mp hi
    have hj' : j < t.cols.length := by omega
    have hjm : j < (t.cols.map f).length := by simpa using hj'
    have hget : (t.cols.map f)[j] = f t.cols[j] := by simp
    simp only [List.getElem?_eq_getElem hj', Option.map_some]
    rw [col_fromCols n (t.cols.map f) j hjm (by rw [hget]; exact hev _ (List.getElem_mem hj')), hget]

theorem tableMatrix_shaped (ev : Nat → Col → Vec) (n nIdx : Nat) (dep : Bool) (t : Table) :
    Shaped (tableMatrix ev n nIdx dep t).body n nIdx := by
  unfold tableMatrix
  cases dep with
  | false => simp [Shaped, fromCols_length]
  | true =>
    simp only [if_true, Shaped, List.length_map, List.length_range, List.mem_map, List.mem_range, true_and]
    rintro m ⟨i, _, rfl⟩
    exact fromCols_length _ _

theorem tableMatrix_entry (ev : Nat → Col → Vec) (n nIdx : Nat) (dep : Bool) (t : Table)
    (hlen : t.cols.length = t.labels.length) (hev : ∀ i c, c ∈ t.cols → (ev i c).length = n)
    (l : String) (i r : Nat) (hi : i < nIdx) :
    entry (tableMatrix ev n nIdx dep t) l i r =
      (((t.colOf l).map (ev (if dep then i else 0))).getD []).getD r 0 := by
  unfold tableMatrix
  cases dep with
  | false =>
    simp only [Bool.false_eq_true, if_false, entry_d2]
    rw [colOf_fromCols_table n t (ev 0) hlen (hev 0) l]
  | true =>
    simp only [if_true]
    rw [entry_d3 _ _ l i r (fromCols n (t.cols.map (ev i))) (by simp [List.getElem?_map, List.getElem?_range hi])]
    rw [colOf_fromCols_table n t (ev i) hlen (hev i) l]

end Glotaran.C06

namespace Glotaran.C06
open Glotaran.LinAlg Glotaran.C02

/-! ### normalisation of the initial concentration -/

/-- the value the code works with for compartment `c` declared with parameter `p` -/
def normValue (ic : IC) (q : String × Rat) : String × Rat :=
  (q.1, if ic.exclude.contains q.1 then q.2 else q.2 / normSum ic)

theorem zip_zipWith_keep (excl : List String) (s : Rat) (cs : List String) (ps : Vec) :
    cs.zip (List.zipWith (fun p k => if k then p / s else p) ps (cs.map (fun c => !excl.contains c))) =
      (cs.zip ps).map (fun q => (q.1, if excl.contains q.1 then q.2 else q.2 / s)) := by
  induction cs generalizing ps with
  | nil => simp
  | cons c t ih =>
    cases ps with
    | nil => simp
    | cons p pt =>
      simp only [List.map_cons, List.zipWith_cons_cons, List.zip_cons_cons, ih]
      simp

theorem normalized_paired_lem (ic : IC) :
    ic.compartments.zip (normalized ic) = (ic.compartments.zip ic.parameters).map (normValue ic) := by
  unfold normalized
  rw [zip_zipWith_keep]
  rfl

/-- the normalisation sum is the sum of the parameters of the compartments that are not excluded -/
theorem normSum_eq (ic : IC) :
    normSum ic = (((ic.compartments.zip ic.parameters).filter (fun q => !ic.exclude.contains q.1)).map (·.2)).sum := by
  unfold normSum
  generalize ic.compartments = cs
  generalize ic.parameters = ps
  have key : ∀ (cs : List String) (ps : Vec) (a : Rat),
      ((ps.zip (cs.map (fun c => !ic.exclude.contains c))).filter (·.2)).foldl (fun a p => a + p.1) a =
        a + (((cs.zip ps).filter (fun q => !ic.exclude.contains q.1)).map (·.2)).sum := by
    intro cs
    induction cs with
    | nil => intro ps a; simp
    | cons c t ih =>
      intro ps a
      cases ps with
      | nil => simp
      | cons p pt =>
        simp only [List.map_cons, List.zip_cons_cons, List.filter_cons]
        by_cases h : ic.exclude.contains c = true
        · simp only [h, Bool.not_true, Bool.false_eq_true, if_false]
          exact ih pt a
        · have h' : ic.exclude.contains c = false := by simpa using h
          simp only [h', Bool.not_false, if_true, List.foldl_cons, List.map_cons, List.sum_cons]
          rw [ih pt (a + p)]
          ring
  rw [key cs ps 0]
  ring

end Glotaran.C06
