/-
C10 — the micro-step list the SOURCE gives (interpretation of the regenerated steps table) in accumulator form
(`sourceProgram`), and the proof that the hand-written programs of the machine are that list, for every scheme structure.
-/
import GlotaranProofs.Lemmas.C10Programs
import GlotaranModel.C10Interp
namespace Glotaran.C10

/-! ### the accumulator form (what the interpreter of the table computes, written out) -/

/-- `DatasetGroup.set_parameters` -/
def srcSetParameters (g : Nat) (gs : GroupSpec) (k : List Instr) : List Instr :=
  .alias (.groupParams g) "parameters" .params ::
  gs.datasets.foldr (fun d acc => Instr.alias (.datasetModel g d.label) "fill_item" .params :: acc) k

/-- `MatrixProvider.calculate_dataset_matrices` -/
def srcDatasetMatrices (g : Nat) (gs : GroupSpec) (k : List Instr) : List Instr :=
  gs.datasets.foldr (fun d acc =>
    Instr.mark .matrix d.nMc :: .assign (.matrix g d.label) "calculate_dataset_matrix" [.datasetModel g d.label] :: acc) k

/-- `MatrixProviderUnlinked.calculate_global_matrices` -/
def srcGlobalMatrices (g : Nat) (gs : GroupSpec) (k : List Instr) : List Instr :=
  gs.datasets.foldr (fun d acc =>
    if d.full then
      Instr.mark .matrix d.nGmc ::
        .assign (.globalMatrix g d.label) "calculate_dataset_matrix[global_matrix=True]" [.datasetModel g d.label] :: acc
    else acc) k

/-- `MatrixProviderUnlinked.calculate_prepared_matrices` -/
def srcPreparedMatrices (g : Nat) (gs : GroupSpec) (k : List Instr) : List Instr :=
  gs.datasets.foldr (fun d acc =>
    if d.full then acc
    else
      Instr.assign (.prepared g d.label) "reduce_matrix" [.matrix g d.label, .datasetModel g d.label, .groupParams g] ::
        (if d.weighted then Instr.assign (.prepared g d.label) "create_weighted_matrix" [.prepared g d.label] :: acc else acc)) k

/-- `MatrixProviderUnlinked.calculate_full_matrices` -/
def srcFullMatrices (g : Nat) (gs : GroupSpec) (k : List Instr) : List Instr :=
  gs.datasets.foldr (fun d acc =>
    if d.full then
      Instr.assign (.fullMatrix g d.label) "apply_weight|concatenate|kron" [.globalMatrix g d.label, .matrix g d.label] :: acc
    else acc) k

/-- `EstimationProviderUnlinked.estimate` -/
def srcEstimateUnlinked (g : Nat) (gs : GroupSpec) (k : List Instr) : List Instr :=
  .clear (.clpPenalty g) ::
  gs.datasets.foldr (fun d acc =>
    if d.full then
      Instr.mark .residual 1 :: .assign (.clps g d.label) "calculate_residual#0" [.fullMatrix g d.label] ::
        .assign (.residuals g d.label) "calculate_residual#1" [.fullMatrix g d.label] :: acc
    else
      Instr.clear (.clps g d.label) :: .clear (.residuals g d.label) ::
        (List.range d.nGlobal).foldr (fun _ acc =>
          Instr.mark .residual 1 ::
            .append (.clps g d.label) "retrieve_clps" [.prepared g d.label, .matrix g d.label, .groupParams g] ::
            .append (.residuals g d.label) "calculate_residual#1" [.prepared g d.label] :: acc)
          (Instr.append (.clpPenalty g) "calculate_clp_penalties" [.groupParams g, .matrix g d.label, .clps g d.label] :: acc)) k

/-- `MatrixProviderLinked.calculate_aligned_matrices` -/
def srcAlignedMatrices (g : Nat) (gs : GroupSpec) (k : List Instr) : List Instr :=
  (List.zipIdx gs.aligned).foldr (fun p acc =>
    Instr.assign (.alignedLabels g p.2) "align_full_clp_labels" (gs.datasets.map (fun d => Loc.matrix g d.label)) ::
      .assign (.alignedMatrix g p.2) "create_weighted_matrix|reduce_matrix"
        (p.1.map (Loc.matrix g) ++ (p.1.map (Loc.datasetModel g) ++ [.groupParams g])) :: acc) k

/-- `EstimationProviderLinked.estimate` -/
def srcEstimateLinked (g : Nat) (gs : GroupSpec) (k : List Instr) : List Instr :=
  (List.zipIdx gs.aligned).foldr (fun p acc =>
    Instr.mark .residual 1 ::
      .assign (.lclps g p.2) "retrieve_clps" [.alignedMatrix g p.2, .alignedLabels g p.2, .groupParams g] ::
      .assign (.lresiduals g p.2) "calculate_residual#1" [.alignedMatrix g p.2] :: acc)
    (Instr.assign (.clpPenalty g) "calculate_clp_penalties"
      (.groupParams g :: ((List.range gs.aligned.length).map (Loc.alignedLabels g) ++
        (List.range gs.aligned.length).map (Loc.lclps g))) :: k)

/-- `OptimizationGroup.calculate` -/
def srcGroupCalculate (g : Nat) (gs : GroupSpec) (k : List Instr) : List Instr :=
  if gs.linked then
    srcSetParameters g gs (srcDatasetMatrices g gs (srcAlignedMatrices g gs (srcEstimateLinked g gs k)))
  else
    srcSetParameters g gs (srcDatasetMatrices g gs (srcGlobalMatrices g gs (srcPreparedMatrices g gs
      (srcFullMatrices g gs (srcEstimateUnlinked g gs k)))))

/-- `group.get_full_penalty()` kept in the local of `calculate_penalty` -/
def srcGroupPenalty (g : Nat) (gs : GroupSpec) (k : List Instr) : List Instr :=
  if gs.linked then
    Instr.assign (.groupPenalty g) "get_full_penalty"
      ((List.range gs.aligned.length).map (Loc.lresiduals g) ++ [.clpPenalty g]) :: k
  else
    Instr.assign (.groupPenalty g) "get_full_penalty"
      (gs.datasets.map (fun d => Loc.residuals g d.label) ++ [.clpPenalty g]) :: k

/-- `Optimizer.calculate_penalty` as the source has it -/
def sourceProgram (spec : Spec) : List Instr :=
  (List.zipIdx spec).foldr (fun p acc => srcGroupCalculate p.2 p.1 acc)
    (Instr.log .history "_parameters" [.params] ::
      (List.zipIdx spec).foldr (fun p acc => srcGroupPenalty p.2 p.1 acc)
        [Instr.assign .out "concatenate" ((List.range spec.length).map Loc.groupPenalty)])

/-! ### the hand-written programs are the accumulator form -/

theorem foldr_eq_flatMap_append {α : Type} (f : α → List Instr → List Instr) (h : α → List Instr) (xs : List α)
    (k : List Instr) (e : ∀ x acc, f x acc = h x ++ acc) : xs.foldr f k = xs.flatMap h ++ k := by
  induction xs with
  | nil => rfl
  | cons x xs ih => simp [List.foldr_cons, List.flatMap_cons, ih, e]

theorem flatMap_single {α : Type} (f : α → Instr) (xs : List α) : xs.flatMap (fun x => [f x]) = xs.map f := by
  induction xs with
  | nil => rfl
  | cons x xs ih => simp [List.flatMap_cons, ih]

theorem foldr_append_flatMap {α : Type} (h : α → List Instr) (xs : List α) (k : List Instr) :
    xs.foldr (fun x acc => h x ++ acc) k = xs.flatMap h ++ k :=
  foldr_eq_flatMap_append _ h xs k (fun _ _ => rfl)

theorem zipIdx_flatMap_snd {α : Type} (f : Nat → List Instr) (xs : List α) :
    (List.zipIdx xs).flatMap (fun p => f p.2) = (List.range xs.length).flatMap f := by
  have h : (List.zipIdx xs).flatMap (fun p => f p.2) = ((List.zipIdx xs).map Prod.snd).flatMap f := by
    rw [List.flatMap_map]
  rw [h, List.zipIdx_map_snd, List.range_eq_range']

theorem srcSetParameters_eq (g : Nat) (gs : GroupSpec) (k : List Instr) :
    srcSetParameters g gs k = setParameters g gs ++ k := by
  unfold srcSetParameters setParameters setParametersFrom
  show _ :: List.foldr (fun d acc => [Instr.alias (.datasetModel g d.label) "fill_item" .params] ++ acc) k gs.datasets = _
  rw [foldr_append_flatMap, flatMap_single]
  simp

theorem srcDatasetMatrices_eq (g : Nat) (gs : GroupSpec) (k : List Instr) :
    srcDatasetMatrices g gs k = datasetMatrices g gs ++ k := by
  unfold srcDatasetMatrices datasetMatrices
  exact foldr_eq_flatMap_append _ _ _ _ (fun _ _ => rfl)

theorem srcGlobalMatrices_eq (g : Nat) (gs : GroupSpec) (k : List Instr) :
    srcGlobalMatrices g gs k = globalMatrices g gs ++ k := by
  unfold srcGlobalMatrices globalMatrices
  apply foldr_eq_flatMap_append
  intro d acc
  by_cases h : d.full = true <;> simp [h]

theorem srcPreparedMatrices_eq (g : Nat) (gs : GroupSpec) (k : List Instr) :
    srcPreparedMatrices g gs k = preparedMatrices g gs ++ k := by
  unfold srcPreparedMatrices preparedMatrices
  apply foldr_eq_flatMap_append
  intro d acc
  by_cases h : d.full = true <;> by_cases hw : d.weighted = true <;> simp [h, hw]

theorem srcFullMatrices_eq (g : Nat) (gs : GroupSpec) (k : List Instr) :
    srcFullMatrices g gs k = fullMatrices g gs ++ k := by
  unfold srcFullMatrices fullMatrices
  apply foldr_eq_flatMap_append
  intro d acc
  by_cases h : d.full = true <;> simp [h]

theorem srcEstimateUnlinked_eq (g : Nat) (gs : GroupSpec) (k : List Instr) :
    srcEstimateUnlinked g gs k = estimateUnlinked g gs ++ k := by
  unfold srcEstimateUnlinked estimateUnlinked
  rw [List.cons_append]
  congr 1
  apply foldr_eq_flatMap_append
  intro d acc
  unfold estimateDataset
  by_cases h : d.full = true
  · simp [h]
  · simp only [h, Bool.false_eq_true, if_false]
    show _ :: _ :: List.foldr (fun _ acc => estimationIndex g d ++ acc) _ (List.range d.nGlobal) = _
    rw [foldr_append_flatMap]
    simp [List.append_assoc]

theorem srcAlignedMatrices_eq (g : Nat) (gs : GroupSpec) (k : List Instr) :
    srcAlignedMatrices g gs k = alignedMatrices g gs ++ k := by
  unfold srcAlignedMatrices alignedMatrices
  apply foldr_eq_flatMap_append
  intro p acc
  obtain ⟨ds, i⟩ := p
  simp [List.append_assoc]

theorem srcEstimateLinked_eq (g : Nat) (gs : GroupSpec) (k : List Instr) :
    srcEstimateLinked g gs k = estimateLinked g gs ++ k := by
  unfold srcEstimateLinked estimateLinked
  show List.foldr (fun p acc => (fun i => [Instr.mark .residual 1,
      .assign (.lclps g i) "retrieve_clps" [.alignedMatrix g i, .alignedLabels g i, .groupParams g],
      .assign (.lresiduals g i) "calculate_residual#1" [.alignedMatrix g i]]) p.2 ++ acc) _ (List.zipIdx gs.aligned) = _
  rw [foldr_append_flatMap]
  rw [zipIdx_flatMap_snd (fun i => [Instr.mark .residual 1,
      .assign (.lclps g i) "retrieve_clps" [.alignedMatrix g i, .alignedLabels g i, .groupParams g],
      .assign (.lresiduals g i) "calculate_residual#1" [.alignedMatrix g i]])]
  simp [List.append_assoc]

theorem srcGroupCalculate_eq (g : Nat) (gs : GroupSpec) (k : List Instr) :
    srcGroupCalculate g gs k = groupCalculate g gs ++ k := by
  unfold srcGroupCalculate groupCalculate
  by_cases h : gs.linked = true
  · simp [h, srcSetParameters_eq, srcDatasetMatrices_eq, srcAlignedMatrices_eq, srcEstimateLinked_eq, List.append_assoc]
  · simp [h, srcSetParameters_eq, srcDatasetMatrices_eq, srcGlobalMatrices_eq, srcPreparedMatrices_eq, srcFullMatrices_eq,
      srcEstimateUnlinked_eq, List.append_assoc]

theorem srcGroupPenalty_eq (g : Nat) (gs : GroupSpec) (k : List Instr) :
    srcGroupPenalty g gs k = groupPenalty g gs :: k := by
  unfold srcGroupPenalty groupPenalty
  by_cases h : gs.linked = true <;> simp [h]

/-- **the hand-written micro-step list of `calculate_penalty` is the accumulator form** -/
theorem calculatePenalty_eq_sourceProgram (spec : Spec) : calculatePenalty spec = sourceProgram spec := by
  unfold calculatePenalty sourceProgram sweep collect
  rw [foldr_eq_flatMap_append _ (fun p => groupCalculate p.2 p.1) _ _ (fun p acc => srcGroupCalculate_eq p.2 p.1 acc)]
  rw [foldr_eq_flatMap_append _ (fun p => [groupPenalty p.2 p.1]) _ _ (fun p acc => by rw [srcGroupPenalty_eq]; rfl)]
  rw [flatMap_single (fun p : GroupSpec × Nat => groupPenalty p.2 p.1)]
  simp

end Glotaran.C10
