/-
C10 — helper lemmas: the syntactic race-freedom check is sound for the cell semantics of accesses, and iterations that
conform to a race-free kernel have pairwise disjoint write sets.
-/
import GlotaranProofs.Lemmas.C10Schedule
namespace Glotaran.C10

theorem posOf_spec (v : String) : ∀ (idx : List Idx) (p : Nat), posOf v idx = some p → idx[p]? = some (Idx.var v) := by
  intro idx
  induction idx with
  | nil => intro p h; simp [posOf] at h
  | cons i is ih =>
    intro p h
    unfold posOf at h
    by_cases hi : i = Idx.var v
    · simp only [hi, if_true, Option.some.injEq] at h
      subst h; simp [hi]
    · simp only [hi, if_false, Option.map_eq_some_iff] at h
      obtain ⟨q, hq, rfl⟩ := h
      simpa using ih q hq

theorem touchesIdx_at (env : String → Nat) : ∀ (idx : List Idx) (ns : List Nat) (p : Nat) (x : String),
    touchesIdx env idx ns → idx[p]? = some (Idx.var x) → ns[p]? = some (env x) := by
  intro idx
  induction idx with
  | nil => intro ns p x _ h; simp at h
  | cons i is ih =>
    intro ns p x ht h
    cases ns with
    | nil => cases i <;> simp [touchesIdx] at ht
    | cons n ns =>
      cases p with
      | zero =>
        simp only [List.getElem?_cons_zero, Option.some.injEq] at h
        subst h
        simp only [touchesIdx] at ht
        simp [ht.1]
      | succ p =>
        simp only [List.getElem?_cons_succ] at h ⊢
        cases i with
        | var y => simp only [touchesIdx] at ht; exact ih ns p x ht.2 h
        | slice => simp only [touchesIdx] at ht; exact ih ns p x ht h
        | other s => simp only [touchesIdx] at ht; exact ih ns p x ht h

/-- **Soundness of the check**: in a kernel that passes it, a cell written by an access under the parallel loop over
    `v` and touched by any access under the same loop is touched by one and the same iteration. -/
theorem raceFreeAccesses_sound (k : Kernel) (eff : List Access) (h : raceFreeAccesses k eff = true)
    (a b : Access) (ha : a ∈ eff) (hb : b ∈ eff) (v : String)
    (hav : parVar k a = some v) (hbv : parVar k b = some v) (haw : a.write = true)
    (env₁ env₂ : String → Nat) (c : Cell) (h1 : touches env₁ a c) (h2 : touches env₂ b c) :
    env₁ v = env₂ v := by
  unfold raceFreeAccesses at h
  have h' := List.all_eq_true.mp h a ha
  simp only [hav, haw, if_true] at h'
  cases hp : posOf v a.idx with
  | none => simp [hp] at h'
  | some p =>
    simp only [hp] at h'
    have hbc := List.all_eq_true.mp h' b hb
    have hac := List.all_eq_true.mp h' a ha
    have harr : b.array = a.array := by rw [← h1.1, ← h2.1]
    simp only [confined, hbv, harr, bne_self_eq_false, Bool.false_or, beq_iff_eq] at hbc
    have hai : a.idx[p]? = some (Idx.var v) := posOf_spec v a.idx p hp
    have e1 := touchesIdx_at env₁ a.idx c.2 p v h1.2 hai
    have e2 := touchesIdx_at env₂ b.idx c.2 p v h2.2 hbc
    rw [e1] at e2
    exact Option.some.inj e2

variable {α : Type}

/-- the iterations of the parallel loop over `v` do what the kernel's accesses allow: iteration `i` writes only cells
    that a write access under the loop touches with `v = i`, and reads only such cells or cells of arrays that no
    access under the loop writes (the read-only inputs) -/
def Conforms (k : Kernel) (eff : List Access) (v : String) (iters : List (List (Step α))) : Prop :=
  ∀ i st, st ∈ iterOf iters i →
    (∃ a, a ∈ eff ∧ a.write = true ∧ parVar k a = some v ∧ ∃ env : String → Nat, env v = i ∧ touches env a st.write) ∧
    (∀ r, r ∈ st.reads →
      (∃ a, a ∈ eff ∧ parVar k a = some v ∧ ∃ env : String → Nat, env v = i ∧ touches env a r) ∨
      (∀ a, a ∈ eff → a.write = true → parVar k a = some v → a.array ≠ r.1))

theorem conforms_disjoint (k : Kernel) (eff : List Access) (h : raceFreeAccesses k eff = true) (v : String)
    (iters : List (List (Step α))) (hc : Conforms k eff v iters) : DisjointWrites iters := by
  intro i j hij c hcw hcf
  obtain ⟨stj, hstj, rfl⟩ := List.mem_map.mp hcw
  obtain ⟨⟨a, ha, haw, hav, envj, hej, htj⟩, _⟩ := hc j stj hstj
  rcases List.mem_append.mp hcf with hw | hr
  · obtain ⟨sti, hsti, hwe⟩ := List.mem_map.mp hw
    obtain ⟨⟨b, hb, _, hbv, envi, hei, hti⟩, _⟩ := hc i sti hsti
    rw [hwe] at hti
    have := raceFreeAccesses_sound k eff h a b ha hb v hav hbv haw envj envi _ htj hti
    exact hij (by rw [← hei, ← hej, this])
  · obtain ⟨sti, hsti, hrm⟩ := List.mem_flatMap.mp hr
    rcases (hc i sti hsti).2 _ hrm with ⟨b, hb, hbv, envi, hei, hti⟩ | hno
    · have := raceFreeAccesses_sound k eff h a b ha hb v hav hbv haw envj envi _ htj hti
      exact hij (by rw [← hei, ← hej, this])
    · exact hno a ha haw hav htj.1.symm

end Glotaran.C10
