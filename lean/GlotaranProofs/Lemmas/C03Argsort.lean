import GlotaranModel.C03Sort
import GlotaranProofs.Lemmas.C03Legacy
namespace Glotaran.C03

/-! ### `sortByKey` is a stable insertion sort: a permutation, ascending in key -/

theorem insertByKey_perm (x : Nat × Nat) (l : List (Nat × Nat)) : (insertByKey x l).Perm (x :: l) := by
  induction l with
  | nil => exact List.Perm.refl _
  | cons y ys ih =>
    simp only [insertByKey]
    split
    · exact List.Perm.refl _
    · exact ((List.Perm.cons y ih).trans (List.Perm.swap x y ys))

theorem sortByKey_perm (l : List (Nat × Nat)) : (sortByKey l).Perm l := by
  induction l with
  | nil => exact List.Perm.refl _
  | cons x xs ih =>
    simp only [sortByKey]
    exact (insertByKey_perm x _).trans (List.Perm.cons x ih)

theorem insertByKey_sorted (x : Nat × Nat) (l : List (Nat × Nat)) (h : l.Pairwise (fun a b => a.1 ≤ b.1)) :
    (insertByKey x l).Pairwise (fun a b => a.1 ≤ b.1) := by
  induction l with
  | nil => simp [insertByKey]
  | cons y ys ih =>
    have hy := List.pairwise_cons.mp h
    simp only [insertByKey]
    split
    · rename_i hxy
      refine List.pairwise_cons.mpr ⟨?_, h⟩
      intro b hb
      rcases List.mem_cons.mp hb with hb | hb
      · rw [hb]; exact hxy
      · exact Nat.le_trans hxy (hy.1 b hb)
    · rename_i hxy
      refine List.pairwise_cons.mpr ⟨?_, ih hy.2⟩
      intro b hb
      rcases List.mem_cons.mp ((insertByKey_perm x ys).subset hb) with hb | hb
      · rw [hb]; omega
      · exact hy.1 b hb

theorem sortByKey_sorted (l : List (Nat × Nat)) : (sortByKey l).Pairwise (fun a b => a.1 ≤ b.1) := by
  induction l with
  | nil => exact List.Pairwise.nil
  | cons x xs ih => exact insertByKey_sorted x _ ih

/-! ### `pickOrder (argsort keys) xs` -/

theorem pickOrder_argsort_eq {α} (keys : List Nat) (xs : List α) :
    pickOrder (argsort keys) xs = (sortByKey keys.zipIdx).filterMap (fun p => xs[p.2]?) := by
  unfold pickOrder argsort
  rw [List.filterMap_map]
  rfl

/-- general fact: `[xs[i] for i in order]` commutes with mapping the elements -/
theorem pickOrder_argsort_map {α β} (g : α → β) (keys : List Nat) (xs : List α) :
    pickOrder (argsort keys) (xs.map g) = (pickOrder (argsort keys) xs).map g := by
  unfold pickOrder
  rw [List.map_filterMap]
  apply List.filterMap_congr
  intro i _
  simp

theorem zipIdx_filterMap_getElem? {α} (k : α → Nat) (xs pre : List α) :
    (((xs.map k).zipIdx pre.length).filterMap (fun p => (pre ++ xs)[p.2]?)) = xs := by
  induction xs generalizing pre with
  | nil => rfl
  | cons x xs ih =>
    have h := ih (pre ++ [x])
    simp only [List.length_append, List.length_cons, List.length_nil, List.append_assoc,
      List.cons_append, List.nil_append] at h
    simp only [List.map_cons, List.zipIdx_cons, List.filterMap_cons]
    have h0 : (pre ++ x :: xs)[pre.length]? = some x := by simp
    rw [h0]
    simp only
    rw [h]

/-- picking the elements in `argsort` order of their keys permutes them -/
theorem pickOrder_argsort_perm {α} (k : α → Nat) (xs : List α) :
    (pickOrder (argsort (xs.map k)) xs).Perm xs := by
  rw [pickOrder_argsort_eq]
  have h := (sortByKey_perm (xs.map k).zipIdx).filterMap (fun p => xs[p.2]?)
  have h2 := zipIdx_filterMap_getElem? k xs []
  simp only [List.length_nil, List.nil_append] at h2
  rw [h2] at h
  exact h

theorem filterMap_map_key {α} (k : α → Nat) (xs : List α) (l : List (Nat × Nat))
    (h : ∀ p ∈ l, (xs[p.2]?).map k = some p.1) :
    (l.filterMap (fun p => xs[p.2]?)).map k = l.map (·.1) := by
  induction l with
  | nil => rfl
  | cons p l ih =>
    have hp := h p List.mem_cons_self
    have ih' := ih (fun q hq => h q (List.mem_cons_of_mem _ hq))
    cases hx : xs[p.2]? with
    | none => rw [hx] at hp; simp at hp
    | some a =>
      rw [hx] at hp
      simp only [Option.map_some, Option.some.injEq] at hp
      simp only [List.filterMap_cons, hx, List.map_cons, hp, ih']

/-- ... and the keys of the result are ascending -/
theorem pickOrder_argsort_sorted {α} (k : α → Nat) (xs : List α) :
    ((pickOrder (argsort (xs.map k)) xs).map k).Pairwise (· ≤ ·) := by
  rw [pickOrder_argsort_eq, filterMap_map_key]
  · exact List.pairwise_map.mpr (sortByKey_sorted _)
  · intro p hp
    have hp' : p ∈ (xs.map k).zipIdx := (sortByKey_perm _).subset hp
    obtain ⟨a, b⟩ := p
    have := List.mem_zipIdx_iff_getElem?.mp hp'
    simp only [List.getElem?_map] at this
    exact this

/-- ... strictly ascending when the keys are pairwise different -/
theorem pickOrder_argsort_strict {α} (k : α → Nat) (xs : List α) (hn : (xs.map k).Nodup) :
    ((pickOrder (argsort (xs.map k)) xs).map k).Pairwise (· < ·) := by
  have hs := pickOrder_argsort_sorted k xs
  have hn' : ((pickOrder (argsort (xs.map k)) xs).map k).Nodup :=
    ((pickOrder_argsort_perm k xs).map k).nodup_iff.mpr hn
  exact (hs.and hn').imp (fun h => Nat.lt_of_le_of_ne h.1 h.2)

/-! ### the target -/

theorem pairwise_idxOf_of_nodup (al : List Rat) (hal : al.Nodup) :
    al.Pairwise (fun a b => al.idxOf a < al.idxOf b) := by
  rw [List.pairwise_iff_getElem]
  intro i j hi hj hij
  rw [hal.idxOf_getElem i hi, hal.idxOf_getElem j hj]
  exact hij

theorem lookup_map_fst {β} (axis : List Rat) (sols : List β) (al : List Rat)
    (hsub : ∀ v ∈ al, v ∈ axis) (hlen : axis.length ≤ sols.length) :
    (al.filterMap (fun v => (axis.zip sols).find? (fun vs => vs.1 == v))).map (·.1) = al := by
  induction al with
  | nil => rfl
  | cons v al ih =>
    have hv : v ∈ axis := hsub v List.mem_cons_self
    obtain ⟨t, h1, h2, h3, h4⟩ := find?_zip_fst axis sols v hv hlen
    simp only [List.filterMap_cons, h4, List.map_cons, h3]
    rw [ih (fun w hw => hsub w (List.mem_cons_of_mem _ hw))]

theorem pickOrder_argsort_hits {β} (axis : List Rat) (sols : List β) (al : List Rat)
    (hax : axis.Pairwise (· < ·)) (hal : al.Nodup) (hsub : ∀ v ∈ al, v ∈ axis)
    (hlen : axis.length ≤ sols.length) :
    pickOrder (argsort (((axis.zip sols).filter (fun vs => al.contains vs.1)).map (fun vs => al.idxOf vs.1)))
        ((axis.zip sols).filter (fun vs => al.contains vs.1))
      = al.filterMap (fun v => (axis.zip sols).find? (fun vs => vs.1 == v)) := by
  have hZ : ((axis.zip sols).map (·.1)).Nodup := by
    rw [List.map_fst_zip hlen]; exact hax.imp (fun h => ne_of_lt h)
  have haxn : axis.Nodup := hax.imp (fun h => ne_of_lt h)
  generalize hh : (axis.zip sols).filter (fun vs => al.contains vs.1) = hits
  have hfst : hits.map (·.1) = axis.filter (fun v => al.contains v) := by
    rw [← hh]; exact zip_filter_map_fst (fun v => al.contains v) axis sols hlen
  -- the values of the hits are the values of `al`, in some order
  have hperm0 : (hits.map (·.1)).Perm al := by
    rw [hfst]
    apply (List.perm_ext_iff_of_nodup (haxn.filter _) hal).mpr
    intro a
    simp only [List.mem_filter, List.contains_iff_mem]
    exact ⟨fun h => h.2, fun h => ⟨hsub a h, h⟩⟩
  have hkn : (hits.map (fun vs => al.idxOf vs.1)).Nodup := by
    have : hits.map (fun vs => al.idxOf vs.1) = (hits.map (·.1)).map (fun v => al.idxOf v) := by
      rw [List.map_map]; rfl
    rw [this]
    apply List.Nodup.map_on
    · intro a ha b hb hab
      exact (List.idxOf_inj (hperm0.subset ha)).mp hab
    · exact hperm0.nodup_iff.mpr hal
  have hP := pickOrder_argsort_perm (fun vs : Rat × β => al.idxOf vs.1) hits
  have hS := pickOrder_argsort_strict (fun vs : Rat × β => al.idxOf vs.1) hits hkn
  generalize pickOrder (argsort (hits.map (fun vs => al.idxOf vs.1))) hits = R at hP hS
  -- the values of `R` are `al`
  have hRfst : R.map (·.1) = al := by
    apply List.Perm.eq_of_pairwise (le := fun a b => al.idxOf a < al.idxOf b)
    · intro a b _ _ h1 h2; exact absurd h2 (Nat.lt_asymm h1)
    · rw [List.pairwise_map]
      exact List.pairwise_map.mp hS
    · exact pairwise_idxOf_of_nodup al hal
    · exact (hP.map _).trans hperm0
  apply eq_of_map_fst_eq (axis.zip sols) hZ
  · intro e he
    have : e ∈ hits := hP.subset he
    rw [← hh] at this
    exact (List.mem_filter.mp this).1
  · intro e he
    obtain ⟨v, _, hf⟩ := List.mem_filterMap.mp he
    exact List.mem_of_find?_eq_some hf
  · rw [hRfst, lookup_map_fst axis sols al hsub hlen]

/-- the hypotheses are satisfiable with an `al` that is not ascending, and the conclusion is then not
    the identity re-ordering -/
example :
    let axis : List Rat := [1, 2, 3]
    let al : List Rat := [3, 1]
    let sols : List String := ["a", "b", "c"]
    axis.Pairwise (· < ·) ∧ al.Nodup ∧ (∀ v ∈ al, v ∈ axis) ∧ axis.length ≤ sols.length ∧
      ¬ al.Pairwise (· < ·) ∧
      pickOrder (argsort (((axis.zip sols).filter (fun vs => al.contains vs.1)).map (fun vs => al.idxOf vs.1)))
        ((axis.zip sols).filter (fun vs => al.contains vs.1)) = [(3, "c"), (1, "a")] := by
  decide

end Glotaran.C03
