/-
C10 — helper lemmas: the container machine (agreement of two runs of a well-defined program, composition of
well-defined programs, the programs of the optimisation objects are well defined for every scheme structure).
-/
import GlotaranModel.C10
namespace Glotaran.C10

variable {V : Type}

/-! ### execution -/

theorem exec_append (fn : String → List V → V) (s : Store V) (p q : List Instr) :
    exec fn s (p ++ q) = exec fn (exec fn s p) q := by
  simp [exec, List.foldl_append]

theorem exec_cons (fn : String → List V → V) (s : Store V) (i : Instr) (p : List Instr) :
    exec fn s (i :: p) = exec fn (step fn s i) p := rfl

theorem exec_nil (fn : String → List V → V) (s : Store V) : exec fn s [] = s := rfl

/-! ### the store -/

@[simp] theorem mem_paramSources (l : Loc) : l ∈ paramSources ↔ l = Loc.params ∨ l = Loc.callerParams := by
  simp [paramSources]


theorem find_filter_ne (s : Store V) {l l' : Loc} (h : l' ≠ l) :
    (s.filter (fun c => !(c.1 == l))).find? (fun c => c.1 == l') = s.find? (fun c => c.1 == l') := by
  induction s with
  | nil => rfl
  | cons c rest ih =>
    obtain ⟨cl, cv⟩ := c
    by_cases hc : cl = l
    · subst hc
      have h1 : (cl == l') = false := by simpa using fun e => h e.symm
      simp [h1, ih]
    · by_cases hc' : cl = l'
      · subst hc'
        simp [hc]
      · simp [hc, hc', ih]

theorem find_put_same (s : Store V) (l : Loc) (c : Slot V) : (s.put l c).find l = some c := by
  simp [Store.put, Store.find]

theorem find_put_other (s : Store V) {l l' : Loc} (c : Slot V) (h : l' ≠ l) : (s.put l c).find l' = s.find l' := by
  have hne : (l == l') = false := by simpa using fun e => h e.symm
  simp only [Store.put, Store.find, List.find?_cons, hne]
  rw [find_filter_ne s h]

/-- references point to parameter objects only, and a parameter object is never itself a reference -/
structure StoreOK (s : Store V) : Prop where
  views : ∀ l f src, s.find l = some (.view f src) → src ∈ paramSources
  sources : ∀ src, src ∈ paramSources → ∀ f src', s.find src ≠ some (.view f src')

theorem storeOK_empty : StoreOK (Store.empty : Store V) :=
  ⟨fun l f src h => by simp [Store.empty, Store.find] at h, fun src _ f src' h => by simp [Store.empty, Store.find] at h⟩

theorem storeOK_set {s : Store V} (h : StoreOK s) (l : Loc) (v : List V) : StoreOK (s.set l v) := by
  constructor
  · intro l' f src hf
    by_cases e : l' = l
    · subst e; simp [Store.set, find_put_same] at hf
    · rw [Store.set, find_put_other _ _ e] at hf; exact h.views l' f src hf
  · intro src hs f src' hf
    by_cases e : src = l
    · subst e; simp [Store.set, find_put_same] at hf
    · rw [Store.set, find_put_other _ _ e] at hf; exact h.sources src hs f src' hf

theorem storeOK_alias {s : Store V} (h : StoreOK s) {d src : Loc} (f : String) (hd : d ∉ paramSources)
    (hs : src ∈ paramSources) : StoreOK (s.put d (.view f src)) := by
  constructor
  · intro l' f' src' hf
    by_cases e : l' = d
    · subst e
      rw [find_put_same] at hf
      cases hf; exact hs
    · rw [find_put_other _ _ e] at hf; exact h.views l' f' src' hf
  · intro src' hs' f' src'' hf
    have e : src' ≠ d := fun e => hd (e ▸ hs')
    rw [find_put_other _ _ e] at hf; exact h.sources src' hs' f' src'' hf

theorem raw_put_other (s : Store V) {l l' : Loc} (c : Slot V) (h : l' ≠ l) : (s.put l c).raw l' = s.raw l' := by
  simp only [Store.raw, find_put_other _ _ h]

theorem get_set_same (fn : String → List V → V) (s : Store V) (l : Loc) (v : List V) : (s.set l v).get fn l = v := by
  simp [Store.set, Store.get, find_put_same]

/-- writing a container that is not a parameter object does not change what any other container reads -/
theorem get_put_other (fn : String → List V → V) {s : Store V} (hok : StoreOK s) {l l' : Loc} (c : Slot V)
    (h : l' ≠ l) (hl : l ∉ paramSources) : (s.put l c).get fn l' = s.get fn l' := by
  simp only [Store.get, find_put_other _ _ h]
  cases hf : s.find l' with
  | none => rfl
  | some cell =>
    cases cell with
    | vals vs => rfl
    | view f src =>
      have hsrc : src ≠ l := fun e => hl (e ▸ hok.views l' f src hf)
      simp only [raw_put_other _ _ hsrc]

/-- a parameter object reads as what it stores -/
theorem get_source (fn : String → List V → V) {s : Store V} (hok : StoreOK s) {src : Loc} (hs : src ∈ paramSources) :
    s.get fn src = s.raw src := by
  simp only [Store.get, Store.raw]
  cases hf : s.find src with
  | none => rfl
  | some cell =>
    cases cell with
    | vals vs => rfl
    | view f src' => exact absurd hf (hok.sources src hs f src')

/-- two stores give the same values when the containers `D` are read -/
def Agree (fn : String → List V → V) (D : List Loc) (s₁ s₂ : Store V) : Prop :=
  ∀ l, l ∈ D → s₁.get fn l = s₂.get fn l

theorem gather_agree {fn : String → List V → V} {D : List Loc} {s₁ s₂ : Store V} (h : Agree fn D s₁ s₂) :
    ∀ (rs : List Loc), (∀ r, r ∈ rs → r ∈ D) → gather fn s₁ rs = gather fn s₂ rs := by
  intro rs
  induction rs with
  | nil => intro _; rfl
  | cons r rs ih =>
    intro hrs
    have h1 : s₁.get fn r = s₂.get fn r := h r (hrs r (List.mem_cons_self ..))
    have h2 := ih (fun x hx => hrs x (List.mem_cons_of_mem _ hx))
    simp only [gather, List.flatMap_cons] at h2 ⊢
    rw [h1, h2]

theorem agree_set_new {fn : String → List V → V} {D : List Loc} {s₁ s₂ : Store V} (h : Agree fn D s₁ s₂)
    (h₁ : StoreOK s₁) (h₂ : StoreOK s₂) (d : Loc) (hd : d ∉ paramSources) (v : List V) :
    Agree fn (d :: D) (s₁.set d v) (s₂.set d v) := by
  intro l hl
  by_cases hld : l = d
  · subst hld; rw [get_set_same, get_set_same]
  · rw [Store.set, Store.set, get_put_other fn h₁ _ hld hd, get_put_other fn h₂ _ hld hd]
    cases List.mem_cons.mp hl with
    | inl h' => exact absurd h' hld
    | inr h' => exact h l h'

theorem agree_set_in {fn : String → List V → V} {D : List Loc} {s₁ s₂ : Store V} (h : Agree fn D s₁ s₂)
    (h₁ : StoreOK s₁) (h₂ : StoreOK s₂) (d : Loc) (hd : d ∉ paramSources) (v₁ v₂ : List V)
    (hv : d ∈ D → v₁ = v₂) : Agree fn D (s₁.set d v₁) (s₂.set d v₂) := by
  intro l hl
  by_cases hld : l = d
  · subst hld; rw [get_set_same, get_set_same]; exact hv hl
  · rw [Store.set, Store.set, get_put_other fn h₁ _ hld hd, get_put_other fn h₂ _ hld hd]; exact h l hl

theorem agree_alias {fn : String → List V → V} {D : List Loc} {s₁ s₂ : Store V} (h : Agree fn D s₁ s₂)
    (h₁ : StoreOK s₁) (h₂ : StoreOK s₂) (d : Loc) (hd : d ∉ paramSources) (f : String) (src : Loc)
    (hs : src ∈ paramSources) (hsD : src ∈ D) :
    Agree fn (d :: D) (s₁.put d (.view f src)) (s₂.put d (.view f src)) := by
  intro l hl
  by_cases hld : l = d
  · subst hld
    have hne : src ≠ l := fun e => hd (e ▸ hs)
    simp only [Store.get, find_put_same, raw_put_other _ _ hne]
    rw [← get_source fn h₁ hs, ← get_source fn h₂ hs, h src hsD]
  · rw [get_put_other fn h₁ _ hld hd, get_put_other fn h₂ _ hld hd]
    cases List.mem_cons.mp hl with
    | inl h' => exact absurd h' hld
    | inr h' => exact h l h'

theorem all_mem_iff {D : List Loc} {rs : List Loc} :
    (rs.all (fun x => decide (x ∈ D))) = true ↔ ∀ r, r ∈ rs → r ∈ D := by
  simp [List.all_eq_true]

/-- a well-defined program keeps the store well formed -/
theorem exec_storeOK (fn : String → List V → V) : ∀ (prog : List Instr) (D : List Loc) (s : Store V),
    StoreOK s → wellDefined D prog = true → StoreOK (exec fn s prog) := by
  intro prog
  induction prog with
  | nil => intro D s h _; exact h
  | cons i p ih =>
    intro D s h hw
    rw [exec_cons]
    cases i with
    | assign d f rs =>
      simp only [wellDefined, Bool.and_eq_true] at hw
      exact ih _ _ (storeOK_set h d _) hw.2
    | clear d =>
      simp only [wellDefined, Bool.and_eq_true] at hw
      exact ih _ _ (storeOK_set h d _) hw.2
    | append d f rs =>
      simp only [wellDefined, Bool.and_eq_true] at hw
      exact ih _ _ (storeOK_set h d _) hw.2
    | log d f rs =>
      simp only [wellDefined, Bool.and_eq_true] at hw
      exact ih _ _ (storeOK_set h d _) hw.2
    | alias d f src =>
      simp only [wellDefined, Bool.and_eq_true, decide_eq_true_eq] at hw
      exact ih _ _ (storeOK_alias h f hw.1.1.1 hw.1.1.2) hw.2
    | mark k n =>
      simp only [wellDefined] at hw
      exact ih _ _ h hw

/-- no micro-step of a well-defined program overwrites a parameter object -/
theorem exec_keeps_sources (fn : String → List V → V) : ∀ (prog : List Instr) (D : List Loc) (s : Store V),
    StoreOK s → wellDefined D prog = true → ∀ src, src ∈ paramSources →
      (exec fn s prog).get fn src = s.get fn src := by
  intro prog
  induction prog with
  | nil => intro D s _ _ src _; rfl
  | cons i p ih =>
    intro D s h hw src hs
    rw [exec_cons]
    have ne : ∀ d, d ∉ paramSources → src ≠ d := fun d hd e => hd (e ▸ hs)
    cases i with
    | assign d f rs =>
      simp only [wellDefined, Bool.and_eq_true, decide_eq_true_eq] at hw
      simp only [step]
      rw [ih _ _ (storeOK_set h d _) hw.2 src hs]
      exact get_put_other fn h _ (ne d hw.1.1) hw.1.1
    | clear d =>
      simp only [wellDefined, Bool.and_eq_true, decide_eq_true_eq] at hw
      simp only [step]
      rw [ih _ _ (storeOK_set h d _) hw.2 src hs]
      exact get_put_other fn h _ (ne d hw.1) hw.1
    | append d f rs =>
      simp only [wellDefined, Bool.and_eq_true, decide_eq_true_eq] at hw
      simp only [step]
      rw [ih _ _ (storeOK_set h d _) hw.2 src hs]
      exact get_put_other fn h _ (ne d hw.1.1.1) hw.1.1.1
    | log d f rs =>
      simp only [wellDefined, Bool.and_eq_true, decide_eq_true_eq] at hw
      simp only [step]
      rw [ih _ _ (storeOK_set h d _) hw.2 src hs]
      exact get_put_other fn h _ (ne d hw.1.1) hw.1.1
    | alias d f src' =>
      simp only [wellDefined, Bool.and_eq_true, decide_eq_true_eq] at hw
      simp only [step]
      rw [ih _ _ (storeOK_alias h f hw.1.1.1 hw.1.1.2) hw.2 src hs]
      exact get_put_other fn h _ (ne d hw.1.1.1) hw.1.1.1
    | mark k n =>
      simp only [wellDefined] at hw
      exact ih _ _ h hw src hs

/-- **The heart of history independence**: if no micro-step of `prog` reads a container outside `D` and the
    containers overwritten before it, two runs from stores that agree on `D` agree afterwards on `D` and on every
    container the program overwrites — whatever else the stores held. -/
theorem exec_agree (fn : String → List V → V) :
    ∀ (prog : List Instr) (D : List Loc) (s₁ s₂ : Store V), StoreOK s₁ → StoreOK s₂ → Agree fn D s₁ s₂ →
      wellDefined D prog = true →
      ∀ l, (l ∈ D ∨ l ∈ defs prog) → (exec fn s₁ prog).get fn l = (exec fn s₂ prog).get fn l := by
  intro prog
  induction prog with
  | nil =>
    intro D s₁ s₂ _ _ h _ l hl
    cases hl with
    | inl h' => exact h l h'
    | inr h' => simp [defs] at h'
  | cons i p ih =>
    intro D s₁ s₂ h₁ h₂ h hw l hl
    rw [exec_cons, exec_cons]
    have widen : ∀ d, (l ∈ D ∨ l ∈ d :: defs p) → (l ∈ d :: D ∨ l ∈ defs p) := by
      intro d hl
      cases hl with
      | inl hD => exact Or.inl (List.mem_cons_of_mem _ hD)
      | inr hd =>
        cases List.mem_cons.mp hd with
        | inl e => exact Or.inl (by rw [e]; exact List.mem_cons_self ..)
        | inr e => exact Or.inr e
    cases i with
    | assign d f rs =>
      simp only [wellDefined, Bool.and_eq_true, decide_eq_true_eq] at hw
      have hg := gather_agree h rs (all_mem_iff.mp hw.1.2)
      have h' : Agree fn (d :: D) (step fn s₁ (.assign d f rs)) (step fn s₂ (.assign d f rs)) := by
        simp only [step, hg]; exact agree_set_new h h₁ h₂ d hw.1.1 _
      exact ih (d :: D) _ _ (storeOK_set h₁ d _) (storeOK_set h₂ d _) h' hw.2 l (widen d (by simpa [defs] using hl))
    | clear d =>
      simp only [wellDefined, Bool.and_eq_true, decide_eq_true_eq] at hw
      have h' : Agree fn (d :: D) (step fn s₁ (.clear d)) (step fn s₂ (.clear d)) := by
        simp only [step]; exact agree_set_new h h₁ h₂ d hw.1 _
      exact ih (d :: D) _ _ (storeOK_set h₁ d _) (storeOK_set h₂ d _) h' hw.2 l (widen d (by simpa [defs] using hl))
    | append d f rs =>
      simp only [wellDefined, Bool.and_eq_true, decide_eq_true_eq] at hw
      have hg := gather_agree h rs (all_mem_iff.mp hw.1.2)
      have h' : Agree fn D (step fn s₁ (.append d f rs)) (step fn s₂ (.append d f rs)) := by
        simp only [step, hg]
        exact agree_set_in h h₁ h₂ d hw.1.1.1 _ _ (fun hd => by rw [h d hd])
      apply ih D _ _ (storeOK_set h₁ d _) (storeOK_set h₂ d _) h' hw.2
      cases hl with
      | inl hD => exact Or.inl hD
      | inr hd => simp only [defs] at hd; exact Or.inr hd
    | log d f rs =>
      simp only [wellDefined, Bool.and_eq_true, decide_eq_true_eq] at hw
      have hg := gather_agree h rs (all_mem_iff.mp hw.1.2)
      have h' : Agree fn D (step fn s₁ (.log d f rs)) (step fn s₂ (.log d f rs)) := by
        simp only [step, hg]
        exact agree_set_in h h₁ h₂ d hw.1.1 _ _ (fun hd => by rw [h d hd])
      apply ih D _ _ (storeOK_set h₁ d _) (storeOK_set h₂ d _) h' hw.2
      cases hl with
      | inl hD => exact Or.inl hD
      | inr hd => simp only [defs] at hd; exact Or.inr hd
    | alias d f src =>
      simp only [wellDefined, Bool.and_eq_true, decide_eq_true_eq] at hw
      have h' : Agree fn (d :: D) (step fn s₁ (.alias d f src)) (step fn s₂ (.alias d f src)) := by
        simp only [step]; exact agree_alias h h₁ h₂ d hw.1.1.1 f src hw.1.1.2 hw.1.2
      exact ih (d :: D) _ _ (storeOK_alias h₁ f hw.1.1.1 hw.1.1.2) (storeOK_alias h₂ f hw.1.1.1 hw.1.1.2) h' hw.2 l
        (widen d (by simpa [defs] using hl))
    | mark k n =>
      simp only [wellDefined] at hw
      have h' : Agree fn D (step fn s₁ (.mark k n)) (step fn s₂ (.mark k n)) := by simpa [step] using h
      apply ih D _ _ h₁ h₂ h' hw
      cases hl with
      | inl hD => exact Or.inl hD
      | inr hd => simp only [defs] at hd; exact Or.inr hd

/-! ### composition of well-defined programs -/

theorem wd_mono : ∀ (p : List Instr) (D D' : List Loc), (∀ l, l ∈ D → l ∈ D') →
    wellDefined D p = true → wellDefined D' p = true := by
  intro p
  induction p with
  | nil => intros; rfl
  | cons i p ih =>
    intro D D' hsub hw
    have hcons : ∀ d l, l ∈ d :: D → l ∈ d :: D' := by
      intro d l hl
      cases List.mem_cons.mp hl with
      | inl e => rw [e]; exact List.mem_cons_self ..
      | inr e => exact List.mem_cons_of_mem _ (hsub l e)
    cases i with
    | assign d f rs =>
      simp only [wellDefined, Bool.and_eq_true, decide_eq_true_eq] at hw ⊢
      exact ⟨⟨hw.1.1, all_mem_iff.mpr (fun r hr => hsub r (all_mem_iff.mp hw.1.2 r hr))⟩, ih _ _ (hcons d) hw.2⟩
    | clear d =>
      simp only [wellDefined, Bool.and_eq_true, decide_eq_true_eq] at hw ⊢
      exact ⟨hw.1, ih _ _ (hcons d) hw.2⟩
    | append d f rs =>
      simp only [wellDefined, Bool.and_eq_true, decide_eq_true_eq] at hw ⊢
      exact ⟨⟨⟨hw.1.1.1, hsub d hw.1.1.2⟩, all_mem_iff.mpr (fun r hr => hsub r (all_mem_iff.mp hw.1.2 r hr))⟩,
             ih _ _ hsub hw.2⟩
    | log d f rs =>
      simp only [wellDefined, Bool.and_eq_true, decide_eq_true_eq] at hw ⊢
      exact ⟨⟨hw.1.1, all_mem_iff.mpr (fun r hr => hsub r (all_mem_iff.mp hw.1.2 r hr))⟩, ih _ _ hsub hw.2⟩
    | alias d f src =>
      simp only [wellDefined, Bool.and_eq_true, decide_eq_true_eq] at hw ⊢
      exact ⟨⟨⟨hw.1.1.1, hw.1.1.2⟩, hsub src hw.1.2⟩, ih _ _ (hcons d) hw.2⟩
    | mark k n =>
      simp only [wellDefined] at hw ⊢
      exact ih _ _ hsub hw

theorem defs_append (p q : List Instr) : defs (p ++ q) = defs p ++ defs q := by
  induction p with
  | nil => rfl
  | cons i p ih => cases i <;> simp [defs, ih]

theorem wd_append : ∀ (p q : List Instr) (D : List Loc), wellDefined D p = true →
    wellDefined (defs p ++ D) q = true → wellDefined D (p ++ q) = true := by
  intro p
  induction p with
  | nil => intro q D _ h; simpa [defs] using h
  | cons i p ih =>
    intro q D hp hq
    have reorder : ∀ d, ∀ l, l ∈ defs (p) ++ (d :: D) → l ∈ defs p ++ (d :: D) := fun _ _ h => h
    have shift : ∀ d l, l ∈ (d :: defs p) ++ D → l ∈ defs p ++ (d :: D) := by
      intro d l hl
      simp only [List.cons_append, List.mem_cons, List.mem_append] at hl ⊢
      rcases hl with e | e | e
      · exact Or.inr (Or.inl e)
      · exact Or.inl e
      · exact Or.inr (Or.inr e)
    cases i with
    | assign d f rs =>
      simp only [wellDefined, Bool.and_eq_true, List.cons_append] at hp ⊢
      exact ⟨hp.1, ih q (d :: D) hp.2 (wd_mono q _ _ (shift d) (by simpa [defs] using hq))⟩
    | clear d =>
      simp only [wellDefined, Bool.and_eq_true, List.cons_append] at hp ⊢
      exact ⟨hp.1, ih q (d :: D) hp.2 (wd_mono q _ _ (shift d) (by simpa [defs] using hq))⟩
    | append d f rs =>
      simp only [wellDefined, Bool.and_eq_true, List.cons_append] at hp ⊢
      exact ⟨hp.1, ih q D hp.2 (by simpa [defs] using hq)⟩
    | log d f rs =>
      simp only [wellDefined, Bool.and_eq_true, List.cons_append] at hp ⊢
      exact ⟨hp.1, ih q D hp.2 (by simpa [defs] using hq)⟩
    | alias d f src =>
      simp only [wellDefined, Bool.and_eq_true, List.cons_append] at hp ⊢
      exact ⟨hp.1, ih q (d :: D) hp.2 (wd_mono q _ _ (shift d) (by simpa [defs] using hq))⟩
    | mark k n =>
      simp only [wellDefined, List.cons_append] at hp ⊢
      exact ih q D hp (by simpa [defs] using hq)

/-- a concatenation of blocks each of which is well defined on `D` alone -/
theorem wd_flatMap {α : Type} (f : α → List Instr) : ∀ (xs : List α) (D : List Loc),
    (∀ x, x ∈ xs → wellDefined D (f x) = true) → wellDefined D (xs.flatMap f) = true := by
  intro xs
  induction xs with
  | nil => intros; rfl
  | cons x xs ih =>
    intro D h
    rw [List.flatMap_cons]
    apply wd_append _ _ _ (h x (List.mem_cons_self ..))
    apply wd_mono _ D _ (fun l hl => List.mem_append_right _ hl)
    exact ih D (fun y hy => h y (List.mem_cons_of_mem _ hy))

theorem defs_flatMap {α : Type} (f : α → List Instr) (xs : List α) :
    defs (xs.flatMap f) = xs.flatMap (fun x => defs (f x)) := by
  induction xs with
  | nil => rfl
  | cons x xs ih => simp [List.flatMap_cons, defs_append, ih]

theorem mem_defs_flatMap {α : Type} (f : α → List Instr) (xs : List α) {x : α} (hx : x ∈ xs) {l : Loc}
    (hl : l ∈ defs (f x)) : l ∈ defs (xs.flatMap f) := by
  rw [defs_flatMap]; exact List.mem_flatMap.mpr ⟨x, hx, hl⟩

end Glotaran.C10
