/-
C17 — helper lemmas about specification trees (`saveModel`, `yamlT`, `sanKeys`, `sciConv`).
-/
import GlotaranProofs.Lemmas.C17
namespace Glotaran.C17

/-! ### predicates on trees -/

/-- a key the loader leaves alone: a string that does not look like a tuple -/
def plainKey : Key → Bool
  | .s k => !tupleWordMatch k
  | .t _ => false

mutual
  /-- every dict key in the tree is a plain string key -/
  def keysPlain : Y → Bool
    | .map kvs => keysPlainKV kvs
    | .seq xs => keysPlainL xs
    | .tup xs => keysPlainL xs
    | _ => true
  def keysPlainL : YL → Bool
    | .nil => true
    | .cons y ys => keysPlain y && keysPlainL ys
  def keysPlainKV : KV → Bool
    | .nil => true
    | .cons k v rest => plainKey k && keysPlain v && keysPlainKV rest
end

mutual
  /-- no string value looks like a number in scientific notation (and no converted float is present) -/
  def noSci : Y → Bool
    | .str s => !sciMatch s
    | .sci _ => false
    | .map kvs => noSciKV kvs
    | .seq xs => noSciL xs
    | .tup xs => noSciL xs
    | .atom _ => true
  def noSciL : YL → Bool
    | .nil => true
    | .cons y ys => noSci y && noSciL ys
  def noSciKV : KV → Bool
    | .nil => true
    | .cons _ v rest => noSci v && noSciKV rest
end

/-! ### plain trees are left alone by the key sanitizer -/

theorem plainKey_not_tupleLike {k : Key} (h : plainKey k = true) : k.tupleLike = false := by
  cases k with
  | s k => simpa [plainKey, Key.tupleLike] using h
  | t ks => rfl

theorem newOfAcc_plain : ∀ (kvs acc : KV), keysPlainKV kvs = true → newOfAcc kvs acc = acc
  | .nil, _, _ => rfl
  | .cons k v rest, acc, h => by
    simp only [keysPlainKV, Bool.and_eq_true] at h
    simp only [newOfAcc, plainKey_not_tupleLike h.1.1, Bool.false_eq_true, if_false]
    exact newOfAcc_plain rest acc h.2

mutual
  theorem sanEntry_plain : ∀ (v : Y), keysPlain v = true → sanEntry v = v
    | .atom _, _ => rfl
    | .str _, _ => rfl
    | .sci _, _ => rfl
    | .tup _, _ => rfl
    | .seq xs, h => by
      simp only [keysPlain] at h
      simp only [sanEntry, sanKeysL_plain xs h]
    | .map kvs, h => by
      simp only [keysPlain] at h
      simp only [sanEntry, newOfKV, newOfAcc_plain kvs .nil h, KV.isEmpty, if_true, sanKeysKV_plain kvs h]
  theorem sanKeysL_plain : ∀ (xs : YL), keysPlainL xs = true → sanKeysL xs = xs
    | .nil, _ => rfl
    | .cons y ys, h => by
      simp only [keysPlainL, Bool.and_eq_true] at h
      simp only [sanKeysL, sanEntry_plain y h.1, sanKeysL_plain ys h.2]
  theorem sanKeysKV_plain : ∀ (kvs : KV), keysPlainKV kvs = true → sanKeysKV kvs = kvs
    | .nil, _ => rfl
    | .cons k v rest, h => by
      simp only [keysPlainKV, Bool.and_eq_true] at h
      simp only [sanKeysKV, plainKey_not_tupleLike h.1.1, Bool.false_eq_true, if_false,
        sanEntry_plain v h.1.2, sanKeysKV_plain rest h.2]
end

mutual
  theorem keysPlain_yamlT : ∀ (v : Y), keysPlain v = true → keysPlain (yamlT v) = true
    | .atom _, _ => rfl
    | .str _, _ => rfl
    | .sci _, _ => rfl
    | .tup xs, h => by
      simp only [keysPlain] at h
      simp only [yamlT, keysPlain, keysPlainL_yamlT xs h]
    | .seq xs, h => by
      simp only [keysPlain] at h
      simp only [yamlT, keysPlain, keysPlainL_yamlT xs h]
    | .map kvs, h => by
      simp only [keysPlain] at h
      simp only [yamlT, keysPlain, keysPlainKV_yamlT kvs h]
  theorem keysPlainL_yamlT : ∀ (xs : YL), keysPlainL xs = true → keysPlainL (yamlTL xs) = true
    | .nil, _ => rfl
    | .cons y ys, h => by
      simp only [keysPlainL, Bool.and_eq_true] at h
      simp only [yamlTL, keysPlainL, keysPlain_yamlT y h.1, keysPlainL_yamlT ys h.2, Bool.and_self]
  theorem keysPlainKV_yamlT : ∀ (kvs : KV), keysPlainKV kvs = true → keysPlainKV (yamlTKV kvs) = true
    | .nil, _ => rfl
    | .cons k v rest, h => by
      simp only [keysPlainKV, Bool.and_eq_true] at h
      simp only [yamlTKV, keysPlainKV, h.1.1, keysPlain_yamlT v h.1.2, keysPlainKV_yamlT rest h.2, Bool.and_self]
end

/-! ### trees without number-like strings are left alone by the float conversion -/

mutual
  theorem sciConv_noSci : ∀ (v : Y), noSci v = true → sciConv v = some v
    | .atom _, _ => rfl
    | .sci _, h => by simp [noSci] at h
    | .tup _, _ => rfl
    | .str s, h => by
      simp only [noSci, sciMatch, Bool.not_eq_eq_eq_not, Bool.not_true, Option.isSome_eq_false_iff,
        Option.isNone_iff_eq_none] at h
      simp only [sciConv, h]
    | .seq xs, h => by
      simp only [noSci] at h
      simp only [sciConv, sciConvL_noSci xs h, Option.map_some]
    | .map kvs, h => by
      simp only [noSci] at h
      simp only [sciConv, sciConvKV_noSci kvs h, Option.map_some]
  theorem sciConvL_noSci : ∀ (xs : YL), noSciL xs = true → sciConvL xs = some xs
    | .nil, _ => rfl
    | .cons y ys, h => by
      simp only [noSciL, Bool.and_eq_true] at h
      simp only [sciConvL, sciConv_noSci y h.1, sciConvL_noSci ys h.2]
  theorem sciConvKV_noSci : ∀ (kvs : KV), noSciKV kvs = true → sciConvKV kvs = some kvs
    | .nil, _ => rfl
    | .cons k v rest, h => by
      simp only [noSciKV, Bool.and_eq_true] at h
      simp only [sciConvKV, sciConv_noSci v h.1, sciConvKV_noSci rest h.2]
end

mutual
  theorem noSci_yamlT : ∀ (v : Y), noSci v = true → noSci (yamlT v) = true
    | .atom _, _ => rfl
    | .str _, h => h
    | .sci _, h => h
    | .tup xs, h => by
      simp only [noSci] at h
      simp only [yamlT, noSci, noSciL_yamlT xs h]
    | .seq xs, h => by
      simp only [noSci] at h
      simp only [yamlT, noSci, noSciL_yamlT xs h]
    | .map kvs, h => by
      simp only [noSci] at h
      simp only [yamlT, noSci, noSciKV_yamlT kvs h]
  theorem noSciL_yamlT : ∀ (xs : YL), noSciL xs = true → noSciL (yamlTL xs) = true
    | .nil, _ => rfl
    | .cons y ys, h => by
      simp only [noSciL, Bool.and_eq_true] at h
      simp only [yamlTL, noSciL, noSci_yamlT y h.1, noSciL_yamlT ys h.2, Bool.and_self]
  theorem noSciKV_yamlT : ∀ (kvs : KV), noSciKV kvs = true → noSciKV (yamlTKV kvs) = true
    | .nil, _ => rfl
    | .cons k v rest, h => by
      simp only [noSciKV, Bool.and_eq_true] at h
      simp only [yamlTKV, noSciKV, noSci_yamlT v h.1, noSciKV_yamlT rest h.2, Bool.and_self]
end

/-! ### dicts as lists -/

def KV.keys : KV → List Key
  | .nil => []
  | .cons k _ rest => k :: rest.keys

def KV.append : KV → KV → KV
  | .nil, b => b
  | .cons k v rest, b => .cons k v (rest.append b)

theorem KV.append_nil : ∀ (a : KV), a.append .nil = a
  | .nil => rfl
  | .cons k v rest => by simp only [KV.append, KV.append_nil rest]

theorem KV.append_assoc : ∀ (a b c : KV), (a.append b).append c = a.append (b.append c)
  | .nil, _, _ => rfl
  | .cons k v rest, b, c => by simp only [KV.append, KV.append_assoc rest b c]

theorem KV.keys_append : ∀ (a b : KV), (a.append b).keys = a.keys ++ b.keys
  | .nil, _ => rfl
  | .cons k v rest, b => by simp only [KV.append, KV.keys, KV.keys_append rest b, List.cons_append]

theorem KV.insert_new : ∀ (acc : KV) (k : Key) (v : Y), k ∉ acc.keys → acc.insert k v = acc.append (.cons k v .nil)
  | .nil, _, _, _ => rfl
  | .cons k' v' rest, k, v, h => by
    simp only [KV.keys, List.mem_cons, not_or] at h
    have hne : ¬ k' = k := fun e => h.1 e.symm
    simp only [KV.insert, hne, if_false, KV.append, KV.insert_new rest k v h.2]

/-- all entries satisfy a predicate on the key and one on the value -/
def KV.AllP (pk : Key → Prop) (pv : Y → Prop) : KV → Prop
  | .nil => True
  | .cons k v rest => pk k ∧ pv v ∧ KV.AllP pk pv rest

def YL.AllP (pv : Y → Prop) : YL → Prop
  | .nil => True
  | .cons y ys => pv y ∧ YL.AllP pv ys

/-- `f` applied to every value, failing as a whole if one fails -/
def KV.mapM (f : Y → Option Y) : KV → Option KV
  | .nil => some .nil
  | .cons k v rest =>
    match f v, KV.mapM f rest with
    | some v', some rest' => some (.cons k v' rest')
    | _, _ => none

def YL.mapM (f : Y → Option Y) : YL → Option YL
  | .nil => some .nil
  | .cons y ys =>
    match f y, YL.mapM f ys with
    | some y', some ys' => some (.cons y' ys')
    | _, _ => none

theorem savePropsKV_eq : ∀ kvs, savePropsKV kvs = KV.mapM saveProp kvs
  | .nil => rfl
  | .cons k v rest => by
    simp only [savePropsKV, KV.mapM, savePropsKV_eq rest]
    cases saveProp v <;> cases KV.mapM saveProp rest <;> rfl

theorem saveItemsKV_eq : ∀ kvs, saveItemsKV kvs = KV.mapM saveItem kvs
  | .nil => rfl
  | .cons k v rest => by
    simp only [saveItemsKV, KV.mapM, saveItemsKV_eq rest]
    cases saveItem v <;> cases KV.mapM saveItem rest <;> rfl

theorem saveCollsKV_eq : ∀ kvs, saveCollsKV kvs = KV.mapM saveColl kvs
  | .nil => rfl
  | .cons k v rest => by
    simp only [saveCollsKV, KV.mapM, saveCollsKV_eq rest]
    cases saveColl v <;> cases KV.mapM saveColl rest <;> rfl

theorem saveItemsYL_eq : ∀ xs, saveItemsYL xs = YL.mapM saveItem xs
  | .nil => rfl
  | .cons y ys => by
    simp only [saveItemsYL, YL.mapM, saveItemsYL_eq ys]
    cases saveItem y <;> cases YL.mapM saveItem ys <;> rfl

/-- what one level of the round trip has to deliver for a value `v`: saving succeeds with some `w`, and
    after the yaml transport the key sanitizer turns `w` (as an entry of its container) into `yamlT v` -/
def Restores (f : Y → Option Y) (v : Y) : Prop := ∃ w, f v = some w ∧ sanEntry (yamlT w) = yamlT v

/-- a dict with plain keys whose values are all restored is restored itself -/
theorem kv_level (f : Y → Option Y) : ∀ (kvs : KV), KV.AllP (fun k => plainKey k = true) (Restores f) kvs →
    ∃ ws, KV.mapM f kvs = some ws ∧ sanKeysKV (yamlTKV ws) = yamlTKV kvs ∧ ∀ acc, newOfAcc (yamlTKV ws) acc = acc
  | .nil, _ => ⟨.nil, rfl, rfl, fun _ => rfl⟩
  | .cons k v rest, h => by
    obtain ⟨hk, ⟨w, hw, hs⟩, hrest⟩ := h
    obtain ⟨ws, hws, hsan, hnew⟩ := kv_level f rest hrest
    refine ⟨.cons k w ws, by simp only [KV.mapM, hw, hws], ?_, ?_⟩
    · simp only [yamlTKV, sanKeysKV, plainKey_not_tupleLike hk, Bool.false_eq_true, if_false, hs, hsan]
    · intro acc
      simp only [yamlTKV, newOfAcc, plainKey_not_tupleLike hk, Bool.false_eq_true, if_false, hnew acc]

theorem yl_level (f : Y → Option Y) : ∀ (xs : YL), YL.AllP (Restores f) xs →
    ∃ ws, YL.mapM f xs = some ws ∧ sanKeysL (yamlTL ws) = yamlTL xs
  | .nil, _ => ⟨.nil, rfl, rfl⟩
  | .cons y ys, h => by
    obtain ⟨⟨w, hw, hs⟩, hrest⟩ := h
    obtain ⟨ws, hws, hsan⟩ := yl_level f ys hrest
    exact ⟨.cons w ws, by simp only [YL.mapM, hw, hws], by simp only [yamlTL, sanKeysL, hs, hsan]⟩

/-- dict level: `g (.map kvs) = (mapM f kvs).map .map` restores `.map kvs` -/
theorem restores_map (f : Y → Option Y) (kvs : KV) (h : KV.AllP (fun k => plainKey k = true) (Restores f) kvs) :
    ∃ ws, KV.mapM f kvs = some ws ∧ sanEntry (yamlT (.map ws)) = yamlT (.map kvs) := by
  obtain ⟨ws, hws, hsan, hnew⟩ := kv_level f kvs h
  refine ⟨ws, hws, ?_⟩
  simp only [yamlT, sanEntry, newOfKV, hnew .nil, KV.isEmpty, if_true, hsan]

theorem restores_seq (f : Y → Option Y) (xs : YL) (h : YL.AllP (Restores f) xs) :
    ∃ ws, YL.mapM f xs = some ws ∧ sanEntry (yamlT (.seq ws)) = yamlT (.seq xs) := by
  obtain ⟨ws, hws, hsan⟩ := yl_level f xs h
  exact ⟨ws, hws, by simp only [yamlT, sanEntry, hsan]⟩

/-- a value with plain keys everywhere is restored by any saver that leaves it unchanged -/
theorem restores_plain (f : Y → Option Y) (v : Y) (hf : f v = some v) (h : keysPlain v = true) : Restores f v :=
  ⟨v, hf, sanEntry_plain _ (keysPlain_yamlT v h)⟩

/-! ### tuple-keyed dicts (K-matrices) -/

def isLabelB (s : Str) : Bool := !s.isEmpty && s.all isWordChar

theorem isLabelB_iff (s : Str) : isLabelB s = true ↔ IsLabel s := by
  simp [isLabelB, IsLabel]

/-- a key `(a, b)` of two labels -/
def pairKey : Key → Bool
  | .t [a, b] => isLabelB a && isLabelB b
  | _ => false

theorem pairKey_spec {k : Key} (h : pairKey k = true) :
    ∃ a b, k = .t [a, b] ∧ renderKey k = some (renderPair a b) ∧
      (Key.s (renderPair a b)).tupleLike = true ∧ (Key.s (renderPair a b)).sanitized = k := by
  match k, h with
  | .t [a, b], h =>
    simp only [pairKey, Bool.and_eq_true, isLabelB_iff] at h
    refine ⟨a, b, rfl, rfl, tupleWordMatch_render a b h.1 h.2, ?_⟩
    simp [Key.sanitized, wordFindall_render a b h.1 h.2]

theorem render_injective {k1 k2 : Key} (h1 : pairKey k1 = true) (h2 : pairKey k2 = true)
    (h : renderKey k1 = renderKey k2) : k1 = k2 := by
  obtain ⟨a, b, rfl, hr, _, hs⟩ := pairKey_spec h1
  obtain ⟨a', b', rfl, hr', _, hs'⟩ := pairKey_spec h2
  rw [hr, hr'] at h
  have := Option.some.inj h
  rw [← hs, ← hs', this]

/-- the dict `save_model` writes for a tuple-keyed dict -/
def renderDict : KV → KV
  | .nil => .nil
  | .cons k v rest =>
    match renderKey k with
    | some ks => .cons (.s ks) v (renderDict rest)
    | none => .cons k v (renderDict rest)

def KV.AllKeys (p : Key → Prop) : KV → Prop
  | .nil => True
  | .cons k _ rest => p k ∧ KV.AllKeys p rest

theorem KV.AllKeys_mem {p : Key → Prop} : ∀ {kvs : KV}, KV.AllKeys p kvs → ∀ k ∈ kvs.keys, p k
  | .nil, _, k, hk => by simp [KV.keys] at hk
  | .cons k' v rest, h, k, hk => by
    simp only [KV.keys, List.mem_cons] at hk
    rcases hk with rfl | hk
    · exact h.1
    · exact KV.AllKeys_mem h.2 k hk

theorem renderKeys_pairs : ∀ (kvs acc : KV), KV.AllKeys (fun k => pairKey k = true) kvs → kvs.keys.Nodup →
    (∀ k ∈ kvs.keys, ∀ ks, renderKey k = some ks → Key.s ks ∉ acc.keys) →
    renderKeys kvs acc = some (acc.append (renderDict kvs))
  | .nil, acc, _, _, _ => by simp [renderKeys, renderDict, KV.append_nil]
  | .cons k v rest, acc, hall, hnd, hacc => by
    obtain ⟨a, b, rfl, hr, _, _⟩ := pairKey_spec hall.1
    simp only [KV.keys, List.nodup_cons] at hnd
    have hnew : Key.s (renderPair a b) ∉ acc.keys := hacc _ (by simp [KV.keys]) _ hr
    simp only [renderKeys, hr, renderDict]
    rw [KV.insert_new acc _ v hnew]
    rw [renderKeys_pairs rest _ hall.2 hnd.2]
    · simp [KV.append_assoc, KV.append]
    · intro k hk ks hks
      rw [KV.keys_append]
      simp only [KV.keys, List.mem_append, List.mem_cons, List.not_mem_nil, or_false, not_or]
      refine ⟨hacc k (by simp [KV.keys, hk]) ks hks, ?_⟩
      intro e
      have hk2 : pairKey k = true := KV.AllKeys_mem hall.2 k hk
      have : renderKey k = renderKey (Key.t [a, b]) := by rw [hks, hr]; exact congrArg some (Key.s.inj e)
      have := render_injective hk2 hall.1 this
      exact hnd.1 (this ▸ hk)

theorem newOfAcc_rendered : ∀ (kvs acc : KV), KV.AllKeys (fun k => pairKey k = true) kvs → kvs.keys.Nodup →
    (∀ k ∈ kvs.keys, k ∉ acc.keys) →
    newOfAcc (yamlTKV (renderDict kvs)) acc = acc.append (yamlTKV kvs)
  | .nil, acc, _, _, _ => by simp [renderDict, yamlTKV, newOfAcc, KV.append_nil]
  | .cons k v rest, acc, hall, hnd, hacc => by
    obtain ⟨a, b, rfl, hr, htl, hsan⟩ := pairKey_spec hall.1
    simp only [KV.keys, List.nodup_cons] at hnd
    have hnew : Key.t [a, b] ∉ acc.keys := hacc _ (by simp [KV.keys])
    simp only [renderDict, hr, yamlTKV, newOfAcc, htl, if_true, hsan]
    rw [KV.insert_new acc _ _ hnew]
    rw [newOfAcc_rendered rest _ hall.2 hnd.2]
    · simp [KV.append_assoc, KV.append]
    · intro k hk
      rw [KV.keys_append]
      simp only [KV.keys, List.mem_append, List.mem_cons, List.not_mem_nil, or_false, not_or]
      exact ⟨hacc k (by simp [KV.keys, hk]), fun e => hnd.1 (e ▸ hk)⟩

/-- a K-matrix-like dict: at least one entry, every key a pair of labels, no key twice -/
def TupleDict (kvs : KV) : Prop :=
  kvs ≠ .nil ∧ KV.AllKeys (fun k => pairKey k = true) kvs ∧ kvs.keys.Nodup

theorem TupleDict.hasTupleKey {kvs : KV} (h : TupleDict kvs) : kvs.hasTupleKey = true := by
  match kvs, h with
  | .nil, h => exact absurd rfl h.1
  | .cons k v rest, h =>
    obtain ⟨a, b, rfl, _⟩ := pairKey_spec h.2.1.1
    rfl

/-- **a tuple-keyed dict is restored** -/
theorem restores_tupleDict (kvs : KV) (h : TupleDict kvs) : Restores saveProp (.map kvs) := by
  refine ⟨.map (renderDict kvs), ?_, ?_⟩
  · simp only [saveProp, h.hasTupleKey, if_true]
    rw [renderKeys_pairs kvs .nil h.2.1 h.2.2 (by intro k _ ks _; simp [KV.keys])]
    rfl
  · have hn := newOfAcc_rendered kvs .nil h.2.1 h.2.2 (by intro k _; simp [KV.keys])
    simp only [KV.append] at hn
    have hne : (yamlTKV kvs).isEmpty = false := by
      match kvs, h.1 with
      | .cons k v rest, _ => rfl
    simp only [yamlT, sanEntry, newOfKV, hn, hne, Bool.false_eq_true, if_false]

theorem hasTupleKey_plain : ∀ (kvs : KV), keysPlainKV kvs = true → kvs.hasTupleKey = false
  | .nil, _ => rfl
  | .cons (.s _) v rest, h => by
    simp only [keysPlainKV, Bool.and_eq_true] at h
    simp only [KV.hasTupleKey, hasTupleKey_plain rest h.2]
  | .cons (.t _) v rest, h => by simp [keysPlainKV, plainKey] at h

theorem saveProp_plain (v : Y) (h : keysPlain v = true) : saveProp v = some v := by
  cases v with
  | map kvs =>
    simp only [keysPlain] at h
    simp [saveProp, hasTupleKey_plain kvs h]
  | _ => rfl

/-! ### the shape of `Model.as_dict()` -/

def KV.allB (pk : Key → Bool) (pv : Y → Bool) : KV → Bool
  | .nil => true
  | .cons k v rest => pk k && pv v && KV.allB pk pv rest

def YL.allB (pv : Y → Bool) : YL → Bool
  | .nil => true
  | .cons y ys => pv y && YL.allB pv ys

theorem KV.allB_imp {pk : Key → Bool} {pv : Y → Bool} {PK : Key → Prop} {PV : Y → Prop}
    (hk : ∀ k, pk k = true → PK k) (hv : ∀ v, pv v = true → PV v) :
    ∀ (kvs : KV), KV.allB pk pv kvs = true → KV.AllP PK PV kvs
  | .nil, _ => trivial
  | .cons k v rest, h => by
    simp only [KV.allB, Bool.and_eq_true] at h
    exact ⟨hk k h.1.1, hv v h.1.2, KV.allB_imp hk hv rest h.2⟩

theorem YL.allB_imp {pv : Y → Bool} {PV : Y → Prop} (hv : ∀ v, pv v = true → PV v) :
    ∀ (xs : YL), YL.allB pv xs = true → YL.AllP PV xs
  | .nil, _ => trivial
  | .cons y ys, h => by
    simp only [YL.allB, Bool.and_eq_true] at h
    exact ⟨hv y h.1, YL.allB_imp hv ys h.2⟩

def KV.allKeysB (p : Key → Bool) : KV → Bool
  | .nil => true
  | .cons k _ rest => p k && KV.allKeysB p rest

theorem KV.allKeysB_imp {p : Key → Bool} : ∀ (kvs : KV), KV.allKeysB p kvs = true → KV.AllKeys (fun k => p k = true) kvs
  | .nil, _ => trivial
  | .cons k v rest, h => by
    simp only [KV.allKeysB, Bool.and_eq_true] at h
    exact ⟨h.1, KV.allKeysB_imp rest h.2⟩

/-- K-matrix-like dict (decidable form of `TupleDict`) -/
def tupleDictB (kvs : KV) : Bool := !kvs.isEmpty && kvs.allKeysB pairKey && decide kvs.keys.Nodup

theorem tupleDictB_spec (kvs : KV) (h : tupleDictB kvs = true) : TupleDict kvs := by
  simp only [tupleDictB, Bool.and_eq_true, decide_eq_true_eq] at h
  refine ⟨?_, KV.allKeysB_imp kvs h.1.2, h.2⟩
  intro e; subst e; simp [KV.isEmpty] at h

/-- a property value of an item: anything whose dict keys are plain strings, or a tuple-keyed dict -/
def cleanProp (v : Y) : Bool :=
  keysPlain v || (match v with
    | .map kvs => tupleDictB kvs
    | _ => false)

/-- an item: a dict with plain keys -/
def cleanItem : Y → Bool
  | .map kvs => kvs.allB plainKey cleanProp
  | _ => false

/-- a top-level value of `as_dict()`: a list of items, a dict label → item, or a scalar -/
def cleanColl : Y → Bool
  | .seq xs => xs.allB cleanItem
  | .map kvs => kvs.allB plainKey cleanItem
  | .atom _ => true
  | .str _ => true
  | _ => false

/-- the dict `Model.as_dict()` returns for a model whose tuple keys are pairs of labels -/
def cleanModel : Y → Bool
  | .map kvs => kvs.allB plainKey cleanColl
  | _ => false

theorem restores_cleanProp (v : Y) (h : cleanProp v = true) : Restores saveProp v := by
  simp only [cleanProp, Bool.or_eq_true] at h
  rcases h with h | h
  · exact restores_plain saveProp v (saveProp_plain v h) h
  · match v, h with
    | .map kvs, h => exact restores_tupleDict kvs (tupleDictB_spec kvs h)

theorem restores_cleanItem (v : Y) (h : cleanItem v = true) : Restores saveItem v := by
  match v, h with
  | .map kvs, h =>
    obtain ⟨ws, hws, hs⟩ := restores_map saveProp kvs (KV.allB_imp (fun _ hk => hk) restores_cleanProp kvs h)
    exact ⟨.map ws, by simp only [saveItem, savePropsKV_eq, hws, Option.map_some], hs⟩

theorem restores_cleanColl (v : Y) (h : cleanColl v = true) : Restores saveColl v := by
  match v, h with
  | .map kvs, h =>
    obtain ⟨ws, hws, hs⟩ := restores_map saveItem kvs (KV.allB_imp (fun _ hk => hk) restores_cleanItem kvs h)
    exact ⟨.map ws, by simp only [saveColl, saveItemsKV_eq, hws, Option.map_some], hs⟩
  | .seq xs, h =>
    obtain ⟨ws, hws, hs⟩ := restores_seq saveItem xs (YL.allB_imp restores_cleanItem xs h)
    exact ⟨.seq ws, by simp only [saveColl, saveItemsYL_eq, hws, Option.map_some], hs⟩
  | .atom a, _ => exact ⟨.atom a, rfl, rfl⟩
  | .str s, _ => exact ⟨.str s, rfl, rfl⟩

end Glotaran.C17
