/-
C19 — helper lemmas for `every_plugin_reachable_iff`: the value of a dotted key after a history is
the last write of the history's write trace to that key.
-/
import GlotaranProofs.Lemmas.C19
namespace Glotaran.C19

/-- value of key `K` after replaying a list of dict writes over the previous value `base` -/
def applyWrites (ws : List (String × Plugin)) (base : Option Plugin) (K : String) : Option Plugin :=
  ws.foldl (fun acc w => if w.1 = K then some w.2 else acc) base

theorem applyWrites_nil (base : Option Plugin) (K : String) : applyWrites [] base K = base := rfl

theorem applyWrites_cons (w : String × Plugin) (ws : List (String × Plugin)) (base : Option Plugin) (K : String) :
    applyWrites (w :: ws) base K = applyWrites ws (if w.1 = K then some w.2 else base) K := rfl

theorem applyWrites_append (a b : List (String × Plugin)) (base : Option Plugin) (K : String) :
    applyWrites (a ++ b) base K = applyWrites b (applyWrites a base K) K := by
  simp [applyWrites, List.foldl_append]

theorem applyWrites_not_mem (ws : List (String × Plugin)) (base : Option Plugin) (K : String)
    (h : ∀ w ∈ ws, w.1 ≠ K) : applyWrites ws base K = base := by
  induction ws generalizing base with
  | nil => rfl
  | cons w ws ih =>
    rw [applyWrites_cons, if_neg (h w (by simp))]
    exact ih base (fun w' hw' => h w' (by simp [hw']))

/-- if the trace writes `K` at all, the final value is one of the trace's writes to `K` -/
theorem applyWrites_of_mem (ws : List (String × Plugin)) (base : Option Plugin) (K : String)
    (h : ∃ w ∈ ws, w.1 = K) : ∃ w ∈ ws, w.1 = K ∧ applyWrites ws base K = some w.2 := by
  induction ws generalizing base with
  | nil => simp at h
  | cons w ws ih =>
    by_cases hr : ∃ w' ∈ ws, w'.1 = K
    · obtain ⟨w', hw', hk, he⟩ := ih (if w.1 = K then some w.2 else base) hr
      exact ⟨w', by simp [hw'], hk, by rw [applyWrites_cons]; exact he⟩
    · have hw : w.1 = K := by
        obtain ⟨w', hw', hk⟩ := h
        rcases List.mem_cons.mp hw' with e | e
        · exact e ▸ hk
        · exact absurd ⟨w', e, hk⟩ hr
      refine ⟨w, by simp, hw, ?_⟩
      rw [applyWrites_cons, if_pos hw]
      exact applyWrites_not_mem ws _ K (fun w' hw' e => hr ⟨w', hw', e⟩)

theorem addOne_none_iff (r : Registry) (key : String) (p : Plugin) (id : String) :
    addOne r key p id = none ↔ hasDot key = true := by
  unfold addOne
  by_cases h : hasDot key = true
  · simp [h]
  · simp only [h]
    cases lookup r key <;> simp

theorem addOne_lookup_dotted (r r' : Registry) (key : String) (p : Plugin) (id : String) (w : Bool)
    (K : String) (hK : hasDot K = true) (h : addOne r key p id = some (r', w)) :
    lookup r' K = applyWrites (addOneWrites r key p id) (lookup r K) K := by
  unfold addOne at h
  unfold addOneWrites
  by_cases hkey : hasDot key = true
  · simp [hkey] at h
  · have hkey' : hasDot key = false := by simpa using hkey
    have hne : key ≠ K := fun e => (ne_of_hasDot hK hkey') e.symm
    simp only [hkey] at h ⊢
    cases hl : lookup r key with
    | some old =>
      simp only [hl] at h
      cases h
      simp only [Bool.false_eq_true, if_false, lookup_insert, applyWrites_cons, applyWrites_nil]
    | none =>
      simp only [hl] at h
      cases h
      simp only [Bool.false_eq_true, if_false, lookup_insert, applyWrites_cons, applyWrites_nil, hne]

theorem addInstLoop_lookup_dotted (m n K : String) (hK : hasDot K = true) :
    ∀ (keys : List String) (r : Registry) (u : Nat) (acc : List Bool),
      lookup (addInstLoop r m n keys u acc).1 K
        = applyWrites (addInstWrites r m n keys u) (lookup r K) K := by
  intro keys
  induction keys with
  | nil => intro r u acc; simp [addInstLoop, addInstWrites, applyWrites_nil]
  | cons k ks ih =>
    intro r u acc
    unfold addInstLoop addInstWrites
    cases hadd : addOne r k ⟨m, n, u⟩ k with
    | none => simp [applyWrites_nil]
    | some rw =>
      obtain ⟨r', w⟩ := rw
      simp only
      rw [ih r' (u + 1) (w :: acc), applyWrites_append,
        addOne_lookup_dotted r r' k ⟨m, n, u⟩ k w K hK hadd]

theorem step_lookup_dotted (r : Registry) (op : Op) (K : String) (hK : hasDot K = true) :
    lookup (step r op).1 K = applyWrites (stepWrites r op) (lookup r K) K := by
  cases op with
  | add key p id =>
    simp only [step, stepWrites]
    cases hadd : addOne r key p id with
    | none =>
      have := (addOne_none_iff r key p id).mp hadd
      simp [addOneWrites, this, applyWrites_nil]
    | some rw =>
      obtain ⟨r', w⟩ := rw
      exact addOne_lookup_dotted r r' key p id w K hK hadd
  | addInst keys m n u => exact addInstLoop_lookup_dotted m n K hK keys r u []
  | setPlugin key full =>
    simp only [step, stepWrites, applyWrites_nil]
    split
    · rfl
    · rename_i hkey
      split
      · rfl
      · split
        · rfl
        · have : key ≠ K := by
            intro e; subst e; simp [hK] at hkey
          simp [lookup_insert, this]
  | get key => simp only [step, stepWrites, applyWrites_nil]; split <;> rfl
  | registered full => simp [step, stepWrites, applyWrites_nil]

theorem run_cons (r : Registry) (op : Op) (ops : List Op) : run r (op :: ops) = run (step r op).1 ops := by
  simp [run, List.foldl]

/-- **the final value of a dotted key is the last write of the trace to it** -/
theorem run_lookup_dotted (ops : List Op) : ∀ (r : Registry) (K : String), hasDot K = true →
    lookup (run r ops) K = applyWrites (runWrites r ops) (lookup r K) K := by
  induction ops with
  | nil => intro r K _; simp [run, runWrites, applyWrites_nil]
  | cons op ops ih =>
    intro r K hK
    rw [run_cons, runWrites, applyWrites_append, ih (step r op).1 K hK, step_lookup_dotted r op K hK]

/-! every write of the trace is a dotted key and comes from an accepted registration -/

/-- `w` is one of the (at most two) dict writes of the registration `(p, id)` -/
def WriteOf (w : String × Plugin) (p : Plugin) (id : String) : Prop :=
  w.2 = p ∧ (w.1 = fullKey p id ∨ w.1 = p.fullName)

theorem addOneWrites_spec (r : Registry) (key : String) (p : Plugin) (id : String) :
    (∀ w ∈ addOneWrites r key p id, hasDot key = false ∧ WriteOf w p id) ∧
    (hasDot key = false → (fullKey p id, p) ∈ addOneWrites r key p id) := by
  unfold addOneWrites
  by_cases hkey : hasDot key = true
  · simp [hkey]
  · have hkey' : hasDot key = false := by simpa using hkey
    simp only [hkey, Bool.false_eq_true, if_false]
    cases lookup r key <;> simp [WriteOf]

theorem addInstWrites_spec (m n : String) : ∀ (keys : List String) (r : Registry) (u : Nat),
    (∀ w ∈ addInstWrites r m n keys u, ∃ pi ∈ acceptedInst m n keys u, WriteOf w pi.1 pi.2) ∧
    (∀ pi ∈ acceptedInst m n keys u, (fullKey pi.1 pi.2, pi.1) ∈ addInstWrites r m n keys u) := by
  intro keys
  induction keys with
  | nil => intro r u; simp [addInstWrites, acceptedInst]
  | cons k ks ih =>
    intro r u
    unfold addInstWrites acceptedInst
    cases hadd : addOne r k ⟨m, n, u⟩ k with
    | none =>
      have := (addOne_none_iff r k ⟨m, n, u⟩ k).mp hadd
      simp [this]
    | some rw =>
      obtain ⟨r', w⟩ := rw
      have hk : hasDot k = false := by
        cases h : hasDot k with
        | false => rfl
        | true => rw [(addOne_none_iff r k ⟨m, n, u⟩ k).mpr h] at hadd; cases hadd
      have h1 := addOneWrites_spec r k ⟨m, n, u⟩ k
      have h2 := ih r' (u + 1)
      simp only [hk, Bool.false_eq_true, if_false]
      constructor
      · intro w' hw'
        rcases List.mem_append.mp hw' with e | e
        · exact ⟨(⟨m, n, u⟩, k), by simp, (h1.1 w' e).2⟩
        · obtain ⟨pi, hpi, hw⟩ := h2.1 w' e
          exact ⟨pi, by simp [hpi], hw⟩
      · intro pi hpi
        rcases List.mem_cons.mp hpi with e | e
        · subst e; exact List.mem_append.mpr (Or.inl (h1.2 hk))
        · exact List.mem_append.mpr (Or.inr (h2.2 pi e))

theorem stepWrites_spec (r : Registry) (op : Op) :
    (∀ w ∈ stepWrites r op, ∃ pi ∈ acceptedOf op, WriteOf w pi.1 pi.2) ∧
    (∀ pi ∈ acceptedOf op, (fullKey pi.1 pi.2, pi.1) ∈ stepWrites r op) := by
  cases op with
  | add key p id =>
    have h := addOneWrites_spec r key p id
    simp only [stepWrites, acceptedOf]
    constructor
    · intro w hw
      have := h.1 w hw
      exact ⟨(p, id), by simp [this.1], this.2⟩
    · intro pi hpi
      by_cases hkey : hasDot key = true
      · simp [hkey] at hpi
      · have hkey' : hasDot key = false := by simpa using hkey
        simp [hkey'] at hpi
        subst hpi
        exact h.2 hkey'
  | addInst keys m n u => exact addInstWrites_spec m n keys r u
  | setPlugin key full => simp [stepWrites, acceptedOf]
  | get key => simp [stepWrites, acceptedOf]
  | registered full => simp [stepWrites, acceptedOf]

theorem runWrites_spec (ops : List Op) : ∀ (r : Registry),
    (∀ w ∈ runWrites r ops, ∃ pi ∈ accepted ops, WriteOf w pi.1 pi.2) ∧
    (∀ pi ∈ accepted ops, (fullKey pi.1 pi.2, pi.1) ∈ runWrites r ops) := by
  induction ops with
  | nil => intro r; simp [runWrites, accepted]
  | cons op ops ih =>
    intro r
    have h1 := stepWrites_spec r op
    have h2 := ih (step r op).1
    simp only [runWrites, accepted, List.flatMap_cons] at *
    constructor
    · intro w hw
      rcases List.mem_append.mp hw with e | e
      · obtain ⟨pi, hpi, h⟩ := h1.1 w e
        exact ⟨pi, List.mem_append.mpr (Or.inl hpi), h⟩
      · obtain ⟨pi, hpi, h⟩ := h2.1 w e
        exact ⟨pi, List.mem_append.mpr (Or.inr hpi), h⟩
    · intro pi hpi
      rcases List.mem_append.mp hpi with e | e
      · exact List.mem_append.mpr (Or.inl (h1.2 pi e))
      · exact List.mem_append.mpr (Or.inr (h2.2 pi e))

theorem WriteOf.dotted {w : String × Plugin} {p : Plugin} {id : String} (h : WriteOf w p id) :
    hasDot w.1 = true := by
  rcases h.2 with e | e
  · rw [e]; exact hasDot_fullKey p id
  · rw [e]; exact hasDot_fullName p

end Glotaran.C19
