/-
C12 — lemmas that tie the generated transcription (GlotaranModel/Generated/C12Fns.lean, over the
Python-level objects of GlotaranModel/C12Py.lean) to the hand-written model.
-/
import GlotaranProofs.Lemmas.C12
import GlotaranModel.Generated.C12Fns
namespace Glotaran.C12
open Py

/-! ### the abstraction -/

theorem abs_expr_isSome (P : Parser) (p : Py.Parameter) : (p.abs P).expr.isSome = p.expression.isSome := by
  cases h : p.expression <;> simp [Parameter.abs, h]

theorem valueOf_absAll (P : Parser) (d : Dict) (r : Py.Parameter) :
    valueOf (absAll P d) r.label = Py.getValue d r := by
  induction d with
  | nil => rfl
  | cons q rest ih =>
    unfold Py.getValue at ih ⊢
    simp only [absAll, List.map_cons, valueOf, List.find?_cons] at ih ⊢
    by_cases h : q.label = r.label
    · simp [Parameter.abs, h]
    · simp only [Parameter.abs, h, if_false, decide_false]
      exact ih

theorem absAll_setValue (P : Parser) (d : Dict) (r : Py.Parameter) (v : Val) :
    absAll P (Py.setValue d r v) = C12.setValue (absAll P d) r.label v := by
  simp only [absAll, Py.setValue, C12.setValue, List.map_map]
  apply List.map_congr_left
  intro q _
  by_cases h : q.label = r.label <;> simp [Parameter.abs, h]

theorem exprCount_absAll (P : Parser) (d : Dict) :
    exprCount (absAll P d) = (d.filter (fun p => p.expression.isSome)).length := by
  induction d with
  | nil => rfl
  | cons q rest ih =>
    simp only [exprCount, absAll, List.map_cons, List.filter_cons, abs_expr_isSome] at ih ⊢
    split <;> simp [ih]

/-- a pass reads the to-do list only through labels and expressions -/
theorem passAux_congr (F : Funs) : ∀ (t1 t2 env : List Param) (ch : Bool), t1.map sk = t2.map sk →
    passAux F t1 env ch = passAux F t2 env ch := by
  intro t1
  induction t1 with
  | nil =>
    intro t2 env ch h
    cases t2 with
    | nil => rfl
    | cons _ _ => simp at h
  | cons p rest ih =>
    intro t2 env ch h
    cases t2 with
    | nil => simp at h
    | cons q rest2 =>
      simp only [List.map_cons, List.cons.injEq, sk, Prod.mk.injEq] at h
      obtain ⟨⟨hl, he⟩, hr⟩ := h
      unfold passAux
      rw [← he, ← hl]
      split
      · exact ih _ _ _ hr
      · split
        · rfl
        · exact ih _ _ _ hr

/-! ### `update_parameter_expression` -/

def absRes2 (P : Parser) : Py.Res (Dict × Bool) → C12.Res (List Param × Bool)
  | .ok (d, b) => .ok (absAll P d, b)
  | .error (e, d) => .error (e, absAll P d)

theorem isinstance_generated (v : PyVal) :
    Py.isinstance v ["int", "float", "np.integer"] = match v with | .ok _ => true | .error _ => false := by
  cases v <;> simp [Py.isinstance, Py.numericKinds]

theorem for2_eq (F : Funs) (P : Parser) (hs : Gen.Parameters_evaluator_symbols.contains templateRoot = true) :
    ∀ (todo : List Py.Parameter) (env : Dict) (ch : Bool),
      absRes2 P (Gen.update_parameter_expression_for2 F P (todo.filter (fun p => p.expression.isSome)) env ch)
        = passAux F (absAll P todo) (absAll P env) ch := by
  intro todo
  induction todo with
  | nil => intro env ch; rfl
  | cons p rest ih =>
    intro env ch
    cases hx : p.expression with
    | none =>
      have : (p.abs P).expr = none := by simp [Parameter.abs, hx]
      simp only [List.filter_cons, hx, Option.isSome_none, absAll, List.map_cons, passAux, this]
      exact ih env ch
    | some s =>
      have he : (p.abs P).expr = some (P.parse p.transformed_expression) := by simp [Parameter.abs, hx]
      simp only [List.filter_cons, hx, Option.isSome_some, if_true, absAll, List.map_cons, passAux, he]
      unfold Gen.update_parameter_expression_for2
      simp only [Py.evaluator, hs, if_true, isinstance_generated]
      cases hev : eval F (absAll P env) (P.parse p.transformed_expression) with
      | error why =>
        simp [absAll] at hev
        simp [hev, absRes2, Py.nonNumeric, Parameter.abs, absAll]
      | ok v =>
        simp [absAll] at hev
        simp only [hev, Bool.not_true, Bool.false_eq_true, if_false, Py.float, Py.ne]
        rw [ih (Py.setValue env p v), absAll_setValue]
        have h2 := valueOf_absAll P env p
        simp only [absAll] at h2 ⊢
        have hl : (Parameter.abs P p).label = p.label := rfl
        first
          | (rw [hl, h2]; done)
          | (rw [hl, h2]; congr 1; by_cases hb : valNe v (Py.getValue env p) = true <;> simp [hb])

theorem for1_eq (F : Funs) (P : Parser) (hs : Gen.Parameters_evaluator_symbols.contains templateRoot = true)
    (env0 : Dict) : ∀ (iters : List Py.Parameter) (env : Dict),
      (absAll P env).map sk = (absAll P env0).map sk →
      absRes P (Gen.update_parameter_expression_for1 F P (env0.filter (fun p => p.expression.isSome)) iters env)
        = loop F iters.length (absAll P env) := by
  intro iters
  induction iters with
  | nil => intro env _; rfl
  | cons _ rest ih =>
    intro env hsk
    have hpass := for2_eq F P hs env0 env false
    rw [passAux_congr F _ _ _ _ hsk.symm] at hpass
    unfold Gen.update_parameter_expression_for1
    simp only [List.length_cons, loop, pass]
    rw [← hpass]
    cases hr : Gen.update_parameter_expression_for2 F P (env0.filter (fun p => p.expression.isSome)) env false with
    | error e => obtain ⟨e1, d⟩ := e; simp [absRes2, absRes]
    | ok r =>
      obtain ⟨env1, ch1⟩ := r
      simp only [absRes2]
      have hsame : (absAll P env1).map sk = (absAll P env0).map sk := by
        rw [hr] at hpass
        simp only [absRes2] at hpass
        exact ((passAux_same F _ _ _ _ _ hpass.symm).1).trans hsk
      cases ch1 with
      | false => simp [absRes]
      | true => simpa using ih env1 hsame

theorem symbols_bound : Gen.Parameters_evaluator_symbols.contains templateRoot = true := by decide

theorem update_eq (F : Funs) (P : Parser) (self : Dict) :
    absRes P (Gen.update_parameter_expression F P self) = update F (absAll P self) := by
  have h := for1_eq F P symbols_bound self (self.filter (fun p => p.expression.isSome)) self rfl
  unfold Gen.update_parameter_expression Gen.Parameters_all Py.values
  unfold update
  rw [exprCount_absAll, ← h]
  dsimp only
  split <;> rename_i heq <;> rw [heq]

theorem init_eq (F : Funs) (P : Parser) (d : Dict) :
    absRes P (Gen.Parameters_init F P d) = update F (absAll P d) := by
  unfold Gen.Parameters_init
  rw [← update_eq F P d]
  dsimp only
  split <;> rename_i heq <;> rw [heq]

/-! ### `set_transformed_expression`, `Parameter.copy` -/

/-- the transformed text is the rewriting of the expression text (what the validator establishes) -/
def Synced (p : Py.Parameter) : Prop :=
  p.transformed_expression = if Py.truthy p.expression then p.expression.map rewrite else none

/-- the expression is not the empty text (not `None`, yet falsy) -/
def NoEmptyExpr (p : Py.Parameter) : Prop := p.expression ≠ some ""

theorem splitTemplate_generated :
    Py.splitTemplate "parameter_expression" "parameters.get('\\g<parameter_expression>').value" =
      some (Generated.templatePrefix, Generated.templateSuffix) := by decide +kernel

theorem reSub_generated (s : String) :
    Py.reSub "parameter_expression" "parameters.get('\\g<parameter_expression>').value" (some s) = some (rewrite s) := by
  unfold Py.reSub
  rw [splitTemplate_generated]
  simp only [rewrite]
  congr 2

theorem ste_eq (p : Py.Parameter) (e : Option String) :
    Gen.set_transformed_expression p () e =
      if Py.truthy e then { p with vary := false, transformed_expression := e.map rewrite } else p := by
  unfold Gen.set_transformed_expression
  cases e with
  | none => simp [Py.truthy]
  | some s =>
    by_cases h : Py.truthy (some s) = true
    · simp only [h, if_true, reSub_generated, Option.map_some]
    · simp [h]

theorem copy_label (p : Py.Parameter) : (Gen.Parameter_copy p).label = p.label := by
  unfold Gen.Parameter_copy Py.evolve
  rw [ste_eq]
  split <;> rfl

theorem abs_copy (P : Parser) (p : Py.Parameter) (hs : Synced p) (hn : NoEmptyExpr p) :
    (Gen.Parameter_copy p).abs P = normalize (p.abs P) := by
  unfold Gen.Parameter_copy Py.evolve
  rw [ste_eq]
  unfold Synced at hs
  unfold NoEmptyExpr at hn
  cases he : p.expression with
  | none =>
    rw [he] at hs
    simp only [Py.truthy, Bool.false_eq_true, if_false] at hs ⊢
    simp [Parameter.abs, normalize, he]
  | some s =>
    have hne : s ≠ "" := fun e => hn (by rw [he, e])
    have ht : Py.truthy (some s) = true := by simp [Py.truthy, hne]
    rw [he, ht] at hs
    simp only [ht, if_true, Option.map_some] at hs ⊢
    simp [Parameter.abs, normalize, he, hs]

theorem absAll_dictSet (P : Parser) (d : Dict) (v : Py.Parameter) :
    absAll P (Py.dictSet d v.label v) = dictInsert (absAll P d) (v.abs P) := by
  unfold Py.dictSet dictInsert
  have hany : (absAll P d).any (fun q => q.label = (v.abs P).label) = d.any (fun q => q.label = v.label) := by
    simp only [absAll, List.any_map, Parameter.abs, Function.comp_def]
    congr
  rw [hany]
  split
  · simp only [absAll, List.map_map]
    apply List.map_congr_left
    intro q _
    by_cases h : q.label = v.label <;> simp [Parameter.abs, h]
  · simp [absAll]

theorem absAll_dictOf_copy (P : Parser) : ∀ (d acc : Dict), (∀ p ∈ d, Synced p ∧ NoEmptyExpr p) →
    absAll P (((Py.items d).map (fun (label, parameter) => (label, Gen.Parameter_copy parameter))).foldl
      (fun d kv => Py.dictSet d kv.1 kv.2) acc)
      = (absAll P d).foldl (fun d p => dictInsert d (normalize p)) (absAll P acc) := by
  intro d
  induction d with
  | nil => intro acc _; rfl
  | cons p rest ih =>
    intro acc h
    simp only [Py.items, List.map_cons, List.foldl_cons, absAll] at ih ⊢
    have hp := h p List.mem_cons_self
    have step : absAll P (Py.dictSet acc p.label (Gen.Parameter_copy p)) = dictInsert (absAll P acc) (normalize (p.abs P)) := by
      have := absAll_dictSet P acc (Gen.Parameter_copy p)
      rw [copy_label, abs_copy P p hp.1 hp.2] at this
      exact this
    have := ih (Py.dictSet acc p.label (Gen.Parameter_copy p)) (fun q hq => h q (List.mem_cons_of_mem _ hq))
    simp only [absAll] at step
    rw [this, step]

end Glotaran.C12
