/-
C14 — helper lemmas: the algebra of a consistent least-squares problem (data in the range of the
matrix) over `Glotaran.LinAlg` lists, for solutions certified by the normal equations or by KKT.
-/
import GlotaranModel.C14
import GlotaranProofs.Lemmas.LinAlg
import Mathlib.Tactic.Ring
import Mathlib.Tactic.Linarith
namespace Glotaran.C14
open Glotaran.LinAlg Glotaran.C02

/-! ### dot products -/

theorem dot_comm (a b : Vec) : dot a b = dot b a := by
  induction a generalizing b with
  | nil => simp
  | cons x a ih =>
    cases b with
    | nil => simp
    | cons y b => rw [dot_cons, dot_cons, ih b]; ring

theorem dot_vsub_right (r d c : Vec) (h : d.length = c.length) :
    dot r (vsub d c) = dot r d - dot r c := by
  induction r generalizing d c with
  | nil => simp
  | cons x r ih =>
    cases d with
    | nil =>
      cases c with
      | nil => simp [vsub]
      | cons _ _ => simp at h
    | cons y d =>
      cases c with
      | nil => simp at h
      | cons z c =>
        have hl : d.length = c.length := by simpa using h
        have : vsub (y :: d) (z :: c) = (y - z) :: vsub d c := by simp [vsub]
        rw [this, dot_cons, dot_cons, dot_cons, ih d c hl]; ring

theorem dot_vscale_right (k : Rat) (r v : Vec) : dot r (vscale k v) = k * dot r v := by
  rw [dot_comm, dot_vscale, dot_comm]

theorem dot_zero_left (g v : Vec) (h : ∀ x ∈ g, x = 0) : dot g v = 0 := by
  induction g generalizing v with
  | nil => simp
  | cons x g ih =>
    cases v with
    | nil => simp
    | cons y v =>
      rw [dot_cons, ih v (fun z hz => h z (List.mem_cons_of_mem _ hz)), h x List.mem_cons_self]; ring

/-- complementarity: all products zero ⇒ the dot product is zero -/
theorem dot_zero_of_products (c g : Vec) (h : ∀ x ∈ List.zipWith (· * ·) c g, x = 0) : dot c g = 0 := by
  induction c generalizing g with
  | nil => simp
  | cons x c ih =>
    cases g with
    | nil => simp
    | cons y g =>
      have h0 : x * y = 0 := h _ (by simp)
      rw [dot_cons, h0, ih g (fun z hz => h z (by simp [hz]))]; ring

/-- a non-positive vector against a non-negative one -/
theorem dot_nonpos (g d : Vec) (hg : ∀ x ∈ g, x ≤ 0) (hd : ∀ x ∈ d, 0 ≤ x) : dot g d ≤ 0 := by
  induction g generalizing d with
  | nil => simp
  | cons x g ih =>
    cases d with
    | nil => simp
    | cons y d =>
      rw [dot_cons]
      have h1 : x ≤ 0 := hg x List.mem_cons_self
      have h2 : 0 ≤ y := hd y List.mem_cons_self
      have h3 := ih d (fun z hz => hg z (List.mem_cons_of_mem _ hz)) (fun z hz => hd z (List.mem_cons_of_mem _ hz))
      have h4 : x * y ≤ 0 := mul_nonpos_of_nonpos_of_nonneg h1 h2
      linarith

theorem sumSq_cons (x : Rat) (v : Vec) : sumSq (x :: v) = x * x + sumSq v := by
  simp [sumSq, dot_cons]

theorem sumSq_nonneg (v : Vec) : 0 ≤ sumSq v := by
  induction v with
  | nil => simp [sumSq]
  | cons x v ih => rw [sumSq_cons]; have := mul_self_nonneg x; linarith

theorem sumSq_eq_zero (v : Vec) (h : sumSq v = 0) : ∀ x ∈ v, x = 0 := by
  induction v with
  | nil => simp
  | cons x v ih =>
    rw [sumSq_cons] at h
    have h1 := mul_self_nonneg x
    have h2 := sumSq_nonneg v
    have hx : x * x = 0 := by linarith
    have hv : sumSq v = 0 := by linarith
    intro z hz
    rcases List.mem_cons.mp hz with rfl | hz
    · exact mul_self_eq_zero.mp hx
    · exact ih hv z hz

theorem sumSq_zero_of_all_zero (v : Vec) (h : ∀ x ∈ v, x = 0) : sumSq v = 0 := by
  unfold sumSq; exact dot_zero_left v v h

/-! ### matrices -/

theorem mulVec_vsub (B : Mat) (d c : Vec) (h : d.length = c.length) :
    mulVec B (vsub d c) = vsub (mulVec B d) (mulVec B c) := by
  induction B with
  | nil => simp [mulVec, vsub]
  | cons r B ih =>
    have hr := dot_vsub_right r d c h
    simp only [mulVec, List.map_cons, vsub, List.zipWith_cons_cons] at ih hr ⊢
    rw [hr, ih]

theorem mulVec_length (B : Mat) (v : Vec) : (mulVec B v).length = B.length := by simp [mulVec]

theorem ncols_mscale (k : Rat) (B : Mat) : ncols (mscale k B) = ncols B := by
  cases B with
  | nil => rfl
  | cons r B => simp [ncols, mscale, vscale]

theorem rows_mscale_width (k : Rat) (B : Mat) (n : Nat) (h : ∀ r ∈ B, r.length = n) :
    ∀ r ∈ mscale k B, r.length = n := by
  intro r hr
  simp only [mscale, List.mem_map] at hr
  obtain ⟨r', hr', rfl⟩ := hr
  simpa [vscale] using h r' hr'

theorem mulVec_mscale_vscale (s t : Rat) (B : Mat) (v : Vec) :
    mulVec (mscale s B) (vscale t v) = vscale (s * t) (mulVec B v) := by
  simp only [mulVec, mscale, vscale, List.map_map]
  apply List.map_congr_left
  intro r _
  simp only [Function.comp]
  have h1 := dot_vscale s r (vscale t v)
  have h2 := dot_vscale_right t r v
  simp only [vscale] at h1 h2 ⊢
  rw [h1, h2]; ring

theorem vscale_one (v : Vec) : vscale 1 v = v := by simp [vscale]

/-- the matrix of the scaled model applied to the generating coefficients divided by the scale
    reproduces the data -/
theorem mulVec_mscale_inv (s : Rat) (hs : s ≠ 0) (B : Mat) (v : Vec) :
    mulVec (mscale s B) (vscale (1 / s) v) = mulVec B v := by
  rw [mulVec_mscale_vscale, mul_one_div_cancel hs, vscale_one]

/-- the transpose is the adjoint: `(Bᵀ r) · v = r · (B v)` -/
theorem transpose_dot (B : Mat) (n : Nat) (hB : ∀ r ∈ B, r.length = n) (r v : Vec) :
    dot (mulVec (transpose B n) r) v = dot r (mulVec B v) := by
  have := dot_transpose_assoc B n hB r v
  rw [← this]
  simp only [mulVec]
  congr 1
  apply List.map_congr_left
  intro col _
  exact dot_comm _ _

/-- `gradient` is the transpose applied to the residual: `g · v = r · (B v)` -/
theorem gradient_dot (B : Mat) (n : Nat) (hB : ∀ r ∈ B, r.length = n) (hn : ncols B = n)
    (y c v : Vec) : dot (gradient B y c) v = dot (residual B y c) (mulVec B v) := by
  unfold gradient
  rw [hn]
  exact transpose_dot B n hB _ v

theorem mulVec_zero (B : Mat) (v : Vec) (h : ∀ x ∈ v, x = 0) : ∀ x ∈ mulVec B v, x = 0 := by
  intro x hx
  simp only [mulVec, List.mem_map] at hx
  obtain ⟨r, _, rfl⟩ := hx
  rw [dot_comm]; exact dot_zero_left v r h

theorem eq_of_all_zero (a b : Vec) (hl : a.length = b.length) (ha : ∀ x ∈ a, x = 0) (hb : ∀ x ∈ b, x = 0) :
    a = b := by
  induction a generalizing b with
  | nil => cases b with
    | nil => rfl
    | cons _ _ => simp at hl
  | cons x a ih =>
    cases b with
    | nil => simp at hl
    | cons y b =>
      rw [ha x List.mem_cons_self, hb y List.mem_cons_self,
        ih b (by simpa using hl) (fun z hz => ha z (List.mem_cons_of_mem _ hz)) (fun z hz => hb z (List.mem_cons_of_mem _ hz))]

/-- for data in the range of `B` the squared residual is the gradient against `d − c` -/
theorem sumSq_residual (B : Mat) (n : Nat) (hB : ∀ r ∈ B, r.length = n) (hn : ncols B = n)
    (d c : Vec) (h : d.length = c.length) :
    sumSq (residual B (mulVec B d) c) = dot (gradient B (mulVec B d) c) (vsub d c) := by
  rw [gradient_dot B n hB hn, mulVec_vsub B d c h]
  rfl

theorem all_eq_true_iff (v : Vec) (p : Rat → Bool) : v.all p = true ↔ ∀ x ∈ v, p x = true := by
  simp [List.all_eq_true]

/-- a vector difference that vanishes entrywise: the vectors are equal -/
theorem eq_of_vsub_zero (a b : Vec) (hl : a.length = b.length) (h : ∀ x ∈ vsub a b, x = 0) : a = b := by
  induction a generalizing b with
  | nil => cases b with
    | nil => rfl
    | cons _ _ => simp at hl
  | cons x a ih =>
    cases b with
    | nil => simp at hl
    | cons y b =>
      have hv : vsub (x :: a) (y :: b) = (x - y) :: vsub a b := by simp [vsub]
      rw [hv] at h
      have h0 : x - y = 0 := h _ List.mem_cons_self
      have : x = y := by linarith
      subst this
      rw [ih b (by simpa using hl) (fun z hz => h z (List.mem_cons_of_mem _ hz))]

/-- full column rank, stated as injectivity of `v ↦ B v` on vectors of the right length -/
def FullColRank (B : Mat) (n : Nat) : Prop :=
  ∀ v w : Vec, v.length = n → w.length = n → mulVec B v = mulVec B w → v = w

theorem fullColRank_mscale (s : Rat) (hs : s ≠ 0) (B : Mat) (n : Nat) (h : FullColRank B n) :
    FullColRank (mscale s B) n := by
  intro v w hv hw he
  have e1 := mulVec_mscale_vscale s 1 B v
  have e2 := mulVec_mscale_vscale s 1 B w
  simp only [vscale_one, mul_one] at e1 e2
  have : vscale s (mulVec B v) = vscale s (mulVec B w) := by rw [← e1, ← e2, he]
  apply h v w hv hw
  have hinj : ∀ a b : Vec, vscale s a = vscale s b → a = b := by
    intro a
    induction a with
    | nil =>
      intro b hab
      cases b with
      | nil => rfl
      | cons _ _ => simp [vscale] at hab
    | cons x a ih =>
      intro b hab
      cases b with
      | nil => simp [vscale] at hab
      | cons y b =>
        simp only [vscale, List.map_cons, List.cons.injEq] at hab
        rw [mul_left_cancel₀ hs hab.1, ih b (by simpa [vscale] using hab.2)]
  exact hinj _ _ this

/-! ### the consistent problem -/

theorem ncols_of_rows (B : Mat) (n : Nat) (hB : ∀ r ∈ B, r.length = n) (hne : B ≠ []) : ncols B = n := by
  cases B with
  | nil => exact absurd rfl hne
  | cons r B => simpa [ncols] using hB r List.mem_cons_self

theorem residual_nil (y c : Vec) : residual [] y c = [] := by simp [residual, mulVec, vsub]

/-- **certified solution of a consistent problem ⇒ zero residual** (normal equations) -/
theorem residual_zero_of_normal (B : Mat) (n : Nat) (hB : ∀ r ∈ B, r.length = n)
    (d c : Vec) (hd : d.length = n) (h : isNormalSol B (mulVec B d) c = true) :
    ∀ x ∈ residual B (mulVec B d) c, x = 0 := by
  by_cases hne : B = []
  · subst hne; simp [residual_nil]
  have hn := ncols_of_rows B n hB hne
  simp only [isNormalSol, Bool.and_eq_true, beq_iff_eq, List.all_eq_true] at h
  obtain ⟨hc, hg⟩ := h
  have hcl : d.length = c.length := by rw [hd, hc, hn]
  apply sumSq_eq_zero
  rw [sumSq_residual B n hB hn d c hcl]
  exact dot_zero_left _ _ hg

/-- **KKT point of a consistent problem with a non-negative generating vector ⇒ zero residual** -/
theorem residual_zero_of_kkt (B : Mat) (n : Nat) (hB : ∀ r ∈ B, r.length = n)
    (d c : Vec) (hd : d.length = n) (hpos : ∀ x ∈ d, 0 ≤ x) (h : isKKT B (mulVec B d) c = true) :
    ∀ x ∈ residual B (mulVec B d) c, x = 0 := by
  by_cases hne : B = []
  · subst hne; simp [residual_nil]
  have hn := ncols_of_rows B n hB hne
  simp only [isKKT, Bool.and_eq_true, beq_iff_eq, List.all_eq_true, decide_eq_true_eq] at h
  obtain ⟨⟨⟨hc, _hc0⟩, hg⟩, hcomp⟩ := h
  have hcl : d.length = c.length := by rw [hd, hc, hn]
  apply sumSq_eq_zero
  have h1 := sumSq_residual B n hB hn d c hcl
  have h2 := dot_vsub_right (gradient B (mulVec B d) c) d c hcl
  have h3 : dot (gradient B (mulVec B d) c) c = 0 := by
    rw [dot_comm]; exact dot_zero_of_products _ _ hcomp
  have h4 := dot_nonpos (gradient B (mulVec B d) c) d hg hpos
  have h5 := sumSq_nonneg (residual B (mulVec B d) c)
  linarith

/-- a matrix without rows has full column rank only for zero columns -/
theorem fullColRank_nil (n : Nat) (h : FullColRank [] n) : n = 0 := by
  cases n with
  | zero => rfl
  | succ n =>
    have := h (List.replicate (n + 1) 0) (List.replicate (n + 1) 1) (by simp) (by simp) rfl
    simp [List.replicate_succ] at this

/-- zero residual + full column rank ⇒ the solution is the generating vector -/
theorem coeff_unique (B : Mat) (n : Nat) (d c : Vec) (hd : d.length = n) (hc : c.length = n)
    (hrank : FullColRank B n) (h : ∀ x ∈ residual B (mulVec B d) c, x = 0) : c = d := by
  apply hrank c d hc hd
  have := eq_of_vsub_zero (mulVec B d) (mulVec B c) (by simp [mulVec_length]) h
  exact this.symm

theorem solveLS_cases (sv : Solver) (B : Mat) (y c r : Vec) (h : solveLS sv B y = some (c, r)) :
    r = residual B y c ∧ ((sv = .vp ∧ isNormalSol B y c = true) ∨ (sv = .nnls ∧ isKKT B y c = true)) := by
  unfold solveLS at h
  cases sv with
  | vp =>
    simp only at h
    cases hl : lsExact B y with
    | none => simp [hl] at h
    | some c' =>
      simp [hl] at h
      obtain ⟨rfl, rfl⟩ := h
      refine ⟨rfl, Or.inl ⟨rfl, ?_⟩⟩
      unfold lsExact at hl
      split at hl
      · split at hl
        · cases hl; assumption
        · cases hl
      · split at hl
        · split at hl
          · cases hl; assumption
          · cases hl
        · cases hl
  | nnls =>
    simp only at h
    cases hl : nnlsExact B y with
    | none => simp [hl] at h
    | some c' =>
      simp [hl] at h
      obtain ⟨rfl, rfl⟩ := h
      refine ⟨rfl, Or.inr ⟨rfl, ?_⟩⟩
      unfold nnlsExact at hl
      simp only at hl
      obtain ⟨s, _, hs⟩ := List.exists_of_findSome?_eq_some hl
      split at hs
      · split at hs
        · cases hs; assumption
        · cases hs
      · cases hs

theorem certified_length (sv : Solver) (B : Mat) (y c r : Vec) (h : solveLS sv B y = some (c, r)) :
    c.length = ncols B := by
  obtain ⟨_, h⟩ := solveLS_cases sv B y c r h
  rcases h with ⟨_, h⟩ | ⟨_, h⟩
  · simp only [isNormalSol, Bool.and_eq_true, beq_iff_eq] at h; exact h.1
  · simp only [isKKT, Bool.and_eq_true, beq_iff_eq] at h; exact h.1.1.1

/-- **the solver on a consistent problem**: zero residual, and the generating coefficients under
    full column rank -/
theorem consistent_problem (sv : Solver) (B : Mat) (n : Nat) (hB : ∀ r ∈ B, r.length = n)
    (d : Vec) (hd : d.length = n) (hnn : sv = .nnls → ∀ x ∈ d, 0 ≤ x)
    (c r : Vec) (h : solveLS sv B (mulVec B d) = some (c, r)) :
    (∀ x ∈ r, x = 0) ∧ (FullColRank B n → c = d) := by
  have hlen := certified_length sv B _ c r h
  obtain ⟨hr, hcert⟩ := solveLS_cases sv B _ c r h
  have hz : ∀ x ∈ residual B (mulVec B d) c, x = 0 := by
    rcases hcert with ⟨_, hc⟩ | ⟨hs, hc⟩
    · exact residual_zero_of_normal B n hB d c hd hc
    · exact residual_zero_of_kkt B n hB d c hd (hnn hs) hc
  refine ⟨by rw [hr]; exact hz, fun hrank => ?_⟩
  have hcn : c.length = n := by
    by_cases hne : B = []
    · subst hne
      have := fullColRank_nil n hrank
      rw [hlen, this]; rfl
    · rw [hlen, ncols_of_rows B n hB hne]
  exact coeff_unique B n d c hd hcn hrank hz

end Glotaran.C14
