/-
C17 — helper lemmas about list-of-rows matrices (`colOf`, `transposeN`) for the ascii table model.
-/
import GlotaranModel.C17
namespace Glotaran.C17

variable {α : Type}

/-- all rows have length `c` -/
def Rect (m : List (List α)) (c : Nat) : Prop := ∀ r ∈ m, r.length = c

theorem Rect.tail {r : List α} {m : List (List α)} {c : Nat} (h : Rect (r :: m) c) : Rect m c :=
  fun x hx => h x (by simp [hx])

theorem Rect.head {r : List α} {m : List (List α)} {c : Nat} (h : Rect (r :: m) c) : r.length = c :=
  h r (by simp)

theorem colOf_cons_some (r : List α) (m : List (List α)) (j : Nat) (x : α) (h : r[j]? = some x) :
    colOf (r :: m) j = x :: colOf m j := by
  simp [colOf, h]

theorem colOf_length (m : List (List α)) (c j : Nat) (h : Rect m c) (hj : j < c) :
    (colOf m j).length = m.length := by
  induction m with
  | nil => rfl
  | cons r m ih =>
    have hr : j < r.length := by rw [h.head]; exact hj
    rw [colOf_cons_some r m j r[j] (by simp [hr])]
    simp [ih h.tail]

theorem transposeN_length (m : List (List α)) (n : Nat) : (transposeN m n).length = n := by
  simp [transposeN]

theorem transposeN_rect (m : List (List α)) (c : Nat) (h : Rect m c) : Rect (transposeN m c) m.length := by
  intro r hr
  simp only [transposeN, List.mem_map, List.mem_range] at hr
  obtain ⟨j, hj, rfl⟩ := hr
  exact colOf_length m c j h hj

/-- entry (i, j) of the rows -/
def entry (m : List (List α)) (i j : Nat) : Option α := (m[i]?).bind (·[j]?)

theorem colOf_getElem? (m : List (List α)) (c j i : Nat) (h : Rect m c) (hj : j < c) :
    (colOf m j)[i]? = entry m i j := by
  induction m generalizing i with
  | nil => simp [colOf, entry]
  | cons r m ih =>
    have hr : j < r.length := by rw [h.head]; exact hj
    rw [colOf_cons_some r m j r[j] (by simp [hr])]
    cases i with
    | zero => simp [entry, hr]
    | succ i =>
      simp only [List.getElem?_cons_succ]
      rw [ih i h.tail]
      simp [entry]

theorem transposeN_entry (m : List (List α)) (c i j : Nat) (h : Rect m c) (hj : j < c) :
    entry (transposeN m c) j i = entry m i j := by
  simp only [entry, transposeN]
  rw [List.getElem?_map, List.getElem?_range hj]
  simp only [Option.map_some, Option.bind_some]
  exact colOf_getElem? m c j i h hj

theorem entry_none_of_col (m : List (List α)) (c i j : Nat) (h : Rect m c) (hj : c ≤ j) : entry m i j = none := by
  simp only [entry]
  cases hm : m[i]? with
  | none => rfl
  | some r =>
    have : r ∈ m := List.mem_of_getElem? hm
    simp [Option.bind_some, h r this, hj]

/-- two rectangular matrices with the same shape and the same entries are equal -/
theorem ext_entry (a b : List (List α)) (c : Nat) (ha : Rect a c) (hb : Rect b c) (hl : a.length = b.length)
    (h : ∀ i j, i < a.length → j < c → entry a i j = entry b i j) : a = b := by
  apply List.ext_getElem hl
  intro i h1 h2
  have hra : a[i].length = c := ha _ (List.getElem_mem h1)
  have hrb : b[i].length = c := hb _ (List.getElem_mem h2)
  apply List.ext_getElem (by rw [hra, hrb])
  intro j hj1 hj2
  have := h i j h1 (by rw [← hra]; exact hj1)
  simp only [entry, List.getElem?_eq_getElem h1, List.getElem?_eq_getElem h2, Option.bind_some,
    List.getElem?_eq_getElem hj1, List.getElem?_eq_getElem hj2] at this
  exact Option.some.inj this

/-- transposing twice gives the matrix back -/
theorem transposeN_transposeN (m : List (List α)) (c : Nat) (h : Rect m c) :
    transposeN (transposeN m c) m.length = m := by
  apply ext_entry _ _ c
  · exact transposeN_rect _ _ (transposeN_rect m c h) |> fun hh => by
      simpa [transposeN_length] using hh
  · exact h
  · simp [transposeN_length]
  · intro i j hi hj
    rw [transposeN_length] at hi
    rw [transposeN_entry (transposeN m c) m.length j i (transposeN_rect m c h) hi]
    exact transposeN_entry m c i j h hj

theorem colOf_map (f : α → α) (m : List (List α)) (j : Nat) :
    colOf (m.map (·.map f)) j = (colOf m j).map f := by
  induction m with
  | nil => rfl
  | cons r m ih =>
    simp only [List.map_cons, colOf, List.filterMap_cons, List.getElem?_map] at ih ⊢
    cases hr : r[j]? with
    | none => simpa [hr] using ih
    | some x => simpa [hr] using ih

theorem transposeN_map (f : α → α) (m : List (List α)) (n : Nat) :
    transposeN (m.map (·.map f)) n = (transposeN m n).map (·.map f) := by
  simp [transposeN, colOf_map]

/-- a first row in front of a matrix becomes a first column after transposition -/
theorem transposeN_cons (r : List α) (m : List (List α)) (n : Nat) (hr : r.length = n) :
    transposeN (r :: m) n = List.zipWith (· :: ·) r (transposeN m n) := by
  apply List.ext_getElem?
  intro j
  by_cases hj : j < n
  · have hjr : j < r.length := by rw [hr]; exact hj
    simp only [transposeN, List.getElem?_map, List.getElem?_range hj, Option.map_some, List.getElem?_zipWith]
    rw [colOf_cons_some r m j r[j] (by simp [hjr])]
    simp [hjr]
  · have : n ≤ j := Nat.le_of_not_lt hj
    simp [transposeN, this, hr]

theorem zipWith_cons_heads (r : List α) (m : List (List α)) (h : r.length = m.length) :
    (List.zipWith (· :: ·) r m).filterMap (·.head?) = r := by
  induction r generalizing m with
  | nil => simp
  | cons x r ih =>
    cases m with
    | nil => simp at h
    | cons y m => simp [List.zipWith, ih m (by simpa using h)]

theorem zipWith_cons_tails (r : List α) (m : List (List α)) (h : r.length = m.length) :
    (List.zipWith (· :: ·) r m).map (·.tail) = m := by
  induction r generalizing m with
  | nil => cases m with
    | nil => rfl
    | cons y m => simp at h
  | cons x r ih =>
    cases m with
    | nil => simp at h
    | cons y m => simp [List.zipWith, ih m (by simpa using h)]

theorem zipWith_cons_map (f : α → α) (r : List α) (m : List (List α)) :
    (List.zipWith (· :: ·) r m).map (·.map f) = List.zipWith (· :: ·) (r.map f) (m.map (·.map f)) := by
  induction r generalizing m with
  | nil => simp
  | cons x r ih =>
    cases m with
    | nil => simp
    | cons y m => simp [List.zipWith, ih m]

end Glotaran.C17
