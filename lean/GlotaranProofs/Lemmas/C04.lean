/-
C04 — helper lemmas: list sums as `Finset` sums, the loop of `KMatrix.full` as a sum of
per-entry contributions, `reduced` versus `full`, casts.
-/
import GlotaranModel.C04
import Mathlib.Algebra.BigOperators.Intervals
import Mathlib.Algebra.BigOperators.Ring.Finset
import Mathlib.Algebra.Field.Basic
import Mathlib.Tactic.Ring
import Mathlib.Tactic.FieldSimp
namespace Glotaran.C04

variable {F : Type} [Field F]

/-! ### list sums / products over `List.range` -/

theorem sum_map_range {M : Type} [AddCommMonoid M] (n : ℕ) (f : ℕ → M) :
    ((List.range n).map f).sum = ∑ i ∈ Finset.range n, f i := by
  induction n with
  | zero => simp
  | succ n ih =>
    rw [List.range_succ, List.map_append, List.sum_append, ih, Finset.sum_range_succ]
    simp

theorem prod_map_range {M : Type} [CommMonoid M] (n : ℕ) (f : ℕ → M) :
    ((List.range n).map f).prod = ∏ i ∈ Finset.range n, f i := by
  induction n with
  | zero => simp
  | succ n ih =>
    rw [List.range_succ, List.map_append, List.prod_append, ih, Finset.prod_range_succ]
    simp

theorem matMulAt_eq (n : ℕ) (A B : ℕ → ℕ → F) (i j : ℕ) :
    matMulAt n A B i j = ∑ k ∈ Finset.range n, A i k * B k j := by
  simp [matMulAt, sum_map_range]

theorem mulVecAt_eq (n : ℕ) (A : ℕ → ℕ → F) (v : ℕ → F) (i : ℕ) :
    mulVecAt n A v i = ∑ k ∈ Finset.range n, A i k * v k := by
  simp [mulVecAt, sum_map_range]

/-! ### `KMatrix.full` as a sum of contributions -/

theorem fullStep_acc (i j : ℕ) (acc : F) (e : Entry F) :
    fullStep i j acc e = acc + fullStep i j 0 e := by
  simp only [fullStep]
  split_ifs <;> ring

/-- what one dictionary entry contributes to cell `(i, j)` of the full K-matrix -/
theorem fullStep_zero (i j : ℕ) (e : Entry F) :
    fullStep i j 0 e =
      (if i = e.to ∧ j = e.frm ∧ e.to ≠ e.frm then e.val else 0)
        - (if i = e.frm ∧ j = e.frm then e.val else 0) := by
  simp only [fullStep]
  by_cases h : e.to = e.frm
  · simp only [h, if_true, ne_eq, not_true_eq_false, and_false, if_false, zero_sub]
    split_ifs <;> simp
  · by_cases h1 : i = e.to ∧ j = e.frm <;> by_cases h2 : i = e.frm ∧ j = e.frm <;> simp [h, h1, h2]

theorem foldl_fullStep (es : List (Entry F)) (i j : ℕ) (acc : F) :
    es.foldl (fullStep i j) acc = acc + (es.map (fullStep i j 0)).sum := by
  induction es generalizing acc with
  | nil => simp
  | cons e es ih =>
    simp only [List.foldl_cons, List.map_cons, List.sum_cons]
    rw [ih, fullStep_acc]
    ring

theorem fullAt_eq_sum (es : List (Entry F)) (i j : ℕ) :
    fullAt es i j = (es.map (fullStep i j 0)).sum := by
  simp [fullAt, foldl_fullStep]

theorem fullAt_nil (i j : ℕ) : fullAt ([] : List (Entry F)) i j = 0 := rfl

theorem fullAt_cons (e : Entry F) (es : List (Entry F)) (i j : ℕ) :
    fullAt (e :: es) i j = fullStep i j 0 e + fullAt es i j := by
  simp [fullAt_eq_sum]

/-! ### rows and columns of the full matrix -/

theorem sum_fullStep_mul (n i : ℕ) (e : Entry F) (c : ℕ → F) (hf : e.frm < n) :
    ∑ j ∈ Finset.range n, fullStep i j 0 e * c j
      = (if i = e.to ∧ e.to ≠ e.frm then e.val * c e.frm else 0)
        - (if i = e.frm then e.val * c e.frm else 0) := by
  simp only [fullStep_zero, sub_mul, Finset.sum_sub_distrib]
  congr 1
  · by_cases h : i = e.to ∧ e.to ≠ e.frm
    · simp [h, ite_mul, Finset.sum_ite_eq', hf]
    · have : ∀ j, ¬ (i = e.to ∧ j = e.frm ∧ e.to ≠ e.frm) := fun j => by tauto
      simp [this, h]
  · by_cases h : i = e.frm
    · simp [h, ite_mul, Finset.sum_ite_eq', hf]
    · simp [h]

theorem sum_fullStep_col (n j : ℕ) (e : Entry F) (ht : e.to < n) (hf : e.frm < n)
    (hne : e.to ≠ e.frm) : ∑ i ∈ Finset.range n, fullStep i j 0 e = 0 := by
  simp only [fullStep_zero, Finset.sum_sub_distrib]
  by_cases h : j = e.frm
  · have h1 : ∀ i, (i = e.to ∧ j = e.frm ∧ e.to ≠ e.frm) ↔ i = e.to := fun i => by tauto
    have h2 : ∀ i, (i = e.frm ∧ j = e.frm) ↔ i = e.frm := fun i => by tauto
    simp [h1, h2, Finset.sum_ite_eq', ht, hf]
  · have h1 : ∀ i, ¬ (i = e.to ∧ j = e.frm ∧ e.to ≠ e.frm) := fun i => by tauto
    have h2 : ∀ i, ¬ (i = e.frm ∧ j = e.frm) := fun i => by tauto
    simp [h1, h2]

/-- a left inverse recovers a vector from its image -/
theorem left_inverse_recovers (n : ℕ) (W V : ℕ → ℕ → F) (x : ℕ → F)
    (hW : ∀ i < n, ∀ k < n, matMulAt n W V i k = if i = k then 1 else 0) (l : ℕ) (hl : l < n) :
    x l = ∑ i ∈ Finset.range n, W l i * mulVecAt n V x i := by
  simp only [mulVecAt_eq, Finset.mul_sum]
  rw [Finset.sum_comm]
  have : ∀ k ∈ Finset.range n, ∑ i ∈ Finset.range n, W l i * (V i k * x k)
      = (if l = k then 1 else 0) * x k := by
    intro k hk
    rw [← hW l hl k (Finset.mem_range.mp hk), matMulAt_eq, Finset.sum_mul]
    apply Finset.sum_congr rfl
    intro i _
    ring
  rw [Finset.sum_congr rfl this]
  simp [ite_mul, Finset.sum_ite_eq, hl]

/-! ### `InitialConcentration.normalized` -/

/-- sum of the entries of `xs` selected by the Boolean mask -/
def inclSum (xs : List F) (mask : List Bool) : F :=
  (((xs.zip mask).filter (fun p => p.2)).map (fun p => p.1)).sum

theorem inclSum_normalised (l : List (F × Bool)) (s : F) :
    inclSum (l.map fun p => if p.2 then p.1 / s else p.1) (l.map Prod.snd)
      = inclSum (l.map Prod.fst) (l.map Prod.snd) / s := by
  induction l with
  | nil => simp [inclSum]
  | cons x l ih =>
    obtain ⟨a, b⟩ := x
    unfold inclSum at ih ⊢
    cases b
    · simpa using ih
    · simp only [List.map_cons, List.zip_cons_cons, List.filter_cons, if_true, List.sum_cons]
      rw [ih, add_div]

omit [Field F] in
theorem zip_fst_snd (l : List (F × Bool)) : (l.map Prod.fst).zip (l.map Prod.snd) = l := by
  induction l with
  | nil => rfl
  | cons x l ih => simp [ih]

omit [Field F] in
theorem getElem?_map_zip (xs : List F) (m : List Bool) (f : F × Bool → F) (k : ℕ)
    (hx : k < xs.length) (hm : k < m.length) :
    ((xs.zip m).map f)[k]? = some (f (xs[k], m[k])) := by
  have hk : k < (xs.zip m).length := by simp [List.length_zip]; omega
  rw [List.getElem?_map, List.getElem?_eq_getElem hk, List.getElem_zip]
  rfl

end Glotaran.C04
