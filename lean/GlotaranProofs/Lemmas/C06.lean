/-
Helper lemmas for C06: entries of combined labelled matrices by label, permutation invariance of
rational sums, re-ordering of columns by label.
-/
import GlotaranModel.C06
import GlotaranProofs.Lemmas.C02Combine
import GlotaranProofs.Lemmas.LinAlg
namespace Glotaran.C06
open Glotaran.LinAlg Glotaran.C02

/-! ### vectors -/

theorem getD_vadd (x y : Vec) (h : x.length = y.length) (r : Nat) :
    (vadd x y).getD r 0 = x.getD r 0 + y.getD r 0 := by
  simp only [vadd, List.getD_eq_getElem?_getD, List.getElem?_zipWith]
  by_cases hr : r < x.length
  · have hr' : r < y.length := h ▸ hr
    simp [List.getElem?_eq_getElem hr, List.getElem?_eq_getElem hr']
  · have hx : x[r]? = none := List.getElem?_eq_none (Nat.le_of_not_lt hr)
    have hy : y[r]? = none := List.getElem?_eq_none (Nat.le_of_not_lt (h ▸ hr))
    simp [hx, hy]

theorem getD_zeros (n r : Nat) : (zeros n).getD r 0 = 0 := by
  simp only [zeros, List.getD_eq_getElem?_getD]
  by_cases hr : r < n
  · simp [hr]
  · simp [hr]

theorem optGetD_zeros (o : Option Vec) (n r : Nat) : (o.getD (zeros n)).getD r 0 = (o.getD []).getD r 0 := by
  cases o with
  | none =>
    show (zeros n).getD r 0 = ([] : Vec).getD r 0
    rw [getD_zeros]; rfl
  | some v => rfl

theorem getD_map_mul (k : Rat) (v : Vec) (j : Nat) : (v.map (k * ·)).getD j 0 = k * v.getD j 0 := by
  simp only [List.getD_eq_getElem?_getD, List.getElem?_map]
  cases v[j]? with
  | none => simp
  | some x => simp

theorem col_mscale (k : Rat) (m : Mat) (j : Nat) : col (mscale k m) j = vscale k (col m j) := by
  simp only [col, mscale, vscale, List.map_map]
  apply List.map_congr_left
  intro row _
  exact getD_map_mul k row j

theorem colOf_mscale (labels : List String) (k : Rat) (m : Mat) (l : String) :
    colOf labels (mscale k m) l = (colOf labels m l).map (vscale k) := by
  unfold colOf
  cases labels.idxOf? l with
  | none => rfl
  | some j => simp [col_mscale]

/-! ### the 2-D combination, entry by entry -/

theorem colOf_combine2_getD (labels ll lr : List String) (a b : Mat) (hrows : b.length = a.length)
    (l : String) (hmem : l ∈ labels ↔ l ∈ ll ∨ l ∈ lr) (r : Nat) :
    ((colOf labels (combine2 labels ll lr a b) l).getD []).getD r 0 =
      ((colOf ll a l).getD []).getD r 0 + ((colOf lr b l).getD []).getD r 0 := by
  by_cases hl : l ∈ labels
  · rw [colOf_combine2 labels ll lr a b hrows l hl]
    have hx : ((colOf ll a l).getD (zeros a.length)).length = a.length := by
      cases h : colOf ll a l with
      | none => simp [zeros]
      | some v => simpa using colOf_length ll a l v h
    have hy : ((colOf lr b l).getD (zeros a.length)).length = a.length := by
      cases h : colOf lr b l with
      | none => simp [zeros]
      | some v => simpa using (colOf_length lr b l v h).trans hrows
    simp only [Option.getD_some]
    rw [getD_vadd _ _ (hx.trans hy.symm), optGetD_zeros, optGetD_zeros]
  · have h1 : l ∉ ll := fun h => hl (hmem.mpr (Or.inl h))
    have h2 : l ∉ lr := fun h => hl (hmem.mpr (Or.inr h))
    rw [colOf_eq_none_of_not_mem _ _ _ hl, colOf_eq_none_of_not_mem _ _ _ h1,
      colOf_eq_none_of_not_mem _ _ _ h2]
    simp

theorem combine2_length (labels ll lr : List String) (a b : Mat) :
    (combine2 labels ll lr a b).length = a.length := by
  simp only [combine2, fromCols_length]

/-! ### `entry` of the four rank combinations -/

theorem entry_d2 (labels : List String) (m : Mat) (l : String) (i r : Nat) :
    entry ⟨labels, .d2 m⟩ l i r = ((colOf labels m l).getD []).getD r 0 := rfl

theorem entry_d3 (labels : List String) (ms : List Mat) (l : String) (i r : Nat) (m : Mat)
    (h : ms[i]? = some m) :
    entry ⟨labels, .d3 ms⟩ l i r = ((colOf labels m l).getD []).getD r 0 := by
  simp only [entry, bodyColAt, h, Option.bind_some]

theorem shaped_d3_get {ms : List Mat} {nRows nIdx i : Nat} (h : Shaped (.d3 ms) nRows nIdx) (hi : i < nIdx) :
    ∃ m, ms[i]? = some m ∧ m.length = nRows := by
  obtain ⟨hlen, hrows⟩ := h
  have hi' : i < ms.length := hlen ▸ hi
  exact ⟨ms[i], List.getElem?_eq_getElem hi', hrows _ (List.getElem_mem hi')⟩

theorem combine_entry_lem (a b : LMat) (nRows nIdx : Nat) (ha : Shaped a.body nRows nIdx)
    (hb : Shaped b.body nRows nIdx) (l : String) (i r : Nat) (hi : i < nIdx) :
    entry (combine a b) l i r = entry a l i r + entry b l i r := by
  obtain ⟨la, ba⟩ := a
  obtain ⟨lb, bb⟩ := b
  cases ba with
  | d2 ma =>
    cases bb with
    | d2 mb =>
      have hrows : mb.length = ma.length := by
        simp only [Shaped] at ha hb; omega
      simp only [combine, entry_d2]
      exact colOf_combine2_getD _ la lb ma mb hrows l (mem_unionL la lb l) r
    | d3 bs =>
      obtain ⟨m, hm, hmr⟩ := shaped_d3_get hb hi
      have hrows : ma.length = m.length := by
        simp only [Shaped] at ha; omega
      simp only [combine]
      rw [entry_d3 _ _ l i r (combine2 (lb ++ la.filter (fun c => !lb.contains c)) lb la m ma)
        (by simp [List.getElem?_map, hm]), entry_d3 _ _ l i r m hm, entry_d2]
      have h := colOf_combine2_getD (lb ++ la.filter (fun c => !lb.contains c)) lb la m ma hrows l
        (mem_unionL lb la l) r
      rw [h]
      exact Rat.add_comm _ _
  | d3 as =>
    obtain ⟨m, hm, hmr⟩ := shaped_d3_get ha hi
    cases bb with
    | d2 mb =>
      have hrows : mb.length = m.length := by
        simp only [Shaped] at hb; omega
      simp only [combine]
      rw [entry_d3 _ _ l i r (combine2 (la ++ lb.filter (fun c => !la.contains c)) la lb m mb)
        (by simp [List.getElem?_map, hm]), entry_d3 _ _ l i r m hm, entry_d2]
      exact colOf_combine2_getD _ la lb m mb hrows l (mem_unionL la lb l) r
    | d3 bs =>
      obtain ⟨m', hm', hmr'⟩ := shaped_d3_get hb hi
      have hrows : m'.length = m.length := by omega
      simp only [combine]
      rw [entry_d3 _ _ l i r (combine2 (la ++ lb.filter (fun c => !la.contains c)) la lb m m')
        (by simp [List.getElem?_zipWith, hm, hm']), entry_d3 _ _ l i r m hm, entry_d3 _ _ l i r m' hm']
      exact colOf_combine2_getD _ la lb m m' hrows l (mem_unionL la lb l) r

theorem combine_shaped_lem (a b : LMat) (nRows nIdx : Nat) (ha : Shaped a.body nRows nIdx)
    (hb : Shaped b.body nRows nIdx) : Shaped (combine a b).body nRows nIdx := by
  obtain ⟨la, ba⟩ := a
  obtain ⟨lb, bb⟩ := b
  cases ba with
  | d2 ma =>
    cases bb with
    | d2 mb =>
      simp only [combine, Shaped, combine2_length]
      exact ha
    | d3 bs =>
      simp only [combine, Shaped, List.length_map, List.mem_map]
      refine ⟨hb.1, ?_⟩
      rintro m ⟨m0, hm0, rfl⟩
      rw [combine2_length]
      exact hb.2 m0 hm0
  | d3 as =>
    cases bb with
    | d2 mb =>
      simp only [combine, Shaped, List.length_map, List.mem_map]
      refine ⟨ha.1, ?_⟩
      rintro m ⟨m0, hm0, rfl⟩
      rw [combine2_length]
      exact ha.2 m0 hm0
    | d3 bs =>
      simp only [combine, Shaped, List.length_zipWith]
      refine ⟨by rw [ha.1, hb.1]; exact Nat.min_self _, ?_⟩
      intro m hm
      obtain ⟨i, hi, rfl⟩ := List.getElem_of_mem hm
      simp only [List.getElem_zipWith, combine2_length]
      exact ha.2 _ (List.getElem_mem _)

/-! ### scaling -/

theorem scaled_labels (o : McOut) : o.scaled.labels = o.out.labels := by
  unfold McOut.scaled
  cases o.scale <;> rfl

theorem scaled_shaped (o : McOut) (nRows nIdx : Nat) (h : Shaped o.out.body nRows nIdx) :
    Shaped o.scaled.body nRows nIdx := by
  unfold McOut.scaled
  cases o.scale with
  | none => exact h
  | some k =>
    cases hb : o.out.body with
    | d2 m =>
      rw [hb] at h
      simpa [Body.scale, Shaped, mscale] using h
    | d3 ms =>
      rw [hb] at h
      simp only [Body.scale, Shaped, List.length_map, List.mem_map]
      refine ⟨h.1, ?_⟩
      rintro m ⟨m0, hm0, rfl⟩
      simpa [mscale] using h.2 m0 hm0

theorem entry_scale (labels : List String) (b : Body) (k : Rat) (l : String) (i r : Nat) :
    entry ⟨labels, b.scale k⟩ l i r = k * entry ⟨labels, b⟩ l i r := by
  cases b with
  | d2 m =>
    simp only [Body.scale, entry_d2, colOf_mscale]
    cases colOf labels m l with
    | none => simp
    | some v => simpa [vscale] using getD_map_mul k v r
  | d3 ms =>
    simp only [Body.scale, entry, bodyColAt, List.getElem?_map]
    cases ms[i]? with
    | none => simp
    | some m =>
      simp only [Option.map_some, Option.bind_some, colOf_mscale]
      cases colOf labels m l with
      | none => simp
      | some v => simpa [vscale] using getD_map_mul k v r

theorem entry_scaled (o : McOut) (l : String) (i r : Nat) :
    entry o.scaled l i r = factor o * entry o.out l i r := by
  unfold McOut.scaled factor
  cases o.scale with
  | none => simp
  | some k => simpa using entry_scale o.out.labels o.out.body k l i r

/-! ### sums of rationals are permutation invariant -/

theorem rat_sum_perm {l₁ l₂ : List Rat} (h : l₁.Perm l₂) : l₁.sum = l₂.sum := by
  induction h with
  | nil => rfl
  | cons x _ ih => simp only [List.sum_cons, ih]
  | swap x y l => simp only [List.sum_cons]; ring
  | trans _ _ ih1 ih2 => exact ih1.trans ih2

/-! ### the fold of `calculate_dataset_matrix` -/

theorem foldl_combine_entry (nRows nIdx : Nat) (l : String) (i r : Nat) (hi : i < nIdx)
    (rest : List McOut) (acc : LMat) (hacc : Shaped acc.body nRows nIdx)
    (hrest : ∀ o ∈ rest, Shaped o.out.body nRows nIdx) :
    Shaped (rest.foldl (fun acc o => combine acc o.scaled) acc).body nRows nIdx ∧
    entry (rest.foldl (fun acc o => combine acc o.scaled) acc) l i r =
      entry acc l i r + (rest.map (fun o => factor o * entry o.out l i r)).sum := by
  induction rest generalizing acc with
  | nil => simp [hacc]
  | cons o t ih =>
    have ho : Shaped o.scaled.body nRows nIdx := scaled_shaped o nRows nIdx (hrest o (by simp))
    have hacc' := combine_shaped_lem acc o.scaled nRows nIdx hacc ho
    obtain ⟨h1, h2⟩ := ih (combine acc o.scaled) hacc' (fun o' ho' => hrest o' (by simp [ho']))
    refine ⟨h1, ?_⟩
    simp only [List.foldl_cons, List.map_cons, List.sum_cons]
    rw [h2, combine_entry_lem acc o.scaled nRows nIdx hacc ho l i r hi, entry_scaled]
    ring

theorem datasetMatrix_entry_lem (mcs : List McOut) (lm : LMat) (h : datasetMatrix mcs = some lm)
    (nRows nIdx : Nat) (hs : ∀ o ∈ mcs, Shaped o.out.body nRows nIdx) (l : String) (i r : Nat)
    (hi : i < nIdx) :
    Shaped lm.body nRows nIdx ∧
    entry lm l i r = (mcs.map (fun o => factor o * entry o.out l i r)).sum := by
  cases mcs with
  | nil => simp [datasetMatrix] at h
  | cons m rest =>
    simp only [datasetMatrix, Option.some.injEq] at h
    subst h
    have hm : Shaped m.scaled.body nRows nIdx := scaled_shaped m nRows nIdx (hs m (by simp))
    obtain ⟨h1, h2⟩ := foldl_combine_entry nRows nIdx l i r hi rest m.scaled hm
      (fun o ho => hs o (by simp [ho]))
    refine ⟨h1, ?_⟩
    rw [h2, entry_scaled]
    simp only [List.map_cons, List.sum_cons]

/-! ### labels of the fold -/

theorem foldl_combine_labels (rest : List McOut) (acc : LMat) (hacc : acc.labels.Nodup)
    (hrest : ∀ o ∈ rest, o.out.labels.Nodup) :
    (rest.foldl (fun acc o => combine acc o.scaled) acc).labels.Nodup ∧
    ∀ l, l ∈ (rest.foldl (fun acc o => combine acc o.scaled) acc).labels ↔
      l ∈ acc.labels ∨ ∃ o ∈ rest, l ∈ o.out.labels := by
  induction rest generalizing acc with
  | nil => simp [hacc]
  | cons o t ih =>
    have ho : o.scaled.labels.Nodup := by rw [scaled_labels]; exact hrest o (by simp)
    have hn := combine_labels_nodup_lem acc o.scaled hacc ho
    obtain ⟨h1, h2⟩ := ih (combine acc o.scaled) hn (fun o' ho' => hrest o' (by simp [ho']))
    refine ⟨h1, ?_⟩
    intro l
    simp only [List.foldl_cons]
    rw [h2 l, combine_labels_mem_lem, scaled_labels]
    constructor
    · rintro ((h | h) | ⟨o', ho', hl⟩)
      · exact Or.inl h
      · exact Or.inr ⟨o, by simp, h⟩
      · exact Or.inr ⟨o', by simp [ho'], hl⟩
    · rintro (h | ⟨o', ho', hl⟩)
      · exact Or.inl (Or.inl h)
      · rcases List.mem_cons.mp ho' with rfl | ht
        · exact Or.inl (Or.inr hl)
        · exact Or.inr ⟨o', ht, hl⟩

theorem datasetMatrix_labels_lem (mcs : List McOut) (lm : LMat) (h : datasetMatrix mcs = some lm)
    (hn : ∀ o ∈ mcs, o.out.labels.Nodup) :
    lm.labels.Nodup ∧ ∀ l, l ∈ lm.labels ↔ ∃ o ∈ mcs, l ∈ o.out.labels := by
  cases mcs with
  | nil => simp [datasetMatrix] at h
  | cons m rest =>
    simp only [datasetMatrix, Option.some.injEq] at h
    subst h
    have hm : m.scaled.labels.Nodup := by rw [scaled_labels]; exact hn m (by simp)
    obtain ⟨h1, h2⟩ := foldl_combine_labels rest m.scaled hm (fun o ho => hn o (by simp [ho]))
    refine ⟨h1, ?_⟩
    intro l
    rw [h2 l, scaled_labels]
    constructor
    · rintro (h | ⟨o, ho, hl⟩)
      · exact ⟨m, by simp, h⟩
      · exact ⟨o, by simp [ho], hl⟩
    · rintro ⟨o, ho, hl⟩
      rcases List.mem_cons.mp ho with rfl | ht
      · exact Or.inl hl
      · exact Or.inr ⟨o, ht, hl⟩

theorem datasetMatrix_isSome_of_perm {mcs mcs' : List McOut} (hp : mcs'.Perm mcs) (lm : LMat)
    (h : datasetMatrix mcs = some lm) : ∃ lm', datasetMatrix mcs' = some lm' := by
  cases mcs' with
  | nil =>
    have := hp.length_eq
    cases mcs with
    | nil => simp [datasetMatrix] at h
    | cons _ _ => simp at this
  | cons m rest => exact ⟨_, rfl⟩

end Glotaran.C06
