/-
C04 — the K-matrix dictionary: assignment, `combine`, `involved_compartments`.
-/
import GlotaranModel.C04
import Mathlib.Data.List.Nodup
namespace Glotaran.C04

variable {α : Type}

/-- `d.get(k)` -/
def dictGet (d : KDict α) (k : Key) : Option α := (d.find? (fun e => e.1 = k)).map (fun e => e.2)

theorem dictGet_dictSet (d : KDict α) (k k' : Key) (v : α) :
    dictGet (dictSet d k v) k' = if k' = k then some v else dictGet d k' := by
  induction d with
  | nil =>
    by_cases h : k' = k
    · simp [dictSet, dictGet, h]
    · have : ¬ k = k' := fun h' => h h'.symm
      simp [dictSet, dictGet, h, this]
  | cons e d ih =>
    simp only [dictSet]
    by_cases he : e.1 = k
    · rw [if_pos he]
      by_cases h : k' = k
      · simp [dictGet, h, he]
      · have : ¬ e.1 = k' := fun h' => h (h'.symm.trans he)
        simp [dictGet, h, this]
    · rw [if_neg he]
      by_cases h : e.1 = k'
      · have : ¬ k' = k := fun h' => he (h.trans h')
        simp [dictGet, h, this]
      · have := ih
        simp only [dictGet] at this ⊢
        simp [h, this]

theorem keys_dictSet (d : KDict α) (k : Key) (v : α) :
    (dictSet d k v).map Prod.fst = if k ∈ d.map Prod.fst then d.map Prod.fst else d.map Prod.fst ++ [k] := by
  induction d with
  | nil => simp [dictSet]
  | cons e d ih =>
    simp only [dictSet]
    by_cases he : e.1 = k
    · simp [he]
    · rw [if_neg he, List.map_cons, ih]
      have : ¬ k = e.1 := fun h => he h.symm
      by_cases hm : k ∈ d.map Prod.fst
      · simp [hm]
      · simp [hm, this]

theorem nodup_keys_dictSet (d : KDict α) (k : Key) (v : α) (h : (d.map Prod.fst).Nodup) :
    ((dictSet d k v).map Prod.fst).Nodup := by
  rw [keys_dictSet]
  split
  · exact h
  · rename_i hm
    exact List.Nodup.append h (by simp) (by simpa using hm)

/-- lookup in `a.combine(b)`: the later matrix wins (fold over the entries of `b`) -/
theorem dictGet_foldl_dictSet (b a : KDict α) (k : Key) (hb : (b.map Prod.fst).Nodup) :
    dictGet (b.foldl (fun acc e => dictSet acc e.1 e.2) a) k
      = match dictGet b k with
        | some v => some v
        | none => dictGet a k := by
  induction b generalizing a with
  | nil => simp [dictGet]
  | cons e b ih =>
    have hb' : (b.map Prod.fst).Nodup := (List.nodup_cons.mp hb).2
    have hnot : e.1 ∉ b.map Prod.fst := (List.nodup_cons.mp hb).1
    simp only [List.foldl_cons]
    rw [ih (dictSet a e.1 e.2) hb', dictGet_dictSet]
    by_cases hk : e.1 = k
    · have hnone : dictGet b k = none := by
        simp only [dictGet, Option.map_eq_none_iff, List.find?_eq_none]
        intro x hx
        simp only [decide_eq_true_eq]
        intro hxk
        apply hnot
        rw [← hk] at hxk
        exact List.mem_map.mpr ⟨x, hx, hxk⟩
      have : dictGet (e :: b) k = some e.2 := by simp [dictGet, hk]
      rw [hnone, this]
      simp [hk]
    · have hk' : ¬ k = e.1 := fun h => hk h.symm
      have : dictGet (e :: b) k = dictGet b k := by simp [dictGet, hk]
      rw [this, if_neg hk']

theorem nodup_keys_foldl_dictSet (b a : KDict α) (ha : (a.map Prod.fst).Nodup) :
    ((b.foldl (fun acc e => dictSet acc e.1 e.2) a).map Prod.fst).Nodup := by
  induction b generalizing a with
  | nil => exact ha
  | cons e b ih => exact ih _ (nodup_keys_dictSet a e.1 e.2 ha)

/-! ### `involved_compartments` -/

theorem mem_addIfNew (l : List String) (x y : String) : y ∈ addIfNew l x ↔ y ∈ l ∨ y = x := by
  unfold addIfNew
  by_cases h : l.contains x
  · rw [if_pos h]
    have hx : x ∈ l := by simpa using h
    constructor
    · exact Or.inl
    · rintro (h' | rfl)
      · exact h'
      · exact hx
  · rw [if_neg h]; simp

theorem nodup_addIfNew (l : List String) (x : String) (h : l.Nodup) : (addIfNew l x).Nodup := by
  unfold addIfNew
  by_cases hc : l.contains x
  · rw [if_pos hc]; exact h
  · rw [if_neg hc]
    have hx : x ∉ l := by simpa using hc
    exact List.Nodup.append h (by simp) (by simpa using hx)

theorem involved_foldl (m : KDict α) (acc : List String) (c : String) :
    c ∈ m.foldl (fun acc e => addIfNew (addIfNew acc e.1.1) e.1.2) acc
      ↔ c ∈ acc ∨ ∃ e ∈ m, c = e.1.1 ∨ c = e.1.2 := by
  induction m generalizing acc with
  | nil => simp
  | cons e m ih =>
    simp only [List.foldl_cons, ih, mem_addIfNew, List.mem_cons]
    constructor
    · rintro (((h | h) | h) | ⟨e', he', h⟩)
      · exact Or.inl h
      · exact Or.inr ⟨e, Or.inl rfl, Or.inl h⟩
      · exact Or.inr ⟨e, Or.inl rfl, Or.inr h⟩
      · exact Or.inr ⟨e', Or.inr he', h⟩
    · rintro (h | ⟨e', (rfl | he'), h⟩)
      · exact Or.inl (Or.inl (Or.inl h))
      · rcases h with h | h
        · exact Or.inl (Or.inl (Or.inr h))
        · exact Or.inl (Or.inr h)
      · exact Or.inr ⟨e', he', h⟩

theorem involved_nodup_foldl (m : KDict α) (acc : List String) (h : acc.Nodup) :
    (m.foldl (fun acc e => addIfNew (addIfNew acc e.1.1) e.1.2) acc).Nodup := by
  induction m generalizing acc with
  | nil => exact h
  | cons e m ih => exact ih _ (nodup_addIfNew _ _ (nodup_addIfNew _ _ h))

end Glotaran.C04
