/-
C04 — matrix-exponential lemmas (Mathlib `Matrix`, `NormedSpace.exp`): intertwining relations pass
through the exponential, hence (i) an eigen-decomposition `K V = V diag λ`, `V g = j` gives
`exp(tK) j = Σ_l V[:,l] g_l e^{λ_l t}` — no invertibility of `V` is needed —, (ii) `1ᵀ K = 0`
conserves the total population, (iii) the exponential of a diagonal system.
-/
import Mathlib.Analysis.Normed.Algebra.MatrixExponential
import Mathlib.Analysis.SpecialFunctions.Exponential
namespace Glotaran.C04

open Matrix NormedSpace

variable {m : Type} [Fintype m] [DecidableEq m]

/-- `K V = V D` implies `exp(K) V = V exp(D)` -/
theorem exp_intertwine (K V D : Matrix m m ℝ) (h : K * V = V * D) :
    NormedSpace.exp K * V = V * NormedSpace.exp D := by
  open scoped Matrix.Norms.Operator in
  exact ((SemiconjBy.exp_right (𝔸 := Matrix m m ℝ) (x := V) (a := D) (b := K) h.symm).eq).symm

theorem matrix_general_solves (K V : Matrix m m ℝ) (lam g j : m → ℝ)
    (hKV : K * V = V * diagonal lam) (hg : V *ᵥ g = j) (t : ℝ) (c : m) :
    (NormedSpace.exp (t • K) *ᵥ j) c = ∑ l, (V c l * g l) * Real.exp (lam l * t) := by
  have h1 : (t • K) * V = V * diagonal (fun l => t * lam l) := by
    rw [smul_mul_assoc, hKV, ← mul_smul_comm]
    congr 1
    ext a b
    simp [diagonal, Matrix.smul_apply]
  have h2 := exp_intertwine _ _ _ h1
  rw [Matrix.exp_diagonal] at h2
  rw [← hg, Matrix.mulVec_mulVec, h2]
  simp only [Matrix.mulVec, dotProduct, Matrix.mul_apply, diagonal_apply, Pi.coe_exp]
  apply Finset.sum_congr rfl
  intro l _
  rw [Finset.sum_eq_single l]
  · have hc : lam l * t = t * lam l := mul_comm _ _
    simp only [Real.exp_eq_exp_ℝ, hc, if_true]
    ring
  · intro b _ hb
    simp [hb]
  · intro h; exact absurd (Finset.mem_univ l) h

/-- no loss channel (`1ᵀ K = 0`): the total population is constant -/
theorem matrix_population_conserved (K : Matrix m m ℝ) (h : ∀ j, ∑ i, K i j = 0) (v : m → ℝ)
    (t : ℝ) : ∑ c, (NormedSpace.exp (t • K) *ᵥ v) c = ∑ c, v c := by
  let J : Matrix m m ℝ := Matrix.of fun _ _ => 1
  have hJK : (t • K) * J * 0 = 0 := by simp
  have h0 : J * (t • K) = 0 * J := by
    ext a b
    simp [J, Matrix.mul_apply, Matrix.smul_apply, ← Finset.mul_sum, h]
  have h1 : J * NormedSpace.exp (t • K) = J := by
    have := exp_intertwine (0 : Matrix m m ℝ) J (t • K) (by rw [h0])
    rw [NormedSpace.exp_zero, one_mul] at this
    exact this.symm
  rcases isEmpty_or_nonempty m with hm | ⟨⟨a⟩⟩
  · simp
  · have h2 := congrFun (congrArg (fun M => M *ᵥ v) h1) a
    simp only [← Matrix.mulVec_mulVec] at h2
    simpa [J, Matrix.mulVec, dotProduct] using h2

/-- a diagonal system decays compartment by compartment -/
theorem matrix_exp_diagonal_mulVec (d v : m → ℝ) (t : ℝ) (c : m) :
    (NormedSpace.exp (t • diagonal d) *ᵥ v) c = v c * Real.exp (d c * t) := by
  have h := matrix_general_solves (t := t) (diagonal d) (1 : Matrix m m ℝ) d v v (by simp) (by simp) c
  rw [h, Finset.sum_eq_single c]
  · simp
  · intro b _ hb; simp [Ne.symm hb]
  · intro h; exact absurd (Finset.mem_univ c) h

end Glotaran.C04
