/-
C14 — full models: data simulated with `simulate_full_model` lie in the range of the Kronecker
matrix the fit uses; the coefficient vector is the label pairing (1 where the global clp label equals
the model clp label, 0 elsewhere).
-/
import GlotaranProofs.Lemmas.C14Fit
namespace Glotaran.C14
open Glotaran.LinAlg Glotaran.C02

theorem dot_append (a b c d : Vec) (h : a.length = c.length) :
    dot (a ++ b) (c ++ d) = dot a c + dot b d := by
  induction a generalizing c with
  | nil =>
    cases c with
    | nil => simp
    | cons _ _ => simp at h
  | cons x a ih =>
    cases c with
    | nil => simp at h
    | cons y c =>
      simp only [List.cons_append, dot_cons]
      rw [ih c (by simpa using h)]; ring

theorem dot_zero_right (r v : Vec) (h : ∀ x ∈ v, x = 0) : dot r v = 0 := by
  rw [dot_comm]; exact dot_zero_left v r h

/-- the coefficient vector of a full-model simulation in the Kronecker basis (global-label major) -/
def pairing (gl ml : List String) : Vec :=
  gl.flatMap (fun a => ml.map (fun l => if a = l then (1 : Rat) else 0))

theorem pairing_nonneg (gl ml : List String) : ∀ x ∈ pairing gl ml, 0 ≤ x := by
  intro x hx
  simp only [pairing, List.mem_flatMap, List.mem_map] at hx
  obtain ⟨a, _, l, _, rfl⟩ := hx
  split <;> simp

theorem pairing_length (gl ml : List String) : (pairing gl ml).length = gl.length * ml.length := by
  induction gl with
  | nil => simp [pairing]
  | cons a gl ih =>
    simp only [pairing, List.flatMap_cons, List.length_append, List.length_map, List.length_cons] at ih ⊢
    rw [ih]; ring

/-- one block of the Kronecker row against one block of the pairing vector -/
theorem dot_block (gv : Rat) (a : String) (r : Vec) (ml : List String) (h' : String → Rat)
    (hz : ∀ l, a = l → h' l = 0) :
    dot (r.map (gv * ·)) (ml.map (fun l => if a = l then (1 : Rat) else 0)) + dot r (ml.map h') =
      dot r (ml.map (fun l => if a = l then gv else h' l)) := by
  induction ml generalizing r with
  | nil => simp
  | cons l ml ih =>
    cases r with
    | nil => simp
    | cons x r =>
      simp only [List.map_cons, dot_cons]
      have := ih r
      by_cases hal : a = l
      · have hz' := hz l hal
        rw [if_pos hal, if_pos hal, ← this]
        rw [hz']; ring
      · rw [if_neg hal, if_neg hal, ← this]; ring

theorem idxOf_cons_eq (a l : String) (gl : List String) :
    (a :: gl).idxOf l = if a = l then 0 else gl.idxOf l + 1 := by
  simp only [List.idxOf_cons]
  by_cases h : a = l
  · simp [h]
  · have : (a == l) = false := by simpa using h
    simp [h, this]

/-- **a Kronecker row against the pairing vector is the model row against the global row looked up by
    label** -/
theorem dot_kron_pairing (g r : Vec) (gl ml : List String) (hg : g.length = gl.length)
    (hr : r.length = ml.length) (hnd : gl.Nodup) :
    dot (g.flatMap (fun gv => r.map (gv * ·))) (pairing gl ml) =
      dot r (ml.map (fun l => g.getD (gl.idxOf l) 0)) := by
  induction gl generalizing g with
  | nil =>
    have : g = [] := List.length_eq_zero_iff.mp (by simpa using hg)
    subst this
    simp only [List.flatMap_nil, pairing, dot_nil_left]
    symm
    apply dot_zero_right
    intro x hx
    simp only [List.mem_map] at hx
    obtain ⟨l, _, rfl⟩ := hx
    simp
  | cons a gl ih =>
    cases g with
    | nil => simp at hg
    | cons gv g =>
      have hg' : g.length = gl.length := by simpa using hg
      have hnd' : gl.Nodup := (List.nodup_cons.mp hnd).2
      have ha : a ∉ gl := (List.nodup_cons.mp hnd).1
      simp only [List.flatMap_cons, pairing]
      rw [dot_append _ _ _ _ (by simp [hr])]
      have hih := ih g hg' hnd'
      simp only [pairing] at hih
      rw [hih]
      have hb := dot_block gv a r ml (fun l => g.getD (gl.idxOf l) 0) (by
        intro l hl
        subst hl
        have : gl.idxOf a = gl.length := List.idxOf_eq_length_iff.mpr ha
        simp [List.getD_eq_getElem?_getD, this, ← hg'])
      rw [hb]
      congr 1
      apply List.map_congr_left
      intro l _
      rw [idxOf_cons_eq]
      by_cases hal : a = l
      · simp [hal]
      · simp [hal]

theorem kronRow_mulVec (grow : Vec) (m : Mat) (gl ml : List String) (hg : grow.length = gl.length)
    (hm : ∀ r ∈ m, r.length = ml.length) (hnd : gl.Nodup) :
    mulVec (kronRow grow m) (pairing gl ml) =
      mulVec m (ml.map (fun l => grow.getD (gl.idxOf l) 0)) := by
  simp only [mulVec, kronRow, List.map_map]
  apply List.map_congr_left
  intro r hr
  exact dot_kron_pairing grow r gl ml hg (hm r hr) hnd

theorem kronRow_width (grow : Vec) (m : Mat) (k n : Nat) (hg : grow.length = k)
    (hm : ∀ r ∈ m, r.length = n) : ∀ r ∈ kronRow grow m, r.length = k * n := by
  intro r hr
  simp only [kronRow, List.mem_map] at hr
  obtain ⟨r', hr', rfl⟩ := hr
  have hn := hm r' hr'
  clear hr'
  subst hg
  induction grow with
  | nil => simp
  | cons x grow ih =>
    simp only [List.flatMap_cons, List.length_append, List.length_map, List.length_cons] at ih ⊢
    rw [ih, hn]; ring

theorem range_flatMap_getD {α} (l : List (List Rat)) (F : List Rat → List α) :
    (List.range l.length).flatMap (fun i => F (l.getD i [])) = l.flatMap F := by
  induction l with
  | nil => simp
  | cons x l ih =>
    rw [List.length_cons, List.range_succ_eq_map, List.flatMap_cons, List.flatMap_map]
    simp only [List.getD_cons_zero, List.flatMap_cons]
    congr 1

theorem zipWith_mul_flatMap {α} (l : List α) (f g : α → Vec) (h : ∀ x ∈ l, (f x).length = (g x).length) :
    List.zipWith (· * ·) (l.flatMap f) (l.flatMap g) =
      l.flatMap (fun x => List.zipWith (· * ·) (f x) (g x)) := by
  induction l with
  | nil => simp
  | cons a l ih =>
    simp only [List.flatMap_cons]
    rw [List.zipWith_append (h a List.mem_cons_self), ih (fun x hx => h x (List.mem_cons_of_mem _ hx))]

/-- a full-model simulated dataset (index-independent model matrix; a weight, if any, has one row per
    model-axis point) -/
structure SimFullOK (sd : SimDataset) (lm gm : LMat) (m g : Mat) : Prop where
  hasGlobal : sd.inp.gmcs ≠ []
  weightShape : ∀ w, sd.weight = some w → w.length = sd.inp.nModel
  matrix : datasetMatrix sd.inp.mcs = some lm
  gmatrix : datasetMatrix sd.inp.gmcs = some gm
  body : lm.body = .d2 m
  gbody : gm.body = .d2 g
  axis : sd.inp.nGlobal = sd.globalAxis.length
  gRows : g.length = sd.inp.nGlobal
  gWidth : ∀ r ∈ g, r.length = gm.labels.length
  mRows : m.length = sd.inp.nModel
  mWidth : ∀ r ∈ m, r.length = lm.labels.length
  glabels : gm.labels.Nodup
  covered : ∀ l ∈ lm.labels, l ∈ gm.labels

theorem sliceM_d2 (lm : LMat) (m : Mat) (hb : lm.body = .d2 m) (nGlobal i : Nat) (hi : i < nGlobal) :
    sliceM lm nGlobal i = m := by
  simp [sliceM, slices, hb, List.getD_eq_getElem?_getD, List.getElem?_replicate_of_lt hi]

/-- the simulated data of a full model -/
theorem fullModel_data (sd : SimDataset) (lm gm : LMat) (m g : Mat) (ok : SimFullOK sd lm gm m g)
    (data : Mat) (hsim : noiseless sd.inp = .ok data) :
    data = C03.ofColumns sd.inp.nModel (simCols lm sd.inp.nGlobal gm.labels g) := by
  unfold noiseless at hsim
  have hne : sd.inp.gmcs.isEmpty = false := by
    cases hgm : sd.inp.gmcs with
    | nil => exact absurd hgm ok.hasGlobal
    | cons _ _ => rfl
  simp only [hne, Bool.not_false, if_true, simulateFullModel, ok.gmatrix, globalClpTable, ok.gbody,
    simulateFromClp, ok.matrix] at hsim
  split at hsim
  · cases hsim
  · rename_i cols hc
    cases hsim
    rw [(simulateColumns_ok lm _ gm.labels g cols hc).1]

/-- **the unweighted flattened simulated data are the Kronecker matrix applied to the label pairing** -/
theorem fullModel_consistent_raw (sd : SimDataset) (lm gm : LMat) (m g : Mat) (ok : SimFullOK sd lm gm m g)
    (data : Mat) (hsim : noiseless sd.inp = .ok data) :
    (List.range sd.inp.nGlobal).flatMap (fun i => col data i) =
      mulVec (g.flatMap (fun grow => kronRow grow m)) (pairing gm.labels lm.labels) := by
  have hdata := fullModel_data sd lm gm m g ok data hsim
  have hrhs : mulVec (g.flatMap (fun grow => kronRow grow m)) (pairing gm.labels lm.labels) =
      g.flatMap (fun grow => mulVec m (lm.labels.map (fun l => grow.getD (gm.labels.idxOf l) 0))) := by
    simp only [mulVec, List.map_flatMap]
    apply List.flatMap_congr
    intro grow hgrow
    have := kronRow_mulVec grow m gm.labels lm.labels (ok.gWidth grow hgrow) ok.mWidth ok.glabels
    simpa [mulVec] using this
  rw [hrhs, ← ok.gRows, ← range_flatMap_getD g]
  apply List.flatMap_congr
  intro i hi
  have hi' : i < sd.inp.nGlobal := by rw [← ok.gRows]; simpa using hi
  have hlen : i < (simCols lm sd.inp.nGlobal gm.labels g).length := by simpa [simCols] using hi'
  rw [hdata, col_ofColumns _ _ i hlen (by
    rw [simCols_getElem _ _ _ _ _ hi', mulVec_length, sliceM_d2 lm m ok.body _ _ hi']; exact ok.mRows)]
  rw [simCols_getElem _ _ _ _ _ hi', sliceM_d2 lm m ok.body _ _ hi']
  rfl

/-- **the flattened (weighted) simulated data are the (weighted) Kronecker matrix applied to the label
    pairing** -/
theorem fullModel_consistent (sd : SimDataset) (lm gm : LMat) (m g : Mat) (ok : SimFullOK sd lm gm m g)
    (data : Mat) (hsim : noiseless sd.inp = .ok data) (full : Mat) (flat : Vec)
    (h : fullModelProblem (sd.toDataset data) = some (full, flat)) :
    flat = mulVec full (pairing gm.labels lm.labels) ∧
    ∀ r ∈ full, r.length = gm.labels.length * lm.labels.length := by
  have hraw := fullModel_consistent_raw sd lm gm m g ok data hsim
  have hdl : data.length = sd.inp.nModel := by
    rw [fullModel_data sd lm gm m g ok data hsim]; exact C03.ofColumns_length _ _
  have hng : (sd.toDataset data).nGlobal = sd.inp.nGlobal := by
    simp [Dataset.nGlobal, SimDataset.toDataset, ok.axis]
  have hwidth : ∀ r ∈ g.flatMap (fun grow => kronRow grow m), r.length = gm.labels.length * lm.labels.length := by
    intro r hr
    simp only [List.mem_flatMap] at hr
    obtain ⟨grow, hgrow, hr⟩ := hr
    exact kronRow_width grow m _ _ (ok.gWidth grow hgrow) ok.mWidth r hr
  unfold fullModelProblem at h
  have hm1 : datasetMatrix (sd.toDataset data).mcs = some lm := ok.matrix
  have hm2 : datasetMatrix (sd.toDataset data).gmcs = some gm := ok.gmatrix
  have hwt : (sd.toDataset data).weight = sd.weight := rfl
  have hd : (sd.toDataset data).data = data := rfl
  simp only [hm1, hm2, ok.body, ok.gbody, hwt, hng, Option.some.injEq, Prod.mk.injEq, Dataset.weightedData, hd] at h
  obtain ⟨hfull, hflat⟩ := h
  subst hfull
  subst hflat
  cases hw : sd.weight with
  | none => exact ⟨hraw, hwidth⟩
  | some w =>
    simp only
    refine ⟨?_, rows_weightRows_width _ _ _ hwidth⟩
    rw [mulVec_weightRows, ← hraw, zipWith_mul_flatMap _ _ _ (by
      intro i _
      rw [Length.len_col, Length.len_col, hdl, ok.weightShape w hw])]
    apply List.flatMap_congr
    intro i _
    exact col_hadamard data w i

/-- **a full-model simulated dataset contributes a zero residual block** (VP and NNLS — the pairing
    vector is non-negative) -/
theorem unlinkedDataset_full (sd : SimDataset) (lm gm : LMat) (m g : Mat) (ok : SimFullOK sd lm gm m g)
    (data : Mat) (hsim : noiseless sd.inp = .ok data) (sv : Solver) (res pens : Vec)
    (h : unlinkedDataset {} sv (sd.toDataset data) = some (res, pens)) :
    (∀ x ∈ res, x = 0) ∧ pens = [] := by
  unfold unlinkedDataset at h
  have hne : (sd.toDataset data).gmcs.isEmpty = false := by
    have : (sd.toDataset data).gmcs = sd.inp.gmcs := rfl
    rw [this]
    cases hgm : sd.inp.gmcs with
    | nil => exact absurd hgm ok.hasGlobal
    | cons _ _ => rfl
  simp only [hne, Bool.not_false, if_true] at h
  split at h
  · rename_i a y hfm
    obtain ⟨hflat, hwidth⟩ := fullModel_consistent sd lm gm m g ok data hsim a y hfm
    cases hs : solveLS sv a y with
    | none => simp [hs] at h
    | some cr =>
      simp only [hs, Option.map_some, Option.some.injEq, Prod.mk.injEq] at h
      obtain ⟨hres, hpens⟩ := h
      refine ⟨?_, hpens.symm⟩
      rw [← hres]
      rw [hflat] at hs
      exact (consistent_problem sv a _ hwidth (pairing gm.labels lm.labels) (pairing_length _ _)
        (fun _ => pairing_nonneg _ _) cr.1 cr.2 hs).1
  · cases h

end Glotaran.C14
