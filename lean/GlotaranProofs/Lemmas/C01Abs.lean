/-
C01 — linear least squares over an ordered commutative ring / field `K` (ℚ, ℝ, …) with Mathlib's
`Matrix`, `mulVec`, `dotProduct`.  Abstract statements; `Lemmas/C01.lean` transports them to the
executable list definitions of `GlotaranModel`.
-/
import Mathlib.Data.Matrix.Mul
import Mathlib.LinearAlgebra.Matrix.DotProduct
import Mathlib.Tactic.Ring
import Mathlib.Tactic.Linarith
import Mathlib.Tactic.FieldSimp
import Mathlib.Tactic.Abel
import Mathlib.Algebra.Order.Field.Basic
import Mathlib.Tactic.Positivity
namespace Glotaran.C01.Abs
open Matrix

section Ring
variable {m n : Type*} [Fintype m] [Fintype n]
variable {K : Type*} [CommRing K]

/-- squared Euclidean norm -/
def nsq (v : m → K) : K := v ⬝ᵥ v

/-- the gradient direction `Aᵀ (y − A c)` -/
def grad (A : Matrix m n K) (y : m → K) (c : n → K) : n → K := Aᵀ *ᵥ (y - A *ᵥ c)

theorem dot_grad (A : Matrix m n K) (y : m → K) (c d : n → K) :
    d ⬝ᵥ grad A y c = (A *ᵥ d) ⬝ᵥ (y - A *ᵥ c) := by
  unfold grad
  rw [mulVec_transpose, dotProduct_comm d, ← dotProduct_mulVec, dotProduct_comm]

theorem nsq_sub (r w : m → K) : nsq (r - w) = nsq r - 2 * (w ⬝ᵥ r) + nsq w := by
  unfold nsq
  simp only [sub_dotProduct, dotProduct_sub]
  rw [dotProduct_comm r w]
  ring

/-- `‖y − A c'‖² = ‖y − A c‖² − 2 (c' − c)·Aᵀ(y − A c) + ‖A (c' − c)‖²` -/
theorem nsq_expand (A : Matrix m n K) (y : m → K) (c c' : n → K) :
    nsq (y - A *ᵥ c') = nsq (y - A *ᵥ c) - 2 * ((c' - c) ⬝ᵥ grad A y c) + nsq (A *ᵥ (c' - c)) := by
  rw [dot_grad]
  have h : y - A *ᵥ c' = (y - A *ᵥ c) - A *ᵥ (c' - c) := by
    rw [mulVec_sub]; abel
  rw [h, nsq_sub]

end Ring

section Ordered
variable {m n : Type*} [Fintype m] [Fintype n]
variable {K : Type*} [CommRing K] [LinearOrder K] [IsStrictOrderedRing K]

theorem nsq_nonneg (v : m → K) : 0 ≤ nsq v :=
  Finset.sum_nonneg (fun i _ => mul_self_nonneg (v i))

theorem nsq_eq_zero {v : m → K} : nsq v = 0 ↔ v = 0 := dotProduct_self_eq_zero

/-- quantitative form: the sub-optimality of `c` against any `c'` is bounded by the gradient term -/
theorem near_optimal (A : Matrix m n K) (y : m → K) (c c' : n → K) :
    nsq (y - A *ᵥ c) ≤ nsq (y - A *ᵥ c') + 2 * ((c' - c) ⬝ᵥ grad A y c) := by
  have h := nsq_expand A y c c'
  have h2 := nsq_nonneg (A *ᵥ (c' - c))
  linarith

/-- orthogonality of the residual to every column ⇒ optimal against every competitor -/
theorem ls_optimal_of_orthogonal (A : Matrix m n K) (y : m → K) (c : n → K)
    (h : grad A y c = 0) (c' : n → K) : nsq (y - A *ᵥ c) ≤ nsq (y - A *ᵥ c') := by
  have := near_optimal A y c c'
  rw [h, dotProduct_zero] at this
  linarith

/-- with full column rank every other coefficient vector is strictly worse -/
theorem ls_strict_of_injective (A : Matrix m n K) (y : m → K) (c : n → K)
    (h : grad A y c = 0) (hinj : ∀ d : n → K, A *ᵥ d = 0 → d = 0) (c' : n → K) (hne : c' ≠ c) :
    nsq (y - A *ᵥ c) < nsq (y - A *ᵥ c') := by
  have h1 := nsq_expand A y c c'
  rw [h, dotProduct_zero] at h1
  have h2 : 0 < nsq (A *ᵥ (c' - c)) := by
    rcases (nsq_nonneg (A *ᵥ (c' - c))).lt_or_eq with h3 | h3
    · exact h3
    · exfalso
      have := hinj _ (nsq_eq_zero.mp h3.symm)
      exact hne (sub_eq_zero.mp this)
  linarith

/-- KKT ⇒ optimal against every non-negative competitor -/
theorem nnls_optimal_of_kkt (A : Matrix m n K) (y : m → K) (c : n → K)
    (hg : ∀ j, grad A y c j ≤ 0) (hcomp : c ⬝ᵥ grad A y c = 0)
    (c' : n → K) (hc' : ∀ j, 0 ≤ c' j) : nsq (y - A *ᵥ c) ≤ nsq (y - A *ᵥ c') := by
  have h := near_optimal A y c c'
  rw [sub_dotProduct, hcomp] at h
  have : c' ⬝ᵥ grad A y c ≤ 0 :=
    Finset.sum_nonpos (fun j _ => mul_nonpos_of_nonneg_of_nonpos (hc' j) (hg j))
  linarith

/-- KKT + full column rank ⇒ every other non-negative vector is strictly worse -/
theorem nnls_strict_of_kkt (A : Matrix m n K) (y : m → K) (c : n → K)
    (hg : ∀ j, grad A y c j ≤ 0) (hcomp : c ⬝ᵥ grad A y c = 0)
    (hinj : ∀ d : n → K, A *ᵥ d = 0 → d = 0)
    (c' : n → K) (hc' : ∀ j, 0 ≤ c' j) (hne : c' ≠ c) :
    nsq (y - A *ᵥ c) < nsq (y - A *ᵥ c') := by
  have h1 := nsq_expand A y c c'
  rw [sub_dotProduct, hcomp] at h1
  have h3 : c' ⬝ᵥ grad A y c ≤ 0 :=
    Finset.sum_nonpos (fun j _ => mul_nonpos_of_nonneg_of_nonpos (hc' j) (hg j))
  have h2 : 0 < nsq (A *ᵥ (c' - c)) := by
    rcases (nsq_nonneg (A *ᵥ (c' - c))).lt_or_eq with h4 | h4
    · exact h4
    · exfalso
      have := hinj _ (nsq_eq_zero.mp h4.symm)
      exact hne (sub_eq_zero.mp this)
  linarith

/-- two solutions of the normal equations coincide at full column rank -/
theorem ls_normal_unique (A : Matrix m n K) (y : m → K) (c c' : n → K)
    (h : grad A y c = 0) (h' : grad A y c' = 0) (hinj : ∀ d : n → K, A *ᵥ d = 0 → d = 0) : c' = c := by
  by_contra hne
  have h1 := ls_strict_of_injective A y c h hinj c' hne
  have h2 := ls_optimal_of_orthogonal A y c' h' c
  linarith

/-- two KKT points coincide at full column rank -/
theorem nnls_kkt_unique (A : Matrix m n K) (y : m → K) (c c' : n → K)
    (hc : ∀ j, 0 ≤ c j) (hg : ∀ j, grad A y c j ≤ 0) (hcomp : c ⬝ᵥ grad A y c = 0)
    (hc' : ∀ j, 0 ≤ c' j) (hg' : ∀ j, grad A y c' j ≤ 0) (hcomp' : c' ⬝ᵥ grad A y c' = 0)
    (hinj : ∀ d : n → K, A *ᵥ d = 0 → d = 0) : c' = c := by
  by_contra hne
  have h1 := nnls_strict_of_kkt A y c hg hcomp hinj c' hc' hne
  have h2 := nnls_optimal_of_kkt A y c' hg' hcomp' c hc
  linarith

end Ordered

section Field
variable {m n : Type*} [Fintype m] [Fintype n]
variable {K : Type*} [Field K] [LinearOrder K] [IsStrictOrderedRing K]

/-- a quadratic `t ↦ -2 t g + t² s` (s ≥ 0) that is ≥ 0 at `t = g / (s + 1)` forces `g = 0`… here in
    the one-sided form used below: if `0 < g` then the value at `t = g/(s+1)` is negative -/
theorem quad_neg {g s : K} (hs : 0 ≤ s) (hg : 0 < g) :
    -2 * (g / (s + 1)) * g + (g / (s + 1)) ^ 2 * s < 0 := by
  have hs1 : 0 < s + 1 := by linarith
  have e : -2 * (g / (s + 1)) * g + (g / (s + 1)) ^ 2 * s = -(g ^ 2 * (s + 2)) / (s + 1) ^ 2 := by
    field_simp
    ring
  rw [e]
  apply div_neg_of_neg_of_pos
  · have : 0 < g ^ 2 * (s + 2) := by positivity
    linarith
  · positivity

/-- optimal against every competitor ⇒ the residual is orthogonal to every column -/
theorem ls_orthogonal_of_optimal (A : Matrix m n K) (y : m → K) (c : n → K)
    (h : ∀ c', nsq (y - A *ᵥ c) ≤ nsq (y - A *ᵥ c')) : grad A y c = 0 := by
  set g := grad A y c with hgdef
  by_contra hne
  have hgg : 0 < g ⬝ᵥ g := by
    rcases (nsq_nonneg g).lt_or_eq with h3 | h3
    · exact h3
    · exact absurd (nsq_eq_zero.mp h3.symm) hne
  set s := nsq (A *ᵥ g) with hsdef
  have hs : 0 ≤ s := nsq_nonneg _
  set t := (g ⬝ᵥ g) / (s + 1) with htdef
  have h1 := nsq_expand A y c (c + t • g)
  have h2 := h (c + t • g)
  have e1 : c + t • g - c = t • g := by abel
  rw [e1, ← hgdef, smul_dotProduct, mulVec_smul] at h1
  have e2 : nsq (t • A *ᵥ g) = t ^ 2 * s := by
    unfold nsq
    rw [smul_dotProduct, dotProduct_smul, hsdef]
    unfold nsq
    simp only [smul_eq_mul]
    ring
  rw [e2] at h1
  have h3 := quad_neg hs hgg
  rw [← htdef] at h3
  simp only [smul_eq_mul] at h1
  nlinarith

/-- moving along coordinate `j` by `t` (staying feasible) cannot decrease the objective -/
theorem coord_step [DecidableEq n] (A : Matrix m n K) (y : m → K) (c : n → K)
    (hc : ∀ j, 0 ≤ c j)
    (h : ∀ c' : n → K, (∀ j, 0 ≤ c' j) → nsq (y - A *ᵥ c) ≤ nsq (y - A *ᵥ c'))
    (j : n) (t : K) (ht : 0 ≤ c j + t) :
    0 ≤ -2 * t * grad A y c j + t ^ 2 * nsq (A *ᵥ (Pi.single j (1 : K))) := by
  set e : n → K := Pi.single j 1 with hedef
  have hfeas : ∀ k, 0 ≤ (c + t • e) k := by
    intro k
    by_cases hk : k = j
    · subst hk; simp [hedef, ht]
    · simp [hedef, Pi.single_eq_of_ne hk, hc k]
  have h2 := h _ hfeas
  have h1 := nsq_expand A y c (c + t • e)
  have e1 : c + t • e - c = t • e := by abel
  rw [e1, smul_dotProduct, mulVec_smul, hedef, single_one_dotProduct, ← hedef] at h1
  have e2 : nsq (t • A *ᵥ e) = t ^ 2 * nsq (A *ᵥ e) := by
    unfold nsq
    rw [smul_dotProduct, dotProduct_smul]
    simp only [smul_eq_mul]
    ring
  rw [e2] at h1
  simp only [smul_eq_mul] at h1
  linarith

/-- optimal among the non-negative vectors ⇒ Karush–Kuhn–Tucker conditions -/
theorem nnls_kkt_of_optimal [DecidableEq n] (A : Matrix m n K) (y : m → K) (c : n → K)
    (hc : ∀ j, 0 ≤ c j)
    (h : ∀ c' : n → K, (∀ j, 0 ≤ c' j) → nsq (y - A *ᵥ c) ≤ nsq (y - A *ᵥ c')) :
    (∀ j, grad A y c j ≤ 0) ∧ c ⬝ᵥ grad A y c = 0 := by
  have hg : ∀ j, grad A y c j ≤ 0 := by
    intro j
    by_contra hpos
    have hpos : 0 < grad A y c j := lt_of_not_ge hpos
    have hs := nsq_nonneg (A *ᵥ (Pi.single j (1 : K)))
    have ht : 0 ≤ c j + grad A y c j / (nsq (A *ᵥ (Pi.single j (1 : K))) + 1) := by
      have : 0 ≤ grad A y c j / (nsq (A *ᵥ (Pi.single j (1 : K))) + 1) := by positivity
      linarith [hc j]
    have h1 := coord_step A y c hc h j _ ht
    have h2 := quad_neg hs hpos
    linarith
  refine ⟨hg, ?_⟩
  apply Finset.sum_eq_zero
  intro j _
  by_contra hne
  have hcj : 0 < c j := by
    rcases (hc j).lt_or_eq with h3 | h3
    · exact h3
    · exfalso; apply hne; rw [← h3]; ring
  have hgj : grad A y c j < 0 := by
    rcases (hg j).lt_or_eq with h3 | h3
    · exact h3
    · exfalso; apply hne; rw [h3]; ring
  set g := grad A y c j with hgdef
  set s := nsq (A *ᵥ (Pi.single j (1 : K))) with hsdef
  have hs : 0 ≤ s := nsq_nonneg _
  have hs1 : 0 < s + 1 := by linarith
  set u := (-g) / (s + 1) with hudef
  have hu : 0 < u := div_pos (by linarith) hs1
  have hus : u * (s + 1) = -g := by rw [hudef]; field_simp
  set τ := min (c j) u with hτdef
  have hτ : 0 < τ := lt_min hcj hu
  have hτc : τ ≤ c j := min_le_left _ _
  have hτu : τ ≤ u := min_le_right _ _
  have h1 := coord_step A y c hc h j (-τ) (by linarith)
  rw [← hgdef, ← hsdef] at h1
  have h4 : τ * s ≤ u * s := mul_le_mul_of_nonneg_right hτu hs
  have h5 : 2 * g + τ * s < g := by nlinarith
  have h6 : τ * (2 * g + τ * s) < 0 := by
    have : τ * (2 * g + τ * s) < τ * g := mul_lt_mul_of_pos_left h5 hτ
    have : τ * g < 0 := mul_neg_of_pos_of_neg hτ hgj
    linarith
  nlinarith

end Field

/-! ### Householder reflectors and the Kaufman / Golub–Pereyra projection step -/
section Householder
variable {m n : Type*} [Fintype m] [Fintype n] [DecidableEq m]
variable {K : Type*} [CommRing K]

/-- `H = I − τ v vᵀ` -/
def Hm (h : (m → K) × K) : Matrix m m K := 1 - h.2 • vecMulVec h.1 h.1

/-- orthogonality condition of a reflector -/
def HOK (h : (m → K) × K) : Prop := h.2 * (2 - h.2 * (h.1 ⬝ᵥ h.1)) = 0

theorem Hm_mulVec (h : (m → K) × K) (x : m → K) :
    Hm h *ᵥ x = x - (h.2 * (h.1 ⬝ᵥ x)) • h.1 := by
  unfold Hm
  rw [sub_mulVec, one_mulVec, smul_mulVec, vecMulVec_mulVec]
  ext i
  simp [mul_assoc]

omit [Fintype m] in
theorem Hm_transpose (h : (m → K) × K) : (Hm h)ᵀ = Hm h := by
  unfold Hm
  rw [transpose_sub, transpose_one, transpose_smul, transpose_vecMulVec]

theorem Hm_mul_self (h : (m → K) × K) (hok : HOK h) : Hm h * Hm h = 1 := by
  have hP : vecMulVec h.1 h.1 * vecMulVec h.1 h.1 = (h.1 ⬝ᵥ h.1) • vecMulVec h.1 h.1 := by
    rw [vecMulVec_mul_vecMulVec, vecMulVec_smul]
  have e : Hm h * Hm h = 1 - (h.2 * (2 - h.2 * (h.1 ⬝ᵥ h.1))) • vecMulVec h.1 h.1 := by
    unfold Hm
    simp only [Matrix.sub_mul, Matrix.mul_sub, Matrix.one_mul, Matrix.mul_one, Matrix.smul_mul,
      Matrix.mul_smul, hP, smul_smul]
    ext i j
    simp only [sub_apply, smul_apply, smul_eq_mul]
    ring
  rw [e, hok, zero_smul, sub_zero]

/-- `Qᵀ = H_k ⋯ H_1` (the first reflector of the list acts first) -/
def QTm : List ((m → K) × K) → Matrix m m K
  | [] => 1
  | h :: hs => QTm hs * Hm h

/-- `Q = H_1 ⋯ H_k` -/
def Qm : List ((m → K) × K) → Matrix m m K
  | [] => 1
  | h :: hs => Hm h * Qm hs

theorem Qm_transpose (hs : List ((m → K) × K)) : (Qm hs)ᵀ = QTm hs := by
  induction hs with
  | nil => simp [Qm, QTm]
  | cons h hs ih => simp [Qm, QTm, transpose_mul, ih, Hm_transpose]

theorem QTm_mul_Qm (hs : List ((m → K) × K)) (hok : ∀ h ∈ hs, HOK h) : QTm hs * Qm hs = 1 := by
  induction hs with
  | nil => simp [Qm, QTm]
  | cons h hs ih =>
    have h1 := Hm_mul_self h (hok h (by simp))
    have h2 := ih (fun h' hh => hok h' (by simp [hh]))
    calc QTm (h :: hs) * Qm (h :: hs) = QTm hs * (Hm h * Hm h) * Qm hs := by
          simp only [Qm, QTm, Matrix.mul_assoc]
      _ = 1 := by rw [h1, Matrix.mul_one, h2]

theorem Qm_mul_QTm (hs : List ((m → K) × K)) (hok : ∀ h ∈ hs, HOK h) : Qm hs * QTm hs = 1 := by
  induction hs with
  | nil => simp [Qm, QTm]
  | cons h hs ih =>
    have h1 := Hm_mul_self h (hok h (by simp))
    have h2 := ih (fun h' hh => hok h' (by simp [hh]))
    calc Qm (h :: hs) * QTm (h :: hs) = Hm h * (Qm hs * QTm hs) * Hm h := by
          simp only [Qm, QTm, Matrix.mul_assoc]
      _ = 1 := by rw [h2, Matrix.mul_one, h1]

/-- the projection step of `residual_variable_projection` in matrix form.
    `T = Qᵀ`, `Q T = 1`, `T A = B` with `B` zero outside the rows selected by `p`,
    `t = T y`, `B c` agrees with `t` on the selected rows, `t'` = `t` with those rows zeroed:
    then `Q t' = y − A c`. -/
theorem vp_residual_abs (Q T : Matrix m m K) (A B : Matrix m n K) (y : m → K) (c : n → K)
    (p : m → Prop) [DecidablePred p]
    (hQT : Q * T = 1) (hB : T * A = B) (hB0 : ∀ i j, ¬ p i → B i j = 0)
    (hc : ∀ i, p i → (B *ᵥ c) i = (T *ᵥ y) i) :
    Q *ᵥ (fun i => if p i then 0 else (T *ᵥ y) i) = y - A *ᵥ c := by
  have hA : A = Q * B := by rw [← hB, ← Matrix.mul_assoc, hQT, Matrix.one_mul]
  have hy : y = Q *ᵥ (T *ᵥ y) := by rw [mulVec_mulVec, hQT, one_mulVec]
  have e : (fun i => if p i then 0 else (T *ᵥ y) i) = T *ᵥ y - B *ᵥ c := by
    ext i
    by_cases hp : p i
    · simp [hp, hc i hp]
    · have : (B *ᵥ c) i = 0 := by
        simp only [mulVec, dotProduct]
        exact Finset.sum_eq_zero (fun j _ => by rw [hB0 i j hp, zero_mul])
      simp [hp, this]
  rw [e, mulVec_sub, ← hy, hA, mulVec_mulVec]

omit [Fintype n] in
/-- … and `Q t'` is orthogonal to every column of `A` (needs `T = Qᵀ`, `T Q = 1`). -/
theorem vp_orthogonal_abs (Q T : Matrix m m K) (A B : Matrix m n K) (t : m → K)
    (p : m → Prop) [DecidablePred p]
    (hT : Qᵀ = T) (hTQ : T * Q = 1) (hQT : Q * T = 1) (hB : T * A = B)
    (hB0 : ∀ i j, ¬ p i → B i j = 0) :
    Aᵀ *ᵥ (Q *ᵥ (fun i => if p i then 0 else t i)) = 0 := by
  have hA : A = Q * B := by rw [← hB, ← Matrix.mul_assoc, hQT, Matrix.one_mul]
  rw [hA, transpose_mul, hT, mulVec_mulVec, Matrix.mul_assoc, hTQ, Matrix.mul_one]
  ext j
  simp only [mulVec, dotProduct, transpose_apply, Pi.zero_apply]
  apply Finset.sum_eq_zero
  intro i _
  by_cases hp : p i
  · simp [hp]
  · rw [hB0 i j hp, zero_mul]

end Householder

/-! ### positive rescaling of the data and of the columns (what the fixed `residual_nnls` does) -/
section Scaling
variable {m n : Type*} [Fintype m] [Fintype n]
variable {K : Type*} [Field K]

/-- If the solver is given `Ã = A·diag(d)⁻¹` and `ỹ = y/s` and returns `x`, and the clp are
    `c_j = x_j · (s / d_j)`, then `Aᵀ(y − A c) = s · d ∘ Ãᵀ(ỹ − Ã x)`. -/
theorem grad_scaled (A : Matrix m n K) (y : m → K) (x d : n → K) (s : K)
    (hd : ∀ j, d j ≠ 0) (hs : s ≠ 0) (j : n) :
    grad A y (fun j => x j * (s / d j)) j =
      s * d j * grad (Matrix.of fun i j => A i j / d j) (fun i => y i / s) x j := by
  have hAc : ∀ i, (A *ᵥ fun j => x j * (s / d j)) i =
      s * ((Matrix.of fun i j => A i j / d j) *ᵥ x) i := by
    intro i
    simp only [mulVec, dotProduct, Matrix.of_apply, Finset.mul_sum]
    apply Finset.sum_congr rfl
    intro k _
    have := hd k
    field_simp
  unfold grad
  simp only [mulVec, dotProduct, transpose_apply, Matrix.of_apply, Pi.sub_apply, Finset.mul_sum]
  apply Finset.sum_congr rfl
  intro i _
  have h1 := hAc i
  simp only [mulVec, dotProduct, Matrix.of_apply] at h1
  rw [h1]
  have := hd j
  field_simp

end Scaling

end Glotaran.C01.Abs
