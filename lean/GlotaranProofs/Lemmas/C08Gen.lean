/-
C08 — the generated transcription of the interval functions (GlotaranModel/Generated/C08Fns.lean)
against the hand-written model: the reading of the Python-side values as model values, the loop and
vocabulary lemmas, and the equalities `gen_*_eq` that Props/C08.lean publishes as `generated_*_eq_model`.
The proofs unfold the generated definitions with `simp` and case analysis only (no matching on the
un-normalised generated text), so that behaviour-preserving rewrites of the source inside the translated
subset re-translate to definitions the same scripts still prove equal.
-/
import GlotaranProofs.Lemmas.C08
import GlotaranModel.Generated.C08Fns
set_option linter.unusedSimpArgs false
namespace Glotaran.C08
open Glotaran.LinAlg Glotaran.C02

/-! ### Python-side values as model values -/

def pairModel (p : Py.Pair) : Interval := ⟨p.1, p.2⟩

/-- the `interval` attribute (None / one tuple / a list of tuples) as the model's optional list -/
def ivsModel : Option Py.Ivs → Option (List Interval)
  | none => none
  | some (.single p) => some [pairModel p]
  | some (.many l) => some (l.map pairModel)

/-- is the item an `OnlyConstraint` (the one class that overrides `applies`) -/
def Py.Item.isOnly (it : Py.Item) : Bool := it.cls == .OnlyConstraint

/-- a constraint item as the model's `Constraint` -/
def consModel (it : Py.Item) : Constraint := ⟨it.isOnly, it.target, ivsModel it.interval⟩

/-- a slice of the model (naturals) as a Python slice -/
def sliceInt (s : Nat × Nat) : Py.Slice := ((s.1 : Int), (s.2 : Int))

/-! ### membership -/

theorem contains_pair (p : Py.Pair) (x : Rat) :
    (pairModel p).contains x =
      ((if p.1.le p.2 then p.1 else p.2).le (.fin x) && (EB.fin x).le (if p.1.le p.2 then p.2 else p.1)) := by
  simp only [Interval.contains, pairModel]
  by_cases h : p.1.le p.2 = true <;> simp [h]

theorem gen_closure (p : Py.Pair) (x : Rat) :
    ((if p.1.le p.2 = false then (p.2, p.1) else p).1.le (EB.fin x) &&
      (EB.fin x).le (if p.1.le p.2 = false then (p.2, p.1) else p).2) = (pairModel p).contains x := by
  rw [contains_pair]
  by_cases h : p.1.le p.2 = true <;> simp [h]

theorem gen_IntervalItem_applies_eq (it : Py.Item) (index : Option Rat) :
    Gen.IntervalItem_applies it index = appliesOpt (ivsModel it.interval) index := by
  obtain ⟨cls, iv, t, s, pr⟩ := it
  rcases iv with _ | (p | (_ | ⟨q, l⟩)) <;> rcases index with _ | x <;>
    simp [Gen.IntervalItem_applies, ivsModel, appliesOpt, applies, Py.Ivs.len, Py.Ivs.firstIsSeq, Py.Ivs.wrap,
      Py.Ivs.iter, Py.gt, Py.lt, Py.ge, Py.le, gen_closure, List.any_map, Function.comp_def]

theorem gen_applies_eq (it : Py.Item) (index : Option Rat) :
    Gen.applies it index = itemApplies it.isOnly (ivsModel it.interval) index := by
  unfold Gen.applies Gen.OnlyConstraint_applies
  simp only [gen_IntervalItem_applies_eq, itemApplies, Py.Item.isOnly]
  obtain ⟨cls, iv, t, s, pr⟩ := it
  cases cls <;> simp

theorem gen_has_interval_eq (it : Py.Item) :
    Gen.has_interval it = (ivsModel it.interval).isSome := by
  obtain ⟨cls, iv, t, s, pr⟩ := it
  rcases iv with _ | (p | l) <;> cases cls <;> simp [Gen.has_interval, Gen.IntervalItem_has_interval, ivsModel]

theorem gen_does_eq (it : Py.Item) (index : Option Rat) :
    Gen.does_interval_item_apply it index =
      (doesIntervalItemApply it.isOnly (ivsModel it.interval) index).1 := by
  unfold Gen.does_interval_item_apply doesIntervalItemApply
  rw [gen_has_interval_eq, gen_applies_eq]
  split <;> simp_all

/-! ### `np.abs(axis - v).argmin()` and the slice -/

theorem lt_fin_fin (a b : Rat) : Py.lt (.fin a) (.fin b) = decide (a < b) := by
  simp only [Py.lt, EB.le]
  by_cases h : a < b
  · simp [h, not_le.mpr h]
  · simp [h, not_lt.mp h]

theorem gen_argmin_fold (f : Rat → Rat) : ∀ (rest : List Rat) (i : Nat) (d : Rat) (c : Nat),
    (List.foldl (fun (acc : Nat × EB × Nat) v =>
        if Py.lt v acc.2.1 then (acc.2.2 + 1, v, acc.2.2 + 1) else (acc.1, acc.2.1, acc.2.2 + 1))
      (i, EB.fin d, c) (rest.map (fun a => EB.fin (f a)))).1 =
    (List.foldl (fun (acc : Nat × Rat × Nat) v =>
        if v < acc.2.1 then (acc.2.2 + 1, v, acc.2.2 + 1) else (acc.1, acc.2.1, acc.2.2 + 1))
      (i, d, c) (rest.map f)).1 := by
  intro rest
  induction rest with
  | nil => intros; rfl
  | cons a t ih =>
    intro i d c
    simp only [List.map_cons, List.foldl_cons, lt_fin_fin]
    by_cases h : f a < d
    · simp only [h, decide_true, if_true]; exact ih _ _ _
    · simp only [h, decide_false]
      exact ih _ _ _

theorem gen_argmin_eq (axis : List Rat) (r : Rat) :
    Py.argmin (Py.arrAbs (Py.arrSub axis (.fin r))) = argminAbs axis r := by
  have hmap : Py.arrAbs (Py.arrSub axis (.fin r)) = axis.map (fun a => EB.fin (absR (a - r))) := by
    simp [Py.arrAbs, Py.arrSub, Py.subFin, Py.absE, List.map_map, Function.comp_def]
  rw [hmap]
  cases axis with
  | nil => rfl
  | cons a t =>
    simp only [Py.argmin, argminAbs, List.map_cons]
    exact gen_argmin_fold (fun a => absR (a - r)) t 0 _ 0

theorem gen_slice_eq (p : Py.Pair) (axis : List Rat) (hne : axis ≠ []) :
    Gen.get_axis_slice_from_interval p axis = sliceInt (axisSlice p.1 p.2 axis) := by
  obtain ⟨lo, hi⟩ := p
  have hl : 0 < axis.length := List.length_pos_iff.mpr hne
  cases lo <;> cases hi
  case fin.fin a b =>
    rcases le_or_gt a b with h | h
    · simp [Gen.get_axis_slice_from_interval, Py.gt, Py.isinf, Py.lt, EB.le, axisSlice, nearestIdx, sliceInt,
        gen_argmin_eq, h, not_lt.mpr h]
    · simp [Gen.get_axis_slice_from_interval, Py.gt, Py.isinf, Py.lt, EB.le, axisSlice, nearestIdx, sliceInt,
        gen_argmin_eq, h, not_le.mpr h]
  all_goals
    simp [Gen.get_axis_slice_from_interval, Py.gt, Py.isinf, Py.lt, EB.le, axisSlice, nearestIdx, sliceInt,
      gen_argmin_eq]
  all_goals omega

/-! ### `_get_area` -/

theorem min2_eq (a b : EB) : Py.min2 a b = if a.le b then a else b := by
  simp only [Py.min2, Py.lt]
  by_cases h : a.le b = true <;> simp [h]

theorem max2_eq (a b : EB) : Py.max2 a b = if a.le b then b else a := by
  simp only [Py.max2, Py.gt]
  by_cases h : a.le b = true
  · by_cases h2 : b.le a = true
    · have := EB.le_antisymm h h2; subst this; simp
    · simp [h, h2]
  · have h2 : b.le a = true := by
      rcases EB.le_total a b with h' | h'
      · exact absurd h' h
      · exact h'
    simp [h, h2]

theorem foldl_append_if {α β : Type} (c : α → Bool) (f : α → β) : ∀ (l : List α) (acc : List β),
    List.foldl (fun acc i => if c i then acc ++ [f i] else acc) acc l =
      acc ++ l.filterMap (fun i => if c i then some (f i) else none) := by
  intro l
  induction l with
  | nil => intro acc; simp
  | cons a t ih =>
    intro acc
    simp only [List.foldl_cons, List.filterMap_cons]
    cases h : c a <;> simp [ih]

theorem foldl_append_flatMap {α β : Type} (step : List β → α → List β) (g : α → List β)
    (h : ∀ acc x, step acc x = acc ++ g x) : ∀ (l : List α) (acc : List β),
    List.foldl step acc l = acc ++ l.flatMap g := by
  intro l
  induction l with
  | nil => intro acc; simp
  | cons a t ih => intro acc; simp [List.foldl_cons, h, ih, List.flatMap_cons]

theorem filterMap_congr' {α β : Type} (f g : α → Option β) : ∀ l : List α,
    (∀ x ∈ l, f x = g x) → l.filterMap f = l.filterMap g := by
  intro l
  induction l with
  | nil => intro _; rfl
  | cons a t ih =>
    intro h
    simp only [List.filterMap_cons, h a (by simp), ih (fun x hx => h x (by simp [hx]))]

theorem item_ofNat {β : Type} [Inhabited β] (xs : List β) (i : Nat) :
    Py.item xs ((i : Nat) : Int) = xs.getD i default := by
  simp [Py.item]

theorem item_neg_one (axis : List Rat) (hne : axis ≠ []) : Py.item axis (-1 : Int) = axis.getLastD 0 := by
  have hl : 0 < axis.length := List.length_pos_iff.mpr hne
  rw [getLastD_eq_getD]
  have h1 : (-(-1 : Int)).toNat = 1 := by decide
  have h2 : ¬ (0 : Int) ≤ -1 := by omega
  have h3 : 1 ≤ axis.length := hl
  simp only [Py.item, h1, h2, h3, if_false, if_true]
  rfl

/-- the labels of one index as `_get_area` reads them -/
def labelsAt (labels : Py.Labels) (i : Int) : List String :=
  if Py.Labels.firstIsList labels then Py.item (Py.Labels.asNested labels) i else Py.Labels.asFlat labels

theorem gen_loop2_eq (label : String) (labels : Py.Labels) (clps : List (List Rat)) (area : List Rat) (i : Int) :
    Gen.get_area_loop2 label labels clps area i =
      if (labelsAt labels i).contains label then
        area ++ [Py.item (Py.item clps i) (((labelsAt labels i).idxOf label : Nat) : Int)] else area := by
  simp only [Gen.get_area_loop2, labelsAt, Py.indexOf]
  split <;> simp_all

/-- the values one index range contributes (the model's inner `filterMap`) -/
def collect (label : String) (labels : List (List String)) (clps : List Vec) (s e : Nat) : Vec :=
  (List.range (e - s)).filterMap (fun k =>
    let i := s + k
    let ls := labels.getD i []
    match ls.idxOf? label with
    | some j => some ((clps.getD i []).getD j 0)
    | none => none)

theorem gen_inner_eq (label : String) (ls : List (List String)) (clps : List (List Rat)) (area : List Rat) (s e : Nat) :
    List.foldl (Gen.get_area_loop2 label (.nested ls) clps) area (Py.range (s : Int) (e : Int)) =
      area ++ collect label ls clps s e := by
  have hstep : Gen.get_area_loop2 label (.nested ls) clps = fun area i =>
      if (labelsAt (.nested ls) i).contains label then
        area ++ [Py.item (Py.item clps i) (((labelsAt (.nested ls) i).idxOf label : Nat) : Int)] else area := by
    funext area i; exact gen_loop2_eq _ _ _ _ _
  rw [hstep, foldl_append_if]
  congr 1
  have hlen : ((e : Int) - (s : Int)).toNat = e - s := by omega
  simp only [Py.range, List.filterMap_map, hlen, collect]
  apply filterMap_congr'
  intro k _
  have hc : ((s : Int) + (k : Int)) = ((s + k : Nat) : Int) := by omega
  simp only [Function.comp, hc]
  have hl : labelsAt (.nested ls) ((s + k : Nat) : Int) = ls.getD (s + k) [] := by
    cases ls with
    | nil => simp [labelsAt, Py.Labels.firstIsList, Py.Labels.asFlat]
    | cons a t => simp only [labelsAt, Py.Labels.firstIsList, Py.Labels.asNested, if_true, item_ofNat]; rfl
  rw [hl]
  by_cases hm : (ls.getD (s + k) []).contains label = true
  · have hmem : label ∈ ls.getD (s + k) [] := by simpa using hm
    simp only [hm, if_true, idxOf?_eq_some_idxOf _ _ hmem, item_ofNat]
    rfl
  · have hm' : (ls.getD (s + k) []).contains label = false := by simpa using hm
    rw [contains_false_idxOf? _ _ hm']
    simp only [hm']
    rfl

theorem areaSlice_eq_py (p : Py.Pair) (axis : List Rat) :
    areaSlice (pairModel p) axis =
      if Py.gt (Py.min2 p.1 p.2) (.fin (axis.getLastD 0)) then none
      else some (axisSlice (Py.max2 (Py.min2 p.1 p.2) (.fin (listMin axis))) (Py.min2 (Py.max2 p.1 p.2) (.fin (listMax axis))) axis) := by
  simp only [areaSlice, pairModel, min2_eq, max2_eq, ebMax, ebMin, Py.gt]
  by_cases h : p.1.le p.2 = true <;> simp [h]

theorem gen_loop1_eq (label : String) (ls : List (List String)) (clps : List (List Rat)) (axis : List Rat)
    (hne : axis ≠ []) (area : List Rat) (p : Py.Pair) :
    Gen.get_area_loop1 label (.nested ls) clps axis area p =
      area ++ (match areaSlice (pairModel p) axis with
        | none => []
        | some (s, e) => collect label ls clps s e) := by
  rw [areaSlice_eq_py]
  simp only [Gen.get_area_loop1, item_neg_one axis hne, Py.npMin, Py.npMax, gen_slice_eq _ axis hne, sliceInt, Py.gt, Py.lt,
    Py.ge, Py.le]
  by_cases hb : (Py.min2 p.1 p.2).le (EB.fin (axis.getLast?.getD 0)) = true
  · simp [hb, gen_inner_eq]
  · simp [hb, gen_inner_eq]

theorem gen_get_area_nested (label : String) (ls : List (List String)) (clps : List (List Rat))
    (ivs : List Py.Pair) (axis : List Rat) (hne : axis ≠ []) :
    Gen.get_area label (.nested ls) clps ivs axis = getArea label ls clps (ivs.map pairModel) axis := by
  simp only [Gen.get_area]
  rw [foldl_append_flatMap _ _ (gen_loop1_eq label ls clps axis hne)]
  simp only [List.nil_append, getArea, List.flatMap_map, collect]
  rfl

/-! ### the loop body of `apply_constraints` -/

theorem gen_does_at (it : Py.Item) (x : Rat) :
    Gen.does_interval_item_apply it (some x) = (consModel it).appliesAt x := by
  rw [gen_does_eq]
  cases h : it.isOnly <;>
    simp [doesIntervalItemApply, itemApplies, appliesOpt, Constraint.appliesAt, consModel, h]

theorem gen_removed_eq (cons : List Py.Item) (labels : List String) (x : Rat) :
    ((cons.filter (fun (c : Py.Item) => ((List.contains labels c.target) && (Gen.does_interval_item_apply c (some x))))).map
        (fun (c : Py.Item) => c.target)) =
      (((cons.map consModel).filter (fun c => labels.contains c.target && c.appliesAt x)).map (·.target)) := by
  have hf : (fun (c : Py.Item) => ((List.contains labels c.target) && (Gen.does_interval_item_apply c (some x)))) =
      (fun (c : Constraint) => labels.contains c.target && c.appliesAt x) ∘ consModel := by
    funext c
    simp only [Function.comp, gen_does_at]
    rfl
  rw [hf, List.filter_map, List.map_map]
  rfl

theorem gen_apply_constraints_body_eq (model : Gen.Model) (ms : List LMat2) (i : Nat) (x : Rat) (hi : i < ms.length) :
    Gen.apply_constraints_body model ms i x =
      ms.set i (applyConstraintsAt (model.clp_constraints.map consModel) x (ms.getD i default)) := by
  have hitem : Py.item ms ((i : Nat) : Int) = ms.getD i default := by simp [Py.item]
  simp only [Gen.apply_constraints_body, hitem, gen_removed_eq, applyConstraintsAt, Py.setItem, Py.colMask]
  generalize hr : (List.map (fun x => x.target) (List.filter (fun c => (ms.getD i default).labels.contains c.target && c.appliesAt x)
      (List.map consModel model.clp_constraints))) = removed
  have hget : ms[i]?.getD default = ms[i] := by simp [hi]
  cases removed with
  | nil =>
    simp [hget]
  | cons r rs =>
    simp only [List.isEmpty_cons, List.length_cons]
    have hmask : ∀ (p : String → Bool) (L : List String),
        List.map (fun label => decide (label ∈ L) && p label) L = List.map p L := by
      intro p L
      apply List.map_congr_left
      intro a ha
      simp [ha]
    simp [pickMask_map_self]
    rw [hmask (fun c => !decide (c = r) && !decide (c ∈ rs))]

end Glotaran.C08
