/-
C10 — helper lemmas for the shared-memory machine: under pairwise disjoint write sets (no iteration writes a cell
another iteration reads or writes) every interleaving leaves, in every cell, what the owning iteration computes alone.
-/
import GlotaranModel.C10Kernels
namespace Glotaran.C10

variable {α : Type}

def iterOf (iters : List (List (Step α))) (i : Nat) : List (Step α) := iters.getD i []

def writesOf (steps : List (Step α)) : List Cell := steps.map (·.write)
def readsOf (steps : List (Step α)) : List Cell := steps.flatMap (·.reads)
/-- every cell an iteration touches -/
def footprint (steps : List (Step α)) : List Cell := writesOf steps ++ readsOf steps

/-- no iteration writes a cell that another iteration reads or writes -/
def DisjointWrites (iters : List (List (Step α))) : Prop :=
  ∀ i j, i ≠ j → ∀ c, c ∈ writesOf (iterOf iters j) → c ∉ footprint (iterOf iters i)

theorem runSolo_append (a b : List (Step α)) (m : Mem α) : runSolo (a ++ b) m = runSolo b (runSolo a m) := by
  simp [runSolo, List.foldl_append]

theorem runSolo_snoc (a : List (Step α)) (st : Step α) (m : Mem α) :
    runSolo (a ++ [st]) m = st.run (runSolo a m) := by
  rw [runSolo_append]; rfl

theorem take_succ_of_getElem? {l : List (Step α)} {n : Nat} {st : Step α} (h : l[n]? = some st) :
    l.take (n + 1) = l.take n ++ [st] := by
  rw [List.take_add_one, h]; rfl

theorem mem_of_getElem? {l : List (Step α)} {n : Nat} {st : Step α} (h : l[n]? = some st) : st ∈ l :=
  List.mem_of_getElem? h

/-- the invariant: every iteration sees, on its own footprint, exactly what it would see running alone -/
structure Inv (iters : List (List (Step α))) (m₀ : Mem α) (st : Mem α × (Nat → Nat)) : Prop where
  own : ∀ i c, c ∈ footprint (iterOf iters i) → st.1 c = runSolo ((iterOf iters i).take (st.2 i)) m₀ c
  rest : ∀ c, (∀ i, c ∉ writesOf (iterOf iters i)) → st.1 c = m₀ c

theorem inv_init (iters : List (List (Step α))) (m₀ : Mem α) : Inv iters m₀ (m₀, fun _ => 0) :=
  ⟨fun _ _ _ => by simp [runSolo], fun _ _ => rfl⟩

theorem inv_runSchedule (iters : List (List (Step α))) (hd : DisjointWrites iters) (m₀ : Mem α) :
    ∀ (s : List Nat) (st : Mem α × (Nat → Nat)), Inv iters m₀ st → Inv iters m₀ (runSchedule iters s st) := by
  intro s
  induction s with
  | nil => intro st h; exact h
  | cons i rest ih =>
    intro ⟨m, pc⟩ h
    simp only [runSchedule]
    cases hstp : (iters.getD i [])[pc i]? with
    | none => exact ih _ h
    | some stp =>
      simp only []
      apply ih
      have hmem : stp ∈ iterOf iters i := mem_of_getElem? hstp
      have hw : stp.write ∈ writesOf (iterOf iters i) := List.mem_map.mpr ⟨stp, hmem, rfl⟩
      have hreads : ∀ r, r ∈ stp.reads → r ∈ footprint (iterOf iters i) := fun r hr =>
        List.mem_append_right _ (List.mem_flatMap.mpr ⟨stp, hmem, hr⟩)
      constructor
      · intro j c hc
        by_cases hji : j = i
        · subst hji
          simp only [if_true]
          have htake : (iterOf iters j).take (pc j + 1) = (iterOf iters j).take (pc j) ++ [stp] :=
            take_succ_of_getElem? hstp
          rw [htake, runSolo_snoc]
          simp only [Step.run]
          by_cases hcw : c = stp.write
          · simp only [hcw, if_true]
            congr 1
            apply List.map_congr_left
            intro r hr
            exact h.own j r (hreads r hr)
          · simp only [hcw, if_false]
            exact h.own j c hc
        · simp only [hji, if_false]
          have hne : c ≠ stp.write := by
            intro e
            exact hd j i hji c (e ▸ hw) hc
          simp only [Step.run, hne, if_false]
          exact h.own j c hc
      · intro c hc
        have hne : c ≠ stp.write := fun e => hc i (e ▸ hw)
        simp only [Step.run, hne, if_false]
        exact h.rest c hc

/-- program counters after a schedule -/
theorem pc_runSchedule (iters : List (List (Step α))) :
    ∀ (s : List Nat) (m : Mem α) (pc : Nat → Nat), (∀ i, pc i ≤ (iterOf iters i).length) →
      ∀ i, (runSchedule iters s (m, pc)).2 i = min (pc i + s.count i) (iterOf iters i).length := by
  intro s
  induction s with
  | nil => intro m pc hpc i; simp [runSchedule]; exact (Nat.min_eq_left (hpc i)).symm
  | cons j rest ih =>
    intro m pc hpc i
    simp only [runSchedule]
    cases hstp : (iters.getD j [])[pc j]? with
    | none =>
      simp only []
      rw [ih m pc hpc i]
      by_cases hij : j = i
      · subst hij
        have hge : (iterOf iters j).length ≤ pc j := by
          have := List.getElem?_eq_none_iff.mp hstp
          exact this
        have heq : pc j = (iterOf iters j).length := Nat.le_antisymm (hpc j) hge
        simp only [List.count_cons_self]
        omega
      · have : (j :: rest).count i = rest.count i := by
          simp [hij]
        rw [this]
    | some stp =>
      simp only []
      have hlt : pc j < (iterOf iters j).length := by
        have := (List.getElem?_eq_some_iff.mp hstp).1
        exact this
      have hpc' : ∀ k, (fun k => if k = j then pc j + 1 else pc k) k ≤ (iterOf iters k).length := by
        intro k
        by_cases hk : k = j
        · subst hk; simp only [if_true]; omega
        · simp only [hk, if_false]; exact hpc k
      rw [ih _ _ hpc' i]
      by_cases hij : j = i
      · subst hij
        simp only [if_true, List.count_cons_self]
        omega
      · have h1 : (j :: rest).count i = rest.count i := by simp [hij]
        have h2 : ¬ i = j := fun e => hij e.symm
        simp only [h2, if_false, h1]

end Glotaran.C10
