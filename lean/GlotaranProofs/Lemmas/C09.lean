/-
C09 — helper lemmas for GlotaranProofs/Props/C09.lean.
-/
import GlotaranModel.C09
import Mathlib.Tactic.Linarith
import Mathlib.Algebra.Order.AbsoluteValue.Basic
import Mathlib.Data.List.Sort
namespace Glotaran.C09

/-! ### `np.abs`, the side filter -/

theorem absR_eq_abs (r : Rat) : absR r = |r| := by
  unfold absR
  split
  · rename_i h; exact (abs_of_neg h).symm
  · rename_i h; exact (abs_of_nonneg (not_lt.mp h)).symm

/-- the side of `x` on which `clp_link_method` permits a target `t` -/
def sideOK : Method → Rat → Rat → Prop
  | .nearest, _, _ => True
  | .backward, t, x => t ≤ x
  | .forward, t, x => x ≤ t

theorem keep_iff (m : Method) (t x : Rat) : keep m (t - x) = true ↔ sideOK m t x := by
  cases m <;> simp [keep, sideOK]

theorem mem_candidates (m : Method) (target : List Rat) (x : Rat) (p : Rat × Rat) :
    p ∈ candidates m target x ↔ ∃ t ∈ target, sideOK m t x ∧ p = (t, t - x) := by
  unfold candidates
  simp only [List.mem_filter, List.mem_map]
  constructor
  · rintro ⟨⟨t, ht, rfl⟩, hk⟩
    exact ⟨t, ht, (keep_iff m t x).mp hk, rfl⟩
  · rintro ⟨t, ht, hs, rfl⟩
    exact ⟨⟨t, ht, rfl⟩, (keep_iff m t x).mpr hs⟩

/-! ### `argmin`: first minimum -/

theorem firstMin_eq_none (l : List (Rat × Rat)) : firstMin l = none ↔ l = [] := by
  cases l with
  | nil => simp [firstMin]
  | cons p ps =>
    simp only [firstMin]
    split <;> simp
    split <;> simp

theorem firstMin_mem : ∀ (l : List (Rat × Rat)) (b : Rat × Rat), firstMin l = some b → b ∈ l := by
  intro l
  induction l with
  | nil => intro b h; simp [firstMin] at h
  | cons p ps ih =>
    intro b h
    simp only [firstMin] at h
    split at h
    · cases h; simp
    · rename_i b' hb'
      split at h
      · cases h; simp
      · cases h; exact List.mem_cons_of_mem _ (ih b hb')

theorem firstMin_le : ∀ (l : List (Rat × Rat)) (b : Rat × Rat), firstMin l = some b →
    ∀ p ∈ l, absR b.2 ≤ absR p.2 := by
  intro l
  induction l with
  | nil => intro b h; simp [firstMin] at h
  | cons q qs ih =>
    intro b h p hp
    simp only [firstMin] at h
    split at h
    · rename_i hnone
      cases h
      have : qs = [] := (firstMin_eq_none qs).mp hnone
      subst this
      simp at hp; subst hp; exact le_refl _
    · rename_i b' hb'
      rcases List.mem_cons.mp hp with rfl | hp'
      · split at h
        · cases h; exact le_refl _
        · rename_i hlt; cases h; exact le_of_lt (not_le.mp hlt)
      · have h1 := ih b' hb' p hp'
        split at h
        · rename_i hle; cases h; exact le_trans hle h1
        · cases h; exact h1

/-! ### `np.unique` -/

theorem mem_insertU (x a : Rat) : ∀ l : List Rat, a ∈ insertU x l ↔ a = x ∨ a ∈ l := by
  intro l
  induction l with
  | nil => simp [insertU]
  | cons y ys ih =>
    simp only [insertU]
    split
    · simp
    · split
      · rename_i h; subst h; simp
      · simp [ih]; tauto

theorem insertU_sorted (x : Rat) : ∀ l : List Rat, l.Pairwise (· < ·) → (insertU x l).Pairwise (· < ·) := by
  intro l
  induction l with
  | nil => intro _; simp [insertU]
  | cons y ys ih =>
    intro h
    simp only [insertU]
    have hy := (List.pairwise_cons.mp h)
    split
    · rename_i hxy
      refine List.pairwise_cons.mpr ⟨?_, h⟩
      intro a ha
      rcases List.mem_cons.mp ha with rfl | ha
      · exact hxy
      · exact lt_trans hxy (hy.1 a ha)
    · split
      · exact h
      · rename_i h1 h2
        have hyx : y < x := lt_of_le_of_ne (not_lt.mp h1) (fun e => h2 e.symm)
        refine List.pairwise_cons.mpr ⟨?_, ih hy.2⟩
        intro a ha
        rcases (mem_insertU x a ys).mp ha with rfl | ha
        · exact hyx
        · exact hy.1 a ha

theorem insertU_length (x : Rat) : ∀ l : List Rat, l.Pairwise (· < ·) →
    (insertU x l).length = if x ∈ l then l.length else l.length + 1 := by
  intro l
  induction l with
  | nil => intro _; simp [insertU]
  | cons y ys ih =>
    intro h
    have hy := (List.pairwise_cons.mp h)
    simp only [insertU]
    split
    · rename_i hxy
      have : x ∉ y :: ys := by
        intro hm
        rcases List.mem_cons.mp hm with rfl | hm
        · exact lt_irrefl _ hxy
        · exact lt_irrefl _ (lt_trans hxy (hy.1 x hm))
      simp [this]
    · split
      · rename_i h2; subst h2; simp
      · rename_i h1 h2
        have hne : x ≠ y := h2
        simp only [List.length_cons, ih hy.2, List.mem_cons, hne, false_or]
        split <;> rfl

theorem mem_unique (a : Rat) : ∀ l : List Rat, a ∈ unique l ↔ a ∈ l := by
  intro l
  induction l with
  | nil => simp [unique]
  | cons x xs ih =>
    have : unique (x :: xs) = insertU x (unique xs) := rfl
    rw [this, mem_insertU, ih]; simp

theorem unique_sorted : ∀ l : List Rat, (unique l).Pairwise (· < ·) := by
  intro l
  induction l with
  | nil => simp [unique]
  | cons x xs ih => exact insertU_sorted x _ ih

theorem unique_nodup (l : List Rat) : (unique l).Nodup :=
  (unique_sorted l).imp (fun h => ne_of_lt h)

theorem unique_length_cons (x : Rat) (xs : List Rat) :
    (unique (x :: xs)).length = if x ∈ xs then (unique xs).length else (unique xs).length + 1 := by
  have : unique (x :: xs) = insertU x (unique xs) := rfl
  rw [this, insertU_length x _ (unique_sorted xs)]
  simp [mem_unique]

theorem unique_length_le : ∀ l : List Rat, (unique l).length ≤ l.length := by
  intro l
  induction l with
  | nil => simp [unique]
  | cons x xs ih =>
    rw [unique_length_cons]; split <;> simp <;> omega

/-- `len(np.unique(a)) != len(a)` is exactly "a has a repeated value" -/
theorem hasDup_eq_false_iff (l : List Rat) : hasDup l = false ↔ l.Nodup := by
  unfold hasDup
  simp only [bne_eq_false_iff_eq]
  induction l with
  | nil => simp [unique]
  | cons x xs ih =>
    rw [unique_length_cons, List.nodup_cons]
    have hle := unique_length_le xs
    by_cases hx : x ∈ xs
    · simp only [hx, if_true, List.length_cons, not_true, false_and, iff_false]; omega
    · simp only [hx, if_false, List.length_cons, not_false_eq_true, true_and]
      rw [← ih]; omega

/-- two strictly increasing lists with the same members are the same list -/
theorem sorted_ext {l₁ l₂ : List Rat} (h₁ : l₁.Pairwise (· < ·)) (h₂ : l₂.Pairwise (· < ·))
    (h : ∀ a, a ∈ l₁ ↔ a ∈ l₂) : l₁ = l₂ := by
  have n₁ : l₁.Nodup := h₁.imp (fun h => ne_of_lt h)
  have n₂ : l₂.Nodup := h₂.imp (fun h => ne_of_lt h)
  have hp : l₁.Perm l₂ := (List.perm_ext_iff_of_nodup n₁ n₂).mpr h
  exact List.Perm.eq_of_pairwise (fun a b _ _ hab hba => absurd hab (lt_asymm hba)) h₁ h₂ hp

/-! ### positions -/

theorem posOf_some_iff (v : Rat) : ∀ (a : List Rat) (j : Nat), a.Nodup →
    (posOf v a = some j ↔ a[j]? = some v) := by
  intro a
  induction a with
  | nil => intro j _; simp [posOf]
  | cons y ys ih =>
    intro j hn
    have hn' := List.nodup_cons.mp hn
    simp only [posOf]
    split
    · rename_i hy; subst hy
      cases j with
      | zero => simp
      | succ j =>
        simp only [List.getElem?_cons_succ]
        constructor
        · intro h; cases h
        · intro h; exact absurd (List.mem_of_getElem? h) hn'.1
    · rename_i hy
      cases j with
      | zero => simp [hy]
      | succ j =>
        simp only [List.getElem?_cons_succ, Option.map_eq_some_iff]
        rw [← ih j hn'.2]
        constructor
        · rintro ⟨k, hk, hkj⟩; have : k = j := by omega
          subst this; exact hk
        · intro h; exact ⟨j, h, rfl⟩

theorem posOf_isSome_iff (v : Rat) : ∀ a : List Rat, (∃ j, posOf v a = some j) ↔ v ∈ a := by
  intro a
  induction a with
  | nil => simp [posOf]
  | cons y ys ih =>
    simp only [posOf]
    split
    · rename_i hy; subst hy; simp
    · rename_i hy
      simp only [Option.map_eq_some_iff, List.mem_cons]
      constructor
      · rintro ⟨j, k, hk, _⟩; exact Or.inr (ih.mp ⟨k, hk⟩)
      · rintro (h | h)
        · exact absurd h.symm hy
        · obtain ⟨k, hk⟩ := ih.mpr h; exact ⟨k + 1, k, hk, rfl⟩

/-! ### the loop of `create_aligned_global_axes` -/

/-- `aligned_axis_values` after further datasets with aligned axes `al` have been processed -/
def accAfter (acc : List Rat) (al : List (List Rat)) : List Rat :=
  al.foldl (fun a row => unique (a ++ row)) acc

theorem alignLoop_cons (tol : Rat) (m : Method) (acc ax : List Rat) (rest : List (List Rat)) :
    alignLoop tol m (some acc) (ax :: rest) =
      if hasDup (ax.map (fun x => alignIndex x acc tol m)) then none
      else (alignLoop tol m (some (unique (acc ++ ax.map (fun x => alignIndex x acc tol m)))) rest).map
        (ax.map (fun x => alignIndex x acc tol m) :: ·) := rfl

theorem alignLoop_spec (tol : Rat) (m : Method) : ∀ (axes : List (List Rat)) (acc : List Rat)
    (al : List (List Rat)), alignLoop tol m (some acc) axes = some al →
    al.length = axes.length ∧
    ∀ d ax, axes[d]? = some ax → ∃ tgt : List Rat,
      (∀ v, v ∈ tgt ↔ v ∈ acc ∨ v ∈ (al.take d).flatten) ∧
      al[d]? = some (ax.map (fun x => alignIndex x tgt tol m)) ∧
      (ax.map (fun x => alignIndex x tgt tol m)).Nodup := by
  intro axes
  induction axes with
  | nil =>
    intro acc al h
    simp [alignLoop] at h
    subst h
    simp
  | cons ax0 rest ih =>
    intro acc al h
    rw [alignLoop_cons] at h
    split at h
    · cases h
    · rename_i hdup
      have hnd := (hasDup_eq_false_iff _).mp (by simpa using hdup)
      simp only [Option.map_eq_some_iff] at h
      obtain ⟨alr, hloop, rfl⟩ := h
      obtain ⟨hlen, hspec⟩ := ih _ alr hloop
      refine ⟨by simp [hlen], ?_⟩
      intro d ax hd
      cases d with
      | zero =>
        simp only [List.getElem?_cons_zero, Option.some.injEq] at hd
        subst hd
        exact ⟨acc, by simp, by simp, hnd⟩
      | succ d =>
        simp only [List.getElem?_cons_succ] at hd
        obtain ⟨tgt, hmem, hrow, hnod⟩ := hspec d ax hd
        refine ⟨tgt, ?_, by simpa using hrow, hnod⟩
        intro v
        rw [hmem v, mem_unique]
        simp only [List.mem_append, List.take_succ_cons, List.flatten_cons]
        tauto

theorem createAlignedAxes_spec (tol : Rat) (m : Method) (axes al : List (List Rat))
    (h : createAlignedAxes tol m axes = some al) :
    al.length = axes.length ∧ al.head? = axes.head? ∧
    ∀ d ax, 0 < d → axes[d]? = some ax → ∃ tgt : List Rat,
      (∀ v, v ∈ tgt ↔ v ∈ (al.take d).flatten) ∧
      al[d]? = some (ax.map (fun x => alignIndex x tgt tol m)) ∧
      (ax.map (fun x => alignIndex x tgt tol m)).Nodup := by
  unfold createAlignedAxes at h
  cases axes with
  | nil =>
    simp [alignLoop] at h
    subst h
    simp
  | cons ax0 rest =>
    simp only [alignLoop, Option.map_eq_some_iff] at h
    obtain ⟨alr, hloop, rfl⟩ := h
    obtain ⟨hlen, hspec⟩ := alignLoop_spec tol m rest ax0 alr hloop
    refine ⟨by simp [hlen], by simp, ?_⟩
    intro d ax hd hax
    cases d with
    | zero => omega
    | succ d =>
      simp only [List.getElem?_cons_succ] at hax
      obtain ⟨tgt, hmem, hrow, hnod⟩ := hspec d ax hax
      refine ⟨tgt, ?_, by simpa using hrow, hnod⟩
      intro v
      rw [hmem v]
      simp [List.take_succ_cons, List.flatten_cons]

theorem alignLoop_none_iff (tol : Rat) (m : Method) : ∀ (axes : List (List Rat)) (acc : List Rat),
    alignLoop tol m (some acc) axes = none ↔
    ∃ d al' ax, alignLoop tol m (some acc) (axes.take d) = some al' ∧ axes[d]? = some ax ∧
      ¬ (ax.map (fun x => alignIndex x (accAfter acc al') tol m)).Nodup := by
  intro axes
  induction axes with
  | nil => intro acc; simp [alignLoop]
  | cons ax0 rest ih =>
    intro acc
    rw [alignLoop_cons]
    constructor
    · intro h
      split at h
      · rename_i hdup
        refine ⟨0, [], ax0, by simp [alignLoop], by simp, ?_⟩
        intro hn
        have := (hasDup_eq_false_iff _).mpr hn
        simp [accAfter] at this
        rw [this] at hdup
        cases hdup
      · rename_i hdup
        simp only [Option.map_eq_none_iff] at h
        obtain ⟨d, al', ax, hl, hax, hnn⟩ := (ih _).mp h
        refine ⟨d + 1, ax0.map (fun x => alignIndex x acc tol m) :: al', ax, ?_, by simpa using hax, ?_⟩
        · rw [List.take_succ_cons, alignLoop_cons]
          simp only [hdup]
          simp [hl]
        · simpa [accAfter] using hnn
    · rintro ⟨d, al', ax, hl, hax, hnn⟩
      cases d with
      | zero =>
        simp only [List.take_zero, alignLoop, Option.some.injEq] at hl
        subst hl
        simp only [List.getElem?_cons_zero, Option.some.injEq] at hax
        subst hax
        have : hasDup (ax0.map (fun x => alignIndex x acc tol m)) = true := by
          by_contra hc
          exact hnn (by simpa [accAfter] using (hasDup_eq_false_iff _).mp (by simpa using hc))
        simp [this]
      | succ d =>
        rw [List.take_succ_cons, alignLoop_cons] at hl
        split at hl
        · cases hl
        · rename_i hdup
          simp only [Option.map_eq_some_iff] at hl
          obtain ⟨alr, hloop, rfl⟩ := hl
          simp only [hdup]
          simp only [List.getElem?_cons_succ] at hax
          have : alignLoop tol m (some (unique (acc ++ ax0.map (fun x => alignIndex x acc tol m)))) rest = none :=
            (ih _).mpr ⟨d, alr, ax, hloop, hax, by simpa [accAfter] using hnn⟩
          simp [this]

/-! ### the tables -/

theorem mem_membersFrom (v : Rat) : ∀ (al : List (List Rat)) (k d j : Nat),
    (d, j) ∈ membersFrom v k al ↔ k ≤ d ∧ ∃ a, al[d - k]? = some a ∧ posOf v a = some j := by
  intro al
  induction al with
  | nil => intro k d j; simp [membersFrom]
  | cons a rest ih =>
    intro k d j
    have key : (d, j) ∈ membersFrom v (k + 1) rest ↔
        k < d ∧ ∃ a', (a :: rest)[d - k]? = some a' ∧ posOf v a' = some j := by
      rw [ih (k + 1) d j]
      constructor
      · rintro ⟨hk, a', ha', hp⟩
        refine ⟨by omega, a', ?_, hp⟩
        have : d - k = (d - (k + 1)) + 1 := by omega
        rw [this]; simpa using ha'
      · rintro ⟨hk, a', ha', hp⟩
        refine ⟨by omega, a', ?_, hp⟩
        have : d - k = (d - (k + 1)) + 1 := by omega
        rw [this] at ha'; simpa using ha'
    simp only [membersFrom]
    split
    · rename_i j0 hj0
      simp only [List.mem_cons, Prod.mk.injEq, key]
      constructor
      · rintro (⟨rfl, rfl⟩ | ⟨hk, h⟩)
        · exact ⟨le_refl _, a, by simp, hj0⟩
        · exact ⟨le_of_lt hk, h⟩
      · rintro ⟨hk, a', ha', hp⟩
        rcases Nat.eq_or_lt_of_le hk with rfl | hlt
        · left
          simp at ha'; subst ha'
          rw [hj0] at hp; cases hp; exact ⟨rfl, rfl⟩
        · right; exact ⟨hlt, a', ha', hp⟩
    · rename_i hnone
      rw [key]
      constructor
      · rintro ⟨hk, h⟩; exact ⟨le_of_lt hk, h⟩
      · rintro ⟨hk, a', ha', hp⟩
        rcases Nat.eq_or_lt_of_le hk with rfl | hlt
        · simp at ha'; subst ha'; rw [hnone] at hp; cases hp
        · exact ⟨hlt, a', ha', hp⟩

theorem membersFrom_sorted (v : Rat) : ∀ (al : List (List Rat)) (k : Nat),
    (membersFrom v k al).Pairwise (fun p q => p.1 < q.1) ∧ ∀ p ∈ membersFrom v k al, k ≤ p.1 := by
  intro al
  induction al with
  | nil => intro k; simp [membersFrom]
  | cons a rest ih =>
    intro k
    obtain ⟨hs, hge⟩ := ih (k + 1)
    simp only [membersFrom]
    split
    · refine ⟨List.pairwise_cons.mpr ⟨?_, hs⟩, ?_⟩
      · intro p hp; have := hge p hp; simp; omega
      · intro p hp
        rcases List.mem_cons.mp hp with rfl | hp
        · simp
        · have := hge p hp; omega
    · exact ⟨hs, fun p hp => by have := hge p hp; omega⟩

theorem not_nodup_map_iff (f : Rat → Rat) (ax : List Rat) :
    ¬ (ax.map f).Nodup ↔
      ∃ (j k : Nat) (hj : j < ax.length) (hk : k < ax.length), j < k ∧ f ax[j] = f ax[k] := by
  rw [List.Nodup, List.pairwise_map, List.pairwise_iff_getElem]
  push Not
  constructor
  · rintro ⟨j, k, hj, hk, hlt, h⟩; exact ⟨j, k, hj, hk, hlt, h⟩
  · rintro ⟨j, k, hj, hk, hlt, h⟩; exact ⟨j, k, hj, hk, hlt, h⟩

theorem mem_accAfter (v : Rat) : ∀ (al : List (List Rat)) (acc : List Rat),
    v ∈ accAfter acc al ↔ v ∈ acc ∨ v ∈ al.flatten := by
  intro al
  induction al with
  | nil => intro acc; simp [accAfter]
  | cons row rest ih =>
    intro acc
    have : accAfter acc (row :: rest) = accAfter (unique (acc ++ row)) rest := rfl
    rw [this, ih, mem_unique]
    simp only [List.mem_append, List.flatten_cons]
    tauto

end Glotaran.C09
