/-
C06 helper lemmas: full models (datasets with global megacomplexes).
* the matrix handed to the solver, in a canonical form (`fullRows`): one Kronecker block per global index;
* a Kronecker row read by label pair (`kron_getD`);
* a labelled matrix whose labelled entries agree with those of another one is that matrix with its columns
  re-ordered by label (`sliceMat_reorder`);
* permuting the megacomplexes / global megacomplexes re-orders the columns of the full matrix by label pair
  (`fullRows_reorder`, `full_model_perm_lem`).
-/
import GlotaranModel.C06
import GlotaranProofs.Lemmas.C06
import GlotaranProofs.Lemmas.C06Reorder
namespace Glotaran.C06
open Glotaran.LinAlg Glotaran.C02

/-! ### well-formed labelled matrices -/

/-- distinct labels, `nRows` rows (for each of the `nIdx` indices when 3-D), one column per label -/
def Rect (lm : LMat) (nRows nIdx : Nat) : Prop :=
  lm.labels.Nodup ∧ Shaped lm.body nRows nIdx ∧
    ∀ i, i < nIdx → ∀ row ∈ sliceMat lm i, row.length = lm.labels.length

theorem sliceMat_length (lm : LMat) (nRows nIdx : Nat) (hs : Shaped lm.body nRows nIdx) (i : Nat) (hi : i < nIdx) :
    (sliceMat lm i).length = nRows := by
  obtain ⟨labels, body⟩ := lm
  cases body with
  | d2 m => exact hs
  | d3 ms =>
    obtain ⟨m, hm, hmr⟩ := shaped_d3_get hs hi
    simpa [sliceMat, List.getD_eq_getElem?_getD, hm] using hmr

theorem entry_slice (lm : LMat) (nRows nIdx : Nat) (hs : Shaped lm.body nRows nIdx) (l : String)
    (i r : Nat) (hi : i < nIdx) :
    entry lm l i r = ((colOf lm.labels (sliceMat lm i) l).getD []).getD r 0 := by
  obtain ⟨labels, body⟩ := lm
  cases body with
  | d2 m => rfl
  | d3 ms =>
    obtain ⟨m, hm, _⟩ := shaped_d3_get hs hi
    rw [entry_d3 labels ms l i r m hm]
    simp [sliceMat, List.getD_eq_getElem?_getD, hm]

theorem col_getD (A : Mat) (c r : Nat) : (col A c).getD r 0 = (A.getD r []).getD c 0 := by
  simp only [col, List.getD_eq_getElem?_getD, List.getElem?_map]
  cases A[r]? with
  | none => simp
  | some row => simp

/-- the entry under the `c`-th label is the entry in column `c` -/
theorem entry_at_label (lm : LMat) (nRows nIdx : Nat) (h : Rect lm nRows nIdx) (c : Nat)
    (hc : c < lm.labels.length) (i r : Nat) (hi : i < nIdx) :
    entry lm lm.labels[c] i r = ((sliceMat lm i).getD r []).getD c 0 := by
  rw [entry_slice lm nRows nIdx h.2.1 _ i r hi]
  have : lm.labels.idxOf? lm.labels[c] = some c := by
    rw [idxOf?_eq_some_idxOf lm.labels _ (List.getElem_mem hc), h.1.idxOf_getElem c hc]
  simp only [colOf, this, Option.getD_some]
  exact col_getD _ c r

/-- the entry under a label of the matrix is the entry in the column `idxOf` that label -/
theorem entry_idxOf (lm : LMat) (nRows nIdx : Nat) (h : Rect lm nRows nIdx) (l : String) (hl : l ∈ lm.labels)
    (i r : Nat) (hi : i < nIdx) :
    entry lm l i r = ((sliceMat lm i).getD r []).getD (lm.labels.idxOf l) 0 := by
  have hk : lm.labels.idxOf l < lm.labels.length := List.idxOf_lt_length_of_mem hl
  have := entry_at_label lm nRows nIdx h (lm.labels.idxOf l) hk i r hi
  rwa [List.getElem_idxOf hk] at this

/-- **two labelled matrices with the same labelled entries**: the second is the first with its columns
    re-ordered by label -/
theorem sliceMat_reorder (lm lm' : LMat) (nRows nIdx : Nat) (h : Rect lm nRows nIdx) (h' : Rect lm' nRows nIdx)
    (hp : lm'.labels.Perm lm.labels) (he : ∀ l i r, i < nIdx → entry lm' l i r = entry lm l i r)
    (i : Nat) (hi : i < nIdx) :
    sliceMat lm' i = reorderCols lm.labels (sliceMat lm i) lm'.labels := by
  have hlen := sliceMat_length lm nRows nIdx h.2.1 i hi
  have hlen' := sliceMat_length lm' nRows nIdx h'.2.1 i hi
  apply List.ext_getElem
  · simp [reorderCols, hlen, hlen']
  · intro r h1 h2
    have hr : r < (sliceMat lm i).length := by rw [hlen, ← hlen']; exact h1
    simp only [reorderCols, List.getElem_map]
    apply List.ext_getElem
    · simp [h'.2.2 i hi _ (List.getElem_mem h1)]
    · intro c hc1 hc2
      have hc : c < lm'.labels.length := by simpa using hc2
      have hmem : lm'.labels[c] ∈ lm.labels := hp.subset (List.getElem_mem hc)
      have e1 := entry_at_label lm' nRows nIdx h' c hc i r hi
      have e2 := entry_idxOf lm nRows nIdx h lm'.labels[c] hmem i r hi
      rw [he _ i r hi, e2] at e1
      simp only [List.getElem_map]
      have l1 : ((sliceMat lm' i).getD r []).getD c 0 = (sliceMat lm' i)[r][c] := by
        simp [List.getD_eq_getElem?_getD, List.getElem?_eq_getElem h1, List.getElem?_eq_getElem hc1]
      have l2 : (sliceMat lm i).getD r [] = (sliceMat lm i)[r] := by
        simp [List.getD_eq_getElem?_getD, List.getElem?_eq_getElem hr]
      rw [l1, l2] at e1
      exact e1.symm

/-! ### the full matrix in canonical form -/

/-- one Kronecker block `G[g] ⊗ M_g` per global index -/
def fullRows (G : Mat) (lm : LMat) (nGlobal : Nat) : Mat :=
  (List.range nGlobal).flatMap (fun g => kronRow (G.getD g []) (sliceMat lm g))

/-- `matrix.T.flatten()`: global-major -/
def flatCols (w : Mat) (nGlobal : Nat) : Vec := (List.range nGlobal).flatMap (fun g => col w g)

theorem flatMap_range_getD {β γ : Type} (l : List β) (dflt : β) (F : β → List γ) :
    (List.range l.length).flatMap (fun i => F (l.getD i dflt)) = l.flatMap F := by
  induction l with
  | nil => simp
  | cons x l ih =>
    rw [List.length_cons, List.range_succ_eq_map, List.flatMap_cons, List.flatMap_map]
    simp only [List.getD_cons_zero, List.flatMap_cons, List.getD_cons_succ]
    rw [ih]

theorem zipWith_range_getD {β γ δ : Type} (f : β → γ → δ) (as : List β) (bs : List γ) (da : β) (db : γ)
    (n : Nat) (ha : as.length = n) (hb : bs.length = n) :
    List.zipWith f as bs = (List.range n).map (fun i => f (as.getD i da) (bs.getD i db)) := by
  apply List.ext_getElem
  · simp [ha, hb]
  · intro i h1 h2
    have hia : i < as.length := by simp at h1; omega
    have hib : i < bs.length := by simp at h1; omega
    simp [List.getD_eq_getElem?_getD, List.getElem?_eq_getElem hia, List.getElem?_eq_getElem hib]

/-- **`fullModelProblem` in canonical form** -/
theorem fullModelProblem_eq (d : Dataset) (lm gm : LMat) (G : Mat)
    (hlm : datasetMatrix d.mcs = some lm) (hgm : datasetMatrix d.gmcs = some gm) (hGb : gm.body = .d2 G)
    (hs : Shaped lm.body d.nModel d.nGlobal) (hG : G.length = d.nGlobal) :
    fullModelProblem d = some
      ((match d.weight with
        | some w => weightRows (fullRows G lm d.nGlobal) (flatCols w d.nGlobal)
        | none => fullRows G lm d.nGlobal),
       flatCols d.weightedData d.nGlobal) := by
  unfold fullModelProblem fullRows
  simp only [hlm, hgm, hGb]
  cases hb : lm.body with
  | d2 m =>
    have e : G.flatMap (fun grow => kronRow grow m) =
        (List.range d.nGlobal).flatMap (fun g => kronRow (G.getD g []) (sliceMat lm g)) := by
      simp only [sliceMat, hb]
      rw [← hG]
      exact (flatMap_range_getD G [] (fun grow => kronRow grow m)).symm
    simp only [e]
    cases d.weight <;> rfl
  | d3 ms =>
    rw [hb] at hs
    have e : (List.zipWith (fun grow m => kronRow grow m) G ms).flatten =
        (List.range d.nGlobal).flatMap (fun g => kronRow (G.getD g []) (sliceMat lm g)) := by
      simp only [sliceMat, hb]
      rw [zipWith_range_getD (fun grow m => kronRow grow m) G ms [] [] d.nGlobal hG hs.1, List.flatMap_def]
    simp only [e]
    cases d.weight <;> rfl

/-! ### a Kronecker row by label pair -/

theorem idxOf_map_pair (g : String) (ml : List String) (l : String) :
    (ml.map (fun x => (g, x))).idxOf (g, l) = ml.idxOf l := by
  induction ml with
  | nil => rfl
  | cons a t ih =>
    simp only [List.map_cons, List.idxOf_cons, ih]
    by_cases h : a = l
    · subst h; simp
    · have h1 : (a == l) = false := by simpa using h
      have h2 : ((g, a) == (g, l)) = false := by
        simp only [beq_eq_false_iff_ne, ne_eq, Prod.mk.injEq, true_and]; exact h
      rw [h1, h2]

theorem flatMap_congr_mem {β γ : Type} (xs : List β) (F F' : β → List γ) (h : ∀ x ∈ xs, F x = F' x) :
    xs.flatMap F = xs.flatMap F' := by
  induction xs with
  | nil => rfl
  | cons x t ih =>
    simp only [List.flatMap_cons]
    rw [h x (by simp), ih (fun y hy => h y (by simp [hy]))]

theorem getD_append_lt (a b : Vec) (i : Nat) (h : i < a.length) : (a ++ b).getD i 0 = a.getD i 0 := by
  simp [List.getD_eq_getElem?_getD, List.getElem?_append_left h]

theorem getD_append_add (a b : Vec) (i : Nat) : (a ++ b).getD (i + a.length) 0 = b.getD i 0 := by
  simp [List.getD_eq_getElem?_getD, List.getElem?_append_right]

/-- the entry of `grow ⊗ row` in the column of the pair `(G, L)` is `grow[G] · row[L]` -/
theorem kron_getD (gl ml : List String) (grow row : Vec) (hg : grow.length = gl.length)
    (hr : row.length = ml.length) (G L : String) (hL : L ∈ ml) :
    (grow.flatMap (fun gv => row.map (gv * ·))).getD ((fullLabels gl ml).idxOf (G, L)) 0 =
      grow.getD (gl.idxOf G) 0 * row.getD (ml.idxOf L) 0 := by
  induction gl generalizing grow with
  | nil =>
    have : grow = [] := List.length_eq_zero_iff.mp (by simpa using hg)
    subst this
    simp
  | cons a gl ih =>
    cases grow with
    | nil => simp at hg
    | cons gv gs =>
      have hg' : gs.length = gl.length := by simpa using hg
      have hfl : fullLabels (a :: gl) ml = ml.map (fun x => (a, x)) ++ fullLabels gl ml := by
        simp [fullLabels]
      rw [hfl, List.flatMap_cons, List.idxOf_append]
      by_cases hag : a = G
      · subst hag
        have hmem : (a, L) ∈ ml.map (fun x => (a, x)) := List.mem_map.mpr ⟨L, hL, rfl⟩
        rw [if_pos hmem, idxOf_map_pair]
        have hlt : ml.idxOf L < (row.map (gv * ·)).length := by
          rw [List.length_map, hr]; exact List.idxOf_lt_length_of_mem hL
        rw [getD_append_lt _ _ _ hlt, getD_map_mul]
        simp
      · have hnm : (G, L) ∉ ml.map (fun x => (a, x)) := by
          intro h
          obtain ⟨x, _, hx⟩ := List.mem_map.mp h
          exact hag (Prod.mk.inj hx).1
        rw [if_neg hnm]
        have hlen : (ml.map (fun x => (a, x))).length = (row.map (gv * ·)).length := by simp [hr]
        rw [hlen, getD_append_add, ih gs hg', idxOf_cons_ne_by a G gl hag]
        simp

/-- a Kronecker row of re-ordered factors is the Kronecker row re-ordered by label pair -/
theorem kron_reorder (gl ml gl' ml' : List String) (grow row : Vec) (hg : grow.length = gl.length)
    (hr : row.length = ml.length) (hml : ∀ l ∈ ml', l ∈ ml) :
    (reorderVec gl grow gl').flatMap (fun gv => (reorderVec ml row ml').map (gv * ·)) =
      reorderVecBy (fullLabels gl ml) (grow.flatMap (fun gv => row.map (gv * ·))) (fullLabels gl' ml') := by
  simp only [reorderVec, reorderVecBy, fullLabels, List.flatMap_map, List.map_flatMap, List.map_map]
  apply flatMap_congr_mem
  intro G _
  apply List.map_congr_left
  intro L hL
  simp only [Function.comp]
  exact (kron_getD gl ml grow row hg hr G L (hml L hL)).symm

theorem kronRow_reorder (gl ml gl' ml' : List String) (grow : Vec) (M : Mat) (hg : grow.length = gl.length)
    (hM : ∀ row ∈ M, row.length = ml.length) (hml : ∀ l ∈ ml', l ∈ ml) :
    kronRow (reorderVec gl grow gl') (reorderCols ml M ml') =
      reorderColsBy (fullLabels gl ml) (kronRow grow M) (fullLabels gl' ml') := by
  simp only [kronRow, reorderCols, reorderColsBy, List.map_map]
  apply List.map_congr_left
  intro row hrow
  exact kron_reorder gl ml gl' ml' grow row hg (hM row hrow) hml

theorem reorderColsBy_flatMap {α β : Type} [BEq α] (labels wanted : List α) (xs : List β) (F : β → Mat) :
    reorderColsBy labels (xs.flatMap F) wanted = xs.flatMap (fun x => reorderColsBy labels (F x) wanted) := by
  simp only [reorderColsBy, List.map_flatMap]

theorem reorderColsBy_weightRows {α : Type} [BEq α] (labels wanted : List α) (A : Mat) (w : Vec) :
    weightRows (reorderColsBy labels A wanted) w = reorderColsBy labels (weightRows A w) wanted := by
  simp only [weightRows, reorderColsBy, List.zipWith_map_left]
  apply List.ext_getElem
  · simp
  · intro i h1 h2
    simp only [List.getElem_zipWith, List.getElem_map, vscale, List.map_map]
    apply List.map_congr_left
    intro l _
    simp only [Function.comp]
    exact (getD_map_mul _ _ _).symm

/-! ### pair labels -/

theorem mem_fullLabels (gl ml : List String) (p : String × String) :
    p ∈ fullLabels gl ml ↔ p.1 ∈ gl ∧ p.2 ∈ ml := by
  obtain ⟨g, l⟩ := p
  simp only [fullLabels, List.mem_flatMap, List.mem_map, Prod.mk.injEq]
  constructor
  · rintro ⟨a, ha, b, hb, rfl, rfl⟩; exact ⟨ha, hb⟩
  · rintro ⟨hg, hl⟩; exact ⟨g, hg, l, hl, rfl, rfl⟩

theorem fullLabels_nodup (gl ml : List String) (hg : gl.Nodup) (hm : ml.Nodup) : (fullLabels gl ml).Nodup := by
  unfold fullLabels List.Nodup
  rw [List.pairwise_flatMap]
  constructor
  · intro g _
    exact nodup_map_on (fun x _ y _ e => (Prod.mk.inj e).2) hm
  · refine List.Pairwise.imp ?_ hg
    intro a b hab x hx y hy hxy
    obtain ⟨_, _, rfl⟩ := List.mem_map.mp hx
    obtain ⟨_, _, rfl⟩ := List.mem_map.mp hy
    exact hab (Prod.mk.inj hxy).1

theorem fullLabels_perm (gl ml gl' ml' : List String) (hg : gl.Nodup) (hm : ml.Nodup)
    (hpg : gl'.Perm gl) (hpm : ml'.Perm ml) : (fullLabels gl' ml').Perm (fullLabels gl ml) := by
  rw [List.perm_ext_iff_of_nodup (fullLabels_nodup gl' ml' (hpg.nodup_iff.mpr hg) (hpm.nodup_iff.mpr hm))
    (fullLabels_nodup gl ml hg hm)]
  intro p
  rw [mem_fullLabels, mem_fullLabels]
  exact ⟨fun ⟨a, b⟩ => ⟨hpg.subset a, hpm.subset b⟩, fun ⟨a, b⟩ => ⟨hpg.symm.subset a, hpm.symm.subset b⟩⟩

theorem fullLabels_length (gl ml : List String) : (fullLabels gl ml).length = gl.length * ml.length := by
  induction gl with
  | nil => simp [fullLabels]
  | cons a gl ih =>
    simp only [fullLabels, List.flatMap_cons, List.length_append, List.length_map, List.length_cons] at ih ⊢
    rw [ih, Nat.add_mul, Nat.one_mul, Nat.add_comm]

/-! ### the full matrix under a permutation of the labels -/

/-- the canonical full matrix of re-ordered factors is the full matrix re-ordered by label pair -/
theorem fullRows_reorder (G G' : Mat) (lm lm' gm gm' : LMat) (nModel nGlobal : Nat)
    (hGb : gm.body = .d2 G) (hGb' : gm'.body = .d2 G')
    (hl : Rect lm nModel nGlobal) (hl' : Rect lm' nModel nGlobal)
    (hg : Rect gm nGlobal 1) (hg' : Rect gm' nGlobal 1)
    (hpl : lm'.labels.Perm lm.labels) (hpg : gm'.labels.Perm gm.labels)
    (hel : ∀ l i r, i < nGlobal → entry lm' l i r = entry lm l i r)
    (heg : ∀ l i r, i < 1 → entry gm' l i r = entry gm l i r) :
    fullRows G' lm' nGlobal =
      reorderColsBy (fullLabels gm.labels lm.labels) (fullRows G lm nGlobal) (fullLabels gm'.labels lm'.labels) := by
  unfold fullRows
  rw [reorderColsBy_flatMap]
  apply flatMap_congr_mem
  intro g hgr
  have hgn : g < nGlobal := List.mem_range.mp hgr
  have hM := sliceMat_reorder lm lm' nModel nGlobal hl hl' hpl hel g hgn
  have hGG := sliceMat_reorder gm gm' nGlobal 1 hg hg' hpg heg 0 (by decide)
  have hsG : sliceMat gm 0 = G := by simp [sliceMat, hGb]
  have hsG' : sliceMat gm' 0 = G' := by simp [sliceMat, hGb']
  rw [hsG, hsG'] at hGG
  have hGlen : G.length = nGlobal := by
    have := sliceMat_length gm nGlobal 1 hg.2.1 0 (by decide); rwa [hsG] at this
  have hrowG : G'.getD g [] = reorderVec gm.labels (G.getD g []) gm'.labels := by
    rw [hGG]
    simp [reorderCols, reorderVec, List.getD_eq_getElem?_getD, List.getElem?_map,
      List.getElem?_eq_getElem (show g < G.length by omega)]
  have hGw : (G.getD g []).length = gm.labels.length := by
    have hmem : G.getD g [] ∈ G := by
      simp [List.getD_eq_getElem?_getD, List.getElem?_eq_getElem (show g < G.length by omega)]
    have := hg.2.2 0 (by decide) (G.getD g []) (by rw [hsG]; exact hmem)
    exact this
  rw [hrowG, hM]
  exact kronRow_reorder gm.labels lm.labels gm'.labels lm'.labels (G.getD g []) (sliceMat lm g) hGw
    (hl.2.2 g hgn) (fun l hl0 => hpl.subset hl0)

/-! ### sizes -/

theorem flatMap_const_length {β γ : Type} (xs : List β) (F : β → List γ) (n : Nat)
    (h : ∀ x ∈ xs, (F x).length = n) : (xs.flatMap F).length = xs.length * n := by
  induction xs with
  | nil => simp
  | cons x t ih =>
    simp only [List.flatMap_cons, List.length_append, List.length_cons]
    rw [h x (by simp), ih (fun y hy => h y (by simp [hy])), Nat.add_mul, Nat.one_mul, Nat.add_comm]

theorem flatMap_const_getElem? {β γ : Type} (xs : List β) (F : β → List γ) (n : Nat)
    (h : ∀ x ∈ xs, (F x).length = n) (g m : Nat) (hg : g < xs.length) (hm : m < n) :
    (xs.flatMap F)[g * n + m]? = (F xs[g])[m]? := by
  induction xs generalizing g with
  | nil => simp at hg
  | cons x t ih =>
    have hx : (F x).length = n := h x (by simp)
    simp only [List.flatMap_cons]
    cases g with
    | zero =>
      simp only [Nat.zero_mul, Nat.zero_add, List.getElem_cons_zero]
      exact List.getElem?_append_left (by omega)
    | succ g' =>
      have e : (g' + 1) * n + m = (F x).length + (g' * n + m) := by rw [hx, Nat.add_mul, Nat.one_mul]; omega
      rw [e, List.getElem?_append_right (by omega), Nat.add_sub_cancel_left]
      simp only [List.getElem_cons_succ]
      exact ih (fun y hy => h y (by simp [hy])) g' (by simpa using hg)

theorem kronRow_length (grow : Vec) (M : Mat) : (kronRow grow M).length = M.length := by simp [kronRow]

theorem kron_width (grow row : Vec) : (grow.flatMap (fun gv => row.map (gv * ·))).length = grow.length * row.length :=
  flatMap_const_length grow _ row.length (fun _ _ => by simp)

theorem fullRows_length (G : Mat) (lm : LMat) (nModel nGlobal : Nat) (hs : Shaped lm.body nModel nGlobal) :
    (fullRows G lm nGlobal).length = nGlobal * nModel := by
  unfold fullRows
  rw [flatMap_const_length (List.range nGlobal) _ nModel, List.length_range]
  intro g hg
  rw [kronRow_length]
  exact sliceMat_length lm nModel nGlobal hs g (List.mem_range.mp hg)

theorem fullRows_width (G : Mat) (lm gm : LMat) (nModel nGlobal : Nat) (hGb : gm.body = .d2 G)
    (hl : Rect lm nModel nGlobal) (hg : Rect gm nGlobal 1) :
    ∀ row ∈ fullRows G lm nGlobal, row.length = (fullLabels gm.labels lm.labels).length := by
  intro row hrow
  simp only [fullRows, List.mem_flatMap, List.mem_range, kronRow, List.mem_map] at hrow
  obtain ⟨g, hgn, r, hr, rfl⟩ := hrow
  have hsG : sliceMat gm 0 = G := by simp [sliceMat, hGb]
  have hGlen : G.length = nGlobal := by
    have := sliceMat_length gm nGlobal 1 hg.2.1 0 (by decide); rwa [hsG] at this
  have hGw : (G.getD g []).length = gm.labels.length := by
    have hmem : G.getD g [] ∈ G := by
      simp [List.getD_eq_getElem?_getD, List.getElem?_eq_getElem (show g < G.length by omega)]
    exact hg.2.2 0 (by decide) (G.getD g []) (by rw [hsG]; exact hmem)
  rw [kron_width, hGw, hl.2.2 g hgn r hr, fullLabels_length]

theorem flatCols_length (w : Mat) (nGlobal : Nat) : (flatCols w nGlobal).length = nGlobal * w.length := by
  unfold flatCols
  rw [flatMap_const_length (List.range nGlobal) _ w.length (fun _ _ => by simp [col]), List.length_range]

theorem weightRows_length (A : Mat) (w : Vec) (h : w.length = A.length) : (weightRows A w).length = A.length := by
  simp [weightRows, h]

theorem weightRows_width (A : Mat) (w : Vec) (n : Nat) (h : ∀ row ∈ A, row.length = n) :
    ∀ row ∈ weightRows A w, row.length = n := by
  intro row hrow
  obtain ⟨i, hi, rfl⟩ := List.getElem_of_mem hrow
  simp only [weightRows, List.getElem_zipWith, vscale, List.length_map]
  exact h _ (List.getElem_mem _)

/-! ### positions of label pairs -/

theorem fullLabels_idxOf (gl ml : List String) (G L : String) (hG : G ∈ gl) (hL : L ∈ ml) :
    (fullLabels gl ml).idxOf (G, L) = gl.idxOf G * ml.length + ml.idxOf L := by
  induction gl with
  | nil => simp at hG
  | cons a gl ih =>
    have hfl : fullLabels (a :: gl) ml = ml.map (fun x => (a, x)) ++ fullLabels gl ml := by
      simp [fullLabels]
    rw [hfl, List.idxOf_append]
    by_cases hag : a = G
    · subst hag
      have hmem : (a, L) ∈ ml.map (fun x => (a, x)) := List.mem_map.mpr ⟨L, hL, rfl⟩
      rw [if_pos hmem, idxOf_map_pair]
      simp
    · have hnm : (G, L) ∉ ml.map (fun x => (a, x)) := by
        intro h
        obtain ⟨x, _, hx⟩ := List.mem_map.mp h
        exact hag (Prod.mk.inj hx).1
      have hG' : G ∈ gl := by
        rcases List.mem_cons.mp hG with h | h
        · exact absurd h.symm hag
        · exact h
      rw [if_neg hnm, ih hG', idxOf_cons_ne_by a G gl hag, List.length_map, Nat.add_mul, Nat.one_mul]
      omega

/-- `clp.sel(global_clp_label=G, clp_label=L)` reads the entry of the pair `(G, L)` -/
theorem fullClpAt_eq (gl ml : List String) (c : Vec) (G L : String) (hG : G ∈ gl) (hL : L ∈ ml) :
    fullClpAt gl ml c G L = some (c.getD ((fullLabels gl ml).idxOf (G, L)) 0) := by
  unfold fullClpAt
  rw [idxOf?_eq_some_idxOf gl G hG, idxOf?_eq_some_idxOf ml L hL, fullLabels_idxOf gl ml G L hG hL]

theorem fullClpAt_keyerror (gl ml : List String) (c : Vec) (G L : String) (h : G ∉ gl ∨ L ∉ ml) :
    fullClpAt gl ml c G L = none := by
  unfold fullClpAt
  rcases h with h | h
  · rw [List.idxOf?_eq_none_iff.mpr h]
  · rw [List.idxOf?_eq_none_iff.mpr h]
    cases gl.idxOf? G <;> rfl

theorem reorderVecBy_getD {α : Type} [BEq α] [LawfulBEq α] (labels wanted : List α) (c : Vec) (p : α)
    (hp : p ∈ wanted) :
    (reorderVecBy labels c wanted).getD (wanted.idxOf p) 0 = c.getD (labels.idxOf p) 0 := by
  have hk : wanted.idxOf p < wanted.length := List.idxOf_lt_length_of_mem hp
  simp only [reorderVecBy, List.getD_eq_getElem?_getD, List.getElem?_map, List.getElem?_eq_getElem hk,
    Option.map_some, Option.getD_some, List.getElem_idxOf hk]

/-! ### the dataset matrix is well formed when every megacomplex matrix is -/

theorem fromCols_width (n : Nat) (cols : List Vec) : ∀ row ∈ fromCols n cols, row.length = cols.length := by
  intro row hrow
  simp only [fromCols, List.mem_map] at hrow
  obtain ⟨_, _, rfl⟩ := hrow
  simp

theorem combine2_width (labels ll lr : List String) (a b : Mat) :
    ∀ row ∈ combine2 labels ll lr a b, row.length = labels.length := by
  intro row hrow
  have := fromCols_width _ _ row hrow
  simpa using this

/-- a combined matrix always has one column per label -/
theorem combine_width (a b : LMat) (i : Nat) :
    ∀ row ∈ sliceMat (combine a b) i, row.length = (combine a b).labels.length := by
  obtain ⟨la, ba⟩ := a
  obtain ⟨lb, bb⟩ := b
  cases ba with
  | d2 ma =>
    cases bb with
    | d2 mb => simp only [combine, sliceMat]; exact combine2_width _ _ _ _ _
    | d3 bs =>
      simp only [combine, sliceMat]
      intro row hrow
      by_cases hi : i < bs.length
      · simp only [List.getD_eq_getElem?_getD, List.getElem?_map, List.getElem?_eq_getElem hi, Option.map_some,
          Option.getD_some] at hrow
        exact combine2_width _ _ _ _ _ row hrow
      · simp [List.getD_eq_getElem?_getD, List.getElem?_eq_none (Nat.le_of_not_lt hi)] at hrow
  | d3 as =>
    cases bb with
    | d2 mb =>
      simp only [combine, sliceMat]
      intro row hrow
      by_cases hi : i < as.length
      · simp only [List.getD_eq_getElem?_getD, List.getElem?_map, List.getElem?_eq_getElem hi, Option.map_some,
          Option.getD_some] at hrow
        exact combine2_width _ _ _ _ _ row hrow
      · simp [List.getD_eq_getElem?_getD, List.getElem?_eq_none (Nat.le_of_not_lt hi)] at hrow
    | d3 bs =>
      simp only [combine, sliceMat]
      intro row hrow
      by_cases hi : i < as.length ∧ i < bs.length
      · simp only [List.getD_eq_getElem?_getD, List.getElem?_zipWith, List.getElem?_eq_getElem hi.1,
          List.getElem?_eq_getElem hi.2, Option.getD_some] at hrow
        exact combine2_width _ _ _ _ _ row hrow
      · have : (List.zipWith (fun a b => combine2 (la ++ lb.filter (fun c => !la.contains c)) la lb a b) as bs)[i]? = none := by
          apply List.getElem?_eq_none
          simp only [List.length_zipWith]
          omega
        rw [List.getD_eq_getElem?_getD, this] at hrow
        simp at hrow

theorem scale_width (lm : LMat) (k : Rat) (i : Nat)
    (h : ∀ row ∈ sliceMat lm i, row.length = lm.labels.length) :
    ∀ row ∈ sliceMat ⟨lm.labels, lm.body.scale k⟩ i, row.length = lm.labels.length := by
  obtain ⟨labels, body⟩ := lm
  cases body with
  | d2 m =>
    intro row hrow
    simp only [sliceMat, Body.scale, mscale, List.mem_map] at hrow h
    obtain ⟨r0, hr0, rfl⟩ := hrow
    simpa [vscale] using h r0 hr0
  | d3 ms =>
    intro row hrow
    simp only [sliceMat, Body.scale, List.getD_eq_getElem?_getD, List.getElem?_map] at hrow h
    cases hm : ms[i]? with
    | none => simp [hm] at hrow
    | some m0 =>
      simp only [hm, Option.map_some, Option.getD_some, mscale, List.mem_map] at hrow h
      obtain ⟨r0, hr0, rfl⟩ := hrow
      simpa [vscale] using h r0 hr0

theorem scaled_width (o : McOut) (i : Nat) (h : ∀ row ∈ sliceMat o.out i, row.length = o.out.labels.length) :
    ∀ row ∈ sliceMat o.scaled i, row.length = o.scaled.labels.length := by
  rw [scaled_labels]
  unfold McOut.scaled
  cases o.scale with
  | none => exact h
  | some k => exact scale_width o.out k i h

theorem foldl_combine_width (rest : List McOut) (acc : LMat) (i : Nat)
    (hacc : ∀ row ∈ sliceMat acc i, row.length = acc.labels.length) :
    ∀ row ∈ sliceMat (rest.foldl (fun acc o => combine acc o.scaled) acc) i,
      row.length = (rest.foldl (fun acc o => combine acc o.scaled) acc).labels.length := by
  induction rest generalizing acc with
  | nil => exact hacc
  | cons o t ih => exact ih (combine acc o.scaled) (combine_width acc o.scaled i)

/-- **`datasetMatrix` of well-formed megacomplex matrices is well formed** -/
theorem datasetMatrix_rect (mcs : List McOut) (lm : LMat) (h : datasetMatrix mcs = some lm) (nRows nIdx : Nat)
    (hr : ∀ o ∈ mcs, Rect o.out nRows nIdx) (hi : 0 < nIdx) : Rect lm nRows nIdx := by
  refine ⟨(datasetMatrix_labels_lem mcs lm h (fun o ho => (hr o ho).1)).1,
    (datasetMatrix_entry_lem mcs lm h nRows nIdx (fun o ho => (hr o ho).2.1) "" 0 0 hi).1, ?_⟩
  intro i hin
  cases mcs with
  | nil => simp [datasetMatrix] at h
  | cons m rest =>
    simp only [datasetMatrix, Option.some.injEq] at h
    subst h
    exact foldl_combine_width rest m.scaled i (scaled_width m i ((hr m (by simp)).2.2 i hin))

/-! ### one entry of the full matrix -/

/-- the weight of data point (`m`, `g`); `1` for an unweighted dataset -/
def weightAt (d : Dataset) (m g : Nat) : Rat :=
  match d.weight with
  | none => 1
  | some w => (w.getD m []).getD g 0

theorem block_index_lt (g m nModel nGlobal : Nat) (hg : g < nGlobal) (hm : m < nModel) :
    g * nModel + m < nGlobal * nModel := by
  have h1 : (g + 1) * nModel ≤ nGlobal * nModel := Nat.mul_le_mul_right _ (by omega)
  have h2 : (g + 1) * nModel = g * nModel + nModel := Nat.succ_mul g nModel
  omega

theorem fullRows_row (G : Mat) (lm : LMat) (nModel nGlobal : Nat) (hs : Shaped lm.body nModel nGlobal)
    (g m : Nat) (hg : g < nGlobal) (hm : m < nModel) :
    (fullRows G lm nGlobal).getD (g * nModel + m) [] =
      (G.getD g []).flatMap (fun gv => ((sliceMat lm g).getD m []).map (gv * ·)) := by
  unfold fullRows
  have hlen : ∀ x ∈ List.range nGlobal, (kronRow (G.getD x []) (sliceMat lm x)).length = nModel := by
    intro x hx
    rw [kronRow_length]
    exact sliceMat_length lm nModel nGlobal hs x (List.mem_range.mp hx)
  have := flatMap_const_getElem? (List.range nGlobal) (fun g => kronRow (G.getD g []) (sliceMat lm g)) nModel hlen g m
    (by simpa using hg) hm
  have hml : m < (sliceMat lm g).length := by rw [sliceMat_length lm nModel nGlobal hs g hg]; exact hm
  rw [List.getD_eq_getElem?_getD, this]
  simp [kronRow, List.getElem?_map, List.getElem?_eq_getElem hml, List.getD_eq_getElem?_getD]

/-- row `g·nModel + m` of the matrix handed to the solver is `weight[m][g]` times the Kronecker row -/
theorem full_row_getD (d : Dataset) (G : Mat) (lm : LMat) (hs : Shaped lm.body d.nModel d.nGlobal)
    (hw : ∀ w, d.weight = some w → w.length = d.nModel) (g m k : Nat) (hg : g < d.nGlobal) (hm : m < d.nModel) :
    (((match d.weight with
        | some w => weightRows (fullRows G lm d.nGlobal) (flatCols w d.nGlobal)
        | none => fullRows G lm d.nGlobal).getD (g * d.nModel + m) []).getD k 0) =
      weightAt d m g * ((fullRows G lm d.nGlobal).getD (g * d.nModel + m) []).getD k 0 := by
  unfold weightAt
  cases hwd : d.weight with
  | none => simp
  | some w =>
    have hwl := hw w hwd
    have hi := block_index_lt g m d.nModel d.nGlobal hg hm
    have hA : g * d.nModel + m < (fullRows G lm d.nGlobal).length := by
      rw [fullRows_length G lm d.nModel d.nGlobal hs]; exact hi
    have hW : g * d.nModel + m < (flatCols w d.nGlobal).length := by
      rw [flatCols_length, hwl]; exact hi
    have hwv : (flatCols w d.nGlobal)[g * d.nModel + m] = (w.getD m []).getD g 0 := by
      have := flatMap_const_getElem? (List.range d.nGlobal) (fun g => col w g) d.nModel
        (fun x _ => by simp [col, hwl]) g m (by simpa using hg) hm
      have h2 : (flatCols w d.nGlobal)[g * d.nModel + m]? = some ((w.getD m []).getD g 0) := by
        unfold flatCols
        rw [this]
        simp only [List.getElem_range]
        have hmw : m < (col w g).length := by simp [col, hwl, hm]
        rw [List.getElem?_eq_getElem hmw]
        have := col_getD w g m
        simp only [List.getD_eq_getElem?_getD, List.getElem?_eq_getElem hmw, Option.getD_some] at this
        rw [this]
        simp [List.getD_eq_getElem?_getD]
      rw [List.getElem?_eq_getElem hW] at h2
      exact Option.some.inj h2
    simp only [weightRows, List.getD_eq_getElem?_getD, List.getElem?_zipWith, List.getElem?_eq_getElem hA,
      List.getElem?_eq_getElem hW, Option.getD_some, vscale, hwv]
    have := getD_map_mul ((w.getD m []).getD g 0) ((fullRows G lm d.nGlobal)[g * d.nModel + m]) k
    simpa [List.getD_eq_getElem?_getD] using this

theorem flat_data_length (d : Dataset) (hw : ∀ w, d.weight = some w → w.length = d.nModel) :
    (flatCols d.weightedData d.nGlobal).length = d.nGlobal * d.nModel := by
  rw [flatCols_length]
  congr 1
  unfold Dataset.weightedData
  cases hwd : d.weight with
  | none => rfl
  | some w => simp [hadamard, hw w hwd, Dataset.nModel]

end Glotaran.C06
