/-
C06 helper lemmas: interpretation of the regenerated `finalize_data` tables (Generated/C06Fin.lean).
-/
import GlotaranModel.C06Fin
import GlotaranProofs.Lemmas.C06Gen
namespace Glotaran.C06.Fin
open Glotaran.C06

theorem entriesOf_map (e : LEnv) (cell : Cell) (ls : List String) (f : String → BExpr)
    (h : ∀ x, cell.interp e x = some (f x)) : entriesOf e cell ls = some (ls.map (fun x => (x, f x))) := by
  unfold entriesOf
  exact mapM_some_map ls _ _ (fun x _ => by simp [h x])

theorem render_var_suffix (e : LEnv) (x s : String) : renderParts e x [.var, .lit s] = some (x ++ s) := by
  simp [renderParts]

theorem render_only_var (e : LEnv) (x : String) : renderParts e x [.var] = some x := by
  simp [renderParts]

/-- `np.sqrt(sin * sin + cos * cos)` of the clps `<x>_sin`, `<x>_cos` -/
theorem entries_amplitude (e : LEnv) (ls : List String) :
    entriesOf e (.sqrt (.add (.mul (.sel .clp "clp_label" [.var, .lit "_sin"]) (.sel .clp "clp_label" [.var, .lit "_sin"]))
      (.mul (.sel .clp "clp_label" [.var, .lit "_cos"]) (.sel .clp "clp_label" [.var, .lit "_cos"])))) ls =
      some (ls.map (fun x => (x, amplitudeOf x))) :=
  entriesOf_map e _ ls amplitudeOf (fun x => by simp [Cell.interp, render_var_suffix, amplitudeOf])

/-- `np.unwrap(np.arctan2(sin, cos))` along the global axis -/
theorem entries_phase (e : LEnv) (ls : List String) :
    entriesOf e (.unwrap .series (.atan2 (.sel .clp "clp_label" [.var, .lit "_sin"]) (.sel .clp "clp_label" [.var, .lit "_cos"]))) ls =
      some (ls.map (fun x => (x, phaseOf x))) :=
  entriesOf_map e _ ls phaseOf (fun x => by simp [Cell.interp, render_var_suffix, phaseOf])

theorem entries_matrix_suffix (e : LEnv) (ls : List String) (s : String) :
    entriesOf e (.sel .matrix "clp_label" [.var, .lit s]) ls = some (ls.map (fun x => (x, .matrixCol (x ++ s)))) :=
  entriesOf_map e _ ls _ (fun x => by simp [Cell.interp, render_var_suffix])

theorem entries_matrix_var (e : LEnv) (ls : List String) :
    entriesOf e (.sel .matrix "clp_label" [.var]) ls = some (ls.map (fun x => (x, .matrixCol x))) :=
  entriesOf_map e _ ls _ (fun x => by simp [Cell.interp, render_only_var])

theorem entries_global_matrix_var (e : LEnv) (ls : List String) :
    entriesOf e (.sel .globalMatrix "global_clp_label" [.var]) ls = some (ls.map (fun x => (x, .globalMatrixCol x))) :=
  entriesOf_map e _ ls _ (fun x => by simp [Cell.interp, render_only_var])

theorem entries_clp_var (e : LEnv) (ls : List String) :
    entriesOf e (.sel .clp "clp_label" [.var]) ls = some (ls.map (fun x => (x, .clp x))) :=
  entriesOf_map e _ ls _ (fun x => by simp [Cell.interp, render_only_var])

theorem render_artifact_label (e : LEnv) (label : String) (he : e.scalars.lookup "self.label" = some label) (x : String) :
    renderParts e x [.lit "coherent_artifact_", .var, .lit "_", .attr "self.label"] =
      some ("coherent_artifact_" ++ x ++ "_" ++ label) := by
  simp only [renderParts, he, Option.map_some]
  simp [String.append_assoc]

theorem entries_artifact (e : LEnv) (label : String) (he : e.scalars.lookup "self.label" = some label) (ls : List String)
    (src : Src) (ctor : String → BExpr)
    (hs : ∀ x l, renderParts e x [.lit "coherent_artifact_", .var, .lit "_", .attr "self.label"] = some l →
      (Cell.sel src "clp_label" [.lit "coherent_artifact_", .var, .lit "_", .attr "self.label"]).interp e x = some (ctor l)) :
    entriesOf e (.sel src "clp_label" [.lit "coherent_artifact_", .var, .lit "_", .attr "self.label"]) ls =
      some (ls.map (fun x => (x, ctor ("coherent_artifact_" ++ x ++ "_" ++ label)))) :=
  entriesOf_map e _ ls _ (fun x => hs x _ (render_artifact_label e label he x))

/-- the terms of a linear combination: `dataset[name].sel({dim: species})` species by species -/
theorem lincomb_terms (e : LEnv) (n : List LPart) (name dim : String) (hn : renderParts e "" n = some name) (ls : List String) :
    ls.mapM (fun x => (Cell.sel (.resultVar n) dim [.var]).interp e x) = some (ls.map (fun s => .resultVar name dim s)) :=
  mapM_some_map ls _ _ (fun x _ => by simp [Cell.interp, hn, render_only_var])

theorem lookup_mcs (a : Args) :
    (megacomplexSources.map (fun s => (s, a.mcs))).lookup "collect_megacomplexes(dataset_model, False)" = some a.mcs ∧
    (megacomplexSources.map (fun s => (s, a.mcs))).lookup "collect_megacomplexes(dataset_model, True)" = some a.mcs := by
  constructor <;> simp [megacomplexSources, List.lookup]

theorem filter_all (l : List McInfo) : l.filter (fun _ => true) = l := by
  induction l with
  | nil => rfl
  | cons x t ih => simp

/-- the decay-associated-spectra row inside `for megacomplex in decay_megacomplexes` -/
theorem das_row (e : FEnv) (name g : String) (hname : e.base.scalars.lookup "name" = some name)
    (hg : e.base.scalars.lookup "global_dimension" = some g) (hk : e.innerKey = "get_compartments(dataset_model)") (m : McInfo) :
    Row.interp (e.withMc "megacomplex" m)
      (.lincomb [.lit "decay_associated_", .attr "name", .lit "_", .attr "megacomplex.label"]
        [[.attr "global_dimension"], [.lit "component_", .attr "megacomplex.label"]]
        (.resultVar [.lit "species_associated_", .attr "name"]) "species" (.attr "megacomplex.get_compartments(dataset_model)")
        "megacomplex.get_a_matrix(dataset_model)" true) =
      some (.lincomb ("decay_associated_" ++ name ++ "_" ++ m.label) [g, "component_" ++ m.label]
        (m.items.map (fun s => .resultVar ("species_associated_" ++ name) "species" s)) "megacomplex.get_a_matrix(dataset_model)" true) := by
  have hn : renderParts (e.withMc "megacomplex" m).base "" [.lit "species_associated_", .attr "name"] =
      some ("species_associated_" ++ name) := by
    simp [renderParts, FEnv.withMc, List.lookup, hname]
  simp only [Row.interp, lincomb_terms _ _ _ _ hn]
  simp [renderParts, FEnv.withMc, List.lookup, hname, hg, hk, Labels.eval, String.append_assoc]

end Glotaran.C06.Fin
