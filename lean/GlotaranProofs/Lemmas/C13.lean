/-
C13 — helper lemmas: sums of squares, the label characterisation of the reduced problems,
shapes of the residual blocks.
-/
import GlotaranModel.C13
import GlotaranProofs.Lemmas.C02
import GlotaranProofs.Lemmas.C02Length
import GlotaranProofs.Lemmas.C02Align
import GlotaranProofs.Lemmas.C02Combine
import GlotaranProofs.Lemmas.C03
import Mathlib.Tactic.Ring
import Mathlib.Tactic.Linarith
import Mathlib.Algebra.Order.Ring.Rat
namespace Glotaran.C13
open Glotaran.LinAlg Glotaran.C02

/-! ### sums of squares -/

theorem sumOfSquares_nil : sumOfSquares [] = 0 := rfl

theorem sumOfSquares_cons (a : Rat) (v : Vec) : sumOfSquares (a :: v) = a * a + sumOfSquares v := by
  simp [sumOfSquares]

theorem sumOfSquares_append (a b : Vec) : sumOfSquares (a ++ b) = sumOfSquares a + sumOfSquares b := by
  induction a with
  | nil => simp [sumOfSquares_nil]
  | cons x xs ih => rw [List.cons_append, sumOfSquares_cons, sumOfSquares_cons, ih]; ring

theorem sumOfSquares_flatten (vs : List Vec) : sumOfSquares vs.flatten = (vs.map sumOfSquares).sum := by
  induction vs with
  | nil => rfl
  | cons v vs ih => rw [List.flatten_cons, sumOfSquares_append, ih]; simp

theorem sumOfSquares_flatMap {α} (l : List α) (f : α → Vec) :
    sumOfSquares (l.flatMap f) = (l.map (fun a => sumOfSquares (f a))).sum := by
  rw [List.flatMap_def, sumOfSquares_flatten, List.map_map]; rfl

theorem sumOfSquares_nonneg (v : Vec) : 0 ≤ sumOfSquares v := by
  induction v with
  | nil => simp [sumOfSquares_nil]
  | cons x xs ih => rw [sumOfSquares_cons]; have := mul_self_nonneg x; linarith

/-- `np.dot(v, v)` is `np.sum(v**2)` -/
theorem dot_self_eq (v : Vec) : dot v v = sumOfSquares v := by
  induction v with
  | nil => rfl
  | cons x xs ih => rw [dot_cons, sumOfSquares_cons, ih]

theorem sum_map_add {α} (l : List α) (f g : α → Rat) :
    (l.map (fun a => f a + g a)).sum = (l.map f).sum + (l.map g).sum := by
  induction l with
  | nil => simp
  | cons a l ih => simp only [List.map_cons, List.sum_cons, ih]; ring

/-- zeros contribute nothing; `getD` past the end is a zero -/
theorem sumOfSquares_getD_range (c : Vec) (n : Nat) (h : c.length = n) :
    sumOfSquares ((List.range n).map (fun m => c.getD m 0)) = sumOfSquares c := by
  subst h; rw [map_getD_range]

/-- **transposition keeps the sum of squares**: laying `cols` (each of length `n`) out as the columns of an
    `n`-row matrix does not change the sum of squared entries -/
theorem matSumSq_ofColumns (n : Nat) (cols : List Vec) (h : ∀ c ∈ cols, c.length = n) :
    matSumSq (C03.ofColumns n cols) = sumOfSquares cols.flatten := by
  unfold matSumSq C03.ofColumns
  rw [← List.flatMap_def, sumOfSquares_flatMap]
  induction cols with
  | nil => simp [sumOfSquares_nil]
  | cons c cs ih =>
    have hc : c.length = n := h c (by simp)
    have ih' := ih (fun c' hc' => h c' (by simp [hc']))
    simp only [List.map_cons, sumOfSquares_cons]
    rw [sum_map_add, ih', List.flatten_cons, sumOfSquares_append]
    congr 1
    have := sumOfSquares_getD_range c n hc
    simpa [sumOfSquares, List.map_map, Function.comp_def] using this

/-! ### statistics -/

theorem stats_chi (f : Vec) (a b : Nat) : (stats f a b).chiSquare = sumOfSquares f := rfl
theorem stats_cost (f : Vec) (a b : Nat) : (stats f a b).cost = (1 / 2) * dot f f := rfl
theorem stats_n (f : Vec) (a b : Nat) : (stats f a b).nResiduals = f.length := rfl
theorem stats_dof (f : Vec) (a b : Nat) :
    (stats f a b).dof = (f.length : Int) - (a : Int) - (b : Int) := rfl

theorem createStats_some (mi : ModelItems) (gs : List Group) (k : Nat) (st : Stats)
    (h : createStats mi gs k = some st) :
    ∃ f c, objective mi gs = some f ∧ numberOfClps mi gs = some c ∧ st = stats f k c := by
  unfold createStats at h
  cases hf : objective mi gs with
  | none => simp [hf] at h
  | some f =>
    cases hc : numberOfClps mi gs with
    | none => simp [hf, hc] at h
    | some c =>
      simp [hf, hc] at h
      exact ⟨f, c, rfl, rfl, h.symm⟩

/-- `mapM (fun x => (f x).map g)` is `(mapM f).map (map g)` in `Option` -/
theorem mapM_option_map {α β γ : Type} (f : α → Option β) (g : β → γ) (l : List α) :
    l.mapM (fun x => (f x).map g) = (l.mapM f).map (List.map g) := by
  induction l with
  | nil => simp
  | cons a l ih =>
    simp only [List.mapM_cons, ih]
    cases f a with
    | none => simp
    | some b => cases l.mapM f <;> simp

/-- the objective is the concatenation of (residual part ++ penalty part) over the groups -/
theorem objective_parts (mi : ModelItems) (gs : List Group) (f : Vec) (h : objective mi gs = some f) :
    ∃ parts, gs.mapM (groupPenaltyParts mi) = some parts ∧ f = (parts.map (fun p => p.1 ++ p.2)).flatten := by
  unfold objective at h
  obtain ⟨pens, hp, rfl⟩ := Option.map_eq_some_iff.mp h
  have hgp : groupPenalty mi = fun g => (groupPenaltyParts mi g).map (fun p => p.1 ++ p.2) := rfl
  rw [hgp, mapM_option_map] at hp
  obtain ⟨parts, hparts, rfl⟩ := Option.map_eq_some_iff.mp hp
  exact ⟨parts, hparts, rfl⟩

/-! ### which labels keep a coefficient -/

/-- the labels of `L` that keep a free coefficient at axis value `x`: not the target of a relation that
    applies at `x` with both ends in `L`, and (then) not the target of a constraint that applies at `x` -/
def remaining (mi : ModelItems) (x : Rat) (L : List String) : List String :=
  (L.filter (fun l => !(mi.relations.any (fun r => appliesRel L x r && r.target == l)))).filter
    (fun l => !(mi.constraints.any (fun c => c.target == l && c.appliesAt x)))

theorem maskOf_eq_map (L : List String) (hN : L.Nodup) (del : List Nat) :
    maskOf del L.length = L.map (fun l => !del.contains (L.idxOf l)) := by
  apply List.ext_getElem
  · simp [maskOf]
  · intro j h1 h2
    have hj : j < L.length := by simpa [maskOf] using h1
    simp only [maskOf, List.getElem_map, List.getElem_range]
    rw [List.Nodup.idxOf_getElem hN]

theorem relations_labels (rels : List Relation) (x : Rat) (lm : LMat2) (hN : lm.labels.Nodup) :
    (applyRelationsAt rels x lm).labels =
      lm.labels.filter (fun l => !(rels.any (fun r => appliesRel lm.labels x r && r.target == l))) := by
  rw [applyRelationsAt_eq]
  split
  · rename_i he
    have hnil : rels.filter (appliesRel lm.labels x) = [] := by
      simpa [triples, List.isEmpty_iff] using he
    symm
    rw [List.filter_eq_self]
    intro l _
    simp only [Bool.not_eq_true', List.any_eq_false, Bool.and_eq_true, not_and]
    intro r hr ha
    have : r ∈ rels.filter (appliesRel lm.labels x) := List.mem_filter.mpr ⟨hr, ha⟩
    rw [hnil] at this; cases this
  · simp only
    rw [maskOf_eq_map lm.labels hN, pickMask_map_self]
    apply List.filter_congr
    intro l hl
    congr 1
    rw [Bool.eq_iff_iff]
    simp only [List.contains_iff_mem, List.mem_map, List.any_eq_true, Bool.and_eq_true, beq_iff_eq]
    constructor
    · rintro ⟨t, ht, hidx⟩
      obtain ⟨r, hr, rfl⟩ := List.mem_map.mp ht
      obtain ⟨hr1, hr2⟩ := List.mem_filter.mp hr
      refine ⟨r, hr1, hr2, ?_⟩
      have hmem := (appliesRel_mem lm.labels x r hr2)
      exact idxOf_inj lm.labels r.target l hmem.1 hl (by simpa [tripleOf] using hidx)
    · rintro ⟨r, hr1, hr2, rfl⟩
      exact ⟨tripleOf lm.labels r, List.mem_map.mpr ⟨r, List.mem_filter.mpr ⟨hr1, hr2⟩, rfl⟩, by simp [tripleOf]⟩

/-- **the labels of the reduced problem are exactly the remaining labels** -/
theorem reduceAt_labels (mi : ModelItems) (x : Rat) (lm : LMat2) (hN : lm.labels.Nodup) :
    (reduceAt mi x lm).labels = remaining mi x lm.labels := by
  unfold reduceAt remaining
  rw [constraints_labels, relations_labels _ _ _ hN]

/-- the labels after reduction do not depend on the matrix entries -/
theorem reduceAt_labels_matrix_indep (mi : ModelItems) (x : Rat) (L : List String) (m m' : Mat) :
    (reduceAt mi x ⟨L, m⟩).labels = (reduceAt mi x ⟨L, m'⟩).labels := by
  unfold reduceAt
  rw [constraints_labels, constraints_labels]
  have : (applyRelationsAt mi.relations x ⟨L, m⟩).labels = (applyRelationsAt mi.relations x ⟨L, m'⟩).labels := by
    rw [applyRelationsAt_eq, applyRelationsAt_eq]
    split <;> rfl
  rw [this]

/-! ### the per-index problems: axis values and labels -/

open Glotaran.C02.Length in
theorem slices_getD_labels (nM nG : Nat) (lm : LMat) (hb : BodyOK nM nG lm.body) (i : Nat) (hi : i < nG) :
    ((slices lm nG).getD i default).labels = lm.labels := by
  cases hbody : lm.body with
  | d2 m =>
    simp only [slices, hbody, List.getD_eq_getElem?_getD, List.getElem?_replicate_of_lt hi, Option.getD_some]
  | d3 ms =>
    rw [hbody] at hb
    obtain ⟨h1, _⟩ := hb
    have hi' : i < ms.length := by omega
    simp only [slices, hbody, List.getD_eq_getElem?_getD, List.getElem?_map,
      List.getElem?_eq_getElem hi', Option.map_some, Option.getD_some]

open Glotaran.C02.Length in
/-- unlinked dataset: one problem per point of the global axis, each on the dataset's combined labels, reduced to
    the labels that remain at that axis value -/
theorem unlinkedProblems_labels (mi : ModelItems) (d : Dataset) (ps : List IndexProblem) (lm : LMat)
    (hwf : d.WFWeak) (hlm : datasetMatrix d.mcs = some lm) (hN : lm.labels.Nodup)
    (h : unlinkedProblems mi d = some ps) :
    ps.map (·.x) = d.globalAxis ∧
      ∀ p ∈ ps, p.fullLabels = lm.labels ∧ p.reduced.labels = remaining mi p.x lm.labels := by
  unfold unlinkedProblems at h
  simp only [hlm, Option.some.injEq] at h
  subst h
  constructor
  · simp only [List.map_map, Function.comp_def]
    exact map_getD_range d.globalAxis
  · intro p hp
    simp only [List.mem_map, List.mem_range] at hp
    obtain ⟨i, hi, rfl⟩ := hp
    refine ⟨rfl, ?_⟩
    have hbody : BodyOK d.nModel d.nGlobal (lm.body.scale (d.scale.getD 1)) :=
      bodyOK_scale _ _ _ _ (bodyOK_datasetMatrix _ _ _ _ (wfWeak_bodyOK d hwf) hlm)
    have hl := slices_getD_labels d.nModel d.nGlobal ⟨lm.labels, lm.body.scale (d.scale.getD 1)⟩ hbody i hi
    have hN' : ((slices ⟨lm.labels, lm.body.scale (d.scale.getD 1)⟩ d.nGlobal).getD i default).labels.Nodup := by
      rw [hl]; exact hN
    have := reduceAt_labels mi (d.globalAxis.getD i 0) _ hN'
    rw [hl] at this
    cases hw : d.weight <;> simpa [hw] using this

/-- linked group: one problem per aligned axis value, reduced to the labels that remain there -/
theorem linkedProblems_labels (mi : ModelItems) (g : Group) (axis : List Rat) (ps : List IndexProblem)
    (h : linkedProblems mi g = some (axis, ps)) :
    ps.map (·.x) = axis ∧
      ∀ p ∈ ps, p.fullLabels.Nodup → p.reduced.labels = remaining mi p.x p.fullLabels := by
  unfold linkedProblems at h
  split at h
  · cases h
  · split at h
    · cases h
    · simp only [Option.some.injEq, Prod.mk.injEq] at h
      obtain ⟨rfl, rfl⟩ := h
      constructor
      · simp [List.map_map, Function.comp_def]
      · intro p hp hN
        simp only [List.mem_map] at hp
        obtain ⟨v, _, rfl⟩ := hp
        simp only at hN ⊢
        have := reduceAt_labels mi v _ hN
        split <;> simpa using this

/-! ### the residual part of an unlinked dataset is its weighted residual, transposed -/

theorem mapM_option_forall {α β : Type} (f : α → Option β) (P : β → Prop) :
    ∀ (l : List α) (r : List β), l.mapM f = some r →
      (∀ x ∈ l, ∀ y, f x = some y → P y) → ∀ y ∈ r, P y := by
  intro l
  induction l with
  | nil => intro r hr _ y hy; simp only [List.mapM_nil] at hr; cases hr; cases hy
  | cons a l ih =>
    intro r hr hp y hy
    rw [List.mapM_cons] at hr
    cases hfa : f a with
    | none => simp [hfa] at hr
    | some b =>
      cases hl : l.mapM f with
      | none => simp [hfa, hl] at hr
      | some r' =>
        simp [hfa, hl] at hr
        subst hr
        rcases List.mem_cons.mp hy with rfl | hy'
        · exact hp a List.mem_cons_self _ hfa
        · exact ih r' hl (fun x hx y hy => hp x (List.mem_cons_of_mem _ hx) y hy) y hy'

/-! ### duplicate-free labels -/

theorem scaled_labels (o : McOut) : o.scaled.labels = o.out.labels := by
  unfold McOut.scaled; cases o.scale <;> rfl

/-- megacomplexes with duplicate-free label lists combine to a duplicate-free label list -/
theorem datasetMatrix_labels_nodup (mcs : List McOut) (lm : LMat)
    (hm : ∀ o ∈ mcs, o.out.labels.Nodup) (h : datasetMatrix mcs = some lm) : lm.labels.Nodup := by
  cases mcs with
  | nil => simp [datasetMatrix] at h
  | cons m rest =>
    simp only [datasetMatrix, Option.some.injEq] at h
    subst h
    have key : ∀ (rest : List McOut) (acc : LMat), acc.labels.Nodup → (∀ o ∈ rest, o.out.labels.Nodup) →
        (rest.foldl (fun acc o => combine acc o.scaled) acc).labels.Nodup := by
      intro rest
      induction rest with
      | nil => intro acc h _; exact h
      | cons o rest ih =>
        intro acc hacc hr
        simp only [List.foldl_cons]
        apply ih
        · exact combine_labels_nodup_lem _ _ hacc (by rw [scaled_labels]; exact hr o List.mem_cons_self)
        · intro o' ho'; exact hr o' (List.mem_cons_of_mem _ ho')
    exact key rest m.scaled (by rw [scaled_labels]; exact hm m List.mem_cons_self)
      (fun o ho => hm o (List.mem_cons_of_mem _ ho))

theorem slices_getD_labels_nodup (lm : LMat) (nG i : Nat) (h : lm.labels.Nodup) :
    ((slices lm nG).getD i default).labels.Nodup := by
  unfold slices
  cases lm.body with
  | d2 m =>
    simp only [List.getD_eq_getElem?_getD]
    by_cases hi : i < nG
    · simp [List.getElem?_replicate_of_lt hi, h]
    · rw [List.getElem?_eq_none (by simpa using hi)]; exact List.nodup_nil
  | d3 ms =>
    simp only [List.getD_eq_getElem?_getD, List.getElem?_map]
    cases ms[i]? with
    | none => exact List.nodup_nil
    | some m => simpa using h

/-- linked group whose datasets have duplicate-free megacomplex label lists: the stacked label list of every
    aligned index is duplicate-free -/
theorem linkedProblems_fullLabels_nodup (mi : ModelItems) (g : Group) (axis : List Rat) (ps : List IndexProblem)
    (hm : ∀ d ∈ g.datasets, ∀ o ∈ d.mcs, o.out.labels.Nodup)
    (h : linkedProblems mi g = some (axis, ps)) : ∀ p ∈ ps, p.fullLabels.Nodup := by
  unfold linkedProblems at h
  split at h
  · cases h
  · split at h
    · cases h
    · rename_i dms hdms
      simp only [Option.some.injEq, Prod.mk.injEq] at h
      obtain ⟨_, rfl⟩ := h
      intro p hp
      simp only [List.mem_map] at hp
      obtain ⟨v, _, rfl⟩ := hp
      simp only
      apply alignMatrices_nodup
      intro b hb
      simp only [List.mem_map, List.mem_filterMap] at hb
      obtain ⟨di, ⟨da, hda, hdi⟩, rfl⟩ := hb
      simp only
      apply slices_getD_labels_nodup
      -- `di.1 = (d, lm)` is an element of `dms`: `lm` is the combined matrix of a dataset of the group
      have hmem : di.1 ∈ dms := by
        obtain ⟨i, _, rfl⟩ := Option.map_eq_some_iff.mp hdi
        exact (List.of_mem_zip hda).1
      have hall := mapM_option_forall (fun d : Dataset => (datasetMatrix d.mcs).map (fun lm => (d, lm)))
        (fun dl : Dataset × LMat => dl.2.labels.Nodup) g.datasets dms hdms (by
          intro d hd dl hdl
          obtain ⟨lm, hlm, rfl⟩ := Option.map_eq_some_iff.mp hdl
          exact datasetMatrix_labels_nodup d.mcs lm (hm d hd) hlm)
      exact hall di.1 hmem

theorem weightedResidual_finish (d : Dataset) (labels : List String) (clps : List Vec) (wres : Mat) :
    weightedResidual (C03.finish d labels clps wres) = wres := by
  unfold weightedResidual C03.finish
  cases d.weight <;> rfl

open Glotaran.C02.Length in
/-- one unlinked dataset without global model: the residual block of the penalty vector and the weighted
    residual of the result dataset have the same sum of squares (the second is the first laid out as columns) -/
theorem unlinkedDataset_sumsq (mi : ModelItems) (s : Solver) (d : Dataset) (rp : Vec × Vec) (r : C03.DsResult)
    (hg : d.gmcs = []) (hwf : d.WFWeak)
    (h1 : unlinkedDataset mi s d = some rp) (h2 : C03.unlinkedResult mi s d = some r) :
    sumOfSquares rp.1 = matSumSq (weightedResidual r) := by
  unfold unlinkedDataset at h1
  unfold C03.unlinkedResult at h2
  simp only [hg, List.isEmpty_nil, Bool.not_true, Bool.false_eq_true, if_false] at h1 h2
  cases hps : unlinkedProblems mi d with
  | none => simp [hps] at h1
  | some ps =>
    simp only [hps] at h1 h2
    cases hsols : ps.mapM (fun p => (solveLS s p.reduced.m p.data).map (fun cr => (p, cr))) with
    | none => simp [hsols] at h1
    | some sols =>
      simp only [hsols, Option.some.injEq, Option.map_some] at h1 h2
      subst h1 h2
      rw [weightedResidual_finish]
      obtain ⟨_, hshape⟩ := problems_shape mi d ps hwf hps
      have hlen : ∀ pc ∈ sols, pc.2.2.length = d.nModel :=
        mapM_option_forall _ (fun pc : IndexProblem × Vec × Vec => pc.2.2.length = d.nModel) ps sols hsols (by
          intro p hp pc hpc
          obtain ⟨h1, h2⟩ := hshape p hp
          cases hsol : solveLS s p.reduced.m p.data with
          | none => simp [hsol] at hpc
          | some cr =>
            simp only [hsol, Option.map_some, Option.some.injEq] at hpc
            subst hpc
            have := len_solveLS _ _ _ _ hsol
            simp only [this]
            omega)
      rw [matSumSq_ofColumns d.nModel _ (by
        intro c hc
        obtain ⟨pc, hpc, rfl⟩ := List.mem_map.mp hc
        exact hlen pc hpc)]
      simp only [List.flatMap_def]

/-- an unlinked group whose datasets have no global model -/
theorem unlinkedGroup_sumsq (mi : ModelItems) (g : Group) (res pens : Vec) (rs : List C03.DsResult)
    (hl : g.linked = false) (hg : ∀ d ∈ g.datasets, d.gmcs = []) (hwf : ∀ d ∈ g.datasets, d.WFWeak)
    (h1 : groupPenaltyParts mi g = some (res, pens)) (h2 : C03.groupResults mi g = some rs) :
    sumOfSquares res = (rs.map (fun r => matSumSq (weightedResidual r))).sum := by
  unfold groupPenaltyParts at h1
  unfold C03.groupResults at h2
  simp only [hl, Bool.false_eq_true, if_false] at h1 h2
  cases hparts : g.datasets.mapM (unlinkedDataset mi g.solver) with
  | none => simp [hparts] at h1
  | some parts =>
    simp only [hparts, Option.map_some, Option.some.injEq, Prod.mk.injEq] at h1
    obtain ⟨rfl, _⟩ := h1
    rw [sumOfSquares_flatMap]
    -- both lists are `mapM` images of the same dataset list: compare them dataset by dataset
    have key : ∀ (ds : List Dataset) (parts : List (Vec × Vec)) (rs : List C03.DsResult),
        (∀ d ∈ ds, d.gmcs = []) → (∀ d ∈ ds, d.WFWeak) →
        ds.mapM (unlinkedDataset mi g.solver) = some parts →
        ds.mapM (C03.unlinkedResult mi g.solver) = some rs →
        (parts.map (fun a => sumOfSquares a.1)).sum = (rs.map (fun r => matSumSq (weightedResidual r))).sum := by
      intro ds
      induction ds with
      | nil =>
        intro parts rs _ _ hp hr
        simp only [List.mapM_nil] at hp hr
        cases hp; cases hr; rfl
      | cons d ds ih =>
        intro parts rs hg' hwf' hp hr
        rw [List.mapM_cons] at hp hr
        cases hd1 : unlinkedDataset mi g.solver d with
        | none => simp [hd1] at hp
        | some rp =>
          cases hd2 : C03.unlinkedResult mi g.solver d with
          | none => simp [hd2] at hr
          | some r =>
            cases ht1 : ds.mapM (unlinkedDataset mi g.solver) with
            | none => simp [hd1, ht1] at hp
            | some parts' =>
              cases ht2 : ds.mapM (C03.unlinkedResult mi g.solver) with
              | none => simp [hd2, ht2] at hr
              | some rs' =>
                simp [hd1, ht1] at hp
                simp [hd2, ht2] at hr
                subst hp hr
                simp only [List.map_cons, List.sum_cons]
                rw [unlinkedDataset_sumsq mi g.solver d rp r (hg' d List.mem_cons_self) (hwf' d List.mem_cons_self) hd1 hd2,
                  ih parts' rs' (fun d hd => hg' d (List.mem_cons_of_mem _ hd))
                    (fun d hd => hwf' d (List.mem_cons_of_mem _ hd)) ht1 ht2]
    exact key g.datasets parts rs hg hwf hparts h2

end Glotaran.C13
