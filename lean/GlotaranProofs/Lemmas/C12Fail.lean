/-
C12 — helper lemmas for the loop as a number of passes (any dependency graph, cycles included)
and for the state a raising expression leaves behind.
-/
import GlotaranProofs.Lemmas.C12
namespace Glotaran.C12

/-- equality of results is decidable (used by the concrete witnesses only) -/
instance instDecidableEqExcept {ε α : Type} [DecidableEq ε] [DecidableEq α] : DecidableEq (Except ε α)
  | .ok a, .ok b => if h : a = b then isTrue (by rw [h]) else isFalse (by intro e; cases e; exact h rfl)
  | .error a, .error b => if h : a = b then isTrue (by rw [h]) else isFalse (by intro e; cases e; exact h rfl)
  | .ok _, .error _ => isFalse (by intro e; cases e)
  | .error _, .ok _ => isFalse (by intro e; cases e)

/-! ### `passes` -/

theorem passes_same (F : Funs) : ∀ (k : Nat) (ps ps' : List Param), passes F k ps = .ok ps' →
    Same ps' ps ∧ ps'.map skel = ps.map skel := by
  intro k
  induction k with
  | zero => intro ps ps' h; simp only [passes, Except.ok.injEq] at h; rw [← h]; exact ⟨rfl, rfl⟩
  | succ k ih =>
    intro ps ps' h
    unfold passes at h
    split at h
    · cases h
    · rename_i env1 ch hp
      have h1 := passAux_same F ps ps false env1 ch hp
      obtain ⟨h2, h3⟩ := ih _ _ h
      exact ⟨h2.trans h1.1, h3.trans h1.2⟩

/-- the loop is `k` passes for some `k` within the bound; it stopped early only on a quiet pass,
    i.e. on a consistent state -/
theorem loop_passes (F : Funs) : ∀ (n : Nat) (ps ps' : List Param), WF ps → loop F n ps = .ok ps' →
    ∃ k, k ≤ n ∧ passes F k ps = .ok ps' ∧ (Consistent F ps' ∨ k = n) := by
  intro n
  induction n with
  | zero =>
    intro ps ps' _ h
    simp only [loop, Except.ok.injEq] at h
    exact ⟨0, Nat.le_refl _, by rw [← h]; rfl, Or.inr rfl⟩
  | succ n ih =>
    intro ps ps' hwf h
    unfold loop at h
    split at h
    · cases h
    · rename_i env1 ch hp
      have hsame := (passAux_same F ps ps false env1 ch hp).1
      split at h
      · obtain ⟨k, hk, hpass, hor⟩ := ih env1 ps' (same_wf hsame hwf) h
        refine ⟨k + 1, by omega, ?_, ?_⟩
        · unfold passes; rw [hp]; exact hpass
        · rcases hor with h1 | h1
          · exact Or.inl h1
          · exact Or.inr (by omega)
      · rename_i hch
        simp only [Except.ok.injEq] at h
        have hch' : ch = false := by simpa using hch
        subst hch'
        obtain ⟨_, h2, h3⟩ := passAux_quiet F ps ps false env1 hp hwf
        refine ⟨1, by omega, ?_, Or.inl ?_⟩
        · unfold passes; rw [hp]; simp only [passes]; rw [h]
        · rw [← h, h2]
          intro p hpm e he
          obtain ⟨v, hv1, hv2⟩ := h3 p hpm e he
          rw [valueOf_of_mem hwf hpm] at hv2
          rw [hv1, Option.some.inj hv2]

/-- a failing loop: some complete passes, then a pass that raises -/
theorem loop_error (F : Funs) : ∀ (n : Nat) (ps : List Param) (e : Err) (left : List Param),
    loop F n ps = .error (e, left) →
    ∃ k mid, k < n ∧ passes F k ps = .ok mid ∧ pass F mid = .error (e, left) := by
  intro n
  induction n with
  | zero => intro ps e left h; simp [loop] at h
  | succ n ih =>
    intro ps e left h
    unfold loop at h
    split at h
    · rename_i err hp
      cases h
      exact ⟨0, ps, by omega, rfl, hp⟩
    · rename_i env1 ch hp
      split at h
      · obtain ⟨k, mid, hk, hpass, herr⟩ := ih env1 e left h
        refine ⟨k + 1, mid, by omega, ?_, herr⟩
        unfold passes; rw [hp]; exact hpass
      · cases h

/-! ### where a pass raises -/

theorem passAux_error_split (F : Funs) : ∀ (todo env : List Param) (ch : Bool) (e : Err)
    (left : List Param), passAux F todo env ch = .error (e, left) →
    ∃ pre p post ex why ch1, todo = pre ++ p :: post ∧ p.expr = some ex ∧
      passAux F pre env ch = .ok (left, ch1) ∧ eval F left ex = .error why ∧ e = .expr p.label why := by
  intro todo
  induction todo with
  | nil => intro env ch e left h; simp [passAux] at h
  | cons q rest ih =>
    intro env ch e left h
    unfold passAux at h
    split at h
    · rename_i hq
      obtain ⟨pre, p, post, ex, why, ch1, h1, h2, h3, h4, h5⟩ := ih _ _ _ _ h
      refine ⟨q :: pre, p, post, ex, why, ch1, by rw [h1]; rfl, h2, ?_, h4, h5⟩
      unfold passAux; rw [hq]; exact h3
    · rename_i ex hq
      split at h
      · rename_i why hev
        simp only [Except.error.injEq, Prod.mk.injEq] at h
        refine ⟨[], q, rest, ex, why, ch, rfl, hq, ?_, ?_, h.1.symm⟩
        · rw [← h.2]; rfl
        · rw [← h.2]; exact hev
      · rename_i v hev
        obtain ⟨pre, p, post, ex', why, ch1, h1, h2, h3, h4, h5⟩ := ih _ _ _ _ h
        refine ⟨q :: pre, p, post, ex', why, ch1, by rw [h1]; rfl, h2, ?_, h4, h5⟩
        unfold passAux; rw [hq]; simp only; rw [hev]; exact h3

theorem setValue_append (a b : List Param) (l : String) (v : Val) :
    setValue (a ++ b) l v = setValue a l v ++ setValue b l v := by
  simp [setValue]

/-- a pass over parameters whose labels do not occur in the tail `b` of the state leaves `b` as it is -/
theorem passAux_tail (F : Funs) : ∀ (todo a b : List Param) (ch : Bool) (env' : List Param) (ch' : Bool),
    (∀ q ∈ todo, q.label ∉ labels b) → passAux F todo (a ++ b) ch = .ok (env', ch') →
    ∃ a', env' = a' ++ b ∧ a'.map skel = a.map skel := by
  intro todo
  induction todo with
  | nil =>
    intro a b ch env' ch' _ h
    simp only [passAux, Except.ok.injEq, Prod.mk.injEq] at h
    exact ⟨a, h.1.symm, rfl⟩
  | cons q rest ih =>
    intro a b ch env' ch' hl h
    have hrest : ∀ r ∈ rest, r.label ∉ labels b := fun r hr => hl r (List.mem_cons_of_mem _ hr)
    unfold passAux at h
    split at h
    · exact ih a b ch env' ch' hrest h
    · split at h
      · cases h
      · rename_i v _
        rw [setValue_append, setValue_of_not_mem b q.label v (hl q List.mem_cons_self)] at h
        obtain ⟨a', h1, h2⟩ := ih _ b _ env' ch' hrest h
        exact ⟨a', h1, h2.trans (setValue_skel a q.label v)⟩

end Glotaran.C12
