import GlotaranProofs.Lemmas.C07
import GlotaranProofs.Lemmas.C07Erf
import Mathlib.Analysis.SpecialFunctions.Gaussian.FourierTransform
import Mathlib.MeasureTheory.Integral.IntegralEqImproper

/-!
# C07: the IRF kernel is (twice) the convolution of a one-sided complex exponential with a Gaussian

`irfKernel erfC false γ ω w t = 2 ∫_{s>0} exp (-(γ+iω) s) · g_w (t - s) ds` and
`irfKernel erfC true  γ ω w t = 2 ∫_{s<0} exp (-(γ+iω) s) · g_w (t - s) ds`, `g_w` the unit-area
Gaussian of width `w`.
-/

namespace Glotaran.C07

open Complex MeasureTheory Set Topology Filter

/-! ### `erfC (x + y i) → ±1` as `x → ±∞`, `y` fixed -/

/-- the error function off the real axis: the real-axis value plus the vertical leg -/
theorem erfC_add_mul_I (x y : ℝ) :
    erfC ((x : ℂ) + (y : ℂ) * I) = erfC (x : ℂ) +
      2 / (Real.sqrt Real.pi : ℂ) * (I * ∫ s in (0:ℝ)..y, Complex.exp (-((x : ℂ) + (s : ℂ) * I) ^ 2)) := by
  simp [erfC, Complex.wedgeIntegral, mul_add]

theorem norm_cexp_neg_sq_add_mul_I (x s : ℝ) :
    ‖Complex.exp (-((x : ℂ) + (s : ℂ) * I) ^ 2)‖ = Real.exp (s ^ 2 - x ^ 2) := by
  rw [Complex.norm_exp]
  congr 1
  simp [sq]

theorem norm_vertical_leg_le (x y : ℝ) :
    ‖∫ s in (0:ℝ)..y, Complex.exp (-((x : ℂ) + (s : ℂ) * I) ^ 2)‖ ≤ Real.exp (y ^ 2 - x ^ 2) * |y| := by
  have h := intervalIntegral.norm_integral_le_of_norm_le_const (a := 0) (b := y)
    (C := Real.exp (y ^ 2 - x ^ 2)) (f := fun s : ℝ => Complex.exp (-((x : ℂ) + (s : ℂ) * I) ^ 2)) ?_
  · simpa using h
  intro s hs
  rw [norm_cexp_neg_sq_add_mul_I]
  apply Real.exp_le_exp.mpr
  have hs' : |s| ≤ |y| := by
    rcases le_total 0 y with hy | hy
    · rw [uIoc_of_le hy] at hs
      rw [abs_of_pos hs.1, abs_of_nonneg hy]; exact hs.2
    · rw [uIoc_of_ge hy] at hs
      rw [abs_of_nonpos hy, abs_of_nonpos hs.2]; linarith [hs.1]
  have := sq_le_sq.mpr hs'
  linarith

theorem erfC_tendsto_re_atTop (y : ℝ) :
    Tendsto (fun x : ℝ => erfC ((x : ℂ) + (y : ℂ) * I)) atTop (𝓝 1) := by
  have hleg : Tendsto (fun x : ℝ => ∫ s in (0:ℝ)..y, Complex.exp (-((x : ℂ) + (s : ℂ) * I) ^ 2))
      atTop (𝓝 0) := by
    apply squeeze_zero_norm (fun x => norm_vertical_leg_le x y)
    have h1 : Tendsto (fun x : ℝ => y ^ 2 + -(x ^ 2)) atTop atBot :=
      tendsto_atBot_add_const_left _ _
        (tendsto_neg_atTop_atBot.comp (tendsto_pow_atTop (two_ne_zero)))
    have h2 : Tendsto (fun x : ℝ => Real.exp (y ^ 2 - x ^ 2)) atTop (𝓝 0) := by
      have h3 := Real.tendsto_exp_atBot.comp h1
      refine h3.congr (fun x => ?_)
      simp only [Function.comp_apply, sub_eq_add_neg]
    simpa using h2.mul_const |y|
  have h := erfC_tendsto_atTop.add ((hleg.const_mul I).const_mul (2 / (Real.sqrt Real.pi : ℂ)))
  simp only [mul_zero, add_zero] at h
  refine h.congr (fun x => ?_)
  exact (erfC_add_mul_I x y).symm

theorem erfC_tendsto_re_atBot (y : ℝ) :
    Tendsto (fun x : ℝ => erfC ((x : ℂ) + (y : ℂ) * I)) atBot (𝓝 (-1)) := by
  have h := ((erfC_tendsto_re_atTop (-y)).comp tendsto_neg_atBot_atTop).neg
  refine h.congr (fun x => ?_)
  simp only [Function.comp_apply]
  rw [← erfC_neg]
  congr 1
  push_cast
  ring

/-! ### the Gaussian, the integrand and its primitive -/

/-- unit-area Gaussian of width w -/
noncomputable def gaussW (w u : ℝ) : ℝ :=
  Real.exp (-u ^ 2 / (2 * w ^ 2)) / (w * Real.sqrt (2 * Real.pi))

/-- a primitive (in `s`) of `exp (-k s) · g_w (t - s)`:
`-(1/2) · exp ((-t + k w²/2) k) · erf ((t - k w² - s) / (√2 w))`, `k = γ + iω` -/
noncomputable def convPrimitive (γ ω w t : ℝ) (s : ℝ) : ℂ :=
  -(1 / 2) * Complex.exp ((-1 * (t : ℂ) + 1 / 2 * (((γ : ℂ) + I * ω) * (w : ℂ) ^ 2)) * ((γ : ℂ) + I * ω))
    * erfC (((t : ℂ) - ((γ : ℂ) + I * ω) * (w : ℂ) ^ 2 - (s : ℂ)) / ((Real.sqrt 2 : ℂ) * w))

private theorem sqrt2C_ne_zero : ((Real.sqrt 2 : ℝ) : ℂ) ≠ 0 := by
  have : (0:ℝ) < Real.sqrt 2 := Real.sqrt_pos.mpr (by norm_num)
  exact_mod_cast this.ne'

theorem gaussW_ofReal (w u : ℝ) :
    ((gaussW w u : ℝ) : ℂ) = Complex.exp (-(u : ℂ) ^ 2 / (2 * (w : ℂ) ^ 2)) /
      ((w : ℂ) * ((Real.sqrt 2 : ℂ) * (Real.sqrt Real.pi : ℂ))) := by
  rw [gaussW, Real.sqrt_mul (by norm_num : (0:ℝ) ≤ 2)]
  push_cast
  rfl

theorem hasDerivAt_convPrimitive (γ ω w t : ℝ) (hw : w ≠ 0) (s : ℝ) :
    HasDerivAt (convPrimitive γ ω w t)
      (Complex.exp (-((γ : ℂ) + I * ω) * s) * (gaussW w (t - s) : ℂ)) s := by
  unfold convPrimitive
  set k : ℂ := (γ : ℂ) + I * ω with hk
  set σ : ℂ := (Real.sqrt 2 : ℂ) * w with hσ
  set E : ℂ := Complex.exp ((-1 * (t : ℂ) + 1 / 2 * (k * (w : ℂ) ^ 2)) * k) with hE
  have hwc : (w : ℂ) ≠ 0 := by exact_mod_cast hw
  have hσ2 : σ ^ 2 = 2 * (w : ℂ) ^ 2 := by rw [hσ, mul_pow, sqrt2_sq_complex]
  have hσ0 : σ ≠ 0 := mul_ne_zero sqrt2C_ne_zero hwc
  have h0 : HasDerivAt (fun s : ℝ => ((t : ℂ) - k * (w : ℂ) ^ 2 - (s : ℂ)) / σ) (-1 / σ) s := by
    have := (((hasDerivAt_id s).ofReal_comp).const_sub ((t : ℂ) - k * (w : ℂ) ^ 2)).div_const σ
    simpa using this
  have h1 : HasDerivAt (fun s : ℝ => erfC (((t : ℂ) - k * (w : ℂ) ^ 2 - (s : ℂ)) / σ))
      (2 / (Real.sqrt Real.pi : ℂ) *
        Complex.exp (-(((t : ℂ) - k * (w : ℂ) ^ 2 - (s : ℂ)) / σ) ^ 2) * (-1 / σ)) s :=
    (erfC_hasDerivAt _).comp s h0
  have h2 := h1.const_mul (-(1 / 2) * E)
  refine h2.congr_deriv ?_
  have hexp : E * Complex.exp (-(((t : ℂ) - k * (w : ℂ) ^ 2 - (s : ℂ)) / σ) ^ 2) =
      Complex.exp (-k * s) * Complex.exp (-((t : ℂ) - (s : ℂ)) ^ 2 / (2 * (w : ℂ) ^ 2)) := by
    rw [hE, ← Complex.exp_add, ← Complex.exp_add]
    congr 1
    rw [div_pow, hσ2]
    field_simp
    ring
  rw [gaussW_ofReal]
  push_cast
  calc -(1 / 2) * E * (2 / (Real.sqrt Real.pi : ℂ) *
          Complex.exp (-(((t : ℂ) - k * (w : ℂ) ^ 2 - (s : ℂ)) / σ) ^ 2) * (-1 / σ))
      = (E * Complex.exp (-(((t : ℂ) - k * (w : ℂ) ^ 2 - (s : ℂ)) / σ) ^ 2)) *
          (1 / ((Real.sqrt Real.pi : ℂ) * σ)) := by ring
    _ = _ := by
      rw [hexp, hσ]
      ring

/-- the integrand `s ↦ exp (-k s) · g_w (t - s)` is integrable on the whole line … -/
theorem convIntegrand_integrable (γ ω w t : ℝ) (hw : w ≠ 0) :
    Integrable (fun s : ℝ => Complex.exp (-((γ : ℂ) + I * ω) * s) * (gaussW w (t - s) : ℂ)) := by
  set k : ℂ := (γ : ℂ) + I * ω with hk
  have hwc : (w : ℂ) ≠ 0 := by exact_mod_cast hw
  have hb : 0 < (((1 / (2 * w ^ 2) : ℝ)) : ℂ).re := by
    rw [Complex.ofReal_re]; positivity
  have h := (integrable_cexp_quadratic hb ((t : ℂ) / (w : ℂ) ^ 2 - k)
    (-(t : ℂ) ^ 2 / (2 * (w : ℂ) ^ 2))).const_mul
      (1 / ((w : ℂ) * ((Real.sqrt 2 : ℂ) * (Real.sqrt Real.pi : ℂ))))
  refine h.congr (Filter.Eventually.of_forall fun s => ?_)
  simp only
  rw [gaussW_ofReal]
  have hexp : Complex.exp (-k * s) * Complex.exp (-(((t - s : ℝ)) : ℂ) ^ 2 / (2 * (w : ℂ) ^ 2)) =
      Complex.exp (-(((1 / (2 * w ^ 2) : ℝ)) : ℂ) * (s : ℂ) ^ 2 + ((t : ℂ) / (w : ℂ) ^ 2 - k) * s
        + -(t : ℂ) ^ 2 / (2 * (w : ℂ) ^ 2)) := by
    rw [← Complex.exp_add]
    congr 1
    push_cast
    field_simp
    ring
  rw [← hexp]
  ring

/-- … hence on both half lines -/
theorem convIntegrand_integrableOn_Ioi (γ ω w t : ℝ) (hw : w ≠ 0) :
    IntegrableOn (fun s : ℝ => Complex.exp (-((γ : ℂ) + I * ω) * s) * (gaussW w (t - s) : ℂ))
      (Ioi 0) :=
  (convIntegrand_integrable γ ω w t hw).integrableOn

theorem convIntegrand_integrableOn_Iio (γ ω w t : ℝ) (hw : w ≠ 0) :
    IntegrableOn (fun s : ℝ => Complex.exp (-((γ : ℂ) + I * ω) * s) * (gaussW w (t - s) : ℂ))
      (Iio 0) :=
  (convIntegrand_integrable γ ω w t hw).integrableOn

/-- finite-interval identity (fundamental theorem of calculus) -/
theorem intervalIntegral_convIntegrand (γ ω w t : ℝ) (hw : w ≠ 0) (a b : ℝ) :
    ∫ s in a..b, Complex.exp (-((γ : ℂ) + I * ω) * s) * (gaussW w (t - s) : ℂ) =
      convPrimitive γ ω w t b - convPrimitive γ ω w t a :=
  intervalIntegral.integral_eq_sub_of_hasDerivAt
    (fun s _ => hasDerivAt_convPrimitive γ ω w t hw s)
    ((convIntegrand_integrable γ ω w t hw).intervalIntegrable)

/-! ### the limits of the primitive at `±∞` -/

/-- the argument of `erfC` inside the primitive, split into real and imaginary part -/
private theorem convArg_eq (γ ω w t s : ℝ) (hw : w ≠ 0) :
    ((t : ℂ) - ((γ : ℂ) + I * ω) * (w : ℂ) ^ 2 - (s : ℂ)) / ((Real.sqrt 2 : ℂ) * w) =
      ((((t - γ * w ^ 2) + -s) / (Real.sqrt 2 * w) : ℝ) : ℂ) +
        ((-(ω * w ^ 2) / (Real.sqrt 2 * w) : ℝ) : ℂ) * I := by
  have hwc : (w : ℂ) ≠ 0 := by exact_mod_cast hw
  have h2 := sqrt2C_ne_zero
  push_cast
  field_simp
  ring

theorem convPrimitive_tendsto_atTop (γ ω w t : ℝ) (hw : 0 < w) :
    Tendsto (convPrimitive γ ω w t) atTop
      (𝓝 (1 / 2 * Complex.exp ((-1 * (t : ℂ) + 1 / 2 * (((γ : ℂ) + I * ω) * (w : ℂ) ^ 2)) *
        ((γ : ℂ) + I * ω)))) := by
  have hσ : 0 < Real.sqrt 2 * w := mul_pos (Real.sqrt_pos.mpr (by norm_num)) hw
  have hx : Tendsto (fun s : ℝ => ((t - γ * w ^ 2) + -s) / (Real.sqrt 2 * w)) atTop atBot :=
    (tendsto_atBot_add_const_left _ _ tendsto_neg_atTop_atBot).atBot_div_const hσ
  have h1 := (erfC_tendsto_re_atBot (-(ω * w ^ 2) / (Real.sqrt 2 * w))).comp hx
  have h2 := h1.const_mul (-(1 / 2) * Complex.exp ((-1 * (t : ℂ) +
    1 / 2 * (((γ : ℂ) + I * ω) * (w : ℂ) ^ 2)) * ((γ : ℂ) + I * ω)))
  have hlim : -(1 / 2) * Complex.exp ((-1 * (t : ℂ) +
      1 / 2 * (((γ : ℂ) + I * ω) * (w : ℂ) ^ 2)) * ((γ : ℂ) + I * ω)) * (-1) =
      1 / 2 * Complex.exp ((-1 * (t : ℂ) + 1 / 2 * (((γ : ℂ) + I * ω) * (w : ℂ) ^ 2)) *
        ((γ : ℂ) + I * ω)) := by ring
  rw [hlim] at h2
  refine h2.congr (fun s => ?_)
  simp only [Function.comp_apply, convPrimitive]
  rw [convArg_eq γ ω w t s hw.ne']

theorem convPrimitive_tendsto_atBot (γ ω w t : ℝ) (hw : 0 < w) :
    Tendsto (convPrimitive γ ω w t) atBot
      (𝓝 (-(1 / 2) * Complex.exp ((-1 * (t : ℂ) + 1 / 2 * (((γ : ℂ) + I * ω) * (w : ℂ) ^ 2)) *
        ((γ : ℂ) + I * ω)))) := by
  have hσ : 0 < Real.sqrt 2 * w := mul_pos (Real.sqrt_pos.mpr (by norm_num)) hw
  have hx : Tendsto (fun s : ℝ => ((t - γ * w ^ 2) + -s) / (Real.sqrt 2 * w)) atBot atTop :=
    (tendsto_atTop_add_const_left _ _ tendsto_neg_atBot_atTop).atTop_div_const hσ
  have h1 := (erfC_tendsto_re_atTop (-(ω * w ^ 2) / (Real.sqrt 2 * w))).comp hx
  have h2 := h1.const_mul (-(1 / 2) * Complex.exp ((-1 * (t : ℂ) +
    1 / 2 * (((γ : ℂ) + I * ω) * (w : ℂ) ^ 2)) * ((γ : ℂ) + I * ω)))
  rw [mul_one] at h2
  refine h2.congr (fun s => ?_)
  simp only [Function.comp_apply, convPrimitive]
  rw [convArg_eq γ ω w t s hw.ne']

/-! ### the kernel at `ℂ`, unfolded -/

theorem irfKernel_erfC_false (γ ω w t : ℝ) :
    irfKernel erfC false (γ : ℂ) (ω : ℂ) (w : ℂ) (t : ℂ) =
      Complex.exp ((-1 * (t : ℂ) + 1 / 2 * (((γ : ℂ) + I * ω) * (w : ℂ) ^ 2)) * ((γ : ℂ) + I * ω)) *
        (1 + erfC (((t : ℂ) - ((γ : ℂ) + I * ω) * (w : ℂ) ^ 2) / ((Real.sqrt 2 : ℂ) * w))) := by
  simp only [irfKernel, c_add, c_mul, c_I, c_pow, c_sqrt2, c_exp, c_ofRat, c_div, c_sub, c_neg]
  simp

theorem irfKernel_erfC_true (γ ω w t : ℝ) :
    irfKernel erfC true (γ : ℂ) (ω : ℂ) (w : ℂ) (t : ℂ) =
      Complex.exp ((-1 * (t : ℂ) + 1 / 2 * (((γ : ℂ) + I * ω) * (w : ℂ) ^ 2)) * ((γ : ℂ) + I * ω)) *
        (1 - erfC (((t : ℂ) - ((γ : ℂ) + I * ω) * (w : ℂ) ^ 2) / ((Real.sqrt 2 : ℂ) * w))) := by
  simp only [irfKernel, c_add, c_mul, c_I, c_pow, c_sqrt2, c_exp, c_ofRat, c_div, c_sub, c_neg]
  simp [div_neg, erfC_neg, sub_eq_add_neg]

/-! ### the kernel is twice the convolution -/

/-- `irfKernel … false` (the branch used for non-negative rates) is twice the convolution of the
causal exponential `s ↦ 1_{s>0} exp (-(γ+iω) s)` with the unit-area Gaussian of width `w` -/
theorem irfKernel_is_convolution_causal (γ ω w t : ℝ) (hw : 0 < w) :
    irfKernel erfC false (γ : ℂ) (ω : ℂ) (w : ℂ) (t : ℂ) =
      2 * ∫ s in Set.Ioi (0:ℝ),
        Complex.exp (-((γ : ℂ) + Complex.I * ω) * s) * (gaussW w (t - s) : ℂ) := by
  rw [integral_Ioi_of_hasDerivAt_of_tendsto'
    (fun s _ => hasDerivAt_convPrimitive γ ω w t hw.ne' s)
    (convIntegrand_integrableOn_Ioi γ ω w t hw.ne')
    (convPrimitive_tendsto_atTop γ ω w t hw), irfKernel_erfC_false]
  simp only [convPrimitive, Complex.ofReal_zero, sub_zero]
  ring

/-- `irfKernel … true` (the branch used for negative rates / the perturbed free induction decay)
is twice the convolution of the anti-causal exponential `s ↦ 1_{s<0} exp (-(γ+iω) s)` with the
unit-area Gaussian of width `w` -/
theorem irfKernel_is_convolution_anticausal (γ ω w t : ℝ) (hw : 0 < w) :
    irfKernel erfC true (γ : ℂ) (ω : ℂ) (w : ℂ) (t : ℂ) =
      2 * ∫ s in Set.Iio (0:ℝ),
        Complex.exp (-((γ : ℂ) + Complex.I * ω) * s) * (gaussW w (t - s) : ℂ) := by
  rw [← integral_Iic_eq_integral_Iio, integral_Iic_of_hasDerivAt_of_tendsto'
    (fun s _ => hasDerivAt_convPrimitive γ ω w t hw.ne' s)
    ((convIntegrand_integrable γ ω w t hw.ne').integrableOn)
    (convPrimitive_tendsto_atBot γ ω w t hw), irfKernel_erfC_true]
  simp only [convPrimitive, Complex.ofReal_zero, sub_zero]
  ring

end Glotaran.C07
