/-
C19 — helper lemmas for the regenerated tables (`Accessor`, `ConvFn`): decidable well-formedness
checks of table rows and what `callAccessor` / `dispatch` compute for rows that pass them.
-/
import GlotaranProofs.Lemmas.C19
namespace Glotaran.C19

/-! ### positional binding -/

/-- index of the first parameter called `n` (the length if there is none) -/
def firstIdx (n : String) : List String → Nat
  | [] => 0
  | p :: ps => if p = n then 0 else firstIdx n ps + 1

theorem envLookup_bindPositional (n : String) : ∀ (params : List String) (args : List Val) (i : Nat),
    firstIdx n params = i → i < params.length → i < args.length →
    envLookup (bindPositional params args) n = args[i]? := by
  intro params
  induction params with
  | nil => intro args i _ h; simp at h
  | cons p ps ih =>
    intro args i hi hlt hlen
    cases args with
    | nil => simp at hlen
    | cons v vs =>
      by_cases hp : p = n
      · subst hp
        simp [firstIdx] at hi
        subst hi
        simp [bindPositional, envLookup]
      · simp only [firstIdx, hp, if_false] at hi
        cases i with
        | zero => simp at hi
        | succ j =>
          simp only [bindPositional, envLookup, hp, if_false]
          have hj : firstIdx n ps = j := by omega
          have := ih vs j hj (by simpa using hlt) (by simpa using hlen)
          simpa using this

/-! ### `known_*` -/

/-- row `knownFn` is `return registered_plugins(plugin_registry=__PluginRegistry.<attr>,
    full_names=<its only parameter>)` and calling it as the message does lists `full` names -/
def knownOk (accs : List Accessor) (knownFn : String) (flag : FlagArg) (attr : String) (full : Bool) : Bool :=
  match findAccessor accs knownFn with
  | none => false
  | some k =>
    decide (k.base = "registered_plugins") && decide (k.shape = "return") && decide (k.params = ["full_names"])
      && decide (k.registryAttr = some attr) && decide (argLookup k.args "full_names" = some (.param "full_names"))
      && (match flag with
          | .lit b => decide (b = full)
          | .absent => decide (argLookup k.defaults "full_names" = some (.bool full))
          | .other _ => false)

theorem evalKnown_of_ok (accs : List Accessor) (rs : Registries) (knownFn : String) (flag : FlagArg)
    (attr : String) (full : Bool) (r : Registry) (h : knownOk accs knownFn flag attr full = true)
    (hr : rs.get attr = some r) : evalKnown accs rs knownFn flag = some (sortedKeys r full) := by
  unfold knownOk at h
  unfold evalKnown
  cases hf : findAccessor accs knownFn with
  | none => simp [hf] at h
  | some k =>
    simp only [hf, Bool.and_eq_true, decide_eq_true_eq] at h
    obtain ⟨⟨⟨⟨⟨hb, hs⟩, hp⟩, ha⟩, harg⟩, hflag⟩ := h
    simp only [hb, hs, ne_eq, not_true_eq_false, or_self, if_false, hp, ha, Option.bind_some, hr]
    cases flag with
    | absent =>
      simp only [decide_eq_true_eq] at hflag
      simp [bindParams, hflag, evalKw, harg, evalW, envLookup]
    | lit b =>
      simp only [decide_eq_true_eq] at hflag
      subst hflag
      simp [bindParams, evalKw, harg, evalW, envLookup]
    | other s => simp at hflag

/-! ### `get_*` -/

/-- row `g` is `return get_plugin_from_registry(plugin_register_key=<its only parameter>,
    plugin_registry=__PluginRegistry.<attr>, not_found_error_message=f"…{known(full_names=full)}…")` -/
def getterOk (accs : List Accessor) (g : Accessor) (attr : String) (full : Bool) : Bool :=
  match g.params, argLookup g.args "not_found_error_message" with
  | [kp], some (.message knownFn flag) =>
    decide (g.base = "get_plugin_from_registry") && decide (g.shape = "return")
      && decide (argLookup g.args "plugin_register_key" = some (.param kp))
      && decide (g.registryAttr = some attr) && knownOk accs knownFn flag attr full
  | _, _ => false

theorem callAccessor_getter (accs : List Accessor) (g : Accessor) (attr : String) (full : Bool)
    (rs : Registries) (r : Registry) (k : String) (h : getterOk accs g attr full = true)
    (hr : rs.get attr = some r) :
    callAccessor accs g rs [.str k] =
      (rs, match lookup r k with
           | some p => .base (.found p)
           | none => .unknown k (sortedKeys r full)) := by
  unfold getterOk at h
  split at h
  · rename_i kp knownFn flag hp hm
    simp only [Bool.and_eq_true, decide_eq_true_eq] at h
    obtain ⟨⟨⟨⟨hb, hs⟩, hk⟩, ha⟩, hkn⟩ := h
    have hev := evalKnown_of_ok accs rs knownFn flag attr full r hkn hr
    unfold callAccessor
    simp only [hp, bindParams, Option.map_some, ha, hr, hb, hs, evalKw, hk, Option.bind_some, evalW,
      envLookup, if_true, hm, step]
    cases hl : lookup r k with
    | some p => simp
    | none => simp [hev]
  · simp at h

/-! ### the other wrappers -/

inductive BaseOp where
  | add | addInst | set | get | isKnown | known
  deriving Repr, DecidableEq

/-- what the statement demands of a public registry function -/
structure ApiSpec where
  name : String
  attr : String          -- which dict of `__PluginRegistry`
  op : BaseOp
  deriving Repr, DecidableEq

/-- `full`: whether the error message of a getter lists the full names as well (the statement only
    asks that the known names are named) -/
def accessorOk (accs : List Accessor) (a : Accessor) (s : ApiSpec) (full : Bool) : Bool :=
  decide (a.name = s.name) &&
  match s.op with
  | .get => getterOk accs a s.attr full
  | .known => knownOk accs a.name (.lit true) s.attr true && knownOk accs a.name (.lit false) s.attr false
      && knownOk accs a.name .absent s.attr false && decide (findAccessor accs a.name = some a)
  | .isKnown =>
    match a.params with
    | [kp] => decide (a.base = "is_registered_plugin") && decide (a.shape = "return")
        && decide (argLookup a.args "plugin_register_key" = some (.param kp)) && decide (a.registryAttr = some s.attr)
    | _ => false
  | .set =>
    match a.params with
    | [kp, fp] => decide (a.base = "set_plugin") && decide (kp ≠ fp)
        && decide (argLookup a.args "plugin_register_key" = some (.param kp))
        && decide (argLookup a.args "full_plugin_name" = some (.param fp)) && decide (a.registryAttr = some s.attr)
    | _ => false
  | .add =>
    match a.params with
    | [kp, pp] => decide (a.base = "add_plugin_to_registry") && decide (kp ≠ pp)
        && decide (argLookup a.args "plugin_register_key" = some (.param kp))
        && decide (argLookup a.args "plugin" = some (.param pp))
        && decide (argLookup a.args "instance_identifier" = none) && decide (a.registryAttr = some s.attr)
    | _ => false
  | .addInst =>
    match a.params with
    | [kp, cp] => decide (a.base = "add_instantiated_plugin_to_registry") && decide (kp ≠ cp)
        && decide (argLookup a.args "plugin_register_keys" = some (.param kp))
        && decide (argLookup a.args "plugin_class" = some (.param cp)) && decide (a.registryAttr = some s.attr)
    | _ => false

theorem callAccessor_isKnown (accs : List Accessor) (a : Accessor) (s : ApiSpec) (rs : Registries)
    (r : Registry) (k : String) (hop : s.op = .isKnown) (mf : Bool) (h : accessorOk accs a s mf = true)
    (hr : rs.get s.attr = some r) :
    callAccessor accs a rs [.str k] = (rs, .bool (lookup r k).isSome) := by
  unfold accessorOk at h
  simp only [hop, Bool.and_eq_true, decide_eq_true_eq] at h
  obtain ⟨_, h⟩ := h
  split at h
  · rename_i kp hp
    simp only [Bool.and_eq_true, decide_eq_true_eq] at h
    obtain ⟨⟨⟨hb, hs⟩, hk⟩, ha⟩ := h
    unfold callAccessor
    simp [hp, bindParams, ha, hr, hb, hs, evalKw, hk, evalW, envLookup]
  · simp at h

theorem callAccessor_set (accs : List Accessor) (a : Accessor) (s : ApiSpec) (rs : Registries)
    (r : Registry) (k full : String) (hop : s.op = .set) (mf : Bool) (h : accessorOk accs a s mf = true)
    (hr : rs.get s.attr = some r) :
    callAccessor accs a rs [.str k, .str full] =
      (rs.set s.attr (step r (.setPlugin k full)).1, .base (step r (.setPlugin k full)).2) := by
  unfold accessorOk at h
  simp only [hop, Bool.and_eq_true, decide_eq_true_eq] at h
  obtain ⟨_, h⟩ := h
  split at h
  · rename_i kp fp hp
    simp only [Bool.and_eq_true, decide_eq_true_eq] at h
    obtain ⟨⟨⟨⟨hb, hne⟩, hk⟩, hf⟩, ha⟩ := h
    have hne' : ¬ kp = fp := by simpa using hne
    unfold callAccessor
    simp [hp, bindParams, ha, hr, hb, evalKw, hk, hf, evalW, envLookup, hne']
  · simp at h

theorem callAccessor_add (accs : List Accessor) (a : Accessor) (s : ApiSpec) (rs : Registries)
    (r : Registry) (k m n : String) (u : Nat) (hop : s.op = .add) (mf : Bool) (h : accessorOk accs a s mf = true)
    (hr : rs.get s.attr = some r) :
    callAccessor accs a rs [.str k, .cls m n u] =
      (rs.set s.attr (step r (.add k ⟨m, n, u⟩ "")).1, .base (step r (.add k ⟨m, n, u⟩ "")).2) := by
  unfold accessorOk at h
  simp only [hop, Bool.and_eq_true, decide_eq_true_eq] at h
  obtain ⟨_, h⟩ := h
  split at h
  · rename_i kp pp hp
    simp only [Bool.and_eq_true, decide_eq_true_eq] at h
    obtain ⟨⟨⟨⟨⟨hb, hne⟩, hk⟩, hpl⟩, hid⟩, ha⟩ := h
    have hne' : ¬ kp = pp := by simpa using hne
    unfold callAccessor
    simp [hp, bindParams, ha, hr, hb, evalKw, hk, hpl, hid, evalW, envLookup, hne']
  · simp at h

theorem callAccessor_addInst (accs : List Accessor) (a : Accessor) (s : ApiSpec) (rs : Registries)
    (r : Registry) (kv : Val) (keys : List String) (m n : String) (u : Nat) (hkv : keysOfVal kv = some keys)
    (hop : s.op = .addInst) (mf : Bool) (h : accessorOk accs a s mf = true) (hr : rs.get s.attr = some r) :
    callAccessor accs a rs [kv, .cls m n u] =
      (rs.set s.attr (step r (.addInst keys m n u)).1, .base (step r (.addInst keys m n u)).2) := by
  unfold accessorOk at h
  simp only [hop, Bool.and_eq_true, decide_eq_true_eq] at h
  obtain ⟨_, h⟩ := h
  split at h
  · rename_i kp cp hp
    simp only [Bool.and_eq_true, decide_eq_true_eq] at h
    obtain ⟨⟨⟨⟨hb, hne⟩, hk⟩, hc⟩, ha⟩ := h
    have hne' : ¬ kp = cp := by simpa using hne
    unfold callAccessor
    simp [hp, bindParams, ha, hr, hb, evalKw, hk, hc, evalW, envLookup, hne', hkv]
  · simp at h

theorem callAccessor_known (accs : List Accessor) (a : Accessor) (s : ApiSpec) (rs : Registries)
    (r : Registry) (hop : s.op = .known) (mf : Bool) (h : accessorOk accs a s mf = true) (hr : rs.get s.attr = some r) :
    (∀ full, callAccessor accs a rs [.bool full] = (rs, .base (.names (sortedKeys r full)))) ∧
    callAccessor accs a rs [] = (rs, .base (.names (sortedKeys r false))) := by
  unfold accessorOk at h
  simp only [hop, Bool.and_eq_true, decide_eq_true_eq] at h
  obtain ⟨_, ⟨⟨⟨h1, h2⟩, h3⟩, hfind⟩⟩ := h
  have key : ∀ flag full, knownOk accs a.name flag s.attr full = true →
      a.base = "registered_plugins" ∧ a.shape = "return" ∧ a.params = ["full_names"] ∧
      a.registryAttr = some s.attr ∧ argLookup a.args "full_names" = some (.param "full_names") := by
    intro flag full hk
    unfold knownOk at hk
    simp only [hfind, Bool.and_eq_true, decide_eq_true_eq] at hk
    obtain ⟨⟨⟨⟨⟨hb, hs⟩, hp⟩, ha⟩, harg⟩, _⟩ := hk
    exact ⟨hb, hs, hp, ha, harg⟩
  obtain ⟨hb, hs, hp, ha, harg⟩ := key _ _ h1
  have hd : argLookup a.defaults "full_names" = some (.bool false) := by
    unfold knownOk at h3
    simp only [hfind, Bool.and_eq_true, decide_eq_true_eq] at h3
    exact h3.2
  constructor
  · intro full
    unfold callAccessor
    simp [hp, bindParams, ha, hr, hb, hs, evalKw, harg, evalW, envLookup, step]
  · unfold callAccessor
    simp [hp, bindParams, hd, ha, hr, hb, hs, evalKw, harg, evalW, envLookup, step]

/-! ### `Registries.get` / `set` -/

theorem Registries.get_set_same (rs : Registries) (attr : String) (r r' : Registry)
    (h : rs.get attr = some r) : (rs.set attr r').get attr = some r' := by
  unfold Registries.get at h ⊢
  unfold Registries.set
  by_cases h1 : attr = "megacomplex"
  · simp [h1]
  · by_cases h2 : attr = "data_io"
    · simp [h2]
    · by_cases h3 : attr = "project_io"
      · simp [h3]
      · simp [h1, h2, h3] at h

theorem Registries.get_set_other (rs : Registries) (attr attr' : String) (r' : Registry)
    (h : attr' ≠ attr) : (rs.set attr r').get attr' = rs.get attr' := by
  unfold Registries.get Registries.set
  by_cases h1 : attr = "megacomplex"
  · subst h1; simp [h]
  · by_cases h2 : attr = "data_io"
    · subst h2; simp [h]
    · by_cases h3 : attr = "project_io"
      · subst h3; simp [h]
      · simp [h1, h2, h3]

/-! ### convenience functions -/

/-- what the statement demands of a `load_*` / `save_*` function: whose registry, which positional
    argument is the path (the format name follows it), with which flags the format is inferred -/
structure ConvSpec where
  name : String
  attr : String
  pathIdx : Nat
  needsToExist : Bool
  allowFolder : Bool
  deriving Repr, DecidableEq

def convOk (accs : List Accessor) (dflt : Bool × Bool) (f : ConvFn) (s : ConvSpec) (full : Bool) : Bool :=
  decide (f.name = s.name) && decide (f.registryCalls = 1) && decide (f.ioUses = [.method s.name]) &&
  (match f.fmtExpr with
   | .or (.param fp) (.infer (.param pp) nte af) =>
     decide (firstIdx pp f.params = s.pathIdx) && decide (firstIdx fp f.params = s.pathIdx + 1)
       && decide (s.pathIdx + 1 < f.params.length)
       && decide (flagValue dflt.1 nte = some s.needsToExist) && decide (flagValue dflt.2 af = some s.allowFolder)
   | _ => false) &&
  (match findAccessor accs f.getter with
   | some g => decide (g.module = f.module) && getterOk accs g s.attr full
   | none => false)

def optVal : Option String → Val
  | none => .none_
  | some s => .str s

/-- the statement: the format is the given one if it is a non-empty string, else the one inferred
    from the path; the resolved plugin's method of the same name is called, nothing else; an
    unknown format is a ValueError that lists the known (short) format names -/
def specDispatch (s : ConvSpec) (full : Bool) (r : Registry) (given : Option String) (path : String)
    (isFile : Bool) : ApiOut :=
  let inferred := inferFileFormat path isFile s.needsToExist s.allowFolder
  let fmt : Except InferErr String := match given with
    | some g => if g ≠ "" then .ok g else inferred
    | none => inferred
  match fmt with
  | .error e => .inferError e
  | .ok k =>
    match lookup r k with
    | some p => .called [s.name] p
    | none => .unknown k (sortedKeys r full)

theorem dispatch_of_convOk (accs : List Accessor) (dflt : Bool × Bool) (f : ConvFn) (s : ConvSpec)
    (rs : Registries) (r : Registry) (args : List Val) (isFile : String → Bool)
    (given : Option String) (path : String) (full : Bool)
    (h : convOk accs dflt f s full = true) (hr : rs.get s.attr = some r)
    (hpath : args[s.pathIdx]? = some (.str path)) (hgiven : args[s.pathIdx + 1]? = some (optVal given)) :
    dispatch accs dflt f rs args isFile = specDispatch s full r given path (isFile path) := by
  unfold convOk at h
  simp only [Bool.and_eq_true, decide_eq_true_eq] at h
  obtain ⟨⟨⟨⟨_, hrc⟩, huses⟩, hfmt⟩, hget⟩ := h
  split at hfmt
  · rename_i fp pp nte af hexpr
    simp only [Bool.and_eq_true, decide_eq_true_eq] at hfmt
    obtain ⟨⟨⟨⟨hpi, hfi⟩, hlen⟩, hn⟩, hf⟩ := hfmt
    cases hfa : findAccessor accs f.getter with
    | none => simp [hfa] at hget
    | some g =>
      simp only [hfa, Bool.and_eq_true, decide_eq_true_eq] at hget
      obtain ⟨hmod, hgok⟩ := hget
      have hlen1 : s.pathIdx + 1 < args.length := by
        rcases Nat.lt_or_ge (s.pathIdx + 1) args.length with h' | h'
        · exact h'
        · rw [List.getElem?_eq_none h'] at hgiven; cases hgiven
      have e1 : envLookup (bindPositional f.params args) pp = some (.str path) := by
        rw [envLookup_bindPositional pp f.params args s.pathIdx hpi (by omega) (by omega)]; exact hpath
      have e2 : envLookup (bindPositional f.params args) fp = some (optVal given) := by
        rw [envLookup_bindPositional fp f.params args (s.pathIdx + 1) hfi hlen hlen1]; exact hgiven
      have hcall := fun k => callAccessor_getter accs g s.attr full rs r k hgok hr
      unfold dispatch specDispatch
      simp only [hrc, ne_eq, not_true_eq_false, if_false, hexpr, evalFmt, e1, e2, hn, hf, hfa, hmod, huses,
        methodsOf, Option.map_some, bind, Except.bind]
      cases given with
      | none =>
        simp only [optVal, Val.truthy, Bool.false_eq_true, if_false]
        cases hi : inferFileFormat path (isFile path) s.needsToExist s.allowFolder with
        | error e => simp
        | ok k =>
          simp only [hcall k]
          cases lookup r k <;> simp
      | some g' =>
        by_cases hg : g' = ""
        · subst hg
          simp only [optVal, Val.truthy, ne_eq, not_true_eq_false, decide_false, Bool.false_eq_true, if_false]
          cases hi : inferFileFormat path (isFile path) s.needsToExist s.allowFolder with
          | error e => simp
          | ok k =>
            simp only [hcall k]
            cases lookup r k <;> simp
        · simp only [optVal, Val.truthy, ne_eq, hg, not_false_eq_true, decide_true, if_true, hcall g']
          cases lookup r g' <;> simp
  · simp at hfmt

/-! ### `splitext` -/

theorem takeWhile_prefix {α} (p : α → Bool) (l rest : List α) (h : ∀ a ∈ l, p a = true)
    (hr : rest = [] ∨ ∃ b t, rest = b :: t ∧ p b = false) : (l ++ rest).takeWhile p = l := by
  rw [List.takeWhile_append_of_pos h]
  rcases hr with e | ⟨b, t, e, hb⟩
  · simp [e]
  · simp [e, hb]

/-! ### `supported_file_extensions_*` -/

def extOk (accs : List Accessor) (e : ExtFn) (attr : String) (mf : Bool) : Bool :=
  (match e.params, e.methodsArg with
   | [mp], .param mp' => decide (mp = mp')
   | _, _ => false) &&
  knownOk accs e.keysFn e.keysFlag attr false &&
  (match findAccessor accs e.getFn with
   | some g => getterOk accs g attr mf
   | none => false)

theorem callExtFn_of_ok (accs : List Accessor) (e : ExtFn) (attr : String) (mf : Bool) (rs : Registries)
    (r : Registry) (implements : Plugin → String → Bool) (methods : List String)
    (h : extOk accs e attr mf = true) (hr : rs.get attr = some r) :
    callExtFn accs e rs implements methods
      = some (supportedExtensions (sortedKeys r false) (lookup r) implements methods) := by
  unfold extOk at h
  simp only [Bool.and_eq_true] at h
  obtain ⟨⟨hp, hk⟩, hg⟩ := h
  unfold callExtFn
  split at hp
  · rename_i mp mp' hpar harg
    simp only [decide_eq_true_eq] at hp
    subst hp
    cases hfa : findAccessor accs e.getFn with
    | none => simp [hfa] at hg
    | some g =>
      simp only [hfa] at hg
      rw [hpar, harg]
      simp only [ne_eq, not_true_eq_false, if_false,
        evalKnown_of_ok accs rs e.keysFn e.keysFlag attr false r hk hr]
      refine congrArg some ?_
      refine congrArg (fun get => supportedExtensions (sortedKeys r false) get implements methods) ?_
      funext k
      rw [callAccessor_getter accs g attr mf rs r k hg hr]
      cases lookup r k <;> rfl
  · simp at hp

end Glotaran.C19
