/-
C08 — linked groups with a link tolerance: interval items are decided at the ALIGNED coordinate of the
shared clp, member points inherit the decision.  Helper lemmas for GlotaranProofs/Props/C08.lean:
  * interval arithmetic: when do a member coordinate `x` and its aligned coordinate `v` disagree
    about membership in a closed interval (a finite bound lies between them),
  * the problems `C02.linkedProblems` builds: reduced at the aligned value,
  * the members of an aligned point lie within the tolerance of it (from the C09 theorems, transferred
    to the C02 alignment in Props/C09.lean).
-/
import GlotaranProofs.Lemmas.C08Lists
import GlotaranProofs.Lemmas.C02Align
import GlotaranProofs.Props.C09
namespace Glotaran.C08
open Glotaran.LinAlg Glotaran.C02

/-! ### member coordinate against aligned coordinate -/

/-- `b` is a finite bound of the interval -/
def Interval.hasBound (iv : Interval) (b : Rat) : Prop := iv.lo = .fin b ∨ iv.hi = .fin b

theorem emin_cases (a b : EB) : emin a b = a ∨ emin a b = b := by
  unfold emin; split <;> simp

theorem emax_cases (a b : EB) : emax a b = a ∨ emax a b = b := by
  unfold emax; split <;> simp

/-- **exact characterisation**: the member coordinate `x` is inside the closed interval and the aligned
    coordinate `v` is outside iff a finite bound of the interval separates them — the lower bound with
    `v < b ≤ x`, or the upper bound with `x ≤ b < v` (and `x` is on the right side of the other bound) -/
theorem inside_outside_iff (lo hi : EB) (x v : Rat) :
    (Interval.contains ⟨lo, hi⟩ x = true ∧ Interval.contains ⟨lo, hi⟩ v = false) ↔
      ∃ b : Rat, (emin lo hi = .fin b ∧ v < b ∧ b ≤ x ∧ EB.le (.fin x) (emax lo hi) = true) ∨
                 (emax lo hi = .fin b ∧ x ≤ b ∧ b < v ∧ (emin lo hi).le (.fin x) = true) := by
  rw [contains_eq, contains_eq]
  have hmm := emin_le_emax lo hi
  generalize emin lo hi = a at hmm ⊢
  generalize emax lo hi = c at hmm ⊢
  cases a with
  | pinf => simp [EB.le]
  | ninf =>
    cases c with
    | ninf => simp [EB.le]
    | pinf => simp [EB.le]
    | fin c =>
      simp only [EB.le, Bool.true_and, decide_eq_true_eq, decide_eq_false_iff_not, not_le, reduceCtorEq, false_and,
        EB.fin.injEq, and_true, false_or]
      constructor
      · rintro ⟨h1, h2⟩; exact ⟨c, rfl, h1, h2⟩
      · rintro ⟨b, rfl, h1, h2⟩; exact ⟨h1, h2⟩
  | fin a =>
    cases c with
    | ninf => simp [EB.le] at hmm
    | pinf =>
      simp only [EB.le, Bool.and_true, decide_eq_true_eq, decide_eq_false_iff_not, not_le, EB.fin.injEq, and_true,
        reduceCtorEq, false_and, or_false]
      constructor
      · rintro ⟨h1, h2⟩; exact ⟨a, rfl, h2, h1⟩
      · rintro ⟨b, rfl, h1, h2⟩; exact ⟨h2, h1⟩
    | fin c =>
      have hac : a ≤ c := by simpa [EB.le] using hmm
      simp only [EB.le, Bool.and_eq_true, decide_eq_true_eq, Bool.and_eq_false_iff, decide_eq_false_iff_not, not_le,
        EB.fin.injEq]
      constructor
      · rintro ⟨⟨h1, h2⟩, h3 | h3⟩
        · exact ⟨a, Or.inl ⟨rfl, h3, h1, h2⟩⟩
        · exact ⟨c, Or.inr ⟨rfl, h2, h3, h1⟩⟩
      · rintro ⟨b, ⟨rfl, h1, h2, h3⟩ | ⟨rfl, h1, h2, h3⟩⟩
        · exact ⟨⟨h2, h3⟩, Or.inl h1⟩
        · exact ⟨⟨h3, h1⟩, Or.inr h2⟩

/-- whenever two coordinates disagree about membership in a closed interval, a finite bound of the
    interval lies in the closed range between them -/
theorem contains_ne_bound_between (iv : Interval) (x v : Rat) (h : iv.contains x ≠ iv.contains v) :
    ∃ b, Interval.hasBound iv b ∧ min x v ≤ b ∧ b ≤ max x v := by
  obtain ⟨lo, hi⟩ := iv
  have key : ∀ y w : Rat, Interval.contains ⟨lo, hi⟩ y = true → Interval.contains ⟨lo, hi⟩ w = false →
      ∃ b, Interval.hasBound ⟨lo, hi⟩ b ∧ min y w ≤ b ∧ b ≤ max y w := by
    intro y w hy hw
    obtain ⟨b, hb | hb⟩ := (inside_outside_iff lo hi y w).mp ⟨hy, hw⟩
    · obtain ⟨he, h1, h2, _⟩ := hb
      refine ⟨b, ?_, le_trans (min_le_right _ _) (le_of_lt h1), le_trans h2 (le_max_left _ _)⟩
      rcases emin_cases lo hi with e | e
      · exact Or.inl (e ▸ he)
      · exact Or.inr (e ▸ he)
    · obtain ⟨he, h1, h2, _⟩ := hb
      refine ⟨b, ?_, le_trans (min_le_left _ _) h1, le_trans (le_of_lt h2) (le_max_right _ _)⟩
      rcases emax_cases lo hi with e | e
      · exact Or.inl (e ▸ he)
      · exact Or.inr (e ▸ he)
  cases hx : Interval.contains ⟨lo, hi⟩ x <;> cases hv : Interval.contains ⟨lo, hi⟩ v
  · rw [hx, hv] at h; exact absurd rfl h
  · obtain ⟨b, hb, h1, h2⟩ := key v x hv hx
    exact ⟨b, hb, by rwa [min_comm], by rwa [max_comm]⟩
  · exact key x v hx hv
  · rw [hx, hv] at h; exact absurd rfl h

/-- the same for a whole item (no interval, or a list of intervals = their union) -/
theorem applies_ne_bound_between (ivs : Option (List Interval)) (x v : Rat) (h : applies ivs x ≠ applies ivs v) :
    ∃ l, ivs = some l ∧ ∃ iv ∈ l, ∃ b, Interval.hasBound iv b ∧ min x v ≤ b ∧ b ≤ max x v := by
  cases ivs with
  | none => exact absurd rfl h
  | some l =>
    refine ⟨l, rfl, ?_⟩
    by_contra hcon
    apply h
    simp only [applies]
    have hall : ∀ iv ∈ l, iv.contains x = iv.contains v := by
      intro iv hiv
      by_contra hne
      exact hcon ⟨iv, hiv, contains_ne_bound_between iv x v hne⟩
    rw [Bool.eq_iff_iff, List.any_eq_true, List.any_eq_true]
    constructor
    · rintro ⟨iv, hiv, hc⟩; exact ⟨iv, hiv, by rw [← hall iv hiv]; exact hc⟩
    · rintro ⟨iv, hiv, hc⟩; exact ⟨iv, hiv, by rw [hall iv hiv]; exact hc⟩

/-- a point of the closed range between `x` and `v` is at most `|v − x|` away from `x` -/
theorem between_dist (x v b : Rat) (h1 : min x v ≤ b) (h2 : b ≤ max x v) : |b - x| ≤ |v - x| := by
  rcases le_total x v with hxv | hxv
  · rw [min_eq_left hxv] at h1; rw [max_eq_right hxv] at h2
    rw [abs_of_nonneg (by linarith), abs_of_nonneg (by linarith)]; linarith
  · rw [min_eq_right hxv] at h1; rw [max_eq_left hxv] at h2
    rw [abs_of_nonpos (by linarith), abs_of_nonpos (by linarith)]; linarith

/-! ### the problems of a linked group are reduced at the aligned value -/

theorem mapM_pair_spec {α β} (f : α → Option β) : ∀ (l : List α) (l' : List (α × β)),
    l.mapM (fun d => (f d).map (fun y => (d, y))) = some l' → ∀ p ∈ l', p.1 ∈ l ∧ f p.1 = some p.2 := by
  intro l
  induction l with
  | nil => intro l' h p hp; simp at h; subst h; cases hp
  | cons a l ih =>
    intro l' h
    rw [List.mapM_cons] at h
    cases hfa : f a with
    | none => simp [hfa] at h
    | some b =>
      cases hl : l.mapM (fun d => (f d).map (fun y => (d, y))) with
      | none => simp [hfa, hl] at h
      | some bs =>
        simp [hfa, hl] at h
        subst h
        intro p hp
        rcases List.mem_cons.mp hp with rfl | hp'
        · exact ⟨List.mem_cons_self .., hfa⟩
        · exact ⟨List.mem_cons_of_mem _ (ih bs hl p hp').1, (ih bs hl p hp').2⟩

theorem slices_getD_labels_nodup (lm : LMat) (n i : Nat) (h : lm.labels.Nodup) :
    ((slices lm n).getD i default).labels.Nodup := by
  rw [List.getD_eq_getElem?_getD]
  cases hg : (slices lm n)[i]? with
  | none => exact List.nodup_nil
  | some s =>
    have hm : s ∈ slices lm n := List.mem_of_getElem? hg
    simp only [Option.getD_some]
    unfold slices at hm
    cases hb : lm.body with
    | d2 m =>
      rw [hb] at hm
      simp only [List.mem_replicate] at hm
      rw [hm.2]; exact h
    | d3 ms =>
      rw [hb] at hm
      simp only [List.mem_map] at hm
      obtain ⟨_, _, rfl⟩ := hm
      exact h

/-- **every problem of a linked group is the stacked matrix of its aligned point reduced at the
    aligned value** (then weighted row-wise): `x` is the aligned value, the full labels are the labels
    of the stacked matrix, the reduced labels are those of `reduceAt mi x` -/
theorem linkedProblems_reduced (mi : ModelItems) (g : Group) (axis : List Rat) (ps : List IndexProblem)
    (h : linkedProblems mi g = some (axis, ps))
    (hN : ∀ d ∈ g.datasets, ∀ lm, datasetMatrix d.mcs = some lm → lm.labels.Nodup) :
    ∀ p ∈ ps, p.x ∈ axis ∧ ∃ stacked : LMat2, stacked.labels.Nodup ∧ p.fullLabels = stacked.labels ∧
      p.reduced.labels = (reduceAt mi p.x stacked).labels ∧
      (p.reduced.m = (reduceAt mi p.x stacked).m ∨
        ∃ w, p.reduced.m = weightRows (reduceAt mi p.x stacked).m w) := by
  unfold linkedProblems at h
  cases hal : alignAxes (g.datasets.map (·.globalAxis)) g.tol g.method with
  | none => simp [hal] at h
  | some aligned =>
    cases hdms : g.datasets.mapM (fun d => (datasetMatrix d.mcs).map (fun lm => (d, lm))) with
    | none => simp [hal, hdms] at h
    | some dms =>
      simp only [hal, hdms, Option.some.injEq, Prod.mk.injEq] at h
      obtain ⟨hax, hps⟩ := h
      intro p hp
      rw [← hps] at hp
      obtain ⟨v, hv, rfl⟩ := List.mem_map.mp hp
      refine ⟨by rw [← hax]; exact hv, alignMatrices (((dms.zip aligned).filterMap
          (fun da => (da.2.idxOf? v).map (fun i => (da.1, i)))).map (fun di =>
            ((slices di.1.2 di.1.1.nGlobal).getD di.2 default, di.1.1.scale.getD 1))), ?_, rfl, ?_, ?_⟩
      · apply alignMatrices_nodup
        intro b hb
        obtain ⟨di, hdi, rfl⟩ := List.mem_map.mp hb
        obtain ⟨da, hda, hsome⟩ := List.mem_filterMap.mp hdi
        cases hi : da.2.idxOf? v with
        | none => rw [hi] at hsome; cases hsome
        | some i =>
          rw [hi] at hsome
          simp only [Option.map_some, Option.some.injEq] at hsome
          subst hsome
          have hmem : da.1 ∈ dms := (List.of_mem_zip hda).1
          obtain ⟨hd, hlm⟩ := mapM_pair_spec _ _ _ hdms da.1 hmem
          exact slices_getD_labels_nodup _ _ _ (hN _ hd _ hlm)
      · simp only
        split <;> rfl
      · simp only
        split
        · exact Or.inr ⟨_, rfl⟩
        · exact Or.inl rfl

/-! ### the members of an aligned point lie within the tolerance -/

theorem posOf_some_getElem (v : Rat) : ∀ (a : List Rat) (j : Nat), C09.posOf v a = some j → a[j]? = some v := by
  intro a
  induction a with
  | nil => intro j h; simp [C09.posOf] at h
  | cons y ys ih =>
    intro j h
    simp only [C09.posOf] at h
    split at h
    · rename_i hy
      simp only [Option.some.injEq] at h
      subst h; subst hy; rfl
    · cases hp : C09.posOf v ys with
      | none => rw [hp] at h; cases h
      | some k =>
        rw [hp] at h
        simp only [Option.map_some, Option.some.injEq] at h
        subst h
        simpa using ih k hp

theorem mem_memberIdx (aligned : List (List Rat)) (v : Rat) (d j : Nat) (h : (d, j) ∈ memberIdx aligned v) :
    ∃ row, aligned[d]? = some row ∧ row[j]? = some v := by
  rw [C09.c02_memberIdx_eq] at h
  obtain ⟨_, a, ha, hp⟩ := (C09.mem_membersFrom v aligned 0 d j).mp h
  exact ⟨a, by simpa using ha, posOf_some_getElem v a j hp⟩

/-- **a member of the aligned point `v` is a point of its dataset's own global axis that is `v`
    itself or lies within the link tolerance of `v`** -/
theorem member_within_tol (axes aligned : List (List Rat)) (tol : Rat) (m : Method)
    (h : alignAxes axes tol m = some aligned) (v : Rat) (d j : Nat) (hm : (d, j) ∈ memberIdx aligned v) :
    ∃ ax x, axes[d]? = some ax ∧ ax[j]? = some x ∧ (v = x ∨ |v - x| ≤ tol) := by
  obtain ⟨row, hrow, hj⟩ := mem_memberIdx aligned v d j hm
  obtain ⟨hlen, hhead, hrest⟩ := C09.c02_assignment_is_self_or_nearest_aligned tol m axes aligned h
  have hd : d < axes.length := by
    have := (List.getElem?_eq_some_iff.mp hrow).1
    omega
  rcases Nat.eq_zero_or_pos d with hd0 | hdpos
  · subst hd0
    rw [List.head?_eq_getElem?, List.head?_eq_getElem?, hrow] at hhead
    exact ⟨row, v, hhead.symm, hj, Or.inl rfl⟩
  · obtain ⟨row', hrow', hl, hass⟩ := hrest d axes[d] hdpos (List.getElem?_eq_getElem hd)
    rw [hrow] at hrow'
    simp only [Option.some.injEq] at hrow'
    subst hrow'
    have hjl : j < axes[d].length := by
      have := (List.getElem?_eq_some_iff.mp hj).1
      omega
    obtain ⟨r, hr, hok⟩ := hass j axes[d][j] (List.getElem?_eq_getElem hjl)
    rw [hj] at hr
    simp only [Option.some.injEq] at hr
    subst hr
    refine ⟨axes[d], axes[d][j], List.getElem?_eq_getElem hd, List.getElem?_eq_getElem hjl, ?_⟩
    rcases hok with ⟨e, _⟩ | ⟨_, _, ht, _⟩
    · exact Or.inl e
    · exact Or.inr ht

/-- **the aligned coordinate is the own coordinate of the first member**: the member of `v` with the
    smallest dataset number is the dataset that introduced `v`; its own coordinate is `v` itself -/
theorem first_member_own (axes aligned : List (List Rat)) (tol : Rat) (m : Method)
    (h : alignAxes axes tol m = some aligned) (v : Rat) (d j : Nat) (hm : (d, j) ∈ memberIdx aligned v)
    (hfirst : ∀ d' j', (d', j') ∈ memberIdx aligned v → d ≤ d') :
    ∃ ax, axes[d]? = some ax ∧ ax[j]? = some v := by
  obtain ⟨row, hrow, hj⟩ := mem_memberIdx aligned v d j hm
  obtain ⟨hlen, hhead, hrest⟩ := C09.c02_assignment_is_self_or_nearest_aligned tol m axes aligned h
  have hd : d < axes.length := by
    have := (List.getElem?_eq_some_iff.mp hrow).1
    omega
  rcases Nat.eq_zero_or_pos d with hd0 | hdpos
  · subst hd0
    rw [List.head?_eq_getElem?, List.head?_eq_getElem?, hrow] at hhead
    exact ⟨row, hhead.symm, hj⟩
  · obtain ⟨row', hrow', hl, hass⟩ := hrest d axes[d] hdpos (List.getElem?_eq_getElem hd)
    rw [hrow] at hrow'
    simp only [Option.some.injEq] at hrow'
    subst hrow'
    have hjl : j < axes[d].length := by
      have := (List.getElem?_eq_some_iff.mp hj).1
      omega
    obtain ⟨r, hr, hok⟩ := hass j axes[d][j] (List.getElem?_eq_getElem hjl)
    rw [hj] at hr
    simp only [Option.some.injEq] at hr
    subst hr
    rcases hok with ⟨e, _⟩ | ⟨hmem, _, _, _⟩
    · exact ⟨axes[d], List.getElem?_eq_getElem hd, by rw [List.getElem?_eq_getElem hjl, e]⟩
    · -- `v` is already a point of an earlier dataset: that dataset is a member with a smaller number
      exfalso
      obtain ⟨early, hearly, hv⟩ := List.mem_flatten.mp hmem
      obtain ⟨d', hd', hget⟩ := List.getElem_of_mem hearly
      have hd'lt : d' < d := by
        have := hd'
        rw [List.length_take] at this
        omega
      have hal : aligned[d']? = some early := by
        rw [List.getElem_take] at hget
        rw [← hget]
        exact List.getElem?_eq_getElem _
      obtain ⟨j', hj'⟩ := (C09.posOf_isSome_iff v early).mpr hv
      have hmem' : (d', j') ∈ memberIdx aligned v := by
        rw [C09.c02_memberIdx_eq]
        exact (C09.mem_membersFrom v aligned 0 d' j').mpr ⟨Nat.zero_le _, early, by simpa using hal, hj'⟩
      have := hfirst d' j' hmem'
      omega

end Glotaran.C08
