import GlotaranModel.C02
namespace Glotaran.C02
open Glotaran.LinAlg

/-! ### `unionLabels` : order-preserving duplicate-free union -/

/-- one step of the `unionLabels` fold -/
theorem unionStep_mem (acc l : List String) (a : String) :
    a ∈ acc ++ l.filter (fun c => !acc.contains c) ↔ a ∈ acc ∨ a ∈ l := by
  by_cases ha : a ∈ acc
  · simp [ha]
  · simp [ha]

theorem unionStep_nodup (acc l : List String) (hacc : acc.Nodup) (hl : l.Nodup) :
    (acc ++ l.filter (fun c => !acc.contains c)).Nodup := by
  rw [List.nodup_append]
  refine ⟨hacc, hl.filter _, ?_⟩
  intro a ha b hb hab
  subst hab
  rw [List.mem_filter] at hb
  have := hb.2
  simp [ha] at this

theorem unionFold_nodup (ls : List (List String)) (acc : List String)
    (hacc : acc.Nodup) (h : ∀ l ∈ ls, l.Nodup) :
    (ls.foldl (fun acc l => acc ++ l.filter (fun c => !acc.contains c)) acc).Nodup := by
  induction ls generalizing acc with
  | nil => exact hacc
  | cons l ls ih =>
    rw [List.foldl_cons]
    apply ih
    · exact unionStep_nodup acc l hacc (h l (List.mem_cons_self ..))
    · intro l' hl'
      exact h l' (List.mem_cons_of_mem _ hl')

theorem unionFold_mem (ls : List (List String)) (acc : List String) (a : String) :
    a ∈ ls.foldl (fun acc l => acc ++ l.filter (fun c => !acc.contains c)) acc ↔
      a ∈ acc ∨ ∃ l ∈ ls, a ∈ l := by
  induction ls generalizing acc with
  | nil => simp
  | cons l ls ih =>
    rw [List.foldl_cons, ih, unionStep_mem]
    constructor
    · rintro ((h | h) | ⟨l', hl', h⟩)
      · exact Or.inl h
      · exact Or.inr ⟨l, List.mem_cons_self .., h⟩
      · exact Or.inr ⟨l', List.mem_cons_of_mem _ hl', h⟩
    · rintro (h | ⟨l', hl', h⟩)
      · exact Or.inl (Or.inl h)
      · rcases List.mem_cons.1 hl' with rfl | hl'
        · exact Or.inl (Or.inr h)
        · exact Or.inr ⟨l', hl', h⟩

/-- 1. the union of duplicate-free label lists is duplicate-free -/
theorem unionLabels_nodup_lem (ls : List (List String)) (h : ∀ l ∈ ls, l.Nodup) :
    (unionLabels ls).Nodup :=
  unionFold_nodup ls [] List.nodup_nil h

example : (unionLabels [["a", "b"], ["b", "c"]]).Nodup :=
  unionLabels_nodup_lem _ (by decide)

example : unionLabels [["a", "b"], ["b", "c"]] = ["a", "b", "c"] := by decide

/-- 2. membership in the union -/
theorem unionLabels_mem (ls : List (List String)) (a : String) :
    a ∈ unionLabels ls ↔ ∃ l ∈ ls, a ∈ l := by
  unfold unionLabels
  rw [unionFold_mem]
  simp

example : "c" ∈ unionLabels [["a", "b"], ["b", "c"]] :=
  (unionLabels_mem _ _).2 ⟨["b", "c"], by decide, by decide⟩

example : "d" ∉ unionLabels [["a", "b"], ["b", "c"]] := by
  rw [unionLabels_mem]; decide

/-! ### `alignMatrices` -/

/-- 3. a single block is returned as is (scaled) -/
theorem alignMatrices_single_lem (b : LMat2 × Rat) :
    alignMatrices [b] = ⟨b.1.labels, mscale b.2 b.1.m⟩ := by
  simp only [alignMatrices]

example : alignMatrices [(⟨["a", "b"], [[1, 2], [3, 4]]⟩, 2)] =
    ⟨["a", "b"], mscale 2 [[1, 2], [3, 4]]⟩ :=
  alignMatrices_single_lem _

/-- the general (non-single) branch, as an equation -/
theorem alignMatrices_of_two_le (bs : List (LMat2 × Rat)) (h : 2 ≤ bs.length) :
    alignMatrices bs =
      ⟨unionLabels (bs.map (·.1.labels)), bs.flatMap (fun b =>
        (mscale b.2 b.1.m).map (fun r => (unionLabels (bs.map (·.1.labels))).map (fun l =>
          match b.1.labels.idxOf? l with | some j => r.getD j 0 | none => 0)))⟩ := by
  match bs, h with
  | b1 :: b2 :: rest, _ => simp only [alignMatrices]; rfl

/-- 4. labels of the stacked matrix are the ordered union of the blocks' labels -/
theorem alignMatrices_labels (bs : List (LMat2 × Rat)) (h : 2 ≤ bs.length) :
    (alignMatrices bs).labels = unionLabels (bs.map (·.1.labels)) := by
  rw [alignMatrices_of_two_le bs h]

example : (alignMatrices [(⟨["a", "b"], [[1, 2]]⟩, 1), (⟨["b", "c"], [[3, 4], [5, 6]]⟩, 2)]).labels
    = unionLabels [["a", "b"], ["b", "c"]] :=
  alignMatrices_labels _ (by decide)

theorem length_mscale (k : Rat) (m : Mat) : (mscale k m).length = m.length := by
  simp [mscale]

/-- 5. the rows are stacked: the row count is the sum of the blocks' row counts -/
theorem alignMatrices_rows_length (bs : List (LMat2 × Rat)) (h : 2 ≤ bs.length) :
    (alignMatrices bs).m.length = (bs.map (·.1.m.length)).sum := by
  rw [alignMatrices_of_two_le bs h]
  simp only [List.length_flatMap, List.length_map, length_mscale]

example : (alignMatrices [(⟨["a", "b"], [[1, 2]]⟩, 1), (⟨["b", "c"], [[3, 4], [5, 6]]⟩, 2)]).m.length
    = 3 :=
  alignMatrices_rows_length _ (by decide)

/-- 6a. every stacked row has one entry per union label -/
theorem alignMatrices_row_width (bs : List (LMat2 × Rat)) (h : 2 ≤ bs.length) :
    ∀ r ∈ (alignMatrices bs).m, r.length = (alignMatrices bs).labels.length := by
  rw [alignMatrices_of_two_le bs h]
  intro r hr
  simp only [List.mem_flatMap, List.mem_map] at hr
  obtain ⟨b, _, r0, _, rfl⟩ := hr
  simp only [List.length_map]

example : ∀ r ∈ (alignMatrices [(⟨["a", "b"], [[1, 2]]⟩, 1), (⟨["b", "c"], [[3, 4], [5, 6]]⟩, 2)]).m,
    r.length = 3 := by
  intro r hr
  rw [alignMatrices_row_width _ (by decide) r hr, alignMatrices_labels _ (by decide)]
  decide

/-- 6b. duplicate-free block labels give duplicate-free stacked labels (any number of blocks) -/
theorem alignMatrices_nodup (bs : List (LMat2 × Rat)) (h : ∀ b ∈ bs, b.1.labels.Nodup) :
    (alignMatrices bs).labels.Nodup := by
  have hU : (unionLabels (bs.map (·.1.labels))).Nodup := by
    apply unionLabels_nodup_lem
    intro l hl
    obtain ⟨b, hb, rfl⟩ := List.mem_map.1 hl
    exact h b hb
  match bs, h, hU with
  | [], _, hU => simp only [alignMatrices]; exact hU
  | [b], h, _ => simp only [alignMatrices]; exact h b (List.mem_cons_self ..)
  | b1 :: b2 :: rest, _, hU =>
    rw [alignMatrices_labels _ (by simp)]; exact hU

example : (alignMatrices [(⟨["a", "b"], [[1, 2]]⟩, 1), (⟨["b", "c"], [[3, 4], [5, 6]]⟩, 2)]).labels.Nodup :=
  alignMatrices_nodup _ (by decide)

example : (alignMatrices [(⟨["a", "b"], [[1, 2]]⟩, 3)]).labels.Nodup :=
  alignMatrices_nodup _ (by decide)

end Glotaran.C02
