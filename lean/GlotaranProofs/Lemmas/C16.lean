/-
C16 — specification vocabulary and helper lemmas (file half: save → load; spec half: flatten, kwargs).
-/
import GlotaranModel.C16
import GlotaranProofs.Props.C12
set_option linter.unusedSimpArgs false
namespace Glotaran.C16

-- results of the model are compared by `decide` in the examples
deriving instance DecidableEq for Except

/-! ### vocabulary -/

theorem mkParam_toRecord (p : Param) (hl : validLabel p.label = true)
    (hv : hasExpression p.expr = true → p.vary = false) : mkParam (toRecord p) = .ok p := by
  obtain ⟨label, value, stderr, expr, maximum, minimum, nonNeg, vary⟩ := p
  have h1 : checkKeys (toRecord ⟨label, value, stderr, expr, maximum, minimum, nonNeg, vary⟩) = .ok () := by
    simp [checkKeys, toRecord, Generated.paramFields]
  have h2 : labelFrom (toRecord ⟨label, value, stderr, expr, maximum, minimum, nonNeg, vary⟩) = .ok label := by
    simp only [] at hl
    simp [labelFrom, toRecord, lookup, labelOf, hl]
  have h3 : restFrom (toRecord ⟨label, value, stderr, expr, maximum, minimum, nonNeg, vary⟩)
      = .ok ⟨"", value, stderr, expr, maximum, minimum, nonNeg, vary⟩ := by
    unfold restFrom
    simp [toRecord, lookup, cellOfOptStr, numOf, stderrOf, boolOf, bind, Except.bind, pure, Except.pure]
    cases expr with
    | none => simp [exprOf, hasExpression]
    | some s =>
      simp only [exprOf]
      by_cases h : hasExpression (some s) = true
      · have := hv h
        simp_all
      · simp_all
  simp only [mkParam, h1, h2, h3]

theorem mapM_map_ok {α β : Type} (f : α → β) (g : β → Except Err α) :
    ∀ (xs : List α), (∀ x ∈ xs, g (f x) = .ok x) → (xs.map f).mapM g = .ok xs := by
  intro xs
  induction xs with
  | nil => intro _; rfl
  | cons x rest ih =>
    intro h
    simp only [List.map_cons, List.mapM_cons, bind, Except.bind]
    rw [h x (by simp)]
    simp only []
    rw [ih (fun y hy => h y (by simp [hy]))]
    rfl

def exprRead : Option String → Cell
  | none => .flt .nan
  | some s => .str s

def loadedRow (p : Param) : List Cell :=
  [.str p.label, .flt p.value, .flt p.stderr, exprRead p.expr, .flt p.maximum, .flt p.minimum,
   .bool p.nonNeg, .bool p.vary]

structure Storable (fmt : Format) (p : Param) : Prop where
  label_valid : validLabel p.label = true
  label_not_na : p.label ∉ naTokens fmt
  expr_not_na : ∀ e, p.expr = some e → e ∉ naTokens fmt
  max_not_nan : p.maximum ≠ .nan
  min_not_nan : p.minimum ≠ .nan
  expr_fixed : p.expr.isSome = true → p.vary = false

theorem empty_is_na (fmt : Format) : "" ∈ naTokens fmt := by
  cases fmt <;> decide

theorem columns_prepared :
    Generated.paramFields.map (fun c => deserializeName (lower c)) = Generated.paramFields := by decide

@[simp] theorem readCell_flt (fmt : Format) (x : Flt) : readCell fmt (.flt x) = .flt x := rfl
@[simp] theorem readCell_bool (fmt : Format) (b : Bool) : readCell fmt (.bool b) = .bool b := rfl

theorem readCell_str {fmt : Format} {s : String} (h : s ∉ naTokens fmt) : readCell fmt (.str s) = .str s := by
  simp [readCell, h]

theorem readCell_expr {fmt : Format} {e : Option String} (h : ∀ s, e = some s → s ∉ naTokens fmt) :
    readCell fmt (cellOfOptStr e) = exprRead e := by
  cases e with
  | none => rfl
  | some s => simp [cellOfOptStr, exprRead, readCell, h s rfl]

theorem bound_cell (inf m : Flt) (h : m ≠ .nan) :
    fillna (.flt inf) (.flt m) = .flt m := by
  cases m <;> simp_all [fillna, isNA]

theorem bound_cell_replaced (fmt : Format) (m : Flt) (h : m ≠ .nan) :
    fillna (.flt .pinf) (readCell fmt (replaceCell (.flt .pinf) (.str "") (.flt m))) = .flt m := by
  have := empty_is_na fmt
  cases m <;> simp_all [fillna, isNA, replaceCell, readCell]

theorem bound_cell_replaced' (fmt : Format) (m : Flt) (h : m ≠ .nan) :
    fillna (.flt .ninf) (readCell fmt (replaceCell (.flt .ninf) (.str "") (.flt m))) = .flt m := by
  have := empty_is_na fmt
  cases m <;> simp_all [fillna, isNA, replaceCell, readCell]

theorem row_prepared (fmt : Format) (flag : Bool) (p : Param) (h : Storable fmt p) :
    List.zipWith (fun c x => if c = "maximum" then fillna (.flt .pinf) x else x) Generated.paramFields
      (List.zipWith (fun c x => if c = "minimum" then fillna (.flt .ninf) x else x) Generated.paramFields
        (((if flag then
            List.zipWith (fun c x => if c = "maximum" then replaceCell (.flt .pinf) (.str "") x else x) Generated.paramFields
              (List.zipWith (fun c x => if c = "minimum" then replaceCell (.flt .ninf) (.str "") x else x) Generated.paramFields
                ((toRecord p).map (·.2)))
          else (toRecord p).map (·.2))).map (readCell fmt))) = loadedRow p := by
  obtain ⟨h1, h2, h3, h4, h5, h6⟩ := h
  cases flag <;>
    simp [toRecord, Generated.paramFields, loadedRow, readCell_str h2, readCell_expr h3, bound_cell, bound_cell_replaced,
      bound_cell_replaced', h4, h5]


theorem mapCol_map {α : Type} (name : String) (f : Cell → Cell) (cols : List String) (g : α → List Cell) (xs : List α) :
    mapCol name f ⟨cols, xs.map g⟩ =
      ⟨cols, xs.map (fun x => List.zipWith (fun c y => if c = name then f y else y) cols (g x))⟩ := by
  simp [mapCol, List.map_map, Function.comp_def]

theorem prepared_frame (fmt : Format) (flag : Bool) (ps : List Param) (h : ∀ p ∈ ps, Storable fmt p) :
    prepare (readFrame fmt (saveFrame flag ps)) = ⟨Generated.paramFields, ps.map loadedRow⟩ := by
  have hrows : ∀ p ∈ ps, _ = loadedRow p := fun p hp => row_prepared fmt flag p (h p hp)
  unfold prepare readFrame saveFrame toFrame
  cases flag
  · simp only [Bool.false_eq_true, if_false, List.map_map, Function.comp_def, columns_prepared, mapCol_map]
    congr 1
    apply List.map_congr_left
    intro p hp
    simpa [Function.comp_def] using hrows p hp
  · simp only [if_true, mapCol_map, List.map_map, Function.comp_def, columns_prepared]
    congr 1
    apply List.map_congr_left
    intro p hp
    simpa [Function.comp_def] using hrows p hp


theorem hasExpression_isSome {e : Option String} (h : hasExpression e = true) : e.isSome = true := by
  cases e <;> simp_all [hasExpression]

theorem firstBad_none (fr : Frame) (ok : Cell → Bool) :
    ∀ (cols : List String), (∀ c ∈ cols, ∀ cells, fr.column c = some cells → cells.all ok = true) →
      firstBad fr ok cols = none := by
  intro cols
  induction cols with
  | nil => intro _; rfl
  | cons c rest ih =>
    intro h
    unfold firstBad
    cases hc : fr.column c with
    | none => exact ih (fun c' hc' => h c' (by simp [hc']))
    | some cells =>
      simp only [h c (by simp) cells hc, if_true]
      exact ih (fun c' hc' => h c' (by simp [hc']))

theorem column_of_map {α : Type} (g : α → List Cell) (xs : List α) (name : String) (i : Nat)
    (hi : Generated.paramFields.idxOf? name = some i) :
    Frame.column ⟨Generated.paramFields, xs.map g⟩ name = some (xs.map (fun x => (g x).getD i .none)) := by
  simp [Frame.column, hi, List.map_map, Function.comp_def]

theorem idx_value : Generated.paramFields.idxOf? "value" = some 1 := by decide
theorem idx_expression : Generated.paramFields.idxOf? "expression" = some 3 := by decide
theorem idx_maximum : Generated.paramFields.idxOf? "maximum" = some 4 := by decide
theorem idx_minimum : Generated.paramFields.idxOf? "minimum" = some 5 := by decide
theorem idx_non_negative : Generated.paramFields.idxOf? "non_negative" = some 6 := by decide
theorem idx_vary : Generated.paramFields.idxOf? "vary" = some 7 := by decide

theorem frameParams_loaded (fmt : Format) (ps : List Param) (h : ∀ p ∈ ps, Storable fmt p) :
    frameParams ⟨Generated.paramFields, ps.map loadedRow⟩ = .ok ps := by
  unfold frameParams
  have h1 : firstMissing ⟨Generated.paramFields, ps.map loadedRow⟩ ["label", "value"] = none := by
    simp [firstMissing, Generated.paramFields]
  have h2 : firstBad ⟨Generated.paramFields, ps.map loadedRow⟩ isReal ["minimum", "maximum", "value"] = none := by
    apply firstBad_none
    intro c hc cells hcells
    simp only [List.mem_cons, List.mem_nil_iff, or_false] at hc
    rcases hc with rfl | rfl | rfl
    · rw [column_of_map _ _ _ _ idx_minimum] at hcells
      cases hcells
      simp [loadedRow, isReal]
    · rw [column_of_map _ _ _ _ idx_maximum] at hcells
      cases hcells
      simp [loadedRow, isReal]
    · rw [column_of_map _ _ _ _ idx_value] at hcells
      cases hcells
      simp [loadedRow, isReal]
  have h3 : mapCol "vary" coerceBool (mapCol "non_negative" coerceBool ⟨Generated.paramFields, ps.map loadedRow⟩)
      = ⟨Generated.paramFields, ps.map loadedRow⟩ := by
    simp only [mapCol_map]
    congr 1
    all_goals
      apply List.map_congr_left
      intro p _
      simp [Generated.paramFields, loadedRow, coerceBool]
  have h4 : firstBad ⟨Generated.paramFields, ps.map loadedRow⟩ isBool ["non_negative", "vary"] = none := by
    apply firstBad_none
    intro c hc cells hcells
    simp only [List.mem_cons, List.mem_nil_iff, or_false] at hc
    rcases hc with rfl | rfl
    · rw [column_of_map _ _ _ _ idx_non_negative] at hcells
      cases hcells
      simp [loadedRow, isBool]
    · rw [column_of_map _ _ _ _ idx_vary] at hcells
      cases hcells
      simp [loadedRow, isBool]
  have h5 : records (mapCol "expression" cleanExpr ⟨Generated.paramFields, ps.map loadedRow⟩) = ps.map toRecord := by
    simp only [mapCol_map, records, List.map_map, Function.comp_def]
    apply List.map_congr_left
    intro p _
    cases he : p.expr <;> simp [Generated.paramFields, loadedRow, toRecord, cleanExpr, exprRead, cellOfOptStr, he]
  simp only [h1, h2, h3, h4, h5]
  apply mapM_map_ok
  intro p hp
  exact mkParam_toRecord p (h p hp).label_valid (fun he => (h p hp).expr_fixed (hasExpression_isSome he))

/-! ### `Parameters.__init__`: dict semantics -/

def labels (ps : List Param) : List String := ps.map (·.label)

theorem dictInsert_nodup (d : List Param) (p : Param) (h : (labels d).Nodup) : (labels (dictInsert d p)).Nodup := by
  unfold dictInsert
  split
  · have : labels (d.map (fun q => if q.label = p.label then p else q)) = labels d := by
      simp only [labels, List.map_map]
      apply List.map_congr_left
      intro q _
      by_cases hq : q.label = p.label <;> simp [hq]
    rw [this]; exact h
  · rename_i hany
    have hnot : ∀ a ∈ labels d, a ≠ p.label := by
      intro a ha e
      obtain ⟨q, hq, hql⟩ := List.mem_map.mp ha
      apply hany
      simp only [List.any_eq_true, decide_eq_true_eq]
      exact ⟨q, hq, hql.trans e⟩
    simp only [labels, List.map_append, List.map_cons, List.map_nil]
    refine List.nodup_append.mpr ⟨h, by simp, ?_⟩
    intro a ha b hb
    simp only [List.mem_cons, List.not_mem_nil, or_false] at hb
    rw [hb]; exact hnot a ha

theorem foldl_dictInsert_nodup : ∀ (items acc : List Param), (labels acc).Nodup →
    (labels (items.foldl dictInsert acc)).Nodup := by
  intro items
  induction items with
  | nil => intro acc h; exact h
  | cons p rest ih => intro acc h; exact ih _ (dictInsert_nodup acc p h)

theorem ofList_nodup (items : List Param) : (labels (ofList items)).Nodup :=
  foldl_dictInsert_nodup items [] (by simp [labels])

theorem foldl_dictInsert_of_nodup : ∀ (items acc : List Param), (labels (acc ++ items)).Nodup →
    items.foldl dictInsert acc = acc ++ items := by
  intro items
  induction items with
  | nil => intro acc _; simp
  | cons p rest ih =>
    intro acc h
    have hsplit : labels (acc ++ p :: rest) = labels acc ++ p.label :: labels rest := by
      simp [labels]
    rw [hsplit] at h
    obtain ⟨h1, h2, h3⟩ := List.nodup_append.mp h
    have hins : dictInsert acc p = acc ++ [p] := by
      unfold dictInsert
      split
      · rename_i hany
        simp only [List.any_eq_true, decide_eq_true_eq] at hany
        obtain ⟨q, hq, hql⟩ := hany
        exact absurd hql (h3 q.label (List.mem_map.mpr ⟨q, hq, rfl⟩) p.label (by simp))
      · rfl
    simp only [List.foldl_cons, hins]
    rw [ih (acc ++ [p])]
    · simp
    · have : labels ((acc ++ [p]) ++ rest) = labels acc ++ p.label :: labels rest := by
        simp [labels]
      rw [this]; exact h

theorem ofList_of_nodup (ps : List Param) (h : (labels ps).Nodup) : ofList ps = ps := by
  have := foldl_dictInsert_of_nodup ps [] (by rw [List.nil_append]; exact h)
  simpa [ofList] using this

/-! ### the C12 embedding -/

theorem toVal_ofVal (v : C12.Val) : toVal (ofVal v) = some v := by
  cases v <;> rfl

theorem ofVal_toVal {x : Flt} {v : C12.Val} (h : toVal x = some v) : ofVal v = x := by
  cases x <;> simp_all [toVal, ofVal]
  all_goals (cases h; rfl)


def writeBack (p : Param) (c : C12.Param) : Param := { p with value := ofVal c.value }

theorem evalExpressions_def (parse : ParseTab) (F : C12.Funs) (d : List Param) :
    evalExpressions parse F d =
      if d.all (fun p => p.expr.isNone) then .ok d
      else match d.mapM (toC12 parse) with
        | none => .error (.unsupported "expression outside the C12 embedding")
        | some cs => match C12.update F cs with
          | .error (e, _) => .error (.expression e)
          | .ok cs' => .ok (List.zipWith writeBack d cs') := rfl

theorem toC12_some {parse : ParseTab} {p : Param} {c : C12.Param} (h : toC12 parse p = some c) :
    ∃ v e, toVal p.value = some v ∧ exprAst parse p.expr = some e ∧
      c = { label := p.label, value := v, expr := e, vary := p.vary, nonNeg := p.nonNeg } := by
  unfold toC12 at h
  split at h
  · rename_i v e hv he
    exact ⟨v, e, hv, he, (Option.some.inj h).symm⟩
  · cases h

theorem toC12_label {parse : ParseTab} {p : Param} {c : C12.Param} (h : toC12 parse p = some c) : c.label = p.label := by
  obtain ⟨v, e, _, _, rfl⟩ := toC12_some h
  rfl

theorem toC12_writeBack {parse : ParseTab} {p : Param} {c c' : C12.Param} (h : toC12 parse p = some c)
    (hs : C12.skel c' = C12.skel c) : toC12 parse (writeBack p c') = some c' := by
  obtain ⟨v, e, hv, he, rfl⟩ := toC12_some h
  obtain ⟨l', v', e', vary', nn'⟩ := c'
  simp only [C12.skel, C12.Param.mk.injEq] at hs
  obtain ⟨h1, _, h2, h3, h4⟩ := hs
  subst h1 h2 h3 h4
  simp [toC12, writeBack, toVal_ofVal, he]

theorem mapM_toC12_writeBack (parse : ParseTab) : ∀ (d : List Param) (cs cs' : List C12.Param),
    d.mapM (toC12 parse) = some cs → cs'.map C12.skel = cs.map C12.skel →
    (List.zipWith writeBack d cs').mapM (toC12 parse) = some cs' := by
  intro d
  induction d with
  | nil =>
    intro cs cs' h hs
    simp at h
    subst h
    cases cs' <;> simp_all
  | cons p rest ih =>
    intro cs cs' h hs
    simp only [List.mapM_cons, bind, Option.bind] at h
    cases hp : toC12 parse p with
    | none => simp [hp] at h
    | some c =>
      simp only [hp] at h
      cases hr : rest.mapM (toC12 parse) with
      | none => simp [hr] at h
      | some crest =>
        simp [hr] at h
        subst h
        cases cs' with
        | nil => simp at hs
        | cons c' crest' =>
          simp only [List.map_cons, List.cons.injEq] at hs
          simp only [List.zipWith_cons_cons, List.mapM_cons, bind, Option.bind]
          rw [toC12_writeBack hp hs.1, ih crest crest' hr hs.2]
          rfl

theorem zipWith_writeBack_idem : ∀ (d : List Param) (cs : List C12.Param),
    List.zipWith writeBack (List.zipWith writeBack d cs) cs = List.zipWith writeBack d cs := by
  intro d
  induction d with
  | nil => intro cs; simp
  | cons p rest ih =>
    intro cs
    cases cs with
    | nil => simp
    | cons c crest => simp [ih crest, writeBack]

theorem mapM_toC12_labels (parse : ParseTab) : ∀ (d : List Param) (cs : List C12.Param),
    d.mapM (toC12 parse) = some cs → C12.labels cs = labels d := by
  intro d
  induction d with
  | nil => intro cs h; simp at h; subst h; rfl
  | cons p rest ih =>
    intro cs h
    simp only [List.mapM_cons, bind, Option.bind] at h
    cases hp : toC12 parse p with
    | none => simp [hp] at h
    | some c =>
      simp only [hp] at h
      cases hr : rest.mapM (toC12 parse) with
      | none => simp [hr] at h
      | some crest =>
        simp [hr] at h
        subst h
        simp [C12.labels, labels, toC12_label hp]
        exact ih crest hr


theorem mapM_option_length {α β : Type} (f : α → Option β) : ∀ (xs : List α) (ys : List β),
    xs.mapM f = some ys → ys.length = xs.length := by
  intro xs
  induction xs with
  | nil => intro ys h; simp at h; subst h; rfl
  | cons x rest ih =>
    intro ys h
    simp only [List.mapM_cons, bind, Option.bind] at h
    cases hx : f x with
    | none => simp [hx] at h
    | some y =>
      simp only [hx] at h
      cases hr : rest.mapM f with
      | none => simp [hr] at h
      | some yrest =>
        simp [hr] at h
        subst h
        simp [ih yrest hr]

theorem zipWith_writeBack_shape : ∀ (d : List Param) (cs : List C12.Param), d.length = cs.length →
    (List.zipWith writeBack d cs).map (fun p => { p with value := Flt.nan }) = d.map (fun p => { p with value := Flt.nan }) := by
  intro d
  induction d with
  | nil => intro cs _; simp
  | cons p rest ih =>
    intro cs h
    cases cs with
    | nil => simp at h
    | cons c crest =>
      simp only [List.length_cons, Nat.add_right_cancel_iff] at h
      simp [ih crest h, writeBack]

theorem shape_labels {a b : List Param}
    (h : a.map (fun p => { p with value := Flt.nan }) = b.map (fun p => { p with value := Flt.nan })) :
    labels a = labels b := by
  have := congrArg (List.map (·.label)) h
  simpa [labels, List.map_map, Function.comp_def] using this

theorem shape_exprs {a b : List Param}
    (h : a.map (fun p => { p with value := Flt.nan }) = b.map (fun p => { p with value := Flt.nan })) :
    a.all (fun p => p.expr.isNone) = b.all (fun p => p.expr.isNone) := by
  have := congrArg (List.map (·.expr)) h
  simp only [List.map_map, Function.comp_def] at this
  have e : ∀ (l : List Param), l.all (fun p => p.expr.isNone) = (l.map (·.expr)).all Option.isNone := by
    intro l; simp [List.all_map, Function.comp_def]
  rw [e a, e b, this]

theorem shape_mem {a b : List Param}
    (h : a.map (fun p => { p with value := Flt.nan }) = b.map (fun p => { p with value := Flt.nan }))
    {q : Param} (hq : q ∈ a) : ∃ p ∈ b, ({ q with value := Flt.nan } : Param) = { p with value := Flt.nan } := by
  have : ({ q with value := Flt.nan } : Param) ∈ a.map (fun p => { p with value := Flt.nan }) :=
    List.mem_map.mpr ⟨q, hq, rfl⟩
  rw [h] at this
  obtain ⟨p, hp, e⟩ := List.mem_map.mp this
  exact ⟨p, hp, e.symm⟩

/-- what a successful `evalExpressions` with at least one expression consists of -/
theorem evalExpressions_ok {parse : ParseTab} {F : C12.Funs} {d d1 : List Param}
    (h : evalExpressions parse F d = .ok d1) (hne : d.all (fun p => p.expr.isNone) = false) :
    ∃ cs cs', d.mapM (toC12 parse) = some cs ∧ C12.update F cs = .ok cs' ∧ d1 = List.zipWith writeBack d cs' := by
  rw [evalExpressions_def] at h
  simp only [hne, Bool.false_eq_true, if_false] at h
  cases hm : d.mapM (toC12 parse) with
  | none => simp [hm] at h
  | some cs =>
    simp only [hm] at h
    cases hu : C12.update F cs with
    | error e => simp [hu] at h
    | ok cs' =>
      simp only [hu, Except.ok.injEq] at h
      exact ⟨cs, cs', rfl, hu, h.symm⟩

theorem evalExpressions_noexpr {parse : ParseTab} {F : C12.Funs} {d : List Param}
    (hne : d.all (fun p => p.expr.isNone) = true) : evalExpressions parse F d = .ok d := by
  rw [evalExpressions_def]; simp [hne]

/-- the result has the shape of the input: only values differ -/
theorem evalExpressions_shape {parse : ParseTab} {F : C12.Funs} {d d1 : List Param}
    (h : evalExpressions parse F d = .ok d1) :
    d1.map (fun p => { p with value := Flt.nan }) = d.map (fun p => { p with value := Flt.nan }) := by
  cases hne : d.all (fun p => p.expr.isNone) with
  | true => rw [evalExpressions_noexpr hne] at h; cases h; rfl
  | false =>
    obtain ⟨cs, cs', hm, hu, rfl⟩ := evalExpressions_ok h hne
    apply zipWith_writeBack_shape
    have l1 := mapM_option_length _ _ _ hm
    have l2 := congrArg List.length (C12.update_preserves_structure F cs cs' hu).1
    simp only [List.length_map] at l2
    omega

/-- **re-evaluation is idempotent** (acyclic expressions): the loaded state is a fixpoint -/
theorem evalExpressions_idem {parse : ParseTab} {F : C12.Funs} {d d1 : List Param}
    (hnd : (labels d).Nodup) (hac : ∀ cs, d.mapM (toC12 parse) = some cs → C12.Acyclic cs)
    (h : evalExpressions parse F d = .ok d1) : evalExpressions parse F d1 = .ok d1 := by
  cases hne : d.all (fun p => p.expr.isNone) with
  | true => rw [evalExpressions_noexpr hne] at h; cases h; exact evalExpressions_noexpr hne
  | false =>
    have hshape := evalExpressions_shape h
    obtain ⟨cs, cs', hm, hu, rfl⟩ := evalExpressions_ok h hne
    have hwf : C12.WF cs := by
      unfold C12.WF; rw [mapM_toC12_labels parse d cs hm]; exact hnd
    have hsk := (C12.update_preserves_structure F cs cs' hu).1
    have hm' := mapM_toC12_writeBack parse d cs cs' hm hsk
    have hu' := C12.update_idempotent F cs cs' hwf (hac cs hm) hu
    rw [evalExpressions_def]
    rw [shape_exprs hshape, hne]
    simp only [Bool.false_eq_true, if_false, hm', hu', zipWith_writeBack_idem]

/-- **after loading, every expression parameter holds the value of its expression** -/
theorem evalExpressions_consistent {parse : ParseTab} {F : C12.Funs} {d d1 : List Param}
    (hnd : (labels d).Nodup) (hac : ∀ cs, d.mapM (toC12 parse) = some cs → C12.Acyclic cs)
    (h : evalExpressions parse F d = .ok d1) (hne : d.all (fun p => p.expr.isNone) = false) :
    ∃ cs', d1.mapM (toC12 parse) = some cs' ∧ C12.Consistent F cs' := by
  obtain ⟨cs, cs', hm, hu, rfl⟩ := evalExpressions_ok h hne
  have hwf : C12.WF cs := by
    unfold C12.WF; rw [mapM_toC12_labels parse d cs hm]; exact hnd
  have hsk := (C12.update_preserves_structure F cs cs' hu).1
  exact ⟨cs', mapM_toC12_writeBack parse d cs cs' hm hsk, C12.consistent_after_update F cs cs' hwf (hac cs hm) hu⟩

theorem mem_dictInsert {d : List Param} {p q : Param} (h : q ∈ dictInsert d p) : q ∈ d ∨ q = p := by
  unfold dictInsert at h
  split at h
  · obtain ⟨x, hx, e⟩ := List.mem_map.mp h
    by_cases hl : x.label = p.label
    · simp [hl] at e; exact Or.inr e.symm
    · simp [hl] at e; exact Or.inl (e ▸ hx)
  · simpa using h

theorem mem_foldl_dictInsert : ∀ (items acc : List Param) (q : Param),
    q ∈ items.foldl dictInsert acc → q ∈ acc ∨ q ∈ items := by
  intro items
  induction items with
  | nil => intro acc q h; exact Or.inl h
  | cons p rest ih =>
    intro acc q h
    rcases ih _ q h with h1 | h1
    · rcases mem_dictInsert h1 with h2 | h2
      · exact Or.inl h2
      · exact Or.inr (by simp [h2])
    · exact Or.inr (by simp [h1])

theorem mem_ofList {items : List Param} {q : Param} (h : q ∈ ofList items) : q ∈ items := by
  rcases mem_foldl_dictInsert items [] q h with h1 | h1
  · cases h1
  · exact h1

/-! ### automatic numbers are never scientific-notation strings -/

theorem takeWhile_all {α : Type} (p : α → Bool) : ∀ (l : List α), (∀ x ∈ l, p x = true) → l.takeWhile p = l ∧ l.dropWhile p = [] := by
  intro l
  induction l with
  | nil => intro _; exact ⟨rfl, rfl⟩
  | cons a rest ih =>
    intro h
    have ha := h a (by simp)
    obtain ⟨h1, h2⟩ := ih (fun x hx => h x (by simp [hx]))
    simp [List.takeWhile_cons, List.dropWhile_cons, ha, h1, h2]

theorem sciMatchChars_digits (ds : List Char) (h : ∀ c ∈ ds, isDigit c = true) : sciMatchChars ds = false := by
  obtain ⟨htw, hdw⟩ := takeWhile_all isDigit ds h
  have hskip : skipSign ds = ds := by
    cases ds with
    | nil => rfl
    | cons c rest =>
      have hc := h c (by simp)
      unfold skipSign
      split
      · rename_i e; cases e; exact absurd hc (by decide)
      · rename_i e; cases e; exact absurd hc (by decide)
      · rfl
  unfold sciMatchChars sciMantissa
  simp only [hskip, htw, hdw]
  cases ds <;> simp [sciExponent]

theorem sciMatch_number (n : Nat) : sciMatch (toString n) = false := by
  unfold sciMatch
  have : (toString n).toList = Nat.toDigits 10 n := Nat.toList_repr
  rw [this]
  apply sciMatchChars_digits
  intro c hc
  exact Nat.isDigit_of_mem_toDigits (by decide) (by decide) hc

theorem sanitizeAtom_numberLabel (T : FloatTab) (i : Nat) : sanitizeAtom T (numberLabel i) = .ok (numberLabel i) := by
  have := sciMatch_number (i + 1)
  simp only [sanitizeAtom, numberLabel, this]
  rfl

/-! ### the scanner accepts exactly the strings that are a scientific-notation number in full -/

/-- `[-+]?` -/
def IsSign (cs : List Char) : Prop := cs = [] ∨ cs = ['+'] ∨ cs = ['-']

/-- `[0-9]*` -/
def AllDigits (cs : List Char) : Prop := ∀ c ∈ cs, isDigit c = true

instance (cs : List Char) : Decidable (AllDigits cs) := by unfold AllDigits; infer_instance

/-- the language of `[-+]?[0-9]*\.?[0-9]+([eE][-+]?[0-9]+)`, i.e. the strings `fullmatch` accepts: sign, integer
    digits, fraction (nothing — then there is an integer digit — or a dot and at least one digit), the exponent
    letter, sign, at least one exponent digit, and nothing else -/
def SciNumber (cs : List Char) : Prop :=
  ∃ sg ip fp e sg' ed, cs = sg ++ (ip ++ (fp ++ e :: (sg' ++ ed))) ∧ IsSign sg ∧ AllDigits ip ∧
    ((fp = [] ∧ ip ≠ []) ∨ ∃ fd, fp = '.' :: fd ∧ fd ≠ [] ∧ AllDigits fd) ∧
    (e = 'e' ∨ e = 'E') ∧ IsSign sg' ∧ ed ≠ [] ∧ AllDigits ed

/-- the head of a list is not a digit (or there is none) -/
def StopsDigits (b : List Char) : Prop := ∀ c ∈ b.head?, isDigit c = false

theorem span_digits (a b : List Char) (ha : AllDigits a) (hb : StopsDigits b) :
    (a ++ b).takeWhile isDigit = a ∧ (a ++ b).dropWhile isDigit = b := by
  induction a with
  | nil =>
    cases b with
    | nil => exact ⟨rfl, rfl⟩
    | cons c rest =>
      have hc : isDigit c = false := hb c (by simp)
      simp [hc]
  | cons x xs ih =>
    have hx : isDigit x = true := ha x (by simp)
    obtain ⟨h1, h2⟩ := ih (fun c hc => ha c (by simp [hc]))
    simp [List.takeWhile_cons, List.dropWhile_cons, hx, h1, h2]

theorem skipSign_decomp (cs : List Char) : ∃ sg, IsSign sg ∧ cs = sg ++ skipSign cs := by
  unfold skipSign
  split
  · exact ⟨['+'], Or.inr (Or.inl rfl), rfl⟩
  · exact ⟨['-'], Or.inr (Or.inr rfl), rfl⟩
  · exact ⟨[], Or.inl rfl, rfl⟩

/-- the head of a list is not a sign (or there is none) -/
def StopsSign (b : List Char) : Prop := ∀ c ∈ b.head?, c ≠ '+' ∧ c ≠ '-'

theorem skipSign_sign (sg rest : List Char) (h : IsSign sg) (hr : StopsSign rest) : skipSign (sg ++ rest) = rest := by
  rcases h with rfl | rfl | rfl
  · cases rest with
    | nil => rfl
    | cons c r =>
      obtain ⟨h1, h2⟩ := hr c (by simp)
      simp only [List.nil_append]
      unfold skipSign
      split
      · rename_i e; cases e; exact absurd rfl h1
      · rename_i e; cases e; exact absurd rfl h2
      · rfl
  · rfl
  · rfl

theorem allDigits_takeWhile (cs : List Char) : AllDigits (cs.takeWhile isDigit) := by
  induction cs with
  | nil => intro c hc; cases hc
  | cons x xs ih =>
    intro c hc
    by_cases hx : isDigit x = true
    · simp only [List.takeWhile_cons, hx, if_true, List.mem_cons] at hc
      rcases hc with rfl | hc
      · exact hx
      · exact ih c hc
    · simp [List.takeWhile_cons, hx] at hc

theorem span_self (cs : List Char) :
    cs = cs.takeWhile isDigit ++ cs.dropWhile isDigit ∧ AllDigits (cs.takeWhile isDigit) :=
  ⟨(List.takeWhile_append_dropWhile).symm, allDigits_takeWhile cs⟩

/-- the mantissa: integer digits and the fraction (nothing — then there is an integer digit — or a dot and digits) -/
def IsMantissa (ip fp : List Char) : Prop :=
  AllDigits ip ∧ ((fp = [] ∧ ip ≠ []) ∨ ∃ fd, fp = '.' :: fd ∧ fd ≠ [] ∧ AllDigits fd)

/-- the exponent: the letter, a sign, at least one digit -/
def IsExponent (cs : List Char) : Prop :=
  ∃ e sg' ed, cs = e :: (sg' ++ ed) ∧ (e = 'e' ∨ e = 'E') ∧ IsSign sg' ∧ ed ≠ [] ∧ AllDigits ed

theorem sciMantissa_sound (cs rest : List Char) (h : sciMantissa cs = some rest) :
    ∃ ip fp, cs = ip ++ (fp ++ rest) ∧ IsMantissa ip fp := by
  obtain ⟨h1, hd1⟩ := span_self cs
  unfold sciMantissa at h
  simp only [] at h
  split at h
  · rename_i r2 hr1
    split at h
    · cases h
    · rename_i hd2
      cases h
      obtain ⟨h2, hdd2⟩ := span_self r2
      refine ⟨cs.takeWhile isDigit, '.' :: r2.takeWhile isDigit, ?_, hd1, Or.inr ⟨_, rfl, by simpa using hd2, hdd2⟩⟩
      rw [List.cons_append, ← h2, ← hr1, ← h1]
  · split at h
    · cases h
    · rename_i hne
      cases h
      exact ⟨cs.takeWhile isDigit, [], by rw [List.nil_append, ← h1], hd1, Or.inl ⟨rfl, by simpa using hne⟩⟩

theorem sciExponent_sound (cs : List Char) (h : sciExponent cs = true) : IsExponent cs := by
  cases cs with
  | nil => simp [sciExponent] at h
  | cons e r3 =>
    simp only [sciExponent] at h
    split at h
    · rename_i he
      obtain ⟨sg', hsg', hr3⟩ := skipSign_decomp r3
      obtain ⟨h4, hd4⟩ := span_self (skipSign r3)
      simp only [Bool.and_eq_true, Bool.not_eq_true', List.isEmpty_eq_false_iff, List.isEmpty_iff] at h
      refine ⟨e, sg', (skipSign r3).takeWhile isDigit, ?_, by simpa using he, hsg', h.1, hd4⟩
      rw [h.2, List.append_nil] at h4
      rw [← h4, ← hr3]
    · cases h

theorem isExponent_stops {cs : List Char} (h : IsExponent cs) : StopsDigits cs ∧ StopsSign cs ∧ cs.head? ≠ some '.' := by
  obtain ⟨e, _, _, rfl, he, _⟩ := h
  rcases he with rfl | rfl
  · exact ⟨fun c hc => by simp at hc; subst hc; decide, fun c hc => by simp at hc; subst hc; decide, by simp⟩
  · exact ⟨fun c hc => by simp at hc; subst hc; decide, fun c hc => by simp at hc; subst hc; decide, by simp⟩

theorem sciExponent_complete (cs : List Char) (h : IsExponent cs) : sciExponent cs = true := by
  obtain ⟨e, sg', ed, rfl, he, hsg', hed, hded⟩ := h
  have hstop : StopsSign ed := by
    intro c hc
    cases ed with
    | nil => cases hc
    | cons d rest =>
      simp at hc; subst hc
      have := hded d (by simp)
      constructor <;> (intro hcc; subst hcc; revert this; decide)
  have hskip : skipSign (sg' ++ ed) = ed := skipSign_sign sg' ed hsg' hstop
  obtain ⟨ht, hd⟩ := span_digits ed [] hded (fun c hc => by cases hc)
  rw [List.append_nil] at ht hd
  simp only [sciExponent, hskip, ht, hd]
  rcases he with rfl | rfl <;> simp [hed]

theorem sciMantissa_complete (ip fp rest : List Char) (h : IsMantissa ip fp) (hs : StopsDigits rest)
    (hdot : rest.head? ≠ some '.') : sciMantissa (ip ++ (fp ++ rest)) = some rest := by
  obtain ⟨hip, hfp⟩ := h
  rcases hfp with ⟨rfl, hne⟩ | ⟨fd, rfl, hfd, hdfd⟩
  · obtain ⟨ht, hd⟩ := span_digits ip rest hip hs
    simp only [sciMantissa, List.nil_append, ht, hd]
    split
    · exact absurd rfl hdot
    · simp [hne]
  · have hs' : StopsDigits ('.' :: (fd ++ rest)) := fun c hc => by simp at hc; subst hc; decide
    obtain ⟨ht, hd⟩ := span_digits ip ('.' :: (fd ++ rest)) hip hs'
    obtain ⟨ht2, hd2⟩ := span_digits fd rest hdfd hs
    simp only [List.cons_append]
    simp only [sciMantissa, ht, hd, ht2, hd2]
    simp [hfd]

/-- **the scanner is `fullmatch`**: it accepts exactly the strings of the language of the pattern -/
theorem sciMatchChars_iff (cs : List Char) : sciMatchChars cs = true ↔ SciNumber cs := by
  constructor
  · intro h
    obtain ⟨sg, hsg, hcs⟩ := skipSign_decomp cs
    unfold sciMatchChars at h
    split at h
    · cases h
    · rename_i r hm
      obtain ⟨ip, fp, hmant, hM⟩ := sciMantissa_sound _ _ hm
      obtain ⟨e, sg', ed, rfl, he, hsg', hed, hded⟩ := sciExponent_sound r h
      exact ⟨sg, ip, fp, e, sg', ed, by rw [← hmant, ← hcs], hsg, hM.1, hM.2, he, hsg', hed, hded⟩
  · rintro ⟨sg, ip, fp, e, sg', ed, rfl, hsg, hip, hfp, he, hsg', hed, hded⟩
    have hE : IsExponent (e :: (sg' ++ ed)) := ⟨e, sg', ed, rfl, he, hsg', hed, hded⟩
    obtain ⟨hsd, hss, hdot⟩ := isExponent_stops hE
    have hstop : StopsSign (ip ++ (fp ++ e :: (sg' ++ ed))) := by
      intro c hc
      cases ip with
      | cons d rest =>
        simp at hc; subst hc
        have := hip d (by simp)
        constructor <;> (intro hcc; subst hcc; revert this; decide)
      | nil =>
        rcases hfp with ⟨rfl, hne⟩ | ⟨fd, rfl, _, _⟩
        · exact absurd rfl hne
        · simp at hc; subst hc; decide
    unfold sciMatchChars
    rw [skipSign_sign sg _ hsg hstop, sciMantissa_complete ip fp _ ⟨hip, hfp⟩ hsd hdot]
    exact sciExponent_complete _ hE

theorem sciNumber_getLast {cs : List Char} (h : SciNumber cs) : ∃ d, cs.getLast? = some d ∧ isDigit d = true := by
  obtain ⟨sg, ip, fp, e, sg', ed, rfl, _, _, _, _, _, hed, hded⟩ := h
  refine ⟨ed.getLast hed, ?_, hded _ (List.getLast_mem hed)⟩
  have : ed.getLast? = some (ed.getLast hed) := List.getLast?_eq_getLast hed
  simp [List.getLast?_append, List.getLast?_cons, this]

theorem sciMatch_iff (s : String) : sciMatch s = true ↔ SciNumber s.toList := sciMatchChars_iff s.toList

theorem sanitizeAtom_kept (T : FloatTab) (s : String) (h : ¬ SciNumber s.toList) :
    sanitizeAtom T (.cell (.str s)) = .ok (.cell (.str s)) := by
  have : sciMatch s = false := by
    cases hm : sciMatch s with
    | false => rfl
    | true => exact absurd ((sciMatch_iff s).mp hm) h
  simp [sanitizeAtom, this]

theorem sanitizeAtom_converted (T : FloatTab) (s : String) (h : SciNumber s.toList) :
    (∀ x, T s = some (some x) → sanitizeAtom T (.cell (.str s)) = .ok (.cell (.flt x))) ∧
    (T s = some none → sanitizeAtom T (.cell (.str s)) = .error (.floatError s)) := by
  have : sciMatch s = true := (sciMatch_iff s).mpr h
  constructor
  · intro x hx; simp [sanitizeAtom, this, hx]
  · intro hx; simp [sanitizeAtom, this, hx]


/-! ### flatten: labels are paths -/

/-- group keys joined with dots -/
def joinPath : List String → String
  | [] => ""
  | [a] => a
  | a :: b :: rest => a ++ "." ++ joinPath (b :: rest)

/-- `Reaches spec path xs`: following the keys `path` through the nested dict `spec` ends at the
    parameter list `xs` -/
inductive Reaches : Kids → List String → List Item → Prop
  | here (k : String) (xs : List Item) (rest : Kids) : Reaches (.cons k (.items xs) rest) [k] xs
  | down (k : String) (kids rest : Kids) (path : List String) (xs : List Item) :
      Reaches kids path xs → Reaches (.cons k (.group kids) rest) (k :: path) xs
  | skip (k : String) (n : Node) (rest : Kids) (path : List String) (xs : List Item) :
      Reaches rest path xs → Reaches (.cons k n rest) path xs

theorem reaches_ne_nil {spec : Kids} {path : List String} {xs : List Item} (h : Reaches spec path xs) : path ≠ [] := by
  induction h <;> simp_all

theorem joinPath_cons (k : String) {path : List String} (h : path ≠ []) :
    joinPath (k :: path) = k ++ "." ++ joinPath path := by
  cases path with
  | nil => exact absurd rfl h
  | cons b rest => rfl

theorem flattenItems_prefix (T : FloatTab) (key k : String) (xs : List Item) :
    (flattenItems T k xs).map (fun r => r.map (fun t => (key ++ "." ++ t.1, t.2))) =
      flattenItems T (key ++ "." ++ k) xs := by
  simp only [flattenItems, List.map_map]
  apply List.map_congr_left
  intro a _
  simp only [Function.comp]
  cases groupItemDef T a.1 a.2 <;> rfl

mutual
  theorem flattenNode_sound (T : FloatTab) (key : String) : (n : Node) → ∀ r ∈ flattenNode T key n,
      (∃ xs, n = .items xs ∧ r ∈ flattenItems T key xs) ∨
      (∃ kids path xs, n = .group kids ∧ Reaches kids path xs ∧ r ∈ flattenItems T (key ++ "." ++ joinPath path) xs)
    | .items xs, r, hr => Or.inl ⟨xs, rfl, by simpa [flattenNode] using hr⟩
    | .group kids, r, hr => by
      simp only [flattenNode, List.mem_map] at hr
      obtain ⟨r0, hr0, rfl⟩ := hr
      obtain ⟨path, xs, hreach, hmem⟩ := flattenKids_sound T kids r0 hr0
      refine Or.inr ⟨kids, path, xs, rfl, hreach, ?_⟩
      rw [← flattenItems_prefix]
      exact List.mem_map.mpr ⟨r0, hmem, rfl⟩
    | .other, r, hr => by simp [flattenNode] at hr
  theorem flattenKids_sound (T : FloatTab) : (spec : Kids) → ∀ r ∈ flattenKids T spec,
      ∃ path xs, Reaches spec path xs ∧ r ∈ flattenItems T (joinPath path) xs
    | .nil, r, hr => by simp [flattenKids] at hr
    | .cons key n rest, r, hr => by
      simp only [flattenKids, List.mem_append] at hr
      rcases hr with hr | hr
      · rcases flattenNode_sound T key n r hr with ⟨xs, rfl, hmem⟩ | ⟨kids, path, xs, rfl, hreach, hmem⟩
        · exact ⟨[key], xs, Reaches.here key xs rest, hmem⟩
        · refine ⟨key :: path, xs, Reaches.down key kids rest path xs hreach, ?_⟩
          rw [joinPath_cons key (reaches_ne_nil hreach)]
          exact hmem
      · obtain ⟨path, xs, hreach, hmem⟩ := flattenKids_sound T rest r hr
        exact ⟨path, xs, Reaches.skip key n rest path xs hreach, hmem⟩
end

theorem flattenKids_complete (T : FloatTab) {spec : Kids} {path : List String} {xs : List Item}
    (h : Reaches spec path xs) : ∀ r ∈ flattenItems T (joinPath path) xs, r ∈ flattenKids T spec := by
  induction h with
  | here k xs rest =>
    intro r hr
    simp only [flattenKids, flattenNode, List.mem_append]
    exact Or.inl hr
  | down k kids rest path xs hreach ih =>
    intro r hr
    rw [joinPath_cons k (reaches_ne_nil hreach), ← flattenItems_prefix] at hr
    obtain ⟨r0, hr0, rfl⟩ := List.mem_map.mp hr
    simp only [flattenKids, flattenNode, List.mem_append, List.mem_map]
    exact Or.inl ⟨r0, ih r0 hr0, rfl⟩
  | skip k n rest path xs _ ih =>
    intro r hr
    simp only [flattenKids, List.mem_append]
    exact Or.inr (ih r hr)


/-! ### numbering -/

def nonDict (xs : List Item) : List Item := xs.filter (fun x => !isDictItem x)

theorem flattenItems_length (T : FloatTab) (key : String) (xs : List Item) :
    (flattenItems T key xs).length = (nonDict xs).length := by
  simp [flattenItems, nonDict]

theorem flattenItems_getElem? (T : FloatTab) (key : String) (xs : List Item) (i : Nat) :
    (flattenItems T key xs)[i]? =
      ((nonDict xs)[i]?).map (fun item => (groupItemDef T item i).map (fun d => (key, d, firstDefaults xs))) := by
  simp only [flattenItems, nonDict, List.getElem?_map, List.getElem?_zipIdx]
  cases (xs.filter (fun x => !isDictItem x))[i]? <;> simp

theorem nonDict_insert (xs₁ xs₂ : List Item) (o : Opts) :
    nonDict (xs₁ ++ .bare (.opts o) :: xs₂) = nonDict (xs₁ ++ xs₂) := by
  simp [nonDict, List.filter_append, isDictItem]

/-! ### `d |= new` -/

/-- the value the last entry with key `k` gives -/
def lastLookup (b : List (String × Cell)) (k : String) : Option Cell :=
  lookup b.reverse k

def setKey (d : List (String × Cell)) (k : String) (v : Cell) : List (String × Cell) :=
  if d.any (·.1 = k) then d.map (fun e => if e.1 = k then (k, v) else e) else d ++ [(k, v)]

theorem dictUpdate_cons (d : List (String × Cell)) (k : String) (v : Cell) (rest : List (String × Cell)) :
    dictUpdate d ((k, v) :: rest) = dictUpdate (setKey d k v) rest := rfl

theorem lookup_nil (k : String) : lookup ([] : List (String × Cell)) k = none := rfl

theorem lookup_cons (e : String × Cell) (d : List (String × Cell)) (k : String) :
    lookup (e :: d) k = if e.1 = k then some e.2 else lookup d k := by
  unfold lookup
  by_cases h : e.1 = k <;> simp [h]

theorem lookup_append (a b : List (String × Cell)) (k : String) :
    lookup (a ++ b) k = (lookup a k).or (lookup b k) := by
  induction a with
  | nil => simp [lookup_nil]
  | cons e rest ih =>
    rw [List.cons_append, lookup_cons, lookup_cons, ih]
    by_cases h : e.1 = k <;> simp [h]

theorem lookup_map_set (d : List (String × Cell)) (k' : String) (v : Cell) (k : String) :
    lookup (d.map (fun e => if e.1 = k' then (k', v) else e)) k =
      if k' = k then (lookup d k).map (fun _ => v) else lookup d k := by
  induction d with
  | nil => simp [lookup_nil]
  | cons e rest ih =>
    rw [List.map_cons, lookup_cons, lookup_cons, ih]
    by_cases he : e.1 = k'
    · by_cases hk : k' = k
      · simp [he, hk]
      · have : ¬ e.1 = k := fun h => hk (he ▸ h)
        simp [he, hk, this]
    · by_cases hk : k' = k
      · have : ¬ e.1 = k := fun h => he (hk ▸ h)
        simp [he, hk, this]
      · simp [he, hk]

theorem lookup_isSome_of_any {d : List (String × Cell)} {k : String} (h : d.any (·.1 = k) = true) :
    (lookup d k).isSome = true := by
  induction d with
  | nil => simp at h
  | cons e rest ih =>
    rw [lookup_cons]
    by_cases he : e.1 = k
    · simp [he]
    · simp only [List.any_cons, he, decide_false, Bool.false_or] at h
      simp [he, ih h]

theorem lookup_none_of_not_any {d : List (String × Cell)} {k : String} (h : ¬ d.any (·.1 = k) = true) :
    lookup d k = none := by
  induction d with
  | nil => rfl
  | cons e rest ih =>
    rw [lookup_cons]
    simp only [List.any_cons, Bool.or_eq_true, decide_eq_true_eq, not_or] at h
    simp [h.1, ih h.2]

theorem lookup_setKey (d : List (String × Cell)) (k' : String) (v : Cell) (k : String) :
    lookup (setKey d k' v) k = if k' = k then some v else lookup d k := by
  unfold setKey
  split
  · rename_i hany
    rw [lookup_map_set]
    by_cases hk : k' = k
    · subst hk
      have := lookup_isSome_of_any hany
      cases hl : lookup d k' <;> simp_all
    · simp [hk]
  · rename_i hany
    rw [lookup_append, lookup_cons, lookup_nil]
    by_cases hk : k' = k
    · subst hk
      simp [lookup_none_of_not_any hany]
    · simp [hk]

/-- **`a | b`**: a key of `b` gets its last value in `b`, every other key keeps its value in `a` -/
theorem lookup_dictUpdate : ∀ (b d : List (String × Cell)) (k : String),
    lookup (dictUpdate d b) k = (lastLookup b k).or (lookup d k) := by
  intro b
  induction b with
  | nil => intro d k; simp [dictUpdate, lastLookup, lookup_nil]
  | cons e rest ih =>
    intro d k
    obtain ⟨k', v⟩ := e
    rw [dictUpdate_cons, ih, lookup_setKey]
    simp only [lastLookup, List.reverse_cons, lookup_append, lookup_cons, lookup_nil]
    by_cases hk : k' = k
    · simp [hk]
    · simp [hk]


/-! ### the keyword arguments of a definition -/

/-- the first str of a (sanitized) definition, `""` if there is none -/
def defLabel (vs : List Atom) : Cell :=
  match vs.find? isStr with
  | some (.cell c) => c
  | _ => .str ""

/-- the first number after the label has been removed, NaN if there is none -/
def defValue (vs : List Atom) : Cell :=
  match (vs.eraseP isStr).find? isNum with
  | some (.cell c) => c
  | _ => .flt .nan

/-- the first dict after label and value have been removed, `{}` if there is none -/
def defOptions (vs : List Atom) : Opts :=
  match ((vs.eraseP isStr).eraseP isNum).find? isDict with
  | some (.opts o) => o
  | _ => []

theorem listKwargs_eq (vs : List Atom) (defaults : Option Opts) :
    listKwargs vs defaults =
      dictUpdate (match defaults with
        | some d => dictUpdate [("label", defLabel vs), ("value", defValue vs)] (deserialize d)
        | none => [("label", defLabel vs), ("value", defValue vs)]) (deserialize (defOptions vs)) := rfl

theorem find?_eq_head?_filter {α : Type} (p : α → Bool) (l : List α) : l.find? p = (l.filter p).head? := by
  induction l with
  | nil => rfl
  | cons a rest ih =>
    rw [List.find?_cons, List.filter_cons]
    by_cases h : p a = true
    · simp [h]
    · simp only [h, Bool.false_eq_true, if_false]
      exact ih

theorem filter_eraseP_disjoint {α : Type} (p q : α → Bool) (hpq : ∀ a, p a = true → q a = false) (l : List α) :
    (l.eraseP p).filter q = l.filter q := by
  induction l with
  | nil => rfl
  | cons a rest ih =>
    by_cases h : p a = true
    · simp [List.eraseP_cons, h, List.filter_cons, hpq a h]
    · simp [List.eraseP_cons, h, List.filter_cons, ih]

theorem isStr_not_isNum (a : Atom) (h : isStr a = true) : isNum a = false := by
  cases a with
  | cell c => cases c <;> simp_all [isStr, isNum]
  | opts o => simp [isStr] at h

theorem isStr_not_isDict (a : Atom) (h : isStr a = true) : isDict a = false := by
  cases a with
  | cell c => rfl
  | opts o => simp [isStr] at h

theorem isNum_not_isDict (a : Atom) (h : isNum a = true) : isDict a = false := by
  cases a with
  | cell c => rfl
  | opts o => simp [isNum] at h

/-- **A definition is read by type, not by position**: whatever the order of the atoms, the
    label is the (first) str, the value the (first) number, the options the (first) dict. -/
theorem def_components (vs : List Atom) :
    defLabel vs = (match (vs.filter isStr).head? with | some (.cell c) => c | _ => .str "") ∧
    defValue vs = (match (vs.filter isNum).head? with | some (.cell c) => c | _ => .flt .nan) ∧
    defOptions vs = (match (vs.filter isDict).head? with | some (.opts o) => o | _ => []) := by
  refine ⟨?_, ?_, ?_⟩
  · simp only [defLabel, find?_eq_head?_filter]
  · simp only [defValue, find?_eq_head?_filter, filter_eraseP_disjoint isStr isNum isStr_not_isNum]
  · simp only [defOptions, find?_eq_head?_filter, filter_eraseP_disjoint isNum isDict isNum_not_isDict,
      filter_eraseP_disjoint isStr isDict isStr_not_isDict]

/-! ### prefixing the group -/

theorem any_setKey_keys (kw : List (String × Cell)) (k : String) (v : Cell) (P : String → Bool)
    (h : kw.any (·.1 = k) = true) : (setKey kw k v).any (fun e => P e.1) = kw.any (fun e => P e.1) := by
  unfold setKey
  simp only [h, if_true, List.any_map]
  congr 1
  funext e
  by_cases he : e.1 = k <;> simp [he]

theorem checkKeys_setKey (kw : List (String × Cell)) (k : String) (v : Cell) (h : kw.any (·.1 = k) = true) :
    checkKeys (setKey kw k v) = checkKeys kw := by
  unfold checkKeys
  rw [any_setKey_keys kw k v (fun s => !(Generated.paramFields.contains s)) h]

theorem restFrom_setKey_label (kw : List (String × Cell)) (v : Cell) :
    restFrom (setKey kw "label" v) = restFrom kw := by
  unfold restFrom
  simp [lookup_setKey]

theorem any_of_lookup {kw : List (String × Cell)} {k : String} {c : Cell} (h : lookup kw k = some c) :
    kw.any (·.1 = k) = true := by
  cases hany : kw.any (·.1 = k) with
  | true => rfl
  | false =>
    have := lookup_none_of_not_any (d := kw) (k := k) (by simp [hany])
    rw [this] at h; cases h

/-- `Parameter(**kw)` with the label replaced by a valid label is the same parameter under
    that label, with the same error otherwise -/
theorem mkParam_relabel (kw : List (String × Cell)) (s full : String)
    (hlab : lookup kw "label" = some (.str s)) (hs : validLabel s = true) (hf : validLabel full = true) :
    mkParam (setKey kw "label" (.str full)) = (mkParam kw).map (fun p => { p with label := full }) := by
  have hany := any_of_lookup hlab
  have h1 : labelFrom kw = .ok s := by simp [labelFrom, hlab, labelOf, hs]
  have h2 : labelFrom (setKey kw "label" (.str full)) = .ok full := by
    simp [labelFrom, lookup_setKey, labelOf, hf]
  unfold mkParam
  rw [checkKeys_setKey kw "label" _ hany, restFrom_setKey_label, h1, h2]
  cases checkKeys kw with
  | error e => rfl
  | ok u =>
    cases restFrom kw with
    | error e => rfl
    | ok p => rfl

theorem dictParam_eq (T : FloatTab) (key : String) (d : List Atom) (dflt : Option Opts) (vs : List Atom) (s : String)
    (hsan : sanitize T d = .ok vs) (hlab : lookup (listKwargs vs dflt) "label" = some (.str s))
    (hs : validLabel s = true) (hf : validLabel (key ++ "." ++ s) = true) :
    dictParam T (.ok (key, d, dflt)) = mkParam (setKey (listKwargs vs dflt) "label" (.str (key ++ "." ++ s))) := by
  rw [mkParam_relabel _ s _ hlab hs hf]
  have hany := any_of_lookup hlab
  have h1 : labelFrom (listKwargs vs dflt) = .ok s := by simp [labelFrom, hlab, labelOf, hs]
  simp only [dictParam, paramFromList, hsan, bind, Except.bind]
  unfold mkParam
  rw [h1]
  cases checkKeys (listKwargs vs dflt) with
  | error e => rfl
  | ok u =>
    cases restFrom (listKwargs vs dflt) with
    | error e => rfl
    | ok p => simp [Except.map, hf, pure, Except.pure]

/-! ### automatic labels -/

theorem mapM_except_append {α β : Type} (f : α → Except Err β) (l : List α) (x : α) (ys : List β) (y : β)
    (h1 : l.mapM f = .ok ys) (h2 : f x = .ok y) : (l ++ [x]).mapM f = .ok (ys ++ [y]) := by
  induction l generalizing ys with
  | nil =>
    simp at h1
    cases h1
    simp [List.mapM_cons, h2, bind, Except.bind, pure, Except.pure]
  | cons a rest ih =>
    simp only [List.mapM_cons, bind, Except.bind] at h1
    cases ha : f a with
    | error e => simp [ha] at h1
    | ok b =>
      simp only [ha] at h1
      cases hr : rest.mapM f with
      | error e => simp [hr] at h1
      | ok bs =>
        simp only [hr, pure, Except.pure, Except.ok.injEq] at h1
        subst h1
        simp [List.mapM_cons, ha, ih bs hr, bind, Except.bind, pure, Except.pure]

theorem filter_of_any_false {α : Type} (p : α → Bool) (l : List α) (h : l.any p = false) : l.filter p = [] := by
  induction l with
  | nil => rfl
  | cons a rest ih =>
    simp only [List.any_cons, Bool.or_eq_false_iff] at h
    simp [List.filter_cons, h.1, ih h.2]

/-- an item without a label of its own is labelled with its number; value and options are untouched -/
theorem auto_label (T : FloatTab) (l vs : List Atom) (i : Nat) (hsan : sanitize T l = .ok vs)
    (hno : vs.any isStr = false) :
    sanitize T (l ++ [numberLabel i]) = .ok (vs ++ [numberLabel i]) ∧
    defLabel (vs ++ [numberLabel i]) = .str (toString (i + 1)) ∧
    defValue (vs ++ [numberLabel i]) = defValue vs ∧
    defOptions (vs ++ [numberLabel i]) = defOptions vs := by
  refine ⟨mapM_except_append _ l _ vs _ hsan (sanitizeAtom_numberLabel T i), ?_, ?_, ?_⟩
  · rw [(def_components _).1, List.filter_append, filter_of_any_false _ _ hno]
    rfl
  · rw [(def_components _).2.1, (def_components vs).2.1, List.filter_append]
    simp [numberLabel, isNum]
  · rw [(def_components _).2.2, (def_components vs).2.2, List.filter_append]
    simp [numberLabel, isDict]

/-! ### document order; constructed sets are settled -/

mutual
  /-- the parameter lists of the value under `key`, with their paths, in document order (depth first) -/
  def nodePaths (key : String) : Node → List (List String × List Item)
    | .items xs => [([key], xs)]
    | .group kids => (kidsPaths kids).map (fun e => (key :: e.1, e.2))
    | .other => []
  def kidsPaths : Kids → List (List String × List Item)
    | .nil => []
    | .cons key n rest => nodePaths key n ++ kidsPaths rest
end

mutual
  theorem nodePaths_ne_nil (key : String) : (n : Node) → ∀ e ∈ nodePaths key n, e.1 ≠ []
    | .items xs, e, he => by simp [nodePaths] at he; subst he; simp
    | .group kids, e, he => by
      simp only [nodePaths, List.mem_map] at he
      obtain ⟨e0, _, rfl⟩ := he
      simp
    | .other, e, he => by simp [nodePaths] at he
  theorem kidsPaths_ne_nil : (spec : Kids) → ∀ e ∈ kidsPaths spec, e.1 ≠ []
    | .nil, e, he => by simp [kidsPaths] at he
    | .cons key n rest, e, he => by
      simp only [kidsPaths, List.mem_append] at he
      rcases he with he | he
      · exact nodePaths_ne_nil key n e he
      · exact kidsPaths_ne_nil rest e he
end

theorem flatMap_congr_mem {α β : Type} (f g : α → List β) : ∀ (l : List α), (∀ a ∈ l, f a = g a) →
    l.flatMap f = l.flatMap g := by
  intro l
  induction l with
  | nil => intro _; rfl
  | cons a rest ih =>
    intro h
    simp only [List.flatMap_cons]
    rw [h a (by simp), ih (fun b hb => h b (by simp [hb]))]

mutual
  theorem flattenNode_order (T : FloatTab) (key : String) : (n : Node) →
      flattenNode T key n = (nodePaths key n).flatMap (fun e => flattenItems T (joinPath e.1) e.2)
    | .items xs => by simp [flattenNode, nodePaths, joinPath]
    | .group kids => by
      simp only [flattenNode, nodePaths]
      rw [flattenKids_order T kids, List.map_flatMap, List.flatMap_map]
      apply flatMap_congr_mem
      intro e he
      simp only [Function.comp]
      rw [flattenItems_prefix, joinPath_cons key (kidsPaths_ne_nil kids e he)]
    | .other => by simp [flattenNode, nodePaths]
  theorem flattenKids_order (T : FloatTab) : (spec : Kids) →
      flattenKids T spec = (kidsPaths spec).flatMap (fun e => flattenItems T (joinPath e.1) e.2)
    | .nil => by simp [flattenKids, kidsPaths]
    | .cons key n rest => by
      simp only [flattenKids, kidsPaths, List.flatMap_append]
      rw [flattenNode_order T key n, flattenKids_order T rest]
end

/-- a constructed parameter set is settled -/
theorem construct_settled {parse : ParseTab} {F : C12.Funs} {items ps : List Param}
    (hac : ∀ cs, (ofList items).mapM (toC12 parse) = some cs → C12.Acyclic cs)
    (h : construct parse F items = .ok ps) :
    (labels ps).Nodup ∧ evalExpressions parse F ps = .ok ps := by
  unfold construct at h
  refine ⟨?_, evalExpressions_idem (ofList_nodup items) hac h⟩
  rw [shape_labels (evalExpressions_shape h)]
  exact ofList_nodup items

end Glotaran.C16
