/-
C18 — helper lemmas, part (b): names, order, sorting, run numbers.
-/
import GlotaranModel.C18
namespace Glotaran.C18

/-! ### lexicographic order -/

theorem lexLt_irrefl (a : Name) : lexLt a a = false := by
  induction a with
  | nil => rfl
  | cons c cs ih => simp [lexLt, ih]

theorem lexLt_asymm : ∀ (a b : Name), lexLt a b = true → lexLt b a = false
  | [], [], h => by simp [lexLt] at h
  | [], _ :: _, _ => by simp [lexLt]
  | _ :: _, [], h => by simp [lexLt] at h
  | a :: as, b :: bs, h => by
    simp only [lexLt] at h ⊢
    by_cases h1 : a.toNat < b.toNat
    · have h2 : ¬ b.toNat < a.toNat := by omega
      have h3 : ¬ b.toNat = a.toNat := by omega
      simp [h2, h3]
    · simp only [h1, if_false] at h
      by_cases h2 : a.toNat = b.toNat
      · simp only [h2, if_true] at h
        have h3 : ¬ b.toNat < a.toNat := by omega
        simp [h2, lexLt_asymm as bs h]
      · simp [h2] at h

/-- `a ≤ b` and `b ≤ c` give `a ≤ c`, where `x ≤ y` is `lexLt y x = false` -/
theorem lexLe_trans (a b c : Name) (h1 : lexLt b a = false) (h2 : lexLt c b = false) :
    lexLt c a = false := by
  induction a generalizing b c with
  | nil => cases c <;> simp [lexLt]
  | cons a as ih =>
    cases b with
    | nil => simp [lexLt] at h1
    | cons b bs =>
      cases c with
      | nil => simp [lexLt] at h2
      | cons c cs =>
        simp only [lexLt] at h1 h2 ⊢
        by_cases hba : b.toNat < a.toNat
        · simp [hba] at h1
        · simp only [hba, if_false] at h1
          by_cases hcb : c.toNat < b.toNat
          · simp [hcb] at h2
          · simp only [hcb, if_false] at h2
            have hca : ¬ c.toNat < a.toNat := by omega
            simp only [hca, if_false]
            by_cases eca : c.toNat = a.toNat
            · simp only [eca, if_true]
              have e1 : b.toNat = a.toNat := by omega
              have e2 : c.toNat = b.toNat := by omega
              simp only [e1, if_true] at h1
              simp only [e2, e1, if_true] at h2
              exact ih bs cs h1 h2
            · simp [eca]

theorem lexLt_append_left (p a b : Name) : lexLt (p ++ a) (p ++ b) = lexLt a b := by
  induction p with
  | nil => rfl
  | cons c cs ih => simp [lexLt, ih]

/-! ### insertion sort -/

/-- sorted: every element is `≤` every later one -/
def Sorted : List Name → Prop
  | [] => True
  | x :: xs => (∀ y ∈ xs, lexLt y x = false) ∧ Sorted xs

theorem mem_insertSorted (x : Name) (l : List Name) (y : Name) :
    y ∈ insertSorted x l ↔ y = x ∨ y ∈ l := by
  induction l with
  | nil => simp [insertSorted]
  | cons z zs ih =>
    simp only [insertSorted]
    split
    · simp
    · simp [ih]; constructor
      · rintro (h | h | h) <;> simp [h]
      · rintro (h | h | h) <;> simp [h]

theorem mem_isort (l : List Name) (y : Name) : y ∈ isort l ↔ y ∈ l := by
  induction l with
  | nil => simp [isort]
  | cons z zs ih => simp [isort, mem_insertSorted, ih]

theorem sorted_insertSorted (x : Name) (l : List Name) (h : Sorted l) : Sorted (insertSorted x l) := by
  induction l with
  | nil => simp [insertSorted, Sorted]
  | cons z zs ih =>
    simp only [insertSorted]
    obtain ⟨hz, hs⟩ := h
    split
    · rename_i hlt
      refine ⟨?_, hz, hs⟩
      intro y hy
      rcases List.mem_cons.mp hy with h | hy
      · rw [h]; exact lexLt_asymm x z hlt
      · exact lexLe_trans x z y (lexLt_asymm x z hlt) (hz y hy)
    · rename_i hnlt
      refine ⟨?_, ih hs⟩
      intro y hy
      rcases (mem_insertSorted x zs y).mp hy with rfl | hy
      · simpa using hnlt
      · exact hz y hy

theorem sorted_isort (l : List Name) : Sorted (isort l) := by
  induction l with
  | nil => simp [isort, Sorted]
  | cons z zs ih => exact sorted_insertSorted z _ ih

/-- the last element of a sorted list is a maximum -/
theorem sorted_getLast (l : List Name) (h : Sorted l) (m : Name) (hm : l.getLast? = some m) :
    m ∈ l ∧ ∀ y ∈ l, lexLt m y = false := by
  induction l with
  | nil => simp at hm
  | cons z zs ih =>
    obtain ⟨hz, hs⟩ := h
    cases zs with
    | nil =>
      simp at hm
      subst hm
      simp [lexLt_irrefl]
    | cons w ws =>
      have hm' : (w :: ws).getLast? = some m := by simpa [List.getLast?_cons_cons] using hm
      obtain ⟨hmem, hmax⟩ := ih hs hm'
      refine ⟨List.mem_cons_of_mem _ hmem, ?_⟩
      intro y hy
      rcases List.mem_cons.mp hy with rfl | hy
      · exact hz m hmem
      · exact hmax y hy

/-- inserting an element that is strictly greater than everything appends it -/
theorem insertSorted_greatest (x : Name) (l : List Name) (h : ∀ y ∈ l, lexLt y x = true) :
    insertSorted x l = l ++ [x] := by
  induction l with
  | nil => rfl
  | cons z zs ih =>
    have hz : lexLt x z = false := lexLt_asymm _ _ (h z (by simp))
    simp [insertSorted, hz, ih (fun y hy => h y (List.mem_cons_of_mem _ hy))]

/-! ### sorting by an arbitrary order (the run-number order of `previous`) -/

/-- what the sort lemmas need of an order: `lt` is asymmetric and `¬ lt` is transitive -/
structure IsOrder (lt : Name → Name → Bool) : Prop where
  asymm : ∀ a b, lt a b = true → lt b a = false
  le_trans : ∀ a b c, lt b a = false → lt c b = false → lt c a = false

theorem IsOrder.irrefl {lt : Name → Name → Bool} (h : IsOrder lt) (a : Name) : lt a a = false := by
  cases hc : lt a a with
  | false => rfl
  | true => have := h.asymm a a hc; rw [hc] at this; cases this

theorem lexLt_isOrder : IsOrder lexLt := ⟨lexLt_asymm, lexLe_trans⟩

def SortedBy (lt : Name → Name → Bool) : List Name → Prop
  | [] => True
  | x :: xs => (∀ y ∈ xs, lt y x = false) ∧ SortedBy lt xs

theorem mem_insertBy (lt : Name → Name → Bool) (x : Name) (l : List Name) (y : Name) :
    y ∈ insertBy lt x l ↔ y = x ∨ y ∈ l := by
  induction l with
  | nil => simp [insertBy]
  | cons z zs ih =>
    simp only [insertBy]
    split
    · simp
    · simp [ih]; constructor
      · rintro (h | h | h) <;> simp [h]
      · rintro (h | h | h) <;> simp [h]

theorem mem_isortBy (lt : Name → Name → Bool) (l : List Name) (y : Name) : y ∈ isortBy lt l ↔ y ∈ l := by
  induction l with
  | nil => simp [isortBy]
  | cons z zs ih => simp [isortBy, mem_insertBy, ih]

theorem sortedBy_insertBy {lt : Name → Name → Bool} (ho : IsOrder lt) (x : Name) (l : List Name)
    (h : SortedBy lt l) : SortedBy lt (insertBy lt x l) := by
  induction l with
  | nil => simp [insertBy, SortedBy]
  | cons z zs ih =>
    simp only [insertBy]
    obtain ⟨hz, hs⟩ := h
    split
    · rename_i hlt
      refine ⟨?_, hz, hs⟩
      intro y hy
      rcases List.mem_cons.mp hy with h | hy
      · rw [h]; exact ho.asymm x z hlt
      · exact ho.le_trans x z y (ho.asymm x z hlt) (hz y hy)
    · rename_i hnlt
      refine ⟨?_, ih hs⟩
      intro y hy
      rcases (mem_insertBy lt x zs y).mp hy with rfl | hy
      · simpa using hnlt
      · exact hz y hy

theorem sortedBy_isortBy {lt : Name → Name → Bool} (ho : IsOrder lt) (l : List Name) : SortedBy lt (isortBy lt l) := by
  induction l with
  | nil => simp [isortBy, SortedBy]
  | cons z zs ih => exact sortedBy_insertBy ho z _ ih

/-- the last element of a sorted list is a maximum -/
theorem sortedBy_getLast {lt : Name → Name → Bool} (ho : IsOrder lt) (l : List Name) (h : SortedBy lt l)
    (m : Name) (hm : l.getLast? = some m) : m ∈ l ∧ ∀ y ∈ l, lt m y = false := by
  induction l with
  | nil => simp at hm
  | cons z zs ih =>
    obtain ⟨hz, hs⟩ := h
    cases zs with
    | nil =>
      simp at hm
      subst hm
      simp [ho.irrefl]
    | cons w ws =>
      have hm' : (w :: ws).getLast? = some m := by simpa [List.getLast?_cons_cons] using hm
      obtain ⟨hmem, hmax⟩ := ih hs hm'
      refine ⟨List.mem_cons_of_mem _ hmem, ?_⟩
      intro y hy
      rcases List.mem_cons.mp hy with rfl | hy
      · exact hz m hmem
      · exact hmax y hy

/-- inserting an element that is strictly greater than everything appends it -/
theorem insertBy_greatest {lt : Name → Name → Bool} (ho : IsOrder lt) (x : Name) (l : List Name)
    (h : ∀ y ∈ l, lt y x = true) : insertBy lt x l = l ++ [x] := by
  induction l with
  | nil => rfl
  | cons z zs ih =>
    have hz : lt x z = false := ho.asymm _ _ (h z (by simp))
    simp [insertBy, hz, ih (fun y hy => h y (List.mem_cons_of_mem _ hy))]

/-! ### digits -/

theorem isDigit_iff (c : Char) : isDigit c = true ↔ 48 ≤ c.toNat ∧ c.toNat ≤ 57 := by
  simp [isDigit]

/-- core's `Char.isDigit` is the model's `isDigit` -/
theorem isDigit_of_core (c : Char) (h : c.isDigit = true) : isDigit c = true := by
  unfold Char.isDigit at h
  unfold isDigit
  simp only [Bool.and_eq_true, decide_eq_true_eq, ge_iff_le] at h ⊢
  have h1 : (48 : Nat) ≤ c.val.toNat := UInt32.le_iff_toNat_le.mp h.1
  have h2 : c.val.toNat ≤ (57 : Nat) := UInt32.le_iff_toNat_le.mp h.2
  exact ⟨h1, h2⟩

/-- `int(ds)` is core's `Nat.ofDigitChars 10` -/
theorem parseNat_eq (ds : Name) : parseNat ds = Nat.ofDigitChars 10 ds 0 := rfl

theorem toDigits_digits (n : Nat) : (Nat.toDigits 10 n).all isDigit = true := by
  rw [List.all_eq_true]
  intro c hc
  exact isDigit_of_core c (Nat.isDigit_of_mem_toDigits (by decide) (by decide) hc)

theorem isDigit_zero : isDigit '0' = true := by decide

/-- `f"{n:04}"` consists of digits … -/
theorem fmt4_digits (n : Nat) : (fmt4 n).all isDigit = true := by
  unfold fmt4
  rw [List.all_append, toDigits_digits, Bool.and_true, List.all_eq_true]
  intro c hc
  rw [(List.mem_replicate.mp hc).2]
  exact isDigit_zero

/-- … at least four of them … -/
theorem fmt4_length (n : Nat) : 4 ≤ (fmt4 n).length := by
  unfold fmt4
  simp only [List.length_append, List.length_replicate]
  omega

/-- … and `int()` reads the number back, for every `n` (no four-digit bound) -/
theorem parseNat_fmt4 (n : Nat) : parseNat (fmt4 n) = n := by
  unfold fmt4
  rw [parseNat_eq, Nat.ofDigitChars_append, Nat.ofDigitChars_replicate_zero, Nat.mul_zero,
    Nat.ofDigitChars_ten_toDigits]

/-- numbers below 10 000 get exactly four digits, larger ones their plain decimal digits -/
theorem fmt4_length_small (n : Nat) (h : n < 10000) : (fmt4 n).length = 4 := by
  have := (Nat.length_toDigits_le_iff (b := 10) (n := n) (k := 4) (by decide) (by decide)).mpr (by omega)
  unfold fmt4
  simp only [List.length_append, List.length_replicate]
  omega

theorem fmt4_large (n : Nat) (h : 10000 ≤ n) : fmt4 n = Nat.toDigits 10 n := by
  have : ¬ (Nat.toDigits 10 n).length ≤ 4 := fun hle =>
    absurd ((Nat.length_toDigits_le_iff (b := 10) (n := n) (k := 4) (by decide) (by decide)).mp hle) (by omega)
  unfold fmt4
  have h0 : 4 - (Nat.toDigits 10 n).length = 0 := by omega
  simp [h0]

/-! ### run names -/

theorem stripPrefix_append (p x : Name) : stripPrefix p (p ++ x) = some x := by
  induction p with
  | nil => cases x <;> rfl
  | cons c cs ih => simp [stripPrefix, ih]

theorem stripPrefix_eq_some (p n r : Name) (h : stripPrefix p n = some r) : n = p ++ r := by
  induction p generalizing n with
  | nil => cases n <;> simp [stripPrefix] at h <;> simp [h]
  | cons c cs ih =>
    cases n with
    | nil => simp [stripPrefix] at h
    | cons d ds =>
      simp only [stripPrefix] at h
      split at h
      · rename_i hcd
        simp [hcd, ih ds h]
      · cases h

theorem isRunOf_iff (base n : Name) :
    isRunOf base n = true ↔ ∃ ds, n = base ++ runInfix ++ ds ∧ 4 ≤ ds.length ∧ ds.all isDigit = true := by
  unfold isRunOf
  constructor
  · intro h
    split at h
    · rename_i ds hds
      refine ⟨ds, stripPrefix_eq_some _ _ _ hds, ?_⟩
      simpa using h
    · cases h
  · rintro ⟨ds, rfl, hl, hd⟩
    rw [stripPrefix_append]
    simp [hl, hd]

theorem runInfix_length : runInfix.length = 5 := rfl

/-- every run name is a run of its result name — for every run number -/
theorem isRunOf_runName (base : Name) (k : Nat) : isRunOf base (runName base k) = true :=
  (isRunOf_iff _ _).mpr ⟨fmt4 k, rfl, fmt4_length k, fmt4_digits k⟩

theorem runNumber_append (base ds : Name) : runNumber base (base ++ runInfix ++ ds) = parseNat ds := by
  have : base.length + 5 = (base ++ runInfix).length := by simp [runInfix_length]
  rw [runNumber, this, List.drop_left]

theorem runNumber_runName (base : Name) (k : Nat) : runNumber base (runName base k) = k := by
  unfold runName
  rw [runNumber_append, parseNat_fmt4 k]

theorem runName_inj (base : Name) (j k : Nat) (h : runName base j = runName base k) : j = k := by
  have := congrArg (runNumber base) h
  rwa [runNumber_runName base j, runNumber_runName base k] at this

theorem takeWhile_append_stop (p : Char → Bool) (l r : List Char) (c : Char) (hl : l.all p = true)
    (hc : p c = false) : (l ++ c :: r).takeWhile p = l := by
  induction l with
  | nil => simp [hc]
  | cons x xs ih =>
    simp only [List.all_cons, Bool.and_eq_true] at hl
    simp [hl.1, ih hl.2]

/-- the digits after `_run_` are all the trailing digits of the name -/
theorem trailingDigits_run (b ds : Name) (hd : ds.all isDigit = true) :
    trailingDigits (b ++ runInfix ++ ds) = ds := by
  unfold trailingDigits
  have hr : (b ++ runInfix ++ ds).reverse = ds.reverse ++ '_' :: (['n', 'u', 'r', '_'] ++ b.reverse) := by
    simp [runInfix]
  rw [hr, takeWhile_append_stop isDigit _ _ '_' (by simpa using hd) (by decide), List.reverse_reverse]

/-- a run folder belongs to exactly one result name (D13) — also with run numbers of any length -/
theorem isRunOf_unique (base base' n : Name) (h : isRunOf base n = true) (h' : isRunOf base' n = true) :
    base' = base := by
  obtain ⟨ds, rfl, _, hd⟩ := (isRunOf_iff _ _).mp h
  obtain ⟨ds', he, _, hd'⟩ := (isRunOf_iff _ _).mp h'
  have e1 := trailingDigits_run base ds hd
  have e2 := trailingDigits_run base' ds' hd'
  rw [he, e2] at e1
  subst e1
  have := List.append_cancel_right he
  exact (List.append_cancel_right this).symm

/-! ### the run-number order -/

theorem runLt_isOrder (base : Name) : IsOrder (runLt base) := by
  constructor
  · intro a b h
    simp only [runLt, Bool.or_eq_true, Bool.and_eq_true, decide_eq_true_eq] at h
    simp only [runLt, Bool.or_eq_false_iff, Bool.and_eq_false_iff, decide_eq_false_iff_not]
    rcases h with h | ⟨h1, h2⟩
    · exact ⟨by omega, Or.inl (by omega)⟩
    · exact ⟨by omega, Or.inr (lexLt_asymm a b h2)⟩
  · intro a b c h1 h2
    simp only [runLt, Bool.or_eq_false_iff, Bool.and_eq_false_iff, decide_eq_false_iff_not] at h1 h2 ⊢
    refine ⟨by omega, ?_⟩
    by_cases hca : runNumber base c = runNumber base a
    · right
      have hba : runNumber base b = runNumber base a := by omega
      have hcb : runNumber base c = runNumber base b := by omega
      have l1 : lexLt b a = false := by
        rcases h1.2 with h | h
        · exact absurd hba h
        · exact h
      have l2 : lexLt c b = false := by
        rcases h2.2 with h | h
        · exact absurd hcb h
        · exact h
      exact lexLe_trans a b c l1 l2
    · exact Or.inl hca

theorem runLt_of_number_lt (base a b : Name) (h : runNumber base a < runNumber base b) : runLt base a b = true := by
  simp [runLt, h]

theorem number_le_of_not_runLt (base a b : Name) (h : runLt base a b = false) : runNumber base b ≤ runNumber base a := by
  simp only [runLt, Bool.or_eq_false_iff, decide_eq_false_iff_not] at h
  omega

/-! ### directory listing -/

theorem kindOf_setEntry_self (d : Dir) (n : Name) (k : Kind) : kindOf (setEntry d n k) n = some k := by
  simp [setEntry, kindOf]

theorem kindOf_filter_ne (d : Dir) (n m : Name) (h : m ≠ n) :
    kindOf (d.filter (fun e => e.name ≠ n)) m = kindOf d m := by
  induction d with
  | nil => rfl
  | cons e rest ih =>
    by_cases he : e.name = n
    · have : e.name ≠ m := fun h' => h (h'.symm.trans he)
      simp_all [List.filter, kindOf]
    · simp_all [List.filter, kindOf]

theorem kindOf_setEntry_ne (d : Dir) (n m : Name) (k : Kind) (h : m ≠ n) :
    kindOf (setEntry d n k) m = kindOf d m := by
  have hnm : n ≠ m := fun h' => h h'.symm
  have := kindOf_filter_ne d n m h
  simp_all [setEntry, kindOf]

theorem kindOf_none_iff (d : Dir) (n : Name) : kindOf d n = none ↔ n ∉ names d := by
  induction d with
  | nil => simp [kindOf, names]
  | cons e rest ih =>
    by_cases he : e.name = n
    · simp [kindOf, names, he]
    · have : ¬ n = e.name := fun h => he h.symm
      simp [kindOf, he, names, this] at ih ⊢
      exact ih

theorem names_setEntry (d : Dir) (n : Name) (k : Kind) :
    names (setEntry d n k) = n :: (names d).filter (fun m => m ≠ n) := by
  simp [names, setEntry, List.filter_map, Function.comp_def]

/-- the filter of `previous` does not see a new entry that is no run of `base` -/
theorem previous_setEntry_other (d : Dir) (n base : Name) (k : Kind) (h : isRunOf base n = false) :
    previous (setEntry d n k) base = previous d base := by
  unfold previous
  rw [names_setEntry]
  simp only [List.filter_cons, h]
  congr 1
  rw [List.filter_filter]
  apply List.filter_congr
  intro m _
  by_cases hm : m = n
  · subst hm; simp [h]
  · simp [hm]

theorem previous_setEntry_run (d : Dir) (n base : Name) (k : Kind) (h : isRunOf base n = true)
    (hfresh : n ∉ names d) :
    previous (setEntry d n k) base = insertBy (runLt base) n (previous d base) := by
  unfold previous
  rw [names_setEntry]
  have : (names d).filter (fun m => m ≠ n) = names d := by
    apply List.filter_eq_self.mpr
    intro m hm
    have : m ≠ n := fun e => hfresh (e ▸ hm)
    simpa using this
  rw [this]
  simp [h, isortBy]

theorem mem_previous (d : Dir) (base l : Name) : l ∈ previous d base ↔ l ∈ names d ∧ isRunOf base l = true := by
  simp [previous, mem_isortBy]

/-! ### the next run name -/

/-- `create_result_run_name`: the next run name is `runName base k` for a `k` above the number of
    every existing run of `base` — in every results folder, with no bound on the run numbers -/
theorem createRunName_spec (d : Dir) (base : Name) :
    ∃ k, createRunName d base = runName base k ∧ ∀ l ∈ previous d base, runNumber base l < k := by
  unfold createRunName
  cases hlast : (previous d base).getLast? with
  | none =>
    have : previous d base = [] := List.getLast?_eq_none_iff.mp hlast
    exact ⟨0, rfl, by simp [this]⟩
  | some last =>
    obtain ⟨_, hmax⟩ := sortedBy_getLast (runLt_isOrder base) _ (sortedBy_isortBy (runLt_isOrder base) _) last hlast
    refine ⟨runNumber base last + 1, rfl, ?_⟩
    intro l hl
    have := number_le_of_not_runLt base last l (hmax l hl)
    omega

theorem createRunName_fresh (d : Dir) (base : Name) : createRunName d base ∉ names d := by
  obtain ⟨k, he, hlt⟩ := createRunName_spec d base
  intro hmem
  rw [he] at hmem
  have := hlt _ ((mem_previous d base _).mpr ⟨hmem, isRunOf_runName base k⟩)
  rw [runNumber_runName] at this
  omega

theorem save_eq (d : Dir) (base : Name) (payload : Nat) :
    save d base payload = (setEntry d (createRunName d base) (.run payload), .saved (createRunName d base)) := by
  have h := (kindOf_none_iff d _).mpr (createRunName_fresh d base)
  simp [save, h]

theorem previous_save_self (d : Dir) (base : Name) (payload : Nat) :
    previous (save d base payload).1 base = previous d base ++ [createRunName d base] := by
  obtain ⟨k, he, hlt⟩ := createRunName_spec d base
  rw [save_eq d base payload]
  simp only
  rw [previous_setEntry_run d _ base _ (by rw [he]; exact isRunOf_runName base k) (createRunName_fresh d base)]
  apply insertBy_greatest (runLt_isOrder base)
  intro y hy
  apply runLt_of_number_lt
  rw [he, runNumber_runName]
  exact hlt y hy

theorem previous_save_other (d : Dir) (base base' : Name) (payload : Nat)
    (hne : base' ≠ base) : previous (save d base payload).1 base' = previous d base' := by
  obtain ⟨k, he, _⟩ := createRunName_spec d base
  rw [save_eq d base payload]
  simp only
  apply previous_setEntry_other
  cases h : isRunOf base' (createRunName d base) with
  | false => rfl
  | true =>
    exfalso
    rw [he] at h
    exact hne (isRunOf_unique base base' _ (isRunOf_runName base k) h)

theorem kindOf_save_run (d : Dir) (base n : Name) (payload p : Nat) (h : kindOf d n = some (.run p)) :
    kindOf (save d base payload).1 n = some (.run p) := by
  by_cases hn : n = createRunName d base
  · subst hn
    simp [save, h]
  · have key : ∀ k, kindOf (setEntry d (createRunName d base) k) n = some (.run p) := fun k => by
      rw [kindOf_setEntry_ne _ _ _ _ hn]; exact h
    unfold save
    cases hk : kindOf d (createRunName d base) with
    | none => simp only [hk]; exact key _
    | some k => cases k <;> simp only [hk] <;> first | exact h | exact key _

/-! ### run specifiers at the end of a name -/

/-- a name of the form `b_run_<four or more digits>` ends with a run specifier, which
    `re.sub(run_specifier_pattern, "", ·)` removes, leaving `b` -/
theorem endsWithRunSpecifier_run (b ds : Name) (hl : 4 ≤ ds.length) (hd : ds.all isDigit = true) :
    endsWithRunSpecifier (b ++ runInfix ++ ds) = true ∧ stripRunSpecifier (b ++ runInfix ++ ds) = b := by
  have hlen : (b ++ runInfix ++ ds).length = b.length + 5 + ds.length := by simp [runInfix_length]; omega
  have hsub : (b ++ runInfix ++ ds).length - ds.length - 5 = b.length := by omega
  have hends : endsWithRunSpecifier (b ++ runInfix ++ ds) = true := by
    unfold endsWithRunSpecifier
    simp only [trailingDigits_run b ds hd, hsub]
    have hdrop : (b ++ runInfix ++ ds).drop b.length = runInfix ++ ds := by
      rw [List.append_assoc, List.drop_left]
    have h5 : (runInfix ++ ds).take 5 = runInfix := by
      have : (5 : Nat) = runInfix.length := rfl
      rw [this, List.take_left]
    rw [hdrop, h5]
    simp only [hlen, Bool.and_eq_true, decide_eq_true_eq, beq_self_eq_true, and_true]
    omega
  refine ⟨hends, ?_⟩
  unfold stripRunSpecifier
  rw [hends, trailingDigits_run b ds hd, hsub]
  simp only [if_true]
  rw [List.append_assoc, List.take_left]

/-- `result_pattern` needs at least one character in front of the run specifier -/
theorem hasRunSuffix_run (b ds : Name) (hl : 4 ≤ ds.length) (hd : ds.all isDigit = true) :
    hasRunSuffix (b ++ runInfix ++ ds) = decide (b ≠ []) := by
  unfold hasRunSuffix
  rw [(endsWithRunSpecifier_run b ds hl hd).1, trailingDigits_run b ds hd]
  cases b with
  | nil => simp [runInfix_length]; omega
  | cons c cs => simp [runInfix_length] <;> omega

theorem trailingDigits_digits (n : Name) : (trailingDigits n).all isDigit = true := by
  unfold trailingDigits
  rw [List.all_reverse, List.all_takeWhile]

theorem trailingDigits_suffix (n : Name) : n = n.take (n.length - (trailingDigits n).length) ++ trailingDigits n := by
  unfold trailingDigits
  have h := List.takeWhile_append_dropWhile (p := isDigit) (l := n.reverse)
  have h2 := congrArg List.reverse h
  rw [List.reverse_append, List.reverse_reverse] at h2
  have hl : ((n.reverse.dropWhile isDigit).reverse).length = n.length - ((n.reverse.takeWhile isDigit).reverse).length := by
    have := congrArg List.length h2
    simp only [List.length_append, List.length_reverse] at this ⊢
    omega
  generalize (n.reverse.dropWhile isDigit).reverse = A at h2 hl
  generalize (n.reverse.takeWhile isDigit).reverse = B at h2 hl ⊢
  subst h2
  rw [← hl, List.take_left]

/-- conversely: a name that ends with a run specifier is `stripRunSpecifier n ++ "_run_" ++ digits` -/
theorem endsWithRunSpecifier_split (n : Name) (h : endsWithRunSpecifier n = true) :
    n = stripRunSpecifier n ++ runInfix ++ trailingDigits n ∧ 4 ≤ (trailingDigits n).length := by
  have hs : stripRunSpecifier n = n.take (n.length - (trailingDigits n).length - 5) := by
    simp [stripRunSpecifier, h]
  unfold endsWithRunSpecifier at h
  simp only [Bool.and_eq_true, decide_eq_true_eq, beq_iff_eq] at h
  obtain ⟨⟨h4, hk⟩, hinf⟩ := h
  refine ⟨?_, h4⟩
  rw [hs]
  have h1 := trailingDigits_suffix n
  -- the part in front of the digits splits into the stripped name and `_run_`
  have h2 : n.take (n.length - (trailingDigits n).length)
      = n.take (n.length - (trailingDigits n).length - 5) ++ runInfix := by
    have hsplit := List.take_append_drop (n.length - (trailingDigits n).length - 5) (n.take (n.length - (trailingDigits n).length))
    rw [List.take_take, Nat.min_eq_left (by omega)] at hsplit
    rw [← hsplit]
    congr 1
    rw [List.drop_take]
    have : n.length - (trailingDigits n).length - (n.length - (trailingDigits n).length - 5) = 5 := by omega
    rw [this]; exact hinf
  conv => lhs; rw [h1, h2]

/-! ### `ProjectRegistry.items` on the results folder -/

theorem lexLt_total (a b : Name) (h1 : lexLt a b = false) (h2 : lexLt b a = false) : a = b := by
  induction a generalizing b with
  | nil => cases b with
    | nil => rfl
    | cons b bs => simp [lexLt] at h1
  | cons a as ih =>
    cases b with
    | nil => simp [lexLt] at h2
    | cons b bs =>
      simp only [lexLt] at h1 h2
      by_cases hab : a.toNat < b.toNat
      · simp [hab] at h1
      · by_cases hba : b.toNat < a.toNat
        · simp [hba] at h2
        · have e : a.toNat = b.toNat := by omega
          simp only [e, Nat.lt_irrefl, if_false, if_true] at h1 h2
          rw [Char.toNat_inj.mp e, ih bs h1 h2]

/-- strictly sorted: every element is `<` every later one -/
def StrictSorted : List Name → Prop
  | [] => True
  | x :: xs => (∀ y ∈ xs, lexLt x y = true) ∧ StrictSorted xs

theorem strictSorted_of (l : List Name) (hs : Sorted l) (hn : l.Nodup) : StrictSorted l := by
  induction l with
  | nil => trivial
  | cons x xs ih =>
    obtain ⟨hx, hs'⟩ := hs
    have hn' := List.nodup_cons.mp hn
    refine ⟨?_, ih hs' hn'.2⟩
    intro y hy
    cases h : lexLt x y with
    | true => rfl
    | false =>
      exfalso
      have := lexLt_total x y h (hx y hy)
      subst this
      exact hn'.1 hy

theorem isort_of_strictSorted (l : List Name) (h : StrictSorted l) : isort l = l := by
  induction l with
  | nil => rfl
  | cons x xs ih =>
    obtain ⟨hx, hs⟩ := h
    simp only [isort, ih hs]
    cases xs with
    | nil => rfl
    | cons y ys => simp [insertSorted, hx y (by simp)]

theorem nodup_insertSorted (x : Name) (l : List Name) (hx : x ∉ l) (hn : l.Nodup) : (insertSorted x l).Nodup := by
  induction l with
  | nil => simp [insertSorted]
  | cons y ys ih =>
    have hn' := List.nodup_cons.mp hn
    simp only [insertSorted]
    split
    · exact List.nodup_cons.mpr ⟨hx, hn⟩
    · refine List.nodup_cons.mpr ⟨?_, ih (fun h => hx (List.mem_cons_of_mem _ h)) hn'.2⟩
      intro hy
      rcases (mem_insertSorted x ys y).mp hy with h | h
      · exact hx (by simp [h])
      · exact hn'.1 h

theorem nodup_isort (l : List Name) (hn : l.Nodup) : (isort l).Nodup := by
  induction l with
  | nil => simp [isort]
  | cons x xs ih =>
    have hn' := List.nodup_cons.mp hn
    exact nodup_insertSorted x _ (fun h => hn'.1 ((mem_isort xs x).mp h)) (ih hn'.2)

theorem stem_no_dot (n : Name) (h : n.contains '.' = false) : stem n = n := by
  unfold stem; rw [h]; simp

theorem lookupKey_map_self (l : List Name) (k : Name) :
    lookupKey (l.map (fun n => (n, n))) k = if k ∈ l then some k else none := by
  induction l with
  | nil => simp [lookupKey]
  | cons x xs ih =>
    simp only [List.map_cons, lookupKey, ih]
    by_cases h : x = k
    · simp [h]
    · have : ¬ k = x := fun e => h e.symm
      simp [h, this]

theorem itemsLoop_no_dots (l : List Name) (acc : List Name) (w : Nat)
    (hdot : ∀ n ∈ l, n.contains '.' = false) (hn : l.Nodup) (hdis : ∀ n ∈ l, n ∉ acc) :
    itemsLoop l (acc.map (fun n => (n, n))) w = ((acc ++ l).map (fun n => (n, n)), w) := by
  induction l generalizing acc with
  | nil => simp [itemsLoop]
  | cons x xs ih =>
    have hn' := List.nodup_cons.mp hn
    have hx : lookupKey (acc.map (fun n => (n, n))) x = none := by
      rw [lookupKey_map_self]; simp [hdis x (by simp)]
    simp only [itemsLoop, stem_no_dot x (hdot x (by simp)), hx, Option.isSome_none]
    have : acc.map (fun n => (n, n)) ++ [(x, x)] = (acc ++ [x]).map (fun n => (n, n)) := by simp
    simp only [Bool.false_eq_true, if_false]
    rw [this, ih (acc ++ [x]) (fun n hn => hdot n (List.mem_cons_of_mem _ hn)) hn'.2]
    · simp
    · intro m hm hmem
      rcases List.mem_append.mp hmem with h | h
      · exact hdis m (List.mem_cons_of_mem _ hm) h
      · simp at h; subst h; exact hn'.1 hm

end Glotaran.C18
