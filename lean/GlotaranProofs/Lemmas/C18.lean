/-
C18 — helper lemmas, part (b): names, order, sorting, run numbers.
-/
import GlotaranModel.C18
namespace Glotaran.C18

/-! ### lexicographic order -/

theorem lexLt_irrefl (a : Name) : lexLt a a = false := by
  induction a with
  | nil => rfl
  | cons c cs ih => simp [lexLt, ih]

theorem lexLt_asymm : ∀ (a b : Name), lexLt a b = true → lexLt b a = false
  | [], [], h => by simp [lexLt] at h
  | [], _ :: _, _ => by simp [lexLt]
  | _ :: _, [], h => by simp [lexLt] at h
  | a :: as, b :: bs, h => by
    simp only [lexLt] at h ⊢
    by_cases h1 : a.toNat < b.toNat
    · have h2 : ¬ b.toNat < a.toNat := by omega
      have h3 : ¬ b.toNat = a.toNat := by omega
      simp [h2, h3]
    · simp only [h1, if_false] at h
      by_cases h2 : a.toNat = b.toNat
      · simp only [h2, if_true] at h
        have h3 : ¬ b.toNat < a.toNat := by omega
        simp [h2, lexLt_asymm as bs h]
      · simp [h2] at h

/-- `a ≤ b` and `b ≤ c` give `a ≤ c`, where `x ≤ y` is `lexLt y x = false` -/
theorem lexLe_trans (a b c : Name) (h1 : lexLt b a = false) (h2 : lexLt c b = false) :
    lexLt c a = false := by
  induction a generalizing b c with
  | nil => cases c <;> simp [lexLt]
  | cons a as ih =>
    cases b with
    | nil => simp [lexLt] at h1
    | cons b bs =>
      cases c with
      | nil => simp [lexLt] at h2
      | cons c cs =>
        simp only [lexLt] at h1 h2 ⊢
        by_cases hba : b.toNat < a.toNat
        · simp [hba] at h1
        · simp only [hba, if_false] at h1
          by_cases hcb : c.toNat < b.toNat
          · simp [hcb] at h2
          · simp only [hcb, if_false] at h2
            have hca : ¬ c.toNat < a.toNat := by omega
            simp only [hca, if_false]
            by_cases eca : c.toNat = a.toNat
            · simp only [eca, if_true]
              have e1 : b.toNat = a.toNat := by omega
              have e2 : c.toNat = b.toNat := by omega
              simp only [e1, if_true] at h1
              simp only [e2, e1, if_true] at h2
              exact ih bs cs h1 h2
            · simp [eca]

theorem lexLt_append_left (p a b : Name) : lexLt (p ++ a) (p ++ b) = lexLt a b := by
  induction p with
  | nil => rfl
  | cons c cs ih => simp [lexLt, ih]

/-! ### insertion sort -/

/-- sorted: every element is `≤` every later one -/
def Sorted : List Name → Prop
  | [] => True
  | x :: xs => (∀ y ∈ xs, lexLt y x = false) ∧ Sorted xs

theorem mem_insertSorted (x : Name) (l : List Name) (y : Name) :
    y ∈ insertSorted x l ↔ y = x ∨ y ∈ l := by
  induction l with
  | nil => simp [insertSorted]
  | cons z zs ih =>
    simp only [insertSorted]
    split
    · simp
    · simp [ih]; constructor
      · rintro (h | h | h) <;> simp [h]
      · rintro (h | h | h) <;> simp [h]

theorem mem_isort (l : List Name) (y : Name) : y ∈ isort l ↔ y ∈ l := by
  induction l with
  | nil => simp [isort]
  | cons z zs ih => simp [isort, mem_insertSorted, ih]

theorem sorted_insertSorted (x : Name) (l : List Name) (h : Sorted l) : Sorted (insertSorted x l) := by
  induction l with
  | nil => simp [insertSorted, Sorted]
  | cons z zs ih =>
    simp only [insertSorted]
    obtain ⟨hz, hs⟩ := h
    split
    · rename_i hlt
      refine ⟨?_, hz, hs⟩
      intro y hy
      rcases List.mem_cons.mp hy with h | hy
      · rw [h]; exact lexLt_asymm x z hlt
      · exact lexLe_trans x z y (lexLt_asymm x z hlt) (hz y hy)
    · rename_i hnlt
      refine ⟨?_, ih hs⟩
      intro y hy
      rcases (mem_insertSorted x zs y).mp hy with rfl | hy
      · simpa using hnlt
      · exact hz y hy

theorem sorted_isort (l : List Name) : Sorted (isort l) := by
  induction l with
  | nil => simp [isort, Sorted]
  | cons z zs ih => exact sorted_insertSorted z _ ih

/-- the last element of a sorted list is a maximum -/
theorem sorted_getLast (l : List Name) (h : Sorted l) (m : Name) (hm : l.getLast? = some m) :
    m ∈ l ∧ ∀ y ∈ l, lexLt m y = false := by
  induction l with
  | nil => simp at hm
  | cons z zs ih =>
    obtain ⟨hz, hs⟩ := h
    cases zs with
    | nil =>
      simp at hm
      subst hm
      simp [lexLt_irrefl]
    | cons w ws =>
      have hm' : (w :: ws).getLast? = some m := by simpa [List.getLast?_cons_cons] using hm
      obtain ⟨hmem, hmax⟩ := ih hs hm'
      refine ⟨List.mem_cons_of_mem _ hmem, ?_⟩
      intro y hy
      rcases List.mem_cons.mp hy with rfl | hy
      · exact hz m hmem
      · exact hmax y hy

/-- inserting an element that is strictly greater than everything appends it -/
theorem insertSorted_greatest (x : Name) (l : List Name) (h : ∀ y ∈ l, lexLt y x = true) :
    insertSorted x l = l ++ [x] := by
  induction l with
  | nil => rfl
  | cons z zs ih =>
    have hz : lexLt x z = false := lexLt_asymm _ _ (h z (by simp))
    simp [insertSorted, hz, ih (fun y hy => h y (List.mem_cons_of_mem _ hy))]

/-! ### digits -/

theorem digitChar_toNat (d : Nat) (h : d < 10) : (digitChar d).toNat = 48 + d := by
  have : d = 0 ∨ d = 1 ∨ d = 2 ∨ d = 3 ∨ d = 4 ∨ d = 5 ∨ d = 6 ∨ d = 7 ∨ d = 8 ∨ d = 9 := by omega
  rcases this with h | h | h | h | h | h | h | h | h | h <;> subst h <;> decide

theorem isDigit_iff (c : Char) : isDigit c = true ↔ 48 ≤ c.toNat ∧ c.toNat ≤ 57 := by
  simp [isDigit]

theorem isDigit_digitChar (d : Nat) (h : d < 10) : isDigit (digitChar d) = true := by
  rw [isDigit_iff, digitChar_toNat d h]; omega

theorem digitVal_digitChar (d : Nat) (h : d < 10) : digitVal (digitChar d) = d := by
  simp [digitVal, digitChar_toNat d h]

theorem digitChar_digitVal (c : Char) (h : isDigit c = true) : digitChar (digitVal c) = c := by
  rw [isDigit_iff] at h
  apply Char.toNat_inj.mp
  rw [digitChar_toNat _ (by unfold digitVal; omega)]
  unfold digitVal; omega

theorem list_length_four {α} (l : List α) (h : l.length = 4) : ∃ a b c d, l = [a, b, c, d] := by
  match l, h with
  | [a, b, c, d], _ => exact ⟨a, b, c, d, rfl⟩

theorem fmt4_eq (n : Nat) (h : n < 10000) :
    fmt4 n = [digitChar (n / 1000), digitChar (n / 100 % 10), digitChar (n / 10 % 10), digitChar (n % 10)] := by
  simp [fmt4, h]

theorem fmt4_length (n : Nat) (h : n < 10000) : (fmt4 n).length = 4 := by
  simp [fmt4_eq n h]

theorem fmt4_digits (n : Nat) (h : n < 10000) : (fmt4 n).all isDigit = true := by
  simp only [fmt4_eq n h, List.all_cons, List.all_nil, Bool.and_true, Bool.and_eq_true]
  refine ⟨isDigit_digitChar _ (by omega), isDigit_digitChar _ (by omega), isDigit_digitChar _ (by omega),
    isDigit_digitChar _ (by omega)⟩

theorem parseNat_four (a b c d : Char) :
    parseNat [a, b, c, d] = 1000 * digitVal a + 100 * digitVal b + 10 * digitVal c + digitVal d := by
  simp [parseNat, List.foldl]; omega

theorem parseNat_fmt4 (n : Nat) (h : n < 10000) : parseNat (fmt4 n) = n := by
  rw [fmt4_eq n h, parseNat_four, digitVal_digitChar _ (by omega), digitVal_digitChar _ (by omega),
    digitVal_digitChar _ (by omega), digitVal_digitChar _ (by omega)]
  omega

theorem digitVal_lt (c : Char) (h : isDigit c = true) : digitVal c < 10 := by
  rw [isDigit_iff] at h; unfold digitVal; omega

theorem parseNat_lt (ds : Name) (hl : ds.length = 4) (hd : ds.all isDigit = true) : parseNat ds < 10000 := by
  obtain ⟨a, b, c, d, rfl⟩ := list_length_four ds hl
  simp only [List.all_cons, List.all_nil, Bool.and_true, Bool.and_eq_true] at hd
  rw [parseNat_four]
  have := digitVal_lt a hd.1; have := digitVal_lt b hd.2.1
  have := digitVal_lt c hd.2.2.1; have := digitVal_lt d hd.2.2.2
  omega

theorem fmt4_parseNat (ds : Name) (hl : ds.length = 4) (hd : ds.all isDigit = true) : fmt4 (parseNat ds) = ds := by
  have hlt := parseNat_lt ds hl hd
  obtain ⟨a, b, c, d, rfl⟩ := list_length_four ds hl
  simp only [List.all_cons, List.all_nil, Bool.and_true, Bool.and_eq_true] at hd
  rw [fmt4_eq _ hlt, parseNat_four]
  have ha := digitVal_lt a hd.1; have hb := digitVal_lt b hd.2.1
  have hc := digitVal_lt c hd.2.2.1; have hd' := digitVal_lt d hd.2.2.2
  have e1 : (1000 * digitVal a + 100 * digitVal b + 10 * digitVal c + digitVal d) / 1000 = digitVal a := by omega
  have e2 : (1000 * digitVal a + 100 * digitVal b + 10 * digitVal c + digitVal d) / 100 % 10 = digitVal b := by omega
  have e3 : (1000 * digitVal a + 100 * digitVal b + 10 * digitVal c + digitVal d) / 10 % 10 = digitVal c := by omega
  have e4 : (1000 * digitVal a + 100 * digitVal b + 10 * digitVal c + digitVal d) % 10 = digitVal d := by omega
  rw [e1, e2, e3, e4, digitChar_digitVal a hd.1, digitChar_digitVal b hd.2.1, digitChar_digitVal c hd.2.2.1,
    digitChar_digitVal d hd.2.2.2]

/-- on four-digit strings the order of the strings is the order of the numbers -/
theorem lexLt_digits4 (x y : Name) (hx : x.length = 4) (hy : y.length = 4)
    (dx : x.all isDigit = true) (dy : y.all isDigit = true) :
    lexLt x y = true ↔ parseNat x < parseNat y := by
  obtain ⟨a, b, c, d, rfl⟩ := list_length_four x hx
  obtain ⟨a', b', c', d', rfl⟩ := list_length_four y hy
  simp only [List.all_cons, List.all_nil, Bool.and_true, Bool.and_eq_true, isDigit_iff] at dx dy
  rw [parseNat_four, parseNat_four]
  simp only [lexLt, digitVal]
  obtain ⟨⟨_, _⟩, ⟨_, _⟩, ⟨_, _⟩, ⟨_, _⟩⟩ := dx
  obtain ⟨⟨_, _⟩, ⟨_, _⟩, ⟨_, _⟩, ⟨_, _⟩⟩ := dy
  split
  · simp; omega
  · split
    · split
      · simp; omega
      · split
        · split
          · simp; omega
          · split
            · split
              · simp; omega
              · split
                · simp; omega
                · simp; omega
            · simp; omega
        · simp; omega
    · simp; omega

/-! ### run names -/

theorem stripPrefix_append (p x : Name) : stripPrefix p (p ++ x) = some x := by
  induction p with
  | nil => cases x <;> rfl
  | cons c cs ih => simp [stripPrefix, ih]

theorem stripPrefix_eq_some (p n r : Name) (h : stripPrefix p n = some r) : n = p ++ r := by
  induction p generalizing n with
  | nil => cases n <;> simp [stripPrefix] at h <;> simp [h]
  | cons c cs ih =>
    cases n with
    | nil => simp [stripPrefix] at h
    | cons d ds =>
      simp only [stripPrefix] at h
      split at h
      · rename_i hcd
        simp [hcd, ih ds h]
      · cases h

theorem isRunOf_iff (base n : Name) :
    isRunOf base n = true ↔ ∃ ds, n = base ++ runInfix ++ ds ∧ ds.length = 4 ∧ ds.all isDigit = true := by
  unfold isRunOf
  constructor
  · intro h
    split at h
    · rename_i ds hds
      refine ⟨ds, stripPrefix_eq_some _ _ _ hds, ?_⟩
      simpa using h
    · cases h
  · rintro ⟨ds, rfl, hl, hd⟩
    rw [stripPrefix_append]
    simp [hl, hd]

theorem runInfix_length : runInfix.length = 5 := rfl

theorem isRunOf_runName (base : Name) (k : Nat) (h : k < 10000) : isRunOf base (runName base k) = true :=
  (isRunOf_iff _ _).mpr ⟨fmt4 k, rfl, fmt4_length k h, fmt4_digits k h⟩

theorem runNumber_append (base ds : Name) : runNumber base (base ++ runInfix ++ ds) = parseNat ds := by
  have : base.length + 5 = (base ++ runInfix).length := by simp [runInfix_length]
  rw [runNumber, this, List.drop_left]

theorem runNumber_runName (base : Name) (k : Nat) (h : k < 10000) : runNumber base (runName base k) = k := by
  unfold runName
  rw [runNumber_append, parseNat_fmt4 k h]

/-- a run of `base` is `runName base` of its number -/
theorem isRunOf_eq_runName (base n : Name) (h : isRunOf base n = true) :
    n = runName base (runNumber base n) ∧ runNumber base n < 10000 := by
  obtain ⟨ds, rfl, hl, hd⟩ := (isRunOf_iff _ _).mp h
  rw [runNumber_append]
  exact ⟨by unfold runName; rw [fmt4_parseNat ds hl hd], parseNat_lt ds hl hd⟩

/-- a run folder belongs to exactly one result name (D13) -/
theorem isRunOf_unique (base base' n : Name) (h : isRunOf base n = true) (h' : isRunOf base' n = true) :
    base' = base := by
  obtain ⟨ds, rfl, hl, _⟩ := (isRunOf_iff _ _).mp h
  obtain ⟨ds', he, hl', _⟩ := (isRunOf_iff _ _).mp h'
  have hlen : (base ++ runInfix ++ ds).length = (base' ++ runInfix ++ ds').length := by rw [he]
  simp only [List.length_append, runInfix_length, hl, hl'] at hlen
  have : base.length = base'.length := by omega
  have h1 := List.append_inj (by rw [List.append_assoc, List.append_assoc] at he; exact he) this
  exact h1.1.symm

theorem runName_lt (base : Name) (j k : Nat) (hj : j < 10000) (hk : k < 10000) :
    lexLt (runName base j) (runName base k) = true ↔ j < k := by
  unfold runName
  rw [lexLt_append_left, lexLt_digits4 _ _ (fmt4_length j hj) (fmt4_length k hk) (fmt4_digits j hj) (fmt4_digits k hk),
    parseNat_fmt4 j hj, parseNat_fmt4 k hk]

theorem runName_inj (base : Name) (j k : Nat) (hj : j < 10000) (hk : k < 10000)
    (h : runName base j = runName base k) : j = k := by
  have := congrArg (runNumber base) h
  rwa [runNumber_runName base j hj, runNumber_runName base k hk] at this

/-! ### directory listing -/

theorem kindOf_setEntry_self (d : Dir) (n : Name) (k : Kind) : kindOf (setEntry d n k) n = some k := by
  simp [setEntry, kindOf]

theorem kindOf_filter_ne (d : Dir) (n m : Name) (h : m ≠ n) :
    kindOf (d.filter (fun e => e.name ≠ n)) m = kindOf d m := by
  induction d with
  | nil => rfl
  | cons e rest ih =>
    by_cases he : e.name = n
    · have : e.name ≠ m := fun h' => h (h'.symm.trans he)
      simp_all [List.filter, kindOf]
    · simp_all [List.filter, kindOf]

theorem kindOf_setEntry_ne (d : Dir) (n m : Name) (k : Kind) (h : m ≠ n) :
    kindOf (setEntry d n k) m = kindOf d m := by
  have hnm : n ≠ m := fun h' => h h'.symm
  have := kindOf_filter_ne d n m h
  simp_all [setEntry, kindOf]

theorem kindOf_none_iff (d : Dir) (n : Name) : kindOf d n = none ↔ n ∉ names d := by
  induction d with
  | nil => simp [kindOf, names]
  | cons e rest ih =>
    by_cases he : e.name = n
    · simp [kindOf, names, he]
    · have : ¬ n = e.name := fun h => he h.symm
      simp [kindOf, he, names, this] at ih ⊢
      exact ih

theorem names_setEntry (d : Dir) (n : Name) (k : Kind) :
    names (setEntry d n k) = n :: (names d).filter (fun m => m ≠ n) := by
  simp [names, setEntry, List.filter_map, Function.comp_def]

/-- the filter of `previous` does not see a new entry that is no run of `base` -/
theorem previous_setEntry_other (d : Dir) (n base : Name) (k : Kind) (h : isRunOf base n = false) :
    previous (setEntry d n k) base = previous d base := by
  unfold previous
  rw [names_setEntry]
  simp only [List.filter_cons, h]
  congr 1
  rw [List.filter_filter]
  apply List.filter_congr
  intro m _
  by_cases hm : m = n
  · subst hm; simp [h]
  · simp [hm]

theorem previous_setEntry_run (d : Dir) (n base : Name) (k : Kind) (h : isRunOf base n = true)
    (hfresh : n ∉ names d) :
    previous (setEntry d n k) base = insertSorted n (previous d base) := by
  unfold previous
  rw [names_setEntry]
  have : (names d).filter (fun m => m ≠ n) = names d := by
    apply List.filter_eq_self.mpr
    intro m hm
    have : m ≠ n := fun e => hfresh (e ▸ hm)
    simpa using this
  rw [this]
  simp [h, isort]

theorem mem_previous (d : Dir) (base l : Name) : l ∈ previous d base ↔ l ∈ names d ∧ isRunOf base l = true := by
  simp [previous, mem_isort]

/-! ### the next run name -/

/-- every existing run of `base` has a number below 9999 (so the next one still has four digits) -/
def RoomFor (d : Dir) (base : Name) : Prop := ∀ l ∈ previous d base, runNumber base l < 9999

theorem createRunName_spec (d : Dir) (base : Name) (hb : RoomFor d base) :
    ∃ k, k < 10000 ∧ createRunName d base = runName base k ∧
      (∀ l ∈ previous d base, runNumber base l < k) ∧
      (∀ l ∈ previous d base, lexLt l (runName base k) = true) := by
  unfold createRunName
  cases hlast : (previous d base).getLast? with
  | none =>
    have : previous d base = [] := List.getLast?_eq_none_iff.mp hlast
    exact ⟨0, by omega, rfl, by simp [this], by simp [this]⟩
  | some last =>
    obtain ⟨hmem, hmax⟩ := sorted_getLast _ (sorted_isort _) last hlast
    have hlastRun := ((mem_previous d base last).mp hmem).2
    obtain ⟨hlastEq, hlastLt⟩ := isRunOf_eq_runName base last hlastRun
    have hk : runNumber base last + 1 < 10000 := by have := hb last hmem; omega
    refine ⟨runNumber base last + 1, hk, rfl, ?_, ?_⟩
    · intro l hl
      have hlRun := ((mem_previous d base l).mp hl).2
      obtain ⟨hlEq, hlLt⟩ := isRunOf_eq_runName base l hlRun
      have h1 := hmax l hl
      rw [hlastEq, hlEq] at h1
      have h2 : ¬ runNumber base last < runNumber base l := fun hlt => by
        have := (runName_lt base (runNumber base last) (runNumber base l) hlastLt hlLt).mpr hlt
        rw [h1] at this; cases this
      omega
    · intro l hl
      have hlRun := ((mem_previous d base l).mp hl).2
      obtain ⟨hlEq, hlLt⟩ := isRunOf_eq_runName base l hlRun
      have h1 := hmax l hl
      rw [hlastEq, hlEq] at h1
      have h2 : ¬ runNumber base last < runNumber base l := fun hlt => by
        have := (runName_lt base (runNumber base last) (runNumber base l) hlastLt hlLt).mpr hlt
        rw [h1] at this; cases this
      rw [hlEq]
      exact (runName_lt base (runNumber base l) (runNumber base last + 1) hlLt hk).mpr (by omega)

theorem createRunName_fresh (d : Dir) (base : Name) (hb : RoomFor d base) : createRunName d base ∉ names d := by
  obtain ⟨k, hk, he, _, hlt⟩ := createRunName_spec d base hb
  intro hmem
  rw [he] at hmem
  have := hlt _ ((mem_previous d base _).mpr ⟨hmem, isRunOf_runName base k hk⟩)
  rw [lexLt_irrefl] at this
  cases this

theorem save_eq (d : Dir) (base : Name) (payload : Nat) (hb : RoomFor d base) :
    save d base payload = (setEntry d (createRunName d base) (.run payload), .saved (createRunName d base)) := by
  have h := (kindOf_none_iff d _).mpr (createRunName_fresh d base hb)
  simp [save, h]

theorem previous_save_self (d : Dir) (base : Name) (payload : Nat) (hb : RoomFor d base) :
    previous (save d base payload).1 base = previous d base ++ [createRunName d base] := by
  obtain ⟨k, hk, he, _, hlt⟩ := createRunName_spec d base hb
  rw [save_eq d base payload hb]
  simp only
  rw [previous_setEntry_run d _ base _ (by rw [he]; exact isRunOf_runName base k hk) (createRunName_fresh d base hb)]
  exact insertSorted_greatest _ _ (by rw [he]; exact hlt)

theorem previous_save_other (d : Dir) (base base' : Name) (payload : Nat) (hb : RoomFor d base)
    (hne : base' ≠ base) : previous (save d base payload).1 base' = previous d base' := by
  obtain ⟨k, hk, he, _, _⟩ := createRunName_spec d base hb
  rw [save_eq d base payload hb]
  simp only
  apply previous_setEntry_other
  cases h : isRunOf base' (createRunName d base) with
  | false => rfl
  | true =>
    exfalso
    rw [he] at h
    exact hne (isRunOf_unique base base' _ (isRunOf_runName base k hk) h)

theorem kindOf_save_run (d : Dir) (base n : Name) (payload p : Nat) (h : kindOf d n = some (.run p)) :
    kindOf (save d base payload).1 n = some (.run p) := by
  by_cases hn : n = createRunName d base
  · subst hn
    simp [save, h]
  · have key : ∀ k, kindOf (setEntry d (createRunName d base) k) n = some (.run p) := fun k => by
      rw [kindOf_setEntry_ne _ _ _ _ hn]; exact h
    unfold save
    cases hk : kindOf d (createRunName d base) with
    | none => simp only [hk]; exact key _
    | some k => cases k <;> simp only [hk] <;> first | exact h | exact key _

/-! ### `ProjectRegistry.items` on the results folder -/

theorem lexLt_total (a b : Name) (h1 : lexLt a b = false) (h2 : lexLt b a = false) : a = b := by
  induction a generalizing b with
  | nil => cases b with
    | nil => rfl
    | cons b bs => simp [lexLt] at h1
  | cons a as ih =>
    cases b with
    | nil => simp [lexLt] at h2
    | cons b bs =>
      simp only [lexLt] at h1 h2
      by_cases hab : a.toNat < b.toNat
      · simp [hab] at h1
      · by_cases hba : b.toNat < a.toNat
        · simp [hba] at h2
        · have e : a.toNat = b.toNat := by omega
          simp only [e, Nat.lt_irrefl, if_false, if_true] at h1 h2
          rw [Char.toNat_inj.mp e, ih bs h1 h2]

/-- strictly sorted: every element is `<` every later one -/
def StrictSorted : List Name → Prop
  | [] => True
  | x :: xs => (∀ y ∈ xs, lexLt x y = true) ∧ StrictSorted xs

theorem strictSorted_of (l : List Name) (hs : Sorted l) (hn : l.Nodup) : StrictSorted l := by
  induction l with
  | nil => trivial
  | cons x xs ih =>
    obtain ⟨hx, hs'⟩ := hs
    have hn' := List.nodup_cons.mp hn
    refine ⟨?_, ih hs' hn'.2⟩
    intro y hy
    cases h : lexLt x y with
    | true => rfl
    | false =>
      exfalso
      have := lexLt_total x y h (hx y hy)
      subst this
      exact hn'.1 hy

theorem isort_of_strictSorted (l : List Name) (h : StrictSorted l) : isort l = l := by
  induction l with
  | nil => rfl
  | cons x xs ih =>
    obtain ⟨hx, hs⟩ := h
    simp only [isort, ih hs]
    cases xs with
    | nil => rfl
    | cons y ys => simp [insertSorted, hx y (by simp)]

theorem nodup_insertSorted (x : Name) (l : List Name) (hx : x ∉ l) (hn : l.Nodup) : (insertSorted x l).Nodup := by
  induction l with
  | nil => simp [insertSorted]
  | cons y ys ih =>
    have hn' := List.nodup_cons.mp hn
    simp only [insertSorted]
    split
    · exact List.nodup_cons.mpr ⟨hx, hn⟩
    · refine List.nodup_cons.mpr ⟨?_, ih (fun h => hx (List.mem_cons_of_mem _ h)) hn'.2⟩
      intro hy
      rcases (mem_insertSorted x ys y).mp hy with h | h
      · exact hx (by simp [h])
      · exact hn'.1 h

theorem nodup_isort (l : List Name) (hn : l.Nodup) : (isort l).Nodup := by
  induction l with
  | nil => simp [isort]
  | cons x xs ih =>
    have hn' := List.nodup_cons.mp hn
    exact nodup_insertSorted x _ (fun h => hn'.1 ((mem_isort xs x).mp h)) (ih hn'.2)

theorem stem_no_dot (n : Name) (h : n.contains '.' = false) : stem n = n := by
  unfold stem; rw [h]; simp

theorem lookupKey_map_self (l : List Name) (k : Name) :
    lookupKey (l.map (fun n => (n, n))) k = if k ∈ l then some k else none := by
  induction l with
  | nil => simp [lookupKey]
  | cons x xs ih =>
    simp only [List.map_cons, lookupKey, ih]
    by_cases h : x = k
    · simp [h]
    · have : ¬ k = x := fun e => h e.symm
      simp [h, this]

theorem itemsLoop_no_dots (l : List Name) (acc : List Name) (w : Nat)
    (hdot : ∀ n ∈ l, n.contains '.' = false) (hn : l.Nodup) (hdis : ∀ n ∈ l, n ∉ acc) :
    itemsLoop l (acc.map (fun n => (n, n))) w = ((acc ++ l).map (fun n => (n, n)), w) := by
  induction l generalizing acc with
  | nil => simp [itemsLoop]
  | cons x xs ih =>
    have hn' := List.nodup_cons.mp hn
    have hx : lookupKey (acc.map (fun n => (n, n))) x = none := by
      rw [lookupKey_map_self]; simp [hdis x (by simp)]
    simp only [itemsLoop, stem_no_dot x (hdot x (by simp)), hx, Option.isSome_none]
    have : acc.map (fun n => (n, n)) ++ [(x, x)] = (acc ++ [x]).map (fun n => (n, n)) := by simp
    simp only [Bool.false_eq_true, if_false]
    rw [this, ih (acc ++ [x]) (fun n hn => hdot n (List.mem_cons_of_mem _ hn)) hn'.2]
    · simp
    · intro m hm hmem
      rcases List.mem_append.mp hmem with h | h
      · exact hdis m (List.mem_cons_of_mem _ hm) h
      · simp at h; subst h; exact hn'.1 hm

end Glotaran.C18
