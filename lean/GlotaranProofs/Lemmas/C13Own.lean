/-
C13 — (a) the alignment tables of a linked group place every global index of every dataset at exactly one aligned
value (from C09's theorems about C02's `alignAxes`), so the residual part of a linked group has one entry per data
point; (b) the own-order layout of the linked result datasets (`C03.linkedResultsOwn`, the code after fix D27) is a
column permutation of the legacy layout, so the sums of squares agree; (c) a dataset with a global model: the shape
condition on the global megacomplex matrices under which the full matrix has a row per data point.
-/
import GlotaranProofs.Lemmas.C13Linked
import GlotaranProofs.Lemmas.C02BijLinked
import GlotaranProofs.Props.C09
namespace Glotaran.C13
open Glotaran.LinAlg Glotaran.C02

/-! ### (a) tables of a linked group -/

/-- no aligned axis repeats a value when the first dataset's own axis does not (later datasets: the alignment
    refuses, `C09.injective_per_dataset_or_error`) -/
theorem aligned_rows_nodup_of_head (g : Group) (aligned : List (List Rat))
    (hal : alignAxes (g.datasets.map (·.globalAxis)) g.tol g.method = some aligned)
    (h0 : ∀ d, g.datasets.head? = some d → d.globalAxis.Nodup) : ∀ row ∈ aligned, row.Nodup := by
  rw [C09.c02_alignAxes_eq_c09'] at hal
  apply C09.aligned_rows_nodup g.tol (C09.ofC02 g.method) _ aligned hal
  intro ax hax
  rw [List.head?_map] at hax
  cases hh : g.datasets.head? with
  | none => rw [hh] at hax; cases hax
  | some ds =>
    rw [hh] at hax
    simp only [Option.map_some, Option.some.injEq] at hax
    exact hax ▸ h0 ds hh

/-- `TablesOK` from the hypothesis on the first dataset alone -/
theorem tablesOK_of_head (g : Group) (aligned : List (List Rat))
    (hal : alignAxes (g.datasets.map (·.globalAxis)) g.tol g.method = some aligned)
    (h0 : ∀ d, g.datasets.head? = some d → d.globalAxis.Nodup) :
    TablesOK g.datasets aligned (aligned.foldl sortedUnion []) := by
  have hlens := C03.alignAxes_lengths _ _ _ _ hal
  have hcount : aligned.length = g.datasets.length := by
    have := congrArg List.length hlens; simpa using this
  refine ⟨hcount, ?_, aligned_rows_nodup_of_head g aligned hal h0, alignedAxis_nodup aligned, ?_⟩
  · intro k h1 h2
    have := C03.length_getElem_of_map_length_eq _ _ hlens k h1 (by simpa using h2)
    simpa [Dataset.nGlobal] using this
  · intro al hal' v hv
    rw [C03.mem_foldl_sortedUnion]
    exact Or.inr ⟨al, hal', hv⟩

/-- the axis `linkedProblems` returns is the sorted union of the aligned axes -/
theorem linkedProblems_axis (mi : ModelItems) (g : Group) (aligned : List (List Rat)) (axis : List Rat)
    (ps : List IndexProblem)
    (hal : alignAxes (g.datasets.map (·.globalAxis)) g.tol g.method = some aligned)
    (hlp : linkedProblems mi g = some (axis, ps)) : axis = aligned.foldl sortedUnion [] := by
  unfold linkedProblems at hlp
  simp only [hal] at hlp
  split at hlp
  · cases hlp
  · simp only [Option.some.injEq, Prod.mk.injEq] at hlp
    exact hlp.1.symm

/-- a solved linked group has aligned axes and per-index problems -/
theorem linkedGroup_some (mi : ModelItems) (g : Group) (rp : Vec × Vec) (hl : g.linked = true)
    (h1 : groupPenaltyParts mi g = some rp) :
    ∃ aligned axis ps, alignAxes (g.datasets.map (·.globalAxis)) g.tol g.method = some aligned ∧
      linkedProblems mi g = some (axis, ps) := by
  unfold groupPenaltyParts at h1
  simp only [hl, if_true] at h1
  unfold linkedGroup at h1
  cases hlp : linkedProblems mi g with
  | none => simp [hlp] at h1
  | some ap =>
    obtain ⟨axis, ps⟩ := ap
    cases hal : alignAxes (g.datasets.map (·.globalAxis)) g.tol g.method with
    | none => unfold linkedProblems at hlp; simp [hal] at hlp
    | some aligned => exact ⟨aligned, axis, ps, rfl, rfl⟩

/-- **linked group: one residual entry per data point** -/
theorem linkedGroup_length_points (mi : ModelItems) (g : Group) (res pens : Vec)
    (hl : g.linked = true) (hwf : ∀ d ∈ g.datasets, d.WFWeak)
    (h0 : ∀ d, g.datasets.head? = some d → d.globalAxis.Nodup)
    (h1 : groupPenaltyParts mi g = some (res, pens)) :
    res.length = (g.datasets.map (fun d => d.nModel * d.nGlobal)).sum := by
  obtain ⟨aligned, axis, ps, hal, hlp⟩ := linkedGroup_some mi g (res, pens) hl h1
  rw [linkedGroup_length mi g res pens aligned axis ps hl hwf hal hlp h1]
  have hax := linkedProblems_axis mi g aligned axis ps hal hlp
  have T := tablesOK_of_head g aligned hal h0
  rw [← total_eq_points g.datasets aligned (aligned.foldl sortedUnion []) T, hax]
  unfold stackSizes
  rw [sum_stack_swap]

/-! ### (b) own-order layout = column permutation of the legacy layout -/

/-- the sum of squares of a matrix given by columns does not depend on the order of the columns
    (no condition on the columns' lengths) -/
theorem matSumSq_ofColumns_perm (n : Nat) (c1 c2 : List Vec) (h : c1.Perm c2) :
    matSumSq (C03.ofColumns n c1) = matSumSq (C03.ofColumns n c2) := by
  unfold matSumSq C03.ofColumns
  rw [sumOfSquares_flatten, sumOfSquares_flatten, List.map_map, List.map_map]
  congr 1
  apply List.map_congr_left
  intro m _
  simp only [Function.comp, sumOfSquares, List.map_map]
  exact (h.map _).sum_eq

/-- the two ways of collecting a dataset's columns (filtering the aligned axis by membership / looking up every own
    aligned value) yield the same pairs up to order, when neither axis repeats a value
    (an own value that is not on the aligned axis is skipped by both) -/
theorem hits_perm {β} (axis : List Rat) (sols : List β) (al : List Rat) (hax : axis.Nodup)
    (hal : al.Nodup) (hlen : axis.length ≤ sols.length) :
    ((axis.zip sols).filter (fun vs => al.contains vs.1)).Perm
      (al.filterMap (fun v => (axis.zip sols).find? (fun vs => vs.1 == v))) := by
  have hZ : ((axis.zip sols).map (·.1)).Nodup := by rw [List.map_fst_zip hlen]; exact hax
  have hZ' : (axis.zip sols).Nodup := List.Nodup.of_map _ hZ
  have hnd2 : (al.filterMap (fun v => (axis.zip sols).find? (fun vs => vs.1 == v))).Nodup := by
    apply List.Nodup.filterMap _ hal
    intro a a' b hb hb'
    have h1 := List.find?_some (Option.mem_def.mp hb)
    have h2 := List.find?_some (Option.mem_def.mp hb')
    simp only [beq_iff_eq] at h1 h2
    rw [← h1, ← h2]
  apply (List.perm_ext_iff_of_nodup (hZ'.filter _) hnd2).mpr
  intro e
  constructor
  · intro he
    obtain ⟨hm, hc⟩ := List.mem_filter.mp he
    have hc' : e.1 ∈ al := by simpa using hc
    refine List.mem_filterMap.mpr ⟨e.1, hc', ?_⟩
    cases hf : (axis.zip sols).find? (fun vs => vs.1 == e.1) with
    | none =>
      have := List.find?_eq_none.mp hf e hm
      simp at this
    | some e' =>
      have hm' := List.mem_of_find?_eq_some hf
      have hp := List.find?_some hf
      simp only [beq_iff_eq] at hp
      rw [List.inj_on_of_nodup_map hZ hm' hm hp]
  · intro he
    obtain ⟨v, hv, hf⟩ := List.mem_filterMap.mp he
    have hm := List.mem_of_find?_eq_some hf
    have hp := List.find?_some hf
    simp only [beq_iff_eq] at hp
    exact List.mem_filter.mpr ⟨hm, by simpa [hp] using hv⟩

/-- one member dataset: the legacy and the own-order result dataset have the same sum of squared weighted residuals -/
theorem linkedOne_own_sumsq (mi : ModelItems) (da : List (Dataset × List Rat)) (axis : List Rat)
    (sols : List (IndexProblem × (Vec × Vec))) (dk : Dataset × List Rat) (hax : axis.Nodup)
    (hal : dk.2.Nodup) (hlen : axis.length ≤ sols.length) :
    matSumSq (weightedResidual (C03.linkedOneOwn mi da axis sols dk)) =
      matSumSq (weightedResidual (C03.linkedOne mi da axis sols dk)) := by
  unfold C03.linkedOneOwn C03.linkedOne
  simp only [weightedResidual_finish]
  apply matSumSq_ofColumns_perm
  exact (((hits_perm axis sols dk.2 hax hal hlen).symm).map _).map _

/-- **linked group, own-order layout**: Σ residual part² = Σ_datasets Σ weighted_residual² for the result datasets of
    the repaired code (`C03.groupResultsOwn`) -/
theorem linkedGroup_sumsq_own (mi : ModelItems) (g : Group) (res pens : Vec) (rs : List C03.DsResult)
    (hl : g.linked = true) (hwf : ∀ d ∈ g.datasets, d.WFWeak)
    (hlab : (g.datasets.map (·.label)).Nodup)
    (h0 : ∀ d, g.datasets.head? = some d → d.globalAxis.Nodup)
    (h1 : groupPenaltyParts mi g = some (res, pens)) (h2 : C03.groupResultsOwn mi g = some rs) :
    sumOfSquares res = (rs.map (fun r => matSumSq (weightedResidual r))).sum := by
  obtain ⟨aligned, axis, ps, hal, hlp⟩ := linkedGroup_some mi g (res, pens) hl h1
  have hax := linkedProblems_axis mi g aligned axis ps hal hlp
  -- the legacy results exist as well and have the same sums
  unfold C03.groupResultsOwn at h2
  simp only [hl, if_true] at h2
  unfold C03.linkedResultsOwn at h2
  simp only [hal, hlp] at h2
  cases hsols : ps.mapM (fun p => (solveLS g.solver p.reduced.m p.data).map (fun cr => (p, cr))) with
  | none => simp [hsols] at h2
  | some sols =>
    simp only [hsols, Option.some.injEq] at h2
    have hleg : C03.groupResults mi g =
        some ((g.datasets.zip aligned).map (C03.linkedOne mi (g.datasets.zip aligned) axis sols)) := by
      unfold C03.groupResults
      simp only [hl, if_true]
      rw [C03.linkedResults_eq]
      simp only [hal, hlp, hsols]
    rw [linkedGroup_sumsq_wf mi g res pens _ hl hwf hlab h1 hleg, ← h2, List.map_map, List.map_map]
    congr 1
    apply List.map_congr_left
    intro dk hdk
    have hmem : dk.2 ∈ aligned := (List.of_mem_zip hdk).2
    have hslen : sols.length = ps.length := (C03.sols_getElem _ _ _ hsols).1
    have hpl : ps.length = axis.length := by
      have := congrArg List.length (linkedProblems_labels mi g axis ps hlp).1
      simpa using this
    simp only [Function.comp]
    symm
    apply linkedOne_own_sumsq
    · rw [hax]; exact alignedAxis_nodup aligned
    · exact aligned_rows_nodup_of_head g aligned hal h0 dk.2 hmem
    · omega

/-! ### (c) a dataset with a global model: the full matrix has a row per data point -/

/-- index independent with at least `n` rows -/
def IsD2 (n : Nat) : Body → Prop
  | .d2 m => n ≤ m.length
  | .d3 _ => False

/-- **shape condition on the global megacomplexes**: every global megacomplex matrix is index independent and has
    (at least) one row per point of the global axis (the global axis is its model axis) -/
def GlobalOK (d : Dataset) : Prop := ∀ o ∈ d.gmcs, IsD2 d.nGlobal o.out.body

open Glotaran.C02.Length in
theorem isD2_scaled (n : Nat) (o : McOut) (h : IsD2 n o.out.body) : IsD2 n o.scaled.body := by
  unfold McOut.scaled
  split
  · cases hb : o.out.body with
    | d2 m => rw [hb] at h; simpa [Body.scale, IsD2, rows_mscale] using h
    | d3 ms => rw [hb] at h; exact h.elim
  · exact h

open Glotaran.C02.Length in
theorem isD2_combine (n : Nat) (l r : LMat) (hl : IsD2 n l.body) (hr : IsD2 n r.body) :
    IsD2 n (combine l r).body := by
  obtain ⟨ll, lb⟩ := l
  obtain ⟨rl, rb⟩ := r
  cases lb with
  | d3 _ => exact hl.elim
  | d2 a =>
    cases rb with
    | d3 _ => exact hr.elim
    | d2 b => simpa [combine, IsD2, rows_combine2] using hl

theorem isD2_datasetMatrix (n : Nat) (mcs : List McOut) (lm : LMat)
    (hm : ∀ o ∈ mcs, IsD2 n o.out.body) (h : datasetMatrix mcs = some lm) : IsD2 n lm.body := by
  cases mcs with
  | nil => simp [datasetMatrix] at h
  | cons m rest =>
    simp only [datasetMatrix, Option.some.injEq] at h
    subst h
    have key : ∀ (rest : List McOut) (acc : LMat), IsD2 n acc.body → (∀ o ∈ rest, IsD2 n o.out.body) →
        IsD2 n (rest.foldl (fun acc o => combine acc o.scaled) acc).body := by
      intro rest
      induction rest with
      | nil => intro acc h _; exact h
      | cons o rest ih =>
        intro acc h hr
        simp only [List.foldl_cons]
        apply ih
        · exact isD2_combine n _ _ h (isD2_scaled n o (hr o List.mem_cons_self))
        · intro o' ho'; exact hr o' (List.mem_cons_of_mem _ ho')
    exact key rest _ (isD2_scaled n m (hm m List.mem_cons_self))
      (fun o ho => hm o (List.mem_cons_of_mem _ ho))

/-- **the combined global matrix `datasetMatrix d.gmcs` is 2-D with a row per global index** -/
theorem globalMatrix_shape (d : Dataset) (gm : LMat) (hG : GlobalOK d) (h : datasetMatrix d.gmcs = some gm) :
    ∃ G, gm.body = .d2 G ∧ d.nGlobal ≤ G.length := by
  have := isD2_datasetMatrix d.nGlobal d.gmcs gm hG h
  cases hb : gm.body with
  | d2 G => rw [hb] at this; exact ⟨G, rfl, this⟩
  | d3 _ => rw [hb] at this; exact this.elim

theorem mul_le_sum_of_le (k n : Nat) : ∀ (l : List Nat), k ≤ l.length → (∀ x ∈ l, n ≤ x) → k * n ≤ l.sum := by
  induction k with
  | zero => intro l _ _; simp
  | succ k ih =>
    intro l hl hx
    cases l with
    | nil => simp at hl
    | cons a l =>
      have h1 := hx a List.mem_cons_self
      have h2 := ih l (by simpa using hl) (fun x hx' => hx x (List.mem_cons_of_mem _ hx'))
      simp only [List.sum_cons, Nat.succ_mul]
      omega

theorem length_kronRow (g : Vec) (m : Mat) : (kronRow g m).length = m.length := by simp [kronRow]

open Glotaran.C02.Length in
/-- **full model: the flattened data has one entry per data point and the full matrix at least as many rows** —
    for a shape-consistent dataset whose global megacomplexes satisfy `GlobalOK` -/
theorem fullModelProblem_rows (d : Dataset) (a : Mat) (y : Vec) (hwf : d.WFWeak) (hG : GlobalOK d)
    (h : fullModelProblem d = some (a, y)) : y.length = d.nModel * d.nGlobal ∧ y.length ≤ a.length := by
  unfold fullModelProblem at h
  cases hlm : datasetMatrix d.mcs with
  | none => simp [hlm] at h
  | some lm =>
    cases hgm : datasetMatrix d.gmcs with
    | none => simp [hlm, hgm] at h
    | some gm =>
      obtain ⟨G, hGb, hGl⟩ := globalMatrix_shape d gm hG hgm
      have hbody : BodyOK d.nModel d.nGlobal lm.body :=
        bodyOK_datasetMatrix _ _ _ _ (wfWeak_bodyOK d hwf) hlm
      -- rows of the un-weighted full matrix, for either kind of model matrix
      obtain ⟨full, hfull, hfa⟩ : ∃ full : Mat, d.nModel * d.nGlobal ≤ full.length ∧
          some (a, y) = some ((match d.weight with
            | some w => weightRows full ((List.range d.nGlobal).flatMap (fun g => col w g))
            | none => full), (List.range d.nGlobal).flatMap (fun g => col d.weightedData g)) := by
        cases hb : lm.body with
        | d2 m =>
          rw [hb] at hbody
          refine ⟨G.flatMap (fun grow => kronRow grow m), ?_, ?_⟩
          · simp only [List.length_flatMap, length_kronRow, sum_map_const]
            have : d.nModel ≤ m.length := hbody
            calc d.nModel * d.nGlobal ≤ m.length * G.length := Nat.mul_le_mul this hGl
              _ = G.length * m.length := Nat.mul_comm _ _
          · simp only [hlm, hgm, hGb, hb] at h
            exact h.symm
        | d3 ms =>
          rw [hb] at hbody
          obtain ⟨hb1, hb2⟩ := hbody
          refine ⟨(List.zipWith (fun grow m => kronRow grow m) G ms).flatten, ?_, ?_⟩
          · simp only [List.length_flatten]
            rw [Nat.mul_comm]
            apply mul_le_sum_of_le
            · simp only [List.length_map, List.length_zipWith]; omega
            · intro x hx
              obtain ⟨c, hc, rfl⟩ := List.mem_map.mp hx
              obtain ⟨grow, _, m, hm, rfl⟩ := mem_zipWith_exists _ _ _ _ hc
              rw [length_kronRow]
              exact hb2 m hm
          · simp only [hlm, hgm, hGb, hb] at h
            exact h.symm
      simp only [Option.some.injEq, Prod.mk.injEq] at hfa
      obtain ⟨ha, hy⟩ := hfa
      have hylen : y.length = d.nModel * d.nGlobal := by
        rw [hy, List.length_flatMap]
        simp only [len_col, rows_weightedData d hwf]
        simp [Nat.mul_comm]
      refine ⟨hylen, ?_⟩
      rw [hylen, ha]
      cases hw : d.weight with
      | none => exact hfull
      | some w =>
        simp only [rows_weightRows]
        have hwl : d.nModel * d.nGlobal ≤ ((List.range d.nGlobal).flatMap (fun g => col w g)).length := by
          rw [List.length_flatMap]
          simp only [len_col]
          have := hwf.1 w hw
          simp only [sum_map_const, List.length_range]
          rw [Nat.mul_comm]
          exact Nat.mul_le_mul (Nat.le_refl _) this
        exact Nat.le_min.mpr ⟨hfull, hwl⟩

/-- the residual block of a dataset with a global model has one entry per data point -/
theorem fullDataset_length (mi : ModelItems) (s : Solver) (d : Dataset) (rp : Vec × Vec)
    (hg : d.gmcs ≠ []) (hwf : d.WFWeak) (hG : GlobalOK d) (h : unlinkedDataset mi s d = some rp) :
    rp.1.length = d.nModel * d.nGlobal := by
  have hne : d.gmcs.isEmpty = false := by
    cases hd : d.gmcs with
    | nil => exact absurd hd hg
    | cons _ _ => rfl
  unfold unlinkedDataset at h
  simp only [hne, Bool.not_false, if_true] at h
  cases hfp : fullModelProblem d with
  | none => simp [hfp] at h
  | some ay =>
    obtain ⟨a, y⟩ := ay
    simp only [hfp] at h
    cases hsol : solveLS s a y with
    | none => simp [hsol] at h
    | some cr =>
      simp only [hsol, Option.map_some, Option.some.injEq] at h
      subst h
      have := Length.len_solveLS _ _ _ _ hsol
      obtain ⟨h1, h2⟩ := fullModelProblem_rows d a y hwf hG hfp
      simp only
      omega

/-- any dataset of an unlinked group: one residual entry per data point -/
theorem anyDataset_length (mi : ModelItems) (s : Solver) (d : Dataset) (rp : Vec × Vec)
    (hwf : d.WFWeak) (hG : GlobalOK d) (h : unlinkedDataset mi s d = some rp) :
    rp.1.length = d.nModel * d.nGlobal := by
  by_cases hg : d.gmcs = []
  · exact Length.unlinkedDataset_length mi s d rp hg hwf h
  · exact fullDataset_length mi s d rp hg hwf hG h

/-- **unlinked group, datasets with or without global model: one residual entry per data point** -/
theorem unlinkedGroup_length_all (mi : ModelItems) (g : Group) (res pens : Vec)
    (hl : g.linked = false) (hwf : ∀ d ∈ g.datasets, d.WFWeak) (hG : ∀ d ∈ g.datasets, GlobalOK d)
    (h : groupPenaltyParts mi g = some (res, pens)) :
    res.length = (g.datasets.map (fun d => d.nModel * d.nGlobal)).sum := by
  unfold groupPenaltyParts at h
  simp only [hl, Bool.false_eq_true, if_false] at h
  cases hparts : g.datasets.mapM (unlinkedDataset mi g.solver) with
  | none => simp [hparts] at h
  | some parts =>
    simp only [hparts, Option.map_some, Option.some.injEq, Prod.mk.injEq] at h
    obtain ⟨rfl, _⟩ := h
    have hmap := Length.mapM_option_map_eq _ (fun rp : Vec × Vec => rp.1.length)
      (fun d : Dataset => d.nModel * d.nGlobal) g.datasets parts hparts
      (fun d hd rp hrp => anyDataset_length mi g.solver d rp (hwf d hd) (hG d hd) hrp)
    simp only [List.length_flatMap, hmap]

/-- **unlinked group, datasets with or without global model**: Σ residual part² = Σ_datasets Σ weighted_residual² -/
theorem unlinkedGroup_sumsq_global (mi : ModelItems) (g : Group) (res pens : Vec) (rs : List C03.DsResult)
    (hl : g.linked = false) (hwf : ∀ d ∈ g.datasets, d.WFWeak) (hG : ∀ d ∈ g.datasets, GlobalOK d)
    (h1 : groupPenaltyParts mi g = some (res, pens)) (h2 : C03.groupResults mi g = some rs) :
    sumOfSquares res = (rs.map (fun r => matSumSq (weightedResidual r))).sum :=
  unlinkedGroup_sumsq_all mi g res pens rs hl hwf
    (fun d hd _ a y hfp => (fullModelProblem_rows d a y (hwf d hd) (hG d hd) hfp).2) h1 h2

/-! ### (d) linked group: the stacked label list of an aligned value is the union of its members' labels -/

/-- the clp labels of a dataset's combined matrix -/
def ownLabels (d : Dataset) : List String :=
  match datasetMatrix d.mcs with
  | some lm => lm.labels
  | none => []

/-- union (first occurrence order) of the clp labels of the datasets that have a global index aligned to `v` -/
def memberLabelsAt (ds : List Dataset) (aligned : List (List Rat)) (v : Rat) : List String :=
  unionLabels (((ds.zip aligned).filter (fun e => e.2.contains v)).map (fun e => ownLabels e.1))

theorem alignMatrices_labels_all (bs : List (LMat2 × Rat)) :
    (alignMatrices bs).labels = unionLabels (bs.map (·.1.labels)) := by
  match bs with
  | [] => simp [alignMatrices]
  | [b] => simp [alignMatrices, unionLabels]
  | b1 :: b2 :: rest => exact alignMatrices_labels _ (by simp)

open Glotaran.C02.Length in
theorem linkedProblems_fullLabels_union (mi : ModelItems) (g : Group) (aligned : List (List Rat)) (axis : List Rat)
    (ps : List IndexProblem) (hwf : ∀ d ∈ g.datasets, d.WFWeak)
    (hal : alignAxes (g.datasets.map (·.globalAxis)) g.tol g.method = some aligned)
    (h : linkedProblems mi g = some (axis, ps)) :
    ∀ p ∈ ps, p.fullLabels = memberLabelsAt g.datasets aligned p.x := by
  unfold linkedProblems at h
  simp only [hal] at h
  split at h
  · cases h
  · rename_i dms hdms
    simp only [Option.some.injEq, Prod.mk.injEq] at h
    obtain ⟨_, rfl⟩ := h
    intro p hp
    simp only [List.mem_map] at hp
    obtain ⟨v, _, rfl⟩ := hp
    simp only
    have hfst : dms.map (·.1) = g.datasets := mapM_pair_fst (fun d => datasetMatrix d.mcs) g.datasets dms hdms
    have hlens := alignAxes_lengths _ _ _ _ hal
    have hzl : ∀ e ∈ dms.zip aligned, e.2.length = e.1.1.nGlobal := by
      apply zip_lengths dms (fun dl => dl.1.nGlobal) aligned
      rw [hlens, ← hfst, List.map_map, List.map_map]; rfl
    have hall := mapM_option_forall (fun d : Dataset => (datasetMatrix d.mcs).map (fun lm => (d, lm)))
      (fun dl : Dataset × LMat => datasetMatrix dl.1.mcs = some dl.2) g.datasets dms hdms (by
        intro d _ dl hdl
        obtain ⟨lm, hlm, rfl⟩ := Option.map_eq_some_iff.mp hdl
        exact hlm)
    rw [alignMatrices_labels_all, List.map_map]
    unfold memberLabelsAt
    congr 1
    -- the labels of every member's slice are the labels of its dataset's combined matrix
    have hslice : ∀ di ∈ (dms.zip aligned).filterMap (fun da => (da.2.idxOf? v).map (fun i => (da.1, i))),
        ((fun (b : LMat2 × Rat) => b.1.labels) ∘
          (fun (di : (Dataset × LMat) × Nat) => ((slices di.1.2 di.1.1.nGlobal).getD di.2 default, di.1.1.scale.getD 1))) di =
          di.1.2.labels := by
      intro di hdi
      obtain ⟨da, hda, hdi'⟩ := List.mem_filterMap.mp hdi
      obtain ⟨i, hi, rfl⟩ := Option.map_eq_some_iff.mp hdi'
      have hin : da.1 ∈ dms := (List.of_mem_zip hda).1
      have hd : da.1.1 ∈ g.datasets := by rw [← hfst]; exact List.mem_map.mpr ⟨da.1, hin, rfl⟩
      have hlt : i < da.1.1.nGlobal := by
        have := (List.idxOf?_eq_some_iff.mp hi).1
        rw [hzl da hda] at this
        exact this
      have hbody : BodyOK da.1.1.nModel da.1.1.nGlobal da.1.2.body :=
        bodyOK_datasetMatrix _ _ _ _ (wfWeak_bodyOK _ (hwf _ hd)) (hall da.1 hin)
      simp only [Function.comp]
      exact slices_getD_labels _ _ _ hbody i hlt
    rw [List.map_congr_left hslice]
    rw [filterMap_idxOf_map (dms.zip aligned) v (fun dl : Dataset × LMat => dl.2.labels)]
    -- replace `dms` by the datasets
    have hz : (dms.zip aligned).map (fun e => (e.1.1, e.2)) = g.datasets.zip aligned := by
      rw [← hfst, List.zip_map_left]
      rfl
    rw [← hz, List.filter_map, List.map_map]
    apply List.map_congr_left
    intro e he
    have hin : e.1 ∈ dms := (List.of_mem_zip (List.mem_filter.mp he).1).1
    simp only [Function.comp, ownLabels, hall e.1 hin]

end Glotaran.C13
