/-
C04 — the driver computes over `ℚ`, the analytic theorems are over `ℝ`: the model's functions commute
with the cast, and the Boolean certificates are the entrywise equations.
-/
import GlotaranProofs.Lemmas.C04Bridge
import Mathlib.Data.Rat.BigOperators
import GlotaranProofs.Lemmas.C04Dict
namespace Glotaran.C04

def castFn2 (f : ℕ → ℕ → ℚ) : ℕ → ℕ → ℝ := fun i j => (f i j : ℝ)
def castFn (f : ℕ → ℚ) : ℕ → ℝ := fun i => (f i : ℝ)

/-- denotation of a term with rational entries (what the driver prints) -/
noncomputable def evalTermQ (t : List (ℚ × ℚ)) : ℝ :=
  evalTerm (t.map fun (p : ℚ × ℚ) => ((p.1 : ℝ), (p.2 : ℝ)))

theorem listFn_cast (xs : List ℚ) (i : ℕ) :
    listFn (xs.map (Rat.cast : ℚ → ℝ)) i = ((listFn xs i : ℚ) : ℝ) := by
  simp only [listFn, List.getD_eq_getElem?_getD, List.getElem?_map]
  cases xs[i]? <;> simp

theorem matMulAt_cast (n : ℕ) (A B : ℕ → ℕ → ℚ) (i j : ℕ) :
    matMulAt n (castFn2 A) (castFn2 B) i j = ((matMulAt n A B i j : ℚ) : ℝ) := by
  simp [matMulAt_eq, castFn2]

theorem mulVecAt_cast (n : ℕ) (A : ℕ → ℕ → ℚ) (v : ℕ → ℚ) (i : ℕ) :
    mulVecAt n (castFn2 A) (castFn v) i = ((mulVecAt n A v i : ℚ) : ℝ) := by
  simp [mulVecAt_eq, castFn2, castFn]

theorem aGeneralAt_cast (V : ℕ → ℕ → ℚ) (g : ℕ → ℚ) :
    castFn2 (aGeneralAt V g) = aGeneralAt (castFn2 V) (castFn g) := by
  funext l c
  simp [castFn2, castFn, aGeneralAt]

theorem concTerm_cast (rs : List ℚ) (A : ℕ → ℕ → ℚ) (t : ℚ) (c : ℕ) :
    (concTerm rs A t c).map (fun (p : ℚ × ℚ) => ((p.1 : ℝ), (p.2 : ℝ)))
      = concTerm (rs.map (Rat.cast : ℚ → ℝ)) (castFn2 A) (t : ℝ) c := by
  simp only [concTerm, List.map_map, List.length_map]
  apply List.map_congr_left
  intro l _
  simp [castFn2, listFn_cast]

theorem eigenCert_iff {F : Type} [Field F] [DecidableEq F] (n : ℕ) (K V : ℕ → ℕ → F) (lam : ℕ → F) :
    eigenCert n K V lam = true ↔ ∀ i < n, ∀ j < n, matMulAt n K V i j = V i j * lam j := by
  simp [eigenCert, List.all_eq_true]

theorem solveCert_iff {F : Type} [Field F] [DecidableEq F] (n : ℕ) (V : ℕ → ℕ → F) (g j : ℕ → F) :
    solveCert n V g j = true ↔ ∀ i < n, mulVecAt n V g i = j i := by
  simp [solveCert, List.all_eq_true]

end Glotaran.C04
