/-
C03 — the interpretation of the regenerated result-assembly tables (GlotaranModel/Generated/C03Steps.lean)
equals the hand-written result model.
-/
import GlotaranModel.Generated.C03Steps
import GlotaranProofs.Lemmas.C03Legacy
import GlotaranProofs.Lemmas.C03Argsort
namespace Glotaran.C03.Steps
open Glotaran.LinAlg Glotaran.C02 Glotaran.C03

/-- `create_result_data` + `add_weight_to_result_data` as regenerated: for a dataset stored in either dimension
    order, with or without a weight, with its own weight variable or a model weight, the assembled variables are
    those of `finish` -/
theorem assemble_generated (stored : Orient) (ownW : Bool) (d : Dataset) (est : EstOut)
    (hmg : est.residualOrient = .mg) :
    assemble Generated.createStmts Generated.addWeightStmts stored ownW d est =
      some ⟨finish d est.clpLabels est.clps est.residual, d.weight, some (d.scale.getD 1)⟩ := by
  cases hw : d.weight <;> cases stored <;> cases ownW <;> cases hg : d.gmcs.isEmpty <;>
    simp [assemble, Generated.createStmts, Generated.addWeightStmts, runStmts, guardsHold, guardHolds, stepAct,
      evalDE, setV, lookupS, readBack, matOf, binop, finish, hw, hg, hmg]


theorem assemble_generated_mk (stored : Orient) (ownW : Bool) (d : Dataset) (labels : List String) (clps : List Vec)
    (res : Mat) :
    assemble Generated.createStmts Generated.addWeightStmts stored ownW d ⟨labels, clps, .mg, res⟩ =
      some ⟨finish d labels clps res, d.weight, some (d.scale.getD 1)⟩ :=
  assemble_generated stored ownW d ⟨labels, clps, .mg, res⟩ rfl

theorem unlinkedOut_full (nM nG : Nat) (labels glabels : List String) (r c : Vec) :
    unlinkedOut Generated.unlinkedTable true
      { nModel := nM, nGlobal := nG, clpLabels := labels, globalClpLabels := glabels,
        residuals := .flat r, clps := .flat c } =
      some ⟨labels, chunk labels.length glabels.length c, .mg, ofColumns nM (chunk nM nG r)⟩ := by
  rfl

theorem unlinkedOut_plain (nM nG w : Nat) (labels : List String) (rs cs : List Vec) :
    unlinkedOut Generated.unlinkedTable false
      { nModel := nM, nGlobal := nG, clpLabels := labels, globalClpLabels := [],
        residuals := .list nM rs, clps := .list w cs } =
      some ⟨labels, cs, .mg, ofColumns nM rs⟩ := by
  rfl

/-- the regenerated unlinked path (get_result → create_result_data) for one dataset, with or without a global
    model: the variables of `unlinkedResult`, the dataset's weight as `weight` variable, its scale as attribute -/
theorem genUnlinked_generated (stored : Orient) (ownW : Bool) (mi : ModelItems) (s : Solver) (d : Dataset) :
    genUnlinked Generated.tables stored ownW mi s d =
      (unlinkedResult mi s d).map (fun r => ⟨r, d.weight, some (d.scale.getD 1)⟩) := by
  unfold genUnlinked unlinkedCtx unlinkedResult
  cases hg : d.gmcs.isEmpty
  · simp only [Bool.not_false, if_true]
    cases fullModelProblem d with
    | none => rfl
    | some ay =>
      cases datasetMatrix d.mcs with
      | none => rfl
      | some lm =>
        cases datasetMatrix d.gmcs with
        | none => rfl
        | some gm =>
          obtain ⟨a, y⟩ := ay
          simp only []
          cases solveLS s a y with
          | none => rfl
          | some cr =>
            simp only [Option.map_some, Generated.tables, unlinkedOut_full, Option.bind_some, assemble_generated_mk]
  · simp only [Bool.not_true, Bool.false_eq_true, if_false]
    cases unlinkedProblems mi d with
    | none => rfl
    | some ps =>
      simp only []
      cases ps.mapM (fun p => (solveLS s p.reduced.m p.data).map (fun cr => (p, cr))) with
      | none => rfl
      | some sols =>
        simp only [Option.map_some, Generated.tables, unlinkedOut_plain, Option.bind_some, assemble_generated_mk, ownLabels]
        rfl


/-! ### the linked provider -/

theorem mapOpt_some {α β} (f : α → β) (l : List α) : mapOpt (fun x => some (f x)) l = some (l.map f) := by
  induction l with
  | nil => rfl
  | cons a l ih => simp [mapOpt, ih]

theorem mapOpt_congr_some {α β} (f : α → Option β) (g : α → β) (l : List α) (h : ∀ a ∈ l, f a = some (g a)) :
    mapOpt f l = some (l.map g) := by
  induction l with
  | nil => rfl
  | cons a l ih =>
    simp [mapOpt, h a List.mem_cons_self, ih (fun b hb => h b (List.mem_cons_of_mem _ hb))]

theorem mapOpt_eq_mapM {α β} (f : α → Option β) (l : List α) : mapOpt f l = l.mapM f := by
  induction l with
  | nil => rfl
  | cons a l ih =>
    simp only [mapOpt, List.mapM_cons, ih]
    cases f a <;> cases l.mapM f <;> rfl

/-- the clp vector `get_result` reports for the dataset at one aligned index: picked by label -/
def clpOf (c : LinkCtx) (vs : Rat × IndexProblem × (Vec × Vec)) : Vec :=
  let p := vs.2.1
  let full := retrieveClps c.mi p.fullLabels p.reduced.labels vs.2.2.1 p.x
  (ownLabels c.dk.1).map (fun l => match p.fullLabels.idxOf? l with | some j => full.getD j 0 | none => 0)

/-- the dataset's block of the stacked residual of one aligned index -/
def resOf (c : LinkCtx) (vs : Rat × IndexProblem × (Vec × Vec)) : Vec :=
  let before := (c.da.takeWhile (fun e => e.1.label != c.dk.1.label)).filter (fun e => e.2.contains vs.1)
  let start := (before.map (fun e => e.1.nModel)).foldl (· + ·) 0
  (vs.2.2.2.drop start).take c.dk.1.nModel

/-- `EstimationProviderLinked.get_result` as regenerated, for one dataset: the parts of the aligned indices the
    dataset belongs to (in aligned-axis order), re-ordered by the argsort of the dataset's own global indices -/
theorem linkedOut_generated (c : LinkCtx) :
    linkedOut Generated.linkedTable c =
      some ⟨ownLabels c.dk.1,
        pickOrder (argsort (((c.axis.zip c.sols).filter (fun vs => c.dk.2.contains vs.1)).map (fun vs => c.dk.2.idxOf vs.1)))
          (((c.axis.zip c.sols).filter (fun vs => c.dk.2.contains vs.1)).map (clpOf c)),
        .mg, ofColumns c.dk.1.nModel
          (pickOrder (argsort (((c.axis.zip c.sols).filter (fun vs => c.dk.2.contains vs.1)).map (fun vs => c.dk.2.idxOf vs.1)))
            (((c.axis.zip c.sols).filter (fun vs => c.dk.2.contains vs.1)).map (resOf c)))⟩ := by
  have hk : mapOpt (fun vs => evalKey c vs .thisOwnIndex) ((c.axis.zip c.sols).filter (fun vs => c.dk.2.contains vs.1)) = _ :=
    mapOpt_some (fun (vs : Rat × IndexProblem × (Vec × Vec)) => c.dk.2.idxOf vs.1) _
  have hc : mapOpt (fun vs => evalVec c vs .clpsByLabel) ((c.axis.zip c.sols).filter (fun vs => c.dk.2.contains vs.1)) = _ :=
    mapOpt_some (clpOf c) _
  have hr : mapOpt (fun vs => evalVec c vs (.residualSlice .sumModelSizesBefore (.plusOwnModelSize .sumModelSizesBefore)))
      ((c.axis.zip c.sols).filter (fun vs => c.dk.2.contains vs.1)) = some (_ : List Vec) :=
    mapOpt_congr_some _ (resOf c) _ (by
      intro vs _
      simp only [evalVec, evalOff, Option.map_some, resOf, Nat.add_sub_cancel_left])
  simp only [linkedOut, Generated.linkedTable, Bool.not_true, Bool.false_eq_true, if_false, collectKeys, collectVecs,
    hk, hc, hr]
  rfl


/-- one member dataset of a linked group: the regenerated `get_result` + `create_result_data` give the variables
    of `linkedOneOwn` (the dataset's own global index order) -/
theorem genLinkedOne_generated (stored : Orient) (ownW : Bool) (c : LinkCtx)
    (hax : c.axis.Pairwise (· < ·)) (hal : c.dk.2.Nodup) (hsub : ∀ v ∈ c.dk.2, v ∈ c.axis)
    (hlen : c.axis.length ≤ c.sols.length) :
    genLinkedOne Generated.tables stored ownW c =
      some ⟨linkedOneOwn c.mi c.da c.axis c.sols c.dk, c.dk.1.weight, some (c.dk.1.scale.getD 1)⟩ := by
  unfold genLinkedOne
  simp only [Generated.tables, linkedOut_generated, Option.bind_some, assemble_generated_mk]
  rw [pickOrder_argsort_map, pickOrder_argsort_map, pickOrder_argsort_hits _ _ _ hax hal hsub hlen]
  unfold linkedOneOwn
  simp only [List.map_map, ownLabels]
  rfl


/-- what a linked group reports, dataset by dataset, in the form of the model plus weight variable and scale -/
def linkedAssembled (mi : ModelItems) (g : Group) : Option (List Assembled) :=
  match alignAxes (g.datasets.map (·.globalAxis)) g.tol g.method, linkedProblems mi g with
  | some aligned, some (axis, ps) =>
    match ps.mapM (fun p => (solveLS g.solver p.reduced.m p.data).map (fun cr => (p, cr))) with
    | none => none
    | some sols =>
      some ((g.datasets.zip aligned).map (fun dk =>
        ⟨linkedOneOwn mi (g.datasets.zip aligned) axis sols dk, dk.1.weight, some (dk.1.scale.getD 1)⟩))
  | _, _ => none

theorem linkedAssembled_result (mi : ModelItems) (g : Group) :
    (linkedAssembled mi g).map (List.map (·.result)) = linkedResultsOwn mi g := by
  unfold linkedAssembled linkedResultsOwn
  cases alignAxes (g.datasets.map (·.globalAxis)) g.tol g.method with
  | none => rfl
  | some aligned =>
    cases linkedProblems mi g with
    | none => rfl
    | some ap =>
      obtain ⟨axis, ps⟩ := ap
      simp only []
      cases ps.mapM (fun p => (solveLS g.solver p.reduced.m p.data).map (fun cr => (p, cr))) with
      | none => rfl
      | some sols => simp [List.map_map, Function.comp_def]

theorem genLinked_generated (stored : String → Orient) (ownW : String → Bool) (mi : ModelItems) (g : Group)
    (hnodup : ∀ aligned, alignAxes (g.datasets.map (·.globalAxis)) g.tol g.method = some aligned →
      ∀ al ∈ aligned, al.Nodup) :
    genLinked Generated.tables stored ownW mi g = linkedAssembled mi g := by
  unfold genLinked linkedAssembled
  have hlp := linkedProblems_eq mi g
  cases hal : alignAxes (g.datasets.map (·.globalAxis)) g.tol g.method with
  | none => rfl
  | some aligned =>
    rw [hal] at hlp
    cases hdms : g.datasets.mapM (fun d => (datasetMatrix d.mcs).map (fun lm => (d, lm))) with
    | none => rw [hdms] at hlp; rw [hlp]
    | some dms =>
      rw [hdms] at hlp
      simp only at hlp
      rw [hlp]
      simp only
      cases hsols : ((aligned.foldl sortedUnion []).map (fun v =>
          problemAt mi (g.datasets.any (·.weight.isSome)) (membersOf dms aligned v) v)).mapM
          (fun (p : IndexProblem) => (solveLS g.solver p.reduced.m p.data).map (fun cr => (p, cr))) with
      | none => rfl
      | some sols =>
        simp only []
        have hslen := (sols_getElem _ _ _ hsols).1
        apply mapOpt_congr_some
        intro dk hdk
        have hal_mem : dk.2 ∈ aligned := (List.of_mem_zip hdk).2
        exact genLinkedOne_generated (stored dk.1.label) (ownW dk.1.label)
          ⟨mi, g.datasets.zip aligned, aligned.foldl sortedUnion [], sols, dk⟩
          (alignedAxis_sorted aligned) (hnodup aligned hal dk.2 hal_mem)
          (fun v hv => (mem_foldl_sortedUnion aligned [] v).mpr (Or.inr ⟨dk.2, hal_mem, hv⟩))
          (by rw [hslen]; simp)


/-! ### groups and the optimizer's loop -/

theorem mapOpt_map_result {α} (u : α → Option DsResult) (F : α → DsResult → Assembled)
    (hF : ∀ a r, (F a r).result = r) (l : List α) :
    (mapOpt (fun a => (u a).map (F a)) l).map (List.map (·.result)) = mapOpt u l := by
  induction l with
  | nil => rfl
  | cons a l ih =>
    simp only [mapOpt]
    cases hu : u a with
    | none => rfl
    | some r =>
      rw [← ih]
      cases mapOpt (fun a => (u a).map (F a)) l with
      | none => rfl
      | some rs => simp [hF]

theorem genGroup_generated (stored : String → Orient) (ownW : String → Bool) (mi : ModelItems) (g : Group)
    (haxes : g.linked = true → ∀ d ∈ g.datasets, d.globalAxis.Nodup) :
    (genGroup Generated.tables stored ownW mi g).map (List.map (·.result)) = groupResultsOwn mi g := by
  unfold genGroup groupResultsOwn
  cases hl : g.linked with
  | true =>
    simp only [if_true]
    rw [genLinked_generated stored ownW mi g (fun aligned hal =>
      alignAxes_nodup _ _ _ aligned hal (by
        intro a ha
        obtain ⟨d, hd, rfl⟩ := List.mem_map.mp ha
        exact haxes hl d hd)), linkedAssembled_result]
  | false =>
    simp only [Bool.false_eq_true, if_false]
    have : (fun d => genUnlinked Generated.tables (stored d.label) (ownW d.label) mi g.solver d) =
        (fun d => (unlinkedResult mi g.solver d).map (fun r => ⟨r, d.weight, some (d.scale.getD 1)⟩)) := by
      funext d; exact genUnlinked_generated _ _ mi g.solver d
    rw [this, mapOpt_map_result (unlinkedResult mi g.solver) (fun d r => ⟨r, d.weight, some (d.scale.getD 1)⟩)
      (fun _ _ => rfl), mapOpt_eq_mapM]

theorem mapOpt_map_flatten {α} (f : α → Option (List Assembled)) (u : α → Option (List DsResult)) (l : List α)
    (h : ∀ a ∈ l, (f a).map (List.map (·.result)) = u a) :
    ((mapOpt f l).map List.flatten).map (List.map (·.result)) = (mapOpt u l).map List.flatten := by
  induction l with
  | nil => rfl
  | cons a l ih =>
    have ha := h a List.mem_cons_self
    have ih' := ih (fun b hb => h b (List.mem_cons_of_mem _ hb))
    simp only [mapOpt]
    rw [← ha]
    cases f a with
    | none => rfl
    | some x =>
      cases hm : mapOpt f l with
      | none =>
        rw [hm] at ih'
        cases hu : mapOpt u l with
        | none => rfl
        | some ys => rw [hu] at ih'; cases ih'
      | some xs =>
        rw [hm] at ih'
        cases hu : mapOpt u l with
        | none => rw [hu] at ih'; cases ih'
        | some ys =>
          rw [hu] at ih'
          simp only [Option.map_some, Option.some.injEq] at ih' ⊢
          simp [ih']

theorem genResults_generated (stored : String → Orient) (ownW : String → Bool) (mi : ModelItems) (gs : List Group)
    (haxes : ∀ g ∈ gs, g.linked = true → ∀ d ∈ g.datasets, d.globalAxis.Nodup) :
    (genResults Generated.tables stored ownW mi gs).map (List.map (·.result)) = resultsOwn mi gs := by
  unfold genResults resultsOwn
  rw [if_pos (by decide)]
  rw [mapOpt_map_flatten _ (groupResultsOwn mi) gs (fun g hg => genGroup_generated stored ownW mi g (haxes g hg)),
    mapOpt_eq_mapM]

end Glotaran.C03.Steps
