/-
C03 — helper lemmas for `fitted = dataset scale × matrix × clp`:
* `index_fit`: the algebra of one index problem (scale → reduce → weight → solve → retrieve);
* `unlinked_column`: the per-index problems of an unlinked dataset are of that form.
-/
import GlotaranProofs.Lemmas.C03
import GlotaranProofs.Lemmas.C02
import GlotaranProofs.Lemmas.C02Length
import GlotaranProofs.Lemmas.C14Linked
namespace Glotaran.C03
open Glotaran.LinAlg Glotaran.C02

/-! ### shapes -/

/-- The combined matrix of a dataset is well formed for a dataset with `nModel × nGlobal` points:
    distinct clp labels, `nModel` rows (for every global index, if index dependent), one column per label. -/
def LMatOK (nModel nGlobal : Nat) (lm : LMat) : Prop :=
  lm.labels.Nodup ∧
  match lm.body with
  | .d2 m => m.length = nModel ∧ ∀ r ∈ m, r.length = lm.labels.length
  | .d3 ms => ms.length = nGlobal ∧ ∀ m ∈ ms, m.length = nModel ∧ ∀ r ∈ m, r.length = lm.labels.length

/-- The data are rectangular (`nModel × nGlobal`) and the weight, if any, has the shape of the data. -/
def DataOK (d : Dataset) : Prop :=
  (∀ r ∈ d.data, r.length = d.nGlobal) ∧
  ∀ w, d.weight = some w → w.length = d.nModel ∧ ∀ r ∈ w, r.length = d.nGlobal

theorem slices_getD (lm : LMat) (nGlobal i : Nat) :
    (slices lm nGlobal).getD i default = ⟨((slices lm nGlobal).getD i default).labels, matrixAt lm nGlobal i⟩ := rfl

theorem slices_labels (lm : LMat) (nM nG i : Nat) (hok : LMatOK nM nG lm) (hi : i < nG) :
    ((slices lm nG).getD i default).labels = lm.labels := by
  unfold slices
  cases hb : lm.body with
  | d2 m => simp [List.getD_eq_getElem?_getD, List.getElem?_replicate_of_lt hi]
  | d3 ms =>
    have h := hok.2; rw [hb] at h
    have hi' : i < ms.length := by rw [h.1]; exact hi
    simp [List.getD_eq_getElem?_getD, hi']

theorem matrixAt_ok (lm : LMat) (nM nG i : Nat) (hok : LMatOK nM nG lm) (hi : i < nG) :
    (matrixAt lm nG i).length = nM ∧ ∀ r ∈ matrixAt lm nG i, r.length = lm.labels.length := by
  unfold matrixAt slices
  cases hb : lm.body with
  | d2 m =>
    have h := hok.2; rw [hb] at h
    simpa [List.getD_eq_getElem?_getD, List.getElem?_replicate_of_lt hi] using h
  | d3 ms =>
    have h := hok.2; rw [hb] at h
    have hi' : i < ms.length := by rw [h.1]; exact hi
    simpa [List.getD_eq_getElem?_getD, hi'] using h.2 _ (List.getElem_mem hi')

theorem matrixAt_eq_sliceM (lm : LMat) (nG i : Nat) : matrixAt lm nG i = C14.sliceM lm nG i := rfl

/-! ### reduction keeps the matrix well formed -/

theorem applyConstraintsAt_wf (cons : List Constraint) (x : Rat) (lm : LMat2) (hwf : WF lm) :
    WF (applyConstraintsAt cons x lm) := by
  rw [applyConstraintsAt_eq cons x lm hwf.2]
  refine ⟨(pickMask_sublist _ _).nodup hwf.1, ?_⟩
  intro r hr
  simp only [List.mem_map] at hr
  obtain ⟨r', hr', rfl⟩ := hr
  exact pickMask_length_eq _ _ _ (by rw [hwf.2 r' hr', keepOf_length]) (by rw [keepOf_length])

theorem reduceAt_wf (mi : ModelItems) (x : Rat) (lm : LMat2) (hwf : WF lm) : WF (reduceAt mi x lm) :=
  applyConstraintsAt_wf _ _ _ (applyRelationsAt_wf _ _ _ hwf)

theorem foldl_stepV_length (T : List (Nat × Nat × Rat)) (v : Vec) : (T.foldl stepV v).length = v.length := by
  induction T generalizing v with
  | nil => rfl
  | cons t T ih => simp [List.foldl_cons, ih, stepV]

theorem retrieveClps_length (mi : ModelItems) (x : Rat) (lm : LMat2) (hwf : WF lm) (c : Vec)
    (hc : c.length = (reduceAt mi x lm).labels.length) :
    (retrieveClps mi lm.labels (reduceAt mi x lm).labels c x).length = lm.labels.length := by
  rw [retrieveClps_eq mi x lm hwf c hc, foldl_stepV_length, baseOf_length]

/-! ### entries of products -/

theorem mulVec_getElem? (B : Mat) (v : Vec) (m : Nat) : (mulVec B v)[m]? = (B[m]?).map (fun r => dot r v) := by
  simp [mulVec]

theorem vsub_getElem? (a b : Vec) (m : Nat) (x y : Rat) (ha : a[m]? = some x) (hb : b[m]? = some y) :
    (vsub a b)[m]? = some (x - y) := by
  simp [vsub, List.getElem?_zipWith, ha, hb]

theorem zipWith_mul_getElem? (a b : Vec) (m : Nat) (x y : Rat) (ha : a[m]? = some x) (hb : b[m]? = some y) :
    (List.zipWith (· * ·) a b)[m]? = some (x * y) := by
  simp [List.getElem?_zipWith, ha, hb]

theorem mscale_getElem? (k : Rat) (B : Mat) (m : Nat) : (mscale k B)[m]? = (B[m]?).map (vscale k) := by
  simp [mscale]

end Glotaran.C03
namespace Glotaran.C02
open Glotaran.LinAlg
theorem unweighted_data' (d : Dataset) (hw : d.weight = none) : d.weightedData = d.data := by
  simp [Dataset.weightedData, hw]
theorem weighted_data' (d : Dataset) (w : Mat) (hw : d.weight = some w) : d.weightedData = hadamard d.data w := by
  simp [Dataset.weightedData, hw]
end Glotaran.C02
namespace Glotaran.C03
open Glotaran.LinAlg Glotaran.C02

/-! ### one index problem -/

/-- **The algebra of one index, general form.**  `A` is the unreduced, unweighted (already scaled)
    matrix on the labels `L`; the solver is given the reduced matrix, weighted by `wo` (if any), and the
    weighted data `yw`; `c` are the reduced coefficients it returns and `res` the residual.  With
    `clp := retrieve_clps c` (on the labels `L`): if `yw[M] = ω · y` and `(A · clp)[M] = t` then
    `res[M] = ω · (y − t)`, `ω` the weight of row `M` (`1` without weight). -/
theorem index_fit_gen (mi : ModelItems) (s : Solver) (x : Rat) (L : List String) (A : Mat)
    (yw : Vec) (wo : Option Vec) (c res : Vec)
    (hwf : WF ⟨L, A⟩) (hnc : NoChain mi.relations L x)
    (hsol : solveLS s
      (match wo with
        | some w => weightRows (reduceAt mi x ⟨L, A⟩).m w
        | none => (reduceAt mi x ⟨L, A⟩).m) yw = some (c, res))
    (M : Nat) (hM : M < A.length) (ym ω : Rat) (hy : yw[M]? = some (ω * ym))
    (hω : match (generalizing := false) wo with | some w => w[M]? = some ω | none => ω = 1) :
    (retrieveClps mi L (reduceAt mi x ⟨L, A⟩).labels c x).length = L.length ∧
    ∀ t, (mulVec A (retrieveClps mi L (reduceAt mi x ⟨L, A⟩).labels c x))[M]? = some t →
      res[M]? = some (ω * (ym - t)) := by
  have hwfR := reduceAt_wf mi x _ hwf
  have hRlen : (reduceAt mi x ⟨L, A⟩).m.length = A.length := by
    rw [Length.rows_reduceAt]
  have hRne : (reduceAt mi x ⟨L, A⟩).m ≠ [] := by
    intro h; rw [h] at hRlen; simp at hRlen; omega
  -- the number of coefficients
  have hc : c.length = (reduceAt mi x ⟨L, A⟩).labels.length := by
    have h1 := C14.certified_length _ _ _ _ _ hsol
    cases wo with
    | none => rw [h1]; exact C14.ncols_of_rows _ _ hwfR.2 hRne
    | some w =>
      rw [h1]
      simp only at hω
      have hwm : M < w.length := (List.getElem?_eq_some_iff.mp hω).1
      apply C14.ncols_of_rows _ _ (C14.rows_weightRows_width _ _ _ hwfR.2)
      intro h
      have := congrArg List.length h
      simp only [Length.rows_weightRows, List.length_nil, hRlen] at this
      omega
  have hequiv := reduced_problem_equiv_aux mi x ⟨L, A⟩ hwf hnc c hc
  simp only at hequiv
  refine ⟨retrieveClps_length mi x ⟨L, A⟩ hwf c hc, ?_⟩
  intro t ht
  rw [← hequiv] at ht
  obtain ⟨hres, _⟩ := C14.solveLS_cases _ _ _ _ _ hsol
  rw [hres, residual]
  cases wo with
  | none =>
    simp only at hω
    subst hω
    rw [vsub_getElem? _ _ M _ _ hy ht]; congr 1; ring
  | some w =>
    simp only at hω
    rw [C14.mulVec_weightRows]
    rw [vsub_getElem? _ _ M _ _ hy (zipWith_mul_getElem? _ _ M _ _ ht hω)]
    congr 1; ring

theorem mscale_one (A : Mat) : mscale 1 A = A := by
  have : vscale 1 = id := by funext v; simp [C14.vscale_one]
  simp [mscale, this]

/-- **The algebra of one index.**  `A` is the (unscaled, unweighted) matrix on the labels `L`, `k` the
    scale, `wo` the weight column (if any), `y` the unweighted data column.  The solver is given the
    scaled, reduced, weighted matrix and the weighted data; `c` are the reduced coefficients it returns
    and `res` the residual.  Then with `clp := retrieve_clps c` (on the labels `L`):
    `res[m] = ω · (y[m] − k · A[m]·clp)`, `ω` the weight of the point (`1` without weight). -/
theorem index_fit (mi : ModelItems) (s : Solver) (x : Rat) (L : List String) (A : Mat) (k : Rat)
    (y : Vec) (wo : Option Vec) (c res : Vec)
    (hwf : WF ⟨L, A⟩) (hnc : NoChain mi.relations L x)
    (hsol : solveLS s
      (match wo with
        | some w => weightRows (reduceAt mi x ⟨L, mscale k A⟩).m w
        | none => (reduceAt mi x ⟨L, mscale k A⟩).m)
      (match wo with | some w => List.zipWith (· * ·) y w | none => y) = some (c, res))
    (m : Nat) (row : Vec) (ym : Rat) (hrow : A[m]? = some row) (hy : y[m]? = some ym)
    (ω : Rat) (hω : match (generalizing := false) wo with | some w => w[m]? = some ω | none => ω = 1) :
    (retrieveClps mi L (reduceAt mi x ⟨L, mscale k A⟩).labels c x).length = L.length ∧
    res[m]? = some (ω * (ym - k * dot row (retrieveClps mi L (reduceAt mi x ⟨L, mscale k A⟩).labels c x))) := by
  have hwfS : WF ⟨L, mscale k A⟩ := ⟨hwf.1, C14.rows_mscale_width k A _ hwf.2⟩
  have hm : m < (mscale k A).length := by
    have := (List.getElem?_eq_some_iff.mp hrow).1; simpa [mscale] using this
  have hyw : (match wo with | some w => List.zipWith (· * ·) y w | none => y)[m]? = some (ω * ym) := by
    cases wo with
    | none => simp only at hω ⊢; subst hω; simpa using hy
    | some w => simp only at hω ⊢; rw [zipWith_mul_getElem? _ _ m _ _ hy hω, mul_comm]
  obtain ⟨h1, h2⟩ := index_fit_gen mi s x L (mscale k A) _ wo c res hwfS hnc hsol m hm ym ω hyw hω
  refine ⟨h1, h2 _ ?_⟩
  rw [mulVec_getElem?, mscale_getElem?, hrow]
  simp [dot_vscale]

/-! ### entries of columns -/

theorem col_getElem? (a : Mat) (i m : Nat) (y : Rat) (h : entry? a m i = some y) : (col a i)[m]? = some y := by
  obtain ⟨hm, hi, rfl⟩ := (entry?_eq_some_iff a m i y).mp h
  simp [col, List.getElem?_eq_getElem hm, List.getD_eq_getElem?_getD, List.getElem?_eq_getElem hi]

theorem entry?_of_rect (a : Mat) (n m i : Nat) (hrow : ∀ r ∈ a, r.length = n) (hm : m < a.length) (hi : i < n) :
    ∃ y, entry? a m i = some y := by
  have : i < a[m].length := by rw [hrow _ (List.getElem_mem hm)]; exact hi
  exact ⟨a[m][i], (entry?_eq_some_iff a m i _).mpr ⟨hm, this, rfl⟩⟩

theorem getD_of_getElem? (v : Vec) (m : Nat) (x : Rat) (h : v[m]? = some x) : v.getD m 0 = x := by
  simp [List.getD_eq_getElem?_getD, h]

/-- what `finish` reports at a point where the data, the solver residual `e` (and the weight) exist -/
theorem finish_entries (d : Dataset) (labels : List String) (clps : List Vec) (wres : Mat) (m i : Nat) (y e : Rat)
    (hy : entry? d.data m i = some y) (he : entry? wres m i = some e) :
    match d.weight with
    | none => (finish d labels clps wres).weighted = none ∧
        entry? (finish d labels clps wres).residual m i = some e ∧
        entry? (finish d labels clps wres).fitted m i = some (y - e)
    | some w => ∀ ω, entry? w m i = some ω →
        (finish d labels clps wres).weighted = some wres ∧
        entry? (finish d labels clps wres).residual m i = some (e / ω) ∧
        entry? (finish d labels clps wres).fitted m i = some (y - e / ω) := by
  cases hw : d.weight with
  | none =>
    simp only [finish, hw]
    exact ⟨by first | rfl | trivial, he, entry?_subMat _ _ _ _ _ _ hy he⟩
  | some w =>
    intro ω hω
    simp only [finish, hw]
    have hr := entry?_divMat _ _ _ _ _ _ he hω
    exact ⟨by first | rfl | trivial, hr, entry?_subMat _ _ _ _ _ _ hy hr⟩

/-! ### unlinked datasets -/

/-- the problem of global index `i` of an unlinked dataset, written with `matrixAt` -/
theorem unlinkedProblems_getElem (mi : ModelItems) (d : Dataset) (lm : LMat) (ps : List IndexProblem)
    (hlm : datasetMatrix d.mcs = some lm) (hok : LMatOK d.nModel d.nGlobal lm)
    (h : unlinkedProblems mi d = some ps) (i : Nat) (hi : i < d.nGlobal) :
    ∃ hi' : i < ps.length,
      ps[i].fullLabels = lm.labels ∧ ps[i].x = d.globalAxis.getD i 0 ∧
      ps[i].data = col d.weightedData i ∧
      ps[i].reduced.labels = (reduceAt mi (d.globalAxis.getD i 0)
          ⟨lm.labels, mscale (d.scale.getD 1) (matrixAt lm d.nGlobal i)⟩).labels ∧
      ps[i].reduced.m = (match d.weight with
        | some w => weightRows (reduceAt mi (d.globalAxis.getD i 0)
            ⟨lm.labels, mscale (d.scale.getD 1) (matrixAt lm d.nGlobal i)⟩).m (col w i)
        | none => (reduceAt mi (d.globalAxis.getD i 0)
            ⟨lm.labels, mscale (d.scale.getD 1) (matrixAt lm d.nGlobal i)⟩).m) := by
  unfold unlinkedProblems at h
  simp only [hlm, Option.some.injEq] at h
  subst h
  have hsl : (slices ⟨lm.labels, lm.body.scale (d.scale.getD 1)⟩ d.nGlobal).getD i default =
      ⟨lm.labels, mscale (d.scale.getD 1) (matrixAt lm d.nGlobal i)⟩ := by
    have hokS : LMatOK d.nModel d.nGlobal ⟨lm.labels, lm.body.scale (d.scale.getD 1)⟩ := by
      refine ⟨hok.1, ?_⟩
      have h2 := hok.2
      cases hb : lm.body with
      | d2 a =>
        rw [hb] at h2
        simp only [Body.scale]
        exact ⟨by simp [mscale, h2.1], C14.rows_mscale_width _ _ _ h2.2⟩
      | d3 ms =>
        rw [hb] at h2
        simp only [Body.scale]
        refine ⟨by simp [h2.1], ?_⟩
        intro a ha
        simp only [List.mem_map] at ha
        obtain ⟨a', ha', rfl⟩ := ha
        exact ⟨by simp [mscale, (h2.2 a' ha').1], C14.rows_mscale_width _ _ _ (h2.2 a' ha').2⟩
    have h1 := slices_labels _ _ _ i hokS hi
    have h2 := C14.sliceM_scale lm (d.scale.getD 1) d.nGlobal i
    rw [slices_getD, h1]
    simp only [matrixAt_eq_sliceM, h2]
  refine ⟨by simpa using hi, ?_⟩
  simp only [List.getElem_map, List.getElem_range, hsl]
  refine ⟨trivial, trivial, trivial, ?_, ?_⟩
  · cases d.weight <;> rfl
  · cases d.weight <;> rfl

/-- **Unlinked dataset without global model, one point (model index `m`, global index `i`).**
    With `clp` the reported clps of index `i`, `row` row `m` of the dataset's matrix at index `i`,
    `k` the dataset scale and `y` the data point: without weight `residual = y − k·row·clp` and
    `fitted = k·row·clp`; with weight `ω` at the point `weighted_residual = ω·(y − k·row·clp)`,
    `residual = weighted_residual / ω`, `fitted = y − weighted_residual / ω`. -/
theorem unlinked_point (mi : ModelItems) (s : Solver) (d : Dataset) (lm : LMat) (r : DsResult)
    (h : unlinkedResult mi s d = some r) (hg : d.gmcs = []) (hlm : datasetMatrix d.mcs = some lm)
    (hok : LMatOK d.nModel d.nGlobal lm) (hd : DataOK d)
    (hnc : ∀ x ∈ d.globalAxis, NoChain mi.relations lm.labels x)
    (i m : Nat) (hi : i < d.nGlobal) (hm : m < d.nModel) :
    r.clpLabels = lm.labels ∧
    ∃ clp row y, r.clps[i]? = some clp ∧ clp.length = lm.labels.length ∧
      (matrixAt lm d.nGlobal i)[m]? = some row ∧ entry? d.data m i = some y ∧
      match d.weight with
      | none => r.weighted = none ∧
          entry? r.residual m i = some (y - d.scale.getD 1 * dot row clp) ∧
          entry? r.fitted m i = some (y - (y - d.scale.getD 1 * dot row clp))
      | some w => ∃ ω wres, entry? w m i = some ω ∧ r.weighted = some wres ∧
          entry? wres m i = some (ω * (y - d.scale.getD 1 * dot row clp)) ∧
          entry? r.residual m i = some (ω * (y - d.scale.getD 1 * dot row clp) / ω) ∧
          entry? r.fitted m i = some (y - ω * (y - d.scale.getD 1 * dot row clp) / ω) := by
  unfold unlinkedResult at h
  simp only [hg, List.isEmpty_nil, Bool.not_true, Bool.false_eq_true, if_false] at h
  cases hps : unlinkedProblems mi d with
  | none => simp [hps] at h
  | some ps =>
    simp only [hps] at h
    obtain ⟨sols, hsols, rfl⟩ := Option.map_eq_some_iff.mp h
    obtain ⟨hlen, hget⟩ := C14.mapM_some_getElem _ _ _ hsols
    obtain ⟨hi', hfl, hx, hdata, hrl, hrm⟩ := unlinkedProblems_getElem mi d lm ps hlm hok hps i hi
    have hi2 : i < sols.length := by rw [hlen]; exact hi'
    have hsi := hget i hi' hi2
    cases hsol : solveLS s ps[i].reduced.m ps[i].data with
    | none => simp [hsol] at hsi
    | some cr =>
      simp only [hsol, Option.map_some, Option.some.injEq] at hsi
      -- the row, the data point
      obtain ⟨hAlen, hAw⟩ := matrixAt_ok lm _ _ i hok hi
      have hmA : m < (matrixAt lm d.nGlobal i).length := by rw [hAlen]; exact hm
      obtain ⟨y, hy⟩ := entry?_of_rect d.data d.nGlobal m i hd.1 hm hi
      have hwf : WF ⟨lm.labels, matrixAt lm d.nGlobal i⟩ := ⟨hok.1, hAw⟩
      have hxmem : d.globalAxis.getD i 0 ∈ d.globalAxis := by
        have : i < d.globalAxis.length := hi
        simp [List.getD_eq_getElem?_getD, List.getElem?_eq_getElem this]
      have hncx := hnc _ hxmem
      refine ⟨by rw [finish_clpLabels, hlm], ?_⟩
      refine ⟨retrieveClps mi ps[i].fullLabels ps[i].reduced.labels cr.1 ps[i].x,
        (matrixAt lm d.nGlobal i)[m], y, ?_, ?_, List.getElem?_eq_getElem hmA, hy, ?_⟩
      · rw [finish_clps, List.getElem?_map, List.getElem?_eq_getElem hi2, ← hsi]; rfl
      · cases hw : d.weight with
        | none =>
          rw [hw] at hrm
          simp only at hrm
          have hsol' : solveLS s (match (none : Option Vec) with
              | some w => weightRows (reduceAt mi (d.globalAxis.getD i 0)
                  ⟨lm.labels, mscale (d.scale.getD 1) (matrixAt lm d.nGlobal i)⟩).m w
              | none => (reduceAt mi (d.globalAxis.getD i 0)
                  ⟨lm.labels, mscale (d.scale.getD 1) (matrixAt lm d.nGlobal i)⟩).m)
              (match (none : Option Vec) with | some w => List.zipWith (· * ·) (col d.data i) w | none => col d.data i)
                = some (cr.1, cr.2) := by
            simp only
            rw [← hrm, ← C02.unweighted_data' d hw, ← hdata]; exact hsol
          have := (index_fit mi s _ lm.labels _ _ _ none cr.1 cr.2 hwf hncx hsol' m _ y
            (List.getElem?_eq_getElem hmA) (col_getElem? _ _ _ _ hy) 1 rfl).1
          rw [hfl, hrl, hx]; exact this
        | some w =>
          rw [hw] at hrm
          simp only at hrm
          have hsol' : solveLS s (match (some (col w i) : Option Vec) with
              | some w => weightRows (reduceAt mi (d.globalAxis.getD i 0)
                  ⟨lm.labels, mscale (d.scale.getD 1) (matrixAt lm d.nGlobal i)⟩).m w
              | none => (reduceAt mi (d.globalAxis.getD i 0)
                  ⟨lm.labels, mscale (d.scale.getD 1) (matrixAt lm d.nGlobal i)⟩).m)
              (match (some (col w i) : Option Vec) with
                | some w => List.zipWith (· * ·) (col d.data i) w | none => col d.data i)
                = some (cr.1, cr.2) := by
            simp only
            rw [← hrm, ← C14.col_hadamard, ← C02.weighted_data' d w hw, ← hdata]; exact hsol
          obtain ⟨ω, hω⟩ := entry?_of_rect w d.nGlobal m i (hd.2 w hw).2 (by rw [(hd.2 w hw).1]; exact hm) hi
          have := (index_fit mi s _ lm.labels _ _ _ (some (col w i)) cr.1 cr.2 hwf hncx hsol' m _ y
            (List.getElem?_eq_getElem hmA) (col_getElem? _ _ _ _ hy) ω (col_getElem? _ _ _ _ hω)).1
          rw [hfl, hrl, hx]; exact this
      · -- the entries
        have hcols : (sols.map (fun pc => pc.2.2))[i]? = some cr.2 := by
          rw [List.getElem?_map, List.getElem?_eq_getElem hi2, ← hsi]; rfl
        have hentry : ∀ e, cr.2[m]? = some e →
            entry? (ofColumns d.nModel (sols.map (fun pc => pc.2.2))) m i = some e := by
          intro e he
          have hi3 : i < (sols.map (fun pc => pc.2.2)).length := by simpa using hi2
          rw [entry?_ofColumns _ _ m i hm hi3]
          have : (sols.map (fun pc => pc.2.2))[i] = cr.2 := by
            have := List.getElem?_eq_getElem hi3; rw [hcols] at this; exact (Option.some.inj this).symm
          rw [this, getD_of_getElem? _ _ _ he]
        cases hw : d.weight with
        | none =>
          rw [hw] at hrm
          simp only at hrm
          have hsol' : solveLS s (match (none : Option Vec) with
              | some w => weightRows (reduceAt mi (d.globalAxis.getD i 0)
                  ⟨lm.labels, mscale (d.scale.getD 1) (matrixAt lm d.nGlobal i)⟩).m w
              | none => (reduceAt mi (d.globalAxis.getD i 0)
                  ⟨lm.labels, mscale (d.scale.getD 1) (matrixAt lm d.nGlobal i)⟩).m)
              (match (none : Option Vec) with | some w => List.zipWith (· * ·) (col d.data i) w | none => col d.data i)
                = some (cr.1, cr.2) := by
            simp only
            rw [← hrm, ← C02.unweighted_data' d hw, ← hdata]; exact hsol
          have hres := (index_fit mi s _ lm.labels _ _ _ none cr.1 cr.2 hwf hncx hsol' m _ y
            (List.getElem?_eq_getElem hmA) (col_getElem? _ _ _ _ hy) 1 rfl).2
          rw [one_mul] at hres
          have hfin := finish_entries d lm.labels
            (sols.map (fun pc => retrieveClps mi pc.1.fullLabels pc.1.reduced.labels pc.2.1 pc.1.x))
            (ofColumns d.nModel (sols.map (fun pc => pc.2.2))) m i y _ hy (hentry _ hres)
          rw [hw] at hfin
          simp only at hfin ⊢
          rw [hlm]
          simp only [hfl, hrl, hx]
          exact hfin
        | some w =>
          rw [hw] at hrm
          simp only at hrm
          have hsol' : solveLS s (match (some (col w i) : Option Vec) with
              | some w => weightRows (reduceAt mi (d.globalAxis.getD i 0)
                  ⟨lm.labels, mscale (d.scale.getD 1) (matrixAt lm d.nGlobal i)⟩).m w
              | none => (reduceAt mi (d.globalAxis.getD i 0)
                  ⟨lm.labels, mscale (d.scale.getD 1) (matrixAt lm d.nGlobal i)⟩).m)
              (match (some (col w i) : Option Vec) with
                | some w => List.zipWith (· * ·) (col d.data i) w | none => col d.data i)
                = some (cr.1, cr.2) := by
            simp only
            rw [← hrm, ← C14.col_hadamard, ← C02.weighted_data' d w hw, ← hdata]; exact hsol
          obtain ⟨ω, hω⟩ := entry?_of_rect w d.nGlobal m i (hd.2 w hw).2 (by rw [(hd.2 w hw).1]; exact hm) hi
          have hres := (index_fit mi s _ lm.labels _ _ _ (some (col w i)) cr.1 cr.2 hwf hncx hsol' m _ y
            (List.getElem?_eq_getElem hmA) (col_getElem? _ _ _ _ hy) ω (col_getElem? _ _ _ _ hω)).2
          have hfin := finish_entries d lm.labels
            (sols.map (fun pc => retrieveClps mi pc.1.fullLabels pc.1.reduced.labels pc.2.1 pc.1.x))
            (ofColumns d.nModel (sols.map (fun pc => pc.2.2))) m i y _ hy (hentry _ hres)
          rw [hw] at hfin
          simp only at hfin ⊢
          obtain ⟨h1, h2, h3⟩ := hfin ω hω
          rw [hlm]
          simp only [hfl, hrl, hx] at h1 h2 h3 ⊢
          exact ⟨ω, _, hω, h1, hentry _ hres, h2, h3⟩

/-! ### the statement at one point, shared by unlinked and linked results -/

/-- What a result dataset `r` of dataset `d` (combined matrix `lm`) reports at the point
    (model index `m`, global index `i`): with `clp` the reported clps of index `i`, `row` row `m` of the
    dataset's matrix at index `i`, `k` the dataset scale and `y` the data point,
    * without weight: `residual = y − k·row·clp`, `fitted = y − residual`;
    * with weight `ω` at the point: `weighted_residual = ω·(y − k·row·clp)`,
      `residual = weighted_residual / ω`, `fitted = y − residual`. -/
def PointSpec (d : Dataset) (lm : LMat) (r : DsResult) (i m : Nat) : Prop :=
  ∃ clp row y, r.clps[i]? = some clp ∧ clp.length = lm.labels.length ∧
    (matrixAt lm d.nGlobal i)[m]? = some row ∧ entry? d.data m i = some y ∧
    match d.weight with
    | none => r.weighted = none ∧
        entry? r.residual m i = some (y - d.scale.getD 1 * dot row clp) ∧
        entry? r.fitted m i = some (y - (y - d.scale.getD 1 * dot row clp))
    | some w => ∃ ω wres, entry? w m i = some ω ∧ r.weighted = some wres ∧
        entry? wres m i = some (ω * (y - d.scale.getD 1 * dot row clp)) ∧
        entry? r.residual m i = some (ω * (y - d.scale.getD 1 * dot row clp) / ω) ∧
        entry? r.fitted m i = some (y - ω * (y - d.scale.getD 1 * dot row clp) / ω)

theorem unlinked_pointSpec (mi : ModelItems) (s : Solver) (d : Dataset) (lm : LMat) (r : DsResult)
    (h : unlinkedResult mi s d = some r) (hg : d.gmcs = []) (hlm : datasetMatrix d.mcs = some lm)
    (hok : LMatOK d.nModel d.nGlobal lm) (hd : DataOK d)
    (hnc : ∀ x ∈ d.globalAxis, NoChain mi.relations lm.labels x)
    (i m : Nat) (hi : i < d.nGlobal) (hm : m < d.nModel) :
    r.clpLabels = lm.labels ∧ PointSpec d lm r i m :=
  unlinked_point mi s d lm r h hg hlm hok hd hnc i m hi hm

/-- from the column of the (weighted) residual to the statement at the point -/
theorem pointSpec_of_column (d : Dataset) (lm : LMat) (labels : List String) (clps : List Vec) (cols : List Vec)
    (i m : Nat) (hm : m < d.nModel) (clp row colv : Vec) (y ω : Rat)
    (hclp : clps[i]? = some clp) (hlen : clp.length = lm.labels.length)
    (hrow : (matrixAt lm d.nGlobal i)[m]? = some row) (hy : entry? d.data m i = some y)
    (hω : match (generalizing := false) d.weight with | none => ω = 1 | some w => entry? w m i = some ω)
    (hcol : cols[i]? = some colv)
    (hres : colv[m]? = some (ω * (y - d.scale.getD 1 * dot row clp))) :
    PointSpec d lm (finish d labels clps (ofColumns d.nModel cols)) i m := by
  have hi : i < cols.length := (List.getElem?_eq_some_iff.mp hcol).1
  have hentry : entry? (ofColumns d.nModel cols) m i = some (ω * (y - d.scale.getD 1 * dot row clp)) := by
    rw [entry?_ofColumns _ _ m i hm hi]
    have : cols[i] = colv := by
      have := List.getElem?_eq_getElem hi; rw [hcol] at this; exact (Option.some.inj this).symm
    rw [this, getD_of_getElem? _ _ _ hres]
  have hfin := finish_entries d labels clps (ofColumns d.nModel cols) m i y _ hy hentry
  refine ⟨clp, row, y, by rw [finish_clps]; exact hclp, hlen, hrow, hy, ?_⟩
  cases hw : d.weight with
  | none =>
    rw [hw] at hfin hω
    simp only at hfin hω ⊢
    subst hω
    simpa using hfin
  | some w =>
    rw [hw] at hfin hω
    simp only at hfin hω ⊢
    obtain ⟨h1, h2, h3⟩ := hfin ω hω
    exact ⟨ω, _, hω, h1, hentry, h2, h3⟩

end Glotaran.C03
