/-
C12 — the `$label` rewriting: specification vocabulary (`Tokenises`, `labelCharN`) and helper lemmas.
-/
import GlotaranModel.C12Regex
set_option linter.unusedSimpArgs false
namespace Glotaran.C12
open Generated

/-! ### vocabulary -/

/-- a character of a valid parameter label (`valid_label`: `[A-Za-z0-9_]` after `.` ↦ `_`), by code point -/
def labelCharN (n : Nat) : Bool := asciiWordN n || n == 46

/-- a text that `valid_label` accepts as far as its characters go: non-empty, label characters only -/
def ValidLabel (l : List Char) : Prop := l ≠ [] ∧ ∀ c ∈ l, c.toNat < 128 ∧ labelCharN c.toNat = true

/-- **Declarative reading of the pattern.**  `segs` cuts the text into `$label` tokens and single
    other characters such that every token is the sigil followed by a *non-empty* run of class
    characters that is *maximal* (the text behind it does not go on with a class character), and no
    other character is the start of such a token. -/
inductive Tokenises : List Char → List Seg → Prop
  | nil : Tokenises [] []
  | plain {c : Char} {r : List Char} {segs : List Seg} :
      ¬ (c = sigil ∧ headTok r = true) → Tokenises r segs → Tokenises (c :: r) (.plain c :: segs)
  | var {l r : List Char} {segs : List Seg} :
      l ≠ [] → (∀ c ∈ l, isTok c = true) → headTok r = false → Tokenises r segs →
      Tokenises (sigil :: (l ++ r)) (.var l :: segs)

/-! ### runs of class characters -/

theorem take_length_takeWhile (p : Char → Bool) : ∀ r : List Char,
    r.take (r.takeWhile p).length = r.takeWhile p := by
  intro r
  induction r with
  | nil => rfl
  | cons c r ih =>
    by_cases h : p c = true
    · simp [List.takeWhile_cons, h, ih]
    · simp [List.takeWhile_cons, h]

theorem drop_length_takeWhile (p : Char → Bool) : ∀ r : List Char,
    r.drop (r.takeWhile p).length = r.dropWhile p := by
  intro r
  induction r with
  | nil => rfl
  | cons c r ih =>
    by_cases h : p c = true
    · simp [List.takeWhile_cons, List.dropWhile_cons, h, ih]
    · simp [List.takeWhile_cons, List.dropWhile_cons, h]

theorem headTok_dropWhile : ∀ r : List Char, headTok (r.dropWhile isTok) = false := by
  intro r
  induction r with
  | nil => rfl
  | cons c r ih =>
    by_cases h : isTok c = true
    · simp [List.dropWhile_cons, h, ih]
    · simp [List.dropWhile_cons, h, headTok]

theorem of_mem_takeWhile (p : Char → Bool) : ∀ (r : List Char) (d : Char), d ∈ r.takeWhile p → p d = true := by
  intro r
  induction r with
  | nil => intro d h; cases h
  | cons c r ih =>
    intro d h
    by_cases hc : p c = true
    · rw [List.takeWhile_cons, if_pos hc] at h
      rcases List.mem_cons.mp h with e | e
      · rw [e]; exact hc
      · exact ih d e
    · rw [List.takeWhile_cons, if_neg hc] at h
      cases h

theorem takeWhile_eq_nil_iff_headTok (r : List Char) : r.takeWhile isTok = [] ↔ headTok r = false := by
  cases r with
  | nil => simp [headTok]
  | cons c r =>
    by_cases h : isTok c = true <;> simp [List.takeWhile_cons, headTok, h]

theorem length_dropWhile_le (p : Char → Bool) (r : List Char) : (r.dropWhile p).length ≤ r.length := by
  induction r with
  | nil => simp
  | cons c r ih =>
    by_cases h : p c = true
    · simp [List.dropWhile_cons, h]; omega
    · simp [List.dropWhile_cons, h]

theorem takeWhile_run (l post : List Char) (hl : ∀ c ∈ l, isTok c = true) (hp : headTok post = false) :
    (l ++ post).takeWhile isTok = l ∧ (l ++ post).dropWhile isTok = post := by
  induction l with
  | nil =>
    cases post with
    | nil => simp
    | cons c r =>
      have : isTok c = false := by simpa [headTok] using hp
      simp [List.takeWhile_cons, List.dropWhile_cons, this]
  | cons c l ih =>
    have hc : isTok c = true := hl c List.mem_cons_self
    have := ih (fun d hd => hl d (List.mem_cons_of_mem _ hd))
    simp [List.takeWhile_cons, List.dropWhile_cons, hc, this]

/-- a run inside `r` is not affected by a continuation that does not start with a class character -/
theorem takeWhile_append_boundary (r y : List Char) (hy : headTok y = false) :
    (r ++ y).takeWhile isTok = r.takeWhile isTok ∧
    (r ++ y).dropWhile isTok = r.dropWhile isTok ++ y := by
  induction r with
  | nil =>
    cases y with
    | nil => simp
    | cons c r =>
      have : isTok c = false := by simpa [headTok] using hy
      simp [List.takeWhile_cons, List.dropWhile_cons, this]
  | cons c r ih =>
    by_cases h : isTok c = true
    · simp [List.takeWhile_cons, List.dropWhile_cons, h, ih]
    · simp [List.takeWhile_cons, List.dropWhile_cons, h]

theorem headTok_append (r y : List Char) (hy : headTok y = false) : headTok (r ++ y) = headTok r := by
  cases r with
  | nil => simpa [headTok] using hy
  | cons c r => rfl

/-! ### one match attempt: the backtracking never gives anything back -/

theorem trailerOk_of_not_headTok {rest : List Char} (h : headTok rest = false) : trailerOk rest = true := by
  simp [trailerOk, h]

theorem matchAt_eq (c : Char) (r : List Char) :
    matchAt (c :: r) =
      if c = sigil ∧ headTok r = true then some (r.takeWhile isTok, r.dropWhile isTok) else none := by
  unfold matchAt
  by_cases hc : c = sigil
  · by_cases hh : headTok r = true
    · have hne : r.takeWhile isTok ≠ [] := by
        intro e
        rw [takeWhile_eq_nil_iff_headTok] at e
        rw [e] at hh; cases hh
      obtain ⟨k, hk⟩ : ∃ k, (r.takeWhile isTok).length = k + 1 := by
        cases hr : r.takeWhile isTok with
        | nil => exact absurd hr hne
        | cons a b => exact ⟨b.length, rfl⟩
      have ht := take_length_takeWhile isTok r
      have hd := drop_length_takeWhile isTok r
      rw [hk] at ht hd
      simp only [hc, hh, and_self, if_true, hk, tryLens]
      rw [hd, ht, trailerOk_of_not_headTok (headTok_dropWhile r)]
      simp
    · have hf : headTok r = false := by simpa using hh
      have : r.takeWhile isTok = [] := (takeWhile_eq_nil_iff_headTok r).mpr hf
      simp [hc, hf, this, tryLens]
  · simp [hc]

/-! ### `scan`: the fuel is enough, unfolding equations -/

theorem scanFuel_irrel : ∀ (n m : Nat) (s : List Char), s.length ≤ n → s.length ≤ m →
    scanFuel n s = scanFuel m s := by
  intro n
  induction n with
  | zero =>
    intro m s hn _
    have : s = [] := List.eq_nil_of_length_eq_zero (by omega)
    subst this
    cases m <;> rfl
  | succ n ih =>
    intro m s hn hm
    cases s with
    | nil => cases m <;> rfl
    | cons c r =>
      cases m with
      | zero => simp at hm
      | succ m =>
        simp only [List.length_cons] at hn hm
        simp only [scanFuel, matchAt_eq]
        have hd := length_dropWhile_le isTok r
        by_cases hc : c = sigil ∧ headTok r = true
        · simp only [hc, and_self, if_true]
          rw [ih m (r.dropWhile isTok) (by omega) (by omega)]
        · simp only [hc, if_false]
          rw [ih m r (by omega) (by omega)]

theorem scan_nil : scan [] = [] := rfl

theorem scan_cons_match {c : Char} {r : List Char} (hc : c = sigil) (hh : headTok r = true) :
    scan (c :: r) = .var (r.takeWhile isTok) :: scan (r.dropWhile isTok) := by
  unfold scan
  simp only [List.length_cons, scanFuel, matchAt_eq, hc, hh, and_self, if_true]
  rw [scanFuel_irrel r.length (r.dropWhile isTok).length _ (length_dropWhile_le isTok r) (Nat.le_refl _)]

theorem scan_cons_plain {c : Char} {r : List Char} (h : ¬ (c = sigil ∧ headTok r = true)) :
    scan (c :: r) = .plain c :: scan r := by
  unfold scan
  simp only [List.length_cons, scanFuel, matchAt_eq, h, if_false]

/-- a sigil followed by a maximal non-empty run is one token -/
theorem scan_token {l post : List Char} (hne : l ≠ []) (hl : ∀ c ∈ l, isTok c = true)
    (hp : headTok post = false) : scan (sigil :: (l ++ post)) = .var l :: scan post := by
  have hh : headTok (l ++ post) = true := by
    cases l with
    | nil => exact absurd rfl hne
    | cons c l => exact hl c List.mem_cons_self
  obtain ⟨h1, h2⟩ := takeWhile_run l post hl hp
  rw [scan_cons_match rfl hh, h1, h2]

/-! ### the declarative reading determines the scan -/

theorem tokenises_unique {s : List Char} {segs : List Seg} (h : Tokenises s segs) : segs = scan s := by
  induction h with
  | nil => rfl
  | plain hc _ ih => rw [scan_cons_plain hc, ih]
  | var hne hl hp _ ih => rw [scan_token hne hl hp, ih]

theorem tokenises_scan : ∀ (n : Nat) (s : List Char), s.length ≤ n → Tokenises s (scan s) := by
  intro n
  induction n with
  | zero =>
    intro s hn
    have : s = [] := List.eq_nil_of_length_eq_zero (by omega)
    subst this; exact .nil
  | succ n ih =>
    intro s hn
    cases s with
    | nil => exact .nil
    | cons c r =>
      simp only [List.length_cons] at hn
      by_cases h : c = sigil ∧ headTok r = true
      · obtain ⟨hc, hh⟩ := h
        rw [scan_cons_match hc hh, hc]
        have hsplit : r = r.takeWhile isTok ++ r.dropWhile isTok := (List.takeWhile_append_dropWhile).symm
        have hne : r.takeWhile isTok ≠ [] := by
          intro e
          rw [takeWhile_eq_nil_iff_headTok] at e
          rw [e] at hh; cases hh
        have hall : ∀ d ∈ r.takeWhile isTok, isTok d = true := fun d hd => of_mem_takeWhile isTok r d hd
        have := Tokenises.var hne hall (headTok_dropWhile r)
          (ih (r.dropWhile isTok) (by have := length_dropWhile_le isTok r; omega))
        rw [← hsplit] at this
        exact this
      · rw [scan_cons_plain h]
        exact .plain h (ih r (by omega))

theorem tokenises_src {s : List Char} {segs : List Seg} (h : Tokenises s segs) :
    segs.flatMap Seg.src = s := by
  induction h with
  | nil => rfl
  | plain _ _ ih => simp [Seg.src, ih]
  | var _ _ _ _ ih => simp [Seg.src, ih]

theorem tokenises_members {s : List Char} {segs : List Seg} (h : Tokenises s segs) :
    (∀ c, Seg.plain c ∈ segs → c ∈ s) ∧
    (∀ l, Seg.var l ∈ segs → l ≠ [] ∧ ∀ c ∈ l, isTok c = true) := by
  induction h with
  | nil => exact ⟨(fun _ h => nomatch h), (fun _ h => nomatch h)⟩
  | plain _ _ ih =>
    refine ⟨?_, ?_⟩
    · intro d hd
      rcases List.mem_cons.mp hd with e | e
      · cases e; exact List.mem_cons_self
      · exact List.mem_cons_of_mem _ (ih.1 d e)
    · intro l hl
      rcases List.mem_cons.mp hl with e | e
      · cases e
      · exact ih.2 l e
  | var hne hall _ _ ih =>
    refine ⟨?_, ?_⟩
    · intro d hd
      rcases List.mem_cons.mp hd with e | e
      · cases e
      · exact List.mem_cons_of_mem _ (List.mem_append_right _ (ih.1 d e))
    · intro l hl
      rcases List.mem_cons.mp hl with e | e
      · cases e; exact ⟨hne, hall⟩
      · exact ih.2 l e

/-! ### compositionality at a boundary -/

theorem scan_append_aux : ∀ (n : Nat) (pre y : List Char), pre.length ≤ n → headTok y = false →
    scan (pre ++ y) = scan pre ++ scan y := by
  intro n
  induction n with
  | zero =>
    intro pre y hn _
    have : pre = [] := List.eq_nil_of_length_eq_zero (by omega)
    subst this; simp [scan_nil]
  | succ n ih =>
    intro pre y hn hy
    cases pre with
    | nil => simp [scan_nil]
    | cons c r =>
      simp only [List.length_cons] at hn
      by_cases h : c = sigil ∧ headTok r = true
      · obtain ⟨hc, hh⟩ := h
        have hh' : headTok (r ++ y) = true := by rw [headTok_append r y hy]; exact hh
        obtain ⟨h1, h2⟩ := takeWhile_append_boundary r y hy
        rw [List.cons_append, scan_cons_match hc hh', scan_cons_match hc hh, h1, h2,
          ih _ y (by have := length_dropWhile_le isTok r; omega) hy]
        rfl
      · have h' : ¬ (c = sigil ∧ headTok (r ++ y) = true) := by
          rw [headTok_append r y hy]; exact h
        rw [List.cons_append, scan_cons_plain h', scan_cons_plain h, ih r y (by omega) hy]
        rfl

theorem scan_append (pre y : List Char) (hy : headTok y = false) :
    scan (pre ++ y) = scan pre ++ scan y :=
  scan_append_aux pre.length pre y (Nat.le_refl _) hy

/-! ### reading quoted literals back -/

theorem quotedAux_skip (q : Char) : ∀ (a b : List Char), q ∉ a →
    quotedAux q (a ++ b) none = quotedAux q b none := by
  intro a
  induction a with
  | nil => intro b _; rfl
  | cons c a ih =>
    intro b h
    have hc : c ≠ q := fun e => h (by simp [e])
    have ha : q ∉ a := fun e => h (List.mem_cons_of_mem _ e)
    simp only [List.cons_append, quotedAux, hc, if_false]
    exact ih b ha

theorem quotedAux_close (q : Char) : ∀ (l b acc : List Char), q ∉ l →
    quotedAux q (l ++ q :: b) (some acc) = (acc.reverse ++ l) :: quotedAux q b none := by
  intro l
  induction l with
  | nil => intro b acc _; simp [quotedAux]
  | cons c l ih =>
    intro b acc h
    have hc : c ≠ q := fun e => h (by simp [e])
    have hl : q ∉ l := fun e => h (List.mem_cons_of_mem _ e)
    simp only [List.cons_append, quotedAux, hc, if_false]
    rw [ih b (c :: acc) hl]
    simp

end Glotaran.C12
