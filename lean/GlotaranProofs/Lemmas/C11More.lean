/-
C11 — helper lemmas for look-up, copies, equality and history access.
-/
import GlotaranProofs.Lemmas.C11
namespace Glotaran.C11

variable {α : Type}

theorem Parameter.copy_of_wf (p : Parameter α) (h : ∀ e, p.expr = some e → e ≠ "" → p.vary = false) :
    p.copy = p := by
  unfold Parameter.copy Parameter.setExpr
  cases he : p.expr with
  | none => cases p; simp_all
  | some s =>
    by_cases hs : s = ""
    · cases p; simp_all
    · have := h s he hs
      cases p; simp_all

theorem map_copy_of_wf (ps : List (Parameter α)) (hW : WellFormed ps) : ps.map Parameter.copy = ps := by
  conv => rhs; rw [← List.map_id ps]
  apply List.map_congr_left
  intro p hp
  exact Parameter.copy_of_wf p (hW p hp)

theorem Parameter.copy_wf (p : Parameter α) (e : String) (he : p.copy.expr = some e) (hne : e ≠ "") :
    p.copy.vary = false := by
  unfold Parameter.copy Parameter.setExpr at *
  cases hx : p.expr with
  | none => simp [hx] at he
  | some s =>
    by_cases hs : s = ""
    · simp [hx, hs] at he; exact absurd he.symm (by simpa using hne) |> fun x => x
    · simp [hs]

theorem Parameter.copy_label (p : Parameter α) : p.copy.label = p.label := by
  unfold Parameter.copy Parameter.setExpr
  cases p.expr with
  | none => rfl
  | some s => by_cases hs : s = "" <;> simp [hs]

/-- the expression update keeps label, vary flag and expression of every parameter -/
theorem updateExpr_map_wfdata (ev : Eval α) (ps : List (Parameter α)) :
    (updateExpr ev ps).map (fun p => (p.label, p.vary, p.expr)) = ps.map (fun p => (p.label, p.vary, p.expr)) :=
  updateExpr_map _ (fun _ _ _ _ => rfl) ev ps

theorem wellFormed_of_map_eq (ps qs : List (Parameter α))
    (h : ps.map (fun p => (p.label, p.vary, p.expr)) = qs.map (fun p => (p.label, p.vary, p.expr)))
    (hW : WellFormed qs) : WellFormed ps := by
  intro p hp e he hne
  obtain ⟨i, hi⟩ := List.mem_iff_getElem?.mp hp
  have h' := congrArg (fun l => l[i]?) h
  simp only [List.getElem?_map, hi, Option.map_some] at h'
  cases hq : qs[i]? with
  | none => simp [hq] at h'
  | some q =>
    simp only [hq, Option.map_some, Option.some.injEq, Prod.mk.injEq] at h'
    have := hW q (List.mem_of_getElem? hq) e (by rw [← h'.2.2]; exact he) hne
    rw [h'.2.1]; exact this

theorem deepEquals_refl [DecidableEq α] (p : Parameter α) : deepEquals p p = true := by
  simp [deepEquals]

theorem deepEquals_eq [DecidableEq α] (p q : Parameter α) (h : deepEquals p q = true) : p = q := by
  cases p; cases q
  simp only [deepEquals, Bool.and_eq_true, beq_iff_eq] at h
  obtain ⟨⟨⟨⟨⟨⟨⟨h1, h2⟩, h3⟩, h4⟩, h5⟩, h6⟩, h7⟩, h8⟩ := h
  subst h1 h2 h3 h4 h5 h6 h7 h8
  rfl

theorem getLabel_isSome_of_mem (ps : List (Parameter α)) (l : String) (h : l ∈ ps.map (·.label)) :
    ∃ p, getLabel ps l = some p ∧ p ∈ ps ∧ p.label = l := by
  obtain ⟨q, hq, hql⟩ := List.mem_map.mp h
  cases hf : getLabel ps l with
  | none =>
    simp only [getLabel, List.find?_eq_none] at hf
    exact absurd (by simpa using hql) (hf q hq)
  | some p =>
    refine ⟨p, rfl, List.mem_of_find?_eq_some hf, ?_⟩
    have := List.find?_some hf
    simpa using this

theorem getLabel_of_nodup (ps : List (Parameter α)) (hN : (ps.map (·.label)).Nodup) (p : Parameter α)
    (hp : p ∈ ps) : getLabel ps p.label = some p := by
  obtain ⟨q, hq, hqm, hql⟩ := getLabel_isSome_of_mem ps p.label (List.mem_map.mpr ⟨p, hp, rfl⟩)
  rw [hq, List.inj_on_of_nodup_map hN hqm hp hql]

/-! ### histories -/

theorem pyIndex_nat {β : Type} (xs : List β) (i : Nat) : pyIndex xs (i : Int) = xs[i]? := by
  simp [pyIndex]

theorem pyIndex_neg_one {β : Type} (xs : List β) : pyIndex xs (-1) = xs.getLast? := by
  cases xs with
  | nil => simp [pyIndex]
  | cons x rest =>
    simp only [pyIndex]
    rw [if_neg (by omega)]
    simp [List.getLast?_eq_getElem?]

/-- the row `append` writes for a parameter set -/
def recordOf [Num α] (ev : Eval α) (r : List (Parameter α) × Ext α) : List (Ext α) :=
  r.2 :: (updateExpr ev r.1).map (fun p => (toOpt p).value)

theorem arrays_false_labels [Num α] (ev : Eval α) (ps : List (Parameter α)) :
    (arrays ev false ps).labels = ps.map (·.label) := by
  have := arrays_labels ev false ps
  simpa [selected_false] using this

theorem arrays_false_values [Num α] (ev : Eval α) (ps : List (Parameter α)) :
    (arrays ev false ps).values = (updateExpr ev ps).map (fun p => (toOpt p).value) := by
  rw [arrays_spec]
  simp [selected_false]

theorem append_spec [Num α] (ev : Eval α) (h h' : History α) (ps : List (Parameter α)) (it : Ext α)
    (ha : h.append ev ps it = some h') :
    h'.rows = h.rows ++ [recordOf ev (ps, it)] ∧
      h'.labels = "iteration" :: ps.map (·.label) ∧ (h.labels ≠ [] → h'.labels = h.labels) := by
  simp only [History.append, arrays_false_labels, arrays_false_values] at ha
  by_cases he : h.labels.isEmpty = true
  · simp only [he, if_true, ne_eq, not_true_eq_false, if_false, Option.some.injEq] at ha
    subst ha
    refine ⟨rfl, rfl, ?_⟩
    intro hl
    exact absurd (List.isEmpty_iff.mp he) hl
  · have he' : h.labels.isEmpty = false := by simpa using he
    simp only [he', Bool.false_eq_true, if_false] at ha
    split at ha
    · simp at ha
    · rename_i hne
      simp only [ne_eq, Decidable.not_not] at hne
      simp only [Option.some.injEq] at ha
      subst ha
      exact ⟨rfl, hne.symm, fun _ => rfl⟩

theorem appendAll_spec [Num α] (ev : Eval α) :
    ∀ (recs : List (List (Parameter α) × Ext α)) (h h' : History α),
      History.appendAll ev h recs = some h' →
      h'.rows = h.rows ++ recs.map (recordOf ev) ∧
        (∀ r ∈ recs, h'.labels = "iteration" :: r.1.map (·.label)) ∧
        (h.labels ≠ [] → h'.labels = h.labels) := by
  intro recs
  induction recs with
  | nil =>
    intro h h' ha
    simp only [History.appendAll, Option.some.injEq] at ha
    subst ha
    simp
  | cons r rest ih =>
    intro h h' ha
    obtain ⟨ps, it⟩ := r
    simp only [History.appendAll] at ha
    cases h1 : h.append ev ps it with
    | none => simp [h1] at ha
    | some hm =>
      simp only [h1] at ha
      obtain ⟨hr, hl, hk⟩ := append_spec ev h hm ps it h1
      obtain ⟨ir, il, ik⟩ := ih hm h' ha
      have hne : hm.labels ≠ [] := by rw [hl]; simp
      have keep : h'.labels = hm.labels := ik hne
      refine ⟨by rw [ir, hr]; simp, ?_, ?_⟩
      · intro r hr'
        rcases List.mem_cons.mp hr' with rfl | hm'
        · rw [keep, hl]
        · exact il r hm'
      · intro hl0
        rw [keep, hk hl0]

end Glotaran.C11
