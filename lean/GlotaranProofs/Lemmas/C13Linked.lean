/-
C13 — linked groups: the stacked residual of every aligned index is cut into the member datasets' blocks
without loss or overlap, so the residual part of the penalty vector and the weighted residuals of the result
datasets have the same sum of squares.
-/
import GlotaranProofs.Lemmas.C13
import Mathlib.Data.List.Nodup
import Mathlib.Algebra.BigOperators.Group.List.Basic
import GlotaranProofs.Lemmas.C11
namespace Glotaran.C13
open Glotaran.LinAlg Glotaran.C02

/-! ### generic: cutting a vector into consecutive blocks addressed by key -/

theorem sumOfSquares_take_drop (n : Nat) (r : Vec) :
    sumOfSquares (r.take n) + sumOfSquares (r.drop n) = sumOfSquares r := by
  rw [← sumOfSquares_append, List.take_append_drop]

/-- `items` with pairwise different keys and sizes adding up to `r.length`: cutting `r` at the offsets
    "sizes of the items before the first item with my key" yields blocks whose sums of squares add up to that
    of `r`; every block has its item's size. -/
theorem blocks_cover {α : Type} (key : α → String) (size : α → Nat) :
    ∀ (items : List α) (r : Vec), (items.map key).Nodup → (items.map size).sum = r.length →
      ((items.map (fun x =>
          sumOfSquares ((r.drop ((items.takeWhile (fun e => key e != key x)).map size).sum).take (size x)))).sum
        = sumOfSquares r) ∧
      ∀ x ∈ items, ((r.drop ((items.takeWhile (fun e => key e != key x)).map size).sum).take (size x)).length
        = size x := by
  intro items
  induction items with
  | nil =>
    intro r _ h
    have : r = [] := List.length_eq_zero_iff.mp (by simpa using h.symm)
    subst this
    exact ⟨by simp [sumOfSquares_nil], by intro x hx; cases hx⟩
  | cons a rest ih =>
    intro r hnd hsum
    simp only [List.map_cons, List.nodup_cons, List.sum_cons] at hnd hsum
    obtain ⟨hna, hnd'⟩ := hnd
    have hlen : (rest.map size).sum = (r.drop (size a)).length := by
      rw [List.length_drop]; omega
    obtain ⟨ih1, ih2⟩ := ih (r.drop (size a)) hnd' hlen
    have hne : ∀ x ∈ rest, (key a != key x) = true := by
      intro x hx
      simp only [bne_iff_ne, ne_eq]
      intro h
      exact hna (List.mem_map.mpr ⟨x, hx, h.symm⟩)
    have hstep : ∀ x ∈ rest,
        (r.drop (((a :: rest).takeWhile (fun e => key e != key x)).map size).sum).take (size x) =
        ((r.drop (size a)).drop ((rest.takeWhile (fun e => key e != key x)).map size).sum).take (size x) := by
      intro x hx
      have := hne x hx
      simp only [List.takeWhile_cons, this, if_true, List.map_cons, List.sum_cons, List.drop_drop]
    constructor
    · simp only [List.map_cons, List.sum_cons]
      have h0 : (a :: rest).takeWhile (fun e => key e != key a) = [] := by
        simp
      rw [h0]
      simp only [List.map_nil, List.sum_nil, List.drop_zero]
      have hmap : rest.map (fun x => sumOfSquares
            ((r.drop (((a :: rest).takeWhile (fun e => key e != key x)).map size).sum).take (size x))) =
          rest.map (fun x => sumOfSquares
            (((r.drop (size a)).drop ((rest.takeWhile (fun e => key e != key x)).map size).sum).take (size x))) := by
        apply List.map_congr_left
        intro x hx
        rw [hstep x hx]
      rw [hmap, ih1, sumOfSquares_take_drop]
    · intro x hx
      rcases List.mem_cons.mp hx with rfl | hx'
      · have h0 : (x :: rest).takeWhile (fun e => key e != key x) = [] := by
          simp
        rw [h0]
        simp only [List.map_nil, List.sum_nil, List.drop_zero, List.length_take]
        omega
      · rw [hstep x hx']
        exact ih2 x hx'

/-! ### generic: exchanging two filtered sums -/

section swap
variable {M : Type} [AddCommMonoid M]

theorem sum_map_zero {α} (l : List α) : (l.map (fun _ => (0 : M))).sum = 0 := by
  induction l with
  | nil => rfl
  | cons a l ih => simp

theorem sum_filter_map' {α} (l : List α) (p : α → Bool) (f : α → M) :
    ((l.filter p).map f).sum = (l.map (fun a => if p a then f a else 0)).sum := by
  induction l with
  | nil => rfl
  | cons a l ih =>
    by_cases h : p a = true
    · simp [h, ih]
    · simp [h, ih]

theorem sum_sum_comm {α β} (A : List α) (B : List β) (G : α → β → M) :
    (A.map (fun a => (B.map (fun b => G a b)).sum)).sum = (B.map (fun b => (A.map (fun a => G a b)).sum)).sum := by
  induction A with
  | nil => simp
  | cons a A ih =>
    simp only [List.map_cons, List.sum_cons, ih]
    rw [List.sum_map_add]

/-- Σ_a Σ_{b ∈ B, R a b} F a b = Σ_b Σ_{a ∈ A, R a b} F a b -/
theorem sum_filter_swap {α β} (A : List α) (B : List β) (R : α → β → Bool) (F : α → β → M) :
    (A.map (fun a => ((B.filter (fun b => R a b)).map (fun b => F a b)).sum)).sum =
      (B.map (fun b => ((A.filter (fun a => R a b)).map (fun a => F a b)).sum)).sum := by
  have h1 : ∀ a, ((B.filter (fun b => R a b)).map (fun b => F a b)).sum =
      (B.map (fun b => if R a b then F a b else 0)).sum := fun a => sum_filter_map' B _ _
  have h2 : ∀ b, ((A.filter (fun a => R a b)).map (fun a => F a b)).sum =
      (A.map (fun a => if R a b then F a b else 0)).sum := fun b => sum_filter_map' A _ _
  simp only [h1, h2]
  exact sum_sum_comm A B (fun a b => if R a b then F a b else 0)

end swap

/-! ### generic: `takeWhile` and `filter` -/

/-- if every element that stops the `takeWhile` passes the filter, the two commute -/
theorem takeWhile_filter_comm {α} (P M : α → Bool) :
    ∀ (l : List α), (∀ y ∈ l, P y = false → M y = true) →
      (l.takeWhile P).filter M = (l.filter M).takeWhile P := by
  intro l
  induction l with
  | nil => intro _; rfl
  | cons a l ih =>
    intro h
    have ih' := ih (fun y hy => h y (List.mem_cons_of_mem _ hy))
    by_cases hP : P a = true
    · by_cases hM : M a = true
      · simp [hP, hM, ih']
      · simp [hP, hM, ih']
    · have hPf : P a = false := by simpa using hP
      have hM : M a = true := h a List.mem_cons_self hPf
      simp [hPf, hM]

/-- members of an aligned value: `filterMap` on `idxOf?` selects what `filter` on `contains` selects -/
theorem filterMap_idxOf_map {α β} (l : List (α × List Rat)) (v : Rat) (f : α → β) :
    (l.filterMap (fun da => (da.2.idxOf? v).map (fun i => (da.1, i)))).map (fun di => f di.1) =
      (l.filter (fun da => da.2.contains v)).map (fun da => f da.1) := by
  induction l with
  | nil => rfl
  | cons a l ih =>
    cases hi : a.2.idxOf? v with
    | none =>
      have hm : v ∉ a.2 := List.idxOf?_eq_none_iff.mp hi
      simp [hi, hm, ih]
    | some i =>
      have hm : v ∈ a.2 := by
        by_contra hnot
        rw [List.idxOf?_eq_none_iff.mpr hnot] at hi
        cases hi
      simp [hi, hm, ih]

/-! ### the per-index problems of a linked group: data length -/

theorem mapM_pair_fst {α β : Type} (f : α → Option β) (l : List α) (r : List (α × β))
    (h : l.mapM (fun a => (f a).map (fun b => (a, b))) = some r) : r.map (·.1) = l := by
  have := Length.mapM_option_map_eq (α := α) (β := α × β) (γ := α)
    (fun a => (f a).map (fun b => (a, b))) (fun ab => ab.1) (fun a => a) l r h
    (by
      intro a _ ab hab
      obtain ⟨b, _, rfl⟩ := Option.map_eq_some_iff.mp hab
      rfl)
  simpa using this

open Glotaran.C02.Length in
/-- the stacked data of an aligned value has one entry per model-axis point of every member dataset -/
theorem linkedProblems_data_length (mi : ModelItems) (g : Group) (aligned : List (List Rat))
    (axis : List Rat) (ps : List IndexProblem) (hwf : ∀ d ∈ g.datasets, d.WFWeak)
    (hal : alignAxes (g.datasets.map (·.globalAxis)) g.tol g.method = some aligned)
    (h : linkedProblems mi g = some (axis, ps)) :
    ∀ p ∈ ps, p.data.length =
      (((g.datasets.zip aligned).filter (fun e => e.2.contains p.x)).map (fun e => e.1.nModel)).sum := by
  unfold linkedProblems at h
  simp only [hal] at h
  split at h
  · cases h
  · rename_i dms hdms
    simp only [Option.some.injEq, Prod.mk.injEq] at h
    obtain ⟨_, rfl⟩ := h
    intro p hp
    simp only [List.mem_map] at hp
    obtain ⟨v, _, rfl⟩ := hp
    simp only
    have hfst : dms.map (·.1) = g.datasets := mapM_pair_fst (fun d => datasetMatrix d.mcs) g.datasets dms hdms
    -- lengths of the stacked data: Σ over members of the number of rows of the weighted data
    rw [List.length_flatMap]
    have hrows : ∀ di ∈ (dms.zip aligned).filterMap (fun da => (da.2.idxOf? v).map (fun i => (da.1, i))),
        (col di.1.1.weightedData di.2).length = di.1.1.nModel := by
      intro di hdi
      rw [len_col]
      apply rows_weightedData
      apply hwf
      obtain ⟨da, hda, hdi'⟩ := List.mem_filterMap.mp hdi
      obtain ⟨i, _, rfl⟩ := Option.map_eq_some_iff.mp hdi'
      have : da.1 ∈ dms := (List.of_mem_zip hda).1
      rw [← hfst]
      exact List.mem_map.mpr ⟨da.1, this, rfl⟩
    rw [List.map_congr_left hrows]
    have h1 := filterMap_idxOf_map (dms.zip aligned) v (fun dl : Dataset × LMat => dl.1.nModel)
    rw [h1]
    -- replace `dms` by the datasets
    have hz : (dms.zip aligned).map (fun e => (e.1.1, e.2)) = g.datasets.zip aligned := by
      rw [← hfst, List.zip_map_left]
      rfl
    rw [← hz, List.filter_map, List.map_map]
    rfl

/-! ### one member dataset of a linked group -/

/-- the block of dataset `dk` in the stacked residual `r` of aligned value `v` (as `linkedOne` cuts it) -/
def sliceOf (da : List (Dataset × List Rat)) (dk : Dataset × List Rat) (v : Rat) (r : Vec) : Vec :=
  (r.drop ((((da.takeWhile (fun e => e.1.label != dk.1.label)).filter (fun e => e.2.contains v)).map
    (fun e => e.1.nModel)).foldl (· + ·) 0)).take dk.1.nModel

theorem linkedOne_weighted (mi : ModelItems) (da : List (Dataset × List Rat)) (axis : List Rat)
    (sols : List (IndexProblem × (Vec × Vec))) (dk : Dataset × List Rat) :
    weightedResidual (C03.linkedOne mi da axis sols dk) =
      C03.ofColumns dk.1.nModel
        (((axis.zip sols).filter (fun vs => dk.2.contains vs.1)).map (fun vs => sliceOf da dk vs.1 vs.2.2.2)) := by
  unfold C03.linkedOne
  rw [weightedResidual_finish]
  simp only [List.map_map, sliceOf]
  rfl

/-- with pairwise different dataset labels the offset `linkedOne` uses is the total size of the members before
    `dk` among the members of `v` -/
theorem sliceOf_eq (da : List (Dataset × List Rat)) (dk : Dataset × List Rat) (v : Rat) (r : Vec)
    (hnd : (da.map (fun e => e.1.label)).Nodup) (hdk : dk ∈ da) (hv : dk.2.contains v = true) :
    sliceOf da dk v r =
      (r.drop ((((da.filter (fun e => e.2.contains v)).takeWhile (fun e => e.1.label != dk.1.label)).map
        (fun e => e.1.nModel)).sum)).take dk.1.nModel := by
  unfold sliceOf
  rw [C03.foldl_add_eq_sum, takeWhile_filter_comm]
  intro y hy hP
  have hlab : y.1.label = dk.1.label := by simpa using hP
  have : y = dk := List.inj_on_of_nodup_map hnd hy hdk hlab
  rw [this]; exact hv

/-! ### the linked group -/

theorem filter_map_map {α β γ} (l : List α) (g : α → β) (P : β → Bool) (F : β → γ) :
    ((l.map g).filter P).map F = (l.filter (fun a => P (g a))).map (fun a => F (g a)) := by
  rw [List.filter_map, List.map_map]; rfl

open Glotaran.C02.Length in
/-- **linked group**: the residual part of the penalty vector and the weighted residuals of the group's result
    datasets have the same sum of squares, provided the dataset labels are pairwise different, the datasets are
    shape-consistent and the stacked matrix of every aligned value has at least one row per stacked data point. -/
theorem linkedGroup_sumsq (mi : ModelItems) (g : Group) (res pens : Vec) (rs : List C03.DsResult)
    (hl : g.linked = true) (hwf : ∀ d ∈ g.datasets, d.WFWeak)
    (hlab : (g.datasets.map (·.label)).Nodup)
    (hshape : ∀ axis ps, linkedProblems mi g = some (axis, ps) → ∀ p ∈ ps, p.data.length ≤ p.reduced.m.length)
    (h1 : groupPenaltyParts mi g = some (res, pens)) (h2 : C03.groupResults mi g = some rs) :
    sumOfSquares res = (rs.map (fun r => matSumSq (weightedResidual r))).sum := by
  unfold groupPenaltyParts at h1
  unfold C03.groupResults at h2
  simp only [hl, if_true] at h1 h2
  rw [C03.linkedResults_eq] at h2
  unfold linkedGroup at h1
  cases hal : alignAxes (g.datasets.map (·.globalAxis)) g.tol g.method with
  | none => simp [hal] at h2
  | some aligned =>
  cases hlp : linkedProblems mi g with
  | none => simp [hlp] at h1
  | some ap =>
  obtain ⟨axis, ps⟩ := ap
  simp only [hal, hlp] at h1 h2
  cases hsols : ps.mapM (fun p => (solveLS g.solver p.reduced.m p.data).map (fun cr => (p, cr))) with
  | none => simp [hsols] at h1
  | some sols =>
  simp only [hsols, Option.some.injEq, Prod.mk.injEq] at h1 h2
  obtain ⟨rfl, _⟩ := h1
  subst h2
  have hfst : sols.map (·.1) = ps := mapM_pair_fst _ ps sols hsols
  have hx : ps.map (·.x) = axis := (linkedProblems_labels mi g axis ps hlp).1
  have haxis : axis = sols.map (fun s => s.1.x) := by
    rw [← hx, ← hfst, List.map_map]; rfl
  have hzip : axis.zip sols = sols.map (fun s => (s.1.x, s)) := by
    conv => lhs; rw [haxis]; arg 2; rw [← List.map_id sols]
    rw [List.zip_map']; rfl
  have hnd : ((g.datasets.zip aligned).map (fun e => e.1.label)).Nodup := by
    have hsub : List.Sublist ((g.datasets.zip aligned).map (fun e => e.1.label)) (g.datasets.map (·.label)) := by
      have := (C11.zip_fst_sublist g.datasets aligned).map (fun d : Dataset => d.label)
      simpa [List.map_map, Function.comp_def] using this
    exact hsub.nodup hlab
  have hdlen := linkedProblems_data_length mi g aligned axis ps hwf hal hlp
  -- the residual of every aligned value has one entry per model-axis point of every member
  have hres : ∀ s ∈ sols, s.2.2.length =
      ((((g.datasets.zip aligned).filter (fun e => e.2.contains s.1.x)).map (fun e => e.1.nModel)).sum) :=
    mapM_option_forall _ (fun s : IndexProblem × Vec × Vec => s.2.2.length =
        ((((g.datasets.zip aligned).filter (fun e => e.2.contains s.1.x)).map (fun e => e.1.nModel)).sum))
      ps sols hsols (by
        intro p hp s hs
        cases hsol : solveLS g.solver p.reduced.m p.data with
        | none => simp [hsol] at hs
        | some cr =>
          simp only [hsol, Option.map_some, Option.some.injEq] at hs
          subst hs
          have h1 := len_solveLS _ _ _ _ hsol
          have h2 := hshape axis ps hlp p hp
          have h3 := hdlen p hp
          simp only
          omega)
  -- per aligned value: the members' blocks cover the stacked residual
  have hcover : ∀ s ∈ sols,
      ((((g.datasets.zip aligned).filter (fun dk => dk.2.contains s.1.x)).map
          (fun dk => sumOfSquares (sliceOf (g.datasets.zip aligned) dk s.1.x s.2.2))).sum = sumOfSquares s.2.2) ∧
      ∀ dk ∈ (g.datasets.zip aligned).filter (fun dk => dk.2.contains s.1.x),
        (sliceOf (g.datasets.zip aligned) dk s.1.x s.2.2).length = dk.1.nModel := by
    intro s hs
    have hkeys : ((((g.datasets.zip aligned).filter (fun dk => dk.2.contains s.1.x)).map (fun e => e.1.label))).Nodup :=
      (List.Sublist.map _ List.filter_sublist).nodup hnd
    obtain ⟨c1, c2⟩ := blocks_cover (fun e : Dataset × List Rat => e.1.label) (fun e => e.1.nModel)
      ((g.datasets.zip aligned).filter (fun dk => dk.2.contains s.1.x)) s.2.2 hkeys (hres s hs).symm
    have hsl : ∀ dk ∈ (g.datasets.zip aligned).filter (fun dk => dk.2.contains s.1.x),
        sliceOf (g.datasets.zip aligned) dk s.1.x s.2.2 =
          (s.2.2.drop (((((g.datasets.zip aligned).filter (fun e => e.2.contains s.1.x)).takeWhile
            (fun e => e.1.label != dk.1.label)).map (fun e => e.1.nModel)).sum)).take dk.1.nModel := by
      intro dk hdk
      obtain ⟨hm, hc⟩ := List.mem_filter.mp hdk
      exact sliceOf_eq _ dk s.1.x s.2.2 hnd hm hc
    constructor
    · rw [← c1]
      congr 1
      apply List.map_congr_left
      intro dk hdk
      rw [hsl dk hdk]
    · intro dk hdk
      rw [hsl dk hdk]
      exact c2 dk hdk
  -- left-hand side
  rw [sumOfSquares_flatMap]
  -- right-hand side
  rw [List.map_map]
  have hrhs : ∀ dk ∈ g.datasets.zip aligned,
      ((fun r => matSumSq (weightedResidual r)) ∘ C03.linkedOne mi (g.datasets.zip aligned) axis sols) dk =
        ((sols.filter (fun s => dk.2.contains s.1.x)).map
          (fun s => sumOfSquares (sliceOf (g.datasets.zip aligned) dk s.1.x s.2.2))).sum := by
    intro dk hdk
    simp only [Function.comp]
    rw [linkedOne_weighted, hzip, filter_map_map, matSumSq_ofColumns, sumOfSquares_flatten, List.map_map]
    · rfl
    · intro c hc
      obtain ⟨s, hs, rfl⟩ := List.mem_map.mp hc
      obtain ⟨hs1, hs2⟩ := List.mem_filter.mp hs
      exact (hcover s hs1).2 dk (List.mem_filter.mpr ⟨hdk, hs2⟩)
  rw [List.map_congr_left hrhs]
  rw [sum_filter_swap (g.datasets.zip aligned) sols (fun dk s => dk.2.contains s.1.x)
    (fun dk s => sumOfSquares (sliceOf (g.datasets.zip aligned) dk s.1.x s.2.2))]
  congr 1
  apply List.map_congr_left
  intro s hs
  exact ((hcover s hs).1).symm

/-! ### shapes: the stacked matrix of an aligned value has a row per stacked data point -/

/-- the row count of the stacked matrix is the sum of the blocks' row counts (any number of blocks) -/
theorem alignMatrices_rows_all (bs : List (LMat2 × Rat)) :
    (alignMatrices bs).m.length = (bs.map (·.1.m.length)).sum := by
  match bs with
  | [] => simp [alignMatrices]
  | [b] => simp [alignMatrices, length_mscale]
  | b1 :: b2 :: rest => exact alignMatrices_rows_length _ (by simp)

/-- alignment keeps the number of points of every axis -/
theorem alignAxes_lengths (axes : List (List Rat)) (tol : Rat) (m : Method) (aligned : List (List Rat))
    (h : alignAxes axes tol m = some aligned) : aligned.map List.length = axes.map List.length := by
  cases axes with
  | nil => simp only [alignAxes, Option.some.injEq] at h; subst h; rfl
  | cons first rest =>
    simp only [alignAxes] at h
    obtain ⟨acc, hacc, rfl⟩ := Option.map_eq_some_iff.mp h
    -- invariant of the fold: `done` has the lengths of the axes processed so far
    have key : ∀ (rest : List (List Rat)) (vals : List Rat) (done : List (List Rat)) (acc : List Rat × List (List Rat)),
        rest.foldl (fun (acc : Option (List Rat × List (List Rat))) ax =>
          match acc with
          | none => none
          | some (vals, done) =>
            let al := ax.map (fun x => alignIndex x vals tol m)
            if hasDup al then none else some (sortedUnion [] (vals ++ al), done ++ [al])) (some (vals, done)) = some acc →
        acc.2.map List.length = done.map List.length ++ rest.map List.length := by
      intro rest
      induction rest with
      | nil =>
        intro vals done acc h
        simp only [List.foldl_nil, Option.some.injEq] at h
        subst h; simp
      | cons ax rest ih =>
        intro vals done acc h
        simp only [List.foldl_cons] at h
        by_cases hd : hasDup (ax.map (fun x => alignIndex x vals tol m)) = true
        · simp only [hd, if_true] at h
          -- the fold stays `none`
          have hnone : ∀ (l : List (List Rat)), l.foldl (fun (acc : Option (List Rat × List (List Rat))) ax =>
              match acc with
              | none => none
              | some (vals, done) =>
                let al := ax.map (fun x => alignIndex x vals tol m)
                if hasDup al then none else some (sortedUnion [] (vals ++ al), done ++ [al])) none = none := by
            intro l; induction l with
            | nil => rfl
            | cons a l ih => simpa using ih
          rw [hnone] at h; cases h
        · simp only [hd] at h
          have := ih _ _ acc h
          rw [this]
          simp
    have := key rest first [first] acc hacc
    simpa using this

theorem zip_lengths {α} (l : List α) (f : α → Nat) :
    ∀ (m : List (List Rat)), m.map List.length = l.map f → ∀ e ∈ l.zip m, e.2.length = f e.1 := by
  induction l with
  | nil => intro m _ e he; simp at he
  | cons a l ih =>
    intro m hm e he
    cases m with
    | nil => simp at he
    | cons b m =>
      simp only [List.map_cons, List.cons.injEq] at hm
      rcases List.mem_cons.mp (by simpa using he) with rfl | h'
      · exact hm.1
      · exact ih m hm.2 e h'

open Glotaran.C02.Length in
/-- **shape**: for shape-consistent datasets the (weighted, reduced) stacked matrix of every aligned value has at
    least as many rows as the stacked data has entries -/
theorem linkedProblems_rows (mi : ModelItems) (g : Group) (axis : List Rat) (ps : List IndexProblem)
    (hwf : ∀ d ∈ g.datasets, d.WFWeak) (h : linkedProblems mi g = some (axis, ps)) :
    ∀ p ∈ ps, p.data.length ≤ p.reduced.m.length := by
  unfold linkedProblems at h
  split at h
  · cases h
  · rename_i aligned hal
    split at h
    · cases h
    · rename_i dms hdms
      simp only [Option.some.injEq, Prod.mk.injEq] at h
      obtain ⟨_, rfl⟩ := h
      intro p hp
      simp only [List.mem_map] at hp
      obtain ⟨v, _, rfl⟩ := hp
      simp only
      have hfst : dms.map (·.1) = g.datasets := mapM_pair_fst (fun d => datasetMatrix d.mcs) g.datasets dms hdms
      have hlens := alignAxes_lengths _ _ _ _ hal
      have hzl : ∀ e ∈ dms.zip aligned, e.2.length = e.1.1.nGlobal := by
        apply zip_lengths dms (fun dl => dl.1.nGlobal) aligned
        rw [hlens, ← hfst, List.map_map, List.map_map]; rfl
      -- facts about every member `di = ((d, lm), i)` of the aligned value
      have hmem : ∀ di ∈ (dms.zip aligned).filterMap (fun da => (da.2.idxOf? v).map (fun i => (da.1, i))),
          di.1.1 ∈ g.datasets ∧ datasetMatrix di.1.1.mcs = some di.1.2 ∧ di.2 < di.1.1.nGlobal := by
        intro di hdi
        obtain ⟨da, hda, hdi'⟩ := List.mem_filterMap.mp hdi
        obtain ⟨i, hi, rfl⟩ := Option.map_eq_some_iff.mp hdi'
        have hin : da.1 ∈ dms := (List.of_mem_zip hda).1
        refine ⟨by rw [← hfst]; exact List.mem_map.mpr ⟨da.1, hin, rfl⟩, ?_, ?_⟩
        · have hall := mapM_option_forall (fun d : Dataset => (datasetMatrix d.mcs).map (fun lm => (d, lm)))
            (fun dl : Dataset × LMat => datasetMatrix dl.1.mcs = some dl.2) g.datasets dms hdms (by
              intro d _ dl hdl
              obtain ⟨lm, hlm, rfl⟩ := Option.map_eq_some_iff.mp hdl
              exact hlm)
          exact hall da.1 hin
        · have hlt : i < da.2.length := by
            have := List.idxOf?_eq_some_iff.mp hi
            exact this.1
          rw [hzl da hda] at hlt
          exact hlt
      -- data length
      have hdata : (((dms.zip aligned).filterMap (fun da => (da.2.idxOf? v).map (fun i => (da.1, i)))).flatMap
          (fun di => col di.1.1.weightedData di.2)).length =
          ((((dms.zip aligned).filterMap (fun da => (da.2.idxOf? v).map (fun i => (da.1, i)))).map
            (fun di => di.1.1.nModel)).sum) := by
        rw [List.length_flatMap]
        congr 1
        apply List.map_congr_left
        intro di hdi
        rw [len_col]
        exact rows_weightedData _ (hwf _ (hmem di hdi).1)
      -- rows of the stacked matrix
      have hrows : ((((dms.zip aligned).filterMap (fun da => (da.2.idxOf? v).map (fun i => (da.1, i)))).map
            (fun di => di.1.1.nModel)).sum) ≤
          (alignMatrices (((dms.zip aligned).filterMap (fun da => (da.2.idxOf? v).map (fun i => (da.1, i)))).map
            (fun di => ((slices di.1.2 di.1.1.nGlobal).getD di.2 default, di.1.1.scale.getD 1)))).m.length := by
        rw [alignMatrices_rows_all, List.map_map]
        apply List.sum_le_sum
        intro di hdi
        obtain ⟨hd, hlm, hlt⟩ := hmem di hdi
        have hbody : BodyOK di.1.1.nModel di.1.1.nGlobal di.1.2.body :=
          bodyOK_datasetMatrix _ _ _ _ (wfWeak_bodyOK _ (hwf _ hd)) hlm
        exact rows_slices di.1.1.nModel di.1.1.nGlobal di.1.2.labels di.1.2.body hbody di.2 hlt
      -- weight vector
      have hw : ((((dms.zip aligned).filterMap (fun da => (da.2.idxOf? v).map (fun i => (da.1, i)))).map
            (fun di => di.1.1.nModel)).sum) ≤
          (((dms.zip aligned).filterMap (fun da => (da.2.idxOf? v).map (fun i => (da.1, i)))).flatMap
            (fun di => match di.1.1.weight with
              | some w => col w di.2
              | none => List.replicate di.1.1.nModel 1)).length := by
        rw [List.length_flatMap]
        apply List.sum_le_sum
        intro di hdi
        cases hwt : di.1.1.weight with
        | none => simp
        | some w =>
          simp only [len_col]
          exact (hwf _ (hmem di hdi).1).1 w hwt
      rw [hdata]
      split
      · simp only [rows_weightRows, rows_reduceAt]
        exact Nat.le_min.mpr ⟨hrows, hw⟩
      · simp only [rows_reduceAt]
        exact hrows

/-! ### final forms -/

/-- `linkedGroup_sumsq` with the shape hypothesis discharged from `WFWeak` -/
theorem linkedGroup_sumsq_wf (mi : ModelItems) (g : Group) (res pens : Vec) (rs : List C03.DsResult)
    (hl : g.linked = true) (hwf : ∀ d ∈ g.datasets, d.WFWeak)
    (hlab : (g.datasets.map (·.label)).Nodup)
    (h1 : groupPenaltyParts mi g = some (res, pens)) (h2 : C03.groupResults mi g = some rs) :
    sumOfSquares res = (rs.map (fun r => matSumSq (weightedResidual r))).sum :=
  linkedGroup_sumsq mi g res pens rs hl hwf hlab
    (fun axis ps h => linkedProblems_rows mi g axis ps hwf h) h1 h2

open Glotaran.C02.Length in
/-- **linked group, number of residual entries**: every dataset contributes its model axis once for every aligned
    value it is a member of -/
theorem linkedGroup_length (mi : ModelItems) (g : Group) (res pens : Vec) (aligned : List (List Rat))
    (axis : List Rat) (ps : List IndexProblem)
    (hl : g.linked = true) (hwf : ∀ d ∈ g.datasets, d.WFWeak)
    (hal : alignAxes (g.datasets.map (·.globalAxis)) g.tol g.method = some aligned)
    (hlp : linkedProblems mi g = some (axis, ps))
    (h1 : groupPenaltyParts mi g = some (res, pens)) :
    res.length = ((g.datasets.zip aligned).map
      (fun dk => dk.1.nModel * (axis.filter (fun v => dk.2.contains v)).length)).sum := by
  unfold groupPenaltyParts at h1
  simp only [hl, if_true] at h1
  unfold linkedGroup at h1
  simp only [hlp] at h1
  cases hsols : ps.mapM (fun p => (solveLS g.solver p.reduced.m p.data).map (fun cr => (p, cr))) with
  | none => simp [hsols] at h1
  | some sols =>
  simp only [hsols, Option.some.injEq, Prod.mk.injEq] at h1
  obtain ⟨rfl, _⟩ := h1
  have hfst : sols.map (·.1) = ps := mapM_pair_fst _ ps sols hsols
  have hx : ps.map (·.x) = axis := (linkedProblems_labels mi g axis ps hlp).1
  have haxis : axis = sols.map (fun s => s.1.x) := by
    rw [← hx, ← hfst, List.map_map]; rfl
  have hdlen := linkedProblems_data_length mi g aligned axis ps hwf hal hlp
  have hrows := linkedProblems_rows mi g axis ps hwf hlp
  have hres : ∀ s ∈ sols, s.2.2.length =
      ((((g.datasets.zip aligned).filter (fun e => e.2.contains s.1.x)).map (fun e => e.1.nModel)).sum) :=
    mapM_option_forall _ (fun s : IndexProblem × Vec × Vec => s.2.2.length =
        ((((g.datasets.zip aligned).filter (fun e => e.2.contains s.1.x)).map (fun e => e.1.nModel)).sum))
      ps sols hsols (by
        intro p hp s hs
        cases hsol : solveLS g.solver p.reduced.m p.data with
        | none => simp [hsol] at hs
        | some cr =>
          simp only [hsol, Option.map_some, Option.some.injEq] at hs
          subst hs
          have h1 := len_solveLS _ _ _ _ hsol
          have h2 := hrows p hp
          have h3 := hdlen p hp
          simp only
          omega)
  rw [List.length_flatMap, List.map_congr_left hres]
  rw [← sum_filter_swap (g.datasets.zip aligned) sols (fun dk s => dk.2.contains s.1.x) (fun dk _ => dk.1.nModel)]
  congr 1
  apply List.map_congr_left
  intro dk _
  rw [haxis, List.filter_map, List.length_map]
  simp [Function.comp_def, Nat.mul_comm]

/-! ### full model (dataset with a global model) -/

theorem chunk_cover (n : Nat) : ∀ (k : Nat) (v : Vec), v.length = n * k →
    (C03.chunk n k v).flatten = v ∧ ∀ c ∈ C03.chunk n k v, c.length = n := by
  intro k
  induction k with
  | zero =>
    intro v hv
    have : v = [] := List.length_eq_zero_iff.mp (by simpa using hv)
    subst this
    exact ⟨rfl, by intro c hc; cases hc⟩
  | succ k ih =>
    intro v hv
    have hlen : (v.drop n).length = n * k := by rw [List.length_drop, hv, Nat.mul_succ]; omega
    obtain ⟨i1, i2⟩ := ih (v.drop n) hlen
    simp only [C03.chunk]
    constructor
    · rw [List.flatten_cons, i1, List.take_append_drop]
    · intro c hc
      rcases List.mem_cons.mp hc with rfl | hc'
      · rw [List.length_take, hv, Nat.mul_succ]; omega
      · exact i2 c hc'

open Glotaran.C02.Length in
/-- a dataset with a global model whose full matrix has a row per data point: the flattened residual and the
    residual of the result dataset (cut global-major into columns) have the same sum of squares -/
theorem fullDataset_sumsq (mi : ModelItems) (s : Solver) (d : Dataset) (rp : Vec × Vec) (r : C03.DsResult)
    (hg : d.gmcs ≠ []) (hwf : d.WFWeak)
    (hfull : ∀ a y, fullModelProblem d = some (a, y) → y.length ≤ a.length)
    (h1 : unlinkedDataset mi s d = some rp) (h2 : C03.unlinkedResult mi s d = some r) :
    sumOfSquares rp.1 = matSumSq (weightedResidual r) := by
  have hne : d.gmcs.isEmpty = false := by
    cases hd : d.gmcs with
    | nil => exact absurd hd hg
    | cons _ _ => rfl
  unfold unlinkedDataset at h1
  unfold C03.unlinkedResult at h2
  simp only [hne, Bool.not_false, if_true] at h1 h2
  cases hfp : fullModelProblem d with
  | none => simp [hfp] at h1
  | some ay =>
    obtain ⟨a, y⟩ := ay
    simp only [hfp] at h1 h2
    cases hlm : datasetMatrix d.mcs with
    | none => simp [hlm] at h2
    | some lm =>
      cases hgm : datasetMatrix d.gmcs with
      | none => simp [hlm, hgm] at h2
      | some gm =>
        simp only [hlm, hgm] at h2
        cases hsol : solveLS s a y with
        | none => simp [hsol] at h1
        | some cr =>
          simp only [hsol, Option.map_some, Option.some.injEq] at h1 h2
          subst h1 h2
          rw [weightedResidual_finish]
          -- length of the flattened data
          have hy : y.length = d.nModel * d.nGlobal := by
            unfold fullModelProblem at hfp
            simp only [hlm, hgm, Option.some.injEq, Prod.mk.injEq] at hfp
            obtain ⟨_, rfl⟩ := hfp
            rw [List.length_flatMap]
            simp only [len_col, rows_weightedData d hwf]
            simp [Dataset.nGlobal, Nat.mul_comm]
          have hlen : cr.2.length = d.nModel * d.nGlobal := by
            have := len_solveLS _ _ _ _ hsol
            have := hfull a y hfp
            omega
          obtain ⟨c1, c2⟩ := chunk_cover d.nModel d.nGlobal cr.2 hlen
          rw [matSumSq_ofColumns d.nModel _ c2, c1]

/-- any dataset of an unlinked group -/
theorem anyDataset_sumsq (mi : ModelItems) (s : Solver) (d : Dataset) (rp : Vec × Vec) (r : C03.DsResult)
    (hwf : d.WFWeak)
    (hfull : d.gmcs ≠ [] → ∀ a y, fullModelProblem d = some (a, y) → y.length ≤ a.length)
    (h1 : unlinkedDataset mi s d = some rp) (h2 : C03.unlinkedResult mi s d = some r) :
    sumOfSquares rp.1 = matSumSq (weightedResidual r) := by
  by_cases hg : d.gmcs = []
  · exact unlinkedDataset_sumsq mi s d rp r hg hwf h1 h2
  · exact fullDataset_sumsq mi s d rp r hg hwf (hfull hg) h1 h2

/-- an unlinked group, datasets with or without global model -/
theorem unlinkedGroup_sumsq_all (mi : ModelItems) (g : Group) (res pens : Vec) (rs : List C03.DsResult)
    (hl : g.linked = false) (hwf : ∀ d ∈ g.datasets, d.WFWeak)
    (hfull : ∀ d ∈ g.datasets, d.gmcs ≠ [] → ∀ a y, fullModelProblem d = some (a, y) → y.length ≤ a.length)
    (h1 : groupPenaltyParts mi g = some (res, pens)) (h2 : C03.groupResults mi g = some rs) :
    sumOfSquares res = (rs.map (fun r => matSumSq (weightedResidual r))).sum := by
  unfold groupPenaltyParts at h1
  unfold C03.groupResults at h2
  simp only [hl, Bool.false_eq_true, if_false] at h1 h2
  cases hparts : g.datasets.mapM (unlinkedDataset mi g.solver) with
  | none => simp [hparts] at h1
  | some parts =>
    simp only [hparts, Option.map_some, Option.some.injEq, Prod.mk.injEq] at h1
    obtain ⟨rfl, _⟩ := h1
    rw [sumOfSquares_flatMap]
    have key : ∀ (ds : List Dataset) (parts : List (Vec × Vec)) (rs : List C03.DsResult),
        (∀ d ∈ ds, d.WFWeak) →
        (∀ d ∈ ds, d.gmcs ≠ [] → ∀ a y, fullModelProblem d = some (a, y) → y.length ≤ a.length) →
        ds.mapM (unlinkedDataset mi g.solver) = some parts →
        ds.mapM (C03.unlinkedResult mi g.solver) = some rs →
        (parts.map (fun a => sumOfSquares a.1)).sum = (rs.map (fun r => matSumSq (weightedResidual r))).sum := by
      intro ds
      induction ds with
      | nil =>
        intro parts rs _ _ hp hr
        simp only [List.mapM_nil] at hp hr
        cases hp; cases hr; rfl
      | cons d ds ih =>
        intro parts rs hwf' hfull' hp hr
        rw [List.mapM_cons] at hp hr
        cases hd1 : unlinkedDataset mi g.solver d with
        | none => simp [hd1] at hp
        | some rp =>
          cases hd2 : C03.unlinkedResult mi g.solver d with
          | none => simp [hd2] at hr
          | some r =>
            cases ht1 : ds.mapM (unlinkedDataset mi g.solver) with
            | none => simp [hd1, ht1] at hp
            | some parts' =>
              cases ht2 : ds.mapM (C03.unlinkedResult mi g.solver) with
              | none => simp [hd2, ht2] at hr
              | some rs' =>
                simp [hd1, ht1] at hp
                simp [hd2, ht2] at hr
                subst hp hr
                simp only [List.map_cons, List.sum_cons]
                rw [anyDataset_sumsq mi g.solver d rp r (hwf' d List.mem_cons_self) (hfull' d List.mem_cons_self) hd1 hd2,
                  ih parts' rs' (fun d hd => hwf' d (List.mem_cons_of_mem _ hd))
                    (fun d hd => hfull' d (List.mem_cons_of_mem _ hd)) ht1 ht2]
    exact key g.datasets parts rs hwf hfull hparts h2

end Glotaran.C13
