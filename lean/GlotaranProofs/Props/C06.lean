/-
C06 — labelled outputs follow their labels: declaration order and composition.
Property theorems about `Glotaran.C06` (lean/GlotaranModel/C06.lean) and about `combine` /
`datasetMatrix` of `Glotaran.C02` (the definitions the C02, C03 and C06 drivers execute).

Vocabulary:  `entry lm l i r` is the entry in row `r` of the column stored under clp label `l` at
global index `i` (0 when the label is absent; a 2-D matrix ignores `i`);  `Shaped b nRows nIdx`
says that every (slice of the) matrix has `nRows` rows and a 3-D one has `nIdx` slices;
`factor o` is the megacomplex scale (1 when none is given).
-/
import GlotaranProofs.Lemmas.C06
import GlotaranProofs.Lemmas.C06Reorder
import GlotaranProofs.Lemmas.C06Tables
import GlotaranProofs.Lemmas.C06LS
namespace Glotaran.C06
open Glotaran.LinAlg Glotaran.C02

/-! ## 1. Composition: shared labels add, different labels stay separate, 2-D promotes to 3-D -/

/-- **combine_col.** For every rank combination (2-D/2-D, 3-D/2-D, 2-D/3-D with the swap, 3-D/3-D),
    every label, index and row: the combined column is the sum of the two contributed columns,
    an absent label contributing zero. -/
theorem combine_entry (a b : LMat) (nRows nIdx : Nat) (ha : Shaped a.body nRows nIdx)
    (hb : Shaped b.body nRows nIdx) (l : String) (i r : Nat) (hi : i < nIdx) :
    entry (combine a b) l i r = entry a l i r + entry b l i r :=
  combine_entry_lem a b nRows nIdx ha hb l i r hi

/-- 2-D left (labels a, b), 3-D right (labels b, c): the shared label `b` at index 1, row 0 -/
example :
    entry (combine ⟨["a", "b"], .d2 [[1, 2], [3, 4]]⟩ ⟨["b", "c"], .d3 [[[5, 6], [7, 8]], [[9, 10], [11, 12]]]⟩) "b" 1 0
      = entry ⟨["a", "b"], .d2 [[1, 2], [3, 4]]⟩ "b" 1 0 +
        entry ⟨["b", "c"], .d3 [[[5, 6], [7, 8]], [[9, 10], [11, 12]]]⟩ "b" 1 0 :=
  combine_entry _ _ 2 2 (by simp [Shaped]) (by simp [Shaped]) "b" 1 0 (by decide)

example : entry (combine ⟨["a", "b"], .d2 [[1, 2], [3, 4]]⟩ ⟨["b", "c"], .d3 [[[5, 6], [7, 8]], [[9, 10], [11, 12]]]⟩) "b" 1 0 = 11 := by
  decide +kernel

/-- the result keeps the shape, so the statement iterates -/
theorem combine_shaped (a b : LMat) (nRows nIdx : Nat) (ha : Shaped a.body nRows nIdx)
    (hb : Shaped b.body nRows nIdx) : Shaped (combine a b).body nRows nIdx :=
  combine_shaped_lem a b nRows nIdx ha hb

example : Shaped (combine ⟨["a"], .d2 [[1], [3]]⟩ ⟨["b"], .d3 [[[5], [7]], [[9], [11]]]⟩).body 2 2 :=
  combine_shaped _ _ 2 2 (by simp [Shaped]) (by simp [Shaped])

/-- a label that no megacomplex declares has no column: its entries read as 0 -/
theorem entry_absent_label (lm : LMat) (l : String) (h : l ∉ lm.labels) (i r : Nat) :
    entry lm l i r = 0 := by
  obtain ⟨labels, body⟩ := lm
  cases body with
  | d2 m => simp [entry, bodyColAt, colOf_eq_none_of_not_mem labels m l h]
  | d3 ms =>
    simp only [entry, bodyColAt]
    cases ms[i]? with
    | none => simp
    | some m => simp [colOf_eq_none_of_not_mem labels m l h]

example : entry ⟨["a", "b"], .d2 [[1, 2], [3, 4]]⟩ "z" 0 1 = 0 := entry_absent_label _ "z" (by decide) 0 1

/-- **combine_comm_by_label.** Which megacomplex comes first does not matter for any labelled column. -/
theorem combine_comm_by_label (a b : LMat) (nRows nIdx : Nat) (ha : Shaped a.body nRows nIdx)
    (hb : Shaped b.body nRows nIdx) (l : String) (i r : Nat) (hi : i < nIdx) :
    entry (combine a b) l i r = entry (combine b a) l i r := by
  rw [combine_entry a b nRows nIdx ha hb l i r hi, combine_entry b a nRows nIdx hb ha l i r hi]
  exact Rat.add_comm _ _

example : entry (combine ⟨["a", "b"], .d2 [[1, 2]]⟩ ⟨["b", "c"], .d2 [[5, 6]]⟩) "b" 0 0 =
    entry (combine ⟨["b", "c"], .d2 [[5, 6]]⟩ ⟨["a", "b"], .d2 [[1, 2]]⟩) "b" 0 0 :=
  combine_comm_by_label _ _ 1 1 (by simp [Shaped]) (by simp [Shaped]) "b" 0 0 (by decide)

/-- the two orders give the same labels up to a permutation -/
theorem combine_labels_perm (a b : LMat) (ha : a.labels.Nodup) (hb : b.labels.Nodup) :
    (combine a b).labels.Perm (combine b a).labels := by
  rw [List.perm_ext_iff_of_nodup (combine_labels_nodup_lem a b ha hb) (combine_labels_nodup_lem b a hb ha)]
  intro l
  rw [combine_labels_mem_lem, combine_labels_mem_lem]
  exact Or.comm

example : (combine ⟨["a", "b"], .d2 [[1, 2]]⟩ ⟨["b", "c"], .d2 [[5, 6]]⟩).labels = ["a", "b", "c"] ∧
    (combine ⟨["b", "c"], .d2 [[5, 6]]⟩ ⟨["a", "b"], .d2 [[1, 2]]⟩).labels = ["b", "c", "a"] := by decide

/-- **combine_promote.** Index-independent and index-dependent contributions combine to the same
    per-index matrices: slice `i` of the promoted result is, by label, the 2-D combination of the
    2-D matrix with slice `i` of the 3-D one. -/
theorem combine_promote (la lb : List String) (ma : Mat) (bs : List Mat) (nRows nIdx : Nat)
    (hma : ma.length = nRows) (hbs : Shaped (.d3 bs) nRows nIdx) (l : String) (i r : Nat) (hi : i < nIdx) :
    entry (combine ⟨la, .d2 ma⟩ ⟨lb, .d3 bs⟩) l i r =
      entry (combine ⟨la, .d2 ma⟩ (sliceAt ⟨lb, .d3 bs⟩ i)) l 0 r := by
  obtain ⟨m, hm, hmr⟩ := shaped_d3_get hbs hi
  have hslice : sliceAt ⟨lb, .d3 bs⟩ i = ⟨lb, .d2 m⟩ := by
    simp [sliceAt, sliceMat, List.getD_eq_getElem?_getD, hm]
  rw [combine_entry ⟨la, .d2 ma⟩ ⟨lb, .d3 bs⟩ nRows nIdx hma hbs l i r hi, hslice,
    combine_entry ⟨la, .d2 ma⟩ ⟨lb, .d2 m⟩ nRows 1 hma hmr l 0 r (by decide),
    entry_d3 lb bs l i r m hm]
  rfl

example : entry (combine ⟨["a", "b"], .d2 [[1, 2], [3, 4]]⟩ ⟨["b", "c"], .d3 [[[5, 6], [7, 8]], [[9, 10], [11, 12]]]⟩) "b" 1 1 =
    entry (combine ⟨["a", "b"], .d2 [[1, 2], [3, 4]]⟩ (sliceAt ⟨["b", "c"], .d3 [[[5, 6], [7, 8]], [[9, 10], [11, 12]]]⟩ 1)) "b" 0 1 :=
  combine_promote _ _ _ _ 2 2 rfl (by simp [Shaped]) "b" 1 1 (by decide)

/-- **the dataset matrix by label.** Whatever the number and ranks of the megacomplexes: the column
    under a label is the sum over *all* megacomplexes of `scale × (its column under that label)`. -/
theorem datasetMatrix_entry (mcs : List McOut) (lm : LMat) (h : datasetMatrix mcs = some lm)
    (nRows nIdx : Nat) (hs : ∀ o ∈ mcs, Shaped o.out.body nRows nIdx) (l : String) (i r : Nat)
    (hi : i < nIdx) :
    entry lm l i r = (mcs.map (fun o => factor o * entry o.out l i r)).sum :=
  (datasetMatrix_entry_lem mcs lm h nRows nIdx hs l i r hi).2

theorem datasetMatrix_shaped (mcs : List McOut) (lm : LMat) (h : datasetMatrix mcs = some lm)
    (nRows nIdx : Nat) (hs : ∀ o ∈ mcs, Shaped o.out.body nRows nIdx) (hi : 0 < nIdx) :
    Shaped lm.body nRows nIdx :=
  (datasetMatrix_entry_lem mcs lm h nRows nIdx hs "" 0 0 hi).1

/-- three megacomplexes, two of them scaled, one 3-D, label `b` shared by all -/
def exampleMcs : List McOut :=
  [⟨⟨["a", "b"], .d2 [[1, 2], [3, 4]]⟩, some 2⟩, ⟨⟨["b", "c"], .d3 [[[5, 6], [7, 8]], [[9, 10], [11, 12]]]⟩, none⟩,
   ⟨⟨["b"], .d2 [[1], [1]]⟩, some (1/2)⟩]

example : ∃ lm, datasetMatrix exampleMcs = some lm ∧
    entry lm "b" 1 0 = (exampleMcs.map (fun o => factor o * entry o.out "b" 1 0)).sum := by
  refine ⟨_, rfl, datasetMatrix_entry exampleMcs _ rfl 2 2 ?_ "b" 1 0 (by decide)⟩
  intro o ho
  simp only [exampleMcs, List.mem_cons, List.not_mem_nil, or_false] at ho
  rcases ho with rfl | rfl | rfl <;> simp [Shaped]

example : (exampleMcs.map (fun o => factor o * entry o.out "b" 1 0)).sum = 2 * 2 + 9 + 1/2 := by decide +kernel

/-- **datasetMatrix_perm.** Permuting the megacomplexes of a dataset (with their scales) leaves every
    labelled column unchanged. -/
theorem datasetMatrix_perm (mcs mcs' : List McOut) (hp : mcs'.Perm mcs) (lm : LMat)
    (h : datasetMatrix mcs = some lm) (nRows nIdx : Nat)
    (hs : ∀ o ∈ mcs, Shaped o.out.body nRows nIdx) :
    ∃ lm', datasetMatrix mcs' = some lm' ∧
      ∀ l i r, i < nIdx → entry lm' l i r = entry lm l i r := by
  obtain ⟨lm', h'⟩ := datasetMatrix_isSome_of_perm hp lm h
  refine ⟨lm', h', ?_⟩
  intro l i r hi
  have hs' : ∀ o ∈ mcs', Shaped o.out.body nRows nIdx := fun o ho => hs o (hp.subset ho)
  rw [datasetMatrix_entry mcs' lm' h' nRows nIdx hs' l i r hi, datasetMatrix_entry mcs lm h nRows nIdx hs l i r hi]
  exact rat_sum_perm (hp.map _)

example : ∃ lm', datasetMatrix exampleMcs.reverse = some lm' ∧
    ∀ l i r, i < 2 → entry lm' l i r =
      entry ((datasetMatrix exampleMcs).getD default) l i r := by
  refine datasetMatrix_perm exampleMcs exampleMcs.reverse (List.reverse_perm _) _ rfl 2 2 ?_
  intro o ho
  simp only [exampleMcs, List.mem_cons, List.not_mem_nil, or_false] at ho
  rcases ho with rfl | rfl | rfl <;> simp [Shaped]

/-- labels of the dataset matrix: no duplicates … -/
theorem datasetMatrix_labels_nodup (mcs : List McOut) (lm : LMat) (h : datasetMatrix mcs = some lm)
    (hn : ∀ o ∈ mcs, o.out.labels.Nodup) : lm.labels.Nodup :=
  (datasetMatrix_labels_lem mcs lm h hn).1

/-- … and exactly the labels some megacomplex declares (different labels stay separate columns) -/
theorem datasetMatrix_labels_mem (mcs : List McOut) (lm : LMat) (h : datasetMatrix mcs = some lm)
    (hn : ∀ o ∈ mcs, o.out.labels.Nodup) (l : String) :
    l ∈ lm.labels ↔ ∃ o ∈ mcs, l ∈ o.out.labels :=
  (datasetMatrix_labels_lem mcs lm h hn).2 l

/-- permuting the megacomplexes permutes the label list -/
theorem datasetMatrix_labels_perm (mcs mcs' : List McOut) (hp : mcs'.Perm mcs) (lm lm' : LMat)
    (h : datasetMatrix mcs = some lm) (h' : datasetMatrix mcs' = some lm')
    (hn : ∀ o ∈ mcs, o.out.labels.Nodup) : lm'.labels.Perm lm.labels := by
  have hn' : ∀ o ∈ mcs', o.out.labels.Nodup := fun o ho => hn o (hp.subset ho)
  rw [List.perm_ext_iff_of_nodup (datasetMatrix_labels_nodup mcs' lm' h' hn') (datasetMatrix_labels_nodup mcs lm h hn)]
  intro l
  rw [datasetMatrix_labels_mem mcs' lm' h' hn', datasetMatrix_labels_mem mcs lm h hn]
  constructor
  · rintro ⟨o, ho, hl⟩; exact ⟨o, hp.subset ho, hl⟩
  · rintro ⟨o, ho, hl⟩; exact ⟨o, hp.symm.subset ho, hl⟩

example : ((datasetMatrix exampleMcs).getD default).labels = ["b", "c", "a"] ∧
    ((datasetMatrix exampleMcs.reverse).getD default).labels = ["b", "c", "a"] := by decide +kernel

/-! ## 2. The fit does not change: re-ordering columns by label re-orders the clps -/

/-- model function: matrix and clps re-ordered to another order of the same labels give the same product -/
theorem reorder_mulVec (labels wanted : List String) (m : Mat) (c : Vec) (hl : labels.Nodup)
    (hw : wanted.Perm labels) (hm : ∀ row ∈ m, row.length = labels.length) (hc : c.length = labels.length) :
    mulVec (reorderCols labels m wanted) (reorderVec labels c wanted) = mulVec m c :=
  reorder_mulVec_lem labels wanted m c hl hw hm hc

/-- **ls_perm_equivariant.** If `c` solves the normal equations of `min ‖y − M c‖` then the clps
    re-ordered by label solve those of the column-permuted matrix, with the *same residual*:
    permuting declarations permutes the estimated spectra and leaves the fit unchanged. -/
theorem ls_perm_equivariant (labels wanted : List String) (m : Mat) (y c : Vec) (hne : m ≠ [])
    (hl : labels.Nodup) (hw : wanted.Perm labels) (hm : ∀ row ∈ m, row.length = labels.length)
    (hsol : isNormalSol m y c = true) :
    isNormalSol (reorderCols labels m wanted) y (reorderVec labels c wanted) = true ∧
    residual (reorderCols labels m wanted) y (reorderVec labels c wanted) = residual m y c := by
  simp only [isNormalSol, Bool.and_eq_true, beq_iff_eq] at hsol
  obtain ⟨hlen, hgrad⟩ := hsol
  have hc : c.length = labels.length := by rw [hlen, ncols_of_rows m labels.length hne hm]
  refine ⟨?_, reorder_residual labels wanted m y c hl hw hm hc⟩
  simp only [isNormalSol, Bool.and_eq_true, beq_iff_eq]
  refine ⟨?_, ?_⟩
  · rw [ncols_reorderCols labels wanted m hne]; simp [reorderVec]
  · rw [gradient_reorder labels wanted m y c hne hl hw hm hc]
    exact all_zero_reorderVec labels wanted _ hgrad

/-- y = (1, 2, 2), columns a = (1, 0, 0), b = (0, 1, 1): clps (a, b) = (1, 2); order (b, a): (2, 1) -/
example :
    isNormalSol (reorderCols ["a", "b"] [[1, 0], [0, 1], [0, 1]] ["b", "a"]) [1, 2, 2] (reorderVec ["a", "b"] [1, 2] ["b", "a"]) = true ∧
    residual (reorderCols ["a", "b"] [[1, 0], [0, 1], [0, 1]] ["b", "a"]) [1, 2, 2] (reorderVec ["a", "b"] [1, 2] ["b", "a"]) =
      residual [[1, 0], [0, 1], [0, 1]] [1, 2, 2] [1, 2] :=
  ls_perm_equivariant ["a", "b"] ["b", "a"] _ _ _ (by decide) (by decide) (List.Perm.swap "a" "b" []) (by decide)
    (by decide +kernel)

example : reorderCols ["a", "b"] [[1, 0], [0, 1], [0, 1]] ["b", "a"] = [[0, 1], [1, 0], [1, 0]] ∧
    reorderVec ["a", "b"] [1, 2] ["b", "a"] = [2, 1] := by decide +kernel

/-- the least-squares fit is unique: any two solutions of the normal equations have the same residual
    (the clps themselves are unique only for a full-rank matrix) -/
theorem ls_fit_unique (a : Mat) (y c₁ c₂ : Vec) (hne : a ≠ []) (n : Nat)
    (ha : ∀ row ∈ a, row.length = n) (hy : y.length = a.length)
    (h1 : isNormalSol a y c₁ = true) (h2 : isNormalSol a y c₂ = true) :
    residual a y c₁ = residual a y c₂ := by
  simp only [residual, normalSol_fitted_unique a y c₁ c₂ hne n ha hy h1 h2]

/-- rank-deficient example: columns a = b = (1, 1); clps (1, 0) and (0, 1) both solve the normal equations -/
example : residual [[1, 1], [1, 1]] [1, 1] [1, 0] = residual [[1, 1], [1, 1]] [1, 1] [0, 1] :=
  ls_fit_unique _ _ _ _ (by decide) 2 (by decide) (by decide) (by decide +kernel) (by decide +kernel)

/-- lsExact returns a solution of the normal equations (certifying solver; same statement as C02's) -/
theorem lsExact_isNormalSol (a : Mat) (y c : Vec) (h : lsExact a y = some c) : isNormalSol a y c = true := by
  unfold lsExact at h
  split at h
  · split at h
    · cases h; assumption
    · cases h
  · split at h
    · split at h
      · cases h; assumption
      · cases h
    · cases h

/-- **the fit is unchanged.** Solve the variable-projection problem for a matrix and for the same matrix
    with its columns declared in another order (any solutions the solver returns): the residuals coincide. -/
theorem fit_unchanged_under_permutation (labels wanted : List String) (m : Mat) (y c c' r r' : Vec)
    (hne : m ≠ []) (hl : labels.Nodup) (hw : wanted.Perm labels)
    (hm : ∀ row ∈ m, row.length = labels.length) (hy : y.length = m.length)
    (h : solveLS .vp m y = some (c, r)) (h' : solveLS .vp (reorderCols labels m wanted) y = some (c', r')) :
    r' = r := by
  simp only [solveLS] at h h'
  cases hs : lsExact m y with
  | none => simp [hs] at h
  | some c0 =>
    cases hs' : lsExact (reorderCols labels m wanted) y with
    | none => simp [hs'] at h'
    | some c0' =>
      simp only [hs, Option.some.injEq, Prod.mk.injEq] at h
      simp only [hs', Option.some.injEq, Prod.mk.injEq] at h'
      obtain ⟨rfl, rfl⟩ := h
      obtain ⟨rfl, rfl⟩ := h'
      have hsol := lsExact_isNormalSol m y c0 hs
      have hsol' := lsExact_isNormalSol _ y c0' hs'
      obtain ⟨hperm, hres⟩ := ls_perm_equivariant labels wanted m y c0 hne hl hw hm hsol
      rw [← hres]
      have hne' : reorderCols labels m wanted ≠ [] := by
        cases m with
        | nil => exact absurd rfl hne
        | cons _ _ => simp [reorderCols]
      have hrows : ∀ row ∈ reorderCols labels m wanted, row.length = wanted.length := by
        intro row hrow
        simp only [reorderCols, List.mem_map] at hrow
        obtain ⟨_, _, rfl⟩ := hrow
        simp
      exact ls_fit_unique _ y c0' _ hne' wanted.length hrows (by simpa [reorderCols] using hy) hsol' hperm

example : ∃ c r c' r', solveLS .vp [[1, 0], [0, 1], [0, 1]] [1, 2, 3] = some (c, r) ∧
    solveLS .vp (reorderCols ["a", "b"] [[1, 0], [0, 1], [0, 1]] ["b", "a"]) [1, 2, 3] = some (c', r') ∧ r' = r ∧
    r = [0, -1/2, 1/2] ∧ c = [1, 5/2] ∧ c' = [5/2, 1] := by
  refine ⟨[1, 5/2], [0, -1/2, 1/2], [5/2, 1], [0, -1/2, 1/2], ?_⟩
  decide +kernel

/-! ## 3. Result variables are selected by label -/

/-- `matrix.sel(clp_label=wanted).values`: column `k` of the selection is the column stored under
    `wanted[k]` — whatever the position of that label in the matrix. -/
theorem selectCols_spec (labels wanted : List String) (m : Mat) (h : ∀ l ∈ wanted, l ∈ labels) :
    ∃ sel, selectCols labels m wanted = some sel ∧
      ∀ k (hk : k < wanted.length), colOf labels m wanted[k] = some (col sel k) := by
  refine ⟨_, selectCols_eq_reorder labels wanted m h, ?_⟩
  intro k hk
  rw [col_reorderCols labels wanted m k hk]
  simp only [colOf, idxOf?_eq_some_idxOf labels wanted[k] (h _ (List.getElem_mem hk))]

example : selectCols ["a", "b", "c"] [[1, 2, 3], [4, 5, 6]] ["c", "a"] = some [[3, 1], [6, 4]] := by decide +kernel

/-- a label that is not in the matrix is a KeyError, never a silently wrong column -/
theorem selectCols_keyerror (labels wanted : List String) (m : Mat) (l : String) (hl : l ∈ wanted)
    (hn : l ∉ labels) : selectCols labels m wanted = none := by
  simp [selectCols, positions_none labels wanted l hl hn]

example : selectCols ["a", "b"] [[1, 2]] ["b", "x"] = none := selectCols_keyerror _ _ _ "x" (by decide) (by decide)

/-- entry of a shaped labelled matrix through its slice -/
theorem entry_eq_slice (lm : LMat) (nRows nIdx : Nat) (hs : Shaped lm.body nRows nIdx) (l : String)
    (i r : Nat) (hi : i < nIdx) :
    entry lm l i r = ((colOf lm.labels (sliceMat lm i) l).getD []).getD r 0 := by
  obtain ⟨labels, body⟩ := lm
  cases body with
  | d2 m => rfl
  | d3 ms =>
    obtain ⟨m, hm, _⟩ := shaped_d3_get hs hi
    rw [entry_d3 labels ms l i r m hm]
    simp [sliceMat, List.getD_eq_getElem?_getD, hm]

/-- **species_concentration / species_associated_spectra by label.** The column reported under species
    `species[k]` (selected from the dataset matrix at index `i`) is the sum over the dataset's
    megacomplexes of `scale × (their column under that species label)` — independent of the position of
    the label in any megacomplex and of the order of the megacomplexes. -/
theorem species_concentration_by_label (mcs : List McOut) (lm : LMat) (h : datasetMatrix mcs = some lm)
    (nRows nIdx : Nat) (hs : ∀ o ∈ mcs, Shaped o.out.body nRows nIdx) (species : List String)
    (hsub : ∀ s ∈ species, s ∈ lm.labels) (i : Nat) (hi : i < nIdx) :
    ∃ sel, selectCols lm.labels (sliceMat lm i) species = some sel ∧
      ∀ k (hk : k < species.length) (r : Nat),
        (col sel k).getD r 0 = (mcs.map (fun o => factor o * entry o.out species[k] i r)).sum := by
  obtain ⟨sel, hsel, hcols⟩ := selectCols_spec lm.labels species (sliceMat lm i) hsub
  refine ⟨sel, hsel, ?_⟩
  intro k hk r
  have hshape := datasetMatrix_shaped mcs lm h nRows nIdx hs (Nat.lt_of_le_of_lt (Nat.zero_le i) hi)
  rw [← datasetMatrix_entry mcs lm h nRows nIdx hs species[k] i r hi,
    entry_eq_slice lm nRows nIdx hshape species[k] i r hi, hcols k hk]
  rfl

example : ∃ sel, selectCols ((datasetMatrix exampleMcs).getD default).labels
      (sliceMat ((datasetMatrix exampleMcs).getD default) 1) ["a", "b"] = some sel ∧
    ∀ k (hk : k < 2) (r : Nat), (col sel k).getD r 0 =
      (exampleMcs.map (fun o => factor o * entry o.out (["a", "b"][k]) 1 r)).sum := by
  refine species_concentration_by_label exampleMcs _ rfl 2 2 ?_ ["a", "b"] (by decide +kernel) 1 (by decide)
  intro o ho
  simp only [exampleMcs, List.mem_cons, List.not_mem_nil, or_false] at ho
  rcases ho with rfl | rfl | rfl <;> simp [Shaped]

/-- the species list of a result: no duplicates … -/
theorem allSpecies_nodup (perMc : List (List String)) : (allSpecies perMc).Nodup :=
  (firstSeen_foldl perMc.flatten [] List.nodup_nil).1

/-- … and exactly the compartments of the decay megacomplexes -/
theorem allSpecies_mem (perMc : List (List String)) (s : String) :
    s ∈ allSpecies perMc ↔ ∃ cs ∈ perMc, s ∈ cs := by
  have := (firstSeen_foldl perMc.flatten [] List.nodup_nil).2 s
  unfold allSpecies firstSeen
  rw [this]
  simp [List.mem_flatten]

example : allSpecies [["s2", "s3"], ["s1", "s2"]] = ["s2", "s3", "s1"] := by decide

/-! ## 4. Label tables of the builtin megacomplexes: every label carries its own column -/

theorem oscLabels_nodup (labels : List String) (h : labels.Nodup) : (oscLabels labels).Nodup :=
  oscLabels_nodup_lem labels h

example : oscLabels ["o", "o_cos"] = ["o_cos", "o_cos_cos", "o_sin", "o_cos_sin"] ∧ (oscLabels ["o", "o_cos"]).Nodup :=
  ⟨by decide, oscLabels_nodup _ (by decide)⟩

/-- **osc_columns_match_labels** (damped oscillation without IRF — after D5 —, with Gaussian IRF, and
    PFID): the column under `<label>_cos` / `<label>_sin` is the cosine / sine quadrature computed from
    the frequency and rate declared *for that label*, for any number of oscillations. -/
theorem osc_columns_match_labels (k : Kernel) (hk : k ≠ .noIrfOld) (os : List OscDecl)
    (hn : (os.map (·.1)).Nodup) (o : OscDecl) (ho : o ∈ os) :
    (oscTableOf k os).colOf (o.1 ++ "_cos") = some (cosOf k o) ∧
    (oscTableOf k os).colOf (o.1 ++ "_sin") = some (sinOf k o) := by
  rw [oscTableOf_eq_assoc k hk os]
  have hkeys : ((oscPairs k os).map Prod.fst).Nodup := by
    rw [oscPairs_keys]; exact oscLabels_nodup_lem _ hn
  constructor
  · exact assocTable_colOf (oscPairs k os) Prod.fst Prod.snd hkeys (o.1 ++ "_cos", cosOf k o)
      (List.mem_append_left _ (List.mem_map.mpr ⟨o, ho, rfl⟩))
  · exact assocTable_colOf (oscPairs k os) Prod.fst Prod.snd hkeys (o.1 ++ "_sin", sinOf k o)
      (List.mem_append_right _ (List.mem_map.mpr ⟨o, ho, rfl⟩))

/-- the D5 input on the repaired kernel: `b_cos` is the cosine of oscillation `b` -/
example : (oscTableOf .noIrf [("a", 10, 1/2), ("b", 30, 2)]).colOf "b_cos" = some (.oscCos 30 2) :=
  (osc_columns_match_labels .noIrf (by decide) _ (by decide) ("b", 30, 2) (by simp)).1

/-- regression witness of D5: with the kernel as it was (`idx`, `idx + 1`, `idx += 2`) the column
    labelled `b_cos` holds the *sine of oscillation a* -/
theorem osc_old_kernel_counterexample :
    (oscTableOf .noIrfOld [("a", 10, 1/2), ("b", 30, 2)]).colOf "b_cos" = some (.oscSin 10 (1/2)) ∧
    ¬ (∀ o ∈ [(("a", 10, 1/2) : OscDecl), ("b", 30, 2)],
        (oscTableOf .noIrfOld [("a", 10, 1/2), ("b", 30, 2)]).colOf (o.1 ++ "_cos") = some (cosOf .noIrfOld o)) := by
  constructor
  · decide +kernel
  · intro h
    have := h ("b", 30, 2) (by simp)
    revert this
    decide +kernel

/-- **osc_perm_by_label.** Declaring the oscillations in another order changes no labelled column. -/
theorem osc_perm_by_label (k : Kernel) (hk : k ≠ .noIrfOld) (os os' : List OscDecl) (hp : os'.Perm os)
    (hn : (os.map (·.1)).Nodup) (l : String) :
    (oscTableOf k os').colOf l = (oscTableOf k os).colOf l := by
  rw [oscTableOf_eq_assoc k hk os, oscTableOf_eq_assoc k hk os']
  have hkeys : ((oscPairs k os).map Prod.fst).Nodup := by
    rw [oscPairs_keys]; exact oscLabels_nodup_lem _ hn
  exact assocTable_perm (oscPairs k os) (oscPairs k os') Prod.fst Prod.snd (oscPairs_perm k os os' hp) hkeys l

example : (oscTableOf .pfid [("b", 30, -2), ("a", 10, -1/2)]).colOf "a_sin" =
    (oscTableOf .pfid [("a", 10, -1/2), ("b", 30, -2)]).colOf "a_sin" :=
  osc_perm_by_label .pfid (by decide) _ _ (List.Perm.swap _ _ []) (by decide) "a_sin"

/-- spectral megacomplex: the column under a compartment is the shape declared for it -/
theorem spectral_columns_match_labels (shape : List (String × String)) (hn : (shape.map (·.1)).Nodup)
    (p : String × String) (hp : p ∈ shape) : (spectralTable shape).colOf p.1 = some (.shape p.2) :=
  assocTable_colOf shape (·.1) (fun p => .shape p.2) hn p hp

example : (spectralTable [("s1", "sh1"), ("s2", "sh2")]).colOf "s2" = some (.shape "sh2") :=
  spectral_columns_match_labels _ (by decide) ("s2", "sh2") (by simp)

theorem spectral_perm_by_label (shape shape' : List (String × String)) (hp : shape'.Perm shape)
    (hn : (shape.map (·.1)).Nodup) (l : String) :
    (spectralTable shape').colOf l = (spectralTable shape).colOf l :=
  assocTable_perm shape shape' (·.1) (fun p => .shape p.2) hp hn l

example : (spectralTable [("s2", "sh2"), ("s1", "sh1")]).colOf "s1" = (spectralTable [("s1", "sh1"), ("s2", "sh2")]).colOf "s1" :=
  spectral_perm_by_label _ _ (List.Perm.swap _ _ []) (by decide) "s1"

theorem artifactLabel_inj (label : String) (i j : Nat) (hi : i < 3) (hj : j < 3)
    (h : artifactLabel label (i + 1) = artifactLabel label (j + 1)) : i = j := by
  unfold artifactLabel at h
  have h' := (String.append_left_inj label).mp h
  have hi' : i = 0 ∨ i = 1 ∨ i = 2 := by omega
  have hj' : j = 0 ∨ j = 1 ∨ j = 2 := by omega
  rcases hi' with rfl | rfl | rfl <;> rcases hj' with rfl | rfl | rfl <;>
    first | rfl | exact absurd h' (by decide +kernel)

/-- coherent artifact: the column under `coherent_artifact_<i>_<label>` is the i-th derivative form -/
theorem artifact_columns_match_labels (order : Nat) (label : String) (t : Table)
    (h : artifactTable order label = some t) (i : Nat) (hi : i < order) :
    t.colOf (artifactLabel label (i + 1)) = some (.artifact (i + 1)) := by
  unfold artifactTable at h
  split at h
  · rename_i hord
    cases h
    have hn : ((List.range order).map (fun i => artifactLabel label (i + 1))).Nodup := by
      refine nodup_map_on ?_ List.nodup_range
      intro x hx y hy e
      exact artifactLabel_inj label x y (by have := List.mem_range.mp hx; omega) (by have := List.mem_range.mp hy; omega) e
    exact assocTable_colOf (List.range order) (fun i => artifactLabel label (i + 1)) (fun i => .artifact (i + 1))
      hn i (List.mem_range.mpr hi)
  · cases h

example : ((artifactTable 3 "m2").getD default).colOf "coherent_artifact_2_m2" = some (.artifact 2) :=
  artifact_columns_match_labels 3 "m2" _ rfl 1 (by decide)

theorem baseline_guide_labels (ds target : String) :
    (baselineTable ds).colOf (ds ++ "_baseline") = some .ones ∧ (guideTable target).colOf target = some .guide := by
  simp [baselineTable, guideTable, Table.colOf, List.idxOf?_cons]

/-! ## 4b. From the declarations to the dataset matrix: the column under a label is what the label denotes -/

/-- a megacomplex declaration is well formed: as many descriptors as labels, evaluated columns of full height -/
def McDecl.WF (d : McDecl) (n : Nat) : Prop :=
  d.table.cols.length = d.table.labels.length ∧ ∀ i c, c ∈ d.table.cols → (d.ev i c).length = n

/-- what megacomplex `d` contributes under label `l` at index `i`, row `r`: the evaluation of the descriptor
    its table stores under `l` (nothing when it does not declare `l`) -/
def McDecl.contribution (d : McDecl) (l : String) (i r : Nat) : Rat :=
  (((d.table.colOf l).map (d.ev (if d.dep then i else 0))).getD []).getD r 0

/-- **the dataset matrix by label, end to end.** For a dataset whose megacomplexes are given by their label
    tables (any mixture of index-dependent and index-independent ones, any scales): the column under a label is
    the sum over the megacomplexes of `scale ×` the column *denoted by that label in that megacomplex*. -/
theorem tablesDataset_entry (n nIdx : Nat) (mcs : List McDecl) (lm : LMat) (h : tablesDataset n nIdx mcs = some lm)
    (hwf : ∀ d ∈ mcs, d.WF n) (l : String) (i r : Nat) (hi : i < nIdx) :
    entry lm l i r = (mcs.map (fun d => d.scale.getD 1 * d.contribution l i r)).sum := by
  unfold tablesDataset at h
  have hs : ∀ o ∈ mcs.map (fun d => (⟨tableMatrix d.ev n nIdx d.dep d.table, d.scale⟩ : McOut)),
      Shaped o.out.body n nIdx := by
    intro o ho
    obtain ⟨d, _, rfl⟩ := List.mem_map.mp ho
    exact tableMatrix_shaped d.ev n nIdx d.dep d.table
  rw [datasetMatrix_entry _ lm h n nIdx hs l i r hi, List.map_map]
  congr 1
  apply List.map_congr_left
  intro d hd
  simp only [Function.comp, factor, McDecl.contribution]
  rw [tableMatrix_entry d.ev n nIdx d.dep d.table (hwf d hd).1 (hwf d hd).2 l i r hi]

/-- for a damped-oscillation / PFID megacomplex the contribution under `<label>_cos` is the cosine column
    evaluated from the parameters declared for that label, whatever the declaration order -/
theorem osc_contribution (k : Kernel) (hk : k ≠ .noIrfOld) (os : List OscDecl) (hn : (os.map (·.1)).Nodup)
    (dep : Bool) (scale : Option Rat) (ev : Nat → Col → Vec) (o : OscDecl) (ho : o ∈ os) (i r : Nat) :
    (⟨oscTableOf k os, dep, scale, ev⟩ : McDecl).contribution (o.1 ++ "_cos") i r =
      (ev (if dep then i else 0) (cosOf k o)).getD r 0 ∧
    (⟨oscTableOf k os, dep, scale, ev⟩ : McDecl).contribution (o.1 ++ "_sin") i r =
      (ev (if dep then i else 0) (sinOf k o)).getD r 0 := by
  obtain ⟨h1, h2⟩ := osc_columns_match_labels k hk os hn o ho
  simp [McDecl.contribution, h1, h2]

/-- two megacomplexes sharing `a_cos`: a scaled damped oscillation (2 oscillations, no IRF) and a table
    megacomplex; evaluation = a lookup table -/
example :
    let ev : Nat → Col → Vec := fun _ c => match c with
      | .oscCos 10 _ => [1, 2] | .oscCos 30 _ => [3, 4] | .oscSin 10 _ => [5, 6] | .oscSin 30 _ => [7, 8]
      | .species _ => [100, 200] | _ => [0, 0]
    let mcs : List McDecl := [⟨oscTableOf .noIrf [("a", 10, 1/2), ("b", 30, 2)], false, some 2, ev⟩,
                               ⟨speciesTable ["a_cos"], false, none, ev⟩]
    ∃ lm, tablesDataset 2 1 mcs = some lm ∧
      entry lm "a_cos" 0 1 = (mcs.map (fun d => d.scale.getD 1 * d.contribution "a_cos" 0 1)).sum ∧
      entry lm "a_cos" 0 1 = 2 * 2 + 200 := by
  intro ev mcs
  refine ⟨_, rfl, ?_, by decide +kernel⟩
  refine tablesDataset_entry 2 1 mcs _ rfl ?_ "a_cos" 0 1 (by decide)
  intro d hd
  simp only [mcs, List.mem_cons, List.not_mem_nil, or_false] at hd
  rcases hd with rfl | rfl
  · refine ⟨by decide +kernel, ?_⟩
    intro i c hc
    have : c = .oscCos 10 (1/2) ∨ c = .oscCos 30 2 ∨ c = .oscSin 10 (1/2) ∨ c = .oscSin 30 2 := by
      have hcols : (oscTableOf .noIrf [("a", 10, 1/2), ("b", 30, 2)]).cols =
          [.oscCos 10 (1/2), .oscCos 30 2, .oscSin 10 (1/2), .oscSin 30 2] := by decide +kernel
      rw [hcols] at hc
      simpa using hc
    rcases this with rfl | rfl | rfl | rfl <;> rfl
  · refine ⟨rfl, ?_⟩
    intro i c hc
    have : c = .species "a_cos" := by simpa [speciesTable] using hc
    subst this
    rfl

/-! ## 5. Decay megacomplexes: compartment order and initial concentration -/

/-- which compartments a K-matrix involves depends on its entries only, not on their order -/
theorem involved_mem (k : KMat) (c : String) : c ∈ involved k ↔ ∃ e ∈ k, e.to = c ∨ e.frm = c :=
  involved_mem_lem k c

example : involved [⟨"s2", "s1", 1⟩, ⟨"s3", "s2", 2⟩] = ["s2", "s1", "s3"] := by decide +kernel

/-- **getCompartments_perm.** Declaring the compartments of the initial concentration in another order
    permutes the compartment list; re-ordering the K-matrix entries does not change it at all. -/
theorem getCompartments_perm (ic ic' : IC) (k k' : KMat) (hc : ic'.compartments.Perm ic.compartments)
    (hk : ∀ e, e ∈ k' ↔ e ∈ k) :
    (getCompartments ic' k').Perm (getCompartments ic k) := by
  have hinv : ∀ c, (involved k').contains c = (involved k).contains c := by
    intro c
    have h1 := involved_mem k' c
    have h2 := involved_mem k c
    have : c ∈ involved k' ↔ c ∈ involved k := by
      rw [h1, h2]
      constructor
      · rintro ⟨e, he, h⟩; exact ⟨e, (hk e).mp he, h⟩
      · rintro ⟨e, he, h⟩; exact ⟨e, (hk e).mpr he, h⟩
    by_cases hm : c ∈ involved k
    · have hm' := this.mpr hm
      simp [hm, hm']
    · have hm' : c ∉ involved k' := fun h => hm (this.mp h)
      simp [hm, hm']
  unfold getCompartments
  have : (fun c => (involved k').contains c) = (fun c => (involved k).contains c) := funext hinv
  rw [this]
  exact hc.filter _

example : (getCompartments ⟨["s3", "s1", "s2"], [0, 1, 0], []⟩ [⟨"s3", "s2", 2⟩, ⟨"s2", "s1", 1⟩]).Perm
    (getCompartments ⟨["s1", "s2", "s3"], [1, 0, 0], []⟩ [⟨"s2", "s1", 1⟩, ⟨"s3", "s2", 2⟩]) :=
  getCompartments_perm _ _ _ _ (by decide) (by intro e; simp [or_comm])

/-- **each compartment keeps its own initial concentration**: the (compartment, value) pairs the decay
    megacomplex works with are the declared pairs of the involved compartments. -/
theorem compartment_initial_concentration_paired (ic : IC) (k : KMat) :
    (getCompartments ic k).zip (getInitialConcentration ic k false) =
      (ic.compartments.zip ic.parameters).filter (fun q => (involved k).contains q.1) := by
  have hmask : ic.compartments.map (fun c => (getCompartments ic k).contains c) =
      ic.compartments.map (fun c => (involved k).contains c) :=
    List.map_congr_left (fun c hc => getCompartments_contains ic k c hc)
  simp only [getInitialConcentration, hmask, Bool.false_eq_true, if_false]
  exact zip_filter_pickMask (fun c => (involved k).contains c) ic.compartments ic.parameters

example : (getCompartments ⟨["s3", "s1", "s2"], [5, 7, 9], []⟩ [⟨"s2", "s1", 1⟩]).zip
    (getInitialConcentration ⟨["s3", "s1", "s2"], [5, 7, 9], []⟩ [⟨"s2", "s1", 1⟩] false) = [("s1", 7), ("s2", 9)] := by
  decide +kernel

/-- permuting the declaration (compartments together with their parameters) permutes the pairs -/
theorem compartment_pairs_perm (ic ic' : IC) (k : KMat)
    (hp : (ic'.compartments.zip ic'.parameters).Perm (ic.compartments.zip ic.parameters)) :
    ((getCompartments ic' k).zip (getInitialConcentration ic' k false)).Perm
      ((getCompartments ic k).zip (getInitialConcentration ic k false)) := by
  rw [compartment_initial_concentration_paired, compartment_initial_concentration_paired]
  exact hp.filter _

/-- the same for the *normalised* initial concentration the decay formulas use: the value paired with a
    compartment is its own parameter, divided by the normalisation sum unless the compartment is excluded -/
theorem compartment_normalized_concentration_paired (ic : IC) (k : KMat) :
    (getCompartments ic k).zip (getInitialConcentration ic k true) =
      ((ic.compartments.zip ic.parameters).filter (fun q => (involved k).contains q.1)).map (normValue ic) := by
  have hmask : ic.compartments.map (fun c => (getCompartments ic k).contains c) =
      ic.compartments.map (fun c => (involved k).contains c) :=
    List.map_congr_left (fun c hc => getCompartments_contains ic k c hc)
  simp only [getInitialConcentration, hmask, if_true]
  have h := zip_filter_pickMask (fun c => (involved k).contains c) ic.compartments (normalized ic)
  have hg : getCompartments ic k = ic.compartments.filter (fun c => (involved k).contains c) := rfl
  rw [hg, h, normalized_paired_lem, List.filter_map]
  rfl

/-- the normalisation sum does not depend on the declaration order (so neither does any normalised value) -/
theorem normSum_perm (ic ic' : IC) (hex : ∀ c, ic'.exclude.contains c = ic.exclude.contains c)
    (hp : (ic'.compartments.zip ic'.parameters).Perm (ic.compartments.zip ic.parameters)) :
    normSum ic' = normSum ic := by
  rw [normSum_eq, normSum_eq]
  have : (fun q : String × Rat => !ic'.exclude.contains q.1) = (fun q => !ic.exclude.contains q.1) := by
    funext q; rw [hex]
  rw [this]
  exact rat_sum_perm ((hp.filter _).map _)

example : (getCompartments ⟨["s3", "s1", "s2"], [1, 1, 2], ["s3"]⟩ [⟨"s2", "s1", 1⟩]).zip
    (getInitialConcentration ⟨["s3", "s1", "s2"], [1, 1, 2], ["s3"]⟩ [⟨"s2", "s1", 1⟩] true) = [("s1", 1/3), ("s2", 2/3)] ∧
    normSum ⟨["s2", "s3", "s1"], [2, 1, 1], ["s3"]⟩ = normSum ⟨["s3", "s1", "s2"], [1, 1, 2], ["s3"]⟩ := by
  decide +kernel

/-- **Regression of D4** (fixed in /repo, commit ceea826): K = {s1a ← s4 : 1, s1a ← s1a : 5/16}, population in s1a.
    Before the fix the scheme took the general path when declared as [s1a, s4] and was classified sequential when
    declared as [s4, s1a] (the sequential formula then assumes the population starts in s4). Now both declaration
    orders take the general path. (Name kept from when this was the counter-example of a recorded finding.) -/
theorem decay_path_order_dependent_counterexample :
    isSequential ["s1a", "s4"] [1, 0] [⟨"s1a", "s4", 1⟩, ⟨"s1a", "s1a", 5/16⟩] = some false ∧
    isSequential ["s4", "s1a"] [0, 1] [⟨"s1a", "s4", 1⟩, ⟨"s1a", "s1a", 5/16⟩] = some false := by
  decide +kernel

/-- The closed-form (sequential) path is taken only when all population starts in the *first* declared compartment:
    any initial concentration other than (1, 0, …, 0) — in particular every joint permutation of a chain's
    declaration that moves the populated compartment away from the first position — takes the general
    eigen-decomposition path, whatever the K-matrix. (Both paths solve the same rate equations: Props/C04
    `sequential_solves`, `general_solves`; so the column under a compartment label does not depend on which is taken.) -/
theorem isSequential_perm_invariant_partial (comps : List String) (j : Vec) (k : KMat)
    (hj : j = [] ∨ j.headD 0 ≠ 1 ∨ ∃ x ∈ j.tail, x ≠ 0) :
    isSequential comps j k = some false := by
  have hc : (j.isEmpty || j.headD 0 != 1 || j.tail.any (· != 0)) = true := by
    rcases hj with h | h | ⟨x, hx, hne⟩
    · subst h; rfl
    · have : (j.headD 0 != 1) = true := by simpa using h
      rw [this]; simp
    · have : j.tail.any (· != 0) = true := List.any_eq_true.mpr ⟨x, hx, by simpa using hne⟩
      rw [this]; simp
  unfold isSequential
  rw [if_pos hc]

example : isSequential ["s2", "s1"] [1/2, 1] [⟨"s2", "s1", 1⟩] = some false :=
  isSequential_perm_invariant_partial _ _ _ (Or.inr (Or.inl (by decide +kernel)))

/-- a chain declared in chain order and started in its first compartment is classified sequential -/
example : isSequential ["s1", "s2"] [1, 0] [⟨"s2", "s1", 1⟩, ⟨"s2", "s2", 1/2⟩] = some true := by decide +kernel

end Glotaran.C06
