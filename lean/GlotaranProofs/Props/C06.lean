/-
C06 — labelled outputs follow their labels: declaration order and composition.
Property theorems about `Glotaran.C06` (lean/GlotaranModel/C06.lean) and about `combine` /
`datasetMatrix` of `Glotaran.C02` (the definitions the C02, C03 and C06 drivers execute).

Vocabulary:  `entry lm l i r` is the entry in row `r` of the column stored under clp label `l` at
global index `i` (0 when the label is absent; a 2-D matrix ignores `i`);  `Shaped b nRows nIdx`
says that every (slice of the) matrix has `nRows` rows and a 3-D one has `nIdx` slices;
`factor o` is the megacomplex scale (1 when none is given).
-/
import GlotaranProofs.Lemmas.C06
import GlotaranProofs.Lemmas.C06Reorder
import GlotaranProofs.Lemmas.C06Tables
import GlotaranProofs.Lemmas.C06LS
import GlotaranProofs.Lemmas.C06Full
import GlotaranProofs.Lemmas.C06Gen
import GlotaranProofs.Lemmas.C06Linked
import GlotaranProofs.Lemmas.C06Fin
namespace Glotaran.C06
open Glotaran.LinAlg Glotaran.C02

/-! ## 1. Composition: shared labels add, different labels stay separate, 2-D promotes to 3-D -/

/-- **combine_col.** For every rank combination (2-D/2-D, 3-D/2-D, 2-D/3-D with the swap, 3-D/3-D),
    every label, index and row: the combined column is the sum of the two contributed columns,
    an absent label contributing zero. -/
theorem combine_entry (a b : LMat) (nRows nIdx : Nat) (ha : Shaped a.body nRows nIdx)
    (hb : Shaped b.body nRows nIdx) (l : String) (i r : Nat) (hi : i < nIdx) :
    entry (combine a b) l i r = entry a l i r + entry b l i r :=
  combine_entry_lem a b nRows nIdx ha hb l i r hi

/-- 2-D left (labels a, b), 3-D right (labels b, c): the shared label `b` at index 1, row 0 -/
example :
    entry (combine ⟨["a", "b"], .d2 [[1, 2], [3, 4]]⟩ ⟨["b", "c"], .d3 [[[5, 6], [7, 8]], [[9, 10], [11, 12]]]⟩) "b" 1 0
      = entry ⟨["a", "b"], .d2 [[1, 2], [3, 4]]⟩ "b" 1 0 +
        entry ⟨["b", "c"], .d3 [[[5, 6], [7, 8]], [[9, 10], [11, 12]]]⟩ "b" 1 0 :=
  combine_entry _ _ 2 2 (by simp [Shaped]) (by simp [Shaped]) "b" 1 0 (by decide)

example : entry (combine ⟨["a", "b"], .d2 [[1, 2], [3, 4]]⟩ ⟨["b", "c"], .d3 [[[5, 6], [7, 8]], [[9, 10], [11, 12]]]⟩) "b" 1 0 = 11 := by
  decide +kernel

/-- the result keeps the shape, so the statement iterates -/
theorem combine_shaped (a b : LMat) (nRows nIdx : Nat) (ha : Shaped a.body nRows nIdx)
    (hb : Shaped b.body nRows nIdx) : Shaped (combine a b).body nRows nIdx :=
  combine_shaped_lem a b nRows nIdx ha hb

example : Shaped (combine ⟨["a"], .d2 [[1], [3]]⟩ ⟨["b"], .d3 [[[5], [7]], [[9], [11]]]⟩).body 2 2 :=
  combine_shaped _ _ 2 2 (by simp [Shaped]) (by simp [Shaped])

/-- a label that no megacomplex declares has no column: its entries read as 0 -/
theorem entry_absent_label (lm : LMat) (l : String) (h : l ∉ lm.labels) (i r : Nat) :
    entry lm l i r = 0 := by
  obtain ⟨labels, body⟩ := lm
  cases body with
  | d2 m => simp [entry, bodyColAt, colOf_eq_none_of_not_mem labels m l h]
  | d3 ms =>
    simp only [entry, bodyColAt]
    cases ms[i]? with
    | none => simp
    | some m => simp [colOf_eq_none_of_not_mem labels m l h]

example : entry ⟨["a", "b"], .d2 [[1, 2], [3, 4]]⟩ "z" 0 1 = 0 := entry_absent_label _ "z" (by decide) 0 1

/-- **combine_comm_by_label.** Which megacomplex comes first does not matter for any labelled column. -/
theorem combine_comm_by_label (a b : LMat) (nRows nIdx : Nat) (ha : Shaped a.body nRows nIdx)
    (hb : Shaped b.body nRows nIdx) (l : String) (i r : Nat) (hi : i < nIdx) :
    entry (combine a b) l i r = entry (combine b a) l i r := by
  rw [combine_entry a b nRows nIdx ha hb l i r hi, combine_entry b a nRows nIdx hb ha l i r hi]
  exact Rat.add_comm _ _

example : entry (combine ⟨["a", "b"], .d2 [[1, 2]]⟩ ⟨["b", "c"], .d2 [[5, 6]]⟩) "b" 0 0 =
    entry (combine ⟨["b", "c"], .d2 [[5, 6]]⟩ ⟨["a", "b"], .d2 [[1, 2]]⟩) "b" 0 0 :=
  combine_comm_by_label _ _ 1 1 (by simp [Shaped]) (by simp [Shaped]) "b" 0 0 (by decide)

/-- the two orders give the same labels up to a permutation -/
theorem combine_labels_perm (a b : LMat) (ha : a.labels.Nodup) (hb : b.labels.Nodup) :
    (combine a b).labels.Perm (combine b a).labels := by
  rw [List.perm_ext_iff_of_nodup (combine_labels_nodup_lem a b ha hb) (combine_labels_nodup_lem b a hb ha)]
  intro l
  rw [combine_labels_mem_lem, combine_labels_mem_lem]
  exact Or.comm

example : (combine ⟨["a", "b"], .d2 [[1, 2]]⟩ ⟨["b", "c"], .d2 [[5, 6]]⟩).labels = ["a", "b", "c"] ∧
    (combine ⟨["b", "c"], .d2 [[5, 6]]⟩ ⟨["a", "b"], .d2 [[1, 2]]⟩).labels = ["b", "c", "a"] := by decide

/-- **combine_promote.** Index-independent and index-dependent contributions combine to the same
    per-index matrices: slice `i` of the promoted result is, by label, the 2-D combination of the
    2-D matrix with slice `i` of the 3-D one. -/
theorem combine_promote (la lb : List String) (ma : Mat) (bs : List Mat) (nRows nIdx : Nat)
    (hma : ma.length = nRows) (hbs : Shaped (.d3 bs) nRows nIdx) (l : String) (i r : Nat) (hi : i < nIdx) :
    entry (combine ⟨la, .d2 ma⟩ ⟨lb, .d3 bs⟩) l i r =
      entry (combine ⟨la, .d2 ma⟩ (sliceAt ⟨lb, .d3 bs⟩ i)) l 0 r := by
  obtain ⟨m, hm, hmr⟩ := shaped_d3_get hbs hi
  have hslice : sliceAt ⟨lb, .d3 bs⟩ i = ⟨lb, .d2 m⟩ := by
    simp [sliceAt, sliceMat, List.getD_eq_getElem?_getD, hm]
  rw [combine_entry ⟨la, .d2 ma⟩ ⟨lb, .d3 bs⟩ nRows nIdx hma hbs l i r hi, hslice,
    combine_entry ⟨la, .d2 ma⟩ ⟨lb, .d2 m⟩ nRows 1 hma hmr l 0 r (by decide),
    entry_d3 lb bs l i r m hm]
  rfl

example : entry (combine ⟨["a", "b"], .d2 [[1, 2], [3, 4]]⟩ ⟨["b", "c"], .d3 [[[5, 6], [7, 8]], [[9, 10], [11, 12]]]⟩) "b" 1 1 =
    entry (combine ⟨["a", "b"], .d2 [[1, 2], [3, 4]]⟩ (sliceAt ⟨["b", "c"], .d3 [[[5, 6], [7, 8]], [[9, 10], [11, 12]]]⟩ 1)) "b" 0 1 :=
  combine_promote _ _ _ _ 2 2 rfl (by simp [Shaped]) "b" 1 1 (by decide)

/-- **the dataset matrix by label.** Whatever the number and ranks of the megacomplexes: the column
    under a label is the sum over *all* megacomplexes of `scale × (its column under that label)`. -/
theorem datasetMatrix_entry (mcs : List McOut) (lm : LMat) (h : datasetMatrix mcs = some lm)
    (nRows nIdx : Nat) (hs : ∀ o ∈ mcs, Shaped o.out.body nRows nIdx) (l : String) (i r : Nat)
    (hi : i < nIdx) :
    entry lm l i r = (mcs.map (fun o => factor o * entry o.out l i r)).sum :=
  (datasetMatrix_entry_lem mcs lm h nRows nIdx hs l i r hi).2

theorem datasetMatrix_shaped (mcs : List McOut) (lm : LMat) (h : datasetMatrix mcs = some lm)
    (nRows nIdx : Nat) (hs : ∀ o ∈ mcs, Shaped o.out.body nRows nIdx) (hi : 0 < nIdx) :
    Shaped lm.body nRows nIdx :=
  (datasetMatrix_entry_lem mcs lm h nRows nIdx hs "" 0 0 hi).1

/-- three megacomplexes, two of them scaled, one 3-D, label `b` shared by all -/
def exampleMcs : List McOut :=
  [⟨⟨["a", "b"], .d2 [[1, 2], [3, 4]]⟩, some 2⟩, ⟨⟨["b", "c"], .d3 [[[5, 6], [7, 8]], [[9, 10], [11, 12]]]⟩, none⟩,
   ⟨⟨["b"], .d2 [[1], [1]]⟩, some (1/2)⟩]

example : ∃ lm, datasetMatrix exampleMcs = some lm ∧
    entry lm "b" 1 0 = (exampleMcs.map (fun o => factor o * entry o.out "b" 1 0)).sum := by
  refine ⟨_, rfl, datasetMatrix_entry exampleMcs _ rfl 2 2 ?_ "b" 1 0 (by decide)⟩
  intro o ho
  simp only [exampleMcs, List.mem_cons, List.not_mem_nil, or_false] at ho
  rcases ho with rfl | rfl | rfl <;> simp [Shaped]

example : (exampleMcs.map (fun o => factor o * entry o.out "b" 1 0)).sum = 2 * 2 + 9 + 1/2 := by decide +kernel

/-- **datasetMatrix_perm.** Permuting the megacomplexes of a dataset (with their scales) leaves every
    labelled column unchanged. -/
theorem datasetMatrix_perm (mcs mcs' : List McOut) (hp : mcs'.Perm mcs) (lm : LMat)
    (h : datasetMatrix mcs = some lm) (nRows nIdx : Nat)
    (hs : ∀ o ∈ mcs, Shaped o.out.body nRows nIdx) :
    ∃ lm', datasetMatrix mcs' = some lm' ∧
      ∀ l i r, i < nIdx → entry lm' l i r = entry lm l i r := by
  obtain ⟨lm', h'⟩ := datasetMatrix_isSome_of_perm hp lm h
  refine ⟨lm', h', ?_⟩
  intro l i r hi
  have hs' : ∀ o ∈ mcs', Shaped o.out.body nRows nIdx := fun o ho => hs o (hp.subset ho)
  rw [datasetMatrix_entry mcs' lm' h' nRows nIdx hs' l i r hi, datasetMatrix_entry mcs lm h nRows nIdx hs l i r hi]
  exact rat_sum_perm (hp.map _)

example : ∃ lm', datasetMatrix exampleMcs.reverse = some lm' ∧
    ∀ l i r, i < 2 → entry lm' l i r =
      entry ((datasetMatrix exampleMcs).getD default) l i r := by
  refine datasetMatrix_perm exampleMcs exampleMcs.reverse (List.reverse_perm _) _ rfl 2 2 ?_
  intro o ho
  simp only [exampleMcs, List.mem_cons, List.not_mem_nil, or_false] at ho
  rcases ho with rfl | rfl | rfl <;> simp [Shaped]

/-- labels of the dataset matrix: no duplicates … -/
theorem datasetMatrix_labels_nodup (mcs : List McOut) (lm : LMat) (h : datasetMatrix mcs = some lm)
    (hn : ∀ o ∈ mcs, o.out.labels.Nodup) : lm.labels.Nodup :=
  (datasetMatrix_labels_lem mcs lm h hn).1

/-- … and exactly the labels some megacomplex declares (different labels stay separate columns) -/
theorem datasetMatrix_labels_mem (mcs : List McOut) (lm : LMat) (h : datasetMatrix mcs = some lm)
    (hn : ∀ o ∈ mcs, o.out.labels.Nodup) (l : String) :
    l ∈ lm.labels ↔ ∃ o ∈ mcs, l ∈ o.out.labels :=
  (datasetMatrix_labels_lem mcs lm h hn).2 l

/-- permuting the megacomplexes permutes the label list -/
theorem datasetMatrix_labels_perm (mcs mcs' : List McOut) (hp : mcs'.Perm mcs) (lm lm' : LMat)
    (h : datasetMatrix mcs = some lm) (h' : datasetMatrix mcs' = some lm')
    (hn : ∀ o ∈ mcs, o.out.labels.Nodup) : lm'.labels.Perm lm.labels := by
  have hn' : ∀ o ∈ mcs', o.out.labels.Nodup := fun o ho => hn o (hp.subset ho)
  rw [List.perm_ext_iff_of_nodup (datasetMatrix_labels_nodup mcs' lm' h' hn') (datasetMatrix_labels_nodup mcs lm h hn)]
  intro l
  rw [datasetMatrix_labels_mem mcs' lm' h' hn', datasetMatrix_labels_mem mcs lm h hn]
  constructor
  · rintro ⟨o, ho, hl⟩; exact ⟨o, hp.subset ho, hl⟩
  · rintro ⟨o, ho, hl⟩; exact ⟨o, hp.symm.subset ho, hl⟩

example : ((datasetMatrix exampleMcs).getD default).labels = ["b", "c", "a"] ∧
    ((datasetMatrix exampleMcs.reverse).getD default).labels = ["b", "c", "a"] := by decide +kernel

/-! ## 2. The fit does not change: re-ordering columns by label re-orders the clps -/

/-- model function: matrix and clps re-ordered to another order of the same labels give the same product -/
theorem reorder_mulVec (labels wanted : List String) (m : Mat) (c : Vec) (hl : labels.Nodup)
    (hw : wanted.Perm labels) (hm : ∀ row ∈ m, row.length = labels.length) (hc : c.length = labels.length) :
    mulVec (reorderCols labels m wanted) (reorderVec labels c wanted) = mulVec m c :=
  reorder_mulVec_lem labels wanted m c hl hw hm hc

/-- **ls_perm_equivariant.** If `c` solves the normal equations of `min ‖y − M c‖` then the clps
    re-ordered by label solve those of the column-permuted matrix, with the *same residual*:
    permuting declarations permutes the estimated spectra and leaves the fit unchanged. -/
theorem ls_perm_equivariant (labels wanted : List String) (m : Mat) (y c : Vec) (hne : m ≠ [])
    (hl : labels.Nodup) (hw : wanted.Perm labels) (hm : ∀ row ∈ m, row.length = labels.length)
    (hsol : isNormalSol m y c = true) :
    isNormalSol (reorderCols labels m wanted) y (reorderVec labels c wanted) = true ∧
    residual (reorderCols labels m wanted) y (reorderVec labels c wanted) = residual m y c := by
  simp only [isNormalSol, Bool.and_eq_true, beq_iff_eq] at hsol
  obtain ⟨hlen, hgrad⟩ := hsol
  have hc : c.length = labels.length := by rw [hlen, ncols_of_rows m labels.length hne hm]
  refine ⟨?_, reorder_residual labels wanted m y c hl hw hm hc⟩
  simp only [isNormalSol, Bool.and_eq_true, beq_iff_eq]
  refine ⟨?_, ?_⟩
  · rw [ncols_reorderCols labels wanted m hne]; simp [reorderVec]
  · rw [gradient_reorder labels wanted m y c hne hl hw hm hc]
    exact all_zero_reorderVec labels wanted _ hgrad

/-- y = (1, 2, 2), columns a = (1, 0, 0), b = (0, 1, 1): clps (a, b) = (1, 2); order (b, a): (2, 1) -/
example :
    isNormalSol (reorderCols ["a", "b"] [[1, 0], [0, 1], [0, 1]] ["b", "a"]) [1, 2, 2] (reorderVec ["a", "b"] [1, 2] ["b", "a"]) = true ∧
    residual (reorderCols ["a", "b"] [[1, 0], [0, 1], [0, 1]] ["b", "a"]) [1, 2, 2] (reorderVec ["a", "b"] [1, 2] ["b", "a"]) =
      residual [[1, 0], [0, 1], [0, 1]] [1, 2, 2] [1, 2] :=
  ls_perm_equivariant ["a", "b"] ["b", "a"] _ _ _ (by decide) (by decide) (List.Perm.swap "a" "b" []) (by decide)
    (by decide +kernel)

example : reorderCols ["a", "b"] [[1, 0], [0, 1], [0, 1]] ["b", "a"] = [[0, 1], [1, 0], [1, 0]] ∧
    reorderVec ["a", "b"] [1, 2] ["b", "a"] = [2, 1] := by decide +kernel

/-- the least-squares fit is unique: any two solutions of the normal equations have the same residual
    (the clps themselves are unique only for a full-rank matrix) -/
theorem ls_fit_unique (a : Mat) (y c₁ c₂ : Vec) (hne : a ≠ []) (n : Nat)
    (ha : ∀ row ∈ a, row.length = n) (hy : y.length = a.length)
    (h1 : isNormalSol a y c₁ = true) (h2 : isNormalSol a y c₂ = true) :
    residual a y c₁ = residual a y c₂ := by
  simp only [residual, normalSol_fitted_unique a y c₁ c₂ hne n ha hy h1 h2]

/-- rank-deficient example: columns a = b = (1, 1); clps (1, 0) and (0, 1) both solve the normal equations -/
example : residual [[1, 1], [1, 1]] [1, 1] [1, 0] = residual [[1, 1], [1, 1]] [1, 1] [0, 1] :=
  ls_fit_unique _ _ _ _ (by decide) 2 (by decide) (by decide) (by decide +kernel) (by decide +kernel)

/-- lsExact returns a solution of the normal equations (certifying solver; same statement as C02's) -/
theorem lsExact_isNormalSol (a : Mat) (y c : Vec) (h : lsExact a y = some c) : isNormalSol a y c = true := by
  unfold lsExact at h
  split at h
  · split at h
    · cases h; assumption
    · cases h
  · split at h
    · split at h
      · cases h; assumption
      · cases h
    · cases h

/-- **the fit is unchanged.** Solve the variable-projection problem for a matrix and for the same matrix
    with its columns declared in another order (any solutions the solver returns): the residuals coincide. -/
theorem fit_unchanged_under_permutation (labels wanted : List String) (m : Mat) (y c c' r r' : Vec)
    (hne : m ≠ []) (hl : labels.Nodup) (hw : wanted.Perm labels)
    (hm : ∀ row ∈ m, row.length = labels.length) (hy : y.length = m.length)
    (h : solveLS .vp m y = some (c, r)) (h' : solveLS .vp (reorderCols labels m wanted) y = some (c', r')) :
    r' = r := by
  simp only [solveLS] at h h'
  cases hs : lsExact m y with
  | none => simp [hs] at h
  | some c0 =>
    cases hs' : lsExact (reorderCols labels m wanted) y with
    | none => simp [hs'] at h'
    | some c0' =>
      simp only [hs, Option.some.injEq, Prod.mk.injEq] at h
      simp only [hs', Option.some.injEq, Prod.mk.injEq] at h'
      obtain ⟨rfl, rfl⟩ := h
      obtain ⟨rfl, rfl⟩ := h'
      have hsol := lsExact_isNormalSol m y c0 hs
      have hsol' := lsExact_isNormalSol _ y c0' hs'
      obtain ⟨hperm, hres⟩ := ls_perm_equivariant labels wanted m y c0 hne hl hw hm hsol
      rw [← hres]
      have hne' : reorderCols labels m wanted ≠ [] := by
        cases m with
        | nil => exact absurd rfl hne
        | cons _ _ => simp [reorderCols]
      have hrows : ∀ row ∈ reorderCols labels m wanted, row.length = wanted.length := by
        intro row hrow
        simp only [reorderCols, List.mem_map] at hrow
        obtain ⟨_, _, rfl⟩ := hrow
        simp
      exact ls_fit_unique _ y c0' _ hne' wanted.length hrows (by simpa [reorderCols] using hy) hsol' hperm

example : ∃ c r c' r', solveLS .vp [[1, 0], [0, 1], [0, 1]] [1, 2, 3] = some (c, r) ∧
    solveLS .vp (reorderCols ["a", "b"] [[1, 0], [0, 1], [0, 1]] ["b", "a"]) [1, 2, 3] = some (c', r') ∧ r' = r ∧
    r = [0, -1/2, 1/2] ∧ c = [1, 5/2] ∧ c' = [5/2, 1] := by
  refine ⟨[1, 5/2], [0, -1/2, 1/2], [5/2, 1], [0, -1/2, 1/2], ?_⟩
  decide +kernel

/-! ## 3. Result variables are selected by label -/

/-- `matrix.sel(clp_label=wanted).values`: column `k` of the selection is the column stored under
    `wanted[k]` — whatever the position of that label in the matrix. -/
theorem selectCols_spec (labels wanted : List String) (m : Mat) (h : ∀ l ∈ wanted, l ∈ labels) :
    ∃ sel, selectCols labels m wanted = some sel ∧
      ∀ k (hk : k < wanted.length), colOf labels m wanted[k] = some (col sel k) := by
  refine ⟨_, selectCols_eq_reorder labels wanted m h, ?_⟩
  intro k hk
  rw [col_reorderCols labels wanted m k hk]
  simp only [colOf, idxOf?_eq_some_idxOf labels wanted[k] (h _ (List.getElem_mem hk))]

example : selectCols ["a", "b", "c"] [[1, 2, 3], [4, 5, 6]] ["c", "a"] = some [[3, 1], [6, 4]] := by decide +kernel

/-- a label that is not in the matrix is a KeyError, never a silently wrong column -/
theorem selectCols_keyerror (labels wanted : List String) (m : Mat) (l : String) (hl : l ∈ wanted)
    (hn : l ∉ labels) : selectCols labels m wanted = none := by
  simp [selectCols, positions_none labels wanted l hl hn]

example : selectCols ["a", "b"] [[1, 2]] ["b", "x"] = none := selectCols_keyerror _ _ _ "x" (by decide) (by decide)

/-- entry of a shaped labelled matrix through its slice -/
theorem entry_eq_slice (lm : LMat) (nRows nIdx : Nat) (hs : Shaped lm.body nRows nIdx) (l : String)
    (i r : Nat) (hi : i < nIdx) :
    entry lm l i r = ((colOf lm.labels (sliceMat lm i) l).getD []).getD r 0 := by
  obtain ⟨labels, body⟩ := lm
  cases body with
  | d2 m => rfl
  | d3 ms =>
    obtain ⟨m, hm, _⟩ := shaped_d3_get hs hi
    rw [entry_d3 labels ms l i r m hm]
    simp [sliceMat, List.getD_eq_getElem?_getD, hm]

/-- **species_concentration / species_associated_spectra by label.** The column reported under species
    `species[k]` (selected from the dataset matrix at index `i`) is the sum over the dataset's
    megacomplexes of `scale × (their column under that species label)` — independent of the position of
    the label in any megacomplex and of the order of the megacomplexes. -/
theorem species_concentration_by_label (mcs : List McOut) (lm : LMat) (h : datasetMatrix mcs = some lm)
    (nRows nIdx : Nat) (hs : ∀ o ∈ mcs, Shaped o.out.body nRows nIdx) (species : List String)
    (hsub : ∀ s ∈ species, s ∈ lm.labels) (i : Nat) (hi : i < nIdx) :
    ∃ sel, selectCols lm.labels (sliceMat lm i) species = some sel ∧
      ∀ k (hk : k < species.length) (r : Nat),
        (col sel k).getD r 0 = (mcs.map (fun o => factor o * entry o.out species[k] i r)).sum := by
  obtain ⟨sel, hsel, hcols⟩ := selectCols_spec lm.labels species (sliceMat lm i) hsub
  refine ⟨sel, hsel, ?_⟩
  intro k hk r
  have hshape := datasetMatrix_shaped mcs lm h nRows nIdx hs (Nat.lt_of_le_of_lt (Nat.zero_le i) hi)
  rw [← datasetMatrix_entry mcs lm h nRows nIdx hs species[k] i r hi,
    entry_eq_slice lm nRows nIdx hshape species[k] i r hi, hcols k hk]
  rfl

example : ∃ sel, selectCols ((datasetMatrix exampleMcs).getD default).labels
      (sliceMat ((datasetMatrix exampleMcs).getD default) 1) ["a", "b"] = some sel ∧
    ∀ k (hk : k < 2) (r : Nat), (col sel k).getD r 0 =
      (exampleMcs.map (fun o => factor o * entry o.out (["a", "b"][k]) 1 r)).sum := by
  refine species_concentration_by_label exampleMcs _ rfl 2 2 ?_ ["a", "b"] (by decide +kernel) 1 (by decide)
  intro o ho
  simp only [exampleMcs, List.mem_cons, List.not_mem_nil, or_false] at ho
  rcases ho with rfl | rfl | rfl <;> simp [Shaped]

/-- the species list of a result: no duplicates … -/
theorem allSpecies_nodup (perMc : List (List String)) : (allSpecies perMc).Nodup :=
  (firstSeen_foldl perMc.flatten [] List.nodup_nil).1

/-- … and exactly the compartments of the decay megacomplexes -/
theorem allSpecies_mem (perMc : List (List String)) (s : String) :
    s ∈ allSpecies perMc ↔ ∃ cs ∈ perMc, s ∈ cs := by
  have := (firstSeen_foldl perMc.flatten [] List.nodup_nil).2 s
  unfold allSpecies firstSeen
  rw [this]
  simp [List.mem_flatten]

example : allSpecies [["s2", "s3"], ["s1", "s2"]] = ["s2", "s3", "s1"] := by decide

/-! ## 4. Label tables of the builtin megacomplexes: every label carries its own column -/

theorem oscLabels_nodup (labels : List String) (h : labels.Nodup) : (oscLabels labels).Nodup :=
  oscLabels_nodup_lem labels h

example : oscLabels ["o", "o_cos"] = ["o_cos", "o_cos_cos", "o_sin", "o_cos_sin"] ∧ (oscLabels ["o", "o_cos"]).Nodup :=
  ⟨by decide, oscLabels_nodup _ (by decide)⟩

/-- **osc_columns_match_labels** (damped oscillation without IRF — after D5 —, with Gaussian IRF, and
    PFID): the column under `<label>_cos` / `<label>_sin` is the cosine / sine quadrature computed from
    the frequency and rate declared *for that label*, for any number of oscillations. -/
theorem osc_columns_match_labels (k : Kernel) (hk : k ≠ .noIrfOld) (os : List OscDecl)
    (hn : (os.map (·.1)).Nodup) (o : OscDecl) (ho : o ∈ os) :
    (oscTableOf k os).colOf (o.1 ++ "_cos") = some (cosOf k o) ∧
    (oscTableOf k os).colOf (o.1 ++ "_sin") = some (sinOf k o) := by
  rw [oscTableOf_eq_assoc k hk os]
  have hkeys : ((oscPairs k os).map Prod.fst).Nodup := by
    rw [oscPairs_keys]; exact oscLabels_nodup_lem _ hn
  constructor
  · exact assocTable_colOf (oscPairs k os) Prod.fst Prod.snd hkeys (o.1 ++ "_cos", cosOf k o)
      (List.mem_append_left _ (List.mem_map.mpr ⟨o, ho, rfl⟩))
  · exact assocTable_colOf (oscPairs k os) Prod.fst Prod.snd hkeys (o.1 ++ "_sin", sinOf k o)
      (List.mem_append_right _ (List.mem_map.mpr ⟨o, ho, rfl⟩))

/-- the D5 input on the repaired kernel: `b_cos` is the cosine of oscillation `b` -/
example : (oscTableOf .noIrf [("a", 10, 1/2), ("b", 30, 2)]).colOf "b_cos" = some (.oscCos 30 2) :=
  (osc_columns_match_labels .noIrf (by decide) _ (by decide) ("b", 30, 2) (by simp)).1

/-- regression witness of D5: with the kernel as it was (`idx`, `idx + 1`, `idx += 2`) the column
    labelled `b_cos` holds the *sine of oscillation a* -/
theorem osc_old_kernel_counterexample :
    (oscTableOf .noIrfOld [("a", 10, 1/2), ("b", 30, 2)]).colOf "b_cos" = some (.oscSin 10 (1/2)) ∧
    ¬ (∀ o ∈ [(("a", 10, 1/2) : OscDecl), ("b", 30, 2)],
        (oscTableOf .noIrfOld [("a", 10, 1/2), ("b", 30, 2)]).colOf (o.1 ++ "_cos") = some (cosOf .noIrfOld o)) := by
  constructor
  · decide +kernel
  · intro h
    have := h ("b", 30, 2) (by simp)
    revert this
    decide +kernel

/-- **osc_perm_by_label.** Declaring the oscillations in another order changes no labelled column. -/
theorem osc_perm_by_label (k : Kernel) (hk : k ≠ .noIrfOld) (os os' : List OscDecl) (hp : os'.Perm os)
    (hn : (os.map (·.1)).Nodup) (l : String) :
    (oscTableOf k os').colOf l = (oscTableOf k os).colOf l := by
  rw [oscTableOf_eq_assoc k hk os, oscTableOf_eq_assoc k hk os']
  have hkeys : ((oscPairs k os).map Prod.fst).Nodup := by
    rw [oscPairs_keys]; exact oscLabels_nodup_lem _ hn
  exact assocTable_perm (oscPairs k os) (oscPairs k os') Prod.fst Prod.snd (oscPairs_perm k os os' hp) hkeys l

example : (oscTableOf .pfid [("b", 30, -2), ("a", 10, -1/2)]).colOf "a_sin" =
    (oscTableOf .pfid [("a", 10, -1/2), ("b", 30, -2)]).colOf "a_sin" :=
  osc_perm_by_label .pfid (by decide) _ _ (List.Perm.swap _ _ []) (by decide) "a_sin"

/-- spectral megacomplex: the column under a compartment is the shape declared for it -/
theorem spectral_columns_match_labels (shape : List (String × String)) (hn : (shape.map (·.1)).Nodup)
    (p : String × String) (hp : p ∈ shape) : (spectralTable shape).colOf p.1 = some (.shape p.2) :=
  assocTable_colOf shape (·.1) (fun p => .shape p.2) hn p hp

example : (spectralTable [("s1", "sh1"), ("s2", "sh2")]).colOf "s2" = some (.shape "sh2") :=
  spectral_columns_match_labels _ (by decide) ("s2", "sh2") (by simp)

theorem spectral_perm_by_label (shape shape' : List (String × String)) (hp : shape'.Perm shape)
    (hn : (shape.map (·.1)).Nodup) (l : String) :
    (spectralTable shape').colOf l = (spectralTable shape).colOf l :=
  assocTable_perm shape shape' (·.1) (fun p => .shape p.2) hp hn l

example : (spectralTable [("s2", "sh2"), ("s1", "sh1")]).colOf "s1" = (spectralTable [("s1", "sh1"), ("s2", "sh2")]).colOf "s1" :=
  spectral_perm_by_label _ _ (List.Perm.swap _ _ []) (by decide) "s1"

theorem artifactLabel_inj (label : String) (i j : Nat) (hi : i < 3) (hj : j < 3)
    (h : artifactLabel label (i + 1) = artifactLabel label (j + 1)) : i = j := by
  unfold artifactLabel at h
  have h' := (String.append_left_inj label).mp h
  have hi' : i = 0 ∨ i = 1 ∨ i = 2 := by omega
  have hj' : j = 0 ∨ j = 1 ∨ j = 2 := by omega
  rcases hi' with rfl | rfl | rfl <;> rcases hj' with rfl | rfl | rfl <;>
    first | rfl | exact absurd h' (by decide +kernel)

/-- coherent artifact: the column under `coherent_artifact_<i>_<label>` is the i-th derivative form -/
theorem artifact_columns_match_labels (order : Nat) (label : String) (t : Table)
    (h : artifactTable order label = some t) (i : Nat) (hi : i < order) :
    t.colOf (artifactLabel label (i + 1)) = some (.artifact (i + 1)) := by
  unfold artifactTable at h
  split at h
  · rename_i hord
    cases h
    have hn : ((List.range order).map (fun i => artifactLabel label (i + 1))).Nodup := by
      refine nodup_map_on ?_ List.nodup_range
      intro x hx y hy e
      exact artifactLabel_inj label x y (by have := List.mem_range.mp hx; omega) (by have := List.mem_range.mp hy; omega) e
    exact assocTable_colOf (List.range order) (fun i => artifactLabel label (i + 1)) (fun i => .artifact (i + 1))
      hn i (List.mem_range.mpr hi)
  · cases h

example : ((artifactTable 3 "m2").getD default).colOf "coherent_artifact_2_m2" = some (.artifact 2) :=
  artifact_columns_match_labels 3 "m2" _ rfl 1 (by decide)

theorem baseline_guide_labels (ds target : String) :
    (baselineTable ds).colOf (ds ++ "_baseline") = some .ones ∧ (guideTable target).colOf target = some .guide := by
  simp [baselineTable, guideTable, Table.colOf, List.idxOf?_cons]

/-! ## 4b. From the declarations to the dataset matrix: the column under a label is what the label denotes -/

/-- a megacomplex declaration is well formed: as many descriptors as labels, evaluated columns of full height -/
def McDecl.WF (d : McDecl) (n : Nat) : Prop :=
  d.table.cols.length = d.table.labels.length ∧ ∀ i c, c ∈ d.table.cols → (d.ev i c).length = n

/-- what megacomplex `d` contributes under label `l` at index `i`, row `r`: the evaluation of the descriptor
    its table stores under `l` (nothing when it does not declare `l`) -/
def McDecl.contribution (d : McDecl) (l : String) (i r : Nat) : Rat :=
  (((d.table.colOf l).map (d.ev (if d.dep then i else 0))).getD []).getD r 0

/-- **the dataset matrix by label, end to end.** For a dataset whose megacomplexes are given by their label
    tables (any mixture of index-dependent and index-independent ones, any scales): the column under a label is
    the sum over the megacomplexes of `scale ×` the column *denoted by that label in that megacomplex*. -/
theorem tablesDataset_entry (n nIdx : Nat) (mcs : List McDecl) (lm : LMat) (h : tablesDataset n nIdx mcs = some lm)
    (hwf : ∀ d ∈ mcs, d.WF n) (l : String) (i r : Nat) (hi : i < nIdx) :
    entry lm l i r = (mcs.map (fun d => d.scale.getD 1 * d.contribution l i r)).sum := by
  unfold tablesDataset at h
  have hs : ∀ o ∈ mcs.map (fun d => (⟨tableMatrix d.ev n nIdx d.dep d.table, d.scale⟩ : McOut)),
      Shaped o.out.body n nIdx := by
    intro o ho
    obtain ⟨d, _, rfl⟩ := List.mem_map.mp ho
    exact tableMatrix_shaped d.ev n nIdx d.dep d.table
  rw [datasetMatrix_entry _ lm h n nIdx hs l i r hi, List.map_map]
  congr 1
  apply List.map_congr_left
  intro d hd
  simp only [Function.comp, factor, McDecl.contribution]
  rw [tableMatrix_entry d.ev n nIdx d.dep d.table (hwf d hd).1 (hwf d hd).2 l i r hi]

/-- for a damped-oscillation / PFID megacomplex the contribution under `<label>_cos` is the cosine column
    evaluated from the parameters declared for that label, whatever the declaration order -/
theorem osc_contribution (k : Kernel) (hk : k ≠ .noIrfOld) (os : List OscDecl) (hn : (os.map (·.1)).Nodup)
    (dep : Bool) (scale : Option Rat) (ev : Nat → Col → Vec) (o : OscDecl) (ho : o ∈ os) (i r : Nat) :
    (⟨oscTableOf k os, dep, scale, ev⟩ : McDecl).contribution (o.1 ++ "_cos") i r =
      (ev (if dep then i else 0) (cosOf k o)).getD r 0 ∧
    (⟨oscTableOf k os, dep, scale, ev⟩ : McDecl).contribution (o.1 ++ "_sin") i r =
      (ev (if dep then i else 0) (sinOf k o)).getD r 0 := by
  obtain ⟨h1, h2⟩ := osc_columns_match_labels k hk os hn o ho
  simp [McDecl.contribution, h1, h2]

/-- two megacomplexes sharing `a_cos`: a scaled damped oscillation (2 oscillations, no IRF) and a table
    megacomplex; evaluation = a lookup table -/
example :
    let ev : Nat → Col → Vec := fun _ c => match c with
      | .oscCos 10 _ => [1, 2] | .oscCos 30 _ => [3, 4] | .oscSin 10 _ => [5, 6] | .oscSin 30 _ => [7, 8]
      | .species _ => [100, 200] | _ => [0, 0]
    let mcs : List McDecl := [⟨oscTableOf .noIrf [("a", 10, 1/2), ("b", 30, 2)], false, some 2, ev⟩,
                               ⟨speciesTable ["a_cos"], false, none, ev⟩]
    ∃ lm, tablesDataset 2 1 mcs = some lm ∧
      entry lm "a_cos" 0 1 = (mcs.map (fun d => d.scale.getD 1 * d.contribution "a_cos" 0 1)).sum ∧
      entry lm "a_cos" 0 1 = 2 * 2 + 200 := by
  intro ev mcs
  refine ⟨_, rfl, ?_, by decide +kernel⟩
  refine tablesDataset_entry 2 1 mcs _ rfl ?_ "a_cos" 0 1 (by decide)
  intro d hd
  simp only [mcs, List.mem_cons, List.not_mem_nil, or_false] at hd
  rcases hd with rfl | rfl
  · refine ⟨by decide +kernel, ?_⟩
    intro i c hc
    have : c = .oscCos 10 (1/2) ∨ c = .oscCos 30 2 ∨ c = .oscSin 10 (1/2) ∨ c = .oscSin 30 2 := by
      have hcols : (oscTableOf .noIrf [("a", 10, 1/2), ("b", 30, 2)]).cols =
          [.oscCos 10 (1/2), .oscCos 30 2, .oscSin 10 (1/2), .oscSin 30 2] := by decide +kernel
      rw [hcols] at hc
      simpa using hc
    rcases this with rfl | rfl | rfl | rfl <;> rfl
  · refine ⟨rfl, ?_⟩
    intro i c hc
    have : c = .species "a_cos" := by simpa [speciesTable] using hc
    subst this
    rfl

/-! ## 5. Decay megacomplexes: compartment order and initial concentration -/

/-- which compartments a K-matrix involves depends on its entries only, not on their order -/
theorem involved_mem (k : KMat) (c : String) : c ∈ involved k ↔ ∃ e ∈ k, e.to = c ∨ e.frm = c :=
  involved_mem_lem k c

example : involved [⟨"s2", "s1", 1⟩, ⟨"s3", "s2", 2⟩] = ["s2", "s1", "s3"] := by decide +kernel

/-- **getCompartments_perm.** Declaring the compartments of the initial concentration in another order
    permutes the compartment list; re-ordering the K-matrix entries does not change it at all. -/
theorem getCompartments_perm (ic ic' : IC) (k k' : KMat) (hc : ic'.compartments.Perm ic.compartments)
    (hk : ∀ e, e ∈ k' ↔ e ∈ k) :
    (getCompartments ic' k').Perm (getCompartments ic k) := by
  have hinv : ∀ c, (involved k').contains c = (involved k).contains c := by
    intro c
    have h1 := involved_mem k' c
    have h2 := involved_mem k c
    have : c ∈ involved k' ↔ c ∈ involved k := by
      rw [h1, h2]
      constructor
      · rintro ⟨e, he, h⟩; exact ⟨e, (hk e).mp he, h⟩
      · rintro ⟨e, he, h⟩; exact ⟨e, (hk e).mpr he, h⟩
    by_cases hm : c ∈ involved k
    · have hm' := this.mpr hm
      simp [hm, hm']
    · have hm' : c ∉ involved k' := fun h => hm (this.mp h)
      simp [hm, hm']
  unfold getCompartments
  have : (fun c => (involved k').contains c) = (fun c => (involved k).contains c) := funext hinv
  rw [this]
  exact hc.filter _

example : (getCompartments ⟨["s3", "s1", "s2"], [0, 1, 0], []⟩ [⟨"s3", "s2", 2⟩, ⟨"s2", "s1", 1⟩]).Perm
    (getCompartments ⟨["s1", "s2", "s3"], [1, 0, 0], []⟩ [⟨"s2", "s1", 1⟩, ⟨"s3", "s2", 2⟩]) :=
  getCompartments_perm _ _ _ _ (by decide) (by intro e; simp [or_comm])

/-- **each compartment keeps its own initial concentration**: the (compartment, value) pairs the decay
    megacomplex works with are the declared pairs of the involved compartments. -/
theorem compartment_initial_concentration_paired (ic : IC) (k : KMat) :
    (getCompartments ic k).zip (getInitialConcentration ic k false) =
      (ic.compartments.zip ic.parameters).filter (fun q => (involved k).contains q.1) := by
  have hmask : ic.compartments.map (fun c => (getCompartments ic k).contains c) =
      ic.compartments.map (fun c => (involved k).contains c) :=
    List.map_congr_left (fun c hc => getCompartments_contains ic k c hc)
  simp only [getInitialConcentration, hmask, Bool.false_eq_true, if_false]
  exact zip_filter_pickMask (fun c => (involved k).contains c) ic.compartments ic.parameters

example : (getCompartments ⟨["s3", "s1", "s2"], [5, 7, 9], []⟩ [⟨"s2", "s1", 1⟩]).zip
    (getInitialConcentration ⟨["s3", "s1", "s2"], [5, 7, 9], []⟩ [⟨"s2", "s1", 1⟩] false) = [("s1", 7), ("s2", 9)] := by
  decide +kernel

/-- permuting the declaration (compartments together with their parameters) permutes the pairs -/
theorem compartment_pairs_perm (ic ic' : IC) (k : KMat)
    (hp : (ic'.compartments.zip ic'.parameters).Perm (ic.compartments.zip ic.parameters)) :
    ((getCompartments ic' k).zip (getInitialConcentration ic' k false)).Perm
      ((getCompartments ic k).zip (getInitialConcentration ic k false)) := by
  rw [compartment_initial_concentration_paired, compartment_initial_concentration_paired]
  exact hp.filter _

/-- the same for the *normalised* initial concentration the decay formulas use: the value paired with a
    compartment is its own parameter, divided by the normalisation sum unless the compartment is excluded -/
theorem compartment_normalized_concentration_paired (ic : IC) (k : KMat) :
    (getCompartments ic k).zip (getInitialConcentration ic k true) =
      ((ic.compartments.zip ic.parameters).filter (fun q => (involved k).contains q.1)).map (normValue ic) := by
  have hmask : ic.compartments.map (fun c => (getCompartments ic k).contains c) =
      ic.compartments.map (fun c => (involved k).contains c) :=
    List.map_congr_left (fun c hc => getCompartments_contains ic k c hc)
  simp only [getInitialConcentration, hmask, if_true]
  have h := zip_filter_pickMask (fun c => (involved k).contains c) ic.compartments (normalized ic)
  have hg : getCompartments ic k = ic.compartments.filter (fun c => (involved k).contains c) := rfl
  rw [hg, h, normalized_paired_lem, List.filter_map]
  rfl

/-- the normalisation sum does not depend on the declaration order (so neither does any normalised value) -/
theorem normSum_perm (ic ic' : IC) (hex : ∀ c, ic'.exclude.contains c = ic.exclude.contains c)
    (hp : (ic'.compartments.zip ic'.parameters).Perm (ic.compartments.zip ic.parameters)) :
    normSum ic' = normSum ic := by
  rw [normSum_eq, normSum_eq]
  have : (fun q : String × Rat => !ic'.exclude.contains q.1) = (fun q => !ic.exclude.contains q.1) := by
    funext q; rw [hex]
  rw [this]
  exact rat_sum_perm ((hp.filter _).map _)

example : (getCompartments ⟨["s3", "s1", "s2"], [1, 1, 2], ["s3"]⟩ [⟨"s2", "s1", 1⟩]).zip
    (getInitialConcentration ⟨["s3", "s1", "s2"], [1, 1, 2], ["s3"]⟩ [⟨"s2", "s1", 1⟩] true) = [("s1", 1/3), ("s2", 2/3)] ∧
    normSum ⟨["s2", "s3", "s1"], [2, 1, 1], ["s3"]⟩ = normSum ⟨["s3", "s1", "s2"], [1, 1, 2], ["s3"]⟩ := by
  decide +kernel

/-- **Regression of D4** (fixed in /repo, commit ceea826): K = {s1a ← s4 : 1, s1a ← s1a : 5/16}, population in s1a.
    Before the fix the scheme took the general path when declared as [s1a, s4] and was classified sequential when
    declared as [s4, s1a] (the sequential formula then assumes the population starts in s4). Now both declaration
    orders take the general path. (Name kept from when this was the counter-example of a recorded finding.) -/
theorem decay_path_order_dependent_counterexample :
    isSequential ["s1a", "s4"] [1, 0] [⟨"s1a", "s4", 1⟩, ⟨"s1a", "s1a", 5/16⟩] = some false ∧
    isSequential ["s4", "s1a"] [0, 1] [⟨"s1a", "s4", 1⟩, ⟨"s1a", "s1a", 5/16⟩] = some false := by
  decide +kernel

/-- The closed-form (sequential) path is taken only when all population starts in the *first* declared compartment:
    any initial concentration other than (1, 0, …, 0) — in particular every joint permutation of a chain's
    declaration that moves the populated compartment away from the first position — takes the general
    eigen-decomposition path, whatever the K-matrix. (Both paths solve the same rate equations: Props/C04
    `sequential_solves`, `general_solves`; so the column under a compartment label does not depend on which is taken.) -/
theorem isSequential_perm_invariant_partial (comps : List String) (j : Vec) (k : KMat)
    (hj : j = [] ∨ j.headD 0 ≠ 1 ∨ ∃ x ∈ j.tail, x ≠ 0) :
    isSequential comps j k = some false := by
  have hc : (j.isEmpty || j.headD 0 != 1 || j.tail.any (· != 0)) = true := by
    rcases hj with h | h | ⟨x, hx, hne⟩
    · subst h; rfl
    · have : (j.headD 0 != 1) = true := by simpa using h
      rw [this]; simp
    · have : j.tail.any (· != 0) = true := List.any_eq_true.mpr ⟨x, hx, by simpa using hne⟩
      rw [this]; simp
  unfold isSequential
  rw [if_pos hc]

example : isSequential ["s2", "s1"] [1/2, 1] [⟨"s2", "s1", 1⟩] = some false :=
  isSequential_perm_invariant_partial _ _ _ (Or.inr (Or.inl (by decide +kernel)))

/-- a chain declared in chain order and started in its first compartment is classified sequential -/
example : isSequential ["s1", "s2"] [1, 0] [⟨"s2", "s1", 1⟩, ⟨"s2", "s2", 1/2⟩] = some true := by decide +kernel

/-! ## 6. Full models (datasets with global megacomplexes): everything follows the *pair* of labels -/

/-- **ls_perm_equivariant** for any label type (for the full model the labels are pairs
    (global clp label, clp label)). -/
theorem ls_perm_equivariant_by {α : Type} [BEq α] [LawfulBEq α] (labels wanted : List α) (m : Mat) (y c : Vec)
    (hne : m ≠ []) (hl : labels.Nodup) (hw : wanted.Perm labels) (hm : ∀ row ∈ m, row.length = labels.length)
    (hsol : isNormalSol m y c = true) :
    isNormalSol (reorderColsBy labels m wanted) y (reorderVecBy labels c wanted) = true ∧
    residual (reorderColsBy labels m wanted) y (reorderVecBy labels c wanted) = residual m y c := by
  simp only [isNormalSol, Bool.and_eq_true, beq_iff_eq] at hsol
  obtain ⟨hlen, hgrad⟩ := hsol
  have hc : c.length = labels.length := by rw [hlen, ncols_of_rows m labels.length hne hm]
  refine ⟨?_, reorder_residual_by labels wanted m y c hl hw hm hc⟩
  simp only [isNormalSol, Bool.and_eq_true, beq_iff_eq]
  refine ⟨?_, ?_⟩
  · rw [ncols_reorderColsBy labels wanted m hne]; simp [reorderVecBy]
  · rw [gradient_reorder_by labels wanted m y c hne hl hw hm hc]
    exact all_zero_reorderVecBy labels wanted _ hgrad

example :
    isNormalSol (reorderColsBy [("g", "a"), ("g", "b")] [[1, 0], [0, 1], [0, 1]] [("g", "b"), ("g", "a")]) [1, 2, 2]
      (reorderVecBy [("g", "a"), ("g", "b")] [1, 2] [("g", "b"), ("g", "a")]) = true ∧
    residual (reorderColsBy [("g", "a"), ("g", "b")] [[1, 0], [0, 1], [0, 1]] [("g", "b"), ("g", "a")]) [1, 2, 2]
      (reorderVecBy [("g", "a"), ("g", "b")] [1, 2] [("g", "b"), ("g", "a")]) = residual [[1, 0], [0, 1], [0, 1]] [1, 2, 2] [1, 2] :=
  ls_perm_equivariant_by [("g", "a"), ("g", "b")] [("g", "b"), ("g", "a")] _ _ _ (by decide) (by decide)
    (List.Perm.swap _ _ []) (by decide) (by decide +kernel)

/-- the fit is unchanged under a re-ordering of the columns by label, for any label type -/
theorem fit_unchanged_under_permutation_by {α : Type} [BEq α] [LawfulBEq α] (labels wanted : List α) (m : Mat)
    (y c c' r r' : Vec) (hne : m ≠ []) (hl : labels.Nodup) (hw : wanted.Perm labels)
    (hm : ∀ row ∈ m, row.length = labels.length) (hy : y.length = m.length)
    (h : solveLS .vp m y = some (c, r)) (h' : solveLS .vp (reorderColsBy labels m wanted) y = some (c', r')) :
    r' = r ∧ isNormalSol (reorderColsBy labels m wanted) y (reorderVecBy labels c wanted) = true := by
  simp only [solveLS] at h h'
  cases hs : lsExact m y with
  | none => simp [hs] at h
  | some c0 =>
    cases hs' : lsExact (reorderColsBy labels m wanted) y with
    | none => simp [hs'] at h'
    | some c0' =>
      simp only [hs, Option.some.injEq, Prod.mk.injEq] at h
      simp only [hs', Option.some.injEq, Prod.mk.injEq] at h'
      obtain ⟨rfl, rfl⟩ := h
      obtain ⟨rfl, rfl⟩ := h'
      have hsol := lsExact_isNormalSol m y c0 hs
      have hsol' := lsExact_isNormalSol _ y c0' hs'
      obtain ⟨hperm, hres⟩ := ls_perm_equivariant_by labels wanted m y c0 hne hl hw hm hsol
      refine ⟨?_, hperm⟩
      rw [← hres]
      have hne' : reorderColsBy labels m wanted ≠ [] := by
        cases m with
        | nil => exact absurd rfl hne
        | cons _ _ => simp [reorderColsBy]
      have hrows : ∀ row ∈ reorderColsBy labels m wanted, row.length = wanted.length := by
        intro row hrow
        simp only [reorderColsBy, List.mem_map] at hrow
        obtain ⟨_, _, rfl⟩ := hrow
        simp
      exact ls_fit_unique _ y c0' _ hne' wanted.length hrows (by simpa [reorderColsBy] using hy) hsol' hperm

/-- **global_matrix_entry.** The global matrix (rows = global axis) by label: the column under a global clp
    label is the sum over the dataset's *global* megacomplexes of `scale ×` their column under that label; a
    permutation of the global megacomplexes (with their scales) changes no labelled column. -/
theorem global_matrix_entry (d : Dataset) (gm : LMat) (h : datasetMatrix d.gmcs = some gm)
    (hs : ∀ o ∈ d.gmcs, Shaped o.out.body d.nGlobal 1) (G : String) (g : Nat) :
    entry gm G 0 g = (d.gmcs.map (fun o => factor o * entry o.out G 0 g)).sum ∧
    ∀ gmcs', gmcs'.Perm d.gmcs → ∃ gm', datasetMatrix gmcs' = some gm' ∧ entry gm' G 0 g = entry gm G 0 g := by
  refine ⟨datasetMatrix_entry d.gmcs gm h d.nGlobal 1 hs G 0 g (by decide), ?_⟩
  intro gmcs' hp
  obtain ⟨gm', hgm', he⟩ := datasetMatrix_perm d.gmcs gmcs' hp gm h d.nGlobal 1 hs
  exact ⟨gm', hgm', he G 0 g (by decide)⟩

/-- a dataset with a global model: 2 time points × 3 global points, weighted; model megacomplexes with the shared
    label `s2` (one of them scaled), two global megacomplexes sharing `g1` -/
def exampleFull : Dataset :=
  { label := "f", globalAxis := [0, 1, 2], data := [[1, 2, 3], [4, 5, 6]], weight := some [[1, 1, 2], [1, 3, 1]],
    scale := none,
    mcs := [⟨⟨["s1", "s2"], .d2 [[1, 2], [3, 4]]⟩, none⟩, ⟨⟨["s2"], .d2 [[1], [1]]⟩, some 2⟩],
    gmcs := [⟨⟨["g1", "g2"], .d2 [[1, 0], [1, 1], [2, 5]]⟩, none⟩, ⟨⟨["g1"], .d2 [[1], [0], [1]]⟩, some 3⟩] }

/-- the same dataset with both megacomplex lists declared in the other order -/
def exampleFullTwin : Dataset :=
  { exampleFull with mcs := exampleFull.mcs.reverse, gmcs := exampleFull.gmcs.reverse }

example : entry ((datasetMatrix exampleFull.gmcs).getD default) "g1" 0 2 =
    (exampleFull.gmcs.map (fun o => factor o * entry o.out "g1" 0 2)).sum ∧
    (exampleFull.gmcs.map (fun o => factor o * entry o.out "g1" 0 2)).sum = 2 + 3 * 1 := by
  refine ⟨(global_matrix_entry exampleFull _ rfl ?_ "g1" 2).1, by decide +kernel⟩
  intro o ho
  simp only [exampleFull, List.mem_cons, List.not_mem_nil, or_false] at ho
  rcases ho with rfl | rfl <;> simp [Shaped, Dataset.nGlobal, exampleFull]

/-- **full_matrix_entry.** The matrix handed to the solver for a full model, read by label pair: in the row of
    data point (`m`, `g`) the column of the pair (global clp label `G`, clp label `L`) holds
    `weight[m][g] × (Σ global megacomplexes scale × their G-column at g) × (Σ megacomplexes scale × their L-column at (g, m))`
    — whatever the order of either megacomplex list and of the labels inside the megacomplexes. -/
theorem full_matrix_entry (d : Dataset) (lm gm : LMat) (G a : Mat) (y : Vec)
    (hlm : datasetMatrix d.mcs = some lm) (hgm : datasetMatrix d.gmcs = some gm) (hGb : gm.body = .d2 G)
    (h : fullModelProblem d = some (a, y))
    (hm : ∀ o ∈ d.mcs, Rect o.out d.nModel d.nGlobal) (hg : ∀ o ∈ d.gmcs, Rect o.out d.nGlobal 1)
    (hw : ∀ w, d.weight = some w → w.length = d.nModel)
    (Gl Ll : String) (hGl : Gl ∈ gm.labels) (hLl : Ll ∈ lm.labels) (g m : Nat) (hgn : g < d.nGlobal) (hmn : m < d.nModel) :
    (a.getD (g * d.nModel + m) []).getD ((fullLabels gm.labels lm.labels).idxOf (Gl, Ll)) 0 =
      weightAt d m g * ((d.gmcs.map (fun o => factor o * entry o.out Gl 0 g)).sum *
        (d.mcs.map (fun o => factor o * entry o.out Ll g m)).sum) := by
  have hrl : Rect lm d.nModel d.nGlobal := datasetMatrix_rect d.mcs lm hlm _ _ hm (by omega)
  have hrg : Rect gm d.nGlobal 1 := datasetMatrix_rect d.gmcs gm hgm _ _ hg (by decide)
  have hsG : sliceMat gm 0 = G := by simp [sliceMat, hGb]
  have hGlen : G.length = d.nGlobal := by
    have := sliceMat_length gm d.nGlobal 1 hrg.2.1 0 (by decide); rwa [hsG] at this
  rw [fullModelProblem_eq d lm gm G hlm hgm hGb hrl.2.1 hGlen] at h
  simp only [Option.some.injEq, Prod.mk.injEq] at h
  obtain ⟨ha, _⟩ := h
  rw [← ha, full_row_getD d G lm hrl.2.1 hw g m _ hgn hmn, fullRows_row G lm d.nModel d.nGlobal hrl.2.1 g m hgn hmn]
  have hGw : (G.getD g []).length = gm.labels.length := by
    have hmem : G.getD g [] ∈ G := by
      simp [List.getD_eq_getElem?_getD, List.getElem?_eq_getElem (show g < G.length by omega)]
    exact hrg.2.2 0 (by decide) (G.getD g []) (by rw [hsG]; exact hmem)
  have hMw : ((sliceMat lm g).getD m []).length = lm.labels.length := by
    have hml : m < (sliceMat lm g).length := by rw [sliceMat_length lm _ _ hrl.2.1 g hgn]; exact hmn
    have hmem : (sliceMat lm g).getD m [] ∈ sliceMat lm g := by
      simp [List.getD_eq_getElem?_getD, List.getElem?_eq_getElem hml]
    exact hrl.2.2 g hgn _ hmem
  rw [kron_getD gm.labels lm.labels _ _ hGw hMw Gl Ll hLl]
  have e1 := entry_idxOf gm d.nGlobal 1 hrg Gl hGl 0 g (by decide)
  have e2 := entry_idxOf lm d.nModel d.nGlobal hrl Ll hLl g m hgn
  rw [hsG] at e1
  rw [← e1, ← e2, datasetMatrix_entry d.gmcs gm hgm d.nGlobal 1 (fun o ho => (hg o ho).2.1) Gl 0 g (by decide),
    datasetMatrix_entry d.mcs lm hlm d.nModel d.nGlobal (fun o ho => (hm o ho).2.1) Ll g m hgn]

private theorem exampleFull_rect :
    (∀ o ∈ exampleFull.mcs, Rect o.out exampleFull.nModel exampleFull.nGlobal) ∧
    (∀ o ∈ exampleFull.gmcs, Rect o.out exampleFull.nGlobal 1) := by
  constructor
  · intro o ho
    simp only [exampleFull, List.mem_cons, List.not_mem_nil, or_false] at ho
    rcases ho with rfl | rfl
    · refine ⟨by decide, by simp [Shaped, Dataset.nModel, exampleFull], ?_⟩
      intro i _ row hrow
      simp only [sliceMat, List.mem_cons, List.not_mem_nil, or_false] at hrow
      rcases hrow with rfl | rfl <;> rfl
    · refine ⟨by decide, by simp [Shaped, Dataset.nModel, exampleFull], ?_⟩
      intro i _ row hrow
      simp only [sliceMat, List.mem_cons, List.not_mem_nil, or_false] at hrow
      rcases hrow with rfl | rfl <;> rfl
  · intro o ho
    simp only [exampleFull, List.mem_cons, List.not_mem_nil, or_false] at ho
    rcases ho with rfl | rfl
    · refine ⟨by decide, by simp [Shaped, Dataset.nGlobal, exampleFull], ?_⟩
      intro i _ row hrow
      simp only [sliceMat, List.mem_cons, List.not_mem_nil, or_false] at hrow
      rcases hrow with rfl | rfl | rfl <;> rfl
    · refine ⟨by decide, by simp [Shaped, Dataset.nGlobal, exampleFull], ?_⟩
      intro i _ row hrow
      simp only [sliceMat, List.mem_cons, List.not_mem_nil, or_false] at hrow
      rcases hrow with rfl | rfl | rfl <;> rfl

/-- data point (m, g) = (1, 2), pair (g1, s2): weight 1 × (2 + 3·1) × (4 + 2·1) = 30 sits in row 2·2 + 1, column
    `idxOf (g1, s2)` = 1 of the solver's matrix -/
example : ∃ a y, fullModelProblem exampleFull = some (a, y) ∧
    (a.getD (2 * exampleFull.nModel + 1) []).getD ((fullLabels ["g1", "g2"] ["s1", "s2"]).idxOf ("g1", "s2")) 0 =
      weightAt exampleFull 1 2 * ((exampleFull.gmcs.map (fun o => factor o * entry o.out "g1" 0 2)).sum *
        (exampleFull.mcs.map (fun o => factor o * entry o.out "s2" 2 1)).sum) ∧
    (a.getD 5 []).getD 1 0 = 30 := by
  refine ⟨_, _, rfl, ?_, by decide +kernel⟩
  exact full_matrix_entry exampleFull ⟨["s1", "s2"], _⟩ ⟨["g1", "g2"], _⟩ _ _ _ rfl rfl rfl rfl exampleFull_rect.1
    exampleFull_rect.2 (by intro w hw; cases hw; rfl) "g1" "s2" (by decide) (by decide) 2 1 (by decide) (by decide)

/-- **full_model_perm.** Declare the megacomplexes and the global megacomplexes of a dataset in any other order
    (scales following their megacomplex): the data vector handed to the solver is the same, and the matrix is the
    same matrix with its columns re-ordered by the *pair* (global clp label, clp label) — the column of a pair holds
    the same numbers in both declaration orders. -/
theorem full_model_perm (d d' : Dataset) (lm lm' gm gm' : LMat) (G G' : Mat)
    (hax : d'.globalAxis = d.globalAxis) (hdata : d'.data = d.data) (hwt : d'.weight = d.weight)
    (hpm : d'.mcs.Perm d.mcs) (hpg : d'.gmcs.Perm d.gmcs)
    (hlm : datasetMatrix d.mcs = some lm) (hgm : datasetMatrix d.gmcs = some gm)
    (hlm' : datasetMatrix d'.mcs = some lm') (hgm' : datasetMatrix d'.gmcs = some gm')
    (hGb : gm.body = .d2 G) (hGb' : gm'.body = .d2 G')
    (hm : ∀ o ∈ d.mcs, Rect o.out d.nModel d.nGlobal) (hg : ∀ o ∈ d.gmcs, Rect o.out d.nGlobal 1)
    (hw : ∀ w, d.weight = some w → w.length = d.nModel) (hpos : 0 < d.nGlobal) :
    ∃ a y, fullModelProblem d = some (a, y) ∧
      fullModelProblem d' = some
        (reorderColsBy (fullLabels gm.labels lm.labels) a (fullLabels gm'.labels lm'.labels), y) ∧
      (fullLabels gm'.labels lm'.labels).Perm (fullLabels gm.labels lm.labels) ∧
      (fullLabels gm.labels lm.labels).Nodup ∧
      (∀ row ∈ a, row.length = (fullLabels gm.labels lm.labels).length) ∧
      a.length = d.nGlobal * d.nModel ∧ y.length = d.nGlobal * d.nModel := by
  have hnM : d'.nModel = d.nModel := by simp [Dataset.nModel, hdata]
  have hnG : d'.nGlobal = d.nGlobal := by simp [Dataset.nGlobal, hax]
  have hm' : ∀ o ∈ d'.mcs, Rect o.out d.nModel d.nGlobal := fun o ho => hm o (hpm.subset ho)
  have hg' : ∀ o ∈ d'.gmcs, Rect o.out d.nGlobal 1 := fun o ho => hg o (hpg.subset ho)
  have hrl := datasetMatrix_rect d.mcs lm hlm _ _ hm hpos
  have hrl' := datasetMatrix_rect d'.mcs lm' hlm' _ _ hm' hpos
  have hrg := datasetMatrix_rect d.gmcs gm hgm _ _ hg (by decide)
  have hrg' := datasetMatrix_rect d'.gmcs gm' hgm' _ _ hg' (by decide)
  have hGlen : ∀ (gm : LMat) (G : Mat), gm.body = .d2 G → Rect gm d.nGlobal 1 → G.length = d.nGlobal := by
    intro gm G hb hr
    have hsG : sliceMat gm 0 = G := by simp [sliceMat, hb]
    have := sliceMat_length gm d.nGlobal 1 hr.2.1 0 (by decide); rwa [hsG] at this
  -- labelled entries agree
  obtain ⟨lm'', hlm'', hel⟩ := datasetMatrix_perm d.mcs d'.mcs hpm lm hlm d.nModel d.nGlobal (fun o ho => (hm o ho).2.1)
  obtain ⟨gm'', hgm'', heg⟩ := datasetMatrix_perm d.gmcs d'.gmcs hpg gm hgm d.nGlobal 1 (fun o ho => (hg o ho).2.1)
  rw [hlm'] at hlm''; cases hlm''
  rw [hgm'] at hgm''; cases hgm''
  have hpl : lm'.labels.Perm lm.labels :=
    datasetMatrix_labels_perm d.mcs d'.mcs hpm lm lm' hlm hlm' (fun o ho => (hm o ho).1)
  have hpgl : gm'.labels.Perm gm.labels :=
    datasetMatrix_labels_perm d.gmcs d'.gmcs hpg gm gm' hgm hgm' (fun o ho => (hg o ho).1)
  have hfr := fullRows_reorder G G' lm lm' gm gm' d.nModel d.nGlobal hGb hGb' hrl hrl' hrg hrg' hpl hpgl hel heg
  have e := fullModelProblem_eq d lm gm G hlm hgm hGb hrl.2.1 (hGlen gm G hGb hrg)
  have e' := fullModelProblem_eq d' lm' gm' G' hlm' hgm' hGb' (by rw [hnM, hnG]; exact hrl'.2.1)
    (by rw [hnG]; exact hGlen gm' G' hGb' hrg')
  have hwd : d'.weightedData = d.weightedData := by simp [Dataset.weightedData, hdata, hwt]
  have hwidth := fullRows_width G lm gm d.nModel d.nGlobal hGb hrl hrg
  have hlen := fullRows_length G lm d.nModel d.nGlobal hrl.2.1
  refine ⟨_, _, e, ?_, fullLabels_perm _ _ _ _ hrg.1 hrl.1 hpgl hpl, fullLabels_nodup _ _ hrg.1 hrl.1, ?_, ?_,
    flat_data_length d hw⟩
  · rw [e', hnG, hwt, hwd, hfr]
    cases d.weight with
    | none => rfl
    | some w => simp only [reorderColsBy_weightRows]
  · cases d.weight with
    | none => exact hwidth
    | some w => exact weightRows_width _ _ _ hwidth
  · cases hwd : d.weight with
    | none => exact hlen
    | some w =>
      simp only
      rw [weightRows_length _ _ (by rw [flatCols_length, hlen, hw w hwd]), hlen]

/-- the two declaration orders of `exampleFull`: the solver sees the same data and a column-permuted matrix;
    e.g. the pair (g1, s2) sits in column 1 in one order and in column 2 in the other -/
example : ∃ a y, fullModelProblem exampleFull = some (a, y) ∧
    fullModelProblem exampleFullTwin = some
      (reorderColsBy (fullLabels ["g1", "g2"] ["s1", "s2"]) a (fullLabels ["g1", "g2"] ["s2", "s1"]), y) := by
  obtain ⟨a, y, h1, h2, _⟩ := full_model_perm exampleFull exampleFullTwin ⟨["s1", "s2"], _⟩ ⟨["s2", "s1"], _⟩
    ⟨["g1", "g2"], _⟩ ⟨["g1", "g2"], _⟩ _ _ rfl rfl rfl (List.reverse_perm _) (List.reverse_perm _) rfl rfl rfl rfl rfl rfl
    exampleFull_rect.1 exampleFull_rect.2 (by intro w hw; cases hw; rfl) (by decide)
  exact ⟨a, y, h1, h2⟩

example : (fullLabels ["g1", "g2"] ["s1", "s2"]).idxOf ("g1", "s2") = 1 ∧
    (fullLabels ["g1", "g2"] ["s2", "s1"]).idxOf ("g1", "s2") = 0 ∧
    ((fullModelProblem exampleFull).map (fun p => col p.1 1)) =
      ((fullModelProblem exampleFullTwin).map (fun p => col p.1 0)) := by decide +kernel

/-- **full_clp_by_label.** The reported `clp` of a full model has the dimensions (global_clp_label, clp_label):
    `clp.sel(global_clp_label=G, clp_label=L)` of the re-ordered coefficient vector, read with the twin's
    coordinates, is the coefficient the original order reports under the same pair of labels. -/
theorem full_clp_by_label (gl ml gl' ml' : List String) (c : Vec) (G L : String)
    (hG : G ∈ gl) (hL : L ∈ ml) (hG' : G ∈ gl') (hL' : L ∈ ml') :
    fullClpAt gl' ml' (reorderVecBy (fullLabels gl ml) c (fullLabels gl' ml')) G L = fullClpAt gl ml c G L := by
  rw [fullClpAt_eq gl' ml' _ G L hG' hL', fullClpAt_eq gl ml c G L hG hL,
    reorderVecBy_getD _ _ c (G, L) ((mem_fullLabels gl' ml' (G, L)).mpr ⟨hG', hL'⟩)]

example : fullClpAt ["g2", "g1"] ["s2", "s1"]
      (reorderVecBy (fullLabels ["g1", "g2"] ["s1", "s2"]) [1, 2, 3, 4] (fullLabels ["g2", "g1"] ["s2", "s1"])) "g1" "s2" =
    fullClpAt ["g1", "g2"] ["s1", "s2"] [1, 2, 3, 4] "g1" "s2" ∧
    fullClpAt ["g1", "g2"] ["s1", "s2"] [1, 2, 3, 4] "g1" "s2" = some 2 ∧
    reorderVecBy (fullLabels ["g1", "g2"] ["s1", "s2"]) [1, 2, 3, 4] (fullLabels ["g2", "g1"] ["s2", "s1"]) = [4, 3, 2, 1] :=
  ⟨full_clp_by_label _ _ _ _ _ "g1" "s2" (by decide) (by decide) (by decide) (by decide), by decide +kernel, by decide +kernel⟩

/-- a label that is not a coordinate is a KeyError, never a neighbouring coefficient -/
theorem full_clp_keyerror (gl ml : List String) (c : Vec) (G L : String) (h : G ∉ gl ∨ L ∉ ml) :
    fullClpAt gl ml c G L = none := fullClpAt_keyerror gl ml c G L h

example : fullClpAt ["g1", "g2"] ["s1", "s2"] [1, 2, 3, 4] "s1" "g1" = none :=
  full_clp_keyerror _ _ _ _ _ (Or.inl (by decide))

/-- **full_model_fit_perm.** The fit of a full model does not depend on the declaration order of the megacomplexes
    and global megacomplexes: the residual vector the solver returns is identical, the re-ordered coefficients solve
    the twin's normal equations, and they report every coefficient under the same pair of labels. -/
theorem full_model_fit_perm (d d' : Dataset) (lm lm' gm gm' : LMat) (G G' : Mat)
    (hax : d'.globalAxis = d.globalAxis) (hdata : d'.data = d.data) (hwt : d'.weight = d.weight)
    (hpm : d'.mcs.Perm d.mcs) (hpg : d'.gmcs.Perm d.gmcs)
    (hlm : datasetMatrix d.mcs = some lm) (hgm : datasetMatrix d.gmcs = some gm)
    (hlm' : datasetMatrix d'.mcs = some lm') (hgm' : datasetMatrix d'.gmcs = some gm')
    (hGb : gm.body = .d2 G) (hGb' : gm'.body = .d2 G')
    (hm : ∀ o ∈ d.mcs, Rect o.out d.nModel d.nGlobal) (hg : ∀ o ∈ d.gmcs, Rect o.out d.nGlobal 1)
    (hw : ∀ w, d.weight = some w → w.length = d.nModel) (hpos : 0 < d.nGlobal) (hposM : 0 < d.nModel)
    (a a' : Mat) (y y' c r c' r' : Vec)
    (h : fullModelProblem d = some (a, y)) (h' : fullModelProblem d' = some (a', y'))
    (hs : solveLS .vp a y = some (c, r)) (hs' : solveLS .vp a' y' = some (c', r')) :
    y' = y ∧ r' = r ∧
    isNormalSol a' y' (reorderVecBy (fullLabels gm.labels lm.labels) c (fullLabels gm'.labels lm'.labels)) = true ∧
    ∀ Gl ∈ gm.labels, ∀ Ll ∈ lm.labels,
      fullClpAt gm'.labels lm'.labels
        (reorderVecBy (fullLabels gm.labels lm.labels) c (fullLabels gm'.labels lm'.labels)) Gl Ll =
      fullClpAt gm.labels lm.labels c Gl Ll := by
  obtain ⟨a0, y0, h0, h0', hperm, hnodup, hwidth, halen, hylen⟩ :=
    full_model_perm d d' lm lm' gm gm' G G' hax hdata hwt hpm hpg hlm hgm hlm' hgm' hGb hGb' hm hg hw hpos
  rw [h] at h0
  have ha0 : a0 = a := (Prod.mk.inj (Option.some.inj h0)).1.symm
  have hy0 : y0 = y := (Prod.mk.inj (Option.some.inj h0)).2.symm
  subst ha0 hy0
  rw [h'] at h0'
  have ha' : a' = _ := (Prod.mk.inj (Option.some.inj h0')).1
  have hy' : y' = y0 := (Prod.mk.inj (Option.some.inj h0')).2
  subst ha' hy'
  have hne : a0 ≠ [] := by
    intro hnil
    rw [hnil] at halen
    have : 0 < d.nGlobal * d.nModel := Nat.mul_pos hpos hposM
    simp at halen
    omega
  obtain ⟨hr, hsol⟩ := fit_unchanged_under_permutation_by _ _ a0 y' c c' r r' hne hnodup hperm hwidth
    (by rw [hylen, halen]) hs hs'
  refine ⟨rfl, hr, hsol, ?_⟩
  intro Gl hGl Ll hLl
  have hrl := datasetMatrix_rect d.mcs lm hlm _ _ hm hpos
  have hrg := datasetMatrix_rect d.gmcs gm hgm _ _ hg (by decide)
  have hpl : lm'.labels.Perm lm.labels :=
    datasetMatrix_labels_perm d.mcs d'.mcs hpm lm lm' hlm hlm' (fun o ho => (hm o ho).1)
  have hpgl : gm'.labels.Perm gm.labels :=
    datasetMatrix_labels_perm d.gmcs d'.gmcs hpg gm gm' hgm hgm' (fun o ho => (hg o ho).1)
  exact full_clp_by_label _ _ _ _ c Gl Ll hGl hLl (hpgl.symm.subset hGl) (hpl.symm.subset hLl)

/-- both declaration orders of `exampleFull` are solved, with the same residual -/
example : ∃ a y c r a' y' c' r', fullModelProblem exampleFull = some (a, y) ∧ solveLS .vp a y = some (c, r) ∧
    fullModelProblem exampleFullTwin = some (a', y') ∧ solveLS .vp a' y' = some (c', r') ∧ r' = r ∧ y' = y ∧
    c' = reorderVecBy (fullLabels ["g1", "g2"] ["s1", "s2"]) c (fullLabels ["g1", "g2"] ["s2", "s1"]) := by
  refine ⟨_, _, (((fullModelProblem exampleFull).bind (fun p => solveLS .vp p.1 p.2)).getD default).1,
    (((fullModelProblem exampleFull).bind (fun p => solveLS .vp p.1 p.2)).getD default).2, _, _,
    (((fullModelProblem exampleFullTwin).bind (fun p => solveLS .vp p.1 p.2)).getD default).1,
    (((fullModelProblem exampleFullTwin).bind (fun p => solveLS .vp p.1 p.2)).getD default).2, rfl, ?_, rfl, ?_, ?_, ?_, ?_⟩ <;>
  decide +kernel

/-! ## 7. The label tables as regenerated from the source text (Generated/C06.lean)

`Generated.*Labels` is the expression `calculate_matrix` builds its label list with, `Generated.*Fill` where the kernel
stores its columns — both extracted from the source of VERIF_REPO on every run.  The theorems below say that *these*
descriptors, evaluated with the Python semantics of `LabelExpr.eval` / `genOscCols` / …, give the tables of section 4, so
that every `*_columns_match_labels` statement holds for the code as it is written now; a re-ordering of a label list or of
the stores in the source changes the generated file and re-opens these proofs. -/

theorem generated_osc_labels (labels : List String) :
    Generated.dampedOscillationLabels.eval (oscEnv labels) = some (oscLabels labels) ∧
    Generated.pfidLabels.eval (oscEnv labels) = some (oscLabels labels) := by
  constructor <;>
  · refine eval_append _ _ _ _ _ ?_ ?_
    · exact eval_comp_attr _ _ _ labels (· ++ "_cos") rfl (fun x => render_suffix _ x "_cos")
    · exact eval_comp_attr _ _ _ labels (· ++ "_sin") rfl (fun x => render_suffix _ x "_sin")

/-- **the regenerated oscillation tables are the tables of section 4** (no-IRF loop, Gaussian-IRF kernel, PFID) -/
theorem generated_osc_table (k : Kernel) (hk : k ≠ .noIrfOld) (os : List OscDecl) :
    genOscTableFor k (os.map (·.1)) (os.map (·.2.1)) (os.map (·.2.2)) = some (oscTableOf k os) := by
  obtain ⟨hl1, hl2⟩ := generated_osc_labels (os.map (·.1))
  cases k with
  | noIrfOld => exact absurd rfl hk
  | noIrf =>
    simp only [genOscTableFor, genOscTable, hl1]
    have : genOscCols Generated.dampedOscillationNoIrfFill false (os.map (·.1)).length (os.map (·.2.1)) (os.map (·.2.2)) =
        some (oscCols .noIrf (os.map (·.1)).length (os.map (·.2.1)) (os.map (·.2.2))) := by
      simp [Generated.dampedOscillationNoIrfFill, genOscCols, fillLoop_new, oscCols]
    rw [this]
    rfl
  | irf =>
    simp only [genOscTableFor, genOscTable, hl1]
    have : genOscCols Generated.dampedOscillationIrfFill false (os.map (·.1)).length (os.map (·.2.1)) (os.map (·.2.2)) =
        some (oscCols .irf (os.map (·.1)).length (os.map (·.2.1)) (os.map (·.2.2))) := by
      simp only [Generated.dampedOscillationIrfFill, genOscCols, concat_cols, oscCols]
      simp
    rw [this]
    rfl
  | pfid =>
    simp only [genOscTableFor, genOscTable, hl2]
    have : genOscCols Generated.pfidFill true (os.map (·.1)).length (os.map (·.2.1)) (os.map (·.2.2)) =
        some (oscCols .pfid (os.map (·.1)).length (os.map (·.2.1)) (os.map (·.2.2))) := by
      simp only [Generated.pfidFill, genOscCols, concat_cols, oscCols]
      simp
    rw [this]
    rfl

/-- **osc_columns_match_labels for the code as written now**: in the table the regenerated descriptors define, the
    column under `<label>_cos` / `<label>_sin` is the cosine / sine computed from the frequency and rate declared for
    that label — any number of oscillations, all three kernels. -/
theorem osc_columns_match_labels_generated (k : Kernel) (hk : k ≠ .noIrfOld) (os : List OscDecl)
    (hn : (os.map (·.1)).Nodup) (o : OscDecl) (ho : o ∈ os) :
    ∃ t, genOscTableFor k (os.map (·.1)) (os.map (·.2.1)) (os.map (·.2.2)) = some t ∧
      t.colOf (o.1 ++ "_cos") = some (cosOf k o) ∧ t.colOf (o.1 ++ "_sin") = some (sinOf k o) :=
  ⟨_, generated_osc_table k hk os, osc_columns_match_labels k hk os hn o ho⟩

example : ∃ t, genOscTableFor .noIrf ["a", "b"] [10, 30] [1/2, 2] = some t ∧ t.colOf "b_cos" = some (.oscCos 30 2) := by
  obtain ⟨t, h, hc, _⟩ := osc_columns_match_labels_generated .noIrf (by decide) [("a", 10, 1/2), ("b", 30, 2)] (by decide)
    ("b", 30, 2) (by simp)
  exact ⟨t, h, hc⟩

/-- the descriptor of the loop as it was before fix D5 (`matrix[:, idx + 1] = osc.imag`, `idx += 2`), put through the
    same interpreter, reproduces the defect: `b_cos` would hold the sine of oscillation `a` -/
example :
    (genOscTable Generated.dampedOscillationLabels
      (.zipLoop ["frequency", "rate"] ["frequencies", "rates"] [⟨.idx, .real, none⟩, ⟨.idxPlus 1, .imag, none⟩] 2)
      false ["a", "b"] [10, 30] [1/2, 2]).bind (·.colOf "b_cos") = some (.oscSin 10 (1/2)) := by decide +kernel

/-- spectral megacomplex: labels = the keys of `shape` in dict order, column `i` = `i`-th value -/
theorem generated_spectral_table (shape : List (String × String)) :
    genSpectralTable Generated.spectralLabels Generated.spectralFill shape = some (spectralTable shape) := by
  have hl : Generated.spectralLabels.eval { lists := [("self.shape", shape.map (·.1))] } = some (shape.map (·.1)) := by
    have := eval_comp_attr { lists := [("self.shape", shape.map (·.1))] } [.var] "self.shape" (shape.map (·.1)) id rfl
      (fun x => render_var _ x)
    simpa [Generated.spectralLabels] using this
  simp only [genSpectralTable, hl]
  simp [Generated.spectralFill, genSpectralCols, spectralTable]

theorem spectral_columns_match_labels_generated (shape : List (String × String)) (hn : (shape.map (·.1)).Nodup)
    (p : String × String) (hp : p ∈ shape) :
    ∃ t, genSpectralTable Generated.spectralLabels Generated.spectralFill shape = some t ∧ t.colOf p.1 = some (.shape p.2) :=
  ⟨_, generated_spectral_table shape, spectral_columns_match_labels shape hn p hp⟩

example : ∃ t, genSpectralTable Generated.spectralLabels Generated.spectralFill [("s1", "sh1"), ("s2", "sh2")] = some t ∧
    t.colOf "s2" = some (.shape "sh2") :=
  spectral_columns_match_labels_generated _ (by decide) ("s2", "sh2") (by simp)

/-- coherent artifact: labels `coherent_artifact_<i>_<label>` for `i = 1 … order`, column `i − 1` written by the `i`-th
    store of the kernel (guarded by `order > i − 1`) -/
theorem generated_artifact_table (order : Nat) (label : String) :
    genArtifactTable Generated.coherentArtifactLabels Generated.coherentArtifactFill order label = artifactTable order label := by
  unfold genArtifactTable artifactTable
  by_cases h : 1 ≤ order ∧ order ≤ 3
  · rw [if_pos h, if_pos h]
    have hl : Generated.coherentArtifactLabels.eval { scalars := [("self.label", label)], nats := [("self.order", order)] } =
        some ((List.range order).map (fun i => artifactLabel label (i + 1))) :=
      eval_comp_range1 { scalars := [("self.label", label)], nats := [("self.order", order)] }
        [.lit "coherent_artifact_", .var, .lit "_", .attr "self.label"] "self.order" order
        (fun x => "coherent_artifact_" ++ x ++ "_" ++ label) (lookup_head _ _ _)
        (fun x => render_artifact _ label (lookup_head _ _ _) x)
    rw [hl]
    have ho : order = 1 ∨ order = 2 ∨ order = 3 := by omega
    rcases ho with rfl | rfl | rfl <;> rfl
  · rw [if_neg h, if_neg h]

theorem artifact_columns_match_labels_generated (order : Nat) (label : String) (t : Table)
    (h : genArtifactTable Generated.coherentArtifactLabels Generated.coherentArtifactFill order label = some t)
    (i : Nat) (hi : i < order) : t.colOf (artifactLabel label (i + 1)) = some (.artifact (i + 1)) :=
  artifact_columns_match_labels order label t (by rw [← generated_artifact_table]; exact h) i hi

example : ((genArtifactTable Generated.coherentArtifactLabels Generated.coherentArtifactFill 3 "m2").getD default).colOf
    "coherent_artifact_2_m2" = some (.artifact 2) :=
  artifact_columns_match_labels_generated 3 "m2" _ rfl 1 (by decide)

/-- baseline (`f"{dataset_model.label}_baseline"`) and clp guide (`self.target`): one label, one column -/
theorem generated_baseline_guide_tables (ds target : String) :
    genBaselineTable Generated.baselineLabels ds = some (baselineTable ds) ∧
    genGuideTable Generated.clpGuideLabels target = some (guideTable target) := by
  constructor
  · simp [genBaselineTable, genOneColumnTable, Generated.baselineLabels, LabelExpr.eval, renderParts, List.lookup, baselineTable]
  · simp [genGuideTable, genOneColumnTable, Generated.clpGuideLabels, LabelExpr.eval, renderParts, List.lookup, guideTable]

example : genBaselineTable Generated.baselineLabels "d1" = some ⟨["d1_baseline"], [.ones]⟩ := by decide +kernel

/-- the decay family: `DecayMegacomplex` returns the compartments of the initial concentration that the K-matrix
    involves (in the order of the initial concentration), the parallel / sequential megacomplexes their own list -/
theorem generated_decay_labels (ic : IC) (k : KMat) (comps : List String) :
    genDecayLabels Generated.decayLabels ic k = some (getCompartments ic k) ∧
    genCompartmentLabels Generated.decayParallelLabels comps = some comps ∧
    genCompartmentLabels Generated.decaySequentialLabels comps = some comps := by
  refine ⟨?_, rfl, rfl⟩
  simp only [genDecayLabels, Generated.decayLabels, LabelExpr.eval, LSrc.items, List.lookup]
  simp only [show ("self.get_k_matrix().involved_compartments()" == "dataset_model.initial_concentration.compartments") = false by decide,
    beq_self_eq_true, Option.map_some]
  rw [mapM_some_map _ _ id (fun x _ => render_var _ x)]
  simp [getCompartments]

example : genDecayLabels Generated.decayLabels ⟨["s3", "s1", "s2"], [5, 7, 9], []⟩ [⟨"s2", "s1", 1⟩] = some ["s1", "s2"] := by
  decide +kernel

/-- **`finalize_data` selects by labels the table declares**: every `….sel(clp_label=<expr>)` of the damped-oscillation
    and PFID `finalize_data` evaluates to labels of the megacomplex' own table -/
theorem generated_osc_selections (labels : List String) :
    ∀ p ∈ Generated.dampedOscillationSelections ++ Generated.pfidSelections,
      ∃ ls, p.2.eval (oscEnv labels) = some ls ∧ ∀ l ∈ ls, l ∈ oscLabels labels := by
  intro p hp
  have hcos : (LabelExpr.comp [.var, .lit "_cos"] (.attr "self.labels") none).eval (oscEnv labels) =
      some (labels.map (· ++ "_cos")) := eval_comp_attr _ _ _ labels (· ++ "_cos") rfl (fun x => render_suffix _ x "_cos")
  have hsin : (LabelExpr.comp [.var, .lit "_sin"] (.attr "self.labels") none).eval (oscEnv labels) =
      some (labels.map (· ++ "_sin")) := eval_comp_attr _ _ _ labels (· ++ "_sin") rfl (fun x => render_suffix _ x "_sin")
  simp only [Generated.dampedOscillationSelections, Generated.pfidSelections, List.cons_append, List.nil_append,
    List.mem_cons, List.not_mem_nil, or_false] at hp
  rcases hp with rfl | rfl | rfl | rfl | rfl | rfl | rfl | rfl | rfl | rfl <;>
    first
    | exact ⟨_, hcos, fun l hl => by unfold oscLabels; exact List.mem_append_left _ hl⟩
    | exact ⟨_, hsin, fun l hl => by unfold oscLabels; exact List.mem_append_right _ hl⟩

/-- the coherent artifact and the baseline select exactly their own label list -/
theorem generated_artifact_baseline_selections :
    (∀ p ∈ Generated.coherentArtifactSelections, p.2 = Generated.coherentArtifactLabels) ∧
    (∀ p ∈ Generated.baselineSelections, p.2 = Generated.baselineLabels) := by
  constructor <;> decide

/-! ## 8. Linked groups: the order of the datasets

At one aligned global index the datasets of a linked group are stacked on the union of their clp labels (first seen
first, `alignMatrices` / `align_full_clp_labels`); each dataset then reports, for each of its own labels `l`,
`clps[full_labels.index(l)]`. -/

/-- permuting the datasets permutes the union label list — no label is lost, none appears twice -/
theorem unionLabels_perm (ls ls' : List (List String)) (hp : ls'.Perm ls) (hn : ∀ l ∈ ls, l.Nodup) :
    (unionLabels ls').Perm (unionLabels ls) ∧ (unionLabels ls).Nodup :=
  ⟨unionLabels_perm_lem ls ls' hp hn, unionLabels_nodup_lem ls hn⟩

example : unionLabels [["s2", "s3"], ["s1", "s2"]] = ["s2", "s3", "s1"] ∧ unionLabels [["s1", "s2"], ["s2", "s3"]] = ["s1", "s2", "s3"] ∧
    (unionLabels [["s2", "s3"], ["s1", "s2"]]).Perm (unionLabels [["s1", "s2"], ["s2", "s3"]]) :=
  ⟨by decide, by decide, (unionLabels_perm _ _ (List.Perm.swap _ _ []) (by decide)).1⟩

/-- **linked_clps_by_label.** What a dataset reports under its own labels does not depend on the order of the union
    label list: reading the re-ordered coefficient vector through the re-ordered list gives the same clp per label. -/
theorem linked_clps_by_label (U U' : List String) (c : Vec) (labels : List String) (hsub : ∀ l ∈ labels, l ∈ U') :
    reorderVec U' (reorderVec U c U') labels = reorderVec U c labels := by
  simp only [reorderVec]
  apply List.map_congr_left
  intro l hl
  exact getD_map_idxOf U' (fun l => c.getD (U.idxOf l) 0) l (hsub l hl)

example : reorderVec ["s2", "s3", "s1"] (reorderVec ["s1", "s2", "s3"] [10, 20, 30] ["s2", "s3", "s1"]) ["s1", "s2"] =
    reorderVec ["s1", "s2", "s3"] [10, 20, 30] ["s1", "s2"] ∧ reorderVec ["s1", "s2", "s3"] [10, 20, 30] ["s1", "s2"] = [10, 20] :=
  ⟨linked_clps_by_label _ _ _ _ (by decide), by decide +kernel⟩

/-- **alignMatrices_perm.** Stack the datasets of an aligned index in another order: the union labels are permuted, and
    the stacked (row, data point) pairs are the same pairs — in the order of the datasets — with every row re-ordered by
    label. (`bs`: per dataset its labelled matrix at this index, its scale and its data column.) -/
theorem alignMatrices_perm (bs bs' : List ((LMat2 × Rat) × Vec)) (hp : bs'.Perm bs) (h2 : 2 ≤ bs.length)
    (hnd : ∀ b ∈ bs, b.1.1.labels.Nodup) (hlen : ∀ b ∈ bs, b.2.length = b.1.1.m.length) :
    (alignMatrices (bs'.map (·.1))).labels.Perm (alignMatrices (bs.map (·.1))).labels ∧
    (alignMatrices (bs.map (·.1))).labels.Nodup ∧
    ((alignMatrices (bs'.map (·.1))).m.zip (bs'.flatMap (·.2))).Perm
      ((reorderCols (alignMatrices (bs.map (·.1))).labels (alignMatrices (bs.map (·.1))).m
          (alignMatrices (bs'.map (·.1))).labels).zip (bs.flatMap (·.2))) :=
  alignMatrices_perm_lem bs bs' hp h2 hnd hlen

/-- two datasets sharing the label `s2` (the second one scaled), with their data columns -/
def exampleLinked : List ((LMat2 × Rat) × Vec) :=
  [((⟨["s1", "s2"], [[1, 2], [0, 1]]⟩, 1), [3, 1]), ((⟨["s2", "s3"], [[1, 0], [1, 1], [0, 2]]⟩, 2), [2, 5, 4])]

example : (alignMatrices (exampleLinked.map (·.1))).labels = ["s1", "s2", "s3"] ∧
    (alignMatrices (exampleLinked.reverse.map (·.1))).labels = ["s2", "s3", "s1"] ∧
    (alignMatrices (exampleLinked.map (·.1))).m = [[1, 2, 0], [0, 1, 0], [0, 2, 0], [0, 2, 2], [0, 0, 4]] ∧
    (alignMatrices (exampleLinked.reverse.map (·.1))).m = [[2, 0, 0], [2, 2, 0], [0, 4, 0], [2, 0, 1], [1, 0, 0]] := by
  decide +kernel

/-- **linked_fit_perm.** The fit of a linked group at an aligned index does not depend on the order of the datasets:
    if `c` solves the normal equations of the stacked problem, the coefficients re-ordered by label solve those of the
    problem stacked in the other order, and every data point keeps its residual. -/
theorem linked_fit_perm (bs bs' : List ((LMat2 × Rat) × Vec)) (hp : bs'.Perm bs) (h2 : 2 ≤ bs.length)
    (hnd : ∀ b ∈ bs, b.1.1.labels.Nodup) (hlen : ∀ b ∈ bs, b.2.length = b.1.1.m.length)
    (hne : (alignMatrices (bs.map (·.1))).m ≠ []) (c : Vec)
    (hsol : isNormalSol (alignMatrices (bs.map (·.1))).m (bs.flatMap (·.2)) c = true) :
    isNormalSol (alignMatrices (bs'.map (·.1))).m (bs'.flatMap (·.2))
      (reorderVec (alignMatrices (bs.map (·.1))).labels c (alignMatrices (bs'.map (·.1))).labels) = true ∧
    (((alignMatrices (bs'.map (·.1))).m.zip (bs'.flatMap (·.2))).map (fun p => p.2 - dot p.1
      (reorderVec (alignMatrices (bs.map (·.1))).labels c (alignMatrices (bs'.map (·.1))).labels))).Perm
      (((alignMatrices (bs.map (·.1))).m.zip (bs.flatMap (·.2))).map (fun p => p.2 - dot p.1 c)) := by
  obtain ⟨hperm, hU, hpairs⟩ := alignMatrices_perm bs bs' hp h2 hnd hlen
  have h2' : 2 ≤ bs'.length := by rw [hp.length_eq]; exact h2
  have hw := alignMatrices_row_width (bs.map (·.1)) (by simpa using h2)
  have hylen := stacked_data_length bs h2 hlen
  have hylen' := stacked_data_length bs' h2' (fun b hb => hlen b (hp.subset hb))
  generalize alignMatrices (bs.map (·.1)) = A at *
  generalize alignMatrices (bs'.map (·.1)) = A' at *
  obtain ⟨hsol', _⟩ := ls_perm_equivariant A.labels A'.labels A.m (bs.flatMap (·.2)) c hne hU hperm hw hsol
  have hc : c.length = A.labels.length := by
    simp only [isNormalSol, Bool.and_eq_true, beq_iff_eq] at hsol
    rw [hsol.1, ncols_of_rows A.m A.labels.length hne hw]
  have hne' : reorderCols A.labels A.m A'.labels ≠ [] := by
    cases hA : A.m with
    | nil => exact absurd hA hne
    | cons _ _ => simp [reorderCols]
  have hwr : ∀ row ∈ reorderCols A.labels A.m A'.labels, row.length = A'.labels.length := by
    intro row hrow
    simp only [reorderCols, List.mem_map] at hrow
    obtain ⟨_, _, rfl⟩ := hrow
    simp
  constructor
  · rw [isNormalSol_rows_perm (reorderCols A.labels A.m A'.labels) A'.m (bs.flatMap (·.2)) (bs'.flatMap (·.2)) _
      A'.labels.length (by simpa [reorderCols] using hylen) hylen' hpairs hne' hwr]
    exact hsol'
  · refine (residual_pairs_perm _ _ _ _ _ hpairs).trans ?_
    rw [residual_pairs_reorder A.labels A'.labels A.m _ c hU hperm hw hc]

/-- the two stacking orders of `exampleLinked`: (s1, s2, s3) = (25/41, 49/41, 87/82) solves the first (non-zero residual),
    the re-ordered (s2, s3, s1) the second -/
example :
    isNormalSol (alignMatrices (exampleLinked.reverse.map (·.1))).m (exampleLinked.reverse.flatMap (·.2))
      (reorderVec (alignMatrices (exampleLinked.map (·.1))).labels [25/41, 49/41, 87/82] (alignMatrices (exampleLinked.reverse.map (·.1))).labels) = true :=
  (linked_fit_perm exampleLinked exampleLinked.reverse (List.reverse_perm _) (by decide) (by decide) (by decide)
    (by decide +kernel) [25/41, 49/41, 87/82] (by decide +kernel)).1

/-! ## 9. `finalize_data` regenerated from the source text (Generated/C06Fin.lean)

`Generated.*Finalize` is the table the translator (harness/props/_c06_fin.py) writes on every run by executing the
`finalize_data` function of each builtin megacomplex symbolically: which result variable is written with which dimensions,
which label list labels its label dimension, and which expression over columns *selected by label* is reported under each
label.  `Fin.Table.interp` gives the table its meaning (Python semantics of the label lists and loops; `np.unwrap` only
along the series of one label; a positional / masked selection has no meaning), and the theorems below say that for every
list of declared labels and every list of megacomplexes the result is the hand-written by-label model (`Fin.oscResult`, …)
that the driver prints and the harness evaluates on the real result datasets. -/
section Finalize
open Glotaran.C06.Fin

/-- damped oscillation: under label `l` amplitude = |clp l_sin, clp l_cos|, phase = unwrap(arctan2(clp l_sin, clp l_cos)) along
    the series of `l`, `_sin` / `_cos` = the matrix columns `l_sin` / `l_cos` (3-D and 2-D branch), prefix by uniqueness -/
theorem generated_finalize_eq_model_osc (a : Args) :
    Generated.dampedOscillationFinalize.interp (finEnv "shape" a) = some (oscResult false a) := by
  simp only [Table.interp, Generated.dampedOscillationFinalize, evalScalars, Scalar.eval, finEnv, megacomplexSources,
    List.map, List.lookup]
  by_cases h : (List.filter (fun m => m.cls == "DampedOscillationMegacomplex") a.mcs).length < 2
  · simp [h, renderParts, Step.interp, Row.interp, Labels.eval, List.lookup, entries_amplitude, entries_phase, entries_matrix_suffix,
      oscResult, oscPrefix, countCls]
  · simp [if_neg h, renderParts, Step.interp, Row.interp, Labels.eval, List.lookup, entries_amplitude, entries_phase, entries_matrix_suffix,
      oscResult, oscPrefix, countCls]
    exact (if_neg h).symm

theorem generated_finalize_eq_model_pfid (a : Args) :
    Generated.pfidFinalize.interp (finEnv "shape" a) = some (oscResult true a) := by
  simp only [Table.interp, Generated.pfidFinalize, evalScalars, Scalar.eval, finEnv, megacomplexSources,
    List.map, List.lookup]
  by_cases h : (List.filter (fun m => m.cls == "PFIDMegacomplex") a.mcs).length < 2
  · simp [h, renderParts, Step.interp, Row.interp, Labels.eval, List.lookup, entries_amplitude, entries_phase, entries_matrix_suffix,
      oscResult, oscPrefix, countCls]
  · simp [if_neg h, renderParts, Step.interp, Row.interp, Labels.eval, List.lookup, entries_amplitude, entries_phase, entries_matrix_suffix,
      oscResult, oscPrefix, countCls]
    exact (if_neg h).symm

/-- two oscillation megacomplexes in the dataset, labels b, a: the phase under `a` is built from `a_sin`, `a_cos` only -/
example : ∃ outs, Generated.dampedOscillationFinalize.interp (finEnv "shape"
      ⟨[⟨"DampedOscillationMegacomplex", "m1", []⟩, ⟨"DampedOscillationMegacomplex", "m2", []⟩], "m1", "d1", "spectral", "time", ["b", "a"], 0⟩) = some outs ∧
    Out.var ⟨"m1_damped_oscillation_phase", ["spectral", "m1_damped_oscillation"], some "m1_damped_oscillation", none,
      [("b", .unwrapAtan2 (.clp "b_sin") (.clp "b_cos")), ("a", .unwrapAtan2 (.clp "a_sin") (.clp "a_cos"))]⟩ ∈ outs :=
  ⟨_, generated_finalize_eq_model_osc _, by decide +kernel⟩

/-- the same table with the unwrap running across the labels (a vectorised `np.unwrap` with the default axis on a
    (global, label) array) has no by-label meaning -/
example : (Row.var [.lit "phase"] [[.attr "global_dimension"], [.lit "osc"]] (some ([.lit "osc"], .attr "self.labels")) none
      (.unwrap .labels (.atan2 (.sel .clp "clp_label" [.var, .lit "_sin"]) (.sel .clp "clp_label" [.var, .lit "_cos"])))).interp
      (finEnv "shape" ⟨[], "m1", "d1", "spectral", "time", ["b", "a"], 0⟩) = none := by decide +kernel

/-- coherent artifact: order `i` reports the matrix column / clp under `coherent_artifact_<i>_<label>` -/
theorem generated_finalize_eq_model_artifact (a : Args) :
    Generated.coherentArtifactFinalize.interp (finEnv "shape" a) = some (artifactResult a) := by
  have hm := fun ls => entries_artifact (finEnv "shape" a).base a.selfLabel rfl ls .matrix .matrixCol
    (fun x l h => by simp [Cell.interp, h])
  have hc := fun ls => entries_artifact (finEnv "shape" a).base a.selfLabel rfl ls .clp .clp
    (fun x l h => by simp [Cell.interp, h])
  simp only [finEnv] at hm hc
  simp [Table.interp, Generated.coherentArtifactFinalize, evalScalars, finEnv, megacomplexSources,
    renderParts, Step.interp, Row.interp, Labels.eval, List.lookup, hm, hc, artifactResult]

example : (artifactResult ⟨[], "m2", "d1", "spectral", "time", [], 2⟩).length = 5 ∧
    Out.var ⟨"coherent_artifact_associated_spectra", ["spectral", "coherent_artifact_order"], some "coherent_artifact_order", none,
      [("1", .clp "coherent_artifact_1_m2"), ("2", .clp "coherent_artifact_2_m2")]⟩ ∈
      artifactResult ⟨[], "m2", "d1", "spectral", "time", [], 2⟩ := by decide +kernel

/-- spectral megacomplexes (model side, and the global side of a full model): species = keys of `shape` of the spectral
    megacomplexes first seen first; under species `s` the matrix column / clp (global matrix column) under `s` -/
theorem generated_finalize_eq_model_spectral (a : Args) :
    Generated.spectralFinalize.interp (finEnv "shape" a) = some (spectralResult a) ∧
    Generated.spectralFinalizeGlobal.interp (finEnv "shape" a) = some (spectralResultGlobal a) := by
  constructor <;>
  simp [Table.interp, Generated.spectralFinalize, Generated.spectralFinalizeGlobal, evalScalars, finEnv, megacomplexSources,
    renderParts, Step.interp, Row.interp, Labels.eval, List.lookup, entries_matrix_var, entries_clp_var, entries_global_matrix_var,
    spectralResult, spectralResultGlobal, itemsOfCls]

example : Out.coord "species" ["s2", "s3", "s1"] ∈ spectralResult
    ⟨[⟨"SpectralMegacomplex", "m1", ["s2", "s3"]⟩, ⟨"BaselineMegacomplex", "b", ["x"]⟩, ⟨"SpectralMegacomplex", "m2", ["s1", "s2"]⟩],
     "m1", "d1", "spectral", "time", [], 0⟩ := by decide +kernel

/-- baseline: the clp under `<dataset label>_baseline`; clp guide: nothing is written -/
theorem generated_finalize_eq_model_baseline_guide (a : Args) :
    Generated.baselineFinalize.interp (finEnv "shape" a) = some (baselineResult a) ∧
    Generated.clpGuideFinalize.interp (finEnv "shape" a) = some (guideResult a) := by
  constructor <;>
  simp [Table.interp, Generated.baselineFinalize, Generated.clpGuideFinalize, evalScalars, finEnv, megacomplexSources,
    renderParts, Step.interp, Row.interp, List.lookup, Cell.interp, baselineResult, guideResult]

example : baselineResult ⟨[], "m", "d7", "spectral", "time", [], 0⟩ =
    [.var ⟨"baseline", ["spectral"], none, none, [("", .clp "d7_baseline")]⟩] := by decide +kernel

/-- decay megacomplexes, global side of a full model -/
theorem generated_finalize_eq_model_decay_global (a : Args) :
    Generated.decayFinalizeGlobal.interp (finEnv "get_compartments(dataset_model)" a) = some (decayResultGlobal a) := by
  simp only [Table.interp, Generated.decayFinalizeGlobal, evalScalars, Scalar.eval, finEnv]
  by_cases h : a.gdim = "pixel"
  · simp only [renderParts, List.lookup]
    simp [h]
    simp [Step.interp, Row.interp, Labels.eval, renderParts, (lookup_mcs a).2, List.lookup, entries_global_matrix_var, decayResultGlobal,
      filter_all, h]
  · simp only [renderParts, List.lookup]
    simp [h]
    simp [Step.interp, Row.interp, Labels.eval, renderParts, (lookup_mcs a).2, List.lookup, entries_global_matrix_var, decayResultGlobal,
      filter_all]

/-- the three decay megacomplex classes only delegate to decay/util.py `finalize_data` -/
theorem generated_decay_delegations :
    Generated.decayFinalizeDelegations = [("decay", true), ("decayParallel", true), ("decaySequential", true)] := by decide

end Finalize

end Glotaran.C06
