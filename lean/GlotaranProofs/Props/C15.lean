/-
C15 — failures during optimisation are contained and reported.
Property theorems only (helper lemmas: GlotaranProofs/Lemmas/C15.lean, C15Params.lean).

All statements are about `Glotaran.C15.optimizeSM`, the state machine of
`optimize(scheme, verbose, raise_exception)` **interpreting the statement tables regenerated from
the source** (GlotaranModel/Generated/C15.lean), for EVERY schedule of the optimiser (any number of
objective calls at arbitrary vectors, any fault position, any return value of `least_squares`),
every scheme description, every `sys.stdout` object and every interpretation `ops` of the
parameter operations (`ParamOps`: how a vector is written into the parameter set, what a history
record stores, how a record is mapped back).  Sections 1–6 are about control flow and hold for
every `ops`; section 7 instantiates `ops` with C11's parameter model and is about the VALUES.

`inject xs fin k msg` is "the run that evaluates at `xs`, then twice in `create_result`, with an
exception `msg` injected at evaluation number `k`" — the quantifier of the property.
-/
import GlotaranProofs.Lemmas.C15
import GlotaranProofs.Lemmas.C15Params
namespace Glotaran.C15

variable {V R P : Type}

/-- the scheme passes the up-front validation and `p0` are its parameters -/
def Accepted (s : Scheme P) (p0 : P) : Prop := documentedError s = none ∧ s.parameters = some p0

/-- **Containment**, the full statement for one run `res` whose optimiser had accumulated the
    history `hist` (initial record plus one record per returned evaluation) and held the parameter
    set `cur` when it failed with `msg`: an unsuccessful `Result` whose `termination_reason` is the
    error, whose parameters are record `-2` of that history mapped back into `cur`
    (`set_from_history`, then refreshed by the re-evaluation) and have been evaluated without error,
    whose `number_of_function_evaluations` is the number of records, whose history is `hist` plus the
    re-evaluated record, whose additional penalties and data come from the restored parameters;
    exactly one warning carrying the error. -/
def Contained (ops : ParamOps V R P) (res : World P × Outcome R P) (msg : Msg) (hist : List R) (cur : P) :
    Prop :=
  ∃ r rec, res.2 = .result r ∧ r.success = false ∧ r.terminationReason = msg ∧
    hist[hist.length - 2]? = some rec ∧
    r.optimizedParameters = ops.refresh (ops.fromRow cur rec) ∧
    r.restoredRecord = some (hist.length - 2) ∧
    r.numberOfFunctionEvaluations = hist.length ∧
    r.optimizedParameters ∈ res.1.evaluatedOK ∧
    r.parameterHistory = hist ++ [ops.row r.optimizedParameters] ∧
    r.penaltyOf = some (ops.fromRow cur rec) ∧ r.dataOf = some r.optimizedParameters ∧
    res.1.warnings = [failureWarning msg]

/-- the optimizer object `Optimizer.__init__` builds for an accepted scheme -/
private def o0 (ops : ParamOps V R P) (p0 : P) (out : Handle) (v r : Bool) : Optimizer V R P :=
  { parameters := ops.start p0, teeSaved := out, verbose := v, raiseException := r,
    optimizationResult := none, terminationReason := "", history := [ops.row (ops.start p0)] }

private theorem run_accepted (ops : ParamOps V R P) (s : Scheme P) (p0 : P) (out : Handle) (v r : Bool)
    (sch : Schedule V) (h : Accepted s p0) :
    optimizeSM ops (World.fresh s out) v r sch =
      match optimize ops (World.fresh s out) (o0 ops p0 out v r) sch with
      | (w, _, some e) => (w, .exception e)
      | (w, o, none) => createResult ops w o sch := by
  obtain ⟨p, hp, hinit⟩ := initSpec_ok ops (World.fresh s out) v r h.1
  have : p = p0 := by
    have h2 := h.2
    have hp' : s.parameters = some p := hp
    rw [h2] at hp'
    exact (Option.some.inj hp').symm
  subst this
  unfold optimizeSM
  rw [init_eq, hinit]
  rfl

/-- `create_result` after a contained failure: the run is `Contained` w.r.t. the history so far -/
private theorem contained_of_failure (ops : ParamOps V R P) (w : World P) (o : Optimizer V R P)
    (sch : Schedule V) (msg : Msg)
    (hnone : o.optimizationResult = none) (hlen : 2 ≤ o.history.length)
    (hp : sch.penaltyFault = none) (hf : sch.finalFault = none) (hd : sch.dataFault = none)
    (hw : w.warnings = [failureWarning msg]) (hreason : o.terminationReason = msg) :
    Contained ops (createResult ops w o sch) msg o.history o.parameters := by
  obtain ⟨rec, hrec, hcr⟩ := createResult_failure ops w o sch hnone hlen hp hf hd
  rw [hcr]
  refine ⟨_, rec, rfl, ?_⟩
  simp [hrec, hw, hreason]

/-! ### 1. faults inside the optimisation are contained -/

/-- **Containment, schedule form.**  `raise_exception=False`; the optimiser's calls `pre` return,
    the next one raises `msg` (whatever would have come after, `post`, never happens), at least one
    call returned, and the evaluations `create_result` performs afterwards do not raise:
    the run is `Contained`. -/
theorem fault_contained_split (ops : ParamOps V R P) (s : Scheme P) (p0 : P) (out : Handle) (v : Bool)
    (sch : Schedule V) (pre post : List (Call V)) (x : V) (msg : Msg)
    (hs : Accepted s p0)
    (hcalls : sch.calls = pre ++ { x := x, fault := some msg } :: post)
    (hpre : ∀ c ∈ pre, c.fault = none) (hne : pre ≠ [])
    (hp : sch.penaltyFault = none) (hf : sch.finalFault = none) (hd : sch.dataFault = none) :
    Contained ops (optimizeSM ops (World.fresh s out) v false sch) msg
      (histOf ops p0 (pre.map (·.x))) (curOf ops p0 (pre.map (·.x)) x) := by
  rw [run_accepted ops s p0 out v false sch hs, optimize_fault ops _ _ sch pre post x msg hcalls hpre]
  have hlen : pre.length ≠ 0 := by simpa using hne
  simp only [o0, Bool.false_eq_true, ↓reduceIte]
  exact contained_of_failure ops _ _ sch msg rfl
    (by simp [ParamOps.states_length]; omega) hp hf hd (by simp [World.fresh]) rfl

/-- **Containment at an injected fault (partial).**  For every sequence `xs` of optimiser calls,
    every return value of `least_squares`, every fault position `k` with `2 ≤ k ≤ |xs|` — i.e. the
    fault hits one of the optimiser's own calls — `optimize(raise_exception=False)` returns the
    contained `Result`, restored from record `k-2` of the history of the calls before the fault.
    The hypothesis `k ≤ |xs|` cannot be dropped: see `fault_contained_counterexample`,
    `fault_contained_iff`. -/
theorem fault_contained_partial (ops : ParamOps V R P) (s : Scheme P) (p0 : P) (out : Handle) (v : Bool)
    (xs : List V) (fin : LsqEnd V) (k : Nat) (msg : Msg) (hs : Accepted s p0) (h2 : 2 ≤ k)
    (hk : k ≤ xs.length) :
    ∃ x, xs[k - 1]? = some x ∧
      Contained ops (optimizeSM ops (World.fresh s out) v false (inject xs fin k msg)) msg
        (histOf ops p0 (xs.take (k - 1))) (curOf ops p0 (xs.take (k - 1)) x) := by
  obtain ⟨x, post, hx, hsplit⟩ := injectCalls_split msg xs k (by omega) hk
  have h := fault_contained_split ops s p0 out v (inject xs fin k msg)
    ((xs.take (k - 1)).map (fun x => { x := x, fault := none })) post x msg hs
    (by simpa [inject] using hsplit)
    (by intro c hc; obtain ⟨y, _, rfl⟩ := List.mem_map.1 hc; rfl)
    (by
      intro e
      have := congrArg List.length e
      simp only [List.length_map, List.length_take, List.length_nil] at this
      omega)
    (by simp [inject]; omega) (by simp [inject]; omega) (by simp [inject])
  refine ⟨x, hx, ?_⟩
  simpa [List.map_map, Function.comp_def] using h

private def sCE : Scheme Nat := ⟨[], some 0, "TrustRegionReflection", [⟨none, "variable_projection"⟩]⟩

/-- The unrestricted statement (`2 ≤ k`, any position of the fault-free run) is **false** on the
    model and on the code (D16, replayed by the harness on every run): a fault injected into the
    first evaluation `create_result` performs (`k = |xs| + 1`) escapes as the raw exception. -/
theorem fault_contained_counterexample :
    ¬ ∃ x, Contained (ParamOps.plain Nat)
        (optimizeSM (ParamOps.plain Nat) (World.fresh sCE (.user 7)) false false
          (inject [0, 1] (.returns ⟨1, 2, "`gtol` termination condition is satisfied."⟩) 3 "boom"))
        "boom" (histOf (ParamOps.plain Nat) 0 ([0, 1].take 2)) x := by
  intro ⟨x, r, rec, h, _⟩
  have : (optimizeSM (ParamOps.plain Nat) (World.fresh sCE (.user 7)) false false
          (inject [0, 1] (.returns ⟨1, 2, "`gtol` termination condition is satisfied."⟩) 3 "boom")).2
      = .exception (.raised "boom") := by decide
  rw [this] at h
  cases h

/-- the same for the last evaluation (`k = |xs| + 2`), and for a failing re-evaluation of the
    restored record (two faults): the exception escapes -/
theorem fault_escapes_from_create_result :
    (optimizeSM (ParamOps.plain Nat)
        (World.fresh ⟨[], some 0, "Dogbox", [⟨none, "variable_projection"⟩]⟩ (.user 7)) true false
        (inject [0, 1] (.returns ⟨1, 2, "done"⟩) 4 "boom")).2 = .exception (.raised "boom") ∧
    (optimizeSM (ParamOps.plain Nat)
        (World.fresh ⟨[], some 0, "Dogbox", [⟨none, "variable_projection"⟩]⟩ (.user 7)) true false
        { calls := [⟨0, none⟩, ⟨1, some "first"⟩], finish := .returns ⟨1, 2, "done"⟩,
          penaltyFault := some "second", finalFault := none, covarianceFault := none,
          dataFault := none }).2 = .exception (.raised "second") := by
  decide

/-- **Fault at the first evaluation.**  `raise_exception=False` and the very first objective call
    raises: `InitialParameterError`, after one warning carrying the error and exactly one
    evaluation. -/
theorem fault_at_first (ops : ParamOps V R P) (s : Scheme P) (p0 : P) (out : Handle) (v : Bool)
    (sch : Schedule V) (post : List (Call V)) (x : V) (msg : Msg) (hs : Accepted s p0)
    (hcalls : sch.calls = { x := x, fault := some msg } :: post) :
    (optimizeSM ops (World.fresh s out) v false sch).2 = .exception .initialParameter ∧
    (optimizeSM ops (World.fresh s out) v false sch).1.warnings = [failureWarning msg] ∧
    (optimizeSM ops (World.fresh s out) v false sch).1.evaluations = 1 := by
  rw [run_accepted ops s p0 out v false sch hs,
    optimize_fault ops _ _ sch [] post x msg (by simpa using hcalls) (by simp)]
  simp only [o0, Bool.false_eq_true, ↓reduceIte]
  refine ⟨createResult_single ops _ _ sch (by simp [ParamOps.states]), ?_, ?_⟩
  · rw [createResult_eq ops _ _ sch (by simp [ParamOps.states])]
    simp [createResultSpec, ParamOps.states, World.fresh]
  · rw [createResult_eq ops _ _ sch (by simp [ParamOps.states])]
    simp [createResultSpec, ParamOps.states, World.fresh]

/-- `fault_at_first` for the injected fault `k = 1` -/
theorem fault_at_first_injected (ops : ParamOps V R P) (s : Scheme P) (p0 : P) (out : Handle) (v : Bool)
    (x : V) (xs : List V) (fin : LsqEnd V) (msg : Msg) (hs : Accepted s p0) :
    (optimizeSM ops (World.fresh s out) v false (inject (x :: xs) fin 1 msg)).2
      = .exception .initialParameter :=
  (fault_at_first ops s p0 out v (inject (x :: xs) fin 1 msg) (injectCalls xs 0 msg) x msg hs
    (by simp [inject, injectCalls])).1

/-- **`raise_exception=True` lets the original exception propagate unchanged**, wherever the
    optimiser's call sequence faults (first call included) — no warning, nothing else evaluated. -/
theorem raise_propagates (ops : ParamOps V R P) (s : Scheme P) (p0 : P) (out : Handle) (v : Bool)
    (sch : Schedule V) (pre post : List (Call V)) (x : V) (msg : Msg) (hs : Accepted s p0)
    (hcalls : sch.calls = pre ++ { x := x, fault := some msg } :: post)
    (hpre : ∀ c ∈ pre, c.fault = none) :
    (optimizeSM ops (World.fresh s out) v true sch).2 = .exception (.raised msg) ∧
    (optimizeSM ops (World.fresh s out) v true sch).1.warnings = [] ∧
    (optimizeSM ops (World.fresh s out) v true sch).1.evaluations = pre.length + 1 := by
  rw [run_accepted ops s p0 out v true sch hs, optimize_fault ops _ _ sch pre post x msg hcalls hpre]
  simp [o0, World.fresh]

/-- the same when `least_squares` itself raises after all its calls returned -/
theorem raise_propagates_lsq (ops : ParamOps V R P) (s : Scheme P) (p0 : P) (out : Handle) (v : Bool)
    (sch : Schedule V) (msg : Msg) (hs : Accepted s p0) (hok : ∀ c ∈ sch.calls, c.fault = none)
    (hfin : sch.finish = .raises msg) :
    (optimizeSM ops (World.fresh s out) v true sch).2 = .exception (.raised msg) ∧
    (optimizeSM ops (World.fresh s out) v true sch).1.warnings = [] := by
  rw [run_accepted ops s p0 out v true sch hs, optimize_raises ops _ _ sch msg hok hfin]
  simp [o0, World.fresh]

/-- **A failure of `least_squares` itself** (e.g. "Residuals are not finite in the initial point")
    after at least one returned evaluation is contained in the same way. -/
theorem lsq_failure_contained (ops : ParamOps V R P) (s : Scheme P) (p0 : P) (out : Handle) (v : Bool)
    (sch : Schedule V) (msg : Msg) (hs : Accepted s p0) (hok : ∀ c ∈ sch.calls, c.fault = none)
    (hne : sch.calls ≠ []) (hfin : sch.finish = .raises msg)
    (hp : sch.penaltyFault = none) (hf : sch.finalFault = none) (hd : sch.dataFault = none) :
    Contained ops (optimizeSM ops (World.fresh s out) v false sch) msg
      (histOf ops p0 (sch.calls.map (·.x))) (ops.last (ops.start p0) (sch.calls.map (·.x))) := by
  rw [run_accepted ops s p0 out v false sch hs, optimize_raises ops _ _ sch msg hok hfin]
  have hlen : sch.calls.length ≠ 0 := by simpa using hne
  simp only [o0, Bool.false_eq_true, ↓reduceIte]
  exact contained_of_failure ops _ _ sch msg rfl
    (by simp [ParamOps.states_length]; omega) hp hf hd (by simp [World.fresh]) rfl

/-- **The fault-free run is reported as a success**: the parameters are the optimizer's parameter set
    with `least_squares`' solution written into it, message and `nfev` are those `least_squares`
    returned, no warning, the history is the initial record, one record per call and the record of
    the final evaluation. -/
theorem success_reported (ops : ParamOps V R P) (s : Scheme P) (p0 : P) (out : Handle) (v r : Bool)
    (sch : Schedule V) (res : LsqResult V) (hs : Accepted s p0) (hok : ∀ c ∈ sch.calls, c.fault = none)
    (hne : sch.calls ≠ []) (hfin : sch.finish = .returns res)
    (hp : sch.penaltyFault = none) (hf : sch.finalFault = none) (hc : sch.covarianceFault = none)
    (hd : sch.dataFault = none) :
    ∃ rr, (optimizeSM ops (World.fresh s out) v r sch).2 = .result rr ∧ rr.success = true ∧
      rr.terminationReason = res.message ∧
      rr.optimizedParameters =
        ops.refresh (ops.setFree (ops.last (ops.start p0) (sch.calls.map (·.x))) res.x) ∧
      rr.numberOfFunctionEvaluations = res.nfev ∧ rr.restoredRecord = none ∧
      rr.parameterHistory = histOf ops p0 (sch.calls.map (·.x)) ++ [ops.row rr.optimizedParameters] ∧
      (optimizeSM ops (World.fresh s out) v r sch).1.warnings = [] := by
  rw [run_accepted ops s p0 out v r sch hs, optimize_returns ops _ _ sch res hok hfin]
  have hlen : sch.calls.length ≠ 0 := by simpa using hne
  simp only [o0]
  rw [createResult_success ops _ _ sch res rfl (by simp [ParamOps.states_length]; omega) hp hf hc hd]
  exact ⟨_, rfl, by simp [World.fresh, histOf]⟩

/-! ### 2. exactly which faults are contained (D16 and the SVD escape, characterised) -/

/-- `least_squares` returned: every objective call returned and so did the optimiser -/
def lsqReturns (sch : Schedule V) : Bool :=
  sch.calls.all (fun c => c.fault.isNone) &&
    (match sch.finish with
     | .returns _ => true
     | .raises _ => false)

/-- `create_result` on an optimizer whose history has one record per call of `calls` besides the
    initial one -/
private theorem classify_after (ops : ParamOps V R P) (w : World P) (o : Optimizer V R P) (sch : Schedule V)
    (b : Bool) (hb : o.optimizationResult.isSome = b) (calls : List (Call V))
    (hlen : o.history.length = calls.length + 1) :
    (calls = [] → (createResult ops w o sch).2 = .exception .initialParameter) ∧
    (calls ≠ [] → ∀ m, firstLate sch b = some m → (createResult ops w o sch).2 = .exception (.raised m)) ∧
    (calls ≠ [] → firstLate sch b = none →
      ∃ r, (createResult ops w o sch).2 = .result r ∧ r.success = b) := by
  subst hb
  refine ⟨?_, ?_, ?_⟩
  · intro h
    exact createResult_single ops w o sch (by simp [hlen, h])
  · intro h
    have : calls.length ≠ 0 := by simpa using h
    exact (createResult_classified ops w o sch (by omega)).1
  · intro h
    have : calls.length ≠ 0 := by simpa using h
    exact (createResult_classified ops w o sch (by omega)).2

/-- **The outcome of `optimize(raise_exception=False)`, for every schedule.**
    * No objective call returned before the optimisation ended (first call raised, or there was
      none): `InitialParameterError`.
    * Otherwise, if something raises inside `create_result` — numpy's SVD in the covariance
      computation (only after `least_squares` returned), the re-evaluation `calculate_penalty()`, the
      final evaluation, the construction of the result data; `msg` the first of them in execution
      order — that exception **escapes unchanged** (D16; the SVD escape on non-finite Jacobians).
    * Otherwise a `Result` whose `success` says whether `least_squares` returned.
    So with `raise_exception=False` the only exceptions that can leave `optimize()` of an accepted
    scheme are `InitialParameterError` and the ones raised inside `create_result`. -/
theorem outcome_classified (ops : ParamOps V R P) (s : Scheme P) (p0 : P) (out : Handle) (v : Bool)
    (sch : Schedule V) (hs : Accepted s p0) :
    (okPrefix sch.calls = [] →
      (optimizeSM ops (World.fresh s out) v false sch).2 = .exception .initialParameter) ∧
    (okPrefix sch.calls ≠ [] → ∀ m, firstLate sch (lsqReturns sch) = some m →
      (optimizeSM ops (World.fresh s out) v false sch).2 = .exception (.raised m)) ∧
    (okPrefix sch.calls ≠ [] → firstLate sch (lsqReturns sch) = none →
      ∃ r, (optimizeSM ops (World.fresh s out) v false sch).2 = .result r ∧ r.success = lsqReturns sch) := by
  rw [run_accepted ops s p0 out v false sch hs]
  rcases calls_split sch.calls with hok | ⟨pre, x, m, post, hsplit, hpre⟩
  · -- every call returns
    rw [okPrefix_all sch.calls hok]
    have hall : sch.calls.all (fun c => c.fault.isNone) = true := by
      simp only [List.all_eq_true]
      intro c hc
      simp [hok c hc]
    cases hfin : sch.finish with
    | returns res =>
      rw [optimize_returns ops _ _ sch res hok hfin]
      simp only [o0, lsqReturns, hall, hfin, Bool.and_self]
      exact classify_after ops _ _ sch true rfl sch.calls (by simp [ParamOps.states_length])
    | raises mm =>
      rw [optimize_raises ops _ _ sch mm hok hfin]
      simp only [o0, lsqReturns, hall, hfin, Bool.and_false, Bool.false_eq_true, ↓reduceIte]
      exact classify_after ops _ _ sch false rfl sch.calls (by simp [ParamOps.states_length])
  · -- the call after `pre` raises
    have hall : sch.calls.all (fun c => c.fault.isNone) = false := by
      rw [hsplit]
      simp
    rw [optimize_fault ops _ _ sch pre post x m hsplit hpre]
    simp only [o0, lsqReturns, hall, Bool.false_and, Bool.false_eq_true, ↓reduceIte]
    rw [hsplit, okPrefix_split pre post x m hpre]
    exact classify_after ops _ _ sch false rfl pre (by simp [ParamOps.states_length])

/-- **`optimize(raise_exception=False)` returns a `Result` iff** at least one objective call
    returned **and** nothing raises inside `create_result`. -/
theorem result_iff (ops : ParamOps V R P) (s : Scheme P) (p0 : P) (out : Handle) (v : Bool)
    (sch : Schedule V) (hs : Accepted s p0) :
    (∃ r, (optimizeSM ops (World.fresh s out) v false sch).2 = .result r) ↔
      (okPrefix sch.calls ≠ [] ∧ firstLate sch (lsqReturns sch) = none) := by
  obtain ⟨h1, h2, h3⟩ := outcome_classified ops s p0 out v sch hs
  constructor
  · rintro ⟨r, hr⟩
    by_cases hne : okPrefix sch.calls = []
    · rw [h1 hne] at hr; cases hr
    · refine ⟨hne, ?_⟩
      cases hl : firstLate sch (lsqReturns sch) with
      | none => rfl
      | some m => rw [h2 hne m hl] at hr; cases hr
  · rintro ⟨hne, hl⟩
    obtain ⟨r, hr, _⟩ := h3 hne hl
    exact ⟨r, hr⟩

/-- **The SVD failure on non-finite numbers escapes**: `least_squares` returned (every call
    returned, at least one), and `calculate_covariance_matrix_and_standard_errors` raises `m`:
    `optimize(raise_exception=False)` raises `m` — recorded finding (same missing containment as D16). -/
theorem covariance_failure_escapes (ops : ParamOps V R P) (s : Scheme P) (p0 : P) (out : Handle) (v : Bool)
    (sch : Schedule V) (res : LsqResult V) (m : Msg) (hs : Accepted s p0)
    (hok : ∀ c ∈ sch.calls, c.fault = none) (hne : sch.calls ≠ []) (hfin : sch.finish = .returns res)
    (hc : sch.covarianceFault = some m) :
    (optimizeSM ops (World.fresh s out) v false sch).2 = .exception (.raised m) := by
  refine (outcome_classified ops s p0 out v sch hs).2.1 (by rwa [okPrefix_all sch.calls hok]) m ?_
  have hall : sch.calls.all (fun c => c.fault.isNone) = true := by
    simp only [List.all_eq_true]
    intro c hc'
    simp [hok c hc']
  simp [firstLate, lsqReturns, hall, hfin, hc]

private theorem injectCalls_okPrefix (msg : Msg) (xs : List V) (k : Nat) :
    (okPrefix (injectCalls xs k msg)).length = if 1 ≤ k ∧ k ≤ xs.length then k - 1 else xs.length := by
  by_cases h : 1 ≤ k ∧ k ≤ xs.length
  · obtain ⟨x, post, _, hsplit⟩ := injectCalls_split msg xs k h.1 h.2
    rw [hsplit, okPrefix_split _ post x msg
      (by intro c hc; obtain ⟨y, _, rfl⟩ := List.mem_map.1 hc; rfl)]
    simp only [List.length_map, List.length_take, h, and_self, ↓reduceIte]
    omega
  · rw [injectCalls_none msg xs k (by omega), okPrefix_all _
      (by intro c hc; obtain ⟨y, _, rfl⟩ := List.mem_map.1 hc; rfl)]
    simp [h]

private theorem inject_lsqReturns_false (xs : List V) (fin : LsqEnd V) (k : Nat) (msg : Msg)
    (h1 : 1 ≤ k) (hk : k ≤ xs.length) : lsqReturns (inject xs fin k msg) = false := by
  obtain ⟨x, post, _, hsplit⟩ := injectCalls_split msg xs k h1 hk
  simp [lsqReturns, inject, hsplit]

/-- **D16 as a characterisation.**  A fault injected at evaluation `k` of the fault-free run
    (`1 ≤ k ≤ |xs| + 2`: the optimiser's `|xs|` calls, then the two evaluations of `create_result`)
    with `raise_exception=False` is contained — `optimize()` returns a `Result` — **iff** the faulting
    evaluation is one of the optimiser's own calls and not the first: `2 ≤ k ≤ |xs|`
    (and then the run is `Contained`: `fault_contained_partial`). -/
theorem fault_contained_iff (ops : ParamOps V R P) (s : Scheme P) (p0 : P) (out : Handle) (v : Bool)
    (xs : List V) (fin : LsqEnd V) (k : Nat) (msg : Msg) (hs : Accepted s p0)
    (h1 : 1 ≤ k) (hk : k ≤ xs.length + 2) :
    (∃ r, (optimizeSM ops (World.fresh s out) v false (inject xs fin k msg)).2 = .result r) ↔
      (2 ≤ k ∧ k ≤ xs.length) := by
  rw [result_iff ops s p0 out v _ hs]
  have hlen := injectCalls_okPrefix msg xs k
  constructor
  · rintro ⟨hne, hl⟩
    have hne' : (okPrefix (injectCalls xs k msg)).length ≠ 0 := by
      intro h0; exact hne (List.length_eq_zero_iff.1 h0)
    rw [hlen] at hne'
    by_cases hin : 1 ≤ k ∧ k ≤ xs.length
    · simp only [hin, and_self, ↓reduceIte] at hne'
      exact ⟨by omega, hin.2⟩
    · -- the fault is in one of the two evaluations of `create_result`: it is the first late fault
      exfalso
      have hk' : k = xs.length + 1 ∨ k = xs.length + 2 := by omega
      rcases hk' with rfl | rfl
      · cases hb : lsqReturns (inject xs fin (xs.length + 1) msg) <;>
          simp [firstLate, inject] at hl
      · cases hb : lsqReturns (inject xs fin (xs.length + 2) msg) <;>
          simp [firstLate, inject] at hl
  · rintro ⟨h2, hk2⟩
    refine ⟨?_, ?_⟩
    · intro h0
      have := congrArg List.length h0
      rw [show (inject xs fin k msg).calls = injectCalls xs k msg from rfl, hlen] at this
      simp only [show 1 ≤ k ∧ k ≤ xs.length from ⟨h1, hk2⟩, and_self, ↓reduceIte, List.length_nil] at this
      omega
    · rw [inject_lsqReturns_false xs fin k msg h1 hk2]
      have e1 : k ≠ xs.length + 1 := by omega
      have e2 : k ≠ xs.length + 2 := by omega
      simp [firstLate, inject, e1, e2]

/-- …and **which exception escapes otherwise**: `InitialParameterError` when no evaluation had
    returned (`k = 1`, or the optimiser made no call at all), the original exception `msg`
    unchanged when the fault hits one of the two evaluations of `create_result`. -/
theorem fault_escape_which (ops : ParamOps V R P) (s : Scheme P) (p0 : P) (out : Handle) (v : Bool)
    (xs : List V) (fin : LsqEnd V) (k : Nat) (msg : Msg) (hs : Accepted s p0)
    (h1 : 1 ≤ k) (hk : k ≤ xs.length + 2) (hnot : ¬ (2 ≤ k ∧ k ≤ xs.length)) :
    (optimizeSM ops (World.fresh s out) v false (inject xs fin k msg)).2 =
      .exception (if k = 1 ∨ xs = [] then .initialParameter else .raised msg) := by
  obtain ⟨c1, c2, _⟩ := outcome_classified ops s p0 out v (inject xs fin k msg) hs
  have hlen := injectCalls_okPrefix msg xs k
  by_cases hini : k = 1 ∨ xs = []
  · simp only [hini, ↓reduceIte]
    apply c1
    apply List.length_eq_zero_iff.1
    rw [show (inject xs fin k msg).calls = injectCalls xs k msg from rfl, hlen]
    rcases hini with rfl | rfl
    · split <;> simp_all
    · simp
      omega
  · simp only [hini, ↓reduceIte]
    have hx : xs ≠ [] := fun h => hini (Or.inr h)
    have hxl : xs.length ≠ 0 := by simpa using hx
    have hk1 : k ≠ 1 := fun h => hini (Or.inl h)
    have hout : ¬ (1 ≤ k ∧ k ≤ xs.length) := by omega
    apply c2
    · intro h0
      have := congrArg List.length h0
      rw [show (inject xs fin k msg).calls = injectCalls xs k msg from rfl, hlen] at this
      simp only [hout, ↓reduceIte, List.length_nil] at this
      exact hxl this
    · have hk' : k = xs.length + 1 ∨ k = xs.length + 2 := by omega
      rcases hk' with rfl | rfl
      · cases hb : lsqReturns (inject xs fin (xs.length + 1) msg) <;> simp [firstLate, inject]
      · cases hb : lsqReturns (inject xs fin (xs.length + 2) msg) <;> simp [firstLate, inject]

/-! ### 3. `sys.stdout`, the caller's scheme -/

private theorem initSpec_teeSaved (ops : ParamOps V R P) (w : World P) (v r : Bool) (o : Optimizer V R P)
    (h : initSpec ops w v r = .ok o) : o.teeSaved = w.stdout := by
  unfold initSpec at h
  split at h
  · cases h
  · split at h
    · cases h
    · split at h
      · cases h
      · split at h
        · cases h
        · cases h; rfl

private theorem createResult_frame' (ops : ParamOps V R P) (w : World P) (o : Optimizer V R P)
    (sch : Schedule V) (h0 : o.history.length ≠ 0) :
    (createResult ops w o sch).1.stdout = w.stdout ∧ (createResult ops w o sch).1.scheme = w.scheme := by
  rw [createResult_eq ops w o sch h0]
  exact createResultSpec_frame ops w o sch

/-- the history is never empty once the optimizer exists -/
private theorem initSpec_hist_ne (ops : ParamOps V R P) (w : World P) (v r : Bool) (o : Optimizer V R P)
    (h : initSpec ops w v r = .ok o) : o.history.length ≠ 0 := by
  unfold initSpec at h
  split at h
  · cases h
  · split at h
    · cases h
    · split at h
      · cases h
      · split at h
        · cases h
        · cases h
          simp

/-- `HistInv` keeps the history non-empty -/
private theorem hist_ne (ops : ParamOps V R P) (p0 : P) (w : World P) (o : Optimizer V R P)
    (h : HistInv ops p0 w o) : o.history.length ≠ 0 := by
  unfold HistInv at h
  simp [h]

/-- `optimize` only appends to the history -/
private theorem optimize_hist_ne (ops : ParamOps V R P) (w : World P) (o : Optimizer V R P) (sch : Schedule V)
    (h : o.history.length ≠ 0) : (optimize ops w o sch).2.1.history.length ≠ 0 := by
  rw [optimize_eq]
  have key : ∀ (calls : List (Call V)) (w : World P) (o : Optimizer V R P), o.history.length ≠ 0 →
      (leastSquares ops w o calls sch.finish).2.1.history.length ≠ 0 := by
    intro calls
    induction calls with
    | nil => intro w o h; cases sch.finish <;> simpa [leastSquares] using h
    | cons c cs ih =>
      intro w o h
      cases hf : c.fault with
      | some m => simpa [leastSquares, objectiveSpec, calculatePenaltySpec, hf] using h
      | none =>
        simp only [leastSquares, objective_eq, objectiveSpec, calculatePenaltySpec, hf]
        exact ih _ _ (by simp)
  have := key sch.calls { w with stdout := Handle.tee } o h
  rcases hls : leastSquares ops { w with stdout := Handle.tee } o sch.calls sch.finish with ⟨w', o', r⟩
  rw [hls] at this
  simp only [optimizeSpec, hls]
  cases r with
  | ok res => simpa using this
  | error e =>
    simp only
    split <;> simpa using this

/-- **`sys.stdout` is restored on every exit** (rejected scheme, propagated exception,
    `InitialParameterError`, exception escaping from `create_result`, `Result`): for every initial
    world, schedule and flag combination the final `sys.stdout` is the initial object. -/
theorem stdout_restored (ops : ParamOps V R P) (w : World P) (v r : Bool) (sch : Schedule V) :
    (optimizeSM ops w v r sch).1.stdout = w.stdout := by
  unfold optimizeSM
  rw [init_eq]
  cases hi : initSpec ops w v r with
  | error e => rfl
  | ok o =>
    have ht := initSpec_teeSaved ops w v r o hi
    have h1 := optimize_frame ops w o sch
    have hne := optimize_hist_ne ops w o sch (initSpec_hist_ne ops w v r o hi)
    rcases ho : optimize ops w o sch with ⟨w1, o1, e⟩
    rw [ho] at h1 hne
    cases e with
    | some e =>
      simp only [ho]
      simpa [ht] using h1.1
    | none =>
      simp only [ho]
      rw [(createResult_frame' ops w1 o1 sch hne).1]
      simpa [ht] using h1.1

/-- while `least_squares` runs, `sys.stdout` *is* the tee (so `stdout_restored` is not vacuous):
    the regenerated table says that the `try` is the body of `with self._tee:`, and no objective call
    changes `sys.stdout` -/
theorem stdout_is_tee_during_optimisation (ops : ParamOps V R P) (w : World P) (o : Optimizer V R P)
    (calls : List (Call V)) (fin : LsqEnd V) :
    Generated.optimizeTable.teeWrapsTry = true ∧
    Generated.optimizeTable.tryBody.head? = some .leastSquares ∧
    (leastSquares ops { w with stdout := Handle.tee } o calls fin).1.stdout = Handle.tee :=
  ⟨rfl, rfl, (leastSquares_frame ops fin calls { w with stdout := Handle.tee } o).1⟩

/-- **The caller's scheme is untouched** on every exit — in particular neither `__init__` (first
    history record) nor `optimize` (start vector) refreshes the expression parameters of the caller's
    `scheme.parameters` (D25, fixed: both read a private copy). -/
theorem scheme_untouched (ops : ParamOps V R P) (w : World P) (v r : Bool) (sch : Schedule V) :
    (optimizeSM ops w v r sch).1.scheme = w.scheme := by
  unfold optimizeSM
  rw [init_eq]
  cases hi : initSpec ops w v r with
  | error e => rfl
  | ok o =>
    have h1 := optimize_frame ops w o sch
    have hne := optimize_hist_ne ops w o sch (initSpec_hist_ne ops w v r o hi)
    rcases ho : optimize ops w o sch with ⟨w1, o1, e⟩
    rw [ho] at h1 hne
    cases e with
    | some e =>
      simp only [ho]
      exact h1.2
    | none =>
      simp only [ho]
      rw [(createResult_frame' ops w1 o1 sch hne).2]
      exact h1.2

/-! ### 4. invalid schemes -/

/-- **Schemes that cannot be optimised are rejected with the documented error before anything is
    evaluated** — whatever the schedule would have been: the outcome is the documented error
    (missing data → parameters → method → per dataset group: parameter labels, residual function)
    and the world is exactly the initial one (no evaluation, no warning, same `sys.stdout`). -/
theorem invalid_rejected_before_eval (ops : ParamOps V R P) (s : Scheme P) (out : Handle) (v r : Bool)
    (sch : Schedule V) (e : Err) (h : documentedError s = some e) :
    optimizeSM ops (World.fresh s out) v r sch = (World.fresh s out, .exception e) ∧
    (optimizeSM ops (World.fresh s out) v r sch).1.evaluations = 0 := by
  have hi := initSpec_error ops (World.fresh s out) v r e h
  unfold optimizeSM
  rw [init_eq, hi]
  exact ⟨rfl, rfl⟩

/-- the documented errors are the five validation classes, never a run-time one -/
theorem documented_error_classes (s : Scheme P) (e : Err) (h : documentedError s = some e) :
    e ≠ .initialParameter ∧ (∀ m, e ≠ .raised m) ∧ ∀ m, e ≠ .internal m := by
  unfold documentedError at h
  split at h
  · cases h; simp
  · split at h
    · cases h; simp
    · split at h
      · cases h; simp
      · obtain ⟨g, _, hg⟩ := List.exists_of_findSome?_eq_some h
        unfold groupProblem at hg
        split at hg
        · cases hg; simp
        · split at hg
          · cases hg
          · cases hg; simp

/-! ### 5. the history; where the result's penalties and data come from -/

private theorem result_shape (ops : ParamOps V R P) (s : Scheme P) (p0 : P) (out : Handle) (v r : Bool)
    (sch : Schedule V) (res : Result R P) (hs : Accepted s p0)
    (hr : (optimizeSM ops (World.fresh s out) v r sch).2 = .result res) :
    ∃ E, (optimizeSM ops (World.fresh s out) v r sch).1.evaluatedOK = E ++ [res.optimizedParameters] ∧
      res.parameterHistory = ops.row (ops.start p0) :: E.map (fun p => ops.row (ops.refresh p)) ∧
      ∃ p, E.getLast? = some p ∧ res.optimizedParameters = ops.refresh p ∧ res.penaltyOf = some p ∧
        res.dataOf = some res.optimizedParameters := by
  rw [run_accepted ops s p0 out v r sch hs] at hr ⊢
  have hinv : HistInv ops p0 (World.fresh s out) (o0 ops p0 out v r) := by simp [HistInv, o0, World.fresh]
  have h1 := optimize_inv ops p0 _ _ sch hinv
  rcases ho : optimize ops (World.fresh s out) (o0 ops p0 out v r) sch with ⟨w1, o1, e⟩
  rw [ho] at h1 hr
  simp only at h1
  cases e with
  | some e => simp at hr
  | none =>
    simp only at hr ⊢
    have h0 : o1.history.length ≠ 0 := hist_ne ops p0 w1 o1 h1
    rw [createResult_eq ops w1 o1 sch h0] at hr ⊢
    by_cases hlen : o1.history.length = 1
    · simp [createResultSpec, hlen] at hr
    · cases hopt : o1.optimizationResult with
      | none =>
        have hrest : HistInv ops p0 w1 (restoreSpec ops o1) := by
          unfold restoreSpec
          split <;> simpa [HistInv] using h1
        simp only [createResultSpec, hlen, h0, ↓reduceIte, hopt] at hr ⊢
        exact buildResultSpec_inv ops p0 w1 (restoreSpec ops o1) sch _ _ hrest res hr
      | some lr =>
        cases hcov : sch.covarianceFault with
        | some m => simp [createResultSpec, hlen, h0, hopt, hcov] at hr
        | none =>
          simp only [createResultSpec, hlen, h0, ↓reduceIte, hopt, hcov] at hr ⊢
          exact buildResultSpec_inv ops p0 w1 _ sch _ _ (by simpa [HistInv] using h1) res hr

/-- **The history holds the initial record plus one record per evaluation that returned**: in every
    `Result`, the evaluations that returned are the parameter sets `E` whose records are the history
    without its first record (the record of the scheme's parameters), followed by the final
    evaluation at the result parameters — so the parameters of every `Result`, successful or not,
    have been evaluated without error. -/
theorem history_only_successful (ops : ParamOps V R P) (s : Scheme P) (p0 : P) (out : Handle) (v r : Bool)
    (sch : Schedule V) (res : Result R P) (hs : Accepted s p0)
    (hr : (optimizeSM ops (World.fresh s out) v r sch).2 = .result res) :
    ∃ E, (optimizeSM ops (World.fresh s out) v r sch).1.evaluatedOK = E ++ [res.optimizedParameters] ∧
      res.parameterHistory = ops.row (ops.start p0) :: E.map (fun p => ops.row (ops.refresh p)) := by
  obtain ⟨E, h1, h2, _⟩ := result_shape ops s p0 out v r sch res hs hr
  exact ⟨E, h1, h2⟩

/-- **Order of effects in `create_result`** (follows the regenerated table; fix d4abc29): in every
    `Result`, successful or not, `additional_penalty` was read after the evaluation at the result's
    own parameters (`p`, which the history record then refreshed into `optimized_parameters`) and
    before anything else was evaluated, and the result data were computed from
    `optimized_parameters`. -/
theorem penalties_and_data_of_result_parameters (ops : ParamOps V R P) (s : Scheme P) (p0 : P)
    (out : Handle) (v r : Bool) (sch : Schedule V) (res : Result R P) (hs : Accepted s p0)
    (hr : (optimizeSM ops (World.fresh s out) v r sch).2 = .result res) :
    ∃ p, res.penaltyOf = some p ∧ res.optimizedParameters = ops.refresh p ∧
      res.dataOf = some res.optimizedParameters ∧
      ops.row res.optimizedParameters ∈ res.parameterHistory.getLast? := by
  obtain ⟨E, _, h2, p, hp, h3, h4, h5⟩ := result_shape ops s p0 out v r sch res hs hr
  refine ⟨p, h4, h3, h5, ?_⟩
  rw [h2, h3]
  cases E with
  | nil => simp at hp
  | cons a as =>
    rw [List.map_cons, List.getLast?_cons_cons]
    have : (ops.row (ops.refresh a) :: List.map (fun p => ops.row (ops.refresh p)) as) =
        List.map (fun p => ops.row (ops.refresh p)) (a :: as) := rfl
    rw [this, List.getLast?_map, hp]
    simp

/-! ### 6. `verbose` -/

private theorem initSpec_verbose (ops : ParamOps V R P) (w : World P) (v r : Bool) :
    initSpec ops w v r = (initSpec ops w false r).map (·.setVerbose v) := by
  unfold initSpec
  split
  · rfl
  · split
    · rfl
    · split
      · rfl
      · split
        · rfl
        · rfl

/-- **`verbose` changes nothing but what scipy prints**: same final world, same outcome. -/
theorem verbose_irrelevant (ops : ParamOps V R P) (w : World P) (v r : Bool) (sch : Schedule V) :
    optimizeSM ops w v r sch = optimizeSM ops w false r sch := by
  unfold optimizeSM
  rw [init_eq, init_eq, initSpec_verbose ops w v r]
  cases hi : initSpec ops w false r with
  | error e => rfl
  | ok o =>
    have hne := optimize_hist_ne ops w o sch (initSpec_hist_ne ops w false r o hi)
    simp only [Except.map, optimize_eq, optimizeSpec_verbose]
    rw [optimize_eq] at hne
    rcases ho : optimizeSpec ops w o sch with ⟨w1, o1, e⟩
    rw [ho] at hne
    cases e with
    | some e => rfl
    | none =>
      simp only at hne ⊢
      rw [createResult_eq ops w1 (o1.setVerbose v) sch (by simpa [Optimizer.setVerbose] using hne),
        createResult_eq ops w1 o1 sch hne, createResultSpec_verbose]

/-! ### 7. the values: C11's parameter model inside the machine -/

section Values
open Glotaran.C11 (Parameter Ext Num Eval updateExpr)
variable {α : Type}

/-- the parameter sets whose records make up the history once the calls at `vs` have returned: the
    (refreshed) initial parameters, then the parameter set of every returned call -/
def recordedSets [Num α] (ev : Eval α) (ps0 : PSet α) (vs : List (Vec α)) : List (PSet α) :=
  (paramOps ev (freeLabels ev ps0)).start ps0 ::
    (paramOps ev (freeLabels ev ps0)).states ((paramOps ev (freeLabels ev ps0)).start ps0) vs

private theorem histOf_recorded [Num α] (ev : Eval α) (ps0 : PSet α) (vs : List (Vec α)) :
    histOf (paramOps ev (freeLabels ev ps0)) ps0 vs = (recordedSets ev ps0 vs).map rowOf := by
  simp [histOf, recordedSets, paramOps]

private theorem recorded_defn [Num α] (ev : Eval α) (ps0 : PSet α) (vs : List (Vec α)) (S : PSet α)
    (h : S ∈ recordedSets ev ps0 vs) : S.map Parameter.defn = ps0.map Parameter.defn := by
  simp only [recordedSets, List.mem_cons] at h
  rcases h with rfl | h
  · exact start_defn ev _ ps0
  · rw [states_defn ev _ vs _ S h]
    exact start_defn ev _ ps0

private theorem cur_defn [Num α] (ev : Eval α) (ps0 : PSet α) (vs : List (Vec α)) (x : Vec α) :
    (curOf (paramOps ev (freeLabels ev ps0)) ps0 vs x).map Parameter.defn = ps0.map Parameter.defn := by
  simp only [curOf]
  rw [show (paramOps ev (freeLabels ev ps0)).setFree = fun ps x => (C11.setFromArrays ev ps (freeLabels ev ps0) x).1 from rfl]
  simp only
  rw [setFromArrays_defn, last_defn]
  exact start_defn ev _ ps0

/-- **The restored parameter values are the record mapped back.**  `optimize()` over C11's parameter
    model (values in optimiser space: non-negative parameters as logarithms), a fault injected at
    evaluation `k` of the optimiser's own calls (`2 ≤ k ≤ |xs|`), `raise_exception=False`, labels
    pairwise different.  Let `S` be the parameter set whose record is history record `k−2` — the
    refreshed initial parameters (`k = 2`) or the parameter set of an objective call that returned
    before the fault — and `cur` the optimizer's parameter set at the fault.  Then the unsuccessful
    `Result` has
    * record `k−2` restored: `Parameters.set_from_history` (C11 `setFromHistory`, on any history whose
      row `k−2` is that record behind an iteration number) succeeds and assigns **every** parameter —
      free, fixed, defined by an expression — `fromOpt` of its stored value (`roundTrip S`: `exp` of the
      stored logarithm for a non-negative parameter, the stored value otherwise), then updates the
      expressions;
    * `optimized_parameters` = that parameter set after the update `calculate_penalty()`'s history
      record runs once more;
    * every label, bound, flag and expression *definition* as in the scheme (`defn`), and the value
      of every parameter that is not defined by an expression exactly `fromOpt` of the record
      (`plainPart`: the updates touch expression parameters only). -/
theorem restored_parameters_are_record_mapped_back [Num α] (ev : Eval α) (s : Scheme (PSet α))
    (ps0 : PSet α) (out : Handle) (v : Bool) (xs : List (Vec α)) (fin : LsqEnd (Vec α)) (k : Nat)
    (msg : Msg) (hs : Accepted s ps0) (hN : (ps0.map (·.label)).Nodup) (h2 : 2 ≤ k) (hk : k ≤ xs.length) :
    ∃ r S cur, (optimizeP ev s out v false (inject xs fin k msg)).2 = .result r ∧
      r.success = false ∧ r.terminationReason = msg ∧ r.restoredRecord = some (k - 2) ∧
      (recordedSets ev ps0 (xs.take (k - 1)))[k - 2]? = some S ∧
      r.parameterHistory = (recordedSets ev ps0 (xs.take (k - 1))).map rowOf ++ [rowOf r.optimizedParameters] ∧
      (∀ (rows : List (Vec α)) (it : Ext α), rows[k - 2]? = some (it :: rowOf S) →
        C11.setFromHistory ev cur ⟨"iteration" :: cur.map (·.label), rows⟩ (k - 2)
          = (updateExpr ev (roundTrip S), .ok)) ∧
      r.optimizedParameters = updateExpr ev (updateExpr ev (roundTrip S)) ∧
      r.optimizedParameters.map Parameter.defn = ps0.map Parameter.defn ∧
      r.optimizedParameters.map Parameter.plainPart = (roundTrip S).map Parameter.plainPart := by
  have hp : s.parameters.getD [] = ps0 := by rw [hs.2]; rfl
  obtain ⟨x, _, r, rec, hr, hsucc, hreason, hrec, hopt, hrest, _, _, hhist, _, _, _⟩ :=
    fault_contained_partial (paramOps ev (freeLabels ev ps0)) s ps0 out v xs fin k msg hs h2 hk
  have hlen : (histOf (paramOps ev (freeLabels ev ps0)) ps0 (xs.take (k - 1))).length = k := by
    rw [histOf_length, List.length_take]; omega
  rw [hlen] at hrec hrest
  rw [histOf_recorded, List.getElem?_map] at hrec
  obtain ⟨S, hS, hSrec⟩ := Option.map_eq_some_iff.1 hrec
  subst hSrec
  have hSmem : S ∈ recordedSets ev ps0 (xs.take (k - 1)) := List.mem_of_getElem? hS
  have hSd := recorded_defn ev ps0 _ S hSmem
  have hcd := cur_defn ev ps0 (xs.take (k - 1)) x
  have hcN : ((curOf (paramOps ev (freeLabels ev ps0)) ps0 (xs.take (k - 1)) x).map (·.label)).Nodup := by
    rw [defn_labels _ _ hcd]; exact hN
  obtain ⟨hfrom, hstatus⟩ := fromRow_rowOf ev (freeLabels ev ps0) _ S (hcd.trans hSd.symm) hcN
  rw [hfrom] at hopt
  have hopt' : r.optimizedParameters = updateExpr ev (updateExpr ev (roundTrip S)) := hopt
  refine ⟨r, S, curOf (paramOps ev (freeLabels ev ps0)) ps0 (xs.take (k - 1)) x, ?_, hsucc, hreason, hrest,
    hS, ?_, ?_, hopt', ?_, ?_⟩
  · simpa [optimizeP, hp] using hr
  · rw [hhist, histOf_recorded]; rfl
  · intro rows it hrow
    have hb := fromRow_eq_setFromHistory ev (freeLabels ev ps0)
      (curOf (paramOps ev (freeLabels ev ps0)) ps0 (xs.take (k - 1)) x) rows (k - 2) it (rowOf S) hrow
    have hst : (C11.setFromHistory ev (curOf (paramOps ev (freeLabels ev ps0)) ps0 (xs.take (k - 1)) x)
        ⟨"iteration" :: (curOf (paramOps ev (freeLabels ev ps0)) ps0 (xs.take (k - 1)) x).map (·.label), rows⟩
        (k - 2)).2 = .ok := by
      simpa [C11.setFromHistory, List.getD_eq_getElem?_getD, hrow] using hstatus
    rw [hfrom] at hb
    exact Prod.ext hb.symm hst
  · rw [hopt', updateExpr_defn, updateExpr_defn]
    simp only [roundTrip, List.map_map]
    rw [← hSd]
    apply List.map_congr_left
    intro p _
    rfl
  · rw [hopt', updateExpr_plainPart, updateExpr_plainPart]

/-- **…and over ℝ they are the values of that evaluation, to C11's round-trip bound.**  Same run,
    numbers real (`Real.log`, `Real.exp`).  For every parameter `p` of the recorded parameter set `S`
    that is not defined by an expression — fixed parameters included — and, if non-negative, has a
    positive value: the restored parameter at the same position has the same definition and **the
    same value**, except at the guard of `_log_value`: a non-negative parameter whose value is exactly
    1 comes back as `1 + 1e-10` (C11 `roundtrip_at_one`).  If no non-negative parameter sits at 1 and
    the expressions of `S` are up to date (C12 `update_idempotent`), the restored parameter set **is**
    `S`, expression parameters included. -/
theorem restored_parameters_roundtrip_bound (ev : Eval ℝ) (s : Scheme (PSet ℝ)) (ps0 : PSet ℝ)
    (out : Handle) (v : Bool) (xs : List (Vec ℝ)) (fin : LsqEnd (Vec ℝ)) (k : Nat) (msg : Msg)
    (hs : Accepted s ps0) (hN : (ps0.map (·.label)).Nodup) (h2 : 2 ≤ k) (hk : k ≤ xs.length) :
    ∃ r S, (optimizeP ev s out v false (inject xs fin k msg)).2 = .result r ∧
      (recordedSets ev ps0 (xs.take (k - 1)))[k - 2]? = some S ∧
      (∀ (i : Nat) (p : Parameter ℝ), S[i]? = some p → p.expr = none →
        (p.nonNeg = true → ∃ x, p.value = .fin x ∧ 0 < x) →
        ∃ p', r.optimizedParameters[i]? = some p' ∧ p'.defn = p.defn ∧
          (p'.value = p.value ∨
            (p.nonNeg = true ∧ p.value = .fin 1 ∧ p'.value = .fin (1 + 1 / 10000000000)))) ∧
      ((∀ p ∈ S, p.nonNeg = false ∨ ∃ x, p.value = .fin x ∧ 0 < x ∧ x ≠ 1) → updateExpr ev S = S →
        r.optimizedParameters = S) := by
  obtain ⟨r, S, cur, hr, _, _, _, hS, _, _, hopt, _, hplain⟩ :=
    restored_parameters_are_record_mapped_back ev s ps0 out v xs fin k msg hs hN h2 hk
  refine ⟨r, S, hr, hS, ?_, ?_⟩
  · intro i p hi hexpr hpos
    have h1 := congrArg (fun l => l[i]?) hplain
    simp only [List.getElem?_map, roundTrip, hi, Option.map_some] at h1
    cases hq : r.optimizedParameters[i]? with
    | none => simp [hq] at h1
    | some p' =>
      simp only [hq, Option.map_some, Option.some.injEq, Parameter.plainPart, Prod.mk.injEq] at h1
      obtain ⟨hd, hv⟩ := h1
      have hd' : p'.defn = p.defn := hd.trans (roundTripParam_defn p)
      have hexpr' : p'.expr = none := by
        have := hd'
        simp only [Parameter.defn, Prod.mk.injEq] at this
        rw [this.2.2.2.2.2.1]; exact hexpr
      have hexpr'' : (roundTripParam p).expr = none := hexpr
      simp only [hexpr', hexpr'', Option.isSome_none, Bool.false_eq_true, ↓reduceIte, Option.some.injEq] at hv
      refine ⟨p', rfl, hd', ?_⟩
      rw [hv]
      exact roundTripParam_real_value p hpos
  · intro hex hU
    have : roundTrip S = S := by
      simp only [roundTrip]
      conv => rhs; rw [← List.map_id S]
      apply List.map_congr_left
      intro p hp
      exact roundTripParam_real_exact p (hex p hp)
    rw [hopt, this, hU, hU]

end Values

/-! ### non-vacuity: the hypotheses are met by concrete non-trivial runs -/

private def s1 : Scheme Nat := ⟨[], some 0, "Levenberg-Marquardt",
  [⟨none, "variable_projection"⟩, ⟨none, "non_negative_least_squares"⟩]⟩

private abbrev pl := ParamOps.plain Nat

example : Accepted s1 0 := ⟨by decide, rfl⟩
-- a contained fault at call 3 of 4: restored from record 1 (the vector of call 1), nfev 3
example : (optimizeSM pl (World.fresh s1 (.user 1)) true false
      (inject [0, 5, 6, 7] (.returns ⟨7, 2, "ok"⟩) 3 "boom")).2 =
    .result ⟨false, "boom", 0, some 1, 3, [0, 0, 5, 0], some 0, some 0⟩ := by decide
example : ∃ x, Contained pl (optimizeSM pl (World.fresh s1 (.user 1)) true false
      (inject [4, 5, 6, 7] (.returns ⟨7, 2, "ok"⟩) 4 "boom")) "boom" (histOf pl 0 ([4, 5, 6, 7].take 3)) x := by
  obtain ⟨x, _, h⟩ := fault_contained_partial pl s1 0 (.user 1) true [4, 5, 6, 7] (.returns ⟨7, 2, "ok"⟩) 4 "boom"
    ⟨by decide, rfl⟩ (by decide) (by decide)
  exact ⟨x, h⟩
-- fault at the first call; raise_exception=True; least_squares raising by itself
example : (optimizeSM pl (World.fresh s1 (.user 1)) false false
      (inject [0, 5] (.returns ⟨5, 2, "ok"⟩) 1 "boom")).2 = .exception .initialParameter := by decide
example : (optimizeSM pl (World.fresh s1 (.user 1)) false true
      (inject [0, 5, 6] (.returns ⟨5, 2, "ok"⟩) 2 "boom")).2 = .exception (.raised "boom") := by decide
example : (optimizeSM pl (World.fresh s1 (.user 1)) false false
      (inject [0, 5] (.raises "Residuals are not finite") 0 "unused")).2 =
    .result ⟨false, "Residuals are not finite", 0, some 1, 3, [0, 0, 5, 0], some 0, some 0⟩ := by decide
-- the fault-free run
example : (optimizeSM pl (World.fresh s1 (.user 1)) false false
      (inject [0, 5, 6] (.returns ⟨6, 2, "ok"⟩) 0 "unused")) =
    ({ stdout := .user 1, warnings := [], scheme := s1, evaluations := 5, evaluatedOK := [0, 5, 6, 6, 6] },
     .result ⟨true, "ok", 6, none, 2, [0, 0, 5, 6, 6], some 6, some 6⟩) := by decide
-- the characterisation: positions 1..6 of a run with four optimiser calls
example : ((List.range 7).map fun k => match (optimizeSM pl (World.fresh s1 (.user 1)) false false
      (inject [0, 5, 6, 7] (.returns ⟨7, 2, "ok"⟩) k "boom")).2 with
    | .result r => if r.success then "success" else "contained"
    | .exception .initialParameter => "InitialParameterError"
    | .exception (.raised m) => m
    | .exception _ => "?") =
    ["success", "InitialParameterError", "contained", "contained", "contained", "boom", "boom"] := by decide
-- numpy's SVD failing on the returned Jacobian escapes; `firstLate` orders the late faults
example : (optimizeSM pl (World.fresh s1 (.user 1)) false false
      { calls := [⟨0, none⟩, ⟨5, none⟩], finish := .returns ⟨5, 2, "ok"⟩, penaltyFault := some "penalty",
        finalFault := none, covarianceFault := some "SVD did not converge", dataFault := some "data" }).2 =
    .exception (.raised "SVD did not converge") := by decide
-- the values (term algebra): three parameters — `k` free and non-negative, `f` fixed and non-negative, `a` free —,
-- fault at call 3 of 3: record 1 (the call at x = [3, 4]) is restored; `k` comes back as
-- exp(log(exp 3)) (with the guard of `_log_value`), the fixed `f` as exp(log 5), `a` as stored
private def psT : PSet C11.Term :=
  [⟨"k", .fin (.q 2), .ninf, .pinf, true, true, none, .nan⟩,
   ⟨"f", .fin (.q 5), .ninf, .pinf, true, false, none, .nan⟩,
   ⟨"a", .fin (.q 3), .ninf, .pinf, false, true, none, .nan⟩]
private def sT : Scheme (PSet C11.Term) := ⟨[], some psT, "Dogbox", [⟨none, "variable_projection"⟩]⟩

example : (match (optimizeP (fun _ _ => .nan) sT (.user 1) false false
      (inject [[.fin (.q 3), .fin (.q 4)], [.fin (.q 1), .fin (.q 6)], [.fin (.q 7), .fin (.q 8)]]
        (.returns ⟨[.fin (.q 1), .fin (.q 6)], 3, "ok"⟩) 3 "boom")).2 with
    | .result r => some (r.restoredRecord, r.optimizedParameters.map (·.value))
    | _ => none) =
    some (some 1,
      [.fin (.exp (.log (.ifEq (.exp (.q 3)) (.q 1) (.add (.exp (.q 3)) (.q C11.eps)) (.exp (.q 3))))),
       .fin (.exp (.log (.ifEq (.q 5) (.q 1) (.add (.q 5) (.q C11.eps)) (.q 5)))),
       .fin (.q 4)]) := by decide +kernel

-- the hypotheses of the two value theorems over ℝ are satisfiable; the fixed non-negative `f` sits
-- exactly at the guard value 1
private noncomputable def psR : PSet ℝ :=
  [⟨"k", .fin 2, .ninf, .pinf, true, true, none, .nan⟩,
   ⟨"f", .fin 1, .ninf, .pinf, true, false, none, .nan⟩,
   ⟨"a", .fin 3, .ninf, .pinf, false, true, none, .nan⟩]
private noncomputable def sR : Scheme (PSet ℝ) := ⟨[], some psR, "Dogbox", [⟨none, "variable_projection"⟩]⟩

example : ∃ r S, (optimizeP (fun _ _ => .nan) sR (.user 1) false false
      (inject [[.fin 3, .fin 4], [.fin 1, .fin 6], [.fin 7, .fin 8]] (.returns ⟨[.fin 1, .fin 6], 3, "ok"⟩) 3 "boom")).2
      = .result r ∧ (recordedSets (fun _ _ => .nan) psR ([[.fin 3, .fin 4], [.fin 1, .fin 6], [.fin 7, .fin 8]].take 2))[1]? = some S := by
  obtain ⟨r, S, h1, h2, _⟩ := restored_parameters_roundtrip_bound (fun _ _ => .nan) sR psR (.user 1) false
    [[.fin 3, .fin 4], [.fin 1, .fin 6], [.fin 7, .fin 8]] (.returns ⟨[.fin 1, .fin 6], 3, "ok"⟩) 3 "boom"
    ⟨by simp [documentedError, sR, Generated.supportedMethods, groupProblem, Generated.supportedResidualFunctions], rfl⟩
    (by simp [psR]) (by decide) (by decide)
  exact ⟨r, S, h1, h2⟩

-- every documented error occurs, in the documented order
example : documentedError (⟨["d1"], none, "x", [⟨some "k.1", "y"⟩]⟩ : Scheme Nat)
    = some (.missingDatasets ["d1"]) := by decide
example : documentedError (⟨[], none, "x", [⟨some "k.1", "y"⟩]⟩ : Scheme Nat)
    = some .parameterNotInitialized := by decide
example : documentedError (⟨[], some 0, "x", [⟨some "k.1", "y"⟩]⟩ : Scheme Nat)
    = some (.unsupportedMethod "x") := by decide
example : documentedError (⟨[], some 0, "Dogbox", [⟨none, "variable_projection"⟩, ⟨some "k.1", "y"⟩]⟩ : Scheme Nat)
    = some (.parameterNotFound "k.1") := by decide
example : documentedError (⟨[], some 0, "Dogbox", [⟨none, "y"⟩, ⟨some "k.1", "y"⟩]⟩ : Scheme Nat)
    = some (.unsupportedResidualFunction "y") := by decide

end Glotaran.C15
