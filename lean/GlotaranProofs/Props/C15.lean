/-
C15 — failures during optimisation are contained and reported.
Property theorems only (helper lemmas: GlotaranProofs/Lemmas/C15.lean).

All statements are about `Glotaran.C15.optimizeSM`, the state machine of
`optimize(scheme, verbose, raise_exception)`, for EVERY schedule of the optimiser (any number of
objective calls at arbitrary parameter vectors `α`, any fault position, any return value of
`least_squares`), every scheme description and every `sys.stdout` object.

`inject xs fin k msg` is "the run that evaluates at `xs`, then twice in `create_result`, with an
exception `msg` injected at evaluation number `k`" — the quantifier of the property.
-/
import GlotaranProofs.Lemmas.C15
namespace Glotaran.C15

variable {α : Type}

/-- the scheme passes the up-front validation and `p0` are its parameters -/
def Accepted (s : Scheme α) (p0 : α) : Prop := documentedError s = none ∧ s.parameters = some p0

/-- **Containment**, the full statement for one run `res` whose optimiser had accumulated the
    history `hist` (initial record plus one record per returned evaluation) when it failed with
    `msg`: an unsuccessful `Result` whose `termination_reason` is the error, whose parameters are
    record `-2` of that history and have been evaluated without error, whose
    `number_of_function_evaluations` is the number of records, whose history is `hist` plus the
    re-evaluated record; exactly one warning carrying the error. -/
def Contained (res : World α × Outcome α) (msg : Msg) (hist : List α) : Prop :=
  ∃ r, res.2 = .result r ∧ r.success = false ∧ r.terminationReason = msg ∧
    hist[hist.length - 2]? = some r.optimizedParameters ∧
    r.restoredRecord = some (hist.length - 2) ∧
    r.numberOfFunctionEvaluations = hist.length ∧
    r.optimizedParameters ∈ res.1.evaluatedOK ∧
    r.parameterHistory = hist ++ [r.optimizedParameters] ∧
    res.1.warnings = [failureWarning msg]

/-- the optimizer object `Optimizer.__init__` builds for an accepted scheme -/
private def o0 (p0 : α) (out : Handle) (v r : Bool) : Optimizer α :=
  { parameters := p0, teeSaved := out, verbose := v, raiseException := r,
    optimizationResult := none, terminationReason := "", history := [p0] }

private theorem run_accepted (s : Scheme α) (p0 : α) (out : Handle) (v r : Bool) (sch : Schedule α)
    (h : Accepted s p0) :
    optimizeSM (World.fresh s out) v r sch =
      match optimize (World.fresh s out) (o0 p0 out v r) sch with
      | (w, _, some e) => (w, .exception e)
      | (w, o, none) => createResult w o sch := by
  obtain ⟨p, hp, hinit⟩ := init_ok (World.fresh s out) v r h.1
  have : p = p0 := by
    have h2 := h.2
    have hp' : s.parameters = some p := hp
    rw [h2] at hp'
    exact (Option.some.inj hp').symm
  subst this
  unfold optimizeSM
  rw [hinit]
  rfl

/-- `create_result` after a contained failure: the run is `Contained` w.r.t. the history so far -/
private theorem contained_of_failure (w : World α) (o : Optimizer α) (sch : Schedule α) (msg : Msg)
    (hnone : o.optimizationResult = none) (hlen : 2 ≤ o.history.length)
    (hp : sch.penaltyFault = none) (hf : sch.finalFault = none) (hd : sch.dataFault = none)
    (hw : w.warnings = [failureWarning msg]) (hreason : o.terminationReason = msg) :
    Contained (createResult w o sch) msg o.history := by
  obtain ⟨rv, hrv, hcr⟩ := createResult_failure w o sch hnone hlen hp hf hd
  rw [hcr]
  refine ⟨_, rfl, ?_⟩
  simp [hrv, hw, hreason]

/-! ### 1. faults inside the optimisation are contained -/

/-- **Containment, schedule form.**  `raise_exception=False`; the optimiser's calls `pre` return,
    the next one raises `msg` (whatever would have come after, `post`, never happens), at least one
    call returned, and the evaluations `create_result` performs afterwards do not raise:
    the run is `Contained`. -/
theorem fault_contained_split (s : Scheme α) (p0 : α) (out : Handle) (v : Bool) (sch : Schedule α)
    (pre post : List (Call α)) (x : α) (msg : Msg)
    (hs : Accepted s p0)
    (hcalls : sch.calls = pre ++ { x := x, fault := some msg } :: post)
    (hpre : ∀ c ∈ pre, c.fault = none) (hne : pre ≠ [])
    (hp : sch.penaltyFault = none) (hf : sch.finalFault = none) (hd : sch.dataFault = none) :
    Contained (optimizeSM (World.fresh s out) v false sch) msg (p0 :: pre.map (·.x)) := by
  rw [run_accepted s p0 out v false sch hs, optimize_fault _ _ sch pre post x msg hcalls hpre]
  have hlen : pre.length ≠ 0 := by simpa using hne
  simp only [o0, Bool.false_eq_true, ↓reduceIte]
  exact contained_of_failure _ _ sch msg rfl (by simp; omega) hp hf hd (by simp [World.fresh]) rfl

/-- **Containment at an injected fault (partial).**  For every sequence `xs` of optimiser calls,
    every return value of `least_squares`, every fault position `k` with `2 ≤ k ≤ |xs|` — i.e. the
    fault hits one of the optimiser's own calls — `optimize(raise_exception=False)` returns the
    contained `Result`, restored from record `k-2` of `initial :: xs`.
    The hypothesis `k ≤ |xs|` cannot be dropped: see `fault_contained_counterexample`. -/
theorem fault_contained_partial (s : Scheme α) (p0 : α) (out : Handle) (v : Bool) (xs : List α)
    (fin : LsqEnd α) (k : Nat) (msg : Msg) (hs : Accepted s p0) (h2 : 2 ≤ k) (hk : k ≤ xs.length) :
    Contained (optimizeSM (World.fresh s out) v false (inject xs fin k msg)) msg
      (p0 :: xs.take (k - 1)) := by
  obtain ⟨x, post, _, hsplit⟩ := injectCalls_split msg xs k (by omega) hk
  have h := fault_contained_split s p0 out v (inject xs fin k msg)
    ((xs.take (k - 1)).map (fun x => { x := x, fault := none })) post x msg hs
    (by simpa [inject] using hsplit)
    (by intro c hc; obtain ⟨y, _, rfl⟩ := List.mem_map.1 hc; rfl)
    (by
      intro e
      have := congrArg List.length e
      simp only [List.length_map, List.length_take, List.length_nil] at this
      omega)
    (by simp [inject]; omega) (by simp [inject]; omega) (by simp [inject])
  simpa [List.map_map, Function.comp_def] using h

/-- The unrestricted statement (`2 ≤ k`, any position of the fault-free run) is **false** on the
    model and on the code (D16, replayed by the harness on every run): a fault injected into the
    first evaluation `create_result` performs (`k = |xs| + 1`) escapes as the raw exception. -/
theorem fault_contained_counterexample :
    ¬ Contained
        (optimizeSM (World.fresh ⟨[], some 0, "TrustRegionReflection", [⟨none, "variable_projection"⟩]⟩
            (.user 7)) false false
          (inject [0, 1] (.returns ⟨1, 2, "`gtol` termination condition is satisfied."⟩) 3 "boom"))
        "boom" (0 :: [0, 1].take 2) := by
  intro ⟨r, h, _⟩
  have : (optimizeSM (World.fresh ⟨[], some 0, "TrustRegionReflection", [⟨none, "variable_projection"⟩]⟩
            (.user 7)) false false
          (inject [0, 1] (.returns ⟨1, 2, "`gtol` termination condition is satisfied."⟩) 3 "boom")).2
      = .exception (.raised "boom") := by decide
  rw [this] at h
  cases h

/-- the same for the last evaluation (`k = |xs| + 2`), and for a failing re-evaluation of the
    restored record (two faults): the exception escapes -/
theorem fault_escapes_from_create_result :
    (optimizeSM (World.fresh ⟨[], some 0, "Dogbox", [⟨none, "variable_projection"⟩]⟩ (.user 7)) true false
        (inject [0, 1] (.returns ⟨1, 2, "done"⟩) 4 "boom")).2 = .exception (.raised "boom") ∧
    (optimizeSM (World.fresh ⟨[], some 0, "Dogbox", [⟨none, "variable_projection"⟩]⟩ (.user 7)) true false
        { calls := [⟨0, none⟩, ⟨1, some "first"⟩], finish := .returns ⟨1, 2, "done"⟩,
          penaltyFault := some "second", finalFault := none, covarianceFault := none,
          dataFault := none }).2 = .exception (.raised "second") := by
  decide

/-- **Fault at the first evaluation.**  `raise_exception=False` and the very first objective call
    raises: `InitialParameterError`, after one warning carrying the error and exactly one
    evaluation. -/
theorem fault_at_first (s : Scheme α) (p0 : α) (out : Handle) (v : Bool) (sch : Schedule α)
    (post : List (Call α)) (x : α) (msg : Msg) (hs : Accepted s p0)
    (hcalls : sch.calls = { x := x, fault := some msg } :: post) :
    (optimizeSM (World.fresh s out) v false sch).2 = .exception .initialParameter ∧
    (optimizeSM (World.fresh s out) v false sch).1.warnings = [failureWarning msg] ∧
    (optimizeSM (World.fresh s out) v false sch).1.evaluations = 1 := by
  rw [run_accepted s p0 out v false sch hs, optimize_fault _ _ sch [] post x msg (by simpa using hcalls) (by simp)]
  simp [o0, createResult, World.fresh]

/-- `fault_at_first` for the injected fault `k = 1` -/
theorem fault_at_first_injected (s : Scheme α) (p0 : α) (out : Handle) (v : Bool) (x : α) (xs : List α)
    (fin : LsqEnd α) (msg : Msg) (hs : Accepted s p0) :
    (optimizeSM (World.fresh s out) v false (inject (x :: xs) fin 1 msg)).2
      = .exception .initialParameter :=
  (fault_at_first s p0 out v (inject (x :: xs) fin 1 msg) (injectCalls xs 0 msg) x msg hs
    (by simp [inject, injectCalls])).1

/-- **`raise_exception=True` lets the original exception propagate unchanged**, wherever the
    optimiser's call sequence faults (first call included) — no warning, nothing else evaluated. -/
theorem raise_propagates (s : Scheme α) (p0 : α) (out : Handle) (v : Bool) (sch : Schedule α)
    (pre post : List (Call α)) (x : α) (msg : Msg) (hs : Accepted s p0)
    (hcalls : sch.calls = pre ++ { x := x, fault := some msg } :: post)
    (hpre : ∀ c ∈ pre, c.fault = none) :
    (optimizeSM (World.fresh s out) v true sch).2 = .exception (.raised msg) ∧
    (optimizeSM (World.fresh s out) v true sch).1.warnings = [] ∧
    (optimizeSM (World.fresh s out) v true sch).1.evaluations = pre.length + 1 := by
  rw [run_accepted s p0 out v true sch hs, optimize_fault _ _ sch pre post x msg hcalls hpre]
  simp [o0, World.fresh]

/-- the same when `least_squares` itself raises after all its calls returned -/
theorem raise_propagates_lsq (s : Scheme α) (p0 : α) (out : Handle) (v : Bool) (sch : Schedule α)
    (msg : Msg) (hs : Accepted s p0) (hok : ∀ c ∈ sch.calls, c.fault = none)
    (hfin : sch.finish = .raises msg) :
    (optimizeSM (World.fresh s out) v true sch).2 = .exception (.raised msg) ∧
    (optimizeSM (World.fresh s out) v true sch).1.warnings = [] := by
  rw [run_accepted s p0 out v true sch hs, optimize_raises _ _ sch msg hok hfin]
  simp [o0, World.fresh]

/-- **A failure of `least_squares` itself** (e.g. "Residuals are not finite in the initial point")
    after at least one returned evaluation is contained in the same way. -/
theorem lsq_failure_contained (s : Scheme α) (p0 : α) (out : Handle) (v : Bool) (sch : Schedule α)
    (msg : Msg) (hs : Accepted s p0) (hok : ∀ c ∈ sch.calls, c.fault = none) (hne : sch.calls ≠ [])
    (hfin : sch.finish = .raises msg)
    (hp : sch.penaltyFault = none) (hf : sch.finalFault = none) (hd : sch.dataFault = none) :
    Contained (optimizeSM (World.fresh s out) v false sch) msg (p0 :: sch.calls.map (·.x)) := by
  rw [run_accepted s p0 out v false sch hs, optimize_raises _ _ sch msg hok hfin]
  have hlen : sch.calls.length ≠ 0 := by simpa using hne
  simp only [o0, Bool.false_eq_true, ↓reduceIte]
  exact contained_of_failure _ _ sch msg rfl (by simp; omega) hp hf hd (by simp [World.fresh]) rfl

/-- **The fault-free run is reported as a success**: parameters, message and `nfev` are those
    `least_squares` returned, no warning, the history is the initial record, one record per call and
    the record of the final evaluation. -/
theorem success_reported (s : Scheme α) (p0 : α) (out : Handle) (v r : Bool) (sch : Schedule α)
    (res : LsqResult α) (hs : Accepted s p0) (hok : ∀ c ∈ sch.calls, c.fault = none)
    (hne : sch.calls ≠ []) (hfin : sch.finish = .returns res)
    (hp : sch.penaltyFault = none) (hf : sch.finalFault = none) (hc : sch.covarianceFault = none)
    (hd : sch.dataFault = none) :
    ∃ rr, (optimizeSM (World.fresh s out) v r sch).2 = .result rr ∧ rr.success = true ∧
      rr.terminationReason = res.message ∧ rr.optimizedParameters = res.x ∧
      rr.numberOfFunctionEvaluations = res.nfev ∧ rr.restoredRecord = none ∧
      rr.parameterHistory = p0 :: sch.calls.map (·.x) ++ [res.x] ∧
      (optimizeSM (World.fresh s out) v r sch).1.warnings = [] := by
  rw [run_accepted s p0 out v r sch hs, optimize_returns _ _ sch res hok hfin]
  have hlen : sch.calls.length ≠ 0 := by simpa using hne
  simp only [o0]
  rw [createResult_success _ _ sch res rfl (by simp; omega) hp hf hc hd]
  exact ⟨_, rfl, by simp [World.fresh]⟩

/-! ### 2. `sys.stdout`, the caller's scheme -/

private theorem init_teeSaved (w : World α) (v r : Bool) (o : Optimizer α) (h : init w v r = .ok o) :
    o.teeSaved = w.stdout := by
  unfold init at h
  split at h
  · cases h
  · split at h
    · cases h
    · split at h
      · cases h
      · split at h
        · cases h
        · cases h; rfl

/-- **`sys.stdout` is restored on every exit** (rejected scheme, propagated exception,
    `InitialParameterError`, exception escaping from `create_result`, `Result`): for every initial
    world, schedule and flag combination the final `sys.stdout` is the initial object. -/
theorem stdout_restored (w : World α) (v r : Bool) (sch : Schedule α) :
    (optimizeSM w v r sch).1.stdout = w.stdout := by
  cases hi : init w v r with
  | error e => simp [optimizeSM, hi]
  | ok o =>
    have ht := init_teeSaved w v r o hi
    have h1 := optimize_frame w o sch
    rcases ho : optimize w o sch with ⟨w1, o1, e⟩
    rw [ho] at h1
    cases e with
    | some e =>
      simp only [optimizeSM, hi, ho]
      simpa [ht] using h1.1
    | none =>
      simp only [optimizeSM, hi, ho]
      rw [(createResult_frame w1 o1 sch).1]
      simpa [ht] using h1.1

/-- while `least_squares` runs, `sys.stdout` *is* the tee (so `stdout_restored` is not vacuous) -/
theorem stdout_is_tee_during_optimisation (w : World α) (o : Optimizer α) (calls : List (Call α))
    (fin : LsqEnd α) :
    (leastSquares { w with stdout := Handle.tee } o calls fin).1.stdout = Handle.tee :=
  (leastSquares_frame fin calls { w with stdout := Handle.tee } o).1

/-- **The caller's scheme is untouched** on every exit. -/
theorem scheme_untouched (w : World α) (v r : Bool) (sch : Schedule α) :
    (optimizeSM w v r sch).1.scheme = w.scheme := by
  cases hi : init w v r with
  | error e => simp [optimizeSM, hi]
  | ok o =>
    have h1 := optimize_frame w o sch
    rcases ho : optimize w o sch with ⟨w1, o1, e⟩
    rw [ho] at h1
    cases e with
    | some e =>
      simp only [optimizeSM, hi, ho]
      exact h1.2
    | none =>
      simp only [optimizeSM, hi, ho]
      rw [(createResult_frame w1 o1 sch).2]
      exact h1.2

/-! ### 3. invalid schemes -/

/-- **Schemes that cannot be optimised are rejected with the documented error before anything is
    evaluated** — whatever the schedule would have been: the outcome is the documented error
    (missing data → parameters → method → per dataset group: parameter labels, residual function)
    and the world is exactly the initial one (no evaluation, no warning, same `sys.stdout`). -/
theorem invalid_rejected_before_eval (s : Scheme α) (out : Handle) (v r : Bool) (sch : Schedule α)
    (e : Err) (h : documentedError s = some e) :
    optimizeSM (World.fresh s out) v r sch = (World.fresh s out, .exception e) ∧
    (optimizeSM (World.fresh s out) v r sch).1.evaluations = 0 := by
  have hi := init_error (World.fresh s out) v r e h
  unfold optimizeSM
  rw [hi]
  exact ⟨rfl, rfl⟩

/-- the documented errors are the five validation classes, never a run-time one -/
theorem documented_error_classes (s : Scheme α) (e : Err) (h : documentedError s = some e) :
    e ≠ .initialParameter ∧ ∀ m, e ≠ .raised m := by
  unfold documentedError at h
  split at h
  · cases h; simp
  · split at h
    · cases h; simp
    · split at h
      · cases h; simp
      · obtain ⟨g, _, hg⟩ := List.exists_of_findSome?_eq_some h
        unfold groupProblem at hg
        split at hg
        · cases hg; simp
        · split at hg
          · cases hg
          · cases hg; simp

/-! ### 4. the history -/

/-- **The history holds the initial record plus one record per evaluation that returned**: in every
    `Result`, the evaluations that returned are exactly the history without its first record (the
    initial parameters), followed by the final evaluation at the result parameters — so the
    parameters of every `Result`, successful or not, have been evaluated without error. -/
theorem history_only_successful (s : Scheme α) (p0 : α) (out : Handle) (v r : Bool) (sch : Schedule α)
    (res : Result α) (hs : Accepted s p0)
    (hr : (optimizeSM (World.fresh s out) v r sch).2 = .result res) :
    (optimizeSM (World.fresh s out) v r sch).1.evaluatedOK
        = res.parameterHistory.tail ++ [res.optimizedParameters] ∧
    res.parameterHistory.head? = some p0 := by
  rw [run_accepted s p0 out v r sch hs] at hr ⊢
  have hinv : HistInv p0 (World.fresh s out) (o0 p0 out v r) := by simp [HistInv, o0, World.fresh]
  have h1 := optimize_inv p0 _ _ sch hinv
  rcases ho : optimize (World.fresh s out) (o0 p0 out v r) sch with ⟨w1, o1, e⟩
  rw [ho] at h1 hr
  simp only at h1
  cases e with
  | some e => simp at hr
  | none =>
    simp only at hr ⊢
    by_cases hlen : o1.history.length = 1
    · simp [createResult, hlen] at hr
    · cases hopt : o1.optimizationResult with
      | none =>
        have hrest : HistInv p0 w1 (restore o1) := by
          unfold restore
          split <;> simpa [HistInv] using h1
        simp only [createResult, hlen, ↓reduceIte, hopt] at hr ⊢
        exact buildResult_inv p0 w1 (restore o1) sch _ _ hrest res hr
      | some lr =>
        cases hcov : sch.covarianceFault with
        | some m => simp [createResult, hlen, hopt, hcov] at hr
        | none =>
          simp only [createResult, hlen, ↓reduceIte, hopt, hcov] at hr ⊢
          exact buildResult_inv p0 w1 _ sch _ _ (by simpa [HistInv] using h1) res hr

/-! ### 5. `verbose` -/

private theorem init_verbose (w : World α) (v r : Bool) :
    init w v r = (init w false r).map (·.setVerbose v) := by
  unfold init
  split
  · rfl
  · split
    · rfl
    · split
      · rfl
      · split
        · rfl
        · rfl

/-- **`verbose` changes nothing but what scipy prints**: same final world, same outcome. -/
theorem verbose_irrelevant (w : World α) (v r : Bool) (sch : Schedule α) :
    optimizeSM w v r sch = optimizeSM w false r sch := by
  unfold optimizeSM
  rw [init_verbose w v r]
  cases init w false r with
  | error e => rfl
  | ok o =>
    simp only [Except.map, optimize_verbose]
    rcases optimize w o sch with ⟨w1, o1, e⟩
    cases e with
    | some e => rfl
    | none => simp only; rw [createResult_verbose]

/-! ### non-vacuity: the hypotheses are met by concrete non-trivial runs -/

private def s1 : Scheme Nat := ⟨[], some 0, "Levenberg-Marquardt",
  [⟨none, "variable_projection"⟩, ⟨none, "non_negative_least_squares"⟩]⟩

example : Accepted s1 0 := ⟨by decide, rfl⟩
-- a contained fault at call 3 of 4: restored from record 1 (the vector of call 1), nfev 3
example : (optimizeSM (World.fresh s1 (.user 1)) true false
      (inject [0, 5, 6, 7] (.returns ⟨7, 2, "ok"⟩) 3 "boom")).2 =
    .result ⟨false, "boom", 0, some 1, 3, [0, 0, 5, 0]⟩ := by decide
example : Contained (optimizeSM (World.fresh s1 (.user 1)) true false
      (inject [4, 5, 6, 7] (.returns ⟨7, 2, "ok"⟩) 4 "boom")) "boom" (0 :: [4, 5, 6, 7].take 3) :=
  fault_contained_partial s1 0 (.user 1) true [4, 5, 6, 7] _ 4 "boom" ⟨by decide, rfl⟩ (by decide) (by decide)
-- fault at the first call; raise_exception=True; least_squares raising by itself
example : (optimizeSM (World.fresh s1 (.user 1)) false false
      (inject [0, 5] (.returns ⟨5, 2, "ok"⟩) 1 "boom")).2 = .exception .initialParameter := by decide
example : (optimizeSM (World.fresh s1 (.user 1)) false true
      (inject [0, 5, 6] (.returns ⟨5, 2, "ok"⟩) 2 "boom")).2 = .exception (.raised "boom") := by decide
example : (optimizeSM (World.fresh s1 (.user 1)) false false
      (inject [0, 5] (.raises "Residuals are not finite") 0 "unused")).2 =
    .result ⟨false, "Residuals are not finite", 0, some 1, 3, [0, 0, 5, 0]⟩ := by decide
-- the fault-free run
example : (optimizeSM (World.fresh s1 (.user 1)) false false
      (inject [0, 5, 6] (.returns ⟨6, 2, "ok"⟩) 0 "unused")) =
    ({ stdout := .user 1, warnings := [], scheme := s1, evaluations := 5, evaluatedOK := [0, 5, 6, 6, 6] },
     .result ⟨true, "ok", 6, none, 2, [0, 0, 5, 6, 6]⟩) := by decide
-- every documented error occurs, in the documented order
example : documentedError (⟨["d1"], none, "x", [⟨some "k.1", "y"⟩]⟩ : Scheme Nat)
    = some (.missingDatasets ["d1"]) := by decide
example : documentedError (⟨[], none, "x", [⟨some "k.1", "y"⟩]⟩ : Scheme Nat)
    = some .parameterNotInitialized := by decide
example : documentedError (⟨[], some 0, "x", [⟨some "k.1", "y"⟩]⟩ : Scheme Nat)
    = some (.unsupportedMethod "x") := by decide
example : documentedError (⟨[], some 0, "Dogbox", [⟨none, "variable_projection"⟩, ⟨some "k.1", "y"⟩]⟩ : Scheme Nat)
    = some (.parameterNotFound "k.1") := by decide
example : documentedError (⟨[], some 0, "Dogbox", [⟨none, "y"⟩, ⟨some "k.1", "y"⟩]⟩ : Scheme Nat)
    = some (.unsupportedResidualFunction "y") := by decide

end Glotaran.C15
