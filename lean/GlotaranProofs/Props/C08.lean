/-
C08 — interval-scoped constraints, relations, penalties and weights act on their interval.
Property theorems about the model functions the C08 driver executes: `Glotaran.C02.{Interval.contains,
applies, Constraint.appliesAt, axisSlice, areaSlice, getArea}` (lean/GlotaranModel/C02.lean) and
`Glotaran.C08.{doesIntervalItemApply, addModelWeight, effective}` (lean/GlotaranModel/C08.lean).
Helper lemmas and the specification vocabulary (`emin`, `emax`, `IsNearest`, `dist`, `Interval.within`)
live in GlotaranProofs/Lemmas/C08.lean.

Vocabulary.  Bounds are `EB` = ℚ ∪ {−∞, +∞} with the order `EB.le`.  An item with bounds (lo, hi)
acts on the closed interval [emin lo hi, emax lo hi].  `IsNearest axis b k`: axis point `k` is
nearest to the bound `b` (−∞: the first point, +∞: the last point, finite: minimal |axis_k − b|).
Axes are lists of rationals; "strictly increasing" is `List.Pairwise (· < ·)`.
-/
import GlotaranProofs.Lemmas.C08
import GlotaranProofs.Lemmas.C08Lists
import GlotaranProofs.Lemmas.C08Linked
import GlotaranProofs.Lemmas.C08Gen
namespace Glotaran.C08
open Glotaran.LinAlg Glotaran.C02

/-! ### membership: closed, order-insensitive, list = union, `only` = complement, no interval = everywhere -/

/-- **`applies` on one interval is membership in the closed interval [min(lo,hi), max(lo,hi)]**,
    infinite bounds included. -/
theorem applies_iff (lo hi : EB) (x : Rat) :
    Interval.contains ⟨lo, hi⟩ x = true ↔
      (emin lo hi).le (.fin x) = true ∧ EB.le (.fin x) (emax lo hi) = true := by
  rw [contains_eq]; simp

example : Interval.contains ⟨.fin 3, .fin 1⟩ 1 = true ∧ Interval.contains ⟨.fin 3, .fin 1⟩ 3 = true ∧
    Interval.contains ⟨.fin 3, .fin 1⟩ (7/2) = false ∧ Interval.contains ⟨.pinf, .fin 2⟩ 1000 = true ∧
    Interval.contains ⟨.fin 2, .fin 2⟩ 2 = true := by decide +kernel

/-- **a list of intervals is their union** -/
theorem applies_list (l : List Interval) (x : Rat) :
    applies (some l) x = true ↔ ∃ iv ∈ l, iv.contains x = true := by
  simp [applies, List.any_eq_true]

example : applies (some [⟨.fin 0, .fin 1⟩, ⟨.fin 5, .pinf⟩]) 7 = true ∧
    applies (some [⟨.fin 0, .fin 1⟩, ⟨.fin 5, .pinf⟩]) 3 = false := by decide +kernel

/-- **items without interval act everywhere** (zero constraints and relations; an `only` constraint
    without interval therefore acts nowhere) -/
theorem no_interval_everywhere (t : String) (x : Rat) :
    applies none x = true ∧ Constraint.appliesAt ⟨false, t, none⟩ x = true ∧
      Constraint.appliesAt ⟨true, t, none⟩ x = false := by
  simp [applies, Constraint.appliesAt]

/-- **`only` is exactly the complement of `zero`** -/
theorem only_is_complement (t : String) (iv : Option (List Interval)) (x : Rat) :
    Constraint.appliesAt ⟨true, t, iv⟩ x = !(Constraint.appliesAt ⟨false, t, iv⟩ x) := by
  simp [Constraint.appliesAt]

/-- **enlarging an interval never shrinks the set of indices it contains** -/
theorem applies_mono (i j : Interval) (x : Rat) (hw : i.within j) (h : i.contains x = true) :
    j.contains x = true := by
  obtain ⟨ilo, ihi⟩ := i
  obtain ⟨jlo, jhi⟩ := j
  obtain ⟨h1, h2⟩ := hw
  rw [applies_iff] at h ⊢
  exact ⟨EB.le_trans h1 h.1, EB.le_trans h.2 h2⟩

example : Interval.within ⟨.fin 2, .fin 1⟩ ⟨.ninf, .fin 2⟩ ∧ Interval.contains ⟨.fin 2, .fin 1⟩ (3/2) = true := by
  refine ⟨⟨by decide +kernel, by decide +kernel⟩, by decide +kernel⟩

/-- the same for lists of intervals: if every interval of `l` lies within some interval of `l'`,
    everything `l` applies to, `l'` applies to -/
theorem applies_list_mono (l l' : List Interval) (x : Rat)
    (hw : ∀ i ∈ l, ∃ j ∈ l', i.within j) (h : applies (some l) x = true) : applies (some l') x = true := by
  rw [applies_list] at h ⊢
  obtain ⟨i, hi, hc⟩ := h
  obtain ⟨j, hj, hij⟩ := hw i hi
  exact ⟨j, hj, applies_mono i j x hij hc⟩

/-- and, `only` being the complement, enlarging the interval of an `only` constraint never enlarges
    the set it zeroes -/
theorem only_antitone (t : String) (l l' : List Interval) (x : Rat)
    (hw : ∀ i ∈ l, ∃ j ∈ l', i.within j)
    (h : Constraint.appliesAt ⟨true, t, some l'⟩ x = true) : Constraint.appliesAt ⟨true, t, some l⟩ x = true := by
  simp only [Constraint.appliesAt, if_true, Bool.not_eq_true'] at h ⊢
  cases hl : applies (some l) x with
  | false => rfl
  | true => rw [applies_list_mono l l' x hw hl] at h; cases h

example : Constraint.appliesAt ⟨true, "s1", some [⟨.fin 1, .fin 3⟩]⟩ 5 = true := by decide +kernel

/-- **`does_interval_item_apply` at an index is the item's membership test, without warning**
    (the warning branch needs a matrix without index, which the providers never produce) -/
theorem does_interval_item_apply_at_index (only : Bool) (t : String) (ivs : Option (List Interval)) (x : Rat) :
    doesIntervalItemApply only ivs (some x) = (Constraint.appliesAt ⟨only, t, ivs⟩ x, false) := by
  cases only <;> simp [doesIntervalItemApply, itemApplies, appliesOpt, Constraint.appliesAt]

example : doesIntervalItemApply true (some [⟨.fin 1, .fin 3⟩]) (some 5) = (true, false) ∧
    doesIntervalItemApply false (some [⟨.fin 1, .fin 3⟩]) none = (true, true) := by decide +kernel

/-! ### index slices (`get_axis_slice_from_interval`) -/

/-- **the slice does not depend on the order of the bounds** -/
theorem slice_reversed (lo hi : EB) (axis : List Rat) : axisSlice lo hi axis = axisSlice hi lo axis := by
  rw [axisSlice_eq, axisSlice_eq, emin_comm, emax_comm]

/-- **an infinite bound reaches the end of the axis**: a lower bound −∞ starts the slice at the first
    point, an upper bound +∞ ends it after the last one -/
theorem slice_infinite_reaches_ends (b : EB) (axis : List Rat) (hne : axis ≠ []) :
    (axisSlice .ninf b axis).1 = 0 ∧ (axisSlice b .pinf axis).2 = axis.length ∧
      axisSlice .ninf .pinf axis = (0, axis.length) := by
  have hpos : 0 < axis.length := List.length_pos_iff.mpr hne
  have e1 : emin .ninf b = .ninf := by simp [emin, EB.le]
  have e2 : emax b .pinf = .pinf := by cases b <;> simp [emax, EB.le]
  have e3 : emin .ninf .pinf = .ninf := by simp [emin, EB.le]
  have e4 : emax .ninf .pinf = .pinf := by simp [emax, EB.le]
  refine ⟨?_, ?_, ?_⟩
  · rw [axisSlice_eq, e1]; rfl
  · rw [axisSlice_eq, e2]; simp only [nearestIdx]; omega
  · rw [axisSlice_eq, e3, e4]; simp only [nearestIdx, Prod.mk.injEq, true_and]; omega

/-- regression (D1): `(1, +∞)` on `[0,1,2,3,4]` is `slice(1, 5)`, not `slice(1, 4)` -/
example : axisSlice (.fin 1) .pinf [0, 1, 2, 3, 4] = (1, 5) := by decide +kernel
/-- regression (D22): both bounds at the same infinity select the nearest end, not the whole axis -/
example : axisSlice .pinf .pinf [0, 1, 2] = (2, 3) ∧ axisSlice .ninf .ninf [0, 1, 2] = (0, 1) := by decide +kernel

/-- **every axis point inside the closed interval is in the slice** (strictly increasing axis, any
    bounds: finite, infinite, reversed, degenerate, outside the axis) -/
theorem slice_covers_inside (lo hi : EB) (axis : List Rat) (hs : axis.Pairwise (· < ·)) (k : Nat)
    (hk : k < axis.length) (hin : Interval.contains ⟨lo, hi⟩ (axis.getD k 0) = true) :
    (axisSlice lo hi axis).1 ≤ k ∧ k < (axisSlice lo hi axis).2 := by
  rw [applies_iff] at hin
  rw [axisSlice_eq]
  exact ⟨nearestIdx_le_of_ge hs hk hin.1, Nat.lt_succ_of_le (le_nearestIdx_of_le hs hk hin.2)⟩

example : List.Pairwise (· < ·) [(0 : Rat), 1, 2, 3, 4] ∧
    Interval.contains ⟨.pinf, .fin (3/2)⟩ (([0, 1, 2, 3, 4] : List Rat).getD 4 0) = true ∧
    axisSlice .pinf (.fin (3/2)) [0, 1, 2, 3, 4] = (1, 5) := by
  refine ⟨by decide +kernel, by decide +kernel, by decide +kernel⟩

/-- **the slice lies between the nearest points of its bounds**: it starts at a point nearest to
    the lower bound and ends no later than any point nearest to the upper bound -/
theorem slice_within_nearest (lo hi : EB) (axis : List Rat) (hne : axis ≠ []) (k : Nat)
    (hk1 : (axisSlice lo hi axis).1 ≤ k) (hk2 : k < (axisSlice lo hi axis).2) :
    (∃ j, IsNearest axis (emin lo hi) j ∧ j ≤ k) ∧ (∀ j, IsNearest axis (emax lo hi) j → k ≤ j) := by
  rw [axisSlice_eq] at hk1 hk2
  refine ⟨⟨_, nearestIdx_isNearest hne _, hk1⟩, fun j hj => ?_⟩
  exact Nat.le_trans (Nat.lt_succ_iff.mp hk2) (nearestIdx_le_of_isNearest hne _ j hj)

/-- **no point beyond the axis point nearest to a bound is affected**: a point of the slice that
    lies below the lower bound is itself a nearest point of the lower bound, one that lies above the
    upper bound is itself a nearest point of the upper bound (so at most the nearest point sticks
    out on either side) -/
theorem slice_outside_is_nearest (lo hi : EB) (axis : List Rat) (hs : axis.Pairwise (· < ·)) (k : Nat)
    (hk : k < axis.length) (hk1 : (axisSlice lo hi axis).1 ≤ k) (hk2 : k < (axisSlice lo hi axis).2) :
    ((emin lo hi).le (.fin (axis.getD k 0)) = false → IsNearest axis (emin lo hi) k) ∧
    (EB.le (.fin (axis.getD k 0)) (emax lo hi) = false → IsNearest axis (emax lo hi) k) := by
  rw [axisSlice_eq] at hk1 hk2
  exact ⟨below_isNearest hs hk hk1, above_isNearest hs hk (Nat.lt_succ_iff.mp hk2)⟩

/-- non-vacuity: `(1.4, 2.6)` on `[0,1,2,3,4]` selects 1..3; points 1 and 3 are outside and nearest -/
example : axisSlice (.fin (7/5)) (.fin (13/5)) [0, 1, 2, 3, 4] = (1, 4) ∧
    (emin (.fin (7/5)) (.fin (13/5))).le (.fin (([0, 1, 2, 3, 4] : List Rat).getD 1 0)) = false := by
  refine ⟨by decide +kernel, by decide +kernel⟩

/-- **enlarging an interval never shrinks the slice** -/
theorem slice_mono (i j : Interval) (axis : List Rat) (hs : axis.Pairwise (· < ·)) (hw : i.within j) :
    (axisSlice j.lo j.hi axis).1 ≤ (axisSlice i.lo i.hi axis).1 ∧
    (axisSlice i.lo i.hi axis).2 ≤ (axisSlice j.lo j.hi axis).2 := by
  rw [axisSlice_eq, axisSlice_eq]
  exact ⟨nearestIdx_mono hs hw.1, Nat.succ_le_succ (nearestIdx_mono hs hw.2)⟩

example : Interval.within ⟨.fin 3, .fin 1⟩ ⟨.fin (1/2), .pinf⟩ ∧
    axisSlice (.fin 3) (.fin 1) [0, 1, 2, 3, 4] = (1, 4) ∧ axisSlice (.fin (1/2)) .pinf [0, 1, 2, 3, 4] = (0, 5) := by
  refine ⟨⟨by decide +kernel, by decide +kernel⟩, by decide +kernel, by decide +kernel⟩

/-! ### areas of equal-area penalties (`_get_area`) -/

/-- **the area slice does not depend on the order of the bounds** (false before fix D23) -/
theorem area_reversed (lo hi : EB) (axis : List Rat) : areaSlice ⟨lo, hi⟩ axis = areaSlice ⟨hi, lo⟩ axis := by
  rw [areaSlice_eq, areaSlice_eq]
  simp only [emin_comm hi lo, emax_comm hi lo]

/-- regression (D23): `(10, 2)` on `[0,1,2,3,4]` collects the indices 2..4 like `(2, 10)`;
    an interval wholly above the axis is skipped -/
example : areaSlice ⟨.fin 10, .fin 2⟩ [0, 1, 2, 3, 4] = some (2, 5) ∧
    areaSlice ⟨.pinf, .fin 2⟩ [0, 1, 2, 3, 4] = some (2, 5) ∧
    areaSlice ⟨.fin 5, .fin 10⟩ [0, 1, 2, 3, 4] = none := by
  refine ⟨by decide +kernel, by decide +kernel, by decide +kernel⟩

/-- **the clamping of the bounds to the axis range in `_get_area` changes nothing**: unless the
    interval lies wholly above the axis (then it is skipped) the area slice *is* the nearest-point
    slice of the interval — so everything proved for slices holds for areas -/
theorem area_slice_eq_axis_slice (iv : Interval) (axis : List Rat) (hs : axis.Pairwise (· < ·))
    (hne : axis ≠ []) :
    areaSlice iv axis =
      if (emin iv.lo iv.hi).le (.fin (axis.getLastD 0)) then some (axisSlice iv.lo iv.hi axis) else none := by
  rw [areaSlice_eq, clamped_slice_eq hs hne]

/-- **every axis point inside the closed interval is summed** (if it carries the clp, see
    `area_indices_spec`) -/
theorem area_slice_covers_inside (iv : Interval) (axis : List Rat) (hs : axis.Pairwise (· < ·)) (k : Nat)
    (hk : k < axis.length) (hin : iv.contains (axis.getD k 0) = true) :
    ∃ s e, areaSlice iv axis = some (s, e) ∧ s ≤ k ∧ k < e := by
  have hne : axis ≠ [] := by intro e; subst e; simp at hk
  obtain ⟨lo, hi⟩ := iv
  have hin' := (applies_iff lo hi _).mp hin
  have hlast : axis.getD k 0 ≤ axis.getLastD 0 := by
    rw [getLastD_eq_getD]; exact sorted_getD_le hs (by omega) (by omega)
  have hguard : (emin lo hi).le (.fin (axis.getLastD 0)) = true :=
    EB.le_trans hin'.1 ((EB.fin_le_fin _ _).mpr hlast)
  rw [area_slice_eq_axis_slice _ _ hs hne]
  simp only [hguard, if_true]
  exact ⟨_, _, rfl, slice_covers_inside lo hi axis hs k hk hin⟩

example : Interval.contains ⟨.pinf, .fin 2⟩ (([0, 1, 2, 3, 4] : List Rat).getD 4 0) = true := by decide +kernel

/-- **which values an area collects**: exactly the clp values of the label at the indices of the
    area slices of the intervals, where the label is present -/
theorem area_indices_spec (label : String) (labels : List (List String)) (clps : List Vec)
    (ivs : List Interval) (axis : List Rat) (v : Rat) :
    v ∈ getArea label labels clps ivs axis ↔
      ∃ iv ∈ ivs, ∃ s e, areaSlice iv axis = some (s, e) ∧ ∃ i, s ≤ i ∧ i < e ∧
        ∃ j, (labels.getD i []).idxOf? label = some j ∧ v = (clps.getD i []).getD j 0 :=
  mem_getArea label labels clps ivs axis v

example : getArea "a" [["a"], ["b"], ["b", "a"], ["a"]] [[10], [20], [30, 31], [40]]
    [⟨.fin 3, .fin (3/4)⟩] [0, 1, 2, 3] = [31, 40] := by decide +kernel

/-- **no summed point lies beyond the axis point nearest to a bound**, and
    **enlarging an interval never shrinks the area slice** -/
theorem area_slice_outside_is_nearest (iv : Interval) (axis : List Rat) (hs : axis.Pairwise (· < ·))
    (s e k : Nat) (ha : areaSlice iv axis = some (s, e)) (hk : k < axis.length) (h1 : s ≤ k) (h2 : k < e) :
    ((emin iv.lo iv.hi).le (.fin (axis.getD k 0)) = false → IsNearest axis (emin iv.lo iv.hi) k) ∧
    (EB.le (.fin (axis.getD k 0)) (emax iv.lo iv.hi) = false → IsNearest axis (emax iv.lo iv.hi) k) := by
  have hne : axis ≠ [] := by intro e; subst e; simp at hk
  rw [area_slice_eq_axis_slice _ _ hs hne] at ha
  split at ha
  · simp only [Option.some.injEq] at ha
    exact slice_outside_is_nearest iv.lo iv.hi axis hs k hk (by rw [ha]; exact h1) (by rw [ha]; exact h2)
  · cases ha

theorem area_slice_mono (i j : Interval) (axis : List Rat) (hs : axis.Pairwise (· < ·)) (hne : axis ≠ [])
    (hw : i.within j) (s e : Nat) (ha : areaSlice i axis = some (s, e)) :
    ∃ s' e', areaSlice j axis = some (s', e') ∧ s' ≤ s ∧ e ≤ e' := by
  rw [area_slice_eq_axis_slice _ _ hs hne] at ha ⊢
  split at ha
  · rename_i hg
    simp only [Option.some.injEq] at ha
    have hg' : (emin j.lo j.hi).le (.fin (axis.getLastD 0)) = true := EB.le_trans hw.1 hg
    simp only [hg', if_true]
    have := slice_mono i j axis hs hw
    rw [ha] at this
    exact ⟨_, _, rfl, this.1, this.2⟩
  · cases ha

example : Interval.within ⟨.fin 3, .fin 1⟩ ⟨.fin (1/2), .pinf⟩ ∧
    areaSlice ⟨.fin 3, .fin 1⟩ [0, 1, 2, 3, 4] = some (1, 4) := by
  refine ⟨⟨by decide +kernel, by decide +kernel⟩, by decide +kernel⟩

/-! ### model weights (`add_model_weight`) -/

/-- **a model weight is selected by the dataset's label**: the items applied are exactly those
    whose `datasets` list contains the label, in model order -/
theorem weight_selection_by_label (ws : List WeightItem) (label : String) (it : WeightItem) :
    it ∈ matching ws label ↔ it ∈ ws ∧ label ∈ it.datasets := by
  simp [matching, List.mem_filter]

/-- **when both the dataset and the model supply weights, the dataset's weight is used and a
    warning is issued** (before fix D10 the code raised `ValueError` here) -/
theorem dataset_weight_wins_and_warns (ws : List WeightItem) (label : String) (w : Mat)
    (ma ga : List Rat) (h : ∃ it ∈ ws, label ∈ it.datasets) :
    addModelWeight ws label (some w) ma ga = ⟨some w, true⟩ := by
  obtain ⟨it, hit, hl⟩ := h
  have hm : it ∈ matching ws label := (weight_selection_by_label ws label it).mpr ⟨hit, hl⟩
  have hne : (matching ws label).isEmpty = false := by
    cases hmw : matching ws label with
    | nil => rw [hmw] at hm; cases hm
    | cons _ _ => rfl
  simp [addModelWeight, hne]

example : addModelWeight [⟨["d1"], some (.fin 2, .pinf), none, 3⟩] "d1" (some [[1, 1], [2, 2]]) [0, 1] [1, 2] =
    ⟨some [[1, 1], [2, 2]], true⟩ := by decide +kernel

/-- **without a model weight naming the dataset nothing happens**: the dataset's weight (or none)
    stays, no warning -/
theorem no_matching_weight_unchanged (ws : List WeightItem) (label : String) (dw : Option Mat)
    (ma ga : List Rat) (h : ∀ it ∈ ws, label ∉ it.datasets) :
    addModelWeight ws label dw ma ga = ⟨dw, false⟩ := by
  have hm : matching ws label = [] := by
    apply List.eq_nil_iff_forall_not_mem.mpr
    intro it hit
    exact h it ((weight_selection_by_label ws label it).mp hit).1 ((weight_selection_by_label ws label it).mp hit).2
  simp [addModelWeight, hm]

example : addModelWeight [⟨["d10"], none, none, 3⟩] "d1" none [0, 1] [1, 2] = ⟨none, false⟩ := by decide +kernel

/-- **the warning is issued only in the dataset-plus-model case** -/
theorem model_weight_no_warning (ws : List WeightItem) (label : String) (ma ga : List Rat) :
    (addModelWeight ws label none ma ga).warned = false := by
  unfold addModelWeight
  simp only
  split <;> rfl

/-- **which entries are multiplied**: without dataset weight, entry (m, g) of the resulting weight
    is the product of the values of the matching items whose index blocks contain (m, g) — blocks
    multiply where they overlap, everything else stays 1 -/
theorem weight_block_spec (ws : List WeightItem) (label : String) (ma ga : List Rat) (m g : Nat)
    (hm : m < ma.length) (hg : g < ga.length) (h : ∃ it ∈ ws, label ∈ it.datasets) :
    ∃ w, addModelWeight ws label none ma ga = ⟨some w, false⟩ ∧
      entry w m g =
        ((matching ws label).filter (fun it => it.covers ma ga m g)).foldl (fun acc it => acc * it.value) 1 := by
  obtain ⟨it, hit, hl⟩ := h
  have hmem : it ∈ matching ws label := (weight_selection_by_label ws label it).mpr ⟨hit, hl⟩
  have hne : (matching ws label).isEmpty = false := by
    cases hmw : matching ws label with
    | nil => rw [hmw] at hmem; cases hmem
    | cons _ _ => rfl
  refine ⟨(matching ws label).foldl (applyWeight ma ga) (ones ma.length ga.length),
    by simp [addModelWeight, hne], ?_⟩
  rw [entry_foldl_applyWeight, entry_ones _ _ _ _ hm hg]

example : addModelWeight [⟨["d1"], some (.fin 2, .pinf), none, 3⟩, ⟨["d1", "d2"], none, some (.fin 1, .fin 1), 2⟩]
    "d1" none [0, 1, 2] [1, 2, 3, 4] = ⟨some [[1, 3, 3, 3], [2, 6, 6, 6], [1, 3, 3, 3]], false⟩ := by decide +kernel

/-- **a weight item multiplies every point inside its intervals** (a missing interval is the
    whole axis) -/
theorem weight_covers_inside (it : WeightItem) (ma ga : List Rat) (hsm : ma.Pairwise (· < ·))
    (hsg : ga.Pairwise (· < ·)) (m g : Nat) (hm : m < ma.length) (hg : g < ga.length)
    (him : insideOpt it.modelInterval (ma.getD m 0)) (hig : insideOpt it.globalInterval (ga.getD g 0)) :
    it.covers ma ga m g = true := by
  simp only [WeightItem.covers, Bool.and_eq_true]
  exact ⟨inSlice_of_inside hsm _ m hm him, inSlice_of_inside hsg _ g hg hig⟩

/-- **and no point beyond the axis point nearest to a bound** (stated for the global interval; the
    model interval is handled by the same function `sliceOf`/`axisSlice`) -/
theorem weight_outside_is_nearest (it : WeightItem) (ma ga : List Rat) (hsg : ga.Pairwise (· < ·))
    (lo hi : EB) (hiv : it.globalInterval = some (lo, hi)) (m g : Nat) (hg : g < ga.length)
    (hc : it.covers ma ga m g = true) :
    ((emin lo hi).le (.fin (ga.getD g 0)) = false → IsNearest ga (emin lo hi) g) ∧
    (EB.le (.fin (ga.getD g 0)) (emax lo hi) = false → IsNearest ga (emax lo hi) g) := by
  simp only [WeightItem.covers, Bool.and_eq_true, hiv, sliceOf, inSlice, decide_eq_true_eq] at hc
  exact slice_outside_is_nearest lo hi ga hsg g hg hc.2.1 hc.2.2

example : (⟨["d"], some (.fin (7/5), .fin (13/5)), none, 2⟩ : WeightItem).covers [0] [0, 1, 2, 3, 4] 0 1 = true ∧
    (⟨["d"], some (.fin (7/5), .fin (13/5)), none, 2⟩ : WeightItem).covers [0] [0, 1, 2, 3, 4] 0 0 = false := by
  refine ⟨by decide +kernel, by decide +kernel⟩

/-- **the scheme the providers work with differs from the given one only in the weights, and each
    dataset's weight is `add_model_weight`'s** (this is what ties the clp zeros / ratios, `weight`,
    `additional_penalty` and `number_of_clps` of the end-to-end model to the functions above) -/
theorem effective_weight_spec (ws : List WeightItem) (axes : List (String × List Rat)) (d d' : Dataset)
    (warned : Bool) (ma : List Rat) (hax : lookupAxis axes d.label = some ma)
    (h : effectiveDataset ws axes d = some (d', warned)) :
    d'.weight = (addModelWeight ws d.label d.weight ma d.globalAxis).weight ∧
    warned = (addModelWeight ws d.label d.weight ma d.globalAxis).warned ∧
    d'.label = d.label ∧ d'.globalAxis = d.globalAxis ∧ d'.data = d.data ∧ d'.scale = d.scale ∧
    d'.mcs = d.mcs ∧ d'.gmcs = d.gmcs := by
  simp only [effectiveDataset, hax, Option.some.injEq, Prod.mk.injEq] at h
  obtain ⟨rfl, rfl⟩ := h
  simp

/-! ### what the intervals do to the conditionally linear parameters, index by index -/

/-- **a zero constraint removes its clp from the problem exactly at the indices inside its closed
    interval** (so the clp is reported as 0 there and is free everywhere else) -/
theorem zero_constraint_acts_on_interval (t : String) (lo hi : EB) (x : Rat) (lm : LMat2) (l : String) :
    l ∈ (applyConstraintsAt [⟨false, t, some [⟨lo, hi⟩]⟩] x lm).labels ↔
      l ∈ lm.labels ∧ ¬ (l = t ∧ (emin lo hi).le (.fin x) = true ∧ EB.le (.fin x) (emax lo hi) = true) := by
  rw [constraints_labels]
  simp only [List.mem_filter, List.any_cons, List.any_nil, Bool.or_false, Constraint.appliesAt, applies,
    contains_eq, Bool.not_eq_true', Bool.and_eq_false_iff, beq_eq_false_iff_ne, ne_eq, Bool.false_eq_true,
    if_false, not_and]
  constructor
  · rintro ⟨h1, h2⟩
    refine ⟨h1, fun e hlo hhi => ?_⟩
    rcases h2 with h2 | h2 | h2
    · exact h2 e.symm
    · rw [hlo] at h2; cases h2
    · rw [hhi] at h2; cases h2
  · rintro ⟨h1, h2⟩
    refine ⟨h1, ?_⟩
    by_cases e : t = l
    · cases hlo : (emin lo hi).le (.fin x) with
      | false => exact Or.inr (Or.inl rfl)
      | true =>
        cases hhi : EB.le (.fin x) (emax lo hi) with
        | false => exact Or.inr (Or.inr rfl)
        | true => exact absurd hhi (by simpa using h2 e.symm hlo)
    · exact Or.inl e

/-- **an `only` constraint removes its clp exactly at the indices outside its closed interval** -/
theorem only_constraint_acts_outside_interval (t : String) (lo hi : EB) (x : Rat) (lm : LMat2) (l : String) :
    l ∈ (applyConstraintsAt [⟨true, t, some [⟨lo, hi⟩]⟩] x lm).labels ↔
      l ∈ lm.labels ∧ ¬ (l = t ∧ ¬ ((emin lo hi).le (.fin x) = true ∧ EB.le (.fin x) (emax lo hi) = true)) := by
  rw [constraints_labels]
  simp only [List.mem_filter, List.any_cons, List.any_nil, Bool.or_false, Constraint.appliesAt, applies,
    contains_eq, if_true]
  generalize (emin lo hi).le (.fin x) = a
  generalize EB.le (.fin x) (emax lo hi) = b
  by_cases e : l = t
  · subst e; cases a <;> cases b <;> simp
  · have e' : (t == l) = false := by simpa using fun h => e h.symm
    simp [e, e']

example : (applyConstraintsAt [⟨false, "s2", some [⟨.fin 3, .fin 1⟩]⟩] 2 ⟨["s1", "s2"], [[1, 2], [3, 4]]⟩).labels = ["s1"] ∧
    (applyConstraintsAt [⟨false, "s2", some [⟨.fin 3, .fin 1⟩]⟩] 4 ⟨["s1", "s2"], [[1, 2], [3, 4]]⟩).labels = ["s1", "s2"] ∧
    (applyConstraintsAt [⟨true, "s2", some [⟨.fin 3, .fin 1⟩]⟩] 4 ⟨["s1", "s2"], [[1, 2], [3, 4]]⟩).labels = ["s1"] := by
  decide +kernel

/-- **a relation fixes the ratio exactly at the indices inside its closed interval**: there the
    reported target clp is `parameter ·` the reported source clp -/
theorem relation_ratio_inside (src tgt : String) (p : Rat) (lo hi : EB) (x : Rat)
    (full reduced : List String) (c : Vec) (hst : src ≠ tgt) (hs : src ∈ full) (ht : tgt ∈ full)
    (hin : Interval.contains ⟨lo, hi⟩ x = true) :
    (retrieveClps { relations := [⟨src, tgt, p, some [⟨lo, hi⟩]⟩] } full reduced c x).getD (full.idxOf tgt) 0 =
      p * (retrieveClps { relations := [⟨src, tgt, p, some [⟨lo, hi⟩]⟩] } full reduced c x).getD (full.idxOf src) 0 := by
  have happ : appliesRel full x ⟨src, tgt, p, some [⟨lo, hi⟩]⟩ = true := by
    simp [appliesRel, applies, hin, hs, ht]
  have hnc : NoChain [⟨src, tgt, p, some [⟨lo, hi⟩]⟩] full x := by
    refine ⟨?_, ?_⟩
    · simp [happ]
    · intro r hr r' hr' _ _
      simp only [List.mem_singleton] at hr hr'
      subst hr; subst hr'
      exact hst
  exact retrieve_related_aux { relations := [⟨src, tgt, p, some [⟨lo, hi⟩]⟩] } full reduced c x hnc _
    (by simp) happ

/-- **and has no effect at the indices outside**: there the reported clps are the estimated ones -/
theorem relation_no_effect_outside (src tgt : String) (p : Rat) (lo hi : EB) (x : Rat)
    (full reduced : List String) (c : Vec) (hout : Interval.contains ⟨lo, hi⟩ x = false) :
    retrieveClps { relations := [⟨src, tgt, p, some [⟨lo, hi⟩]⟩] } full reduced c x =
      full.map (fun l => match reduced.idxOf? l with | some i => c.getD i 0 | none => 0) := by
  simp [retrieveClps, applies, hout]
  exact fun _ _ => rfl

example : retrieveClps { relations := [⟨"s1", "s2", 3, some [⟨.fin 3, .fin 1⟩]⟩] } ["s1", "s2"] ["s1"] [5] 2 = [5, 15] ∧
    retrieveClps { relations := [⟨"s1", "s2", 3, some [⟨.fin 3, .fin 1⟩]⟩] } ["s1", "s2"] ["s1", "s2"] [5, 7] 4 = [5, 7] := by
  decide +kernel

/-! ### model weights, both dimensions -/

/-- **`weight_outside_is_nearest` for the model interval**: a covered entry whose model-axis point lies
    outside the model interval is a model-axis point nearest to the bound it exceeds -/
theorem weight_outside_is_nearest_model (it : WeightItem) (ma ga : List Rat) (hsm : ma.Pairwise (· < ·))
    (lo hi : EB) (hiv : it.modelInterval = some (lo, hi)) (m g : Nat) (hm : m < ma.length)
    (hc : it.covers ma ga m g = true) :
    ((emin lo hi).le (.fin (ma.getD m 0)) = false → IsNearest ma (emin lo hi) m) ∧
    (EB.le (.fin (ma.getD m 0)) (emax lo hi) = false → IsNearest ma (emax lo hi) m) := by
  simp only [WeightItem.covers, Bool.and_eq_true, hiv, sliceOf, inSlice, decide_eq_true_eq] at hc
  exact slice_outside_is_nearest lo hi ma hsm m hm hc.1.1 hc.1.2

example : (⟨["d"], none, some (.fin (7/5), .fin (13/5)), 2⟩ : WeightItem).covers [0, 1, 2, 3, 4] [0] 1 0 = true ∧
    (emin (.fin (7/5)) (.fin (13/5))).le (.fin (([0, 1, 2, 3, 4] : List Rat).getD 1 0)) = false ∧
    (⟨["d"], none, some (.fin (7/5), .fin (13/5)), 2⟩ : WeightItem).covers [0, 1, 2, 3, 4] [0] 0 0 = false := by
  refine ⟨by decide +kernel, by decide +kernel, by decide +kernel⟩

/-- **the block a weight item multiplies is the product of its two index slices** (model slice ×
    global slice, a missing interval being the whole axis): entry (m, g) is multiplied by the value iff
    `m` is in the model slice and `g` in the global slice, every other entry is left as it is; on
    strictly increasing axes the block contains every point inside both intervals, and every point of
    the block is, in each dimension separately, inside the interval or an axis point nearest to the
    bound it exceeds -/
theorem weight_block_is_product_of_slices (it : WeightItem) (ma ga : List Rat) (w : Mat) (m g : Nat) :
    (it.covers ma ga m g = true ↔
      ((sliceOf it.modelInterval ma).1 ≤ m ∧ m < (sliceOf it.modelInterval ma).2) ∧
      ((sliceOf it.globalInterval ga).1 ≤ g ∧ g < (sliceOf it.globalInterval ga).2)) ∧
    entry (applyWeight ma ga w it) m g = (if it.covers ma ga m g then entry w m g * it.value else entry w m g) ∧
    (ma.Pairwise (· < ·) → ga.Pairwise (· < ·) → m < ma.length → g < ga.length →
      (insideOpt it.modelInterval (ma.getD m 0) ∧ insideOpt it.globalInterval (ga.getD g 0) →
        it.covers ma ga m g = true) ∧
      (it.covers ma ga m g = true →
        InsideOrNearest it.modelInterval ma m ∧ InsideOrNearest it.globalInterval ga g)) := by
  refine ⟨?_, entry_applyWeight ma ga w it m g, ?_⟩
  · simp only [WeightItem.covers, inSlice, Bool.and_eq_true, decide_eq_true_eq]
  · intro hsm hsg hm hg
    refine ⟨fun h => weight_covers_inside it ma ga hsm hsg m g hm hg h.1 h.2, fun hc => ⟨?_, ?_⟩⟩
    · cases hiv : it.modelInterval with
      | none => trivial
      | some p =>
        obtain ⟨lo, hi⟩ := p
        exact weight_outside_is_nearest_model it ma ga hsm lo hi hiv m g hm hc
    · cases hiv : it.globalInterval with
      | none => trivial
      | some p =>
        obtain ⟨lo, hi⟩ := p
        exact weight_outside_is_nearest it ma ga hsg lo hi hiv m g hg hc

/-- non-vacuity: model interval (0.9, 1.1) × global interval (2, +∞) on a 3 × 4 block of twos -/
example : applyWeight [0, 1, 2] [1, 2, 3, 4] [[2, 2, 2, 2], [2, 2, 2, 2], [2, 2, 2, 2]]
      ⟨["d"], some (.fin 2, .pinf), some (.fin (9/10), .fin (11/10)), 3⟩ =
    [[2, 2, 2, 2], [2, 6, 6, 6], [2, 2, 2, 2]] ∧
    sliceOf (some (.fin (9/10), .fin (11/10))) [0, 1, 2] = (1, 2) ∧ sliceOf (some (.fin 2, .pinf)) [1, 2, 3, 4] = (1, 4) := by
  refine ⟨by decide +kernel, by decide +kernel, by decide +kernel⟩

/-! ### any number of constraints and relations at one index

`RelTargetAt rels L x l`: some relation of the list applies at `x` on the labels `L` (target and
source among the labels, `x` inside its interval) and has target `l`.  `ConstrainedAt cons x l`: some
constraint of the list applies at `x` (`zero`: inside, `only`: outside its interval) and has target `l`.
`NoChain` (C02): the applying relations have pairwise different targets and no source is a target. -/

/-- **which labels remain in the problem at `x`** (any number of relations and constraints): exactly
    those that are neither the target of an applying relation nor the target of an applying
    constraint — the removed set is the union of the applying items' targets -/
theorem reduced_labels_iff (mi : ModelItems) (x : Rat) (lm : LMat2) (hL : lm.labels.Nodup) (l : String) :
    l ∈ (reduceAt mi x lm).labels ↔
      l ∈ lm.labels ∧ ¬ RelTargetAt mi.relations lm.labels x l ∧ ¬ ConstrainedAt mi.constraints x l :=
  mem_reduce_labels mi x lm hL l

/-- two zero constraints with different intervals, an `only` constraint and a relation, at three axis values -/
example :
    let mi : ModelItems := { constraints := [⟨false, "a", some [⟨.fin 0, .fin 1⟩]⟩, ⟨false, "b", some [⟨.fin 1, .fin 2⟩]⟩,
                                             ⟨true, "c", some [⟨.fin 0, .fin 2⟩]⟩],
                             relations := [⟨"a", "d", 2, some [⟨.fin 2, .pinf⟩]⟩] }
    let lm : LMat2 := ⟨["a", "b", "c", "d"], [[1, 2, 3, 4]]⟩
    (reduceAt mi 1 lm).labels = ["c", "d"] ∧ (reduceAt mi 2 lm).labels = ["a", "c"] ∧
      (reduceAt mi 3 lm).labels = ["a", "b"] ∧ ConstrainedAt mi.constraints 1 "a" ∧ ConstrainedAt mi.constraints 1 "b" ∧
      RelTargetAt mi.relations lm.labels 2 "d" ∧ ¬ RelTargetAt mi.relations lm.labels 1 "d" := by
  decide +kernel

/-- **the set of labels reported as zero at `x` is exactly the union of the applying constraints'
    targets**: a label (not the target of an applying relation) is reported as `0` for *every* reduced
    coefficient vector iff some constraint of the list that applies at `x` targets it -/
theorem zeroed_labels_are_union_of_applying_constraints (mi : ModelItems) (x : Rat) (lm : LMat2)
    (hL : lm.labels.Nodup) (l : String) (hl : l ∈ lm.labels) (hn : ¬ RelTargetAt mi.relations lm.labels x l) :
    (∀ c : Vec, c.length = (reduceAt mi x lm).labels.length →
        (retrieveClps mi lm.labels (reduceAt mi x lm).labels c x).getD (lm.labels.idxOf l) 0 = 0) ↔
      ConstrainedAt mi.constraints x l := by
  constructor
  · intro hall
    by_contra hcon
    obtain ⟨hmem, hval⟩ := retrieve_free mi x lm hL
      (unitVec (reduceAt mi x lm).labels.length ((reduceAt mi x lm).labels.idxOf l)) l hl hcon hn
    have h0 := hall (unitVec (reduceAt mi x lm).labels.length ((reduceAt mi x lm).labels.idxOf l)) (unitVec_length _ _)
    rw [hval, unitVec_getD _ _ (List.idxOf_lt_length_of_mem hmem)] at h0
    exact absurd h0 (by decide)
  · intro hcon c _
    exact retrieve_constrained_zero mi x lm hL c l hl hcon hn

/-- **a label no applying item targets keeps its estimated coefficient** -/
theorem free_label_keeps_estimate (mi : ModelItems) (x : Rat) (lm : LMat2) (hL : lm.labels.Nodup) (c : Vec)
    (l : String) (hl : l ∈ lm.labels) (hcon : ¬ ConstrainedAt mi.constraints x l)
    (hn : ¬ RelTargetAt mi.relations lm.labels x l) :
    l ∈ (reduceAt mi x lm).labels ∧
    (retrieveClps mi lm.labels (reduceAt mi x lm).labels c x).getD (lm.labels.idxOf l) 0 =
      c.getD ((reduceAt mi x lm).labels.idxOf l) 0 :=
  retrieve_free mi x lm hL c l hl hcon hn

example :
    let mi : ModelItems := { constraints := [⟨false, "a", some [⟨.fin 0, .fin 1⟩]⟩, ⟨false, "b", some [⟨.fin 1, .fin 2⟩]⟩] }
    retrieveClps mi ["a", "b", "c"] (reduceAt mi 1 ⟨["a", "b", "c"], [[1, 2, 3]]⟩).labels [7] 1 = [0, 0, 7] ∧
    retrieveClps mi ["a", "b", "c"] (reduceAt mi 2 ⟨["a", "b", "c"], [[1, 2, 3]]⟩).labels [5, 7] 2 = [5, 0, 7] := by
  decide +kernel

/-- **related targets get `parameter · source` from the unique applying relation** (any number of
    relations without chains): every relation that applies at `x` fixes its target's reported
    coefficient to `parameter ·` the reported coefficient of its source, and it is the only applying
    relation with that target -/
theorem related_targets_get_param_times_source (mi : ModelItems) (full reduced : List String) (c : Vec) (x : Rat)
    (hnc : NoChain mi.relations full x) (r : Relation) (hr : r ∈ mi.relations)
    (ha : appliesRel full x r = true) :
    (retrieveClps mi full reduced c x).getD (full.idxOf r.target) 0 =
      r.param * (retrieveClps mi full reduced c x).getD (full.idxOf r.source) 0 ∧
    ∀ r' ∈ mi.relations, appliesRel full x r' = true → r'.target = r.target → r' = r := by
  refine ⟨retrieve_related_aux mi full reduced c x hnc r hr ha, fun r' hr' ha' ht => ?_⟩
  exact applying_relation_unique mi.relations full x hnc r' r hr' hr ha' ha ht

example :
    let mi : ModelItems := { relations := [⟨"a", "b", 2, some [⟨.fin 0, .fin 1⟩]⟩, ⟨"a", "c", 3, none⟩,
                                           ⟨"c", "b", 5, some [⟨.fin 2, .fin 3⟩]⟩] }
    NoChain mi.relations ["a", "b", "c"] 1 ∧ ¬ NoChain mi.relations ["a", "b", "c"] 2 ∧
      retrieveClps mi ["a", "b", "c"] ["a"] [7] 1 = [7, 14, 21] := by
  decide +kernel

/-- **tie to C02's `reduced_problem_equiv`, both directions** (any number of items, no chains, a well
    formed matrix): the reduced problem at `x` is the full problem restricted to exactly the
    coefficient vectors that are `0` at the applying constraints' targets and `parameter · source` at
    the applying relations' targets —
    (1) every reduced coefficient vector `c` gives such a full vector `e = retrieve_clps c` with
        `reduced · c = full · e`;
    (2) every such full vector `e` is `retrieve_clps` of its own restriction to the remaining labels,
        so `full · e = reduced · (restriction of e)`. -/
theorem constrained_model_is_reduced_problem (mi : ModelItems) (x : Rat) (lm : LMat2) (hwf : WF lm)
    (hnc : NoChain mi.relations lm.labels x) :
    (∀ c : Vec, c.length = (reduceAt mi x lm).labels.length →
      let e := retrieveClps mi lm.labels (reduceAt mi x lm).labels c x
      mulVec (reduceAt mi x lm).m c = mulVec lm.m e ∧
      (∀ l ∈ lm.labels, ConstrainedAt mi.constraints x l → ¬ RelTargetAt mi.relations lm.labels x l →
        e.getD (lm.labels.idxOf l) 0 = 0) ∧
      (∀ r ∈ mi.relations, appliesRel lm.labels x r = true →
        e.getD (lm.labels.idxOf r.target) 0 = r.param * e.getD (lm.labels.idxOf r.source) 0)) ∧
    (∀ e : Vec, e.length = lm.labels.length →
      (∀ l ∈ lm.labels, ConstrainedAt mi.constraints x l → ¬ RelTargetAt mi.relations lm.labels x l →
        e.getD (lm.labels.idxOf l) 0 = 0) →
      (∀ r ∈ mi.relations, appliesRel lm.labels x r = true →
        e.getD (lm.labels.idxOf r.target) 0 = r.param * e.getD (lm.labels.idxOf r.source) 0) →
      let c := restrictTo lm.labels (reduceAt mi x lm).labels e
      c.length = (reduceAt mi x lm).labels.length ∧
      retrieveClps mi lm.labels (reduceAt mi x lm).labels c x = e ∧
      mulVec lm.m e = mulVec (reduceAt mi x lm).m c) := by
  refine ⟨fun c hc => ⟨reduced_problem_equiv_aux mi x lm hwf hnc c hc, ?_, ?_⟩, fun e he hzero hrel => ?_⟩
  · intro l hl hcon hn
    exact retrieve_constrained_zero mi x lm hwf.1 c l hl hcon hn
  · intro r hr ha
    exact retrieve_related_aux mi _ _ c x hnc r hr ha
  · have hlen : (restrictTo lm.labels (reduceAt mi x lm).labels e).length = (reduceAt mi x lm).labels.length := by
      simp [restrictTo]
    have hret := retrieve_restrict mi x lm hwf.1 hnc e he hzero hrel
    refine ⟨hlen, hret, ?_⟩
    have := reduced_problem_equiv_aux mi x lm hwf hnc _ hlen
    rw [hret] at this
    exact this.symm

/-- non-vacuity: b = 2·a (relation), c constrained, d free; the full vector [5, 10, 0, 7] satisfies the
    items, restricts to [5, 7] and is recovered; full · e = reduced · c = [50] -/
example :
    let mi : ModelItems := { relations := [⟨"a", "b", 2, some [⟨.fin 0, .fin 1⟩]⟩],
                             constraints := [⟨false, "c", some [⟨.fin 1, .fin 2⟩]⟩] }
    let lm : LMat2 := ⟨["a", "b", "c", "d"], [[1, 1, 1, 5]]⟩
    WF lm ∧ NoChain mi.relations lm.labels 1 ∧
      restrictTo lm.labels (reduceAt mi 1 lm).labels [5, 10, 0, 7] = [5, 7] ∧
      retrieveClps mi lm.labels (reduceAt mi 1 lm).labels [5, 7] 1 = [5, 10, 0, 7] ∧
      mulVec lm.m [5, 10, 0, 7] = mulVec (reduceAt mi 1 lm).m [5, 7] := by
  decide +kernel

/-! ### linked groups with a link tolerance: the items act on the aligned coordinate -/

/-- **exact characterisation of "member inside, aligned point outside"**: the member coordinate `x`
    lies in the closed interval and the aligned coordinate `v` does not iff a finite bound `b` of the
    interval separates them: the lower bound with `v < b ≤ x`, or the upper bound with `x ≤ b < v` -/
theorem member_inside_aligned_outside_iff (lo hi : EB) (x v : Rat) :
    (Interval.contains ⟨lo, hi⟩ x = true ∧ Interval.contains ⟨lo, hi⟩ v = false) ↔
      ∃ b : Rat, (emin lo hi = .fin b ∧ v < b ∧ b ≤ x ∧ EB.le (.fin x) (emax lo hi) = true) ∨
                 (emax lo hi = .fin b ∧ x ≤ b ∧ b < v ∧ (emin lo hi).le (.fin x) = true) :=
  inside_outside_iff lo hi x v

/-- member 5.25 is merged into aligned 5 (tolerance 0.5): inside (5.1, 6) itself, its aligned point is not -/
example : Interval.contains ⟨.fin (51/10), .fin 6⟩ (21/4) = true ∧ Interval.contains ⟨.fin (51/10), .fin 6⟩ 5 = false ∧
    emin (.fin (51/10)) (.fin 6) = .fin (51/10) := by
  refine ⟨by decide +kernel, by decide +kernel, by decide +kernel⟩

/-- **a member point merged into an aligned point (`|v − x| ≤ tol`) takes another decision than its own
    coordinate would only across a bound within the tolerance**: if an item (no interval / a list of
    intervals) decides differently at `x` and at `v`, one of its finite bounds lies in the closed range
    between `x` and `v`, hence within `tol` of `x`.  Contrapositive: a member point farther than `tol`
    from every finite bound is affected iff it is itself inside. -/
theorem member_and_aligned_disagree_only_across_a_bound (ivs : Option (List Interval)) (x v tol : Rat)
    (hm : v = x ∨ |v - x| ≤ tol) (hne : applies ivs x ≠ applies ivs v) :
    ∃ l, ivs = some l ∧ ∃ iv ∈ l, ∃ b, Interval.hasBound iv b ∧ min x v ≤ b ∧ b ≤ max x v ∧ |b - x| ≤ tol := by
  obtain ⟨l, hl, iv, hiv, b, hb, h1, h2⟩ := applies_ne_bound_between ivs x v hne
  refine ⟨l, hl, iv, hiv, b, hb, h1, h2, ?_⟩
  rcases hm with rfl | hm
  · exact absurd rfl hne
  · exact le_trans (between_dist x v b h1 h2) hm

example : applies (some [⟨.fin (51/10), .fin 6⟩]) (21/4) ≠ applies (some [⟨.fin (51/10), .fin 6⟩]) 5 ∧
    |(5 : Rat) - 21/4| ≤ 1/2 ∧ Interval.hasBound ⟨.fin (51/10), .fin 6⟩ (51/10) := by
  refine ⟨by decide +kernel, by decide +kernel, Or.inl rfl⟩

/-- the single-interval form with the strict distance: a member point inside the interval whose aligned
    point is outside lies less than `tol` inside a finite bound -/
theorem member_inside_aligned_outside_within_tol (lo hi : EB) (x v tol : Rat) (hm : v = x ∨ |v - x| ≤ tol)
    (hx : Interval.contains ⟨lo, hi⟩ x = true) (hv : Interval.contains ⟨lo, hi⟩ v = false) :
    ∃ b : Rat, (emin lo hi = .fin b ∧ v < b ∧ b ≤ x ∧ x - b < tol) ∨ (emax lo hi = .fin b ∧ x ≤ b ∧ b < v ∧ b - x < tol) := by
  have hvx : |v - x| ≤ tol := by
    rcases hm with rfl | hm
    · rw [hx] at hv; cases hv
    · exact hm
  obtain ⟨b, hb | hb⟩ := (inside_outside_iff lo hi x v).mp ⟨hx, hv⟩
  · obtain ⟨he, h1, h2, _⟩ := hb
    refine ⟨b, Or.inl ⟨he, h1, h2, ?_⟩⟩
    have := neg_abs_le (v - x)
    linarith
  · obtain ⟨he, h1, h2, _⟩ := hb
    refine ⟨b, Or.inr ⟨he, h1, h2, ?_⟩⟩
    have := le_abs_self (v - x)
    linarith

example : ((5 : Rat) = 21/4 ∨ |(5 : Rat) - 21/4| ≤ 1/2) ∧ Interval.contains ⟨.fin (41/8), .fin 6⟩ (21/4) = true ∧
    Interval.contains ⟨.fin (41/8), .fin 6⟩ 5 = false ∧ emin (.fin (41/8)) (.fin 6) = .fin (41/8) ∧ (21/4 : Rat) - 41/8 < 1/2 := by
  refine ⟨Or.inr (by decide +kernel), by decide +kernel, by decide +kernel, by decide +kernel, by decide +kernel⟩

/-- **in a linked group every constraint and relation is decided at the ALIGNED coordinate of the
    shared clp, and the member points inherit the decision.**  For the problems `linkedProblems` builds
    (one per aligned point `v`, in the order of the aligned axis):
    * `x = v`, and a label stays in the problem of `v` iff it is a label of the stacked matrix that is
      neither the target of a relation applying at `v` nor the target of a constraint applying at `v`
      (`zero`: `v` inside its interval, `only`: `v` outside);
    * every member `(d, j)` of `v` — the `j`-th point of dataset `d`'s own global axis, whose block is
      stacked into this problem and whose reported clps are the clps of this problem — has an own
      coordinate `x` with `v = x` or `|v − x| ≤ tolerance`.
    Hence "affects every axis point inside the interval" holds for every member point whose aligned
    point is inside; a member point inside whose aligned point is outside is not affected
    (`member_inside_aligned_outside_iff`: it lies within the tolerance of a bound). -/
theorem linked_items_act_on_aligned_coordinate (mi : ModelItems) (g : Group) (axis : List Rat)
    (ps : List IndexProblem) (h : linkedProblems mi g = some (axis, ps))
    (hN : ∀ d ∈ g.datasets, ∀ lm, datasetMatrix d.mcs = some lm → lm.labels.Nodup) :
    ∃ aligned, alignAxes (g.datasets.map (·.globalAxis)) g.tol g.method = some aligned ∧
      axis = alignedAxisOf aligned ∧ ps.map (·.x) = axis ∧
      (∀ p ∈ ps, p.x ∈ axis ∧ ∀ l, l ∈ p.reduced.labels ↔
          l ∈ p.fullLabels ∧ ¬ RelTargetAt mi.relations p.fullLabels p.x l ∧
            ¬ ConstrainedAt mi.constraints p.x l) ∧
      (∀ v ∈ axis, ∀ d j, (d, j) ∈ memberIdx aligned v →
          ∃ ds x, g.datasets[d]? = some ds ∧ ds.globalAxis[j]? = some x ∧ (v = x ∨ |v - x| ≤ g.tol)) := by
  obtain ⟨hsorted, hx, aligned, hal, hax, _⟩ := C09.c02_aligned_axis_strictly_increasing mi g axis ps h
  refine ⟨aligned, hal, hax, hx, ?_, ?_⟩
  · intro p hp
    obtain ⟨hpx, stacked, hnd, hfull, hred, _⟩ := linkedProblems_reduced mi g axis ps h hN p hp
    refine ⟨hpx, fun l => ?_⟩
    rw [hred, hfull]
    exact mem_reduce_labels mi p.x stacked hnd l
  · intro v _ d j hm
    obtain ⟨ax, x, hax', hxj, hd⟩ := member_within_tol _ aligned g.tol g.method hal v d j hm
    rw [List.getElem?_map] at hax'
    cases hds : g.datasets[d]? with
    | none => rw [hds] at hax'; cases hax'
    | some ds =>
      rw [hds] at hax'
      simp only [Option.map_some, Option.some.injEq] at hax'
      subst hax'
      exact ⟨ds, x, rfl, hxj, hd⟩

/-- two datasets, axes [4, 5, 6] and [5.25, 6.25], tolerance 0.5: 5.25 ↦ 5, 6.25 ↦ 6; a zero constraint on
    (5.1, 5.5) contains the member point 5.25 but not its aligned point 5, so `s` stays in the problem of
    aligned point 5 (for both members); a constraint on (4.9, 5.05) does not contain 5.25 but removes `s` there -/
def tolGroup : Group :=
  ⟨true, .vp, 1/2, .nearest,
    [⟨"d1", [4, 5, 6], [[1, 2, 3], [4, 5, 6]], none, none, [⟨⟨["s", "u"], .d2 [[1, 0], [0, 1]]⟩, none⟩], []⟩,
     ⟨"d2", [21/4, 25/4], [[7, 8], [9, 10]], none, none, [⟨⟨["s", "u"], .d2 [[1, 1], [1, 2]]⟩, none⟩], []⟩]⟩

example :
    (linkedProblems { constraints := [⟨false, "s", some [⟨.fin (51/10), .fin (11/2)⟩]⟩] } tolGroup).map
      (fun r => (r.1, r.2.map (·.reduced.labels))) = some ([4, 5, 6], [["s", "u"], ["s", "u"], ["s", "u"]]) ∧
    (linkedProblems { constraints := [⟨false, "s", some [⟨.fin (49/10), .fin (101/20)⟩]⟩] } tolGroup).map
      (fun r => (r.1, r.2.map (·.reduced.labels))) = some ([4, 5, 6], [["s", "u"], ["u"], ["s", "u"]]) ∧
    alignAxes (tolGroup.datasets.map (·.globalAxis)) tolGroup.tol tolGroup.method = some [[4, 5, 6], [5, 6]] ∧
    memberIdx [[4, 5, 6], [5, 6]] 5 = [(0, 1), (1, 0)] := by
  decide +kernel

example : ∀ d ∈ tolGroup.datasets, ∀ lm, datasetMatrix d.mcs = some lm → lm.labels.Nodup := by
  intro d hd lm hlm
  simp only [tolGroup, List.mem_cons, List.not_mem_nil, or_false] at hd
  rcases hd with rfl | rfl <;> (simp [datasetMatrix, McOut.scaled] at hlm; subst hlm; decide)

/-- **the aligned coordinate is itself an axis point of a member**: the member of the aligned point `v`
    with the smallest dataset number (the dataset that introduced `v`) has `v` as its own coordinate — so
    "the items act on the aligned coordinate" means: the decision of the first member's own coordinate
    is shared by all members of the clp -/
theorem aligned_coordinate_is_first_members_own (g : Group) (aligned : List (List Rat))
    (hal : alignAxes (g.datasets.map (·.globalAxis)) g.tol g.method = some aligned) (v : Rat) (d j : Nat)
    (hm : (d, j) ∈ memberIdx aligned v) (hfirst : ∀ d' j', (d', j') ∈ memberIdx aligned v → d ≤ d') :
    ∃ ds, g.datasets[d]? = some ds ∧ ds.globalAxis[j]? = some v := by
  obtain ⟨ax, hax, hj⟩ := first_member_own _ aligned g.tol g.method hal v d j hm hfirst
  rw [List.getElem?_map] at hax
  cases hds : g.datasets[d]? with
  | none => rw [hds] at hax; cases hax
  | some ds =>
    rw [hds] at hax
    simp only [Option.map_some, Option.some.injEq] at hax
    subst hax
    exact ⟨ds, rfl, hj⟩

example : (0, 1) ∈ memberIdx [[4, 5, 6], [5, 6]] 5 ∧ (∀ d' j', (d', j') ∈ memberIdx [[4, 5, 6], [5, 6]] 5 → 0 ≤ d') ∧
    (tolGroup.datasets[0]?.map (·.globalAxis[1]?)) = some (some 5) := by
  refine ⟨by decide +kernel, fun _ _ _ => Nat.zero_le _, by decide +kernel⟩

/-- **the zero constraint of `zero_constraint_acts_on_interval`, for a linked group**: in the problem of
    the aligned point `p.x` the constrained label is removed — for all members of the point — iff the
    ALIGNED coordinate lies in (the union of) the closed intervals; an `only` constraint iff it does not -/
theorem linked_constraint_affects_members_iff_aligned_inside (only : Bool) (t : String) (ivs : Option (List Interval))
    (g : Group) (axis : List Rat) (ps : List IndexProblem)
    (h : linkedProblems { constraints := [⟨only, t, ivs⟩] } g = some (axis, ps))
    (hN : ∀ d ∈ g.datasets, ∀ lm, datasetMatrix d.mcs = some lm → lm.labels.Nodup)
    (p : IndexProblem) (hp : p ∈ ps) (ht : t ∈ p.fullLabels) :
    t ∉ p.reduced.labels ↔ (if only then applies ivs p.x = false else applies ivs p.x = true) := by
  obtain ⟨_, _, _, _, hdec, _⟩ := linked_items_act_on_aligned_coordinate _ g axis ps h hN
  have hiff := (hdec p hp).2 t
  have hrel : ¬ RelTargetAt ({ constraints := [⟨only, t, ivs⟩] } : ModelItems).relations p.fullLabels p.x t := by
    rintro ⟨r, hr, _⟩; cases hr
  have hcon : ConstrainedAt ({ constraints := [⟨only, t, ivs⟩] } : ModelItems).constraints p.x t ↔
      (if only then applies ivs p.x = false else applies ivs p.x = true) := by
    simp only [ConstrainedAt, List.mem_singleton, exists_eq_left, and_true, Constraint.appliesAt]
    cases only <;> simp
  rw [hiff, ← hcon]
  constructor
  · intro hnot
    by_contra hc
    exact hnot ⟨ht, hrel, hc⟩
  · rintro hc ⟨_, _, hn⟩
    exact hn hc

/-- in `tolGroup` the problem of the aligned point 5 (members: 5 of d1 and 5.25 of d2): the zero constraint
    on (5.125, 5.5) leaves `s` in, the one on (4.875, 5.0625) removes it -/
example :
    (linkedProblems { constraints := [⟨false, "s", some [⟨.fin (41/8), .fin (11/2)⟩]⟩] } tolGroup).map
      (fun r => r.2.map (fun p => (p.x, decide ("s" ∈ p.reduced.labels)))) = some [(4, true), (5, true), (6, true)] ∧
    (linkedProblems { constraints := [⟨false, "s", some [⟨.fin (39/8), .fin (81/16)⟩]⟩] } tolGroup).map
      (fun r => r.2.map (fun p => (p.x, decide ("s" ∈ p.reduced.labels)))) = some [(4, true), (5, false), (6, true)] := by
  decide +kernel

/-- **equal-area penalties of a linked group are taken over the aligned axis**, which is strictly
    increasing: every aligned point inside a penalty interval is summed, nothing beyond the aligned
    points nearest to the bounds (the area theorems above apply verbatim to the axis `linkedGroup` hands
    to `clpPenalties`) -/
theorem linked_area_acts_on_aligned_axis (mi : ModelItems) (g : Group) (axis : List Rat)
    (ps : List IndexProblem) (h : linkedProblems mi g = some (axis, ps)) (iv : Interval) (k : Nat)
    (hk : k < axis.length) :
    axis.Pairwise (· < ·) ∧
    (iv.contains (axis.getD k 0) = true → ∃ s e, areaSlice iv axis = some (s, e) ∧ s ≤ k ∧ k < e) ∧
    (∀ s e, areaSlice iv axis = some (s, e) → s ≤ k → k < e →
      ((emin iv.lo iv.hi).le (.fin (axis.getD k 0)) = false → IsNearest axis (emin iv.lo iv.hi) k) ∧
      (EB.le (.fin (axis.getD k 0)) (emax iv.lo iv.hi) = false → IsNearest axis (emax iv.lo iv.hi) k)) := by
  have hs := (C09.c02_aligned_axis_strictly_increasing mi g axis ps h).1
  exact ⟨hs, fun hin => area_slice_covers_inside iv axis hs k hk hin,
    fun s e ha h1 h2 => area_slice_outside_is_nearest iv axis hs s e k ha hk h1 h2⟩

example : (linkedProblems {} tolGroup).map (·.1) = some [4, 5, 6] ∧ areaSlice ⟨.fin (41/8), .pinf⟩ [4, 5, 6] = some (1, 3) := by
  decide +kernel

/-- **what is reported for the members**: in the problem of the aligned point `p.x` a label targeted by a
    constraint that applies at `p.x` (and by no applying relation) is reported as `0` whatever the
    solver returns, a label targeted by no applying item keeps the estimated coefficient — this is the
    vector `linkedGroup` / `C03.linkedResults` hand to every member dataset of the aligned point -/
theorem linked_reported_clps_follow_aligned_decision (mi : ModelItems) (g : Group) (axis : List Rat)
    (ps : List IndexProblem) (h : linkedProblems mi g = some (axis, ps))
    (hN : ∀ d ∈ g.datasets, ∀ lm, datasetMatrix d.mcs = some lm → lm.labels.Nodup)
    (p : IndexProblem) (hp : p ∈ ps) (c : Vec) (l : String) (hl : l ∈ p.fullLabels)
    (hn : ¬ RelTargetAt mi.relations p.fullLabels p.x l) :
    (ConstrainedAt mi.constraints p.x l →
      (retrieveClps mi p.fullLabels p.reduced.labels c p.x).getD (p.fullLabels.idxOf l) 0 = 0) ∧
    (¬ ConstrainedAt mi.constraints p.x l →
      (retrieveClps mi p.fullLabels p.reduced.labels c p.x).getD (p.fullLabels.idxOf l) 0 =
        c.getD (p.reduced.labels.idxOf l) 0) := by
  obtain ⟨_, stacked, hnd, hfull, hred, _⟩ := linkedProblems_reduced mi g axis ps h hN p hp
  rw [hfull] at hl hn
  rw [hfull, hred]
  exact ⟨fun hcon => retrieve_constrained_zero mi p.x stacked hnd c l hl hcon hn,
    fun hcon => (retrieve_free mi p.x stacked hnd c l hl hcon hn).2⟩

/-- non-vacuity: the problem of aligned point 5 of `tolGroup` under the constraint on (4.875, 5.0625): `s` is
    constrained at 5 and reported as 0 for both members, `u` keeps the estimate -/
example :
    let mi : ModelItems := { constraints := [⟨false, "s", some [⟨.fin (39/8), .fin (81/16)⟩]⟩] }
    (linkedProblems mi tolGroup).map (fun r => r.2.map (fun p => (p.x, p.fullLabels, p.reduced.labels))) =
      some [(4, ["s", "u"], ["s", "u"]), (5, ["s", "u"], ["u"]), (6, ["s", "u"], ["s", "u"])] ∧
    ConstrainedAt mi.constraints 5 "s" ∧ ¬ RelTargetAt mi.relations ["s", "u"] 5 "s" ∧ ¬ ConstrainedAt mi.constraints 5 "u" ∧
    retrieveClps mi ["s", "u"] ["u"] [7] 5 = [0, 7] := by
  decide +kernel

/-! ### the functions as they are written in the source: translated on every run, equal to the model

`GlotaranModel/Generated/C08Fns.lean` is regenerated from the source text of glotaran on every run of the
check (harness/props/_c08_fns.py, vocabulary `GlotaranModel/C08Py.lean`).  The theorems below prove each
generated definition equal to the model definition the driver executes and the theorems above talk about —
for every item class, every value of the `interval` attribute (none, one tuple, a list of tuples of any
length), every index, every pair of bounds (reversed, infinite), every non-empty axis (any length, any
order), every list of intervals and label table.  A behaviour-changing edit of one of these functions
breaks the corresponding theorem. -/

/-- `IntervalItem.has_interval` through the method dispatch of every item class -/
theorem generated_has_interval_eq_model (it : Py.Item) :
    Gen.has_interval it = (ivsModel it.interval).isSome :=
  gen_has_interval_eq it

example : Gen.has_interval ⟨.ZeroConstraint, some (.many []), "t", "", 0⟩ = true ∧
    Gen.has_interval ⟨.ClpRelation, none, "t", "s", 2⟩ = false := by decide

/-- `IntervalItem.applies` as written (early return on `None`, the nested `applies`, the
    list-of-one normalisation, `any`) is the model's `appliesOpt`: closed, order-insensitive, union -/
theorem generated_interval_item_applies_eq_model (it : Py.Item) (index : Option Rat) :
    Gen.IntervalItem_applies it index = appliesOpt (ivsModel it.interval) index :=
  gen_IntervalItem_applies_eq it index

example : Gen.IntervalItem_applies ⟨.ZeroConstraint, some (.single (.fin 3, .fin 1)), "t", "", 0⟩ (some 3) = true ∧
    Gen.IntervalItem_applies ⟨.ZeroConstraint, some (.many [(.fin 3, .fin 1), (.fin 5, .pinf)]), "t", "", 0⟩ (some 4) = false ∧
    Gen.IntervalItem_applies ⟨.ZeroConstraint, some (.many [(.fin 3, .fin 1), (.fin 5, .pinf)]), "t", "", 0⟩ (some 400) = true := by
  decide +kernel

/-- `item.applies(index)` with Python's method resolution over the item classes found in the source:
    `OnlyConstraint` negates, every other class uses `IntervalItem.applies` -/
theorem generated_applies_eq_model (it : Py.Item) (index : Option Rat) :
    Gen.applies it index = itemApplies it.isOnly (ivsModel it.interval) index :=
  gen_applies_eq it index

example : Gen.applies ⟨.OnlyConstraint, some (.single (.fin 1, .fin 3)), "t", "", 0⟩ (some 2) = false ∧
    Gen.applies ⟨.ClpRelation, some (.single (.fin 1, .fin 3)), "t", "s", 2⟩ (some 2) = true := by decide +kernel

/-- `MatrixProvider.does_interval_item_apply` (truth value; the warning is observed by the harness) -/
theorem generated_does_interval_item_apply_eq_model (it : Py.Item) (index : Option Rat) :
    Gen.does_interval_item_apply it index =
      (doesIntervalItemApply it.isOnly (ivsModel it.interval) index).1 :=
  gen_does_eq it index

example : Gen.does_interval_item_apply ⟨.OnlyConstraint, some (.single (.fin 1, .fin 3)), "t", "", 0⟩ none = true ∧
    Gen.does_interval_item_apply ⟨.OnlyConstraint, some (.single (.fin 1, .fin 3)), "t", "", 0⟩ (some 2) = false := by
  decide +kernel

/-- **items are re-read on every evaluation.**  An item is its class and the CURRENT values of its
    attributes — the translated `applies` has no other state to read (an assignment to an attribute of
    `self`, e.g. a memo of the ordered intervals, is outside the translated subset and breaks this
    theorem).  After any sequence of assignments `item.interval = v` the answer is the one for the last
    assigned value, for every class, index and history. -/
theorem applies_reads_current_interval (it : Py.Item) (hist : List (Option Py.Ivs)) (index : Option Rat) :
    Gen.applies (hist.foldl (fun (o : Py.Item) v => { o with interval := v }) it) index =
      itemApplies it.isOnly (ivsModel (hist.getLast?.getD it.interval)) index := by
  rw [gen_applies_eq]
  have h : ∀ (l : List (Option Py.Ivs)) (o : Py.Item),
      (l.foldl (fun (o : Py.Item) v => { o with interval := v }) o).cls = o.cls ∧
      (l.foldl (fun (o : Py.Item) v => { o with interval := v }) o).interval = l.getLast?.getD o.interval := by
    intro l
    induction l with
    | nil => intro o; simp
    | cons a t ih =>
      intro o
      obtain ⟨h1, h2⟩ := ih { o with interval := a }
      refine ⟨by simpa using h1, ?_⟩
      rw [List.foldl_cons, h2]
      cases t with
      | nil => simp
      | cons b t' =>
        rw [List.getLast?_cons_cons, List.getLast?_eq_some_getLast (List.cons_ne_nil b t')]
        simp
  obtain ⟨h1, h2⟩ := h hist it
  simp only [Py.Item.isOnly, h1, h2]

/-- a zero constraint used on (1, 3), then reassigned to the half-infinite (5, +inf): the second evaluation
    follows the new interval at every index -/
example :
    let it : Py.Item := ⟨.ZeroConstraint, some (.single (.fin 1, .fin 3)), "t", "", 0⟩
    let it' := [some (Py.Ivs.single (.fin 5, .pinf))].foldl (fun (o : Py.Item) v => { o with interval := v }) it
    (Gen.applies it (some 2), Gen.applies it (some 7)) = (true, false) ∧
    (Gen.applies it' (some 2), Gen.applies it' (some 7)) = (false, true) := by decide +kernel

/-- `DataProvider.get_axis_slice_from_interval` with its nested `nearest_index` as written
    (swap of a reversed pair, `np.isinf`, `0` / `axis.size - 1`, `np.abs(axis - value).argmin()`, `+ 1`)
    is the model's `axisSlice` on every non-empty axis (numpy's `argmin` raises on an empty one) -/
theorem generated_slice_eq_model (p : Py.Pair) (axis : List Rat) (hne : axis ≠ []) :
    Gen.get_axis_slice_from_interval p axis = sliceInt (axisSlice p.1 p.2 axis) :=
  gen_slice_eq p axis hne

example : Gen.get_axis_slice_from_interval (.pinf, .fin 1) [0, 1, 2, 3, 4] = (1, 5) ∧
    Gen.get_axis_slice_from_interval (.fin (5/2), .fin (1/2)) [0, 1, 2, 3, 4] = (0, 3) ∧
    Gen.get_axis_slice_from_interval (.fin 1, .fin 1) [4, 1, 0] = (1, 2) := by decide +kernel

/-- the slice the source computes stays inside the axis: `0 ≤ start < stop ≤ axis.size` — the Python
    ints never become negative and the indexing of `_get_area` never raises IndexError -/
theorem generated_slice_in_range (p : Py.Pair) (axis : List Rat) (hne : axis ≠ []) :
    0 ≤ (Gen.get_axis_slice_from_interval p axis).1 ∧
    (Gen.get_axis_slice_from_interval p axis).1 < (axis.length : Int) ∧
    0 < (Gen.get_axis_slice_from_interval p axis).2 ∧
    (Gen.get_axis_slice_from_interval p axis).2 ≤ (axis.length : Int) := by
  rw [gen_slice_eq p axis hne, axisSlice_eq]
  have h1 := nearestIdx_lt hne (emin p.1 p.2)
  have h2 := nearestIdx_lt hne (emax p.1 p.2)
  simp only [sliceInt]
  omega

example : (Gen.get_axis_slice_from_interval (.ninf, .pinf) [7]) = (0, 1) := by decide +kernel

/-- `_get_area` as written (ordering by `min`/`max`, the skip above the last point, the clamping by
    `np.min`/`np.max`, the slice, the per-index label look-up, `append`) collects exactly what the
    model's `getArea` collects, for label tables given per index -/
theorem generated_get_area_eq_model (label : String) (labels : List (List String)) (clps : List (List Rat))
    (ivs : List Py.Pair) (axis : List Rat) (hne : axis ≠ []) :
    Gen.get_area label (.nested labels) clps ivs axis = getArea label labels clps (ivs.map pairModel) axis :=
  gen_get_area_nested label labels clps ivs axis hne

example : Gen.get_area "a" (.nested [["b", "a"], ["b"], ["b", "a"], ["a"]]) [[-1, 10], [-1], [-1, 12], [13]]
    [(.pinf, .fin 2), (.fin 0, .fin 0)] [1, 2, 3, 4] = [12, 13, 10] := by decide +kernel

/-- the body of the loop of `MatrixProvider.apply_constraints` as written (which constraints apply at
    the index, `removed_clp_labels`, `reduced_clp_labels`, the boolean mask, the column selection) replaces
    the matrix of index `i` by the model's `applyConstraintsAt` of it -/
theorem generated_apply_constraints_eq_model (model : Gen.Model) (ms : List LMat2) (i : Nat) (x : Rat)
    (hi : i < ms.length) :
    Gen.apply_constraints_body model ms i x =
      ms.set i (applyConstraintsAt (model.clp_constraints.map consModel) x (ms.getD i default)) :=
  gen_apply_constraints_body_eq model ms i x hi

example : (Gen.apply_constraints_body
    { clp_constraints := [⟨.ZeroConstraint, some (.single (.fin 1, .pinf)), "s", "", 0⟩,
                          ⟨.OnlyConstraint, some (.single (.fin 0, .fin 5)), "u", "", 0⟩] }
    [⟨["s", "u"], [[1, 2]]⟩, ⟨["s", "u"], [[3, 4]]⟩] 1 7).map (fun m => (m.labels, m.m)) =
      [(["s", "u"], [[1, 2]]), ([], [[]])] := by decide +kernel

/-! ### equal-area penalties in an unlinked group with several datasets -/

private theorem mapM_some_spec {α β : Type} (f : α → Option β) : ∀ (l : List α) (out : List β),
    l.mapM f = some out → out.length = l.length ∧ ∀ i (hi : i < l.length), f l[i] = out[i]? := by
  intro l
  induction l with
  | nil => intro out h; simp at h; subst h; simp
  | cons a t ih =>
    intro out h
    simp only [List.mapM_cons] at h
    cases ha : f a with
    | none => simp [ha] at h
    | some b =>
      cases ht : t.mapM f with
      | none => simp [ha, ht] at h
      | some bs =>
        simp [ha, ht] at h
        subst h
        obtain ⟨h1, h2⟩ := ih bs ht
        refine ⟨by simp [h1], ?_⟩
        intro i hi
        cases i with
        | zero => simp [ha]
        | succ j => simpa using h2 j (by simpa using hi)

/-- **every dataset's equal-area penalties appear exactly once.**  For an unlinked group — any number of
    datasets — the penalty part of the group (`Result.additional_penalty`, the tail of the full penalty
    vector) is the concatenation, in dataset order, of the penalties each dataset computes on its own global
    axis (`unlinkedDataset … = (residuals, clpPenalties …)`): one block per dataset, nothing dropped and
    nothing repeated; the full penalty vector is all residual blocks followed by all penalty blocks, so the
    cost (its squared norm) counts every dataset's penalty once. -/
theorem penalties_all_datasets_once (mi : ModelItems) (g : Group) (hl : g.linked = false) (r p : Vec)
    (h : groupPenaltyParts mi g = some (r, p)) :
    ∃ parts : List (Vec × Vec), parts.length = g.datasets.length ∧
      (∀ i (hi : i < g.datasets.length), unlinkedDataset mi g.solver g.datasets[i] = parts[i]?) ∧
      r = (parts.map (·.1)).flatten ∧ p = (parts.map (·.2)).flatten ∧
      p.length = (parts.map (·.2.length)).sum ∧
      groupPenalty mi g = some ((parts.map (·.1)).flatten ++ (parts.map (·.2)).flatten) := by
  simp only [groupPenaltyParts, hl] at h
  cases hm : g.datasets.mapM (unlinkedDataset mi g.solver) with
  | none => simp [hm] at h
  | some parts =>
    simp [hm] at h
    obtain ⟨hr, hp⟩ := h
    obtain ⟨h1, h2⟩ := mapM_some_spec _ _ _ hm
    refine ⟨parts, h1, h2, ?_, ?_, ?_, ?_⟩
    · rw [← hr]; simp [List.flatMap_def]
    · rw [← hp]; simp [List.flatMap_def]
    · rw [← hp]; simp [List.flatMap_def, List.length_flatten, List.map_map, Function.comp_def]
    · simp [groupPenalty, groupPenaltyParts, hl, hm, List.flatMap_def]

/-- the two datasets of `tolGroup`, unlinked, with one equal-area penalty over the whole axis: two penalty
    entries, one per dataset, after the 10 residual entries -/
example :
    let mi : ModelItems := { penalties := [⟨"s", [⟨.ninf, .pinf⟩], "u", [⟨.ninf, .pinf⟩], 1, 1⟩] }
    (groupPenaltyParts mi { tolGroup with linked := false }).map (fun rp => (rp.1.length, rp.2.length)) = some (10, 2) ∧
    (groupPenalty mi { tolGroup with linked := false }).map (·.length) = some 12 := by
  decide +kernel

end Glotaran.C08
