/-
C08 — interval-scoped constraints, relations, penalties and weights act on their interval.
Property theorems about the model functions the C08 driver executes: `Glotaran.C02.{Interval.contains,
applies, Constraint.appliesAt, axisSlice, areaSlice, getArea}` (lean/GlotaranModel/C02.lean) and
`Glotaran.C08.{doesIntervalItemApply, addModelWeight, effective}` (lean/GlotaranModel/C08.lean).
Helper lemmas and the specification vocabulary (`emin`, `emax`, `IsNearest`, `dist`, `Interval.within`)
live in GlotaranProofs/Lemmas/C08.lean.

Vocabulary.  Bounds are `EB` = ℚ ∪ {−∞, +∞} with the order `EB.le`.  An item with bounds (lo, hi)
acts on the closed interval [emin lo hi, emax lo hi].  `IsNearest axis b k`: axis point `k` is
nearest to the bound `b` (−∞: the first point, +∞: the last point, finite: minimal |axis_k − b|).
Axes are lists of rationals; "strictly increasing" is `List.Pairwise (· < ·)`.
-/
import GlotaranProofs.Lemmas.C08
namespace Glotaran.C08
open Glotaran.LinAlg Glotaran.C02

/-! ### membership: closed, order-insensitive, list = union, `only` = complement, no interval = everywhere -/

/-- **`applies` on one interval is membership in the closed interval [min(lo,hi), max(lo,hi)]**,
    infinite bounds included. -/
theorem applies_iff (lo hi : EB) (x : Rat) :
    Interval.contains ⟨lo, hi⟩ x = true ↔
      (emin lo hi).le (.fin x) = true ∧ EB.le (.fin x) (emax lo hi) = true := by
  rw [contains_eq]; simp

example : Interval.contains ⟨.fin 3, .fin 1⟩ 1 = true ∧ Interval.contains ⟨.fin 3, .fin 1⟩ 3 = true ∧
    Interval.contains ⟨.fin 3, .fin 1⟩ (7/2) = false ∧ Interval.contains ⟨.pinf, .fin 2⟩ 1000 = true ∧
    Interval.contains ⟨.fin 2, .fin 2⟩ 2 = true := by decide +kernel

/-- **a list of intervals is their union** -/
theorem applies_list (l : List Interval) (x : Rat) :
    applies (some l) x = true ↔ ∃ iv ∈ l, iv.contains x = true := by
  simp [applies, List.any_eq_true]

example : applies (some [⟨.fin 0, .fin 1⟩, ⟨.fin 5, .pinf⟩]) 7 = true ∧
    applies (some [⟨.fin 0, .fin 1⟩, ⟨.fin 5, .pinf⟩]) 3 = false := by decide +kernel

/-- **items without interval act everywhere** (zero constraints and relations; an `only` constraint
    without interval therefore acts nowhere) -/
theorem no_interval_everywhere (t : String) (x : Rat) :
    applies none x = true ∧ Constraint.appliesAt ⟨false, t, none⟩ x = true ∧
      Constraint.appliesAt ⟨true, t, none⟩ x = false := by
  simp [applies, Constraint.appliesAt]

/-- **`only` is exactly the complement of `zero`** -/
theorem only_is_complement (t : String) (iv : Option (List Interval)) (x : Rat) :
    Constraint.appliesAt ⟨true, t, iv⟩ x = !(Constraint.appliesAt ⟨false, t, iv⟩ x) := by
  simp [Constraint.appliesAt]

/-- **enlarging an interval never shrinks the set of indices it contains** -/
theorem applies_mono (i j : Interval) (x : Rat) (hw : i.within j) (h : i.contains x = true) :
    j.contains x = true := by
  obtain ⟨ilo, ihi⟩ := i
  obtain ⟨jlo, jhi⟩ := j
  obtain ⟨h1, h2⟩ := hw
  rw [applies_iff] at h ⊢
  exact ⟨EB.le_trans h1 h.1, EB.le_trans h.2 h2⟩

example : Interval.within ⟨.fin 2, .fin 1⟩ ⟨.ninf, .fin 2⟩ ∧ Interval.contains ⟨.fin 2, .fin 1⟩ (3/2) = true := by
  refine ⟨⟨by decide +kernel, by decide +kernel⟩, by decide +kernel⟩

/-- the same for lists of intervals: if every interval of `l` lies within some interval of `l'`,
    everything `l` applies to, `l'` applies to -/
theorem applies_list_mono (l l' : List Interval) (x : Rat)
    (hw : ∀ i ∈ l, ∃ j ∈ l', i.within j) (h : applies (some l) x = true) : applies (some l') x = true := by
  rw [applies_list] at h ⊢
  obtain ⟨i, hi, hc⟩ := h
  obtain ⟨j, hj, hij⟩ := hw i hi
  exact ⟨j, hj, applies_mono i j x hij hc⟩

/-- and, `only` being the complement, enlarging the interval of an `only` constraint never enlarges
    the set it zeroes -/
theorem only_antitone (t : String) (l l' : List Interval) (x : Rat)
    (hw : ∀ i ∈ l, ∃ j ∈ l', i.within j)
    (h : Constraint.appliesAt ⟨true, t, some l'⟩ x = true) : Constraint.appliesAt ⟨true, t, some l⟩ x = true := by
  simp only [Constraint.appliesAt, if_true, Bool.not_eq_true'] at h ⊢
  cases hl : applies (some l) x with
  | false => rfl
  | true => rw [applies_list_mono l l' x hw hl] at h; cases h

example : Constraint.appliesAt ⟨true, "s1", some [⟨.fin 1, .fin 3⟩]⟩ 5 = true := by decide +kernel

/-- **`does_interval_item_apply` at an index is the item's membership test, without warning**
    (the warning branch needs a matrix without index, which the providers never produce) -/
theorem does_interval_item_apply_at_index (only : Bool) (t : String) (ivs : Option (List Interval)) (x : Rat) :
    doesIntervalItemApply only ivs (some x) = (Constraint.appliesAt ⟨only, t, ivs⟩ x, false) := by
  cases only <;> simp [doesIntervalItemApply, itemApplies, appliesOpt, Constraint.appliesAt]

example : doesIntervalItemApply true (some [⟨.fin 1, .fin 3⟩]) (some 5) = (true, false) ∧
    doesIntervalItemApply false (some [⟨.fin 1, .fin 3⟩]) none = (true, true) := by decide +kernel

/-! ### index slices (`get_axis_slice_from_interval`) -/

/-- **the slice does not depend on the order of the bounds** -/
theorem slice_reversed (lo hi : EB) (axis : List Rat) : axisSlice lo hi axis = axisSlice hi lo axis := by
  rw [axisSlice_eq, axisSlice_eq, emin_comm, emax_comm]

/-- **an infinite bound reaches the end of the axis**: a lower bound −∞ starts the slice at the first
    point, an upper bound +∞ ends it after the last one -/
theorem slice_infinite_reaches_ends (b : EB) (axis : List Rat) (hne : axis ≠ []) :
    (axisSlice .ninf b axis).1 = 0 ∧ (axisSlice b .pinf axis).2 = axis.length ∧
      axisSlice .ninf .pinf axis = (0, axis.length) := by
  have hpos : 0 < axis.length := List.length_pos_iff.mpr hne
  have e1 : emin .ninf b = .ninf := by simp [emin, EB.le]
  have e2 : emax b .pinf = .pinf := by cases b <;> simp [emax, EB.le]
  have e3 : emin .ninf .pinf = .ninf := by simp [emin, EB.le]
  have e4 : emax .ninf .pinf = .pinf := by simp [emax, EB.le]
  refine ⟨?_, ?_, ?_⟩
  · rw [axisSlice_eq, e1]; rfl
  · rw [axisSlice_eq, e2]; simp only [nearestIdx]; omega
  · rw [axisSlice_eq, e3, e4]; simp only [nearestIdx, Prod.mk.injEq, true_and]; omega

/-- regression (D1): `(1, +∞)` on `[0,1,2,3,4]` is `slice(1, 5)`, not `slice(1, 4)` -/
example : axisSlice (.fin 1) .pinf [0, 1, 2, 3, 4] = (1, 5) := by decide +kernel
/-- regression (D22): both bounds at the same infinity select the nearest end, not the whole axis -/
example : axisSlice .pinf .pinf [0, 1, 2] = (2, 3) ∧ axisSlice .ninf .ninf [0, 1, 2] = (0, 1) := by decide +kernel

/-- **every axis point inside the closed interval is in the slice** (strictly increasing axis, any
    bounds: finite, infinite, reversed, degenerate, outside the axis) -/
theorem slice_covers_inside (lo hi : EB) (axis : List Rat) (hs : axis.Pairwise (· < ·)) (k : Nat)
    (hk : k < axis.length) (hin : Interval.contains ⟨lo, hi⟩ (axis.getD k 0) = true) :
    (axisSlice lo hi axis).1 ≤ k ∧ k < (axisSlice lo hi axis).2 := by
  rw [applies_iff] at hin
  rw [axisSlice_eq]
  exact ⟨nearestIdx_le_of_ge hs hk hin.1, Nat.lt_succ_of_le (le_nearestIdx_of_le hs hk hin.2)⟩

example : List.Pairwise (· < ·) [(0 : Rat), 1, 2, 3, 4] ∧
    Interval.contains ⟨.pinf, .fin (3/2)⟩ (([0, 1, 2, 3, 4] : List Rat).getD 4 0) = true ∧
    axisSlice .pinf (.fin (3/2)) [0, 1, 2, 3, 4] = (1, 5) := by
  refine ⟨by decide +kernel, by decide +kernel, by decide +kernel⟩

/-- **the slice lies between the nearest points of its bounds**: it starts at a point nearest to
    the lower bound and ends no later than any point nearest to the upper bound -/
theorem slice_within_nearest (lo hi : EB) (axis : List Rat) (hne : axis ≠ []) (k : Nat)
    (hk1 : (axisSlice lo hi axis).1 ≤ k) (hk2 : k < (axisSlice lo hi axis).2) :
    (∃ j, IsNearest axis (emin lo hi) j ∧ j ≤ k) ∧ (∀ j, IsNearest axis (emax lo hi) j → k ≤ j) := by
  rw [axisSlice_eq] at hk1 hk2
  refine ⟨⟨_, nearestIdx_isNearest hne _, hk1⟩, fun j hj => ?_⟩
  exact Nat.le_trans (Nat.lt_succ_iff.mp hk2) (nearestIdx_le_of_isNearest hne _ j hj)

/-- **no point beyond the axis point nearest to a bound is affected**: a point of the slice that
    lies below the lower bound is itself a nearest point of the lower bound, one that lies above the
    upper bound is itself a nearest point of the upper bound (so at most the nearest point sticks
    out on either side) -/
theorem slice_outside_is_nearest (lo hi : EB) (axis : List Rat) (hs : axis.Pairwise (· < ·)) (k : Nat)
    (hk : k < axis.length) (hk1 : (axisSlice lo hi axis).1 ≤ k) (hk2 : k < (axisSlice lo hi axis).2) :
    ((emin lo hi).le (.fin (axis.getD k 0)) = false → IsNearest axis (emin lo hi) k) ∧
    (EB.le (.fin (axis.getD k 0)) (emax lo hi) = false → IsNearest axis (emax lo hi) k) := by
  rw [axisSlice_eq] at hk1 hk2
  exact ⟨below_isNearest hs hk hk1, above_isNearest hs hk (Nat.lt_succ_iff.mp hk2)⟩

/-- non-vacuity: `(1.4, 2.6)` on `[0,1,2,3,4]` selects 1..3; points 1 and 3 are outside and nearest -/
example : axisSlice (.fin (7/5)) (.fin (13/5)) [0, 1, 2, 3, 4] = (1, 4) ∧
    (emin (.fin (7/5)) (.fin (13/5))).le (.fin (([0, 1, 2, 3, 4] : List Rat).getD 1 0)) = false := by
  refine ⟨by decide +kernel, by decide +kernel⟩

/-- **enlarging an interval never shrinks the slice** -/
theorem slice_mono (i j : Interval) (axis : List Rat) (hs : axis.Pairwise (· < ·)) (hw : i.within j) :
    (axisSlice j.lo j.hi axis).1 ≤ (axisSlice i.lo i.hi axis).1 ∧
    (axisSlice i.lo i.hi axis).2 ≤ (axisSlice j.lo j.hi axis).2 := by
  rw [axisSlice_eq, axisSlice_eq]
  exact ⟨nearestIdx_mono hs hw.1, Nat.succ_le_succ (nearestIdx_mono hs hw.2)⟩

example : Interval.within ⟨.fin 3, .fin 1⟩ ⟨.fin (1/2), .pinf⟩ ∧
    axisSlice (.fin 3) (.fin 1) [0, 1, 2, 3, 4] = (1, 4) ∧ axisSlice (.fin (1/2)) .pinf [0, 1, 2, 3, 4] = (0, 5) := by
  refine ⟨⟨by decide +kernel, by decide +kernel⟩, by decide +kernel, by decide +kernel⟩

/-! ### areas of equal-area penalties (`_get_area`) -/

/-- **the area slice does not depend on the order of the bounds** (false before fix D23) -/
theorem area_reversed (lo hi : EB) (axis : List Rat) : areaSlice ⟨lo, hi⟩ axis = areaSlice ⟨hi, lo⟩ axis := by
  rw [areaSlice_eq, areaSlice_eq]
  simp only [emin_comm hi lo, emax_comm hi lo]

/-- regression (D23): `(10, 2)` on `[0,1,2,3,4]` collects the indices 2..4 like `(2, 10)`;
    an interval wholly above the axis is skipped -/
example : areaSlice ⟨.fin 10, .fin 2⟩ [0, 1, 2, 3, 4] = some (2, 5) ∧
    areaSlice ⟨.pinf, .fin 2⟩ [0, 1, 2, 3, 4] = some (2, 5) ∧
    areaSlice ⟨.fin 5, .fin 10⟩ [0, 1, 2, 3, 4] = none := by
  refine ⟨by decide +kernel, by decide +kernel, by decide +kernel⟩

/-- **the clamping of the bounds to the axis range in `_get_area` changes nothing**: unless the
    interval lies wholly above the axis (then it is skipped) the area slice *is* the nearest-point
    slice of the interval — so everything proved for slices holds for areas -/
theorem area_slice_eq_axis_slice (iv : Interval) (axis : List Rat) (hs : axis.Pairwise (· < ·))
    (hne : axis ≠ []) :
    areaSlice iv axis =
      if (emin iv.lo iv.hi).le (.fin (axis.getLastD 0)) then some (axisSlice iv.lo iv.hi axis) else none := by
  rw [areaSlice_eq, clamped_slice_eq hs hne]

/-- **every axis point inside the closed interval is summed** (if it carries the clp, see
    `area_indices_spec`) -/
theorem area_slice_covers_inside (iv : Interval) (axis : List Rat) (hs : axis.Pairwise (· < ·)) (k : Nat)
    (hk : k < axis.length) (hin : iv.contains (axis.getD k 0) = true) :
    ∃ s e, areaSlice iv axis = some (s, e) ∧ s ≤ k ∧ k < e := by
  have hne : axis ≠ [] := by intro e; subst e; simp at hk
  obtain ⟨lo, hi⟩ := iv
  have hin' := (applies_iff lo hi _).mp hin
  have hlast : axis.getD k 0 ≤ axis.getLastD 0 := by
    rw [getLastD_eq_getD]; exact sorted_getD_le hs (by omega) (by omega)
  have hguard : (emin lo hi).le (.fin (axis.getLastD 0)) = true :=
    EB.le_trans hin'.1 ((EB.fin_le_fin _ _).mpr hlast)
  rw [area_slice_eq_axis_slice _ _ hs hne]
  simp only [hguard, if_true]
  exact ⟨_, _, rfl, slice_covers_inside lo hi axis hs k hk hin⟩

example : Interval.contains ⟨.pinf, .fin 2⟩ (([0, 1, 2, 3, 4] : List Rat).getD 4 0) = true := by decide +kernel

/-- **which values an area collects**: exactly the clp values of the label at the indices of the
    area slices of the intervals, where the label is present -/
theorem area_indices_spec (label : String) (labels : List (List String)) (clps : List Vec)
    (ivs : List Interval) (axis : List Rat) (v : Rat) :
    v ∈ getArea label labels clps ivs axis ↔
      ∃ iv ∈ ivs, ∃ s e, areaSlice iv axis = some (s, e) ∧ ∃ i, s ≤ i ∧ i < e ∧
        ∃ j, (labels.getD i []).idxOf? label = some j ∧ v = (clps.getD i []).getD j 0 :=
  mem_getArea label labels clps ivs axis v

example : getArea "a" [["a"], ["b"], ["b", "a"], ["a"]] [[10], [20], [30, 31], [40]]
    [⟨.fin 3, .fin (3/4)⟩] [0, 1, 2, 3] = [31, 40] := by decide +kernel

/-- **no summed point lies beyond the axis point nearest to a bound**, and
    **enlarging an interval never shrinks the area slice** -/
theorem area_slice_outside_is_nearest (iv : Interval) (axis : List Rat) (hs : axis.Pairwise (· < ·))
    (s e k : Nat) (ha : areaSlice iv axis = some (s, e)) (hk : k < axis.length) (h1 : s ≤ k) (h2 : k < e) :
    ((emin iv.lo iv.hi).le (.fin (axis.getD k 0)) = false → IsNearest axis (emin iv.lo iv.hi) k) ∧
    (EB.le (.fin (axis.getD k 0)) (emax iv.lo iv.hi) = false → IsNearest axis (emax iv.lo iv.hi) k) := by
  have hne : axis ≠ [] := by intro e; subst e; simp at hk
  rw [area_slice_eq_axis_slice _ _ hs hne] at ha
  split at ha
  · simp only [Option.some.injEq] at ha
    exact slice_outside_is_nearest iv.lo iv.hi axis hs k hk (by rw [ha]; exact h1) (by rw [ha]; exact h2)
  · cases ha

theorem area_slice_mono (i j : Interval) (axis : List Rat) (hs : axis.Pairwise (· < ·)) (hne : axis ≠ [])
    (hw : i.within j) (s e : Nat) (ha : areaSlice i axis = some (s, e)) :
    ∃ s' e', areaSlice j axis = some (s', e') ∧ s' ≤ s ∧ e ≤ e' := by
  rw [area_slice_eq_axis_slice _ _ hs hne] at ha ⊢
  split at ha
  · rename_i hg
    simp only [Option.some.injEq] at ha
    have hg' : (emin j.lo j.hi).le (.fin (axis.getLastD 0)) = true := EB.le_trans hw.1 hg
    simp only [hg', if_true]
    have := slice_mono i j axis hs hw
    rw [ha] at this
    exact ⟨_, _, rfl, this.1, this.2⟩
  · cases ha

example : Interval.within ⟨.fin 3, .fin 1⟩ ⟨.fin (1/2), .pinf⟩ ∧
    areaSlice ⟨.fin 3, .fin 1⟩ [0, 1, 2, 3, 4] = some (1, 4) := by
  refine ⟨⟨by decide +kernel, by decide +kernel⟩, by decide +kernel⟩

/-! ### model weights (`add_model_weight`) -/

/-- **a model weight is selected by the dataset's label**: the items applied are exactly those
    whose `datasets` list contains the label, in model order -/
theorem weight_selection_by_label (ws : List WeightItem) (label : String) (it : WeightItem) :
    it ∈ matching ws label ↔ it ∈ ws ∧ label ∈ it.datasets := by
  simp [matching, List.mem_filter]

/-- **when both the dataset and the model supply weights, the dataset's weight is used and a
    warning is issued** (before fix D10 the code raised `ValueError` here) -/
theorem dataset_weight_wins_and_warns (ws : List WeightItem) (label : String) (w : Mat)
    (ma ga : List Rat) (h : ∃ it ∈ ws, label ∈ it.datasets) :
    addModelWeight ws label (some w) ma ga = ⟨some w, true⟩ := by
  obtain ⟨it, hit, hl⟩ := h
  have hm : it ∈ matching ws label := (weight_selection_by_label ws label it).mpr ⟨hit, hl⟩
  have hne : (matching ws label).isEmpty = false := by
    cases hmw : matching ws label with
    | nil => rw [hmw] at hm; cases hm
    | cons _ _ => rfl
  simp [addModelWeight, hne]

example : addModelWeight [⟨["d1"], some (.fin 2, .pinf), none, 3⟩] "d1" (some [[1, 1], [2, 2]]) [0, 1] [1, 2] =
    ⟨some [[1, 1], [2, 2]], true⟩ := by decide +kernel

/-- **without a model weight naming the dataset nothing happens**: the dataset's weight (or none)
    stays, no warning -/
theorem no_matching_weight_unchanged (ws : List WeightItem) (label : String) (dw : Option Mat)
    (ma ga : List Rat) (h : ∀ it ∈ ws, label ∉ it.datasets) :
    addModelWeight ws label dw ma ga = ⟨dw, false⟩ := by
  have hm : matching ws label = [] := by
    apply List.eq_nil_iff_forall_not_mem.mpr
    intro it hit
    exact h it ((weight_selection_by_label ws label it).mp hit).1 ((weight_selection_by_label ws label it).mp hit).2
  simp [addModelWeight, hm]

example : addModelWeight [⟨["d10"], none, none, 3⟩] "d1" none [0, 1] [1, 2] = ⟨none, false⟩ := by decide +kernel

/-- **the warning is issued only in the dataset-plus-model case** -/
theorem model_weight_no_warning (ws : List WeightItem) (label : String) (ma ga : List Rat) :
    (addModelWeight ws label none ma ga).warned = false := by
  unfold addModelWeight
  simp only
  split <;> rfl

/-- **which entries are multiplied**: without dataset weight, entry (m, g) of the resulting weight
    is the product of the values of the matching items whose index blocks contain (m, g) — blocks
    multiply where they overlap, everything else stays 1 -/
theorem weight_block_spec (ws : List WeightItem) (label : String) (ma ga : List Rat) (m g : Nat)
    (hm : m < ma.length) (hg : g < ga.length) (h : ∃ it ∈ ws, label ∈ it.datasets) :
    ∃ w, addModelWeight ws label none ma ga = ⟨some w, false⟩ ∧
      entry w m g =
        ((matching ws label).filter (fun it => it.covers ma ga m g)).foldl (fun acc it => acc * it.value) 1 := by
  obtain ⟨it, hit, hl⟩ := h
  have hmem : it ∈ matching ws label := (weight_selection_by_label ws label it).mpr ⟨hit, hl⟩
  have hne : (matching ws label).isEmpty = false := by
    cases hmw : matching ws label with
    | nil => rw [hmw] at hmem; cases hmem
    | cons _ _ => rfl
  refine ⟨(matching ws label).foldl (applyWeight ma ga) (ones ma.length ga.length),
    by simp [addModelWeight, hne], ?_⟩
  rw [entry_foldl_applyWeight, entry_ones _ _ _ _ hm hg]

example : addModelWeight [⟨["d1"], some (.fin 2, .pinf), none, 3⟩, ⟨["d1", "d2"], none, some (.fin 1, .fin 1), 2⟩]
    "d1" none [0, 1, 2] [1, 2, 3, 4] = ⟨some [[1, 3, 3, 3], [2, 6, 6, 6], [1, 3, 3, 3]], false⟩ := by decide +kernel

/-- **a weight item multiplies every point inside its intervals** (a missing interval is the
    whole axis) -/
theorem weight_covers_inside (it : WeightItem) (ma ga : List Rat) (hsm : ma.Pairwise (· < ·))
    (hsg : ga.Pairwise (· < ·)) (m g : Nat) (hm : m < ma.length) (hg : g < ga.length)
    (him : insideOpt it.modelInterval (ma.getD m 0)) (hig : insideOpt it.globalInterval (ga.getD g 0)) :
    it.covers ma ga m g = true := by
  simp only [WeightItem.covers, Bool.and_eq_true]
  exact ⟨inSlice_of_inside hsm _ m hm him, inSlice_of_inside hsg _ g hg hig⟩

/-- **and no point beyond the axis point nearest to a bound** (stated for the global interval; the
    model interval is handled by the same function `sliceOf`/`axisSlice`) -/
theorem weight_outside_is_nearest (it : WeightItem) (ma ga : List Rat) (hsg : ga.Pairwise (· < ·))
    (lo hi : EB) (hiv : it.globalInterval = some (lo, hi)) (m g : Nat) (hg : g < ga.length)
    (hc : it.covers ma ga m g = true) :
    ((emin lo hi).le (.fin (ga.getD g 0)) = false → IsNearest ga (emin lo hi) g) ∧
    (EB.le (.fin (ga.getD g 0)) (emax lo hi) = false → IsNearest ga (emax lo hi) g) := by
  simp only [WeightItem.covers, Bool.and_eq_true, hiv, sliceOf, inSlice, decide_eq_true_eq] at hc
  exact slice_outside_is_nearest lo hi ga hsg g hg hc.2.1 hc.2.2

example : (⟨["d"], some (.fin (7/5), .fin (13/5)), none, 2⟩ : WeightItem).covers [0] [0, 1, 2, 3, 4] 0 1 = true ∧
    (⟨["d"], some (.fin (7/5), .fin (13/5)), none, 2⟩ : WeightItem).covers [0] [0, 1, 2, 3, 4] 0 0 = false := by
  refine ⟨by decide +kernel, by decide +kernel⟩

/-- **the scheme the providers work with differs from the given one only in the weights, and each
    dataset's weight is `add_model_weight`'s** (this is what ties the clp zeros / ratios, `weight`,
    `additional_penalty` and `number_of_clps` of the end-to-end model to the functions above) -/
theorem effective_weight_spec (ws : List WeightItem) (axes : List (String × List Rat)) (d d' : Dataset)
    (warned : Bool) (ma : List Rat) (hax : lookupAxis axes d.label = some ma)
    (h : effectiveDataset ws axes d = some (d', warned)) :
    d'.weight = (addModelWeight ws d.label d.weight ma d.globalAxis).weight ∧
    warned = (addModelWeight ws d.label d.weight ma d.globalAxis).warned ∧
    d'.label = d.label ∧ d'.globalAxis = d.globalAxis ∧ d'.data = d.data ∧ d'.scale = d.scale ∧
    d'.mcs = d.mcs ∧ d'.gmcs = d.gmcs := by
  simp only [effectiveDataset, hax, Option.some.injEq, Prod.mk.injEq] at h
  obtain ⟨rfl, rfl⟩ := h
  simp

/-! ### what the intervals do to the conditionally linear parameters, index by index -/

/-- **a zero constraint removes its clp from the problem exactly at the indices inside its closed
    interval** (so the clp is reported as 0 there and is free everywhere else) -/
theorem zero_constraint_acts_on_interval (t : String) (lo hi : EB) (x : Rat) (lm : LMat2) (l : String) :
    l ∈ (applyConstraintsAt [⟨false, t, some [⟨lo, hi⟩]⟩] x lm).labels ↔
      l ∈ lm.labels ∧ ¬ (l = t ∧ (emin lo hi).le (.fin x) = true ∧ EB.le (.fin x) (emax lo hi) = true) := by
  rw [constraints_labels]
  simp only [List.mem_filter, List.any_cons, List.any_nil, Bool.or_false, Constraint.appliesAt, applies,
    contains_eq, Bool.not_eq_true', Bool.and_eq_false_iff, beq_eq_false_iff_ne, ne_eq, Bool.false_eq_true,
    if_false, not_and]
  constructor
  · rintro ⟨h1, h2⟩
    refine ⟨h1, fun e hlo hhi => ?_⟩
    rcases h2 with h2 | h2 | h2
    · exact h2 e.symm
    · rw [hlo] at h2; cases h2
    · rw [hhi] at h2; cases h2
  · rintro ⟨h1, h2⟩
    refine ⟨h1, ?_⟩
    by_cases e : t = l
    · cases hlo : (emin lo hi).le (.fin x) with
      | false => exact Or.inr (Or.inl rfl)
      | true =>
        cases hhi : EB.le (.fin x) (emax lo hi) with
        | false => exact Or.inr (Or.inr rfl)
        | true => exact absurd hhi (by simpa using h2 e.symm hlo)
    · exact Or.inl e

/-- **an `only` constraint removes its clp exactly at the indices outside its closed interval** -/
theorem only_constraint_acts_outside_interval (t : String) (lo hi : EB) (x : Rat) (lm : LMat2) (l : String) :
    l ∈ (applyConstraintsAt [⟨true, t, some [⟨lo, hi⟩]⟩] x lm).labels ↔
      l ∈ lm.labels ∧ ¬ (l = t ∧ ¬ ((emin lo hi).le (.fin x) = true ∧ EB.le (.fin x) (emax lo hi) = true)) := by
  rw [constraints_labels]
  simp only [List.mem_filter, List.any_cons, List.any_nil, Bool.or_false, Constraint.appliesAt, applies,
    contains_eq, if_true]
  generalize (emin lo hi).le (.fin x) = a
  generalize EB.le (.fin x) (emax lo hi) = b
  by_cases e : l = t
  · subst e; cases a <;> cases b <;> simp
  · have e' : (t == l) = false := by simpa using fun h => e h.symm
    simp [e, e']

example : (applyConstraintsAt [⟨false, "s2", some [⟨.fin 3, .fin 1⟩]⟩] 2 ⟨["s1", "s2"], [[1, 2], [3, 4]]⟩).labels = ["s1"] ∧
    (applyConstraintsAt [⟨false, "s2", some [⟨.fin 3, .fin 1⟩]⟩] 4 ⟨["s1", "s2"], [[1, 2], [3, 4]]⟩).labels = ["s1", "s2"] ∧
    (applyConstraintsAt [⟨true, "s2", some [⟨.fin 3, .fin 1⟩]⟩] 4 ⟨["s1", "s2"], [[1, 2], [3, 4]]⟩).labels = ["s1"] := by
  decide +kernel

/-- **a relation fixes the ratio exactly at the indices inside its closed interval**: there the
    reported target clp is `parameter ·` the reported source clp -/
theorem relation_ratio_inside (src tgt : String) (p : Rat) (lo hi : EB) (x : Rat)
    (full reduced : List String) (c : Vec) (hst : src ≠ tgt) (hs : src ∈ full) (ht : tgt ∈ full)
    (hin : Interval.contains ⟨lo, hi⟩ x = true) :
    (retrieveClps { relations := [⟨src, tgt, p, some [⟨lo, hi⟩]⟩] } full reduced c x).getD (full.idxOf tgt) 0 =
      p * (retrieveClps { relations := [⟨src, tgt, p, some [⟨lo, hi⟩]⟩] } full reduced c x).getD (full.idxOf src) 0 := by
  have happ : appliesRel full x ⟨src, tgt, p, some [⟨lo, hi⟩]⟩ = true := by
    simp [appliesRel, applies, hin, hs, ht]
  have hnc : NoChain [⟨src, tgt, p, some [⟨lo, hi⟩]⟩] full x := by
    refine ⟨?_, ?_⟩
    · simp [happ]
    · intro r hr r' hr' _ _
      simp only [List.mem_singleton] at hr hr'
      subst hr; subst hr'
      exact hst
  exact retrieve_related_aux { relations := [⟨src, tgt, p, some [⟨lo, hi⟩]⟩] } full reduced c x hnc _
    (by simp) happ

/-- **and has no effect at the indices outside**: there the reported clps are the estimated ones -/
theorem relation_no_effect_outside (src tgt : String) (p : Rat) (lo hi : EB) (x : Rat)
    (full reduced : List String) (c : Vec) (hout : Interval.contains ⟨lo, hi⟩ x = false) :
    retrieveClps { relations := [⟨src, tgt, p, some [⟨lo, hi⟩]⟩] } full reduced c x =
      full.map (fun l => match reduced.idxOf? l with | some i => c.getD i 0 | none => 0) := by
  simp [retrieveClps, applies, hout]
  exact fun _ _ => rfl

example : retrieveClps { relations := [⟨"s1", "s2", 3, some [⟨.fin 3, .fin 1⟩]⟩] } ["s1", "s2"] ["s1"] [5] 2 = [5, 15] ∧
    retrieveClps { relations := [⟨"s1", "s2", 3, some [⟨.fin 3, .fin 1⟩]⟩] } ["s1", "s2"] ["s1", "s2"] [5, 7] 4 = [5, 7] := by
  decide +kernel

end Glotaran.C08
