/-
C16 — parameter files round-trip in every supported format; a specification gives the
parameters of the programmatic construction.  Property theorems only (vocabulary and helper
lemmas: GlotaranProofs/Lemmas/C16.lean; expression semantics: the C12 theorems).

File half.  `roundtrip parse F fmt flag ps` is `save_parameters` followed by `load_parameters`
of the csv/tsv (`fmt = .csv`) or xlsx/ods (`fmt = .excel`) plugin with
`replace_infinfinity = flag`, on typed tables; the reader is the transport `readFrame`
(strings that are NA tokens and `None` come back as NaN, everything else as written — validated
against pandas by sampling only).  The theorems hold for every list of parameters of any
length, every float (NaN values and standard errors, ±∞ bounds, the full rational range), every
flag combination, every expression text, both formats and both settings of the flag, every
expression parser `parse` and interpretation `F` of function symbols.
-/
import GlotaranProofs.Lemmas.C16
import GlotaranProofs.Lemmas.C16Fns
namespace Glotaran.C16

/-! ### the regenerated tables -/

/-- **Option names (de)serialise bijectively** on the regenerated `OPTION_NAMES_SERIALIZED`:
    attribute names and serialized names are each distinct, the deserialisation table is the
    inverse table, every renamed attribute is an attribute of `Parameter`, no serialized name
    is itself an attribute name (so deserialising never merges two options), and
    deserialising after serialising is the identity on all attribute names. -/
theorem options_bijective :
    (Generated.optionNamesSerialized.map (·.1)).Nodup ∧
    (Generated.optionNamesSerialized.map (·.2)).Nodup ∧
    Generated.optionNamesDeserialized = Generated.optionNamesSerialized.map (fun e => (e.2, e.1)) ∧
    (∀ e ∈ Generated.optionNamesSerialized, e.1 ∈ Generated.paramFields ∧ e.2 ∉ Generated.paramFields) ∧
    (∀ k ∈ Generated.paramFields,
      deserializeName ((lookup Generated.optionNamesSerialized k).getD k) = k) := by
  decide

example : deserializeName "non-negative" = "non_negative" ∧ deserializeName "vary" = "vary" := by decide

/-- The columns of `to_dataframe` are exactly the regenerated keys of `as_dict`, in order. -/
theorem record_keys_generated (p : Param) : (toRecord p).map (·.1) = Generated.paramFields := rfl

/-- The attribute defaults of the model are the regenerated defaults of `Parameter`. -/
theorem defaults_generated (l : String) :
    (toRecord { label := l }).drop 1 = Generated.paramDefaults := rfl

/-- Every column in which `save_parameters` writes text (a `str` cell) is one the readers force
    to text (`is_text_column`), so no written label or expression is subject to pandas' type
    inference (D12). -/
theorem text_columns_generated (p : Param) :
    ∀ e ∈ toRecord p, (∃ s, e.2 = .str s) → e.1 ∈ Generated.textColumns := by
  intro e he hs
  simp only [toRecord, List.mem_cons, List.mem_nil_iff, or_false] at he
  obtain ⟨s, hs⟩ := hs
  rcases he with rfl | rfl | rfl | rfl | rfl | rfl | rfl | rfl <;> first | (simp at hs; done) | simp [Generated.textColumns]

example : ∃ e ∈ toRecord { label := "1.10", expr := some "1" }, e.2 = .str "1" ∧ e.1 ∈ Generated.textColumns :=
  ⟨("expression", .str "1"), by simp [toRecord, cellOfOptStr], rfl, by decide⟩

/-! ### save → load -/

/-- **`Parameter(**p.as_dict())` is `p`** for every parameter with a valid label whose `vary`
    is off when it has an expression (the invariant `Parameter.__init__` establishes). -/
theorem as_dict_roundtrip (p : Param) (hl : validLabel p.label = true)
    (hv : hasExpression p.expr = true → p.vary = false) : mkParam (toRecord p) = .ok p :=
  mkParam_toRecord p hl hv

/-- **Saving and loading is re-creating.**  For parameters that are `Storable` — valid label
    that is not an NA token of the reader, expression text that is not an NA token, bounds
    that are not NaN, `vary` off when there is an expression — `load_parameters(save_parameters(ps))`
    is exactly `Parameters({p.label: p for p in ps})`: every row comes back as the parameter it
    was written from (label, value, standard error incl. NaN, expression, infinite bounds, both
    flags), in the same order, and then `Parameters.__init__` runs (dict insertion and
    re-evaluation of the expressions).
    Full statement (false for the code, see `save_load_counterexample`): the same without
    `label_not_na` / `expr_not_na`. -/
theorem save_load_is_construct_partial (parse : ParseTab) (F : C12.Funs) (fmt : Format) (flag : Bool)
    (ps : List Param) (h : ∀ p ∈ ps, Storable fmt p) :
    roundtrip parse F fmt flag ps = construct parse F ps := by
  unfold roundtrip loadFrame fromDataFrame
  rw [prepared_frame fmt _ ps h, frameParams_loaded fmt ps h]
  rfl

/-- **Round trip.**  A storable parameter set with distinct labels whose expressions are
    settled (re-evaluating changes nothing — the state of every `Parameters` object after
    construction or update) comes back identical: same labels in the same order, values,
    standard errors, bounds, flags, expressions. -/
theorem save_load_roundtrip_partial (parse : ParseTab) (F : C12.Funs) (fmt : Format) (flag : Bool)
    (ps : List Param) (h : ∀ p ∈ ps, Storable fmt p) (hnd : (labels ps).Nodup)
    (hfix : evalExpressions parse F ps = .ok ps) :
    roundtrip parse F fmt flag ps = .ok ps := by
  rw [save_load_is_construct_partial parse F fmt flag ps h]
  unfold construct
  rw [ofList_of_nodup ps hnd, hfix]

/-- … in particular every set without expressions (no hypothesis on the values at all). -/
theorem save_load_roundtrip_plain_partial (parse : ParseTab) (F : C12.Funs) (fmt : Format) (flag : Bool)
    (ps : List Param) (h : ∀ p ∈ ps, Storable fmt p) (hnd : (labels ps).Nodup)
    (hne : ∀ p ∈ ps, p.expr = none) :
    roundtrip parse F fmt flag ps = .ok ps := by
  apply save_load_roundtrip_partial parse F fmt flag ps h hnd
  apply evalExpressions_noexpr
  simp only [List.all_eq_true]
  intro p hp
  simp [hne p hp]

/-- **Every constructed parameter set round-trips.**  Whatever `Parameters.__init__` produced
    (from a list, a dict, a data frame, a file; acyclic expressions) is settled and has distinct
    labels, so — if its parameters are storable — saving and loading returns it unchanged. -/
theorem constructed_sets_roundtrip_partial (parse : ParseTab) (F : C12.Funs) (fmt : Format) (flag : Bool)
    (items ps : List Param) (hc : construct parse F items = .ok ps)
    (hac : ∀ cs, (ofList items).mapM (toC12 parse) = some cs → C12.Acyclic cs)
    (h : ∀ p ∈ ps, Storable fmt p) :
    roundtrip parse F fmt flag ps = .ok ps :=
  save_load_roundtrip_partial parse F fmt flag ps h (construct_settled hac hc).1 (construct_settled hac hc).2

/-- the witness of D12: numeric-looking labels, a NaN standard error, an empty (infinite) and a
    finite bound, a constant expression (regression example; decimal digits are outside the model) -/
def d12 : List Param :=
  [{ label := "1.10", value := .fin 3, maximum := .fin 5 },
   { label := "007", value := .fin 1, expr := some "1", vary := false, nonNeg := true, stderr := .fin 2 }]

example : ∀ p ∈ d12, Storable .csv p := by
  intro p hp
  simp only [d12, List.mem_cons, List.mem_nil_iff, or_false] at hp
  rcases hp with rfl | rfl <;> exact ⟨by decide, by decide, by decide, by decide, by decide, by decide⟩

set_option maxRecDepth 4000 in
example : roundtrip (fun _ => some (.lit 1)) C12.F0 .csv true d12 = .ok d12 := by decide +kernel
set_option maxRecDepth 4000 in
example : roundtrip (fun _ => some (.lit 1)) C12.F0 .excel false d12 = .ok d12 := by decide +kernel

set_option maxRecDepth 4000 in
/-- **Counter-example to the full statement** (known finding `na-token-label`): the valid label
    `NA` is an NA token of the reader; the saved table does not load. -/
theorem save_load_counterexample :
    roundtrip (fun _ => none) C12.F0 .csv true [{ label := "NA", value := .fin 1 }, { label := "b", value := .fin 2 }]
      = .error (.invalidLabel "nan") ∧ validLabel "NA" = true := by
  decide +kernel


/-! ### repeated cycles, infinite bounds, expressions -/

/-- `Storable` does not mention the value. -/
private theorem storable_writeBack {fmt : Format} {p : Param} (c : C12.Param) (h : Storable fmt p) :
    Storable fmt (writeBack p c) :=
  ⟨h.label_valid, h.label_not_na, h.expr_not_na, h.max_not_nan, h.min_not_nan, h.expr_fixed⟩

private theorem storable_of_shape {fmt : Format} {p q : Param}
    (e : ({ q with value := Flt.nan } : Param) = { p with value := Flt.nan }) (h : Storable fmt p) : Storable fmt q := by
  obtain ⟨l, v, se, ex, mx, mn, nn, vy⟩ := p
  obtain ⟨l', v', se', ex', mx', mn', nn', vy'⟩ := q
  simp only [Param.mk.injEq] at e
  obtain ⟨rfl, _, rfl, rfl, rfl, rfl, rfl, rfl⟩ := e
  exact ⟨h.label_valid, h.label_not_na, h.expr_not_na, h.max_not_nan, h.min_not_nan, h.expr_fixed⟩

/-- **Idempotence of save–load cycles.**  Whatever the first cycle returns is reproduced
    exactly by every further cycle (storable parameters, acyclic expression references; the
    first cycle may change values of expression parameters that were stale, and merges
    duplicate labels). -/
theorem save_load_idempotent_partial (parse : ParseTab) (F : C12.Funs) (fmt : Format) (flag flag' : Bool)
    (ps ps1 : List Param) (hs : ∀ p ∈ ps, Storable fmt p)
    (hac : ∀ cs, (ofList ps).mapM (toC12 parse) = some cs → C12.Acyclic cs)
    (h : roundtrip parse F fmt flag ps = .ok ps1) :
    roundtrip parse F fmt flag' ps1 = .ok ps1 := by
  rw [save_load_is_construct_partial parse F fmt flag ps hs] at h
  unfold construct at h
  have hshape := evalExpressions_shape h
  have hnd1 : (labels ps1).Nodup := by rw [shape_labels hshape]; exact ofList_nodup ps
  have hs1 : ∀ p ∈ ps1, Storable fmt p := by
    intro q hq
    obtain ⟨p, hp, e⟩ := shape_mem hshape hq
    exact storable_of_shape e (hs p (mem_ofList hp))
  exact save_load_roundtrip_partial parse F fmt flag' ps1 hs1 hnd1
    (evalExpressions_idem (ofList_nodup ps) hac h)

set_option maxRecDepth 4000 in
example : roundtrip (fun _ => some (.lit 1)) C12.F0 .csv true
    [{ label := "a", value := .fin 7, expr := some "1", vary := false }, { label := "a", value := .fin 2 }, { label := "b" }]
    = .ok [{ label := "a", value := .fin 2 }, { label := "b" }] := by decide +kernel

/-- **±∞ bounds are written as empty cells** when `replace_infinfinity` is on (always for
    xlsx/ods): no `-inf` is left in the minimum column, no `inf` in the maximum column, and a
    bound is an empty string cell exactly when it is the infinite default of its column;
    with the flag off the floats are written as they are. -/
theorem infinite_bounds_are_empty_cells (ps : List Param) :
    (saveFrame true ps).rows = ps.map (fun p =>
      [.str p.label, .flt p.value, .flt p.stderr, cellOfOptStr p.expr,
       if p.maximum = .pinf then .str "" else .flt p.maximum,
       if p.minimum = .ninf then .str "" else .flt p.minimum, .bool p.nonNeg, .bool p.vary]) ∧
    (saveFrame false ps).rows = ps.map (fun p => (toRecord p).map (·.2)) := by
  constructor
  · simp only [saveFrame, toFrame, if_true, mapCol_map]
    apply List.map_congr_left
    intro p _
    simp [toRecord, Generated.paramFields, replaceCell]
  · rfl

example : (saveFrame true [{ label := "a", maximum := .ninf, minimum := .pinf }, { label := "b" }]).rows =
    [[.str "a", .flt .nan, .flt .nan, .none, .flt .ninf, .flt .pinf, .bool false, .bool true],
     [.str "b", .flt .nan, .flt .nan, .none, .str "", .str "", .bool false, .bool true]] := by decide

/-- **Expressions are re-evaluated after loading.**  Whatever values the file held for
    expression parameters (stale, NaN, anything): if loading succeeds and at least one
    parameter has an expression, the loaded parameters embed into the C12 model and are
    `Consistent` there — every expression parameter holds the value of its expression on the
    loaded values (acyclic references). -/
theorem loaded_expressions_consistent (parse : ParseTab) (F : C12.Funs) (fr : Frame) (items ps : List Param)
    (hitems : frameParams (prepare fr) = .ok items)
    (hac : ∀ cs, (ofList items).mapM (toC12 parse) = some cs → C12.Acyclic cs)
    (hne : (ofList items).all (fun p => p.expr.isNone) = false)
    (h : loadFrame parse F fr = .ok ps) :
    ∃ cs, ps.mapM (toC12 parse) = some cs ∧ C12.Consistent F cs := by
  unfold loadFrame fromDataFrame at h
  simp only [hitems, bind, Except.bind] at h
  exact evalExpressions_consistent (ofList_nodup items) hac h hne

/-- … and so does every constructed set (`from_list`, `from_dict`, `from_dataframe`, the loaders). -/
theorem constructed_expressions_consistent (parse : ParseTab) (F : C12.Funs) (items ps : List Param)
    (hac : ∀ cs, (ofList items).mapM (toC12 parse) = some cs → C12.Acyclic cs)
    (hne : (ofList items).all (fun p => p.expr.isNone) = false)
    (h : construct parse F items = .ok ps) :
    ∃ cs, ps.mapM (toC12 parse) = some cs ∧ C12.Consistent F cs :=
  evalExpressions_consistent (ofList_nodup items) hac h hne

/-- a stale file: `b = $a * 2` stored with the value 100 while `a = 3` -/
example : loadFrame (fun t => if t = "$a * 2" then some (.mul (.ref "a") (.lit 2)) else none) C12.F0
    ⟨["Label", "Value", "Expr"], [[.str "a", .flt (.fin 3), .flt .nan], [.str "b", .flt (.fin 100), .str "$a * 2"]]⟩
    = .ok [{ label := "a", value := .fin 3 }, { label := "b", value := .fin 6, expr := some "$a * 2", vary := false }] := by
  decide +kernel


/-! ### specifications: nested groups, numbering, defaults, the programmatic construction

`fromDict` / `fromList` are `Parameters.from_dict` / `from_list` (and `load_parameters` of a yml
string, which calls them on the parsed document).  `T` is Python's `float(str)`. -/

/-- **Labels are the paths joined by dots.**  `flatten_parameter_dict` yields exactly the
    parameter lists that are reachable by following group keys through the nested dict, each
    under the key `k₁.k₂.….kₙ` of its path — nothing else, nothing missing — for dicts of any
    depth and width. -/
theorem flatten_labels (T : FloatTab) (spec : Kids) (r : Except Err Triple) :
    r ∈ flattenKids T spec ↔ ∃ path xs, Reaches spec path xs ∧ r ∈ flattenItems T (joinPath path) xs :=
  ⟨flattenKids_sound T spec r, fun ⟨_, _, hreach, hmem⟩ => flattenKids_complete T hreach r hmem⟩

example : Reaches (.cons "a" (.items []) (.cons "b" (.group (.cons "c" (.items [.bare (.cell (.int 5))]) .nil)) .nil))
    ["b", "c"] [.bare (.cell (.int 5))] ∧ joinPath ["b", "c"] = "b.c" :=
  ⟨.skip _ _ _ _ _ (.down _ _ _ _ _ (.here _ _ _)), by decide⟩

/-- **Parameters come in document order.**  The stream `flatten_parameter_dict` yields is the
    concatenation, over the reachable parameter lists in depth-first document order
    (`kidsPaths`), of the definitions of each list under its dot-joined path — so the order of
    the loaded parameters is the order of the specification. -/
theorem flatten_order (T : FloatTab) (spec : Kids) :
    flattenKids T spec = (kidsPaths spec).flatMap (fun e => flattenItems T (joinPath e.1) e.2) :=
  flattenKids_order T spec

example : kidsPaths (.cons "a" (.items []) (.cons "b" (.group (.cons "c" (.items [.bare (.cell (.int 5))]) .nil)) .nil))
    = [(["a"], []), (["b", "c"], [.bare (.cell (.int 5))])] := by decide

/-- **Automatic numbering.**  A parameter list yields one definition per item that is not a
    dict; the `i`-th of them (counting from 0, default blocks not counted) is numbered `i+1`:
    a bare value `a` becomes `[str(i+1), a]`, a list without a label of its own gets `str(i+1)`
    appended, a list with a label is left alone; the default options are the first dict of the
    list wherever it stands.  Moving or inserting a dict block does not renumber anything, and
    the number `str(i+1)` is never converted by `convert_scientific_to_float` (it has no exponent, so it
    is not a scientific-notation number; see `scientific_string_converted_iff_whole`). -/
theorem numbering_spec (T : FloatTab) (key : String) (xs : List Item) :
    (flattenItems T key xs).length = (nonDict xs).length ∧
    (∀ i, (flattenItems T key xs)[i]? =
      ((nonDict xs)[i]?).map (fun item => (groupItemDef T item i).map (fun d => (key, d, firstDefaults xs)))) ∧
    (∀ i a, groupItemDef T (.bare a) i = .ok [.cell (.str (toString (i + 1))), a]) ∧
    (∀ i l, hasLabel T l = .ok false → groupItemDef T (.lst l) i = .ok (l ++ [.cell (.str (toString (i + 1)))]) ∧
      listItemDef T (.lst l) i = .ok (l ++ [.cell (.str (toString (i + 1)))])) ∧
    (∀ i l, hasLabel T l = .ok true → groupItemDef T (.lst l) i = .ok l ∧ listItemDef T (.lst l) i = .ok l) ∧
    (∀ xs₁ xs₂ o, nonDict (xs₁ ++ .bare (.opts o) :: xs₂) = nonDict (xs₁ ++ xs₂)) ∧
    (∀ i, sanitizeAtom T (numberLabel i) = .ok (numberLabel i)) := by
  refine ⟨flattenItems_length T key xs, flattenItems_getElem? T key xs, fun _ _ => rfl, ?_, ?_,
    nonDict_insert, sanitizeAtom_numberLabel T⟩
  · intro i l h
    simp [groupItemDef, listItemDef, h, numberLabel, bind, Except.bind, pure, Except.pure]
  · intro i l h
    simp [groupItemDef, listItemDef, h, bind, Except.bind, pure, Except.pure]

example : (flattenItems (fun _ => none) "g"
    [.bare (.cell (.int 7)), .bare (.opts [("vary", .bool false)]), .lst [.cell (.flt (.fin 2))]]).map
      (fun r => r.map (fun t => t.2.1)) =
    [.ok [.cell (.str "1"), .cell (.int 7)], .ok [.cell (.flt (.fin 2)), .cell (.str "2")]] := by decide

/-- **A definition is read by type, not by position** (any order of label, value and options,
    surplus atoms ignored). -/
theorem definition_components (vs : List Atom) :
    defLabel vs = (match (vs.filter isStr).head? with | some (.cell c) => c | _ => .str "") ∧
    defValue vs = (match (vs.filter isNum).head? with | some (.cell c) => c | _ => .flt .nan) ∧
    defOptions vs = (match (vs.filter isDict).head? with | some (.opts o) => o | _ => []) :=
  def_components vs

/-- the value an option dict gives to attribute `k`: its last entry whose name — serialized or
    attribute form — deserialises to `k` -/
def optionValue (o : Opts) (k : String) : Option Cell := lastLookup (deserialize o) k

/-- **Defaults, then own options.**  The keyword argument `Parameter.from_list` passes for
    attribute `k` is the parameter's own option if it has one, else the default block's option,
    else (for label and value) what the definition list holds — for every attribute, every
    combination of serialized and attribute names, any number of entries. -/
theorem defaults_then_overrides (vs : List Atom) (defaults : Option Opts) (k : String) :
    lookup (listKwargs vs defaults) k =
      (optionValue (defOptions vs) k).or
        ((defaults.bind (fun d => optionValue d k)).or
          (lookup [("label", defLabel vs), ("value", defValue vs)] k)) := by
  rw [listKwargs_eq, lookup_dictUpdate]
  cases defaults with
  | none => simp [optionValue]
  | some d => simp [optionValue, lookup_dictUpdate]

example : lookup (listKwargs [.cell (.str "k"), .cell (.int 1), .opts [("max", .int 9)]]
    (some [("maximum", .int 5), ("vary", .bool false)])) "maximum" = some (.int 9) ∧
    lookup (listKwargs [.cell (.str "k"), .cell (.int 1), .opts [("max", .int 9)]]
    (some [("maximum", .int 5), ("vary", .bool false)])) "vary" = some (.bool false) := by decide

/-- **A group parameter is the programmatic parameter.**  For a definition whose short label
    `s` and full label `key.s` are both valid labels, `Parameters.from_dict` (construct with the
    short label, then prefix the group) yields exactly `Parameter(**kwargs)` with the full
    label put into the keyword arguments — same parameter, same error.
    Full statement (false for the code, see `dict_eq_programmatic_counterexample`): without
    `hs`, i.e. for every short label whose full label is valid. -/
theorem dict_eq_programmatic_partial (T : FloatTab) (key : String) (d : List Atom) (defaults : Option Opts)
    (vs : List Atom) (s : String) (hsan : sanitize T d = .ok vs)
    (hlab : lookup (listKwargs vs defaults) "label" = some (.str s))
    (hs : validLabel s = true) (hf : validLabel (key ++ "." ++ s) = true) :
    dictParam T (.ok (key, d, defaults)) =
      mkParam (setKey (listKwargs vs defaults) "label" (.str (key ++ "." ++ s))) :=
  dictParam_eq T key d defaults vs s hsan hlab hs hf

set_option maxRecDepth 4000 in
example : dictParam (fun _ => none) (.ok ("kinetic", [.cell (.str "k1"), .cell (.int 2), .opts [("min", .int 0)]], none))
    = .ok { label := "kinetic.k1", value := .fin 2, minimum := .fin 0 } := by decide +kernel

set_option maxRecDepth 4000 in
/-- **Counter-example to the full statement** (known finding `reserved-short-label-in-group`):
    `{kinetic: [[e, 1]]}` is rejected although `Parameter(label="kinetic.e", value=1)` exists. -/
theorem dict_eq_programmatic_counterexample :
    fromDict (fun _ => none) C12.F0 (fun _ => none)
      (.cons "kinetic" (.items [.lst [.cell (.str "e"), .cell (.int 1)]]) .nil) = .error (.invalidLabel "e") ∧
    mkParam [("label", .str "kinetic.e"), ("value", .int 1)] = .ok { label := "kinetic.e", value := .fin 1 } := by
  decide +kernel

/-- **An item without a label of its own is labelled with its number** — in a flat list and in a
    group alike: if the sanitized definition holds no str (a string that is a scientific-notation
    number in full counts as the number it denotes; a string that only starts like one, `1e3x`, is a
    str and is the label), the definition handed to `Parameter.from_list` is the item with
    `str(i+1)` appended, its label is `str(i+1)`, and value and options are what they were. -/
theorem auto_label_spec (T : FloatTab) (l vs : List Atom) (i : Nat) (hsan : sanitize T l = .ok vs)
    (hno : vs.any isStr = false) :
    listItemDef T (.lst l) i = .ok (l ++ [numberLabel i]) ∧
    groupItemDef T (.lst l) i = .ok (l ++ [numberLabel i]) ∧
    sanitize T (l ++ [numberLabel i]) = .ok (vs ++ [numberLabel i]) ∧
    defLabel (vs ++ [numberLabel i]) = .str (toString (i + 1)) ∧
    defValue (vs ++ [numberLabel i]) = defValue vs ∧
    defOptions (vs ++ [numberLabel i]) = defOptions vs := by
  have hl : hasLabel T l = .ok false := by simp [hasLabel, hsan, hno, bind, Except.bind, pure, Except.pure]
  refine ⟨?_, ?_, auto_label T l vs i hsan hno⟩
  · simp [listItemDef, hl, bind, Except.bind, pure, Except.pure]
  · simp [groupItemDef, hl, bind, Except.bind, pure, Except.pure]

/-- the scientific-notation string `"3e2"` alone in a definition: no label, so it is numbered -/
example : sanitize (fun t => if t = "3e2" then some (some (.fin 300)) else none) [.cell (.str "3e2")]
    = .ok [.cell (.flt (.fin 300))] ∧ ([Atom.cell (.flt (.fin 300))].any isStr = false) := by decide

set_option maxRecDepth 4000 in
example : fromList (fun _ => none) C12.F0 (fun t => if t = "3e2" then some (some (.fin 300)) else none)
    [.bare (.cell (.int 1)), .bare (.opts [("non-negative", .bool true)]), .bare (.cell (.str "3e2")),
     .lst [.cell (.flt (.fin 4)), .cell (.str "foo")]]
    = .ok [{ label := "1", value := .fin 1, nonNeg := true }, { label := "2", value := .fin 300, nonNeg := true },
           { label := "foo", value := .fin 4, nonNeg := true }] := by decide +kernel

/-- **Only a string that is a scientific-notation number in full is converted** (`number_scientific` is
    applied with `fullmatch` since the `fix:` commit e7da7c2; before, a number-like prefix was enough and
    `float()` raised on the rest).  `SciNumber` (Lemmas) is the language of the pattern
    `[-+]?[0-9]*\.?[0-9]+([eE][-+]?[0-9]+)`: sign, digits with an optional fraction, exponent letter, sign, digits,
    nothing else.  The scanner of the model accepts exactly these strings; for them the element becomes
    `float(s)` (or the error `float` raises — never for Python's `float`, every such string is a float literal);
    every other string is returned unchanged whatever `float` would do with it — in particular every string
    that does not end in a digit (`1e3x`, `2e5_data.nc`, `1e3 `). -/
theorem scientific_string_converted_iff_whole (T : FloatTab) (s : String) :
    (sciMatch s = true ↔ SciNumber s.toList) ∧
    (SciNumber s.toList →
      (∀ x, T s = some (some x) → sanitizeAtom T (.cell (.str s)) = .ok (.cell (.flt x))) ∧
      (T s = some none → sanitizeAtom T (.cell (.str s)) = .error (.floatError s))) ∧
    (¬ SciNumber s.toList → sanitizeAtom T (.cell (.str s)) = .ok (.cell (.str s))) ∧
    (∀ c, s.toList.getLast? = some c → isDigit c = false →
      sanitizeAtom T (.cell (.str s)) = .ok (.cell (.str s))) := by
  refine ⟨sciMatch_iff s, sanitizeAtom_converted T s, sanitizeAtom_kept T s, ?_⟩
  intro c hc hd
  apply sanitizeAtom_kept
  intro h
  obtain ⟨d, hd', hdig⟩ := sciNumber_getLast h
  rw [hc] at hd'
  cases hd'
  rw [hd] at hdig
  cases hdig

/-- `-.5E+07` is a number in full: sign, no integer digits, fraction, exponent with sign -/
example : SciNumber "-.5E+07".toList :=
  ⟨['-'], [], ['.', '5'], 'E', ['+'], ['0', '7'], (by decide), Or.inr (Or.inr rfl), (by intro c hc; cases hc),
    Or.inr ⟨['5'], rfl, (by decide), (by decide)⟩, Or.inr rfl, Or.inr (Or.inl rfl), (by decide), (by decide)⟩

/-- regression example of the repair: `1e3x` (a label, a file name) starts like a number and is left alone —
    with any `float`, also one that would raise on it; so are `1e3 `, `1e3e4`, `1e+`; `1e3` is converted -/
example (T : FloatTab) : sanitizeAtom T (.cell (.str "1e3x")) = .ok (.cell (.str "1e3x")) :=
  (scientific_string_converted_iff_whole T "1e3x").2.2.2 'x' (by decide) (by decide)

example : sciMatch "1e3x" = false ∧ sciMatch "1e3 " = false ∧ sciMatch "1e3e4" = false ∧ sciMatch "1e+" = false ∧
    sciMatch "2e5_data.nc" = false ∧ sciMatch "1e3" = true ∧ sciMatch "-.5E+07" = true ∧ sciMatch "12.34e56" = true := by
  decide

set_option maxRecDepth 4000 in
/-- … and is the label of its parameter, where the prefix match made `Parameters.from_list` raise -/
example : fromList (fun _ => none) C12.F0 (fun t => if t = "1e3x" then some none else none)
    [.lst [.cell (.str "1e3x"), .cell (.flt (.fin 2))]] = .ok [{ label := "1e3x", value := .fin 2 }] := by decide +kernel

/-! ### the source text of the specification functions is the model

`Generated.Fns.*` (lean/GlotaranModel/Generated/C16Fns.lean) is regenerated on every run from the Python source
of the functions named: every statement translated into Lean over the value types of the model
(harness/props/_c16_fns.py; vocabulary GlotaranModel/C16Py.lean).  Each theorem says that the translated source
computes, for every input, what the hand-written model definition computes — the definitions the driver
executes and all theorems above are about.  `env` carries the three external functions (`float(str)`, the
expression parser, function symbols). -/

/-- a concrete environment for the examples: `float("3e2") = 300.0`, no expressions -/
def env0 : Py.Env :=
  { parse := fun _ => none, F := C12.F0, T := fun t => if t = "3e2" then some (some (.fin 300)) else none }

/-- `convert_scientific_to_float(value)` is the model's conversion of a str atom: `float(value)` when
    `number_scientific` matches the whole string (`fullmatch`, translated to the scanner `sciMatch`), the
    string otherwise.  A source that applies the pattern with `match` again is outside the translated
    subset and this theorem does not build. -/
theorem generated_convert_scientific_to_float_eq_model (env : Py.Env) (value : String) :
    Generated.Fns.convert_scientific_to_float env value = sanitizeAtom env.T (.cell (.str value)) :=
  convert_eq env value

example : Generated.Fns.convert_scientific_to_float env0 "3e2" = .ok (.cell (.flt (.fin 300))) ∧
    Generated.Fns.convert_scientific_to_float env0 "k3e2" = .ok (.cell (.str "k3e2")) ∧
    Generated.Fns.convert_scientific_to_float env0 "3e2x" = .ok (.cell (.str "3e2x")) := by decide +kernel

/-- `sanitize_parameter_list` (the in-place loop over the list) is `sanitize`: element by element, only
    str elements are touched, the first `float()` that raises is the error. -/
theorem generated_sanitize_parameter_list_eq_model (env : Py.Env) (parameter_list : List Atom) :
    Generated.Fns.sanitize_parameter_list env parameter_list = sanitize env.T parameter_list :=
  sanitize_eq env parameter_list

example : Generated.Fns.sanitize_parameter_list env0 [.cell (.str "k"), .cell (.str "3e2"), .opts []] =
    .ok [.cell (.str "k"), .cell (.flt (.fin 300)), .opts []] := by decide +kernel

/-- `deserialize_options` never raises and is the dict of the model's renamed entries (later entries win,
    first position kept); `lookup_dictUpdate_dictOf` (Lemmas) shows that merging this dict with `|=` is merging
    the entries one after the other, which is how `listKwargs` uses it. -/
theorem generated_deserialize_options_eq_model (env : Py.Env) (options : Opts) :
    Generated.Fns.deserialize_options env options = .ok (Py.dictOf (deserialize options)) :=
  deserialize_options_eq env options

example : Generated.Fns.deserialize_options env0 [("max", .int 1), ("vary", .bool false), ("maximum", .int 2)] =
    .ok [("maximum", .int 2), ("vary", .bool false)] := by decide +kernel

/-- `_retrieve_item_from_list_by_type` returns the first element of one of the types (the default if there
    is none) and removes exactly that element from the list — for every list, every tuple of types; it never
    raises (the `tmp[0]` and `.remove` of the source are always defined). -/
theorem generated_retrieve_item_eq_model (env : Py.Env) (item_list : List Atom) (item_type : List Py.Ty) (dflt : Atom) :
    Generated.Fns.retrieve_item_from_list_by_type env item_list item_type dflt =
      .ok ((item_list.find? (fun x => Py.Atom.isinst x item_type)).getD dflt,
           item_list.eraseP (fun x => Py.Atom.isinst x item_type)) :=
  retrieve_eq env item_list item_type dflt

example : Generated.Fns.retrieve_item_from_list_by_type env0 [.cell (.int 1), .cell (.str "a"), .cell (.flt .nan), .cell (.int 1)]
    [Py.Ty.int, Py.Ty.float] (.cell .none) = .ok (.cell (.int 1), [.cell (.str "a"), .cell (.flt .nan), .cell (.int 1)]) := by
  decide +kernel

/-- **`Parameter.from_list` is `paramFromList`**: sanitize a copy, take label, value and options by type in
    that order, defaults first and own options second, then `Parameter(**param)` — same parameter, same
    error, for every definition list and every default block. -/
theorem generated_Parameter_from_list_eq_model (env : Py.Env) (values : List Atom) (default_options : Option Opts) :
    Generated.Fns.Parameter_from_list env values default_options = paramFromList env.T values default_options :=
  Parameter_from_list_eq env values default_options

set_option maxRecDepth 4000 in
example : Generated.Fns.Parameter_from_list env0 [.opts [("max", .int 9)], .cell (.str "3e2"), .cell (.str "k")]
    (some [("maximum", .int 5), ("vary", .bool false)]) =
    .ok { label := "k", value := .fin 300, maximum := .fin 9, vary := false } := by decide +kernel

/-- **`flatten_parameter_dict` is `flattenKids`** for nested dicts of any depth and width: recursion into dict
    values with the keys joined by `.`, the first dict of a list as its default block, numbering from 1 over the
    non-dict items, a bare value becomes `[str(index), value]`, a list without a str (after sanitizing a copy)
    gets `str(index)` appended. -/
theorem generated_flatten_parameter_dict_eq_model (env : Py.Env) (parameter_dict : Kids) :
    Generated.Fns.flatten_parameter_dict env parameter_dict = flattenKids env.T parameter_dict :=
  flatten_eq env parameter_dict

example : Generated.Fns.flatten_parameter_dict env0
    (.cons "a" (.group (.cons "b" (.items [.bare (.opts [("vary", .bool false)]), .bare (.cell (.int 7)), .lst [.cell (.str "3e2")]]) .nil)) .nil) =
    [.ok ("a.b", [.cell (.str "1"), .cell (.int 7)], some [("vary", .bool false)]),
     .ok ("a.b", [.cell (.str "3e2"), .cell (.str "2")], some [("vary", .bool false)])] := by decide +kernel

/-- **`Parameters.from_list` is `fromList`** (numbering `i+1` over the non-dict items, the first dict as
    defaults, dict insertion by label, then `Parameters.__init__`). -/
theorem generated_Parameters_from_list_eq_model (env : Py.Env) (parameter_list : List Item) :
    Generated.Fns.Parameters_from_list env parameter_list = fromList env.parse env.F env.T parameter_list :=
  Parameters_from_list_eq env parameter_list

set_option maxRecDepth 4000 in
example : Generated.Fns.Parameters_from_list env0
    [.bare (.cell (.int 1)), .bare (.opts [("non-negative", .bool true)]), .bare (.cell (.str "3e2")),
     .lst [.cell (.flt (.fin 4)), .cell (.str "foo")]]
    = .ok [{ label := "1", value := .fin 1, nonNeg := true }, { label := "2", value := .fin 300, nonNeg := true },
           { label := "foo", value := .fin 4, nonNeg := true }] := by decide +kernel

/-- **`Parameters.from_dict` is `fromDict`** (every flattened definition through `Parameter.from_list`, the
    group path prefixed with a dot, the label assignment validated, dict insertion, `Parameters.__init__`). -/
theorem generated_Parameters_from_dict_eq_model (env : Py.Env) (parameter_dict : Kids) :
    Generated.Fns.Parameters_from_dict env parameter_dict = fromDict env.parse env.F env.T parameter_dict :=
  Parameters_from_dict_eq env parameter_dict

set_option maxRecDepth 4000 in
example : Generated.Fns.Parameters_from_dict env0
    (.cons "kinetic" (.items [.lst [.cell (.str "k1"), .cell (.int 2), .opts [("min", .int 0)]], .bare (.cell (.str "3e2"))]) .nil)
    = .ok [{ label := "kinetic.k1", value := .fin 2, minimum := .fin 0 }, { label := "kinetic.2", value := .fin 300 }] := by
  decide +kernel

end Glotaran.C16
